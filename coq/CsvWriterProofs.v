(* CsvWriterProofs.v — what the CSV writers produce (closed form) and how it relates to RFC 4180. *)
From BS Require Import Base CsvSpec CsvSpecProofs CsvModel.
From Coq Require Import ZifyBool ZifyN ZifyNat.
Ltac Zify.zify_post_hook ::= Z.div_mod_to_equations.
Local Open Scope N_scope.

(* ---------- WriteEscapedValue ---------- *)

(* the library's own criterion for quoting a field *)
Definition lib_quote (sep : N) (f : field) : bool := existsb (must_escape sep) f.
Definition wfield (sep : N) (f : field) : list N := rfield (lib_quote sep f) f.

Lemma must_escape_special sep c : must_escape sep c = special sep c.
Proof. unfold must_escape, special. destruct (c =? DQ), (c =? sep), (c =? LF), (c =? CR); reflexivity. Qed.

(* the library quotes exactly the fields RFC 4180 cannot carry bare *)
Lemma lib_quote_needs sep f : lib_quote sep f = needs_quote sep f.
Proof.
  unfold lib_quote, needs_quote. induction f as [|c f IH]; [reflexivity|].
  cbn [existsb]. rewrite must_escape_special, IH. reflexivity.
Qed.

Lemma find_special_spec sep l :
  l = fst (find_special sep l) ++ snd (find_special sep l) /\
  existsb (must_escape sep) (fst (find_special sep l)) = false /\
  (snd (find_special sep l) = [] \/ exists c t, snd (find_special sep l) = c :: t /\ must_escape sep c = true).
Proof.
  induction l as [|c l IH]; cbn [find_special].
  - cbn. auto.
  - destruct (must_escape sep c) eqn:E.
    + cbn. split; [reflexivity|]. split; [reflexivity|]. right. exists c, l. auto.
    + destruct (find_special sep l) as [a b]. cbn [fst snd] in *. destruct IH as (H1 & H2 & H3).
      split; [cbn; f_equal; exact H1|]. split; [cbn; rewrite E, H2; reflexivity | exact H3].
Qed.

Lemma escape_rest_esc l : escape_rest l = esc l.
Proof.
  induction l as [|c l IH]; [reflexivity|]. unfold esc in *. cbn [escape_rest flat_map].
  destruct (c =? DQ) eqn:E.
  - apply N.eqb_eq in E. subst c. cbn [app]. rewrite IH. reflexivity.
  - cbn [app]. rewrite IH. reflexivity.
Qed.

Lemma esc_plain sep a : existsb (must_escape sep) a = false -> esc a = a.
Proof.
  induction a as [|c a IH]; intros H; [reflexivity|].
  cbn [existsb] in H. apply orb_false_iff in H. destruct H as [Hc Ha].
  unfold must_escape in Hc. rewrite !orb_false_iff in Hc. destruct Hc as [[[Hc _] _] _].
  unfold esc in *. cbn [flat_map]. rewrite Hc. cbn [app]. rewrite IH by exact Ha. reflexivity.
Qed.

Lemma esc_app a b : esc (a ++ b) = esc a ++ esc b.
Proof. unfold esc. apply flat_map_app. Qed.

Lemma write_escaped_spec sep f out : write_escaped sep f out = out ++ wfield sep f.
Proof.
  unfold write_escaped, wfield, lib_quote.
  pose proof (find_special_spec sep f) as (H1 & H2 & H3).
  destruct (find_special sep f) as [a b]. cbn [fst snd] in *.
  assert (E : existsb (must_escape sep) f = existsb (must_escape sep) b).
  { rewrite H1 at 1. rewrite existsb_app, H2. reflexivity. }
  destruct H3 as [->|(c & t & -> & Hc)].
  - rewrite E. cbn [existsb rfield]. reflexivity.
  - rewrite E. cbn [existsb]. rewrite Hc. cbn [orb rfield]. unfold quoted.
    rewrite H1, esc_app, (esc_plain sep a H2), escape_rest_esc. rewrite <- app_assoc. reflexivity.
Qed.

(* ---------- the writers: closed form of the output ---------- *)

Definition wtail (sep : N) (l : list field) : list N := flat_map (fun f => sep :: wfield sep f) l.
Definition wrecord (sep : N) (l : list field) : list N :=
  match l with [] => [] | f :: l' => wfield sep f ++ wtail sep l' end.
(* the values written after v values are already in the row *)
Definition wseq (sep : N) (v : nat) (l : list field) : list N :=
  match v with O => wrecord sep l | S _ => wtail sep l end.

Lemma wseq_cons sep v f l :
  wseq sep v (f :: l) = (if nat_is0 v then wfield sep f else sep :: wfield sep f) ++ wseq sep (S v) l.
Proof. destruct v; reflexivity. Qed.

Lemma wseq_nil sep v : wseq sep v [] = [].
Proof. destruct v; reflexivity. Qed.

Definition lib_text (sep : N) (t : table) : list N := flat_map (fun r => wrecord sep r ++ [CR; LF]) t.

(* WriteValue over the members of one object, string writer *)
Lemma sw_write_values sep hd : forall kvs w,
  write_values WString hd sep w kvs =
  mkW (if nat_is0 (w_rowidx w) && hd then w_out w ++ wseq sep (w_validx w) (map fst kvs) else w_out w)
      (w_header w) (w_row w ++ wseq sep (w_validx w) (map snd kvs)) (w_rowidx w)
      (w_validx w + length kvs) (w_prev w).
Proof.
  induction kvs as [|[k v] kvs IH]; intros w.
  - cbn [write_values map length]. rewrite !wseq_nil, !app_nil_r, Nat.add_0_r.
    destruct w as [o h rw ri vi pv]; cbn. destruct (nat_is0 ri && hd); reflexivity.
  - cbn [write_values write_value map length fst snd]. rewrite IH. clear IH.
    unfold sw_write_value. cbn [w_out w_header w_row w_rowidx w_validx w_prev].
    rewrite !write_escaped_spec, !wseq_cons.
    f_equal.
    + destruct (nat_is0 (w_rowidx w) && hd); [|reflexivity].
      destruct (nat_is0 (w_validx w)); rewrite <- !app_assoc; reflexivity.
    + destruct (nat_is0 (w_validx w)); rewrite <- !app_assoc; reflexivity.
    + lia.
Qed.

(* the same for the stream writer: the header goes to mCsvHeader *)
Lemma tw_write_values b sep hd : forall kvs w,
  write_values (WStream b) hd sep w kvs =
  mkW (w_out w)
      (if nat_is0 (w_rowidx w) && hd then w_header w ++ wseq sep (w_validx w) (map fst kvs) else w_header w)
      (w_row w ++ wseq sep (w_validx w) (map snd kvs)) (w_rowidx w)
      (w_validx w + length kvs) (w_prev w).
Proof.
  induction kvs as [|[k v] kvs IH]; intros w.
  - cbn [write_values map length]. rewrite !wseq_nil, !app_nil_r, Nat.add_0_r.
    destruct w as [o h rw ri vi pv]; cbn. destruct (nat_is0 ri && hd); reflexivity.
  - cbn [write_values write_value map length fst snd]. rewrite IH. clear IH.
    unfold tw_write_value. cbn [w_out w_header w_row w_rowidx w_validx w_prev].
    rewrite !write_escaped_spec, !wseq_cons.
    f_equal.
    + destruct (nat_is0 (w_rowidx w) && hd); [|reflexivity].
      destruct (nat_is0 (w_validx w)); rewrite <- !app_assoc; reflexivity.
    + destruct (nat_is0 (w_validx w)); rewrite <- !app_assoc; reflexivity.
    + lia.
Qed.

Lemma with_keys_fst hdr : forall row, length row = length hdr -> map fst (with_keys hdr row) = hdr.
Proof.
  induction hdr as [|h hdr IH]; intros [|v row] H; cbn in *; try discriminate; try reflexivity.
  f_equal. apply IH. lia.
Qed.

Lemma with_keys_snd hdr : forall row, map snd (with_keys hdr row) = row.
Proof.
  intros row. revert hdr. induction row as [|v row IH]; intros hdr; [reflexivity|].
  destruct hdr; cbn; f_equal; apply IH.
Qed.

Lemma with_keys_length hdr : forall row, length (with_keys hdr row) = length row.
Proof.
  intros row. revert hdr. induction row as [|v row IH]; intros hdr; [reflexivity|].
  destruct hdr; cbn; f_equal; apply IH.
Qed.

(* rows after the first, string writer *)
Lemma sw_save_rows_later sep hdr : forall rows w, uniform hdr rows ->
  w_rowidx w <> O -> w_validx w = O -> w_row w = [] -> w_prev w = length hdr ->
  exists w', save_rows WString sep w (map (with_keys hdr) rows) = Ok w' /\
             w_out w' = w_out w ++ lib_text sep rows.
Proof.
  induction rows as [|r rows IH]; intros w U Hi Hv Hr Hp.
  - exists w. cbn. rewrite app_nil_r. auto.
  - inversion U as [|? ? Hlen U']. subst. change (@length field) with (@length (list N)) in *.
    cbn [map save_rows]. rewrite sw_write_values. unfold next_line, sw_next_line.
    cbn [w_out w_header w_row w_rowidx w_validx w_prev].
    destruct (w_rowidx w) as [|i] eqn:Ei; [congruence|]. cbn [nat_is0 andb].
    rewrite Hv, Hr, Hp, with_keys_length, with_keys_snd, Hlen. cbn [Nat.add].
    rewrite Nat.eqb_refl. cbn [negb app wseq].
    match goal with |- context [save_rows _ _ ?w1 _] => destruct (IH w1 U') as (w' & E & Ho) end;
      cbn [w_rowidx w_validx w_row w_prev]; try reflexivity; try discriminate.
    exists w'. split; [exact E|]. rewrite Ho. cbn [w_out lib_text flat_map]. rewrite <- !app_assoc. reflexivity.
Qed.

Lemma sw_save_rows sep hdr r rows : uniform hdr (r :: rows) ->
  exists w', save_rows WString sep string_writer_new (map (with_keys hdr) (r :: rows)) = Ok w' /\
             w_out w' = lib_text sep (hdr :: r :: rows).
Proof.
  intros U. inversion U as [|? ? Hlen U']. subst. change (@length field) with (@length (list N)) in *.
  cbn [map save_rows]. rewrite sw_write_values. unfold next_line, sw_next_line, string_writer_new.
  cbn [w_out w_header w_row w_rowidx w_validx w_prev nat_is0 andb app Nat.add].
  rewrite with_keys_length, with_keys_snd, with_keys_fst by exact Hlen. cbn [wseq].
  match goal with |- context [save_rows _ _ ?w1 _] => destruct (sw_save_rows_later sep hdr rows w1 U') as (w' & E & Ho) end;
    cbn [w_rowidx w_validx w_row w_prev]; try reflexivity; try discriminate; try exact Hlen.
  exists w'. split; [exact E|]. rewrite Ho. cbn [w_out lib_text flat_map]. rewrite <- !app_assoc. reflexivity.
Qed.

(* the same for the stream writer *)
Lemma tw_save_rows_later b sep hdr : forall rows w, uniform hdr rows ->
  w_rowidx w <> O -> w_validx w = O -> w_row w = [] -> w_prev w = length hdr ->
  exists w', save_rows (WStream b) sep w (map (with_keys hdr) rows) = Ok w' /\
             w_out w' = w_out w ++ lib_text sep rows.
Proof.
  induction rows as [|r rows IH]; intros w U Hi Hv Hr Hp.
  - exists w. cbn. rewrite app_nil_r. auto.
  - inversion U as [|? ? Hlen U']. subst. change (@length field) with (@length (list N)) in *.
    cbn [map save_rows]. rewrite tw_write_values. unfold next_line, tw_next_line.
    cbn [w_out w_header w_row w_rowidx w_validx w_prev].
    destruct (w_rowidx w) as [|i] eqn:Ei; [congruence|]. cbn [nat_is0 andb].
    rewrite Hv, Hr, Hp, with_keys_length, with_keys_snd, Hlen. cbn [Nat.add].
    rewrite Nat.eqb_refl. cbn [negb app wseq].
    match goal with |- context [save_rows _ _ ?w1 _] => destruct (IH w1 U') as (w' & E & Ho) end;
      cbn [w_rowidx w_validx w_row w_prev]; try reflexivity; try discriminate.
    exists w'. split; [exact E|]. rewrite Ho. cbn [w_out lib_text flat_map]. rewrite <- !app_assoc. reflexivity.
Qed.

Lemma tw_save_rows b sep hdr r rows : uniform hdr (r :: rows) ->
  exists w', save_rows (WStream b) sep (stream_writer_new b) (map (with_keys hdr) (r :: rows)) = Ok w' /\
             w_out w' = (if b then utf8_bom else []) ++ lib_text sep (hdr :: r :: rows).
Proof.
  intros U. inversion U as [|? ? Hlen U']. subst. change (@length field) with (@length (list N)) in *.
  cbn [map save_rows]. rewrite tw_write_values. unfold next_line, tw_next_line, stream_writer_new.
  cbn [w_out w_header w_row w_rowidx w_validx w_prev nat_is0 andb app Nat.add].
  rewrite with_keys_length, with_keys_snd, with_keys_fst by exact Hlen. cbn [wseq].
  match goal with |- context [save_rows _ _ ?w1 _] => destruct (tw_save_rows_later b sep hdr rows w1 U') as (w' & E & Ho) end;
    cbn [w_rowidx w_validx w_row w_prev]; try reflexivity; try discriminate; try exact Hlen.
  exists w'. split; [exact E|]. rewrite Ho. cbn [w_out lib_text flat_map]. rewrite <- !app_assoc. reflexivity.
Qed.

Lemma allowed_validate sep : allowed sep -> validate_separator sep = true.
Proof.
  unfold allowed, allowed_seps. cbn [In]. intros [<-|[<-|[<-|[<-|[<-|[]]]]]]; reflexivity.
Qed.

(* closed form: header line, then one CRLF-terminated line per row, fields quoted by the library's criterion *)
Theorem csv_write_closed sep hdr rows : allowed sep -> rows <> [] -> uniform hdr rows ->
  csv_write sep hdr rows = Ok (lib_text sep (hdr :: rows)).
Proof.
  intros A Hne U. destruct rows as [|r rows]; [congruence|].
  unfold csv_write, csv_save. rewrite (allowed_validate sep A). cbn [negb].
  destruct (sw_save_rows sep hdr r rows U) as (w' & E & Ho).
  change (writer_new WString) with string_writer_new. rewrite E, Ho. reflexivity.
Qed.

Theorem csv_write_stream_closed b sep hdr rows : allowed sep -> rows <> [] -> uniform hdr rows ->
  csv_write_stream b sep hdr rows = Ok ((if b then utf8_bom else []) ++ lib_text sep (hdr :: rows)).
Proof.
  intros A Hne U. destruct rows as [|r rows]; [congruence|].
  unfold csv_write_stream, csv_save. rewrite (allowed_validate sep A). cbn [negb].
  destruct (tw_save_rows b sep hdr r rows U) as (w' & E & Ho).
  change (writer_new (WStream b)) with (stream_writer_new b). rewrite E, Ho. reflexivity.
Qed.

(* ---------- the output against RFC 4180 ---------- *)

Lemma wfield_min sep f : wfield sep f = mfield sep f.
Proof. unfold wfield, mfield. rewrite lib_quote_needs. reflexivity. Qed.

Lemma wrecord_min sep r : wrecord sep r = mrecord sep r.
Proof.
  destruct r as [|f r]; [reflexivity|].
  cbn [wrecord mrecord]. rewrite wfield_min. f_equal.
  unfold wtail. induction r as [|g r IH]; [reflexivity|]. cbn [flat_map]. rewrite wfield_min, IH. reflexivity.
Qed.

Lemma lib_text_min sep t : lib_text sep t = min_text sep t.
Proof.
  unfold lib_text, min_text. induction t as [|r t IH]; [reflexivity|].
  cbn [flat_map]. rewrite wrecord_min, IH. reflexivity.
Qed.

Lemma uniform_nonempty hdr rows : hdr <> [] -> uniform hdr rows -> Forall (fun r : record => r <> []) (hdr :: rows).
Proof.
  intros H U. constructor; [exact H|]. unfold uniform in U. rewrite Forall_forall in *. intros r Hr Er.
  specialize (U r Hr). subst r. destruct hdr; [congruence|discriminate].
Qed.

(* the writer's text is the minimal CRLF rendering of the table (every field quoted exactly when RFC 4180 needs it),
   hence parsed back by the reference parser *)
Theorem csv_write_is_min_rendering sep hdr rows : allowed sep -> rows <> [] -> hdr <> [] -> uniform hdr rows ->
  exists text, csv_write sep hdr rows = Ok text /\
    render sep (map (min_choice sep) (hdr :: rows)) true (hdr :: rows) = Some text.
Proof.
  intros A Hr Hh U. exists (lib_text sep (hdr :: rows)). split; [apply csv_write_closed; assumption|].
  rewrite lib_text_min. apply render_min; [discriminate|]. apply uniform_nonempty; assumption.
Qed.

Theorem csv_write_rfc sep hdr rows : allowed sep -> rows <> [] -> hdr <> [] -> uniform hdr rows ->
  exists text, csv_write sep hdr rows = Ok text /\ rfc_parse sep text = Some (hdr :: rows).
Proof.
  intros A Hr Hh U. destruct (csv_write_is_min_rendering sep hdr rows A Hr Hh U) as (text & E & R).
  exists text. split; [exact E|]. apply (render_parse sep _ true _ _ (allowed_sane sep A) R).
Qed.

(* field level: quoted exactly when the RFC needs it *)
Lemma write_escaped_iff_needed sep f out :
  write_escaped sep f out = out ++ (if needs_quote sep f then quoted f else f).
Proof. rewrite write_escaped_spec. unfold wfield. rewrite lib_quote_needs. reflexivity. Qed.

(* the writer classes report a row of another width as OutOfRange; under SaveObject the report leaves
   ~CCsvWriteObjectScope (F18) *)
Lemma next_line_width k hd w : w_rowidx w <> O -> w_validx w <> w_prev w -> next_line k hd w = Err OutOfRange.
Proof.
  intros Hi Hv. destruct k; cbn [next_line]; unfold sw_next_line, tw_next_line;
    destruct (w_rowidx w); try congruence; cbn [nat_is0];
    rewrite (proj2 (Nat.eqb_neq _ _) Hv); reflexivity.
Qed.

Lemma write_values_fields k hd sep : forall kvs w,
  w_rowidx (write_values k hd sep w kvs) = w_rowidx w /\
  w_validx (write_values k hd sep w kvs) = (w_validx w + length kvs)%nat /\
  w_prev (write_values k hd sep w kvs) = w_prev w.
Proof.
  intros kvs w. destruct k; cbn [write_values]; [rewrite sw_write_values | rewrite tw_write_values]; cbn; auto.
Qed.

Lemma next_line_ok k hd w : (w_rowidx w = O \/ w_validx w = w_prev w) ->
  exists w', next_line k hd w = Ok w' /\ w_rowidx w' = S (w_rowidx w) /\ w_validx w' = O /\
             w_prev w' = (if nat_is0 (w_rowidx w) then w_validx w else w_prev w).
Proof.
  intros H. destruct k; cbn [next_line]; unfold sw_next_line, tw_next_line;
    destruct (w_rowidx w) as [|i]; cbn [nat_is0];
    try (eexists; split; [reflexivity|]; cbn; auto; fail);
    (destruct H as [H|H]; [discriminate|]); rewrite H, Nat.eqb_refl; cbn [negb];
    eexists; (split; [reflexivity|]); cbn; auto.
Qed.

(* some row is not as wide as the first row *)
Definition ragged {A} (rows : list (list A)) : Prop :=
  match rows with [] => False | r :: rows' => Exists (fun x => length x <> length r) rows' end.

Lemma rows_later_ragged k hd sep n : forall (rows : list (list (list N * list N))) w,
  w_rowidx w <> O -> w_validx w = O -> w_prev w = n -> Exists (fun x => length x <> n) rows ->
  writer_rows k hd sep w rows = Err OutOfRange /\ save_rows k sep w rows = Err OutOfRange.
Proof.
  induction rows as [|r rows IH]; intros w Hi Hv Hp Ex; [inversion Ex|].
  destruct (Nat.eq_dec (length r) n) as [E|NE].
  - assert (Ex' : Exists (fun x => length x <> n) rows) by (inversion Ex; [congruence|assumption]).
    cbn [writer_rows save_rows].
    split.
    + pose proof (write_values_fields k hd sep r w) as (F1 & F2 & F3).
      destruct (next_line_ok k hd (write_values k hd sep w r)) as (w' & -> & G1 & G2 & G3); [right; lia|].
      apply IH; try assumption; [lia|]. rewrite G3, F1. destruct (w_rowidx w); [congruence|]. cbn. lia.
    + pose proof (write_values_fields k true sep r w) as (F1 & F2 & F3).
      destruct (next_line_ok k true (write_values k true sep w r)) as (w' & -> & G1 & G2 & G3); [right; lia|].
      apply (IH w'); try assumption; [lia|]. rewrite G3, F1. destruct (w_rowidx w); [congruence|]. cbn. lia.
  - cbn [writer_rows save_rows]. split.
    + pose proof (write_values_fields k hd sep r w) as (F1 & F2 & F3).
      rewrite next_line_width; [reflexivity | lia | lia].
    + pose proof (write_values_fields k true sep r w) as (F1 & F2 & F3).
      rewrite next_line_width; [reflexivity | lia | lia].
Qed.

Theorem ragged_rows_reported k hd sep (rows : list (list (list N * list N))) : ragged rows ->
  writer_run k hd sep rows = Err OutOfRange /\
  (validate_separator sep = true -> csv_save k sep rows = Err OutOfRange).
Proof.
  destruct rows as [|r rows]; [intros []|]. cbn [ragged]. intros Ex.
  unfold writer_run, csv_save. cbn [writer_rows save_rows].
  split.
  - pose proof (write_values_fields k hd sep r (writer_new k)) as (F1 & F2 & F3).
    destruct (next_line_ok k hd (write_values k hd sep (writer_new k) r)) as (w' & -> & G1 & G2 & G3).
    { left. rewrite F1. destruct k; reflexivity. }
    destruct (rows_later_ragged k hd sep (length r) rows w') as [-> _]; try assumption; try reflexivity; [lia|].
    rewrite G3, F1, F2. destruct k; reflexivity.
  - intros ->. cbn [negb].
    pose proof (write_values_fields k true sep r (writer_new k)) as (F1 & F2 & F3).
    destruct (next_line_ok k true (write_values k true sep (writer_new k) r)) as (w' & -> & G1 & G2 & G3).
    { left. rewrite F1. destruct k; reflexivity. }
    destruct (rows_later_ragged k true sep (length r) rows w') as [_ ->]; try assumption; try reflexivity; [lia|].
    rewrite G3, F1, F2. destruct k; reflexivity.
Qed.

Lemma with_keys_ragged hdr (rows : list record) : ragged rows -> ragged (map (with_keys hdr) rows).
Proof.
  destruct rows as [|r rows]; [intros []|]. cbn [ragged map]. intros Ex.
  rewrite with_keys_length. apply Exists_exists in Ex. destruct Ex as (x & Hin & Hx).
  apply Exists_exists. exists (with_keys hdr x). split; [apply in_map; exact Hin|]. rewrite with_keys_length. exact Hx.
Qed.
