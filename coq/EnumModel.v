(* EnumModel.v — executable mirror of /repo/include/bitserializer/conversion_detail/convert_enum.h
   (EnumRegistry<T>::GetEnumMetadata(value), GetEnumMetadata(string_view<TSym>), Convert::Detail::To in
   both directions) and of the enum branch of serialization_base_types.h (Serialize of an enum value:
   saved as its registered name, loaded through ConvertByPolicy).  No proofs here.

   Data: a registry is the array of descriptors in registration order; a name is the list of its bytes
   as unsigned numbers (what `(unsigned char) Name[i]` is); a text is a list of code units given as
   the unsigned bit pattern of the unit (wchar_t, a signed 32-bit type here, by its uint32_t pattern). *)
From BS Require Import Base EnumSpec.
Local Open Scope N_scope.

Inductive outcome (A : Type) := Ok (a : A) | InvalidArgument.   (* std::invalid_argument is the only throw *)
Arguments Ok {A} a.
Arguments InvalidArgument {A}.

(* ---- std::tolower (external, <cctype>, "C" locale, glibc): the assumed behaviour, validated by the
   correspondence run (op `tl`): letters 'A'..'Z' are lowered; -128..-2 (a negative char that is not
   EOF, undefined by the standard, defined by glibc's table) come back as c + 256; EOF and everything
   outside -128..255 is returned unchanged. *)
Definition tolower_c (c : Z) : Z :=
  if ((-128 <=? c) && (c <=? -2))%Z then (c + 256)%Z
  else if ((65 <=? c) && (c <=? 90))%Z then (c + 32)%Z
  else c.

(* static_cast<int>(it->Name[i]) : char is signed on this platform *)
Definition char_int (b : N) : Z := if b <? 128 then Z.of_N b else (Z.of_N b - 256)%Z.

(* the int that std::tolower(name[i]) receives for a unit of the text:
   char: sign extension; char16_t: promotion (0..65535); char32_t: conversion uint32 -> int (modular);
   wchar_t: is an int *)
Definition unit_int (w : width) (u : N) : Z :=
  match w with
  | W8 => char_int u
  | W16 => Z.of_N u
  | W32 | WW => if u <? 2147483648 then Z.of_N u else (Z.of_N u - 4294967296)%Z
  end.

(* the inner loop of GetEnumMetadata(name): for (i = 0; i < nameSize; ++i) if (tolower(..) != tolower(..)) -> no match.
   Called only when the sizes are equal; a size mismatch is answered false *)
Fixpoint name_matches (w : width) (stored text : list N) : bool :=
  match stored, text with
  | [], [] => true
  | b :: stored', u :: text' =>
      if (tolower_c (char_int b) =? tolower_c (unit_int w u))%Z then name_matches w stored' text' else false
  | _, _ => false
  end.

(* GetEnumMetadata(std::basic_string_view<TSym> name): first descriptor of equal size whose name matches *)
Fixpoint find_by_name (w : width) (r : registry) (text : list N) : option (Z * list N) :=
  match r with
  | [] => None
  | (v, n) :: r' =>
      if (N.of_nat (length n) =? N.of_nat (length text)) && name_matches w n text then Some (v, n)
      else find_by_name w r' text
  end.

(* GetEnumMetadata(TEnum val): first descriptor with that value *)
Fixpoint find_by_value (r : registry) (v : Z) : option (Z * list N) :=
  match r with
  | [] => None
  | (v', n) :: r' => if (v' =? v)%Z then Some (v', n) else find_by_value r' v
  end.

(* ret_Str.append(Name.cbegin(), Name.cend()): each char converted to TSym by integral conversion *)
Definition widen (w : width) (b : N) : N :=
  match w with
  | W8 => b
  | W16 => if b <? 128 then b else b + 65280            (* 0xFF00 + b *)
  | W32 | WW => if b <? 128 then b else b + 4294967040  (* 0xFFFFFF00 + b *)
  end.

(* Convert::Detail::To(T val, std::basic_string<TSym>&) *)
Definition to_text (w : width) (r : registry) (v : Z) : outcome (list N) :=
  match find_by_value r v with
  | Some (_, n) => Ok (map (widen w) n)
  | None => InvalidArgument
  end.

(* Convert::Detail::To(std::basic_string_view<TSym> in, T& out) *)
Definition from_text (w : width) (r : registry) (text : list N) : outcome Z :=
  match find_by_name w r text with
  | Some (v, _) => Ok v
  | None => InvalidArgument
  end.

(* ---- the archives (serialization_base_types.h, Serialize of an enum): save writes the registered
   name as a UTF-8 string value or throws UnregisteredEnum; load reads a string and converts it
   (std::string_view, so width char); under MismatchedTypesPolicy::ThrowError an unknown name is a
   MismatchedTypes error (the string is the source, not the enum), under Skip the target keeps its value *)
Inductive save_outcome := Saved (name : list N) | UnregisteredEnum.
Definition save_enum (r : registry) (v : Z) : save_outcome :=
  match find_by_value r v with Some (_, n) => Saved n | None => UnregisteredEnum end.

Inductive load_outcome := Loaded (v : Z) | MismatchedTypes | Kept.
Definition load_enum (r : registry) (throw_on_mismatch : bool) (text : list N) : load_outcome :=
  match from_text W8 r text with
  | Ok v => Loaded v
  | InvalidArgument => if throw_on_mismatch then MismatchedTypes else Kept
  end.

(* std::map<E, int> through an archive: every key is written as its registered name (Convert::To<std::string>(key);
   an unregistered key lets std::invalid_argument escape from SaveObject), the document's keys are converted
   back in document order (= ascending key order of the saved map) and stored with map[key] = value, so of
   two saved keys that load as the same value the later one wins.  The loaded map is listed in ascending key order. *)
Fixpoint map_put (k : Z) (x : N) (m : list (Z * N)) : list (Z * N) :=
  match m with
  | [] => [(k, x)]
  | (k', x') :: m' =>
      if (k =? k')%Z then (k, x) :: m'
      else if (k <? k')%Z then (k, x) :: m
      else (k', x') :: map_put k x m'
  end.

Inductive map_outcome := MapLoaded (m : list (Z * N)) | MapSaveInvalidArgument | MapLoadMismatched.

Fixpoint map_save (r : registry) (m : list (Z * N)) : option (list (list N * N)) :=
  match m with
  | [] => Some []
  | (k, x) :: m' =>
      match to_text W8 r k, map_save r m' with
      | Ok n, Some d => Some ((n, x) :: d)
      | _, _ => None
      end
  end.

Fixpoint map_load (r : registry) (doc : list (list N * N)) (acc : list (Z * N)) : map_outcome :=
  match doc with
  | [] => MapLoaded acc
  | (n, x) :: doc' =>
      match from_text W8 r n with
      | Ok k => map_load r doc' (map_put k x acc)
      | InvalidArgument => MapLoadMismatched
      end
  end.

Definition map_roundtrip (r : registry) (m : list (Z * N)) : map_outcome :=
  match map_save r m with
  | Some doc => map_load r doc []
  | None => MapSaveInvalidArgument
  end.
