(* EnumProofs.v — proofs about the enum conversion model (EnumModel.v) against EnumSpec.v. *)
From BS Require Import Base EnumSpec EnumModel.
From Coq Require Import ZifyBool ZifyN ZifyNat.
Ltac Zify.zify_post_hook ::= Z.div_mod_to_equations.
Local Open Scope N_scope.

(* hypotheses of the theorems, as boolean predicates *)
Definition names_ok (w : width) (r : registry) : bool :=       (* for "from_text means the spec" *)
  match w with W8 => bytes_names r | _ => ascii_names r end.
Definition rt_ok (w : width) (r : registry) : bool :=          (* for the round trip *)
  match w with W16 => ascii_names r | _ => bytes_names r end.
Definition byte_ok (w : width) (b : N) : bool := match w with W16 => b <? 128 | _ => b <? 256 end.
Definition nbyte_ok (w : width) (b : N) : bool := match w with W8 => b <? 256 | _ => b <? 128 end.

(* ---------------------------------------------------------------- boolean list predicates *)
Lemma list_eqb_eq a : forall b, list_eqb a b = true <-> a = b.
Proof.
  induction a as [|x a IH]; destruct b as [|y b]; cbn [list_eqb]; split; intro H; try easy.
  - apply andb_true_iff in H as [H1 H2]. apply N.eqb_eq in H1. apply IH in H2. now subst.
  - inversion H; subst. apply andb_true_iff. split. apply N.eqb_refl. now apply IH.
Qed.

Lemma memZ_in x l : memZ x l = true <-> In x l.
Proof.
  induction l as [|y l IH]; cbn [memZ In]. easy.
  rewrite orb_true_iff, IH, Z.eqb_eq. intuition.
Qed.
Lemma nodupZ_NoDup l : nodupZ l = true -> NoDup l.
Proof.
  induction l as [|x l IH]; cbn [nodupZ]; intro H. constructor.
  apply andb_true_iff in H as [H1 H2]. constructor; [|now apply IH].
  intro Hin. apply memZ_in in Hin. rewrite Hin in H1. discriminate.
Qed.
Lemma memL_in x l : memL x l = true <-> In x l.
Proof.
  induction l as [|y l IH]; cbn [memL In]. easy.
  rewrite orb_true_iff, IH, list_eqb_eq. intuition.
Qed.
Lemma nodupL_NoDup l : nodupL l = true -> NoDup l.
Proof.
  induction l as [|x l IH]; cbn [nodupL]; intro H. constructor.
  apply andb_true_iff in H as [H1 H2]. constructor; [|now apply IH].
  intro Hin. apply memL_in in Hin. rewrite Hin in H1. discriminate.
Qed.

Lemma all_below_n_spec k s : all_below_n k s = true <-> (forall b, In b s -> b < k).
Proof.
  unfold all_below_n. rewrite forallb_forall. split; intros H b Hb; specialize (H b Hb); lia.
Qed.

Lemma names_spec k (r : registry) : forallb (fun e => all_below_n k (snd e)) r = true ->
  forall v n b, In (v, n) r -> In b n -> b < k.
Proof.
  intros H v n b Hin Hb. rewrite forallb_forall in H. specialize (H _ Hin). cbn [snd] in H.
  apply (proj1 (all_below_n_spec k n) H). exact Hb.
Qed.

Lemma ascii_bytes r : ascii_names r = true -> bytes_names r = true.
Proof.
  unfold ascii_names, bytes_names. rewrite !forallb_forall. intros H e He. specialize (H e He).
  rewrite all_below_n_spec in *. intros b Hb. specialize (H b Hb). lia.
Qed.

(* ---------------------------------------------------------------- one unit *)
Definition g (b : N) : Z := tolower_c (char_int b).

Lemma g_byte b : b < 256 -> g b = if b =? 255 then (-1)%Z else Z.of_N (fold b).
Proof.
  intro Hb. unfold g, tolower_c, char_int, fold, is_upper.
  destruct (N.ltb_spec b 128); destruct (N.eqb_spec b 255); try lia.
  - destruct (N.leb_spec 65 b); destruct (N.leb_spec b 90); cbn [andb];
      destruct (Z.leb_spec (-128) (Z.of_N b)); destruct (Z.leb_spec (Z.of_N b) (-2)); cbn [andb]; try lia;
      destruct (Z.leb_spec 65 (Z.of_N b)); destruct (Z.leb_spec (Z.of_N b) 90); cbn [andb]; lia.
  - subst b. reflexivity.
  - destruct (N.leb_spec 65 b); destruct (N.leb_spec b 90); cbn [andb]; try lia;
      destruct (Z.leb_spec (-128) (Z.of_N b - 256)); destruct (Z.leb_spec (Z.of_N b - 256) (-2)); cbn [andb]; try lia.
Qed.

Lemma fold_small b : b < 256 -> fold b < 256.
Proof.
  intro. unfold fold, is_upper. destruct (N.leb_spec 65 b); destruct (N.leb_spec b 90); cbn [andb]; lia.
Qed.
Lemma fold_255 b : fold b = 255 -> b = 255.
Proof.
  unfold fold, is_upper. destruct (N.leb_spec 65 b); destruct (N.leb_spec b 90); cbn [andb]; lia.
Qed.

(* char against char: tolower agrees exactly when the bytes are equal up to ASCII case *)
Lemma g_inj b u : b < 256 -> u < 256 -> (g b = g u <-> fold b = fold u).
Proof.
  intros Hb Hu. rewrite (g_byte b Hb), (g_byte u Hu).
  destruct (N.eqb_spec b 255); destruct (N.eqb_spec u 255); subst.
  - tauto.
  - split; [lia|]. intro H. symmetry in H. apply fold_255 in H. lia.
  - split; [lia|]. intro H. apply fold_255 in H. lia.
  - split; [lia|]. intro H. now rewrite H.
Qed.

Lemma tolower_nonneg c : (0 <= c)%Z -> tolower_c c = Z.of_N (fold (Z.to_N c)).
Proof.
  intro Hc. unfold tolower_c, fold, is_upper.
  destruct (Z.leb_spec (-128) c); destruct (Z.leb_spec c (-2)); cbn [andb]; try lia;
  destruct (Z.leb_spec 65 c); destruct (Z.leb_spec c 90); cbn [andb];
  destruct (N.leb_spec 65 (Z.to_N c)); destruct (N.leb_spec (Z.to_N c) 90); cbn [andb]; lia.
Qed.

Lemma tolower_neg c : (c < 0)%Z -> (tolower_c c < 0 \/ 128 <= tolower_c c)%Z.
Proof.
  intro Hc. unfold tolower_c.
  destruct (Z.leb_spec (-128) c); destruct (Z.leb_spec c (-2)); cbn [andb]; try lia;
  destruct (Z.leb_spec 65 c); destruct (Z.leb_spec c 90); cbn [andb]; lia.
Qed.

Lemma fold_ascii b : b < 128 -> fold b < 128.
Proof.
  intro. unfold fold, is_upper. destruct (N.leb_spec 65 b); destruct (N.leb_spec b 90); cbn [andb]; lia.
Qed.
Lemma fold_big u : 128 <= u -> fold u = u.
Proof.
  intro. unfold fold, is_upper. destruct (N.leb_spec 65 u); destruct (N.leb_spec u 90); cbn [andb]; lia.
Qed.

(* a registered byte against a unit of width w *)
Lemma unit_sem w b u : nbyte_ok w b = true -> u < 2 ^ width_bits w ->
  (g b = tolower_c (unit_int w u) <-> fold b = fold u).
Proof.
  intros Hb Hu. destruct w; cbn [nbyte_ok width_bits] in *.
  - change (tolower_c (unit_int W8 u)) with (g u). apply g_inj; lia.
  - assert (b < 128) by lia. rewrite (g_byte b) by lia. destruct (N.eqb_spec b 255); [lia|].
    cbn [unit_int]. rewrite tolower_nonneg by lia. rewrite N2Z.id. split; [lia|]. intro E. now rewrite E.
  - assert (b < 128) by lia. rewrite (g_byte b) by lia. destruct (N.eqb_spec b 255); [lia|].
    pose proof (fold_ascii b H). cbn [unit_int]. destruct (N.ltb_spec u 2147483648).
    + rewrite tolower_nonneg by lia. rewrite N2Z.id. split; [lia|]. intro E. now rewrite E.
    + pose proof (tolower_neg (Z.of_N u - 4294967296)%Z). rewrite (fold_big u) by lia. split; lia.
  - assert (b < 128) by lia. rewrite (g_byte b) by lia. destruct (N.eqb_spec b 255); [lia|].
    pose proof (fold_ascii b H). cbn [unit_int]. destruct (N.ltb_spec u 2147483648).
    + rewrite tolower_nonneg by lia. rewrite N2Z.id. split; [lia|]. intro E. now rewrite E.
    + pose proof (tolower_neg (Z.of_N u - 4294967296)%Z). rewrite (fold_big u) by lia. split; lia.
Qed.

(* what To(enum, basic_string<TSym>&) writes is read back as the same int *)
Lemma unit_widen w b : byte_ok w b = true -> unit_int w (widen w b) = char_int b.
Proof.
  intro Hb. destruct w; cbn [byte_ok unit_int widen] in *; try reflexivity.
  - unfold char_int. destruct (N.ltb_spec b 128); [reflexivity|lia].
  - unfold char_int. destruct (N.ltb_spec b 128).
    + destruct (N.ltb_spec b 2147483648); [reflexivity|lia].
    + destruct (N.ltb_spec (b + 4294967040) 2147483648); lia.
  - unfold char_int. destruct (N.ltb_spec b 128).
    + destruct (N.ltb_spec b 2147483648); [reflexivity|lia].
    + destruct (N.ltb_spec (b + 4294967040) 2147483648); lia.
Qed.

Lemma widen_ascii w b : b < 128 -> widen w b = b.
Proof. intro H. destruct w; cbn [widen]; try reflexivity; destruct (N.ltb_spec b 128); lia. Qed.

Lemma map_widen_ascii w n : (forall b, In b n -> b < 128) -> map (widen w) n = n.
Proof.
  induction n as [|b n IH]; intro H; cbn [map]. reflexivity.
  rewrite widen_ascii by (apply H; now left). f_equal. apply IH. intros; apply H; now right.
Qed.

(* ---------------------------------------------------------------- the inner loop *)
Lemma matches_sem w : forall n s, (forall b, In b n -> nbyte_ok w b = true) -> (forall u, In u s -> u < 2 ^ width_bits w) ->
  (name_matches w n s = true <-> fold_text n = fold_text s).
Proof.
  induction n as [|b n IH]; destruct s as [|u s]; intros Hn Hs; cbn [name_matches fold_text map]; try easy.
  assert (Hu : g b = tolower_c (unit_int w u) <-> fold b = fold u).
  { apply unit_sem. apply Hn; now left. apply Hs; now left. }
  fold (g b). destruct (Z.eqb_spec (g b) (tolower_c (unit_int w u))) as [E|E].
  - rewrite (IH s); [| intros; apply Hn; now right | intros; apply Hs; now right]. unfold fold_text. split.
    + intro H. f_equal; [now apply Hu|exact H].
    + intro H. now inversion H.
  - split; [discriminate|]. intro H. inversion H. exfalso. apply E. now apply Hu.
Qed.

Lemma matches_widen w : forall n' n, (forall b, In b n -> byte_ok w b = true) ->
  name_matches w n' (map (widen w) n) = name_matches W8 n' n.
Proof.
  induction n' as [|b' n' IH]; destruct n as [|b n]; intro H; cbn [name_matches map]; try reflexivity.
  rewrite unit_widen by (apply H; now left). cbn [unit_int].
  rewrite IH by (intros; apply H; now right). reflexivity.
Qed.

Lemma matches_length w : forall n s, name_matches w n s = true -> length n = length s.
Proof.
  induction n as [|b n IH]; destruct s as [|u s]; cbn [name_matches length]; try easy.
  destruct (Z.eqb _ _); [|discriminate]. intro H. f_equal. now apply IH.
Qed.

(* the size test of GetEnumMetadata(name) never changes the answer of the loop *)
Lemma size_test w n s : (N.of_nat (length n) =? N.of_nat (length s)) && name_matches w n s = name_matches w n s.
Proof.
  destruct (name_matches w n s) eqn:E; [|apply andb_false_r].
  apply matches_length in E. rewrite E, N.eqb_refl. reflexivity.
Qed.

(* ---------------------------------------------------------------- first match wins (both lookups, no hypothesis) *)
Theorem find_by_value_first r v e :
  find_by_value r v = Some e <->
  exists r1 n r2, r = r1 ++ (v, n) :: r2 /\ e = (v, n) /\ ~ In v (map fst r1).
Proof.
  revert e. induction r as [|[v0 n0] r IH]; intro e; cbn [find_by_value].
  - split; [discriminate|]. intros (r1 & n & r2 & H & _). destruct r1; discriminate.
  - destruct (Z.eqb_spec v0 v) as [E|E].
    + subst v0. split.
      * intro H. inversion H; subst. exists [], n0, r. cbn. tauto.
      * intros (r1 & n & r2 & H & He & Hn). destruct r1 as [|[v1 n1] r1]; cbn in H; inversion H; subst.
        reflexivity. exfalso. apply Hn. now left.
    + rewrite IH. split.
      * intros (r1 & n & r2 & H & He & Hn). exists ((v0, n0) :: r1), n, r2. subst. cbn. intuition.
      * intros (r1 & n & r2 & H & He & Hn). destruct r1 as [|[v1 n1] r1]; cbn in H; inversion H; subst.
        congruence. exists r1, n, r2. cbn in Hn. intuition.
Qed.

Theorem find_by_name_first w r s e :
  find_by_name w r s = Some e <->
  exists r1 r2, r = r1 ++ e :: r2 /\ name_matches w (snd e) s = true /\
                (forall e', In e' r1 -> name_matches w (snd e') s = false).
Proof.
  revert e. induction r as [|[v0 n0] r IH]; intro e; cbn [find_by_name].
  - split; [discriminate|]. intros (r1 & r2 & H & _). destruct r1; discriminate.
  - rewrite size_test. destruct (name_matches w n0 s) eqn:E.
    + split.
      * intro H. inversion H; subst. exists [], r. cbn. intuition.
      * intros (r1 & r2 & H & Hm & Hn). destruct r1 as [|e1 r1]; cbn in H; inversion H; subst.
        reflexivity. specialize (Hn (v0, n0) (or_introl eq_refl)). cbn in Hn. congruence.
    + rewrite IH. split.
      * intros (r1 & r2 & H & Hm & Hn). exists ((v0, n0) :: r1), r2. subst. cbn. intuition. now subst.
      * intros (r1 & r2 & H & Hm & Hn). destruct r1 as [|e1 r1]; cbn in H; inversion H; subst.
        cbn in Hm. congruence. exists r1, r2. intuition.
Qed.

Lemma find_by_value_none r v : find_by_value r v = None <-> ~ In v (map fst r).
Proof.
  induction r as [|[v0 n0] r IH]; cbn [find_by_value map In fst]. tauto.
  destruct (Z.eqb_spec v0 v). split; [discriminate|tauto]. rewrite IH. tauto.
Qed.

Lemma find_by_name_none w r s : find_by_name w r s = None <-> (forall e, In e r -> name_matches w (snd e) s = false).
Proof.
  induction r as [|[v0 n0] r IH]; cbn [find_by_name In]. split; [easy|reflexivity].
  rewrite size_test. destruct (name_matches w n0 s) eqn:E.
  - split; [discriminate|]. intro H. specialize (H (v0, n0) (or_introl eq_refl)). cbn in H. congruence.
  - rewrite IH. split. intros H e [<-|He]; [exact E|now apply H]. intros H e He. apply H. now right.
Qed.

Lemma find_by_value_in r v e : find_by_value r v = Some e -> In e r /\ fst e = v.
Proof.
  intro H. apply find_by_value_first in H as (r1 & n & r2 & -> & -> & _). split; [|reflexivity].
  apply in_or_app. right. now left.
Qed.

Lemma find_by_name_in w r s e : find_by_name w r s = Some e -> In e r /\ name_matches w (snd e) s = true.
Proof.
  intro H. apply find_by_name_first in H as (r1 & r2 & -> & Hm & _). split; [|exact Hm].
  apply in_or_app. right. now left.
Qed.

(* with distinct keys the first match is the only match *)
Lemma find_by_value_unique r v n : NoDup (map fst r) -> In (v, n) r -> find_by_value r v = Some (v, n).
Proof.
  induction r as [|[v0 n0] r IH]; intros Hnd Hin; cbn [find_by_value]. easy.
  cbn [map fst] in Hnd. inversion Hnd as [|? ? Hnot Hnd']; subst.
  destruct Hin as [E|Hin].
  - inversion E; subst. now rewrite Z.eqb_refl.
  - destruct (Z.eqb_spec v0 v) as [E|E].
    + subst. exfalso. apply Hnot. apply (in_map fst) in Hin. exact Hin.
    + now apply IH.
Qed.

Lemma find_by_name_unique w r s v n (key : Z * list N -> list N) :
  NoDup (map key r) -> In (v, n) r -> name_matches w n s = true ->
  (forall e, In e r -> name_matches w (snd e) s = true -> key e = key (v, n)) ->
  find_by_name w r s = Some (v, n).
Proof.
  induction r as [|[v0 n0] r IH]; intros Hnd Hin Hm Hk; cbn [find_by_name]. easy.
  rewrite size_test. cbn [map] in Hnd. inversion Hnd as [|? ? Hnot Hnd']; subst.
  destruct Hin as [E|Hin].
  - inversion E; subst. now rewrite Hm.
  - destruct (name_matches w n0 s) eqn:E0.
    + exfalso. apply Hnot. rewrite (Hk (v0, n0) (or_introl eq_refl) E0). now apply in_map.
    + apply IH; auto. intros e He. apply Hk. now right.
Qed.

(* ---------------------------------------------------------------- (3) totality and error outcomes *)
Theorem to_text_total w r v :
  (exists n, In (v, n) r /\ to_text w r v = Ok (map (widen w) n)) \/
  (~ registered r v /\ to_text w r v = InvalidArgument).
Proof.
  unfold to_text, registered. destruct (find_by_value r v) as [[v' n]|] eqn:E.
  - left. apply find_by_value_in in E as [Hin Hv]. cbn in Hv. subst. now exists n.
  - right. apply find_by_value_none in E. tauto.
Qed.

Theorem to_text_error w r v : to_text w r v = InvalidArgument <-> ~ registered r v.
Proof.
  unfold to_text, registered. rewrite <- find_by_value_none.
  destruct (find_by_value r v) as [[? ?]|]; split; congruence.
Qed.

Theorem from_text_error_model w r s :
  from_text w r s = InvalidArgument <-> (forall e, In e r -> name_matches w (snd e) s = false).
Proof.
  unfold from_text. rewrite <- find_by_name_none.
  destruct (find_by_name w r s) as [[? ?]|]; split; congruence.
Qed.

Theorem empty_registry w v s : to_text w [] v = InvalidArgument /\ from_text w [] s = InvalidArgument.
Proof. split; reflexivity. Qed.

(* ---------------------------------------------------------------- (2) from_text means the specification *)
Lemma names_ok_bytes w r : names_ok w r = true -> forall v n b, In (v, n) r -> In b n -> nbyte_ok w b = true.
Proof.
  intros H v n b Hin Hb. destruct w; cbn [names_ok nbyte_ok] in *;
    pose proof (names_spec _ _ H v n b Hin Hb); lia.
Qed.

Lemma units_ok_spec w s : units_ok w s = true -> forall u, In u s -> u < 2 ^ width_bits w.
Proof. unfold units_ok. now rewrite all_below_n_spec. Qed.

Theorem from_text_sound w r s v : names_ok w r = true -> units_ok w s = true ->
  from_text w r s = Ok v -> value_named r s v.
Proof.
  intros Hr Hs H. unfold from_text in H. destruct (find_by_name w r s) as [[v' n]|] eqn:E; [|discriminate].
  inversion H; subst. apply find_by_name_in in E as [Hin Hm]. cbn in Hm.
  exists n. split; [exact Hin|]. unfold eq_nocase.
  apply (matches_sem w n s); auto. intros b Hb. eapply names_ok_bytes; eauto. now apply units_ok_spec.
Qed.

Theorem from_text_complete w r s v : names_ok w r = true -> units_ok w s = true -> distinct_names r = true ->
  value_named r s v -> from_text w r s = Ok v.
Proof.
  intros Hr Hs Hd (n & Hin & He). unfold from_text.
  rewrite (find_by_name_unique w r s v n (fun e => fold_text (snd e))); auto.
  - now apply nodupL_NoDup.
  - apply (matches_sem w n s); auto. intros b Hb. eapply names_ok_bytes; eauto. now apply units_ok_spec.
  - intros [v' n'] He' Hm. cbn [snd] in *. apply (matches_sem w n' s) in Hm.
    + unfold eq_nocase in He. congruence.
    + intros b Hb. eapply names_ok_bytes; eauto.
    + now apply units_ok_spec.
Qed.

Theorem from_text_spec w r s v : names_ok w r = true -> units_ok w s = true -> distinct_names r = true ->
  (from_text w r s = Ok v <-> value_named r s v).
Proof. intros. split. now apply from_text_sound. now apply from_text_complete. Qed.

Theorem from_text_error w r s : names_ok w r = true -> units_ok w s = true ->
  (from_text w r s = InvalidArgument <-> ~ named r s).
Proof.
  intros Hr Hs. rewrite from_text_error_model. split.
  - intros H (v & n & Hin & He). specialize (H _ Hin). cbn in H.
    assert (name_matches w n s = true); [|congruence].
    apply (matches_sem w n s); auto. intros b Hb. eapply names_ok_bytes; eauto. now apply units_ok_spec.
  - intros H [v n] Hin. cbn. destruct (name_matches w n s) eqn:E; [|reflexivity].
    exfalso. apply H. exists v, n. split; [exact Hin|]. unfold eq_nocase.
    apply (matches_sem w n s); auto. intros b Hb. eapply names_ok_bytes; eauto. now apply units_ok_spec.
Qed.

Theorem to_text_spec w r v n : distinct_values r = true -> name_of r v n -> to_text w r v = Ok (map (widen w) n).
Proof.
  intros Hd Hin. unfold to_text. rewrite (find_by_value_unique r v n); auto. now apply nodupZ_NoDup.
Qed.

Theorem to_text_ascii w r v n : distinct_values r = true -> ascii_names r = true -> name_of r v n -> to_text w r v = Ok n.
Proof.
  intros Hd Ha Hin. rewrite (to_text_spec w r v n Hd Hin). f_equal. apply map_widen_ascii.
  intros b Hb. exact (names_spec _ _ Ha v n b Hin Hb).
Qed.

(* the other direction of the round trip: a text that converts to v is the registered name of v up to ASCII case,
   and that name is what v converts to *)
Theorem from_then_to w r s v : well_formed r = true -> names_ok w r = true -> units_ok w s = true ->
  from_text w r s = Ok v ->
  exists n, name_of r v n /\ eq_nocase n s /\ to_text w r v = Ok (map (widen w) n).
Proof.
  intros Hw Hr Hs H. apply andb_true_iff in Hw as [Hdv Hdn].
  destruct (from_text_sound w r s v Hr Hs H) as (n & Hin & He).
  exists n. split; [exact Hin|]. split; [exact He|]. now apply to_text_spec.
Qed.

(* ---------------------------------------------------------------- (1) round trip *)
Lemma rt_ok_bytes w r : rt_ok w r = true -> forall v n b, In (v, n) r -> In b n -> byte_ok w b = true.
Proof.
  intros H v n b Hin Hb. destruct w; cbn [rt_ok byte_ok] in *;
    pose proof (names_spec _ _ H v n b Hin Hb); lia.
Qed.
Lemma rt_ok_bytes_names w r : rt_ok w r = true -> bytes_names r = true.
Proof. destruct w; cbn [rt_ok]; auto using ascii_bytes. Qed.

Theorem roundtrip w r v : well_formed r = true -> rt_ok w r = true -> registered r v ->
  exists s, to_text w r v = Ok s /\ from_text w r s = Ok v.
Proof.
  intros Hw Hr Hv. apply andb_true_iff in Hw as [Hdv Hdn].
  unfold registered in Hv. apply in_map_iff in Hv as ([v' n] & Hfst & Hin). cbn in Hfst. subst v'.
  exists (map (widen w) n). split. now apply to_text_spec.
  pose proof (rt_ok_bytes_names w r Hr) as Hb.
  assert (HW8 : forall v' n', In (v', n') r -> (name_matches w n' (map (widen w) n) = true <-> fold_text n' = fold_text n)).
  { intros v' n' Hin'. rewrite matches_widen by (intros b Hbn; exact (rt_ok_bytes w r Hr v n b Hin Hbn)).
    apply (matches_sem W8).
    - intros b Hbn. cbn [nbyte_ok]. pose proof (names_spec _ _ Hb v' n' b Hin' Hbn). lia.
    - intros u Hu. cbn. pose proof (names_spec _ _ Hb v n u Hin Hu). lia. }
  unfold from_text.
  rewrite (find_by_name_unique w r (map (widen w) n) v n (fun e => fold_text (snd e))); auto.
  - now apply nodupL_NoDup.
  - now apply (HW8 v n Hin).
  - intros [v' n'] He' Hm. cbn [snd] in *. now apply (HW8 v' n' He').
Qed.

(* round trip through an archive: the saved string is the registered name, loading it gives the value back *)
Theorem archive_roundtrip r v pol : well_formed r = true -> bytes_names r = true -> registered r v ->
  exists n, name_of r v n /\ save_enum r v = Saved n /\ load_enum r pol n = Loaded v.
Proof.
  intros Hw Hb Hv. destruct (roundtrip W8 r v Hw Hb Hv) as (s & Ht & Hf).
  apply andb_true_iff in Hw as [Hdv Hdn].
  unfold registered in Hv. apply in_map_iff in Hv as ([v' n] & Hfst & Hin). cbn in Hfst. subst v'.
  exists n. split; [exact Hin|]. unfold save_enum, load_enum.
  rewrite (to_text_spec W8 r v n Hdv Hin) in Ht. inversion Ht; subst. cbn [widen] in *. rewrite map_id in *.
  rewrite Hf. split; [|reflexivity]. rewrite (find_by_value_unique r v n); auto. now apply nodupZ_NoDup.
Qed.

Theorem save_unregistered r v : save_enum r v = UnregisteredEnum <-> ~ registered r v.
Proof.
  unfold save_enum, registered. rewrite <- find_by_value_none.
  destruct (find_by_value r v) as [[? ?]|]; split; congruence.
Qed.

(* ---------------------------------------------------------------- (5) width independence *)
Lemma unit_int_ascii w u : u < 128 -> unit_int w u = Z.of_N u.
Proof.
  intro H. destruct w; cbn [unit_int]; try reflexivity.
  - unfold char_int. destruct (N.ltb_spec u 128); [reflexivity|lia].
  - destruct (N.ltb_spec u 2147483648); [reflexivity|lia].
  - destruct (N.ltb_spec u 2147483648); [reflexivity|lia].
Qed.

Lemma matches_width w1 w2 : forall n s, (forall u, In u s -> u < 128) -> name_matches w1 n s = name_matches w2 n s.
Proof.
  induction n as [|b n IH]; destruct s as [|u s]; intro H; cbn [name_matches]; try reflexivity.
  rewrite !unit_int_ascii by (apply H; now left). rewrite IH by (intros; apply H; now right). reflexivity.
Qed.

Theorem from_text_width w1 w2 r s : ascii_text s = true -> from_text w1 r s = from_text w2 r s.
Proof.
  intro Hs. unfold ascii_text in Hs. rewrite all_below_n_spec in Hs. unfold from_text.
  replace (find_by_name w1 r s) with (find_by_name w2 r s); [reflexivity|].
  induction r as [|[v n] r IH]; cbn [find_by_name]; [reflexivity|].
  rewrite (matches_width w2 w1 n s Hs), IH. reflexivity.
Qed.

Theorem to_text_width w1 w2 r v : ascii_names r = true -> to_text w1 r v = to_text w2 r v.
Proof.
  intro Ha. unfold to_text. destruct (find_by_value r v) as [[v' n]|] eqn:E; [|reflexivity].
  apply find_by_value_in in E as [Hin _].
  rewrite !map_widen_ascii by (intros b Hb; exact (names_spec _ _ Ha v' n b Hin Hb)). reflexivity.
Qed.

(* ---------------------------------------------------------------- (4) outside the hypotheses *)
(* the full-strength round trip (distinct values, distinct names, any bytes, any width) is false: char16_t *)
Definition rt_full (w : width) (r : registry) (v : Z) : Prop :=
  well_formed r = true -> bytes_names r = true -> registered r v ->
  exists s, to_text w r v = Ok s /\ from_text w r s = Ok v.

Definition reg_cafe : registry := [(0%Z, [99; 97; 102; 195; 169]); (1%Z, [97; 115; 99; 105; 105])].   (* "caf\xC3\xA9", "ascii" *)

Theorem roundtrip_all_refuted : exists w r v, ~ rt_full w r v.
Proof.
  exists W16, reg_cafe, 0%Z. intro H.
  destruct H as (s & Ht & Hf); [reflexivity|reflexivity|now left|].
  vm_compute in Ht. inversion Ht; subst. vm_compute in Hf. discriminate.
Qed.

Theorem roundtrip_all_outside w r v : ~ (w = W16 /\ ascii_names r = false) -> rt_full w r v.
Proof.
  intros Hn Hw Hb Hv. apply roundtrip; auto.
  destruct w; cbn [rt_ok]; auto. destruct (ascii_names r) eqn:E; [reflexivity|]. exfalso. now apply Hn.
Qed.

(* what the char16_t text of a non-ASCII name is, and that it is not found again *)
Example cafe_u16 : to_text W16 reg_cafe 0 = Ok [99; 97; 102; 65475; 65449] /\
                   from_text W16 reg_cafe [99; 97; 102; 65475; 65449] = InvalidArgument /\
                   from_text W16 reg_cafe [99; 97; 102; 195; 169] = Ok 0%Z /\
                   from_text W32 reg_cafe [99; 97; 102; 4294967235; 4294967209] = Ok 0%Z /\
                   from_text W32 reg_cafe [99; 97; 102; 195; 169] = Ok 0%Z.
Proof. vm_compute. repeat split. Qed.

(* "a text that converts to v is the name of v" is false for non-ASCII names in the wide widths: two different
   char32_t texts convert to the value, neither is ASCII-case-equal to the other *)
Theorem from_then_to_wide_refuted : exists r s1 s2 v,
  well_formed r = true /\ bytes_names r = true /\ units_ok W32 s1 = true /\ units_ok W32 s2 = true /\
  from_text W32 r s1 = Ok v /\ from_text W32 r s2 = Ok v /\ ~ eq_nocase s1 s2.
Proof.
  exists reg_cafe, [99; 97; 102; 4294967235; 4294967209], [99; 97; 102; 195; 169], 0%Z.
  repeat split; try reflexivity. vm_compute. discriminate.
Qed.

(* duplicate values: the value converts to its FIRST name, whichever name it came from *)
Definition reg_dup : registry :=
  [(1%Z, [83; 97; 109; 101]); (2%Z, [83; 65; 77; 69]); (1%Z, [79; 116; 104; 101; 114])].   (* 1 "Same", 2 "SAME", 1 "Other" *)

Theorem roundtrip_duplicates_refuted : exists r v,
  ascii_names r = true /\ registered r v /\
  forall w, exists s, to_text w r v = Ok s /\ from_text w r s <> Ok v.
Proof.
  exists reg_dup, 2%Z. split; [reflexivity|]. split; [right; now left|].
  intro w. exists [83; 65; 77; 69]. destruct w; vm_compute; split; try reflexivity; discriminate.
Qed.

Theorem name_roundtrip_duplicates_refuted : exists r s v,
  ascii_names r = true /\ from_text W8 r s = Ok v /\ to_text W8 r v <> Ok s /\
  (forall s', to_text W8 r v = Ok s' -> ~ eq_nocase s' s).
Proof.
  exists reg_dup, [79; 116; 104; 101; 114], 1%Z. repeat split; try reflexivity.
  - vm_compute. discriminate.
  - intros s' H. vm_compute in H. inversion H; subst. vm_compute. discriminate.
Qed.

(* ---------------------------------------------------------------- satisfiability of the hypotheses *)
Definition reg_fruit : registry :=
  [((-2)%Z, [82; 101; 100]); (0%Z, [71; 114; 101; 101; 110]); (100000%Z, [66; 108; 117; 101]); (7%Z, [97; 64]); (8%Z, [97; 96])].

Example fruit_ok : well_formed reg_fruit = true /\ ascii_names reg_fruit = true /\
  (forall w, names_ok w reg_fruit = true /\ rt_ok w reg_fruit = true) /\ registered reg_fruit 100000%Z /\
  to_text W16 reg_fruit 100000 = Ok [66; 108; 117; 101] /\ from_text W16 reg_fruit [98; 76; 85; 101] = Ok 100000%Z /\
  from_text W8 reg_fruit [97; 96] = Ok 8%Z /\ from_text W8 reg_fruit [65; 64] = Ok 7%Z /\
  from_text WW reg_fruit [66; 108; 117] = InvalidArgument /\ units_ok W16 [98; 76; 85; 101] = true /\ ascii_text [98; 76; 85; 101] = true.
Proof.
  assert (registered reg_fruit 100000%Z) by (unfold registered; cbn; tauto).
  repeat split; try (destruct w); try reflexivity; assumption.
Qed.

Example cafe_ok : well_formed reg_cafe = true /\ bytes_names reg_cafe = true /\ ascii_names reg_cafe = false /\
  rt_ok W8 reg_cafe = true /\ rt_ok W32 reg_cafe = true /\ rt_ok WW reg_cafe = true /\ names_ok W8 reg_cafe = true /\
  from_text W8 reg_cafe [67; 65; 70; 195; 169] = Ok 0%Z /\ from_text W8 reg_cafe [67; 65; 70; 195; 137] = InvalidArgument.
Proof. repeat split; reflexivity. Qed.
