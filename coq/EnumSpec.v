(* EnumSpec.v — what the registration of an enum type MEANS (independent of how convert_enum.h
   computes it).

   REGISTER_ENUM(E, { {E::A, "A"}, ... }) declares an association between values of E and names.
   A value is an integer (the underlying value), a name is a byte string (the bytes of the C string
   literal, as unsigned numbers 0..255).  A text is a list of code units of one of four widths.

   - "n is a name of v"            : the pair (v, n) was registered;
   - "s names v"                   : some registered name of v equals s up to the case of the 26 ASCII
                                     letters (documentation: "case-insensitive");
   - a registration is well formed when no value and no name (up to ASCII case) is registered twice:
     then "the name of v" and "the value named s" are functions.
   - the text of a name in a width wider than char: an ASCII byte is the code unit of the same number
     in every UTF encoding form, so for ASCII names the text of the name in any width is the same list
     of numbers.  (For non-ASCII names the UTF-w text would be the transcoding of the UTF-8 bytes; the
     library does not transcode, see EnumModel.widen and the _refuted theorems.) *)
From BS Require Import Base.
Local Open Scope N_scope.

Definition registry := list (Z * list N).

Inductive width := W8 | W16 | W32 | WW.      (* char, char16_t, char32_t, wchar_t (32 bit) *)

Definition width_bits (w : width) : N := match w with W8 => 8 | W16 => 16 | W32 => 32 | WW => 32 end.

(* ASCII case folding of one unit: 'A'..'Z' -> 'a'..'z', everything else unchanged *)
Definition is_upper (c : N) : bool := (65 <=? c) && (c <=? 90).
Definition fold (c : N) : N := if is_upper c then c + 32 else c.
Definition fold_text (s : list N) : list N := map fold s.

(* equality up to ASCII case (implies equal length) *)
Definition eq_nocase (a b : list N) : Prop := fold_text a = fold_text b.

Definition name_of (r : registry) (v : Z) (n : list N) : Prop := In (v, n) r.
Definition value_named (r : registry) (s : list N) (v : Z) : Prop :=
  exists n, In (v, n) r /\ eq_nocase n s.
Definition registered (r : registry) (v : Z) : Prop := In v (map fst r).
Definition named (r : registry) (s : list N) : Prop := exists v, value_named r s v.

(* ---- decidable side conditions (boolean, so that they can be evaluated on concrete registries) *)
Fixpoint list_eqb (a b : list N) : bool :=
  match a, b with
  | [], [] => true
  | x :: a', y :: b' => (x =? y) && list_eqb a' b'
  | _, _ => false
  end.

Fixpoint memZ (x : Z) (l : list Z) : bool :=
  match l with [] => false | y :: l' => (x =? y)%Z || memZ x l' end.
Fixpoint nodupZ (l : list Z) : bool :=
  match l with [] => true | x :: l' => negb (memZ x l') && nodupZ l' end.
Fixpoint memL (x : list N) (l : list (list N)) : bool :=
  match l with [] => false | y :: l' => list_eqb x y || memL x l' end.
Fixpoint nodupL (l : list (list N)) : bool :=
  match l with [] => true | x :: l' => negb (memL x l') && nodupL l' end.

Definition distinct_values (r : registry) : bool := nodupZ (map fst r).
Definition distinct_names (r : registry) : bool := nodupL (map (fun e => fold_text (snd e)) r).
Definition well_formed (r : registry) : bool := distinct_values r && distinct_names r.

Definition all_below_n (k : N) (s : list N) : bool := forallb (fun b => b <? k) s.
Definition bytes_names (r : registry) : bool := forallb (fun e => all_below_n 256 (snd e)) r.
Definition ascii_names (r : registry) : bool := forallb (fun e => all_below_n 128 (snd e)) r.
Definition ascii_text (s : list N) : bool := all_below_n 128 s.
(* s is a string of code units of width w *)
Definition units_ok (w : width) (s : list N) : bool := all_below_n (2 ^ width_bits w) s.
