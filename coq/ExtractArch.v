(* Extraction of the archive-layer model for the correspondence driver (ml/arch_driver.ml).
   ExtrOcamlBasic only: bool, option, unit, list, prod, sumbool, sumor map to OCaml's; N/Z/positive/nat
   stay the extracted inductive types. *)
From Coq Require Import Extraction ExtrOcamlBasic.
From BS Require Import Base ArchModel ArchCodec ArchProofs ArchValidation.
Extraction Language OCaml.
Extraction "../ml/gen/arch_model.ml" run_popload run_validate type_catalogue class_catalogue
  mkArch mkPols xml_arch load_seq load_fwd load_vbool add_validation_error
  has_unloaded validate_class.
