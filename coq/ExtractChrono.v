(* Extraction of the chrono spec and model for the correspondence driver (ml/chrono_driver.ml).
   ExtrOcamlBasic only: bool, option, unit, list, prod, sumbool, sumor map to OCaml's; Z/N/positive/nat
   stay the extracted inductive types. *)
From Coq Require Import Extraction ExtrOcamlBasic.
From BS Require Import Base ChronoSpec UtfSpec UtfModel ChronoModel MpModel ChronoMp.
Extraction Language OCaml.
Extraction "../ml/gen/chrono_model.ml"
  tp_print tp_parse dur_print dur_parse ts_to ts_from_tp ts_from_dur safe_cast
  tm_print tm_parse rt_print rt_parse tp_parse_wide dur_parse_wide
  civil_from_days days_from_civil next_day valid_dateb days_of_civil iso_text
  mp_save_chrono mp_load_chrono.
