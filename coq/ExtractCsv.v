(* Extraction of the CSV spec and model for the correspondence driver (ml/csv_driver.ml).
   ExtrOcamlBasic only: bool, option, unit, list, prod, sumbool, sumor map to OCaml's; N/positive/nat
   stay the extracted inductive types. *)
From Coq Require Import Extraction ExtrOcamlBasic.
From BS Require Import Base CsvSpec CsvModel CsvEncodings.
Extraction Language OCaml.
Extraction "../ml/gen/csv_model.ml" csv_save writer_run with_keys csv_load csv_load_stream csv_load_encoded csv_load_hist csv_load_stream_hist chunk_size utf8_detected
  validate_separator rfc_parse render select.
