(* Extraction of the enum conversion model for the correspondence driver (ml/enum_driver.ml).
   ExtrOcamlBasic only: N/Z/positive/nat stay the extracted inductive types. *)
From Coq Require Import Extraction ExtrOcamlBasic.
From BS Require Import Base EnumSpec EnumModel.
Extraction Language OCaml.
Extraction "../ml/gen/enum_model.ml" tolower_c to_text from_text save_enum load_enum map_roundtrip.
