(* Extraction of the two scope models of InvModel.v for the correspondence driver (ml/inv_driver.ml).
   ExtrOcamlBasic only; N/positive/nat stay the extracted inductive types. *)
From Coq Require Import Extraction ExtrOcamlBasic.
From BS Require Import InvSpec InvModel.
Extraction Language OCaml.
Extraction "../ml/gen/inv_model.ml" mp_answer csv_answer.
