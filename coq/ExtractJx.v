(* Extraction of the JSON/XML reference syntax and of the adapter model for ml/jx_driver.ml.
   ExtrOcamlBasic only: bool, option, unit, list, prod, sumbool, sumor map to OCaml's; N/Z/positive/nat
   stay the extracted inductive types. *)
From Coq Require Import Extraction ExtrOcamlBasic.
From BS Require Import Base UtfSpec UtfModel JxJsonSpec JxXmlSpec JxModel JxPathModel JxDetect JxXmlOptions JxXmlDetect JxHistModel.
Extraction Language OCaml.
Extraction "../ml/gen/jx_model.ml" transcode json_parse_cps json_parse lex num_den den_eqb num_same_value int_lexeme
  catalogue has_type default save_json save_inner accept finalize_json rj_of_jv load_json load_json_text
  events_match rj_match dec_of_Z
  xml_parse_cps xml_parse xml_declared_encoding xml_print_cps save_xml saved_view strip_fmt_ws xnode_eqb px_parse load_xml load_xml_text
  vcatalogue vload_json_text vload_xml_text rj_detect rj_read px_detect px_read jhist_text xhist_text.
