(* Extraction of the MessagePack spec and model for ml/mp_driver.ml (ExtrOcamlBasic only). *)
From Coq Require Import Extraction ExtrOcamlBasic.
From BS Require Import Base UtfModel MpSpec MpModel MpSaveModel MpOrder.
Extraction Language OCaml.
Extraction "../ml/gen/mp_model.ml" decode wr_nil wr_bool wr_u8 wr_u16 wr_u32 wr_u64 wr_i8 wr_i16 wr_i32 wr_i64
  wr_f32 wr_f64 wr_str wr_str_header wr_array_header wr_map_header wr_bin_header wr_ts
  skip_value read_int read_nil read_f32 read_f64 read_str read_array_size read_map_size read_bin_size
  read_binary read_ts read_value_type read_nil_stream shortest_int_len ts_of_payload ts_payload save abs
  rev16 rev32 rev64 le_bytes.
