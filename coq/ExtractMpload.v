(* Extraction of the typed MsgPack load specification for ml/mpload_driver.ml (ExtrOcamlBasic only). *)
From Coq Require Import Extraction ExtrOcamlBasic.
From BS Require Import Base MpSpec MpModel MpSaveModel MpScopeSpec MpLoadModel.
Extraction Language OCaml.
Extraction "../ml/gen/mpload_model.ml" load_bytes load_bytes_into default_of keep shape_of has_shape modelled decode.
