(* Extraction of the MsgPack scope model (and the spec's history evaluator) for ml/mpscope_driver.ml.
   ExtrOcamlBasic only: N / Z / positive / nat stay the extracted inductive types. *)
From Coq Require Import Extraction ExtrOcamlBasic.
From BS Require Import Base MpSpec MpModel MpScopeSpec MpScopeModel.
Extraction Language OCaml.
Extraction "../ml/gen/mpscope_model.ml" run_obj_root run_arr_root read_int s64 decode spec_reqs spec_areqs doc_ok.
