(* Extraction of the MsgPack stream-reader model for ml/mpstream_driver.ml (ExtrOcamlBasic only; N/Z/
   positive/nat stay the extracted inductive types): the read sequences on the in-memory reader, on the
   chunked reader model over the modelled istream, and on the string reader model. *)
From Coq Require Import Extraction ExtrOcamlBasic.
From BS Require Import Base MpSpec MpModel StreamIStream StreamSpec StreamModel MpStreamModel MpStreamProofs.
Extraction Language OCaml.
Extraction "../ml/gen/mpstream_model.ml" mps_run_mem mps_run_bsr mps_run_mem_pos mps_run_bsr_pos str_run stream_of rop_ok
  mps_client_mem mps_client_bsr str_client_run find_by_key nonseek_ok lookahead_free forward_op.
