(* Extraction of the num spec and model for the correspondence driver (ml/num_driver.ml).
   ExtrOcamlBasic only: N / Z / positive / nat stay the extracted inductive types; Flocq's
   binary_float loses its proof fields, nothing else. *)
From Coq Require Import Extraction ExtrOcamlBasic.
From Flocq Require Import Core Binary Bits.
From BS Require Import Base UtfSpec UtfModel NumSpec NumModel NumFloatModel.
Extraction Language OCaml.
Definition f32_is_nan (x : binary32) : bool := Binary.is_nan 24 128 x.
Definition f64_is_nan (x : binary64) : bool := Binary.is_nan 53 1024 x.
Extraction "../ml/gen/num_model.ml"
  conv conv_spec load_int convert_by_policy parse_num parse_bool to_text from_chars_int to_chars_int
  policy_spec policy_spec_other_kind classify_spec classify_frac_first bool_spec to_dec in_rangeb lo hi
  parse_bool_isdigit_args parse_num_isdigit_args isdigit_arg_ok
  conv_int_f32 conv_int_f64 conv_f64_f32 conv_f32_f64
  b32_of_bits bits_of_b32 b64_of_bits bits_of_b64 f32_is_nan f64_is_nan.
