(* Extraction of the num spec and model for the correspondence driver (ml/num_driver.ml).
   ExtrOcamlBasic only: N / Z / positive / nat stay the extracted inductive types. *)
From Coq Require Import Extraction ExtrOcamlBasic.
From BS Require Import Base UtfSpec UtfModel NumSpec NumModel.
Extraction Language OCaml.
Extraction "../ml/gen/num_model.ml"
  conv conv_spec load_int convert_by_policy parse_num parse_bool to_text from_chars_int to_chars_int
  policy_spec policy_spec_other_kind classify_spec classify_frac_first bool_spec to_dec in_rangeb lo hi
  parse_bool_isdigit_args parse_num_isdigit_args isdigit_arg_ok.
