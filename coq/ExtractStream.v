(* Extraction of the stream specs and models for the correspondence driver (ml/stream_driver.ml).
   ExtrOcamlBasic only: bool, option, unit, list, prod, sumbool, sumor map to OCaml's; N/Z/positive/nat
   stay the extracted inductive types. *)
From Coq Require Import Extraction ExtrOcamlBasic.
From BS Require Import Base UtfSpec UtfModel StreamIStream StreamSpec StreamModel.
Extraction Language OCaml.
Extraction "../ml/gen/stream_model.ml"
  stream_of is_read is_peek is_seekg is_tellg is_clear
  bsr_run bsr_new bsr_set_position bsr_read_blob bsr_get_position mem_accepts mem_start
  detect detect_stream esr_run esw_run
  bom text_bytes with_bom encs scalarb.
