(* Extraction of the UTF spec and model for the correspondence driver (ml/utf_driver.ml).
   ExtrOcamlBasic only: bool, option, unit, list, prod, sumbool, sumor map to OCaml's; N/positive/nat
   stay the extracted inductive types. *)
From Coq Require Import Extraction ExtrOcamlBasic.
From BS Require Import Base UtfSpec UtfModel.
Extraction Language OCaml.
Extraction "../ml/gen/utf_model.ml" transcode class_decode class_encode enc encs scalarb unit_bytes units_bytes.
