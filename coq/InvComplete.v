(* InvComplete.v — C20, the other side of F17: a complete document never reaches the throwing path of
   ~CMsgPackReadObjectScope.  For every MsgPack map of fewer than 16 members over the modelled subset
   (fixstr / fixint keys, fixint values), followed by anything, the load succeeds and stores every member. *)
From Coq Require Import NArith List Bool Arith Lia.
From Coq Require Import ZifyBool ZifyN ZifyNat.
From BS Require Import InvSpec InvModel.
Import ListNotations.

Inductive mp_key := KStr (body : list N) | KInt (b : N).
Definition key_ok (k : mp_key) : Prop :=
  match k with KStr body => length body < 32 | KInt b => is_fixint b = true end.
Definition enc_key (k : mp_key) : list N :=
  match k with KStr body => N.of_nat (160 + length body) :: body | KInt b => [b] end.
Definition enc_pair (p : mp_key * N) : list N := enc_key (fst p) ++ [snd p].
Definition enc_doc (pairs : list (mp_key * N)) : list N :=
  N.of_nat (128 + length pairs) :: flat_map enc_pair pairs.
Definition pair_ok (p : mp_key * N) : Prop := key_ok (fst p) /\ is_fixint (snd p) = true.

(* the state between two members *)
Definition st_at (inp : list N) (n j pos : nat) : mp_state :=
  {| mp_inp := inp; mp_pos := pos; mp_start := 1; mp_size := n; mp_idx := j; mp_keyset := false; mp_loaded := j;
     mp_close_failed := false; mp_unmodelled := false |}.

Ltac simp_st := unfold inc_loaded, set_pos, inc_idx, set_key; cbn [mp_inp mp_pos mp_start mp_size mp_idx mp_keyset mp_loaded mp_close_failed mp_unmodelled].

Lemma nth_error_mid : forall (A : Type) (a b : list A) x, nth_error (a ++ x :: b) (length a) = Some x.
Proof. intros. rewrite nth_error_app2 by lia. now rewrite Nat.sub_diag. Qed.

Lemma fixint_not_fixstr : forall b, is_fixint b = true -> is_fixstr b = false.
Proof. intros b H. unfold is_fixint, is_fixstr in *. lia. Qed.

(* one member: ReadKey, the callback's SerializeValue, ResetKey *)
Lemma visit_one_ok : forall pre p post n j,
  pair_ok p ->
  exec visit_one (st_at (pre ++ enc_pair p ++ post) n j (length pre)) =
  Ok (st_at (pre ++ enc_pair p ++ post) n (S j) (length pre + length (enc_pair p))).
Proof.
  intros pre [k v] post n j [Hk Hv]. cbn [fst snd] in *.
  unfold visit_one. cbn [exec].
  destruct k as [body|b]; cbn [key_ok enc_key] in *.
  - (* fixstr key *)
    unfold enc_pair. cbn [fst snd enc_key]. rewrite <- !app_assoc. cbn [app].
    unfold read_key, byte_at, st_at. cbn [mp_inp mp_pos].
    rewrite nth_error_mid.
    assert (Hs : is_fixstr (N.of_nat (160 + length body)) = true) by (unfold is_fixstr; lia).
    rewrite Hs. unfold take_str. simp_st.
    assert (Hn : N.to_nat (N.of_nat (160 + length body) - 160) = length body) by lia.
    rewrite Hn.
    assert (Hlen : Nat.leb (S (length pre) + length body)
                     (length (pre ++ N.of_nat (160 + length body) :: body ++ v :: post)) = true).
    { apply Nat.leb_le. rewrite !app_length. cbn [length]. rewrite !app_length. cbn [length]. lia. }
    rewrite Hlen. simp_st.
    unfold serialize_value, byte_at. simp_st.
    replace (pre ++ N.of_nat (160 + length body) :: body ++ v :: post)
      with ((pre ++ N.of_nat (160 + length body) :: body) ++ v :: post)
      by (rewrite <- app_assoc; reflexivity).
    replace (S (length pre) + length body) with (length (pre ++ N.of_nat (160 + length body) :: body))
      by (rewrite app_length; cbn [length]; lia).
    rewrite nth_error_mid, Hv.
    simp_st.
    unfold reset_key. simp_st. f_equal. unfold st_at. f_equal.
    rewrite !app_length. cbn [length]. rewrite !app_length. cbn [length]. lia.
  - (* fixint key *)
    unfold enc_pair. cbn [fst snd enc_key app].
    unfold read_key, byte_at, st_at. cbn [mp_inp mp_pos].
    rewrite nth_error_mid. rewrite (fixint_not_fixstr b Hk), Hk.
    simp_st.
    unfold serialize_value, byte_at. simp_st.
    replace (pre ++ b :: v :: post) with ((pre ++ [b]) ++ v :: post) by (rewrite <- app_assoc; reflexivity).
    replace (S (length pre)) with (length (pre ++ [b])) by (rewrite app_length; cbn [length]; lia).
    rewrite nth_error_mid, Hv.
    simp_st.
    unfold reset_key. simp_st. f_equal. unfold st_at. f_equal.
    rewrite !app_length. cbn [length]. lia.
Qed.

(* all remaining members *)
Lemma iterate_ok : forall todo pre post n j,
  Forall pair_ok todo ->
  exec (iterate (length todo) visit_one) (st_at (pre ++ flat_map enc_pair todo ++ post) n j (length pre)) =
  Ok (st_at (pre ++ flat_map enc_pair todo ++ post) n (j + length todo) (length pre + length (flat_map enc_pair todo))).
Proof.
  induction todo as [|p todo IH]; intros pre post n j Hok; cbn [length iterate flat_map exec].
  - cbn [app length]. now rewrite !Nat.add_0_r.
  - inversion Hok as [|? ? Hp Hrest]; subst.
    rewrite <- (app_assoc (enc_pair p)).
    rewrite (visit_one_ok pre p (flat_map enc_pair todo ++ post) n j Hp).
    replace (pre ++ enc_pair p ++ flat_map enc_pair todo ++ post)
      with ((pre ++ enc_pair p) ++ flat_map enc_pair todo ++ post) by (rewrite <- app_assoc; reflexivity).
    rewrite <- (app_length pre (enc_pair p)).
    rewrite (IH (pre ++ enc_pair p) post n (S j) Hrest).
    f_equal. unfold st_at. f_equal; rewrite ?app_length; lia.
Qed.

Theorem mp_complete_doc_ok : forall pairs rest,
  length pairs < 16 -> Forall pair_ok pairs ->
  exists s, mp_run (enc_doc pairs ++ rest) = Ok s /\ mp_loaded s = length pairs /\ mp_unmodelled s = false.
Proof.
  intros pairs rest Hn Hok.
  remember (enc_doc pairs ++ rest) as inp eqn:Einp.
  remember (length pairs) as n eqn:En.
  assert (Hinp : inp = [N.of_nat (128 + n)] ++ flat_map enc_pair pairs ++ rest)
    by (subst; unfold enc_doc; reflexivity).
  (* OpenObjectScope: ReadMapSize and the scope constructor *)
  assert (H1 : open_object_scope (mp_init inp) = Ok (st_at inp n 0 1)).
  { unfold open_object_scope, byte_at, mp_init. cbn [mp_inp mp_pos].
    assert (H0 : nth_error inp 0 = Some (N.of_nat (128 + n))) by (rewrite Hinp; reflexivity).
    rewrite H0.
    assert (Hm : is_fixmap (N.of_nat (128 + n)) = true) by (unfold is_fixmap; lia).
    rewrite Hm. cbn [mp_inp mp_pos mp_loaded mp_close_failed mp_unmodelled].
    assert (Hsz : N.to_nat (N.of_nat (128 + n) - 128) = n) by lia. rewrite Hsz. reflexivity. }
  (* VisitKeys prologue: no key pending, position = start *)
  assert (H2 : visit_keys_prologue (st_at inp n 0 1) = Ok (st_at inp n 0 1)) by reflexivity.
  (* the loop *)
  assert (H3 : exec (iterate n visit_one) (st_at inp n 0 1) =
               Ok (st_at inp n n (1 + length (flat_map enc_pair pairs)))).
  { pose proof (iterate_ok pairs [N.of_nat (128 + n)] rest n 0 Hok) as Hit.
    rewrite <- Hinp in Hit. cbn [length] in Hit. rewrite <- En in Hit. exact Hit. }
  (* ~CMsgPackReadObjectScope: nothing left to skip *)
  assert (H4 : forall p, dtor_read_object_scope (st_at inp n n p) = Ok (st_at inp n n p)).
  { intro p. unfold dtor_read_object_scope, dtor_skip_unread, reset_key, st_at. cbn [mp_keyset mp_size mp_idx].
    rewrite Nat.sub_diag. reflexivity. }
  exists (st_at inp n n (1 + length (flat_map enc_pair pairs))).
  split; [|split; reflexivity].
  unfold mp_run, mp_load_map. cbn [exec]. rewrite H1. cbn [exec]. rewrite H2.
  change (mp_size (st_at inp n 0 1)) with n. rewrite H3. cbn [close]. rewrite H4.
  (* Finalize: no scope failed to close *)
  cbn [exec]. unfold mp_finalize, st_at. cbn [mp_close_failed]. reflexivity.
Qed.

(* non-vacuity: a three-member document with a string key, an integer key and an empty string key, plus trailing bytes *)
Example mp_complete_doc_example :
  let pairs := [(KStr [0x61; 0x62]%N, 5%N); (KInt 7%N, 0xFF%N); (KStr [], 0%N)] in
  length pairs < 16 /\ Forall pair_ok pairs /\
  enc_doc pairs ++ [0xC1%N] = [0x83; 0xA2; 0x61; 0x62; 5; 7; 0xFF; 0xA0; 0; 0xC1]%N /\
  mp_answer (enc_doc pairs ++ [7%N]) = AOk.
Proof.
  cbv zeta. split; [cbn; lia|]. split.
  - repeat constructor; cbn; lia.
  - split; vm_compute; reflexivity.
Qed.
