(* InvDtors.v — C20: the destructors of the regenerated inventory whose bodies call possibly-throwing functions
   are exactly the listed ones (InvSpec.expected_throwing_dtors).  A destructor that starts calling throwing
   code, or a listed one that calls something new, breaks this before any failing input is known. *)
From Coq Require Import String List Bool.
From BS Require Import InvSpec InvGenerated.
Import ListNotations.

Lemma inventory_complete_dtors : inventory_errors = [].
Proof. vm_compute. reflexivity. Qed.

Lemma throwing_dtors_expected : throwing_dtors dtors = expected_throwing_dtors.
Proof. vm_compute. reflexivity. Qed.

(* no library destructor opts out of the implicit noexcept: an exception leaving any of them is std::terminate *)
Lemma no_noexcept_false : forallb (fun d => negb (String.eqb (dt_noexcept_false d) "yes")) dtors = true.
Proof. vm_compute. reflexivity. Qed.

(* the same for functions declared noexcept: the ones that call possibly-throwing code are the listed ones *)
Lemma noexcept_callers_expected : noexcept_callers noexcept_fns = expected_noexcept_callers.
Proof. vm_compute. reflexivity. Qed.

Lemma dtors_not_vacuous : existsb (fun d => negb (may_throw d)) dtors = true /\ existsb may_throw dtors = true.
Proof. vm_compute. split; reflexivity. Qed.
