(* InvExn.v — proofs for C20: the propagation logic of the Exn language (generic), and what it says about the two
   scope models of InvModel.v. *)
From Coq Require Import NArith List Bool Arith Lia.
From BS Require Import InvSpec InvModel.
Import ListNotations.

(* ------------------------------------------------------------------------------------------------ *)
(** * Generic propagation                                                                             *)
Section ExnProofs.
  Variables (St E : Type).
  Notation prog := (prog St E).
  Notation outcome := (outcome St E).

  Lemma completes_exec : forall (p : prog) s s', completes p s s' -> exec p s = Ok s'.
  Proof.
    induction 1; cbn [exec]; try assumption; try reflexivity.
    - rewrite IHcompletes1. exact IHcompletes2.
    - rewrite IHcompletes. cbn [close]. rewrite H0. reflexivity.
  Qed.

  (* every exception thrown by an action — at any depth of nesting — reaches the caller as the same exception,
     provided no destructor on the way can throw *)
  Theorem propagation : forall (p : prog) s e,
    dtors_total p -> throws p s e -> exists s', exec p s = Err e s'.
  Proof.
    intros p s e Hd Ht. induction Ht; cbn [exec dtors_total] in *.
    - eauto.
    - destruct Hd as [Ha _]. destruct (IHHt Ha) as [s' ->]. eauto.
    - destruct Hd as [_ Hb]. rewrite (completes_exec _ _ _ H). exact (IHHt Hb).
    - exact (IHHt (Hd s)).
    - destruct Hd as [Hb Hdt]. destruct (IHHt Hb) as [s1 ->]. cbn [close].
      destruct (Hdt s1) as [s2 ->]. eauto.
  Qed.

  (* ... and the process is never terminated *)
  Theorem never_terminate : forall (p : prog),
    dtors_total p -> acts_no_terminate p -> forall s, exec p s <> Terminate.
  Proof.
    induction p as [|f|a IHa b IHb|f IH|nf body IHb d]; intros Hd Ha s; cbn [exec dtors_total acts_no_terminate] in *.
    - discriminate.
    - apply Ha.
    - destruct Hd as [Hda Hdb]. destruct Ha as [Haa Hab].
      specialize (IHa Hda Haa s). destruct (exec a s) as [s1|e s1|]; [apply IHb; assumption|discriminate|contradiction].
    - apply IH; [apply Hd|apply Ha].
    - destruct Hd as [Hdb Hdt]. specialize (IHb Hdb Ha s).
      destruct (exec body s) as [s1|e s1|]; cbn [close]; [| |contradiction];
        destruct (Hdt s1) as [s2 ->]; discriminate.
  Qed.

  (* conversely: an Err that reaches the caller was thrown by an action or by a noexcept(false) destructor;
     with nf = false everywhere it was thrown by an action *)
  Fixpoint all_noexcept (p : prog) : Prop :=
    match p with
    | Skip | Act _ => True
    | Seq a b => all_noexcept a /\ all_noexcept b
    | Dyn f => forall s, all_noexcept (f s)
    | Scope nf body _ => nf = false /\ all_noexcept body
    end.

  Lemma exec_ok_completes : forall (p : prog) s s', exec p s = Ok s' -> completes p s s'.
  Proof.
    induction p as [|f|a IHa b IHb|f IH|nf body IHb d]; intros s s' H; cbn [exec] in H.
    - inversion H; subst. constructor.
    - constructor. exact H.
    - destruct (exec a s) as [s1|e s1|] eqn:Ea; try discriminate.
      econstructor; [apply IHa; exact Ea|apply IHb; exact H].
    - constructor. apply IH. exact H.
    - destruct (exec body s) as [s1|e s1|] eqn:Eb; cbn [close] in H; try discriminate.
      + destruct (d s1) as [s2|e s2|] eqn:Ed; try discriminate.
        * inversion H; subst. econstructor; [apply IHb; exact Eb|exact Ed].
        * destruct nf; discriminate.
      + destruct (d s1); discriminate.
  Qed.

  Theorem err_was_thrown : forall (p : prog), all_noexcept p ->
    forall s e s', exec p s = Err e s' -> throws p s e.
  Proof.
    induction p as [|f|a IHa b IHb|f IH|nf body IHb d]; intros Hn s e s' H; cbn [exec all_noexcept] in *.
    - discriminate.
    - econstructor. exact H.
    - destruct Hn as [Hna Hnb]. destruct (exec a s) as [s1|e1 s1|] eqn:Ea; try discriminate.
      + eapply t_seq2; [apply exec_ok_completes; exact Ea|eapply IHb; eassumption].
      + inversion H; subst. apply t_seq1. eapply IHa; eassumption.
    - constructor. eapply IH; [apply Hn|exact H].
    - destruct Hn as [-> Hnb]. destruct (exec body s) as [s1|e1 s1|] eqn:Eb; cbn [close] in H; try discriminate.
      + destruct (d s1); discriminate.
      + destruct (d s1) as [s2|e2 s2|]; try discriminate. inversion H; subst.
        constructor. eapply IHb; eassumption.
  Qed.

  (* the rule itself: a destructor that throws while an exception is in flight, or on normal exit, terminates *)
  Lemma throwing_dtor_terminates_unwinding : forall (body : prog) d s e s1 e2 s2,
    exec body s = Err e s1 -> d s1 = Err e2 s2 -> forall nf, exec (Scope nf body d) s = Terminate.
  Proof. intros. cbn [exec]. rewrite H. cbn [close]. rewrite H0. reflexivity. Qed.

  Lemma throwing_dtor_terminates_normal : forall (body : prog) d s s1 e2 s2,
    exec body s = Ok s1 -> d s1 = Err e2 s2 -> exec (Scope false body d) s = Terminate.
  Proof. intros. cbn [exec]. rewrite H. cbn [close]. rewrite H0. reflexivity. Qed.
End ExnProofs.

Arguments all_noexcept {St E} p.

(* ------------------------------------------------------------------------------------------------ *)
(** * The library scopes                                                                              *)

(* F17 as it was before /repo commits 0863f96 / 3580349: a map header announcing one member, then end of input.
   ReadKey throws ParsingException; the unguarded scope destructor tries to skip the member that was never read,
   SkipValue throws again: std::terminate.  With the guard both historical witnesses are catchable exceptions. *)
Lemma mp_unguarded_dtor_terminates :
  exec mp_load_map_unguarded (mp_init [0x81%N]) = Terminate /\
  exec mp_load_map_unguarded (mp_init [0x81; 0xA1]%N) = Terminate.
Proof. split; vm_compute; reflexivity. Qed.

Lemma mp_truncated_map_now_err :
  (exists s, mp_run [0x81%N] = Err EParse s) /\ (exists s, mp_run [0x81; 0xA1]%N = Err EParse s).
Proof. split; eexists; vm_compute; reflexivity. Qed.

Lemma mp_truncated_map_throws : throws mp_load_map (mp_init [0x81%N]) EParse.
Proof.
  unfold mp_load_map. apply t_scope. eapply t_seq2.
  - apply c_act. vm_compute. reflexivity.
  - apply t_seq1. apply t_scope. eapply t_seq2.
    + apply c_act. vm_compute. reflexivity.
    + apply t_dyn. cbn. apply t_seq1. apply t_seq1. eapply t_act. vm_compute. reflexivity.
Qed.

(* F18 as it was before /repo commit 0a28cd4: the second row has fewer fields than the first.  No action throws: the
   width check lives in NextLine, which only the (then unguarded) destructor calls — on the normal path *)
Lemma csv_unguarded_short_row_terminates : exec (csv_save_unguarded [2; 1]) csv_init = Terminate.
Proof. vm_compute. reflexivity. Qed.

(* ---- the repaired writer: the destructor defers the error, Finalize rethrows the first one *)
Lemma exec_iterate_write : forall n s, exists s',
  exec (iterate n (Act write_value)) s = Ok s' /\ cw_row s' = cw_row s /\ cw_prev s' = cw_prev s /\
  cw_values s' = n + cw_values s /\ cw_lines s' = cw_lines s /\ cw_deferred s' = cw_deferred s.
Proof.
  induction n; intro s; cbn [iterate exec].
  - exists s. repeat split.
  - unfold write_value at 1.
    destruct (IHn {| cw_row := cw_row s; cw_values := S (cw_values s); cw_prev := cw_prev s; cw_lines := cw_lines s;
                     cw_deferred := cw_deferred s |}) as [s' [H [H1 [H2 [H3 [H4 H5]]]]]].
    exists s'. cbn in *. repeat split; try assumption. lia.
Qed.

Lemma dtor_write_object_scope_total : total dtor_write_object_scope.
Proof.
  intro s. unfold dtor_write_object_scope, next_line.
  destruct (Nat.eqb (cw_row s) 0); [eauto|]. destruct (Nat.eqb (cw_values s) (cw_prev s)); eauto.
Qed.

(* a deferred error stays (first error wins) and the rows after it never stop the save *)
Lemma csv_rows_keep_deferred : forall rest s e, cw_deferred s = Some e ->
  exists s', exec (csv_rows rest) s = Ok s' /\ cw_deferred s' = Some e.
Proof.
  induction rest as [|x rest IH]; intros s e Hd; cbn [csv_rows exec].
  - eauto.
  - unfold csv_row. cbn [exec]. destruct (exec_iterate_write x s) as [s1 [-> [_ [_ [_ [_ D1]]]]]]. cbn [close].
    rewrite Hd in D1.
    unfold dtor_write_object_scope, next_line.
    destruct (Nat.eqb (cw_row s1) 0); [apply IH; cbn; exact D1|].
    destruct (Nat.eqb (cw_values s1) (cw_prev s1)); apply IH; cbn; [exact D1|unfold defer; cbn; rewrite D1; reflexivity].
Qed.

Definition uniform (widths : list nat) : bool :=
  match widths with [] => true | w :: rest => forallb (Nat.eqb w) rest end.

Lemma csv_rows_after_first : forall rest s, cw_row s <> 0 -> cw_values s = 0 -> cw_deferred s = None ->
  (forallb (Nat.eqb (cw_prev s)) rest = true -> exists s', exec (csv_rows rest) s = Ok s' /\ cw_deferred s' = None) /\
  (forallb (Nat.eqb (cw_prev s)) rest = false ->
     exists s', exec (csv_rows rest) s = Ok s' /\ cw_deferred s' = Some EOutOfRange).
Proof.
  induction rest as [|x rest IH]; intros s Hr Hv Hd; cbn [csv_rows exec forallb].
  - split; [eauto|discriminate].
  - unfold csv_row. cbn [exec]. destruct (exec_iterate_write x s) as [s1 [-> [R1 [P1 [V1 [_ D1]]]]]]. cbn [close].
    unfold dtor_write_object_scope, next_line. destruct (Nat.eqb (cw_row s1) 0) eqn:E0.
    { apply Nat.eqb_eq in E0. congruence. }
    rewrite V1, P1, Hv, Nat.add_0_r, (Nat.eqb_sym (cw_prev s) x).
    destruct (Nat.eqb x (cw_prev s)) eqn:Exw; cbn [andb].
    + set (s2 := {| cw_row := S (cw_row s1); cw_values := 0; cw_prev := cw_prev s; cw_lines := S (cw_lines s1);
                    cw_deferred := cw_deferred s1 |}).
      assert (Hp2 : cw_prev s2 = cw_prev s) by reflexivity. rewrite <- Hp2.
      apply IH; cbn; [discriminate|reflexivity|congruence].
    + split; [discriminate|]. intros _.
      apply csv_rows_keep_deferred. unfold defer. cbn. rewrite D1, Hd. reflexivity.
Qed.

(* full strength for the CSV save, every list of rows: the width error surfaces as OutOfRange, exactly when some row
   differs in width from the first; nothing else can happen *)
Theorem csv_width_error_surfaces : forall widths,
  (uniform widths = true -> exists s, csv_run widths = Ok s) /\
  (uniform widths = false -> exists s, csv_run widths = Err EOutOfRange s).
Proof.
  intros [|w rest]; unfold csv_run, csv_save, uniform; cbn [exec csv_rows].
  - split; [intros _; eexists; reflexivity|discriminate].
  - unfold csv_row. cbn [exec]. destruct (exec_iterate_write w csv_init) as [s1 [-> [R1 [P1 [V1 [L1 D1]]]]]]. cbn [close].
    unfold dtor_write_object_scope, next_line. rewrite R1. cbn [csv_init cw_row Nat.eqb].
    set (s2 := {| cw_row := 1; cw_values := 0; cw_prev := cw_values s1; cw_lines := S (cw_lines s1);
                  cw_deferred := cw_deferred s1 |}).
    assert (Hw : cw_prev s2 = w) by (cbn; rewrite V1; cbn; lia).
    destruct (csv_rows_after_first rest s2) as [Hok Hbad]; [cbn; discriminate|reflexivity|cbn; rewrite D1; reflexivity|].
    rewrite Hw in Hok, Hbad. split; intro H.
    + destruct (Hok H) as [s' [-> Hn]]. unfold csv_finalize. rewrite Hn. cbn [close]. eauto.
    + destruct (Hbad H) as [s' [-> Hs]]. unfold csv_finalize. rewrite Hs. cbn [close]. eauto.
Qed.

Lemma csv_rows_total : forall rest s, exists s', exec (csv_rows rest) s = Ok s'.
Proof.
  induction rest as [|x rest IH]; intro s; cbn [csv_rows exec]; [eauto|].
  unfold csv_row. cbn [exec]. destruct (exec_iterate_write x s) as [s1 [-> _]]. cbn [close].
  destruct (dtor_write_object_scope_total s1) as [s2 ->]. apply IH.
Qed.

Theorem csv_never_terminates : forall widths, csv_run widths <> Terminate.
Proof.
  intro widths. unfold csv_run, csv_save. cbn [exec].
  destruct (csv_rows_total widths csv_init) as [s1 ->]. unfold csv_finalize.
  destruct (cw_deferred s1); cbn [close]; discriminate.
Qed.

(* ------------------------------------------------------------------------------------------------ *)
(** * The MsgPack scope (repaired): a destructor that cannot throw makes every failure catchable        *)

Lemma skip_value_no_term : forall s, skip_value s <> Terminate.
Proof.
  intro s. unfold skip_value, take_str, unmodelled. destruct (byte_at s); [|discriminate].
  repeat match goal with |- context [if ?c then _ else _] => destruct c end; discriminate.
Qed.

Lemma reset_key_no_term : forall s, reset_key s <> Terminate.
Proof.
  intro s. unfold reset_key. destruct (mp_keyset s); [|discriminate].
  pose proof (skip_value_no_term (set_key s false)). destruct (skip_value (set_key s false)); congruence.
Qed.

Lemma skip_pairs_no_term : forall n s, skip_pairs n s <> Terminate.
Proof.
  induction n as [|n IH]; intro s; cbn [skip_pairs]; [discriminate|].
  pose proof (skip_value_no_term s) as H1. destruct (skip_value s) as [s1|e1 s1|]; [|discriminate|congruence].
  pose proof (skip_value_no_term s1) as H2. destruct (skip_value s1) as [s2|e2 s2|]; [|discriminate|congruence].
  apply IH.
Qed.

Lemma dtor_read_object_scope_total : total dtor_read_object_scope.
Proof.
  intro s. unfold dtor_read_object_scope, dtor_skip_unread.
  pose proof (reset_key_no_term s). destruct (reset_key s) as [s1|e s1|]; [|eauto|congruence].
  pose proof (skip_pairs_no_term (mp_size s1 - mp_idx s1) s1).
  destruct (skip_pairs (mp_size s1 - mp_idx s1) s1); [eauto|eauto|congruence].
Qed.

Lemma mp_finalize_no_term : forall s, mp_finalize s <> Terminate.
Proof. intro s. unfold mp_finalize. destruct (mp_close_failed s); discriminate. Qed.

Lemma acts_mp : acts_no_terminate mp_load_map.
Proof.
  cbn. split; [|split; [split|]]; [| | |apply mp_finalize_no_term].
  - intro s. unfold open_object_scope, unmodelled. destruct (byte_at s); [|discriminate].
    destruct (is_fixmap n); discriminate.
  - intro s. unfold visit_keys_prologue. pose proof (reset_key_no_term s). destruct (reset_key s); congruence.
  - intro s. induction (mp_size s) as [|k IH]; cbn; [exact I|]. split; [|exact IH]. split; [|split].
    + intro s0. unfold read_key, take_str, unmodelled. destruct (byte_at s0); [|discriminate].
      repeat match goal with |- context [if ?c then _ else _] => destruct c end; discriminate.
    + intro s0. unfold serialize_value, unmodelled. destruct (byte_at _); [|discriminate].
      repeat match goal with |- context [if ?c then _ else _] => destruct c end; discriminate.
    + apply reset_key_no_term.
Qed.

Lemma dtors_mp : dtors_total mp_load_map.
Proof.
  cbn. repeat split.
  - intro s. induction (mp_size s) as [|k IH]; cbn; [exact I|]. split; [repeat split|exact IH].
  - apply dtor_read_object_scope_total.
  - intro s. eauto.
Qed.

(* full strength for the MsgPack map load, every input: never std::terminate ... *)
Theorem mp_never_terminates : forall inp, mp_run inp <> Terminate.
Proof. intro inp. apply never_terminate; [apply dtors_mp|apply acts_mp]. Qed.

(* ... and the caller sees the exception that the body threw *)
Theorem mp_propagates : forall inp e, throws mp_load_map (mp_init inp) e -> exists s, mp_run inp = Err e s.
Proof. intros inp e. apply propagation. apply dtors_mp. Qed.
