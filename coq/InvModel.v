(* InvModel.v — executable mirrors of the two library scopes whose destructors can throw, written as programs of
   the Exn language of InvSpec.v.  No proofs here.

   (1) MsgPack, memory reader: LoadObject<MsgPackArchive>(std::map<std::string,int>&, bytes)
       bit_serializer.h LoadObject -> MsgPackReadRootScope::OpenObjectScope (ReadMapSize)
       -> CMsgPackReadObjectScope -> SerializeMapImpl (generic_map.h) -> VisitKeys -> ReadKey / SerializeValue
       -> ~CMsgPackReadObjectScope (ResetKey + "skip key/values that was not read", guarded by try/catch(...)
          since /repo commits 0863f96 and 3580349).
       Byte subset: fixmap header at the root; keys fixstr / fixint; values fixint; SkipValue additionally knows
       nil / bool.  Any other byte where a type is inspected sets mp_unmodelled (the answer is then UNMODELLED and
       such inputs are not part of the correspondence).
   (2) CSV, string writer: SaveObject<CsvArchive>(std::vector<std::map<std::string,int>>&) — one
       CCsvWriteObjectScope per row, WriteValue per field, ~CCsvWriteObjectScope -> NextLine (error deferred to
       CsvWriteRootScope::Finalize since /repo commit 0a28cd4). *)
From Coq Require Import NArith List Bool Arith.
From BS Require Import InvSpec.
Import ListNotations.

Inductive err := EParse        (* ParsingException *)
               | EOutOfRange   (* SerializationException(OutOfRange): CSV row width *)
               | EMismatch     (* SerializationException(MismatchedTypes), default MismatchedTypesPolicy::ThrowError *)
               | EUnmodelled.  (* outside the modelled byte subset *)

(* ------------------------------------------------------------------------------------------------ *)
(** * MsgPack read-object scope                                                                       *)

Record mp_state := {
  mp_inp : list N;        (* the input bytes *)
  mp_pos : nat;           (* CMsgPackStringReader::mPos *)
  mp_start : nat;         (* CMsgPackReadObjectScope::mStartPos *)
  mp_size : nat;          (* mSize *)
  mp_idx : nat;           (* mIndex *)
  mp_keyset : bool;       (* mCurrentKey (operator bool): set by GetValueRef *before* the key is read *)
  mp_loaded : nat;        (* number of map entries stored in the target *)
  mp_close_failed : bool; (* IMsgPackReader::mCloseScopeFailed (set by a scope destructor whose skip failed) *)
  mp_unmodelled : bool }.

Definition mp_init (inp : list N) : mp_state :=
  {| mp_inp := inp; mp_pos := 0; mp_start := 0; mp_size := 0; mp_idx := 0; mp_keyset := false; mp_loaded := 0;
     mp_close_failed := false; mp_unmodelled := false |}.

Definition set_pos (s : mp_state) (p : nat) : mp_state :=
  {| mp_inp := mp_inp s; mp_pos := p; mp_start := mp_start s; mp_size := mp_size s; mp_idx := mp_idx s;
     mp_keyset := mp_keyset s; mp_loaded := mp_loaded s; mp_close_failed := mp_close_failed s; mp_unmodelled := mp_unmodelled s |}.
Definition set_key (s : mp_state) (k : bool) : mp_state :=
  {| mp_inp := mp_inp s; mp_pos := mp_pos s; mp_start := mp_start s; mp_size := mp_size s; mp_idx := mp_idx s;
     mp_keyset := k; mp_loaded := mp_loaded s; mp_close_failed := mp_close_failed s; mp_unmodelled := mp_unmodelled s |}.
Definition inc_idx (s : mp_state) : mp_state :=
  {| mp_inp := mp_inp s; mp_pos := mp_pos s; mp_start := mp_start s; mp_size := mp_size s; mp_idx := S (mp_idx s);
     mp_keyset := mp_keyset s; mp_loaded := mp_loaded s; mp_close_failed := mp_close_failed s; mp_unmodelled := mp_unmodelled s |}.
Definition inc_loaded (s : mp_state) : mp_state :=
  {| mp_inp := mp_inp s; mp_pos := mp_pos s; mp_start := mp_start s; mp_size := mp_size s; mp_idx := mp_idx s;
     mp_keyset := mp_keyset s; mp_loaded := S (mp_loaded s); mp_close_failed := mp_close_failed s; mp_unmodelled := mp_unmodelled s |}.
Definition unmodelled (s : mp_state) : outcome mp_state err :=
  Err EUnmodelled {| mp_inp := mp_inp s; mp_pos := mp_pos s; mp_start := mp_start s; mp_size := mp_size s;
                     mp_idx := mp_idx s; mp_keyset := mp_keyset s; mp_loaded := mp_loaded s;
                     mp_close_failed := mp_close_failed s; mp_unmodelled := true |}.

Definition byte_at (s : mp_state) : option N := nth_error (mp_inp s) (mp_pos s).
Local Open Scope N_scope.
Definition is_fixint (b : N) : bool := (b <? 0x80) || (0xE0 <=? b).
Definition is_fixstr (b : N) : bool := (0xA0 <=? b) && (b <? 0xC0).
Definition is_fixmap (b : N) : bool := (0x80 <=? b) && (b <? 0x90).
Local Close Scope N_scope.

(* CMsgPackStringReader::ReadMapSize, then the constructor of CMsgPackReadObjectScope (mStartPos, mSize, mIndex) *)
Definition open_object_scope (s : mp_state) : outcome mp_state err :=
  match byte_at s with
  | None => Err EParse s                                    (* "No more values to read" *)
  | Some b =>
      if is_fixmap b then
        Ok {| mp_inp := mp_inp s; mp_pos := S (mp_pos s); mp_start := S (mp_pos s);
              mp_size := N.to_nat (b - 0x80)%N; mp_idx := 0; mp_keyset := false; mp_loaded := mp_loaded s;
              mp_close_failed := mp_close_failed s; mp_unmodelled := mp_unmodelled s |}
      else unmodelled s
  end.

(* fixstr body: ReadValue(std::string_view&) has already advanced mPos past the header when it throws *)
Definition take_str (s : mp_state) (b : N) : outcome mp_state err :=
  let p := S (mp_pos s) in
  let n := N.to_nat (b - 0xA0)%N in
  if Nat.leb (p + n) (length (mp_inp s)) then Ok (set_pos s (p + n)) else Err EParse (set_pos s p).

(* SkipValueImpl on the subset (pos++ happens before the size check) *)
Definition skip_value (s : mp_state) : outcome mp_state err :=
  match byte_at s with
  | None => Err EParse s
  | Some b =>
      if is_fixint b || (b =? 0xC0)%N || (b =? 0xC2)%N || (b =? 0xC3)%N then Ok (set_pos s (S (mp_pos s)))
      else if is_fixstr b then take_str s b
      else unmodelled s
  end.

(* CMsgPackReadObjectScope::ResetKey *)
Definition reset_key (s : mp_state) : outcome mp_state err :=
  if mp_keyset s then
    match skip_value (set_key s false) with
    | Ok s1 => Ok (inc_idx s1)
    | o => o
    end
  else Ok s.

(* VisitKeys prologue: ResetKey(); SetPosition(mStartPos); mIndex = 0 *)
Definition visit_keys_prologue (s : mp_state) : outcome mp_state err :=
  match reset_key s with
  | Ok s1 => Ok {| mp_inp := mp_inp s1; mp_pos := mp_start s1; mp_start := mp_start s1; mp_size := mp_size s1;
                   mp_idx := 0; mp_keyset := mp_keyset s1; mp_loaded := mp_loaded s1;
                   mp_close_failed := mp_close_failed s1; mp_unmodelled := mp_unmodelled s1 |}
  | o => o
  end.

(* ReadKey: ReadValueType, then GetValueRef<T>() (marks the key as set) and ReadValue(ref) *)
Definition read_key (s : mp_state) : outcome mp_state err :=
  match byte_at s with
  | None => Err EParse s                                    (* ReadValueType: "No more values to read" *)
  | Some b =>
      if is_fixstr b then take_str (set_key s true) b
      else if is_fixint b then Ok (set_pos (set_key s true) (S (mp_pos s)))
      else unmodelled s
  end.

(* the callback of SerializeMapImpl: try_emplace, then SerializeValue(key, int&):
   FindValueByKey (current key matches) ; mCurrentKey.Reset() ; ++mIndex ; ReadValue(int&) *)
Definition serialize_value (s : mp_state) : outcome mp_state err :=
  let s1 := inc_idx (set_key s false) in
  match byte_at s1 with
  | None => Err EParse s1
  | Some b => if is_fixint b then Ok (inc_loaded (set_pos s1 (S (mp_pos s1))))
              else if is_fixstr b then Err EMismatch s1     (* HandleMismatchedTypesPolicy throws before skipping *)
              else unmodelled s1
  end.

(* one iteration of `for (mIndex = 0; mIndex < mSize;) { ReadKey(fn); ResetKey(); }` *)
Definition visit_one : prog mp_state err :=
  Seq (Act read_key) (Seq (Act serialize_value) (Act reset_key)).

Fixpoint iterate {St E} (n : nat) (p : prog St E) : prog St E :=
  match n with 0 => Skip | S k => Seq p (iterate k p) end.

(* ~CMsgPackReadObjectScope *)
Fixpoint skip_pairs (n : nat) (s : mp_state) : outcome mp_state err :=
  match n with
  | 0 => Ok s
  | S k => match skip_value s with
           | Ok s1 => match skip_value s1 with
                      | Ok s2 => skip_pairs k (inc_idx s2)
                      | o => o
                      end
           | o => o
           end
  end.
(* ~CMsgPackReadObjectScope as repaired by /repo commits 0863f96, 3580349 and 8d03f7f:
     try { ResetKey(); for (c = mIndex; c < mSize; ++c) { SkipValue(); SkipValue(); ++mIndex; } }
     catch (...) { mMsgPackReader->SetCloseScopeFailed(); }
   MsgPackReadRootScope::Finalize() then throws ParsingException when the flag is set. *)
Definition dtor_skip_unread (s : mp_state) : outcome mp_state err :=
  match reset_key s with
  | Ok s1 => skip_pairs (mp_size s1 - mp_idx s1) s1
  | o => o
  end.
Definition set_close_failed (s : mp_state) : mp_state :=
  {| mp_inp := mp_inp s; mp_pos := mp_pos s; mp_start := mp_start s; mp_size := mp_size s; mp_idx := mp_idx s;
     mp_keyset := mp_keyset s; mp_loaded := mp_loaded s; mp_close_failed := true; mp_unmodelled := mp_unmodelled s |}.
Definition dtor_read_object_scope (s : mp_state) : outcome mp_state err :=
  match dtor_skip_unread s with
  | Ok s2 => Ok s2
  | Err _ s2 => Ok (set_close_failed s2)       (* catch (...) { SetCloseScopeFailed(); } *)
  | Terminate => Terminate
  end.
(* LoadObject: archive.Finalize() after the root value has been loaded *)
Definition mp_finalize (s : mp_state) : outcome mp_state err :=
  if mp_close_failed s then Err EParse s else Ok s.

(* each iteration advances mIndex by exactly one (SerializeValue or ResetKey), so the loop body runs mSize times *)
Definition mp_load_map : prog mp_state err :=
  Scope false                                               (* MsgPackReadRootScope; its destructor deletes the reader *)
    (Seq (Act open_object_scope)
         (Seq (Scope false                                  (* CMsgPackReadObjectScope *)
                 (Seq (Act visit_keys_prologue) (Dyn (fun s => iterate (mp_size s) visit_one)))
                 dtor_read_object_scope)
              (Act mp_finalize)))                           (* archive.Finalize() *)
    (fun s => Ok s).

Definition mp_run (inp : list N) : outcome mp_state err := exec mp_load_map (mp_init inp).

(* the destructor as it was before those commits (F17): nothing guarded.  Kept to show that the guard is what
   makes the difference (InvExn.mp_unguarded_dtor_terminates). *)
Definition mp_load_map_unguarded : prog mp_state err :=
  Scope false
    (Seq (Act open_object_scope)
         (Scope false
            (Seq (Act visit_keys_prologue) (Dyn (fun s => iterate (mp_size s) visit_one)))
            dtor_skip_unread))
    (fun s => Ok s).

(* ------------------------------------------------------------------------------------------------ *)
(** * CSV write-object scope                                                                          *)

Record csv_state := {
  cw_row : nat;           (* mRowIndex *)
  cw_values : nat;        (* mValueIndex *)
  cw_prev : nat;          (* mPrevValuesCount *)
  cw_lines : nat;         (* data lines appended to the output *)
  cw_deferred : option err }.   (* ICsvWriter::mDeferredError (first error wins), /repo commit 0a28cd4 *)

Definition csv_init : csv_state := {| cw_row := 0; cw_values := 0; cw_prev := 0; cw_lines := 0; cw_deferred := None |}.

(* CCsvStringWriter::WriteValue *)
Definition write_value (s : csv_state) : outcome csv_state err :=
  Ok {| cw_row := cw_row s; cw_values := S (cw_values s); cw_prev := cw_prev s; cw_lines := cw_lines s;
        cw_deferred := cw_deferred s |}.

(* CCsvStringWriter::NextLine *)
Definition next_line (s : csv_state) : outcome csv_state err :=
  if Nat.eqb (cw_row s) 0 then
    Ok {| cw_row := 1; cw_values := 0; cw_prev := cw_values s; cw_lines := S (cw_lines s); cw_deferred := cw_deferred s |}
  else if Nat.eqb (cw_values s) (cw_prev s) then
    Ok {| cw_row := S (cw_row s); cw_values := 0; cw_prev := cw_prev s; cw_lines := S (cw_lines s);
          cw_deferred := cw_deferred s |}
  else Err EOutOfRange s.       (* "Number of values are different than in previous line"; thrown before the row is
                                   flushed, so mValueIndex / mCurrentRow keep growing with the next row *)

(* ~CCsvWriteObjectScope since /repo commit 0a28cd4:
     try { mCsvWriter->NextLine(); } catch (...) { mCsvWriter->DeferError(std::current_exception()); } *)
Definition defer (e : err) (s : csv_state) : csv_state :=
  {| cw_row := cw_row s; cw_values := cw_values s; cw_prev := cw_prev s; cw_lines := cw_lines s;
     cw_deferred := match cw_deferred s with Some e0 => Some e0 | None => Some e end |}.
Definition dtor_write_object_scope (s : csv_state) : outcome csv_state err :=
  match next_line s with
  | Ok s1 => Ok s1
  | Err e s1 => Ok (defer e s1)
  | Terminate => Terminate
  end.
(* CsvWriteRootScope::Finalize(): RethrowDeferredError() *)
Definition csv_finalize (s : csv_state) : outcome csv_state err :=
  match cw_deferred s with Some e => Err e s | None => Ok s end.

(* the destructor as it was before that commit (F18) *)
Definition csv_row_unguarded (width : nat) : prog csv_state err :=
  Scope false (iterate width (Act write_value)) next_line.
Fixpoint csv_rows_unguarded (widths : list nat) : prog csv_state err :=
  match widths with
  | [] => Skip
  | w :: rest => Seq (csv_row_unguarded w) (csv_rows_unguarded rest)
  end.
Definition csv_save_unguarded (widths : list nat) : prog csv_state err :=
  Scope false (csv_rows_unguarded widths) (fun s => Ok s).

(* one row: CsvWriteArrayScope::OpenObjectScope, `width` fields, ~CCsvWriteObjectScope *)
Definition csv_row (width : nat) : prog csv_state err :=
  Scope false (iterate width (Act write_value)) dtor_write_object_scope.

Fixpoint csv_rows (widths : list nat) : prog csv_state err :=
  match widths with
  | [] => Skip
  | w :: rest => Seq (csv_row w) (csv_rows rest)
  end.

(* CsvWriteRootScope (destructor deletes the writer) around the array scope (no destructor body), then
   archive.Finalize() *)
Definition csv_save (widths : list nat) : prog csv_state err :=
  Scope false (Seq (csv_rows widths) (Act csv_finalize)) (fun s => Ok s).

Definition csv_run (widths : list nat) : outcome csv_state err := exec (csv_save widths) csv_init.

(* ------------------------------------------------------------------------------------------------ *)
(** * Answers of the model driver                                                                     *)

Inductive answer := AOk | AExcParse | AExcMismatch | AExcRange | ATerminate | AUnmodelled.

(* the inputs of the correspondence: a fixmap header followed by fixint / fixstr-header bytes only (every prefix of
   a document {fixstr|fixint key -> fixint value} with 7-bit key characters is of this form); on these inputs no
   step of the model can meet an unmodelled byte *)
Definition in_domain (inp : list N) : bool :=
  match inp with
  | [] => true
  | b :: rest => is_fixmap b && forallb (fun x => is_fixint x || is_fixstr x) rest
  end.

Definition mp_answer (inp : list N) : answer :=
  if negb (in_domain inp) then AUnmodelled else
  match mp_run inp with
  | Ok s => if mp_unmodelled s then AUnmodelled else AOk
  | Err EParse _ => AExcParse
  | Err EMismatch _ => AExcMismatch
  | Err EOutOfRange _ => AExcRange
  | Err EUnmodelled _ => AUnmodelled
  | Terminate => ATerminate
  end.

Definition csv_answer (widths : list nat) : answer :=
  match csv_run widths with
  | Ok _ => AOk
  | Err EOutOfRange _ => AExcRange
  | Err _ _ => AUnmodelled
  | Terminate => ATerminate
  end.
