(* InvPropProofs.v - proofs moved out of Properties_C19.v (the properties file keeps statements closed by `exact`). *)
From Coq Require Import String List Bool.
From BS Require Import InvSpec InvGenerated InvThreads InvStatics.
Import ListNotations.

Lemma T_C19_example_two_threads_proof :
  let o : rop nat nat nat := fun s l => (l + s, l * s) in
  let c : config nat nat nat := fun t => if Nat.leb t 1 then Build_thread (S t) [lift o; lift o] [] else Build_thread 0 [] [] in
  all_readers c /\ fair_merge c [0; 1; 1; 0] /\
  exists c', run_interleaved 3 c [0; 1; 1; 0] = Some (3, c') /\ t_done (c' 0) = [3; 12] /\ t_done (c' 1) = [6; 15].
Proof.
  cbv zeta. split; [|split].
  - intros t o Hin. destruct t as [|[|t]]; cbn in Hin; intuition; subst; apply lift_reader.
  - intro t. destruct t as [|[|t]]; reflexivity.
  - eexists. split; [reflexivity|]. split; reflexivity.
Qed.
