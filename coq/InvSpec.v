(* InvSpec.v — specification side of the `inv` family (C19: threads do not interfere, C20: every failure
   surfaces as a catchable exception).  Nothing in this file mentions how the library computes anything:

   1. the record types of the regenerated inventory (coq/InvGenerated.v is written by tools/inventory.py
      from the clang AST of the current sources on every check run) and the decidable predicates that the
      inventory has to satisfy (`benign`, `may_throw`);
   2. `Threads`: a small-step interleaving semantics of threads with private state over one shared store;
   3. `Exn`: the C++ rules for exceptions and scope exit (destructors run in reverse order of construction
      on normal and on exceptional exit; an exception leaving a destructor that is implicitly noexcept
      calls std::terminate, [except.spec], [except.terminate]). *)
From Coq Require Import String List Bool Arith.
Import ListNotations.
Local Open Scope string_scope.

(* ------------------------------------------------------------------------------------------------ *)
(** * 1. Inventory records (all fields are strings so that the translator stays a printer)            *)

Record write_site := { ws_function : string;    (* qualified name of the enclosing function *)
                       ws_kind : string }.      (* assignment, increment, non-const-member-call(..), ... *)

Record static_record := {
  st_name : string;              (* qualified name *)
  st_file : string;              (* path relative to the repository root *)
  st_scope : string;             (* "namespace" | "member" | "local" *)
  st_const : string;             (* "constexpr" | "const" | "no" *)
  st_mutable_members : string;   (* "yes" | "no": the type mentions a library class with a mutable field *)
  st_init : string;              (* "constexpr" | "constant" | "none" | "dynamic" *)
  st_type : string;              (* as spelled by clang; informative only *)
  st_writes : list write_site }.

Record dtor_record := {
  dt_name : string;
  dt_file : string;
  dt_noexcept_false : string;    (* "yes" | "no" *)
  dt_callees : list string }.    (* callees of the body that are not noexcept (outside a catch-all try block) *)

Record unsafe_call := { uc_function : string; uc_callee : string }.

Definition str_in (s : string) (l : list string) : bool := existsb (String.eqb s) l.

(** ** C19: when is an object with static storage duration harmless for concurrent serialisations        *)

(* functions that run during static initialisation only: EnumRegistry<T>::Register is reached from the
   initialiser of the namespace-scope constant that REGISTER_ENUM declares *)
Definition registrars : list string :=
  [ "BitSerializer::Convert::Detail::EnumRegistry::Register" ].

Definition is_const (r : static_record) : bool :=
  (st_const r =? "const") || (st_const r =? "constexpr").

(* how and when the initial value gets there *)
Definition init_constant (r : static_record) : bool :=        (* no code runs: constant / zero initialisation *)
  (st_init r =? "constexpr") || (st_init r =? "constant") || (st_init r =? "none").
Definition init_local_static (r : static_record) : bool :=    (* C++11 [stmt.dcl]/4: concurrent first entry waits *)
  (st_scope r =? "local") && (st_init r =? "dynamic").
Definition init_static_time (r : static_record) : bool :=     (* dynamic initialisation of a namespace-scope /
                                                                 static-member object: before main, one thread *)
  ((st_scope r =? "namespace") || (st_scope r =? "member")) && (st_init r =? "dynamic").

Definition benign_const (r : static_record) : bool :=
  is_const r && negb (st_mutable_members r =? "yes")
  && (init_constant r || init_local_static r || init_static_time r)
  && match st_writes r with [] => true | _ => false end.      (* a write site of a const object = const_cast *)

Definition benign_registrar (r : static_record) : bool :=
  (st_const r =? "no")
  && match st_writes r with [] => false | _ => true end
  && forallb (fun w => str_in (ws_function w) registrars) (st_writes r).

(* never written by the library; a user writing it concurrently is outside the property *)
Definition benign_never_written (r : static_record) : bool :=
  (st_const r =? "no") && match st_writes r with [] => true | _ => false end.

Definition benign (r : static_record) : bool :=
  benign_const r || benign_registrar r || benign_never_written r.

(* C library functions that keep hidden static state *)
Definition nonreentrant : list string :=
  [ "gmtime"; "localtime"; "asctime"; "ctime"; "strtok"; "rand"; "srand"; "setlocale"; "strerror"; "tmpnam";
    "getenv"; "putenv"; "setenv"; "mbrtowc"; "wcrtomb"; "mblen"; "mbtowc"; "wctomb" ].

(** ** C20: which destructors can let an exception out                                                   *)

Definition may_throw (d : dtor_record) : bool :=
  (dt_noexcept_false d =? "yes") || match dt_callees d with [] => false | _ => true end.

(* the destructors (with the possibly-throwing callees of their bodies) that are accepted as known.  The two that were
   ways to reach std::terminate left the list when they were repaired in /repo: ~CMsgPackReadObjectScope (F17; commits
   0863f96 + 3580349 + 8d03f7f) and ~CCsvWriteObjectScope (F18; commit 0a28cd4) now make all their calls inside
   try { } catch (...) { } and hand the failure to the root scope's Finalize(). *)
Definition expected_throwing_dtors : list (string * list string) :=      (* sorted by name *)
  [ (* calls the virtual OnFinishChildScope of the parent scope; its two overriders (array / object read scope)
       only reset a key and increment an index *)
    ("BitSerializer::MsgPack::Detail::CMsgPackScopeBase::~CMsgPackScopeBase",
       [ "BitSerializer::MsgPack::Detail::CMsgPackScopeBase::OnFinishChildScope [virtual]" ]) ].

Definition throwing_dtors (l : list dtor_record) : list (string * list string) :=
  map (fun d => (dt_name d, dt_callees d)) (filter may_throw l).

(* functions declared noexcept (other than destructors) that call possibly-throwing code: an exception leaving them is
   std::terminate just the same.  Names only (their callee lists are in the generated file).  The two defects this list
   exposed were repaired in /repo and left it: CMsgPackStreamReader::CMsgPackStreamReader (I38, commit b4cddb4) and
   Required::operator() (I39, commit 0ecb986) are no longer noexcept.  Today's list, judged by hand, all benign:
     IsEnd / IsFailed / GetEstimatedSize / ToStringView / CVariableKey::operator== / ICsvWriter::DeferError: the callee
       is a libstdc++ observer (size, eof, fail, bad, operator basic_string_view, exception_ptr::operator bool) that the
       translator cannot see to be noexcept
     CMsgPackReadObjectScope::CMsgPackReadObjectScope: default-constructs its std::string member (no allocation)
     ParseSecondFractions, PrintSecondsFractions, LittleEndianToNative, FieldsCountVisitor::*: arithmetic / dependent
       calls that resolve to non-throwing functions
     TryTo: the throwing call is inside try { } catch (const std::exception&) (not a catch-all, hence listed) *)
Definition expected_noexcept_callers : list string :=      (* sorted by name, as the translator emits them *)
  [ "BitSerializer::Convert::Detail::ParseSecondFractions";
    "BitSerializer::Convert::Detail::PrintSecondsFractions";
    "BitSerializer::Convert::Detail::ToStringView";
    "BitSerializer::Convert::TryTo";
    "BitSerializer::Convert::Utf::CEncodedStreamReader::IsEnd";
    "BitSerializer::Convert::Utf::CEncodedStreamReader::IsFailed";
    "BitSerializer::Csv::Detail::CCsvReadObjectScope::GetEstimatedSize";
    "BitSerializer::Csv::Detail::CCsvStringReader::IsEnd";
    "BitSerializer::Csv::Detail::ICsvWriter::DeferError";
    "BitSerializer::Detail::CBinaryStreamReader::IsEnd";
    "BitSerializer::Detail::CBinaryStreamReader::IsFailed";
    "BitSerializer::FieldsCountVisitor::GetContext";
    "BitSerializer::FieldsCountVisitor::GetMode";
    "BitSerializer::FieldsCountVisitor::GetOptions";
    "BitSerializer::FieldsCountVisitor::IsLoading";
    "BitSerializer::FieldsCountVisitor::IsSaving";
    "BitSerializer::Memory::LittleEndianToNative";
    "BitSerializer::MsgPack::Detail::CMsgPackReadObjectScope::CMsgPackReadObjectScope";
    "BitSerializer::MsgPack::Detail::CMsgPackStringReader::IsEnd";
    "BitSerializer::MsgPack::Detail::CVariableKey::operator==" ].

Definition noexcept_callers (l : list dtor_record) : list string := map dt_name (filter may_throw l).

(* ------------------------------------------------------------------------------------------------ *)
(** * 2. Threads: interleaving semantics                                                              *)

Section Threads.
  Variables (Sh L Out : Type).

  (* the most general step of a thread: it sees the shared store and its own private state and may change both *)
  Definition gop := Sh -> L -> Sh * L * Out.

  (* an operation that shares only constants: Sh is an argument and nothing else *)
  Definition rop := Sh -> L -> L * Out.
  Definition lift (o : rop) : gop := fun s l => (s, fst (o s l), snd (o s l)).

  (* `reader o`: o never changes the shared store *)
  Definition reader (o : gop) : Prop := forall s l, fst (fst (o s l)) = s.

  Record thread := { t_local : L; t_todo : list gop; t_done : list Out }.
  Definition config := nat -> thread.       (* thread id -> thread; all but finitely many have nothing to do *)

  Definition upd (c : config) (t : nat) (x : thread) : config := fun u => if Nat.eqb u t then x else c u.

  (* one small step: thread t executes its next operation atomically w.r.t. the model's granularity *)
  Definition step (s : Sh) (c : config) (t : nat) : option (Sh * config) :=
    match t_todo (c t) with
    | [] => None
    | o :: rest =>
        let '(s', l', out) := o s (t_local (c t)) in
        Some (s', upd c t {| t_local := l'; t_todo := rest; t_done := t_done (c t) ++ [out] |})
    end.

  (* a schedule is the list of thread ids in the order in which they take their steps *)
  Fixpoint run_interleaved (s : Sh) (c : config) (sched : list nat) : option (Sh * config) :=
    match sched with
    | [] => Some (s, c)
    | t :: rest => match step s c t with
                   | None => None
                   | Some (s', c') => run_interleaved s' c' rest
                   end
    end.

  (* the same thread alone, start to end, against a store that nobody touches *)
  Fixpoint run_ops (s : Sh) (l : L) (ops : list gop) (acc : list Out) : L * list Out :=
    match ops with
    | [] => (l, acc)
    | o :: rest => let '(_, l', out) := o s l in run_ops s l' rest (acc ++ [out])
    end.
  Definition run_sequential (s : Sh) (th : thread) : thread :=
    let '(l, outs) := run_ops s (t_local th) (t_todo th) (t_done th) in
    {| t_local := l; t_todo := []; t_done := outs |}.

  (* sched is a complete (fair) merge of the per-thread operation lists: every thread gets exactly as many
     turns as it has operations (the order inside one thread is its program order by construction of step) *)
  Definition fair_merge (c : config) (sched : list nat) : Prop :=
    forall t, count_occ Nat.eq_dec sched t = length (t_todo (c t)).

  Definition all_readers (c : config) : Prop := forall t o, In o (t_todo (c t)) -> reader o.
End Threads.

Arguments reader {Sh L Out} o.
Arguments lift {Sh L Out} o.
Arguments step {Sh L Out} s c t.
Arguments upd {Sh L Out} c t x.
Arguments run_interleaved {Sh L Out} s c sched.
Arguments run_sequential {Sh L Out} s th.
Arguments run_ops {Sh L Out} s l ops acc.
Arguments fair_merge {Sh L Out} c sched.
Arguments all_readers {Sh L Out} c.
Arguments t_local {Sh L Out} t.
Arguments t_todo {Sh L Out} t.
Arguments t_done {Sh L Out} t.
Arguments Build_thread {Sh L Out} _ _ _.

(* ------------------------------------------------------------------------------------------------ *)
(** * 3. Exn: exceptions, scopes and destructors                                                      *)

Section Exn.
  Variables (St E : Type).

  (* Err carries the state at the throw point: the objects stay what the failing step left behind *)
  Inductive outcome := Ok (s : St) | Err (e : E) (s : St) | Terminate.

  (* programs: actions of the library, sequencing, and a scope = an object with a destructor around a body.
     Nested scopes are closed innermost first, i.e. in reverse order of construction.
     nf = the destructor is declared noexcept(false) (no library destructor is; kept for generality). *)
  Inductive prog :=
  | Skip
  | Act (f : St -> outcome)
  | Seq (a b : prog)
  | Dyn (f : St -> prog)                            (* control flow that depends on run-time values *)
  | Scope (nf : bool) (body : prog) (dtor : St -> outcome).

  (* scope exit.  [except.ctor]: on exceptional exit the destructor runs during stack unwinding; an exception
     leaving it then calls std::terminate.  [except.spec]: a destructor is noexcept(true) unless declared
     otherwise, so an exception leaving it on normal exit calls std::terminate too. *)
  Definition close (nf : bool) (dtor : St -> outcome) (r : outcome) : outcome :=
    match r with
    | Ok s1 => match dtor s1 with
               | Ok s2 => Ok s2
               | Err e s2 => if nf then Err e s2 else Terminate
               | Terminate => Terminate
               end
    | Err e s1 => match dtor s1 with
                  | Ok s2 => Err e s2
                  | Err _ _ => Terminate
                  | Terminate => Terminate
                  end
    | Terminate => Terminate
    end.

  Fixpoint exec (p : prog) (s : St) : outcome :=
    match p with
    | Skip => Ok s
    | Act f => f s
    | Seq a b => match exec a s with Ok s1 => exec b s1 | o => o end
    | Dyn f => exec (f s) s
    | Scope nf body d => close nf d (exec body s)
    end.

  (* what the programmer means, stated without the termination rule: normal completion ... *)
  Inductive completes : prog -> St -> St -> Prop :=
  | c_skip : forall s, completes Skip s s
  | c_act : forall f s s', f s = Ok s' -> completes (Act f) s s'
  | c_seq : forall a b s s1 s2, completes a s s1 -> completes b s1 s2 -> completes (Seq a b) s s2
  | c_dyn : forall f s s', completes (f s) s s' -> completes (Dyn f) s s'
  | c_scope : forall nf body d s s1 s2, completes body s s1 -> d s1 = Ok s2 -> completes (Scope nf body d) s s2.

  (* ... and "some action of the program throws e" (the first one that fails, inside any nesting of scopes) *)
  Inductive throws : prog -> St -> E -> Prop :=
  | t_act : forall f s e s', f s = Err e s' -> throws (Act f) s e
  | t_seq1 : forall a b s e, throws a s e -> throws (Seq a b) s e
  | t_seq2 : forall a b s s1 e, completes a s s1 -> throws b s1 e -> throws (Seq a b) s e
  | t_dyn : forall f s e, throws (f s) s e -> throws (Dyn f) s e
  | t_scope : forall nf body d s e, throws body s e -> throws (Scope nf body d) s e.

  (* no destructor of the program can let an exception out *)
  Definition total (d : St -> outcome) : Prop := forall s, exists s', d s = Ok s'.
  Fixpoint dtors_total (p : prog) : Prop :=
    match p with
    | Skip | Act _ => True
    | Seq a b => dtors_total a /\ dtors_total b
    | Dyn f => forall s, dtors_total (f s)
    | Scope _ body d => dtors_total body /\ total d
    end.

  (* the primitive actions themselves never call terminate *)
  Fixpoint acts_no_terminate (p : prog) : Prop :=
    match p with
    | Skip => True
    | Act f => forall s, f s <> Terminate
    | Seq a b => acts_no_terminate a /\ acts_no_terminate b
    | Dyn f => forall s, acts_no_terminate (f s)
    | Scope _ body _ => acts_no_terminate body
    end.
End Exn.

Arguments Ok {St E} s.
Arguments Err {St E} e s.
Arguments Terminate {St E}.
Arguments Skip {St E}.
Arguments Act {St E} f.
Arguments Seq {St E} a b.
Arguments Dyn {St E} f.
Arguments Scope {St E} nf body dtor.
Arguments close {St E} nf dtor r.
Arguments exec {St E} p s.
Arguments completes {St E} p s s'.
Arguments throws {St E} p s e.
Arguments total {St E} d.
Arguments dtors_total {St E} p.
Arguments acts_no_terminate {St E} p.
