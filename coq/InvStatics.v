(* InvStatics.v — C19 part (b): the regenerated inventory of objects with static storage duration satisfies
   `benign`.  The list `statics` is rewritten from the sources by tools/inventory.py on every check run, so
   these kernel computations are re-done against what the code says now. *)
From Coq Require Import String List Bool.
From BS Require Import InvSpec InvGenerated.
Import ListNotations.

(* every translation unit was parsed: an inventory with holes does not count *)
Lemma inventory_complete : inventory_errors = [].
Proof. vm_compute. reflexivity. Qed.

Lemma statics_benign : forallb benign statics = true.
Proof. vm_compute. reflexivity. Qed.

(* the library calls no C function that keeps hidden static state *)
Lemma no_nonreentrant_calls : forallb (fun c => negb (str_in (uc_callee c) nonreentrant)) external_calls = true.
Proof. vm_compute. reflexivity. Qed.

(* not vacuous: the inventory sees the mutable statics that exist today, in each of the three classes *)
Lemma inventory_not_vacuous :
  existsb benign_const statics = true /\ existsb benign_registrar statics = true /\
  existsb benign_never_written statics = true.
Proof. vm_compute. repeat split. Qed.

(* what `benign` means, unfolded for a reader of the evidence *)
Lemma benign_cases : forall r, benign r = true ->
  (is_const r = true /\ st_mutable_members r <> "yes"%string /\ st_writes r = [])
  \/ (st_const r = "no"%string /\ st_writes r <> [] /\
      forall w, In w (st_writes r) -> In (ws_function w) registrars)
  \/ (st_const r = "no"%string /\ st_writes r = []).
Proof.
  intros r H. unfold benign in H. apply orb_true_iff in H. destruct H as [H|H]; [apply orb_true_iff in H; destruct H as [H|H]|].
  - left. unfold benign_const in H.
    apply andb_true_iff in H. destruct H as [H Hw].
    apply andb_true_iff in H. destruct H as [H Hi].
    apply andb_true_iff in H. destruct H as [Hc Hm].
    repeat split; try assumption.
    + intro E. rewrite E in Hm. discriminate.
    + destruct (st_writes r); [reflexivity|discriminate].
  - right. left. unfold benign_registrar in H.
    apply andb_true_iff in H. destruct H as [H Hf].
    apply andb_true_iff in H. destruct H as [Hc Hn].
    apply String.eqb_eq in Hc. repeat split; try assumption.
    + destruct (st_writes r); [discriminate|congruence].
    + intros w Hin. rewrite forallb_forall in Hf. specialize (Hf w Hin). unfold str_in in Hf.
      apply existsb_exists in Hf. destruct Hf as [x [Hx Heq]]. apply String.eqb_eq in Heq. now subst.
  - right. right. unfold benign_never_written in H. apply andb_true_iff in H. destruct H as [H H0].
    apply String.eqb_eq in H. split; [assumption|]. destruct (st_writes r); [reflexivity|discriminate].
Qed.
