(* InvThreads.v — proofs about the interleaving semantics of InvSpec.v (C19 part (a)). *)
From Coq Require Import List Arith Lia Bool.
From BS Require Import InvSpec.
Import ListNotations.

Section ThreadsProofs.
  Variables (Sh L Out : Type).
  Notation gop := (gop Sh L Out).
  Notation thread := (thread Sh L Out).
  Notation config := (config Sh L Out).

  Lemma upd_same : forall (c : config) t x, upd c t x t = x.
  Proof. intros. unfold upd. now rewrite Nat.eqb_refl. Qed.

  Lemma upd_other : forall (c : config) t x u, u <> t -> upd c t x u = c u.
  Proof. intros. unfold upd. destruct (Nat.eqb u t) eqn:H0; [apply Nat.eqb_eq in H0; contradiction|reflexivity]. Qed.

  Lemma reader_step : forall (o : gop) s l, reader o -> o s l = (s, snd (fst (o s l)), snd (o s l)).
  Proof.
    intros o s l H. specialize (H s l). destruct (o s l) as [[s' l'] out]. simpl in *. now subst.
  Qed.

  (* one step of run_ops peeled off *)
  Lemma run_sequential_cons : forall (s : Sh) (l : L) (o : gop) (rest : list gop) (done : list Out),
    run_sequential s (Build_thread l (o :: rest) done) =
    run_sequential s (Build_thread (snd (fst (o s l))) rest (done ++ [snd (o s l)])).
  Proof.
    intros. unfold run_sequential. cbn [t_local t_todo t_done run_ops].
    destruct (o s l) as [[s' l'] out]. reflexivity.
  Qed.

  (* every interleaving of read-only operations gives every thread the results of running alone *)
  Theorem interleaving_eq_sequential : forall (sched : list nat) (s : Sh) (c : config),
    all_readers c -> fair_merge c sched ->
    exists c', run_interleaved s c sched = Some (s, c') /\ forall t, c' t = run_sequential s (c t).
  Proof.
    induction sched as [|t rest IH]; intros s c Hr Hm.
    - exists c. split; [reflexivity|]. intro t.
      specialize (Hm t). cbn in Hm.
      destruct (c t) as [l todo done] eqn:E. cbn in Hm.
      destruct todo; [|discriminate]. reflexivity.
    - pose proof (Hm t) as Ht. cbn in Ht. destruct (Nat.eq_dec t t) as [_|n]; [|contradiction].
      destruct (c t) as [l todo done] eqn:E. cbn [t_todo] in Ht.
      destruct todo as [|o os]; [discriminate|].
      assert (Ho : reader o) by (apply (Hr t); rewrite E; left; reflexivity).
      cbn [run_interleaved]. unfold step. rewrite E. cbn [t_todo t_local t_done].
      rewrite (reader_step o s l Ho).
      set (th' := Build_thread (snd (fst (o s l))) os (done ++ [snd (o s l)])).
      destruct (IH s (upd c t th')) as [c' [Hrun Hfin]].
      + intros u o' Hin. destruct (Nat.eq_dec u t) as [->|Hne].
        * rewrite upd_same in Hin. cbn in Hin. apply (Hr t). rewrite E. right. exact Hin.
        * rewrite upd_other in Hin by exact Hne. apply (Hr u). exact Hin.
      + intro u. specialize (Hm u). cbn in Hm. destruct (Nat.eq_dec u t) as [->|Hne].
        * rewrite upd_same. cbn. destruct (Nat.eq_dec t t) as [_|n]; [|contradiction].
          rewrite E in Hm. cbn in Hm. lia.
        * rewrite upd_other by exact Hne. destruct (Nat.eq_dec t u) as [e|_]; [symmetry in e; contradiction|]. exact Hm.
      + exists c'. split; [exact Hrun|]. intro u. rewrite Hfin. destruct (Nat.eq_dec u t) as [->|Hne].
        * rewrite upd_same, E. symmetry. apply run_sequential_cons.
        * rewrite upd_other by exact Hne. reflexivity.
  Qed.

  (* consequence: the outcome does not depend on the schedule *)
  Corollary schedule_independent : forall sched1 sched2 (s : Sh) (c : config),
    all_readers c -> fair_merge c sched1 -> fair_merge c sched2 ->
    exists c1 c2, run_interleaved s c sched1 = Some (s, c1) /\ run_interleaved s c sched2 = Some (s, c2) /\
                  forall t, c1 t = c2 t.
  Proof.
    intros sched1 sched2 s c Hr H1 H2.
    destruct (interleaving_eq_sequential sched1 s c Hr H1) as [c1 [R1 F1]].
    destruct (interleaving_eq_sequential sched2 s c Hr H2) as [c2 [R2 F2]].
    exists c1, c2. repeat split; try assumption. intro t. now rewrite F1, F2.
  Qed.

  (* operations that take the store as an argument and return only private state and output are readers by type *)
  Lemma lift_reader : forall o : rop Sh L Out, reader (lift o).
  Proof. intros o s l. reflexivity. Qed.

  (* two steps of different threads commute when both operations are readers *)
  Lemma steps_commute : forall (s : Sh) (c : config) t u, t <> u -> all_readers c ->
    forall s1 c1 s2 c2, step s c t = Some (s1, c1) -> step s1 c1 u = Some (s2, c2) ->
    exists c1' c2', step s c u = Some (s, c1') /\ step s c1' t = Some (s, c2') /\ s2 = s /\ forall v, c2' v = c2 v.
  Proof.
    intros s c t u Hne Hr s1 c1 s2 c2 H1 H2.
    unfold step in H1. destruct (c t) as [lt todot donet] eqn:Et. cbn in H1.
    destruct todot as [|ot rt]; [discriminate|].
    assert (Hot : reader ot) by (apply (Hr t); rewrite Et; left; reflexivity).
    rewrite (reader_step ot s lt Hot) in H1. inversion H1; subst s1 c1; clear H1.
    unfold step in H2. rewrite upd_other in H2 by (intro; subst; contradiction).
    destruct (c u) as [lu todou doneu] eqn:Eu. cbn in H2.
    destruct todou as [|ou ru]; [discriminate|].
    assert (Hou : reader ou) by (apply (Hr u); rewrite Eu; left; reflexivity).
    rewrite (reader_step ou s lu Hou) in H2. inversion H2; subst s2 c2; clear H2.
    eexists. eexists. split; [|split; [|split]].
    - unfold step. rewrite Eu. cbn. rewrite (reader_step ou s lu Hou). reflexivity.
    - unfold step. rewrite upd_other by exact Hne. rewrite Et. cbn. rewrite (reader_step ot s lt Hot). reflexivity.
    - reflexivity.
    - intro v. unfold upd.
      destruct (Nat.eqb v t) eqn:Evt; destruct (Nat.eqb v u) eqn:Evu; try reflexivity.
      apply Nat.eqb_eq in Evt. apply Nat.eqb_eq in Evu. subst. contradiction.
  Qed.
End ThreadsProofs.

(* the hypothesis is necessary: with an operation that writes the shared store two fair merges of the same
   programs give different results.  Store = a counter, op = "bump it and report what you saw". *)
Definition bump : gop nat unit nat := fun s l => (S s, l, s).
Definition two_bumpers : config nat unit nat :=
  fun t => if Nat.leb t 1 then Build_thread tt [bump] [] else Build_thread tt [] [].

Lemma writer_breaks_it :
  fair_merge two_bumpers [0; 1] /\ fair_merge two_bumpers [1; 0] /\
  exists s1 c1 s2 c2, run_interleaved 0 two_bumpers [0; 1] = Some (s1, c1) /\
                      run_interleaved 0 two_bumpers [1; 0] = Some (s2, c2) /\
                      t_done (c1 0) <> t_done (c2 0).
Proof.
  split; [|split].
  - intro t. destruct t as [|[|t]]; reflexivity.
  - intro t. destruct t as [|[|t]]; reflexivity.
  - do 4 eexists. split; [reflexivity|]. split; [reflexivity|]. cbn. discriminate.
Qed.
