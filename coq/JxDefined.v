(* JxDefined.v — when the model's save is defined: the round-trip theorems have the form roundtrip .. = Some r -> ..;
   here: for which types the Some exists (for every well-typed value), as boolean predicates on the type. *)
From BS Require Import Base UtfSpec JxJsonSpec JxXmlSpec JxModel JxProofs JxXmlRoundtrip.
Local Open Scope N_scope.

Lemma opt_map_defined {A B} (f : A -> option B) l : Forall (fun x => exists y, f x = Some y) l -> exists ys, opt_map f l = Some ys.
Proof.
  induction 1 as [|x l [y Hy] _ [ys Hys]]; [exists []; reflexivity|]. exists (y :: ys). cbn [opt_map]. fold (opt_map f). rewrite Hy, Hys. reflexivity.
Qed.

Lemma nth_error_defined {A} (l : list A) i : i < N.of_nat (length l) -> exists x, nth_error l (N.to_nat i) = Some x.
Proof.
  intros H. destruct (nth_error l (N.to_nat i)) as [x|] eqn:E; [exists x; reflexivity|].
  apply nth_error_None in E. lia.
Qed.

(* ================================================================== JSON *)

(* the JSON archive has no attributes: a class with an attribute member (at any depth) cannot be saved to JSON (in C++:
   a static_assert); everything else of the type universe can *)
Fixpoint json_ty (t : ty) : bool :=
  match t with
  | TyVec e | TyMap e | TyOpt e => json_ty e
  | TyObj fields => forallb (fun f => match snd (fst f) with FElem => json_ty (snd f) | FAttr => false end) fields
  | _ => true
  end.

Definition save_defined (t : ty) : Prop := forall v, has_type t v = true -> exists d, save_inner t v = Some d.

Lemma save_inner_defined t : json_ty t = true -> save_defined t.
Proof.
  induction t as [ | | k | | | e IH | e IH | fields IH | e IH | | names ] using ty_ind'; intros Hj v Ht;
    try (destruct v; try (cbn in Ht; discriminate); cbn [save_inner save_scalar_inner]; eexists; reflexivity).
  - (* vector *) destruct v as [ | | | | | l | | | | ]; try (cbn in Ht; discriminate). cbn [has_type] in Ht. cbn [json_ty] in Hj. cbn [save_inner].
    destruct (opt_map_defined (save_inner e) l) as [ys Hys]; [|rewrite Hys; eexists; reflexivity].
    apply Forall_forall. intros x Hx. apply (IH Hj). exact (proj1 (forallb_forall _ _) Ht x Hx).
  - (* map *) destruct v as [ | | | | | | m | | | ]; try (cbn in Ht; discriminate). cbn [has_type] in Ht. cbn [json_ty] in Hj. cbn [save_inner].
    apply andb_true_iff in Ht. destruct Ht as [Ht _].
    destruct (opt_map_defined (fun kv => option_map (fun d => (fst kv, d)) (save_inner e (snd kv))) m) as [ys Hys]; [|rewrite Hys; eexists; reflexivity].
    apply Forall_forall. intros kv Hx. pose proof (proj1 (forallb_forall _ _) Ht kv Hx) as H. apply andb_true_iff in H. destruct H as [_ H].
    destruct (IH Hj (snd kv) H) as [d Hd]. rewrite Hd. eexists; reflexivity.
  - (* class *) destruct v as [ | | | | | | m | | | ]; try (cbn in Ht; discriminate). rewrite has_type_obj in Ht. rewrite save_inner_obj. cbn [json_ty] in Hj.
    assert (G : exists ds, obj_save fields m = Some ds); [|destruct G as [ds ->]; eexists; reflexivity].
    revert m Ht. induction IH as [|[[k fk] ft] fs Hft _ IHfs]; intros m Ht.
    + destruct m; [exists []; reflexivity | discriminate].
    + destruct m as [|[k' fv] m]; [discriminate|]. cbn [obj_ty] in Ht. apply andb_true_iff in Ht. destruct Ht as [Ht Hrest]. apply andb_true_iff in Ht. destruct Ht as [_ Hfv].
      cbn [forallb fst snd] in Hj. apply andb_true_iff in Hj. destruct Hj as [Hj1 Hj2]. destruct fk; [|discriminate]. cbn [snd] in Hft.
      destruct (Hft Hj1 fv Hfv) as [d Hd]. destruct (IHfs Hj2 m Hrest) as [ds Hds]. cbn [obj_save]. rewrite Hd, Hds. eexists; reflexivity.
  - (* optional *) destruct v as [ | | | | | | | [x|] | | ]; try (cbn in Ht; discriminate); cbn [save_inner]; [|eexists; reflexivity].
    cbn [has_type] in Ht. cbn [json_ty] in Hj. apply (IH Hj x Ht).
  - (* enum *) destruct v as [ | | | | | | | | | i ]; try (cbn in Ht; discriminate). cbn [has_type] in Ht. cbn [save_inner save_scalar_inner].
    destruct (nth_error_defined names i) as [x Hx]; [lia|]. rewrite Hx. eexists; reflexivity.
Qed.

(* the JSON round trip is defined for every json_ty type and well-typed value *)
Theorem roundtrip_json_defined i2d o t v : json_ty t = true -> has_type t v = true -> exists r, roundtrip_json i2d o t v = Some r.
Proof.
  intros Hj Ht. unfold roundtrip_json. rewrite (save_json_inner t v Ht). destruct (save_inner_defined t Hj v Ht) as [d ->]. eexists; reflexivity.
Qed.

(* so T_C01_json_roundtrip_adapter is not vacuous: *)
Theorem json_roundtrip_total i2d o t v : ty_wf t = true -> json_ty t = true -> has_type t v = true ->
  exists r, roundtrip_json i2d o t v = Some r /\ rt_good v r /\ (val_nonfinite v = false -> r = LoadedBack (Ok v)).
Proof.
  intros Hwf Hj Ht. destruct (roundtrip_json_defined i2d o t v Hj Ht) as [r Hr]. exists r. split; [exact Hr|].
  apply (json_roundtrip i2d o t v Hwf Ht r Hr).
Qed.

(* and the exclusion is exact for attributes: a class with an attribute member has no JSON form *)
Example json_attr_unsupported : save_json ty_attr (VObj [([97], VInt 1); ([115], VStr []); ([98], VBool false); ([117], VInt 0); ([118], VInt 0); ([116], VStr [])]) = None /\
  has_type ty_attr (VObj [([97], VInt 1); ([115], VStr []); ([98], VBool false); ([117], VInt 0); ([118], VInt 0); ([116], VStr [])]) = true.
Proof. split; reflexivity. Qed.
