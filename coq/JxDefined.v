(* JxDefined.v — when the model's save is defined: the round-trip theorems have the form roundtrip .. = Some r -> ..;
   here: for which types the Some exists (for every well-typed value), as boolean predicates on the type. *)
From BS Require Import Base UtfSpec JxJsonSpec JxXmlSpec JxModel JxProofs JxXmlRoundtrip.
Local Open Scope N_scope.

Lemma opt_map_defined {A B} (f : A -> option B) l : Forall (fun x => exists y, f x = Some y) l -> exists ys, opt_map f l = Some ys.
Proof.
  induction 1 as [|x l [y Hy] _ [ys Hys]]; [exists []; reflexivity|]. exists (y :: ys). cbn [opt_map]. fold (opt_map f). rewrite Hy, Hys. reflexivity.
Qed.

Lemma nth_error_defined {A} (l : list A) i : i < N.of_nat (length l) -> exists x, nth_error l (N.to_nat i) = Some x.
Proof.
  intros H. destruct (nth_error l (N.to_nat i)) as [x|] eqn:E; [exists x; reflexivity|].
  apply nth_error_None in E. lia.
Qed.

(* ================================================================== JSON *)

(* the JSON archive has no attributes: a class with an attribute member (at any depth) cannot be saved to JSON (in C++:
   a static_assert); everything else of the type universe can *)
Fixpoint json_ty (t : ty) : bool :=
  match t with
  | TyVec e | TyMap e | TyOpt e => json_ty e
  | TyObj fields => forallb (fun f => match snd (fst f) with FElem => json_ty (snd f) | FAttr => false end) fields
  | _ => true
  end.

Definition save_defined (t : ty) : Prop := forall v, has_type t v = true -> exists d, save_inner t v = Some d.

Lemma save_inner_defined t : json_ty t = true -> save_defined t.
Proof.
  induction t as [ | | k | | | e IH | e IH | fields IH | e IH | | names ] using ty_ind'; intros Hj v Ht;
    try (destruct v; try (cbn in Ht; discriminate); cbn [save_inner save_scalar_inner]; eexists; reflexivity).
  - (* vector *) destruct v as [ | | | | | l | | | | ]; try (cbn in Ht; discriminate). cbn [has_type] in Ht. cbn [json_ty] in Hj. cbn [save_inner].
    destruct (opt_map_defined (save_inner e) l) as [ys Hys]; [|rewrite Hys; eexists; reflexivity].
    apply Forall_forall. intros x Hx. apply (IH Hj). exact (proj1 (forallb_forall _ _) Ht x Hx).
  - (* map *) destruct v as [ | | | | | | m | | | ]; try (cbn in Ht; discriminate). cbn [has_type] in Ht. cbn [json_ty] in Hj. cbn [save_inner].
    apply andb_true_iff in Ht. destruct Ht as [Ht _].
    destruct (opt_map_defined (fun kv => option_map (fun d => (fst kv, d)) (save_inner e (snd kv))) m) as [ys Hys]; [|rewrite Hys; eexists; reflexivity].
    apply Forall_forall. intros kv Hx. pose proof (proj1 (forallb_forall _ _) Ht kv Hx) as H. apply andb_true_iff in H. destruct H as [_ H].
    destruct (IH Hj (snd kv) H) as [d Hd]. rewrite Hd. eexists; reflexivity.
  - (* class *) destruct v as [ | | | | | | m | | | ]; try (cbn in Ht; discriminate). rewrite has_type_obj in Ht. rewrite save_inner_obj. cbn [json_ty] in Hj.
    assert (G : exists ds, obj_save fields m = Some ds); [|destruct G as [ds ->]; eexists; reflexivity].
    revert m Ht. induction IH as [|[[k fk] ft] fs Hft _ IHfs]; intros m Ht.
    + destruct m; [exists []; reflexivity | discriminate].
    + destruct m as [|[k' fv] m]; [discriminate|]. cbn [obj_ty] in Ht. apply andb_true_iff in Ht. destruct Ht as [Ht Hrest]. apply andb_true_iff in Ht. destruct Ht as [_ Hfv].
      cbn [forallb fst snd] in Hj. apply andb_true_iff in Hj. destruct Hj as [Hj1 Hj2]. destruct fk; [|discriminate]. cbn [snd] in Hft.
      destruct (Hft Hj1 fv Hfv) as [d Hd]. destruct (IHfs Hj2 m Hrest) as [ds Hds]. cbn [obj_save]. rewrite Hd, Hds. eexists; reflexivity.
  - (* optional *) destruct v as [ | | | | | | | [x|] | | ]; try (cbn in Ht; discriminate); cbn [save_inner]; [|eexists; reflexivity].
    cbn [has_type] in Ht. cbn [json_ty] in Hj. apply (IH Hj x Ht).
  - (* enum *) destruct v as [ | | | | | | | | | i ]; try (cbn in Ht; discriminate). cbn [has_type] in Ht. cbn [save_inner save_scalar_inner].
    destruct (nth_error_defined names i) as [x Hx]; [lia|]. rewrite Hx. eexists; reflexivity.
Qed.

(* the JSON round trip is defined for every json_ty type and well-typed value *)
Theorem roundtrip_json_defined i2d o t v : json_ty t = true -> has_type t v = true -> exists r, roundtrip_json i2d o t v = Some r.
Proof.
  intros Hj Ht. unfold roundtrip_json. rewrite (save_json_inner t v Ht). destruct (save_inner_defined t Hj v Ht) as [d ->]. eexists; reflexivity.
Qed.

(* so T_C01_json_roundtrip_adapter is not vacuous: *)
Theorem json_roundtrip_total i2d o t v : ty_wf t = true -> json_ty t = true -> has_type t v = true ->
  exists r, roundtrip_json i2d o t v = Some r /\ rt_good v r /\ (val_nonfinite v = false -> r = LoadedBack (Ok v)).
Proof.
  intros Hwf Hj Ht. destruct (roundtrip_json_defined i2d o t v Hj Ht) as [r Hr]. exists r. split; [exact Hr|].
  apply (json_roundtrip i2d o t v Hwf Ht r Hr).
Qed.

(* and the exclusion is exact for attributes: a class with an attribute member has no JSON form *)
Example json_attr_unsupported : save_json ty_attr (VObj [([97], VInt 1); ([115], VStr []); ([98], VBool false); ([117], VInt 0); ([118], VInt 0); ([116], VStr [])]) = None /\
  has_type ty_attr (VObj [([97], VInt 1); ([115], VStr []); ([98], VBool false); ([117], VInt 0); ([118], VInt 0); ([116], VStr [])]) = true.
Proof. split; reflexivity. Qed.

(* ================================================================== XML *)

(* an attribute holds a scalar (its text); below the root anything; at the root only a sequence, a map or a class (the
   XML root scope serialises arrays and objects only: a scalar or an optional at the root is rejected at compile time) *)
Definition attr_ty (t : ty) : bool :=
  match t with TyNull | TyBool | TyInt _ | TyDbl | TyStr | TyFlt | TyEnum _ => true | _ => false end.

Fixpoint xml_ty (t : ty) : bool :=
  match t with
  | TyVec e | TyMap e | TyOpt e => xml_ty e
  | TyObj fields => forallb (fun f => match snd (fst f) with FElem => xml_ty (snd f) | FAttr => attr_ty (snd f) end) fields
  | _ => true
  end.

Definition xml_root_ty (t : ty) : bool := is_container t && xml_ty t.

Section XmlDefined.
  Variables dtoa17 dtoa9 : N -> list N.

  Lemma scalar_text_defined t v : attr_ty t = true -> has_type t v = true -> exists s, scalar_text dtoa17 dtoa9 t v = Some s.
  Proof.
    intros Ha Ht. destruct t; try discriminate; destruct v; try (cbn in Ht; discriminate); cbn [scalar_text]; try (eexists; reflexivity).
    cbn [has_type] in Ht. apply nth_error_defined. lia.
  Qed.

  Definition elem_defined (t : ty) : Prop := forall name v, has_type t v = true -> exists x, xml_elem dtoa17 dtoa9 name t v = Some x.

  Lemma scalar_elem_defined t : attr_ty t = true -> elem_defined t.
  Proof.
    intros Ha name v Ht. destruct (scalar_text_defined t v Ha Ht) as [s Hs].
    destruct t; try discriminate; cbn [xml_elem]; rewrite Hs; eexists; reflexivity.
  Qed.

  Lemma xml_elem_defined t : xml_ty t = true -> elem_defined t.
  Proof.
    induction t as [ | | k | | | e IH | e IH | fields IH | e IH | | names ] using ty_ind'; intros Hx;
      try (apply scalar_elem_defined; reflexivity); intros name v Ht.
    - (* vector *) destruct v as [ | | | | | l | | | | ]; try (cbn in Ht; discriminate). cbn [has_type] in Ht. cbn [xml_ty] in Hx. cbn [xml_elem].
      destruct (opt_map_defined (fun x => xml_elem dtoa17 dtoa9 (item_name e x) e x) l) as [ys Hys]; [|rewrite Hys; eexists; reflexivity].
      apply Forall_forall. intros x Hin. apply (IH Hx). exact (proj1 (forallb_forall _ _) Ht x Hin).
    - (* map *) destruct v as [ | | | | | | m | | | ]; try (cbn in Ht; discriminate). cbn [has_type] in Ht. cbn [xml_ty] in Hx.
      apply andb_true_iff in Ht. destruct Ht as [Ht _]. rewrite xml_elem_map.
      assert (G : exists cs, xmap_save dtoa17 dtoa9 e m = Some cs); [|destruct G as [cs ->]; eexists; reflexivity].
      induction m as [|[k x] m IHm]; [exists []; reflexivity|].
      cbn [forallb fst snd] in Ht. apply andb_true_iff in Ht. destruct Ht as [H1 H2]. apply andb_true_iff in H1. destruct H1 as [_ H1].
      destruct (IH Hx k x H1) as [c Hc]. destruct (IHm H2) as [cs Hcs]. cbn [xmap_save]. rewrite Hc. fold (xmap_save dtoa17 dtoa9 e). rewrite Hcs. eexists; reflexivity.
    - (* class *) destruct v as [ | | | | | | m | | | ]; try (cbn in Ht; discriminate). rewrite has_type_obj in Ht. rewrite xml_elem_obj. cbn [xml_ty] in Hx.
      generalize (@nil (list N * list N)) as attrs. generalize (@nil xnode) as ch. revert m Ht.
      induction IH as [|[[k fk] ft] fs Hft _ IHfs]; intros m Ht ch attrs.
      + destruct m; [eexists; reflexivity | discriminate].
      + destruct m as [|[k' fv] m]; [discriminate|]. cbn [obj_ty] in Ht. apply andb_true_iff in Ht. destruct Ht as [Ht Hrest]. apply andb_true_iff in Ht. destruct Ht as [_ Hfv].
        cbn [forallb fst snd] in Hx. apply andb_true_iff in Hx. destruct Hx as [Hx1 Hx2]. cbn [snd] in Hft. cbn [xobj_save].
        destruct fk.
        * destruct (Hft Hx1 k fv Hfv) as [c Hc]. rewrite Hc. apply (IHfs Hx2 m Hrest).
        * destruct (scalar_text_defined ft fv Hx1 Hfv) as [s Hs]. rewrite Hs. apply (IHfs Hx2 m Hrest).
    - (* optional *) destruct v as [ | | | | | | | [x|] | | ]; try (cbn in Ht; discriminate); cbn [xml_elem]; [|eexists; reflexivity].
      cbn [has_type] in Ht. cbn [xml_ty] in Hx. apply (IH Hx name x Ht).
  Qed.

  Theorem save_xml_defined key t v : xml_root_ty t = true -> has_type t v = true -> exists d, save_xml dtoa17 dtoa9 key t v = Some d.
  Proof.
    intros Hr Ht. unfold xml_root_ty in Hr. apply andb_true_iff in Hr. destruct Hr as [Hc Hx].
    destruct t; try discriminate; unfold save_xml; apply (xml_elem_defined _ Hx); exact Ht.
  Qed.

  (* and nothing else at the root (UNSUPPORTED in the drivers) *)
  Lemma save_xml_scalar_root key t v : is_container t = false -> save_xml dtoa17 dtoa9 key t v = None.
  Proof. intros H. destruct t; try discriminate; reflexivity. Qed.

  Theorem roundtrip_xml_defined xstrtod xstrtof o key t v : xml_root_ty t = true -> has_type t v = true ->
    exists r, roundtrip_xml dtoa17 dtoa9 xstrtod xstrtof o key t v = Some r.
  Proof. intros Hr Ht. unfold roundtrip_xml. destruct (save_xml_defined key t v Hr Ht) as [d ->]. eexists; reflexivity. Qed.
End XmlDefined.

(* ty_wfx (attributes hold null / bool / integer / double / string) is inside xml_ty *)
Lemma ty_wfx_xml_ty t : ty_wfx t = true -> xml_ty t = true.
Proof.
  induction t as [ | | k | | | e IH | e IH | fields IH | e IH | | names ] using ty_ind'; intros H; try reflexivity; try (apply IH; exact H).
  cbn [ty_wfx] in H. cbn [xml_ty]. induction IH as [|[[k fk] ft] fs Hft _ IHfs]; [reflexivity|].
  cbn [forallb fst snd] in *. apply andb_true_iff in H. destruct H as [H1 H2]. rewrite (IHfs H2), andb_true_r.
  destruct fk; [apply Hft; exact H1 | destruct ft; try discriminate; reflexivity].
Qed.

(* so T_C01_xml_roundtrip_adapter_outside is not vacuous: for a sequence, map or class at the root *)
Theorem xml_roundtrip_total dtoa17 dtoa9 xstrtod xstrtof o :
  (forall b, is_nonfinite b = false ->
     xstrtod (dtoa17 b) = Some (Some b) /\ skip_blanks (dtoa17 b) = dtoa17 b /\ has_cr (dtoa17 b) = false /\ dtoa17 b <> []) ->
  forall key t v, is_container t = true -> ty_wf t = true -> ty_wfx t = true -> has_type t v = true ->
  xml_defect t v = false -> val_nonfinite v = false ->
  roundtrip_xml dtoa17 dtoa9 xstrtod xstrtof o key t v = Some (Ok v).
Proof.
  intros Hd key t v Hc Hwf Hwx Ht Hdf Hnf.
  assert (Hr : xml_root_ty t = true) by (unfold xml_root_ty; rewrite Hc, (ty_wfx_xml_ty t Hwx); reflexivity).
  destruct (roundtrip_xml_defined dtoa17 dtoa9 xstrtod xstrtof o key t v Hr Ht) as [r Hrr].
  rewrite Hrr. f_equal. apply (xml_roundtrip_outside dtoa17 dtoa9 xstrtod xstrtof o Hd key t v Hwf Hwx Ht Hdf Hnf r Hrr).
Qed.
