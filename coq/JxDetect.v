(* JxDetect.v — the load side of "each supported UTF encoding, with or without BOM" for JSON streams: RapidJSON's
   AutoUTFInputStream::DetectType (encodedstream.h of RapidJSON 1.1.0, read from the installed header; third party,
   compared with the implementation on every stream load of the run) as a function of the first bytes, and reading a
   stream = detection, then decoding in the detected encoding scheme. *)
From BS Require Import Base UtfSpec UtfModel JxJsonSpec JxModel.
Local Open Scope N_scope.

(* DetectType(): Peek4() yields nothing when the stream has fewer than four bytes: the type stays the default (kUTF8)
   and nothing is consumed.  Otherwise the byte order marks, in this order
     00 00 FE FF UTF-32BE | FF FE 00 00 UTF-32LE | FE FF UTF-16BE | FF FE UTF-16LE | EF BB BF UTF-8   (consumed)
   and without one the pattern of zero bytes in the first four (RFC 4627 section 3)
     00 00 00 xx UTF-32BE | 00 xx 00 xx UTF-16BE | xx 00 00 00 UTF-32LE | xx 00 xx 00 UTF-16LE | xx xx xx xx UTF-8
   any other pattern: the default.  Result: the type and the number of bytes consumed. *)
Definition rj_detect (b : list N) : rj_utf * nat :=
  match b with
  | c0 :: c1 :: c2 :: c3 :: _ =>
    if (c0 =? 0) && (c1 =? 0) && (c2 =? 0xFE) && (c3 =? 0xFF) then (kUTF32BE, 4%nat)
    else if (c0 =? 0xFF) && (c1 =? 0xFE) && (c2 =? 0) && (c3 =? 0) then (kUTF32LE, 4%nat)
    else if (c0 =? 0xFE) && (c1 =? 0xFF) then (kUTF16BE, 2%nat)
    else if (c0 =? 0xFF) && (c1 =? 0xFE) then (kUTF16LE, 2%nat)
    else if (c0 =? 0xEF) && (c1 =? 0xBB) && (c2 =? 0xBF) then (kUTF8, 3%nat)
    else
      let z0 := c0 =? 0 in let z1 := c1 =? 0 in let z2 := c2 =? 0 in let z3 := c3 =? 0 in
      if z0 && z1 && z2 && negb z3 then (kUTF32BE, 0%nat)
      else if z0 && negb z1 && z2 && negb z3 then (kUTF16BE, 0%nat)
      else if negb z0 && z1 && z2 && z3 then (kUTF32LE, 0%nat)
      else if negb z0 && z1 && negb z2 && z3 then (kUTF16LE, 0%nat)
      else (kUTF8, 0%nat)
  | _ => (kUTF8, 0%nat)
  end.

(* bytes to code units of an encoding scheme; None: the stream ends inside a unit *)
Fixpoint bytes_units16 (e : endian) (b : list N) : option (list N) :=
  match b with
  | [] => Some []
  | x :: y :: r => option_map (cons (match e with LE => x + 256 * y | BE => 256 * x + y end)) (bytes_units16 e r)
  | _ => None
  end.
Fixpoint bytes_units32 (e : endian) (b : list N) : option (list N) :=
  match b with
  | [] => Some []
  | x :: y :: z :: t :: r =>
    option_map (cons (match e with LE => x + 256 * y + 65536 * z + 16777216 * t | BE => 16777216 * x + 65536 * y + 256 * z + t end))
               (bytes_units32 e r)
  | _ => None
  end.
Definition bytes_units (e : endian) (w : width) (b : list N) : option (list N) :=
  match w with W8 => Some b | W16 => bytes_units16 e b | W32 => bytes_units32 e b end.

(* the text of a byte stream in a given UTF type: strict decoding (the transcoder of the UTF family; a same-width pass
   copies, hence the explicit test for scalar values) *)
Definition rj_decode (t : rj_utf) (b : list N) : option (list N) :=
  let (w, e) := rj_scheme t in
  match bytes_units e w b with
  | Some u => let r := transcode w W32 ThrowError [] u [] in match r_code r with Success => if forallb scalarb (r_out r) then Some (r_out r) else None | _ => None end
  | None => None
  end.

(* what the reader of a JSON stream sees: detect, skip what detection consumed, decode *)
Definition rj_read (b : list N) : option (list N) :=
  let (t, k) := rj_detect b in rj_decode t (skipn k b).

(* the bytes of a text in a UTF type, without and with its byte order mark *)
Definition rj_body (t : rj_utf) (cps : list N) : list N :=
  units_bytes (snd (rj_scheme t)) (fst (rj_scheme t)) (encs (fst (rj_scheme t)) cps).
