(* JxDetectProofs.v — detection of the encoding of a JSON stream: with a byte order mark always; without one exactly
   for the texts whose first characters are below U+0100 (two of them for UTF-16, one for UTF-32) - in particular every
   text starting with two ASCII characters; composition with the save side into a stream round trip. *)
From BS Require Import Base UtfSpec UtfModel UtfProofs JxJsonSpec JxJsonProofs JxModel JxProofs JxDetect.
From Coq Require Import ZifyBool ZifyN ZifyNat.
Local Open Scope N_scope.
Ltac Zify.zify_post_hook ::= Z.div_mod_to_equations.

(* ================================================================== decoding what was encoded *)

Lemma bytes_units16_inv e u : Forall (fun x => x < 65536) u -> bytes_units16 e (units_bytes e W16 u) = Some u.
Proof.
  induction 1 as [|x u Hx _ IH]; [reflexivity|].
  unfold units_bytes in *. cbn [flat_map]. destruct e; cbn [unit_bytes app bytes_units16]; rewrite IH; cbn [option_map]; f_equal; f_equal; lia.
Qed.

Lemma bytes_units32_inv e u : Forall (fun x => x < 4294967296) u -> bytes_units32 e (units_bytes e W32 u) = Some u.
Proof.
  induction 1 as [|x u Hx _ IH]; [reflexivity|].
  unfold units_bytes in *. cbn [flat_map]. destruct e; cbn [unit_bytes app bytes_units32]; rewrite IH; cbn [option_map]; f_equal; f_equal; lia.
Qed.

Lemma enc16_bound c : scalar c -> Forall (fun x => x < 65536) (enc16 c).
Proof. unfold scalar, scalarb, enc16. intros H. destruct (c <? 65536) eqn:E; repeat constructor; lia. Qed.

Lemma encs16_bound cps : Forall scalar cps -> Forall (fun x => x < 65536) (encs W16 cps).
Proof. induction 1 as [|c cps Hc _ IH]; [constructor|]. unfold encs. cbn [flat_map enc]. apply Forall_app. split; [apply enc16_bound; exact Hc | exact IH]. Qed.

Lemma encs32_bound cps : Forall scalar cps -> Forall (fun x => x < 4294967296) (encs W32 cps).
Proof. rewrite encs32_id. intros H. eapply Forall_impl; [|exact H]. unfold scalar, scalarb. intros c Hc. lia. Qed.

Lemma bytes_units_inv t cps : Forall scalar cps ->
  bytes_units (snd (rj_scheme t)) (fst (rj_scheme t)) (rj_body t cps) = Some (encs (fst (rj_scheme t)) cps).
Proof.
  intros H. unfold rj_body. destruct t; cbn [rj_scheme fst snd bytes_units].
  - rewrite units_bytes_w8. reflexivity.
  - apply bytes_units16_inv, encs16_bound, H.
  - apply bytes_units16_inv, encs16_bound, H.
  - apply bytes_units32_inv, encs32_bound, H.
  - apply bytes_units32_inv, encs32_bound, H.
Qed.

Lemma rj_decode_body t cps : Forall scalar cps -> rj_decode t (rj_body t cps) = Some cps.
Proof.
  intros H. unfold rj_decode. pose proof (bytes_units_inv t cps H) as E.
  destruct (rj_scheme t) as [w e] eqn:Es. cbn [fst snd] in E. rewrite E.
  rewrite (transcode_exact' w W32 ThrowError [] cps [] H). cbn [r_code r_out app]. rewrite encs32_id.
  assert (Hb : forallb scalarb cps = true) by (apply forallb_forall; intros x Hx; exact (proj1 (Forall_forall _ _) H x Hx)).
  rewrite Hb. reflexivity.
Qed.

(* ================================================================== detection on four explicit bytes *)

Ltac bom_tests c0 c1 c2 c3 :=
  let B1 := fresh "B" in let B2 := fresh "B" in let B3 := fresh "B" in let B4 := fresh "B" in let B5 := fresh "B" in
  assert (B1 : ((c0 =? 0) && (c1 =? 0) && (c2 =? 254) && (c3 =? 255)) = false) by lia;
  assert (B2 : ((c0 =? 255) && (c1 =? 254) && (c2 =? 0) && (c3 =? 0)) = false) by lia;
  assert (B3 : ((c0 =? 254) && (c1 =? 255)) = false) by lia;
  assert (B4 : ((c0 =? 255) && (c1 =? 254)) = false) by lia;
  assert (B5 : ((c0 =? 239) && (c1 =? 187) && (c2 =? 191)) = false) by lia;
  unfold rj_detect; rewrite B1, B2, B3, B4, B5; cbv zeta.

Lemma detect4_inv c0 c1 c2 c3 r t : rj_detect (c0 :: c1 :: c2 :: c3 :: r) = (t, 0%nat) ->
  match t with
  | kUTF32BE => c0 = 0 /\ c1 = 0 /\ c2 = 0 /\ c3 <> 0
  | kUTF16BE => c0 = 0 /\ c1 <> 0 /\ c2 = 0 /\ c3 <> 0
  | kUTF32LE => c0 <> 0 /\ c1 = 0 /\ c2 = 0 /\ c3 = 0
  | kUTF16LE => c0 <> 0 /\ c1 = 0 /\ c2 <> 0 /\ c3 = 0
  | kUTF8 => True
  end.
Proof.
  unfold rj_detect.
  destruct ((c0 =? 0) && (c1 =? 0) && (c2 =? 254) && (c3 =? 255)); [discriminate|].
  destruct ((c0 =? 255) && (c1 =? 254) && (c2 =? 0) && (c3 =? 0)); [discriminate|].
  destruct ((c0 =? 254) && (c1 =? 255)); [discriminate|].
  destruct ((c0 =? 255) && (c1 =? 254)); [discriminate|].
  destruct ((c0 =? 239) && (c1 =? 187) && (c2 =? 191)); [discriminate|].
  cbv zeta. destruct (c0 =? 0) eqn:Z0, (c1 =? 0) eqn:Z1, (c2 =? 0) eqn:Z2, (c3 =? 0) eqn:Z3; cbn [andb negb];
    intros H; destruct t; try discriminate H; try exact I; repeat split; lia.
Qed.

Lemma detect4_wide c0 c1 c2 c3 r t :
  match t with
  | kUTF32BE => c0 = 0 /\ c1 = 0 /\ c2 = 0 /\ c3 <> 0
  | kUTF16BE => c0 = 0 /\ c1 <> 0 /\ c2 = 0 /\ c3 <> 0
  | kUTF32LE => c0 <> 0 /\ c1 = 0 /\ c2 = 0 /\ c3 = 0
  | kUTF16LE => c0 <> 0 /\ c1 = 0 /\ c2 <> 0 /\ c3 = 0
  | kUTF8 => False
  end -> rj_detect (c0 :: c1 :: c2 :: c3 :: r) = (t, 0%nat).
Proof.
  destruct t; [contradiction | | | |]; intros [H0 [H1 [H2 H3]]]; bom_tests c0 c1 c2 c3;
    ((assert (Z0 : (c0 =? 0) = true) by lia) || (assert (Z0 : (c0 =? 0) = false) by lia));
    ((assert (Z1 : (c1 =? 0) = true) by lia) || (assert (Z1 : (c1 =? 0) = false) by lia));
    ((assert (Z2 : (c2 =? 0) = true) by lia) || (assert (Z2 : (c2 =? 0) = false) by lia));
    ((assert (Z3 : (c3 =? 0) = true) by lia) || (assert (Z3 : (c3 =? 0) = false) by lia));
    rewrite Z0, Z1, Z2, Z3; reflexivity.
Qed.

(* a first and a second byte that are not zero, the first not FE / FF, no UTF-8 byte order mark: UTF-8 *)
Lemma detect_utf8_bytes b : match b with
    | c0 :: c1 :: r => c0 <> 0 /\ c1 <> 0 /\ c0 <> 0xFF /\ c0 <> 0xFE /\ ~ (c0 = 0xEF /\ c1 = 0xBB /\ match r with c2 :: _ => c2 = 0xBF | [] => False end)
    | _ => True
    end -> rj_detect b = (kUTF8, 0%nat).
Proof.
  destruct b as [|c0 [|c1 [|c2 [|c3 r]]]]; try reflexivity. intros [H0 [H1 [H2 [H3 H4]]]].
  bom_tests c0 c1 c2 c3.
  assert (Z0 : (c0 =? 0) = false) by lia. assert (Z1 : (c1 =? 0) = false) by lia. rewrite Z0, Z1.
  destruct (c2 =? 0), (c3 =? 0); reflexivity.
Qed.

(* ================================================================== without a byte order mark *)

Definition latin (c : N) : bool := (1 <=? c) && (c <=? 255).
Definition ascii (c : N) : bool := (1 <=? c) && (c <=? 127).

(* the class in which detection without a BOM succeeds (the zero pattern of RFC 4627 needs the first characters below
   U+0100 and not U+0000: two of them for UTF-16, one for UTF-32); UTF-8: see detect_utf8_nobom *)
Definition nobom_ok (t : rj_utf) (text : list N) : bool :=
  match t with
  | kUTF8 => true
  | kUTF16LE | kUTF16BE => match text with a :: b :: _ => latin a && latin b | _ => false end
  | kUTF32LE | kUTF32BE => match text with a :: _ => latin a | [] => false end
  end.

Lemma body_cons t a rest : rj_body t (a :: rest) =
  units_bytes (snd (rj_scheme t)) (fst (rj_scheme t)) (enc (fst (rj_scheme t)) a) ++ rj_body t rest.
Proof. unfold rj_body, units_bytes, encs. cbn [flat_map]. rewrite flat_map_app. reflexivity. Qed.

Lemma detect_nil : rj_detect [] = (kUTF8, 0%nat).
Proof. reflexivity. Qed.

Theorem detect_nobom_exact t text : t <> kUTF8 -> Forall scalar text ->
  (rj_detect (rj_body t text) = (t, 0%nat) <-> nobom_ok t text = true).
Proof.
  intros Ht Hs. destruct t; [congruence | | | |]; clear Ht.
  - (* UTF-16LE *)
    destruct text as [|a [|b rest]]; cbn [nobom_ok].
    + split; discriminate.
    + rewrite body_cons. cbn [rj_scheme fst snd enc rj_body units_bytes encs flat_map app]. unfold enc16.
      destruct (a <? 65536) eqn:Ea; cbn [flat_map unit_bytes app].
      * split; discriminate.
      * split; [|discriminate]. intros H. apply detect4_inv in H. lia.
    + rewrite !body_cons. cbn [rj_scheme fst snd enc]. inversion Hs as [|? ? Ha Hs']; subst. inversion Hs' as [|? ? Hb _]; subst.
      unfold scalar, scalarb in Ha, Hb. unfold enc16, latin.
      destruct (a <? 65536) eqn:Ea, (b <? 65536) eqn:Eb; cbn [units_bytes flat_map unit_bytes app];
        (split; [intros H; apply detect4_inv in H; lia | intros H; apply detect4_wide; lia]).
  - (* UTF-16BE *)
    destruct text as [|a [|b rest]]; cbn [nobom_ok].
    + split; discriminate.
    + rewrite body_cons. cbn [rj_scheme fst snd enc rj_body units_bytes encs flat_map app]. unfold enc16.
      destruct (a <? 65536) eqn:Ea; cbn [flat_map unit_bytes app].
      * split; discriminate.
      * split; [|discriminate]. intros H. apply detect4_inv in H. lia.
    + rewrite !body_cons. cbn [rj_scheme fst snd enc]. inversion Hs as [|? ? Ha Hs']; subst. inversion Hs' as [|? ? Hb _]; subst.
      unfold scalar, scalarb in Ha, Hb. unfold enc16, latin.
      destruct (a <? 65536) eqn:Ea, (b <? 65536) eqn:Eb; cbn [units_bytes flat_map unit_bytes app];
        (split; [intros H; apply detect4_inv in H; lia | intros H; apply detect4_wide; lia]).
  - (* UTF-32LE *)
    destruct text as [|a rest]; cbn [nobom_ok]; [split; discriminate|].
    rewrite body_cons. cbn [rj_scheme fst snd enc enc32 units_bytes flat_map unit_bytes app]. inversion Hs as [|? ? Ha _]; subst.
    unfold scalar, scalarb in Ha. unfold latin.
    split; [intros H; apply detect4_inv in H; lia | intros H; apply detect4_wide; lia].
  - (* UTF-32BE *)
    destruct text as [|a rest]; cbn [nobom_ok]; [split; discriminate|].
    rewrite body_cons. cbn [rj_scheme fst snd enc enc32 units_bytes flat_map unit_bytes app]. inversion Hs as [|? ? Ha _]; subst.
    unfold scalar, scalarb in Ha. unfold latin.
    split; [intros H; apply detect4_inv in H; lia | intros H; apply detect4_wide; lia].
Qed.

(* UTF-8 without a BOM: always recognised (it is also the default), provided the text does not itself begin with
   U+FEFF (which would be taken for the mark) and its first two characters are not U+0000 *)
Definition utf8_ok (text : list N) : bool :=
  match text with
  | a :: r => negb (a =? 0xFEFF) && negb (a =? 0) && match r with b :: _ => negb (b =? 0) | [] => true end
  | [] => true
  end.

Ltac utf8_side := repeat split; try lia; try (intros [? [? ?]]; lia); try (intros [? [? []]]).

Theorem detect_utf8_nobom text : Forall scalar text -> utf8_ok text = true -> rj_detect (rj_body kUTF8 text) = (kUTF8, 0%nat).
Proof.
  intros Hs Hok. unfold rj_body. cbn [rj_scheme fst snd]. rewrite units_bytes_w8.
  destruct text as [|a rest]; [reflexivity|]. inversion Hs as [|? ? Ha Hs']; subst. unfold scalar, scalarb in Ha.
  cbn [utf8_ok] in Hok. unfold encs. cbn [flat_map enc]. apply detect_utf8_bytes.
  unfold enc8 at 1. destruct (a <? 128) eqn:E1; [|destruct (a <? 2048) eqn:E2; [|destruct (a <? 65536) eqn:E3]]; cbn [app].
  - destruct rest as [|b rest']; cbn [flat_map enc app]; [exact I|]. inversion Hs' as [|? ? Hb _]; subst. unfold scalar, scalarb in Hb.
    unfold enc8. destruct (b <? 128) eqn:F1; [|destruct (b <? 2048) eqn:F2; [|destruct (b <? 65536) eqn:F3]]; cbn [app]; utf8_side.
  - utf8_side.
  - utf8_side.
  - utf8_side.
Qed.

(* (b) every text whose first two characters are ASCII (and not U+0000) is recognised in all five encodings *)
Definition ascii2 (text : list N) : bool := match text with a :: b :: _ => ascii a && ascii b | _ => false end.

Theorem detect_ascii2 t text : Forall scalar text -> ascii2 text = true -> rj_detect (rj_body t text) = (t, 0%nat).
Proof.
  intros Hs Ha. destruct text as [|a [|b rest]]; try discriminate. cbn [ascii2] in Ha. unfold ascii in Ha.
  destruct t.
  - apply detect_utf8_nobom; [exact Hs|]. cbn [utf8_ok]. lia.
  - apply detect_nobom_exact; [discriminate | exact Hs | cbn [nobom_ok]; unfold latin; lia].
  - apply detect_nobom_exact; [discriminate | exact Hs | cbn [nobom_ok]; unfold latin; lia].
  - apply detect_nobom_exact; [discriminate | exact Hs | cbn [nobom_ok]; unfold latin; lia].
  - apply detect_nobom_exact; [discriminate | exact Hs | cbn [nobom_ok]; unfold latin; lia].
Qed.

(* ================================================================== (a) with a byte order mark *)

Theorem detect_bom t text : Forall scalar text -> match text with a :: _ => a <> 0 | [] => False end ->
  rj_detect (rj_bom t ++ rj_body t text) = (t, length (rj_bom t)).
Proof.
  intros Hs Hne. destruct text as [|a rest]; [contradiction|]. inversion Hs as [|? ? Ha _]; subst. unfold scalar, scalarb in Ha.
  rewrite body_cons. destruct t; cbn [rj_bom rj_scheme fst snd enc app length].
  - rewrite units_bytes_w8. unfold enc8.
    destruct (a <? 128); [|destruct (a <? 2048); [|destruct (a <? 65536)]]; reflexivity.
  - unfold enc16. destruct (a <? 65536) eqn:E; cbn [units_bytes flat_map unit_bytes app];
      match goal with |- rj_detect (_ :: _ :: ?c2 :: ?c3 :: _) = _ =>
        unfold rj_detect;
        assert (B2 : ((c2 =? 0) && (c3 =? 0)) = false) by lia;
        change (255 =? 0) with false; change (255 =? 255) with true; change (254 =? 254) with true; change (255 =? 254) with false;
        cbn [andb]; rewrite B2; reflexivity
      end.
  - unfold enc16. destruct (a <? 65536) eqn:E; cbn [units_bytes flat_map unit_bytes app]; reflexivity.
  - reflexivity.
  - reflexivity.
Qed.

(* ================================================================== (c) where detection without a BOM fails *)

(* one character in UTF-16 (the stream has two bytes: nothing is detected, the default UTF-8 stays): the root value 1;
   a character from U+0100 on among the first two in UTF-16: the root string of one CJK character; the first in UTF-32 *)
Example detect_refuted :
  rj_detect (rj_body kUTF16BE [49]) = (kUTF8, 0%nat) /\
  rj_detect (rj_body kUTF16LE [34; 0x4E2D; 34]) = (kUTF8, 0%nat) /\
  rj_detect (rj_body kUTF32BE [0x4E2D]) = (kUTF8, 0%nat) /\
  rj_read (rj_body kUTF16BE [49]) <> Some [49].
Proof. repeat split; try reflexivity. vm_compute. discriminate. Qed.

(* ================================================================== (d) a stream written with the options is read back *)

(* the class: a byte order mark is written, or the text is in the class where detection needs none *)
Definition stream_detectable (o : sopts) (cps : list N) : bool :=
  so_bom o || match so_enc o with Utf8 => utf8_ok cps | u => nobom_ok (to_rapid_utf u) cps end.

Lemma skipn_app_len {A} (a b : list A) : skipn (length a) (a ++ b) = b.
Proof. induction a as [|x a IH]; [reflexivity | exact IH]. Qed.

Theorem stream_roundtrip o cps : so_stream o = true -> Forall scalar cps -> match cps with a :: _ => a <> 0 | [] => False end ->
  stream_detectable o cps = true -> rj_read (rj_put (json_writer o) cps) = Some cps.
Proof.
  intros Hst Hs Hne Hd. unfold rj_put, json_writer. cbn [w_bom w_utf]. rewrite Hst. cbn [andb].
  set (t := to_rapid_utf (so_enc o)). fold (rj_body t cps). unfold rj_read.
  destruct (so_bom o) eqn:Eb.
  - rewrite (detect_bom t cps Hs Hne), skipn_app_len. apply rj_decode_body. exact Hs.
  - cbn [app]. unfold stream_detectable in Hd. rewrite Eb in Hd. cbn [orb] in Hd.
    assert (E : rj_detect (rj_body t cps) = (t, 0%nat)).
    { subst t. destruct (so_enc o); cbn [to_rapid_utf] in *;
        [apply detect_utf8_nobom; assumption | apply detect_nobom_exact; [discriminate | exact Hs | exact Hd] ..]. }
    rewrite E. cbn [skipn]. apply rj_decode_body. exact Hs.
Qed.

(* every text starting with two ASCII characters, whatever the encoding and the BOM option *)
Corollary stream_roundtrip_ascii2 o cps : so_stream o = true -> Forall scalar cps -> ascii2 cps = true ->
  rj_read (rj_put (json_writer o) cps) = Some cps.
Proof.
  intros Hst Hs Ha. destruct cps as [|a [|b rest]]; try discriminate. pose proof Ha as Ha'. cbn [ascii2] in Ha'. unfold ascii in Ha'.
  apply stream_roundtrip; [exact Hst | exact Hs | lia |].
  unfold stream_detectable. destruct (so_bom o); [reflexivity|]. cbn [orb].
  destruct (so_enc o); cbn [to_rapid_utf nobom_ok utf8_ok]; unfold latin; lia.
Qed.

(* ================================================================== documents *)

(* the text of a document whose root is an array or an object starts with two ASCII characters (what RFC 4627 assumed
   of every JSON text) *)
Lemma tok_text_head t : tok_okb t = true -> exists c r, tok_text t = c :: r /\ ascii c = true.
Proof.
  destruct t; cbn [tok_text tok_okb]; intros H; try (eexists; eexists; split; reflexivity).
  apply num_ok_lex in H. destruct (lex_num_split _ _ _ H) as [_ [_ [c [l' [-> Hc]]]]].
  exists c, l'. split; [reflexivity|]. unfold ascii, is_digit in *. lia.
Qed.

Lemma container_text_ascii2 d : jwf d -> match d with JArr _ | JObj _ => True | _ => False end -> ascii2 (json_print_cps d) = true.
Proof.
  intros Hwf Hc. destruct (good_tokens d Hwf) as [Hok _]. unfold json_print_cps.
  destruct d as [ | | | | l | m]; try contradiction; cbn [tokens_of] in *.
  - cbn [forallb] in Hok. destruct (join_comma (map tokens_of l) ++ [TRBrack]) as [|t ts] eqn:E; [destruct (join_comma (map tokens_of l)); discriminate|].
    cbn [forallb tok_okb andb] in Hok. apply andb_true_iff in Hok. destruct Hok as [Ht _].
    destruct (tok_text_head t Ht) as [c [r [Et Ha]]]. cbn [flat_map tok_text app]. rewrite Et. cbn [app ascii2]. rewrite Ha. reflexivity.
  - cbn [forallb] in Hok.
    destruct (join_comma (map (fun kv => TStr (fst kv) :: TColon :: tokens_of (snd kv)) m) ++ [TRBrace]) as [|t ts] eqn:E;
      [destruct (join_comma (map (fun kv => TStr (fst kv) :: TColon :: tokens_of (snd kv)) m)); discriminate|].
    cbn [forallb tok_okb andb] in Hok. apply andb_true_iff in Hok. destruct Hok as [Ht _].
    destruct (tok_text_head t Ht) as [c [r [Et Ha]]]. cbn [flat_map tok_text app]. rewrite Et. cbn [app ascii2]. rewrite Ha. reflexivity.
Qed.

Lemma json_print_scalar d : jwf d -> Forall scalar (json_print_cps d).
Proof.
  intros Hwf. destruct (good_tokens d Hwf) as [Hok _]. unfold json_print_cps.
  induction (tokens_of d) as [|t ts IH]; [constructor|]. cbn [forallb] in Hok. apply andb_true_iff in Hok. destruct Hok as [H1 H2].
  cbn [flat_map]. apply Forall_app. split; [apply tok_text_scalar; exact H1 | apply IH; exact H2].
Qed.

(* an array or object document written to a stream under any options (five encodings, with or without BOM) is read back
   as its text by detection + decoding *)
Theorem stream_roundtrip_document o d : so_stream o = true -> jwf d -> match d with JArr _ | JObj _ => True | _ => False end ->
  rj_read (rj_put (json_writer o) (json_print_cps d)) = Some (json_print_cps d).
Proof.
  intros Hst Hwf Hc. apply stream_roundtrip_ascii2; [exact Hst | | apply container_text_ascii2; assumption].
  apply json_print_scalar. exact Hwf.
Qed.
