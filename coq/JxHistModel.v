(* JxHistModel.v — C03 for the JSON and XML adapters: histories of requests against the low-level scopes of
   rapidjson_archive.h / pugixml_archive.h (SerializeValue(key, ..), OpenObjectScope(key), OpenArrayScope(key), VisitKeys,
   the attribute scope; in an array scope SerializeValue(..), OpenObjectScope / OpenArrayScope, IsEnd).  The scope objects
   are modelled with the state they have in C++: an object scope holds its node and nothing else (FindMember /
   xml_node::child(name) search from the start on every request: the first member of that name), an array scope holds its
   node and the cursor mValueIt.  Scalar values are converted by load_inner / load_xml_inner of JxModel.v. *)
From BS Require Import Base UtfSpec JxJsonSpec JxXmlSpec JxModel.
Local Open Scope N_scope.

(* a request; key = None: the request of an array scope (no key) *)
Inductive req :=
| QGet (t : ty) (k : option (list N))            (* SerializeValue([key,] value), value of a scalar type *)
| QAttr (t : ty) (k : list N)                    (* XML: OpenAttributeScope()->SerializeValue(key, value) *)
| QObj (k : option (list N)) (sub : list req)    (* OpenObjectScope([key]); if it opens: the requests, then the scope is left *)
| QArr (k : option (list N)) (sub : list req)    (* OpenArrayScope([key]) likewise *)
| QKeys                                          (* VisitKeys: the names handed to the callback *)
| QEnd.                                          (* IsEnd() of an array scope *)

Inductive ans :=
| ALoaded (v : val)                              (* returned true, the target holds v *)
| ANot                                           (* returned false, the target is unchanged *)
| AOpen (b : bool)                               (* the scope was / was not opened *)
| AKeys (ks : list (list N))
| AIsEnd (b : bool)
| ABad.                                          (* a request that does not exist in this kind of scope (not generated) *)

(* the answers so far and the exception, if one ended the history *)
Definition res := (list ans * option err)%type.

Definition res_of_lout (r : lout) : res :=
  match r with Loaded v => ([ALoaded v], None) | NotLoaded => ([ANot], None) | Failed e => ([], Some e) end.

Definition res_seq (a : res) (b : unit -> res) : res :=
  match snd a with Some e => a | None => let r := b tt in (fst a ++ fst r, snd r) end.

(* ------------------------------------------------------------------ JSON *)

Inductive jsc := JO (m : list (list N * rj)) | JA (items : list rj) (cursor : nat).

Section Json.
  Variable i2d : Z -> N.
  Variable o : opts.

  Definition scope_mismatch (x : rj) : res :=
    match x with RNull => ([AOpen false], None) | _ => if mism_throw o then ([], Some EMismatch) else ([AOpen false], None) end.

  (* the node a request refers to, and the scope afterwards: by name in an object scope (no state), the next item in an
     array scope (LoadNextItem: OutOfRange at the end, the cursor moves) *)
  Inductive located := LNode (x : rj) (sc' : jsc) | LAbsent | LEnd | LBad.
  Definition jlocate (sc : jsc) (k : option (list N)) : located :=
    match sc, k with
    | JO m, Some key => match find_member m key with Some x => LNode x sc | None => LAbsent end
    | JA items c, None => match nth_error items c with Some x => LNode x (JA items (S c)) | None => LEnd end
    | _, _ => LBad
    end.

  Fixpoint jexec (r : req) (sc : jsc) {struct r} : jsc * res :=
    let run := fix run (l : list req) (s : jsc) {struct l} : jsc * res :=
      match l with
      | [] => (s, ([], None))
      | q :: l' => let (s1, a1) := jexec q s in
                   match snd a1 with Some _ => (s1, a1) | None => let (s2, a2) := run l' s1 in (s2, (fst a1 ++ fst a2, snd a2)) end
      end in
    match r with
    | QGet t k =>
      match jlocate sc k with
      | LNode x sc' => (sc', res_of_lout (load_inner i2d o t x))
      | LAbsent => (sc, ([ANot], None))
      | LEnd => (sc, ([], Some EOutOfRange))
      | LBad => (sc, ([ABad], None))
      end
    | QObj k sub =>
      match jlocate sc k with
      | LNode (RObj m') sc' => let (_, a) := run sub (JO m') in (sc', (AOpen true :: fst a, snd a))
      | LNode x sc' => (sc', scope_mismatch x)
      | LAbsent => (sc, ([AOpen false], None))
      | LEnd => (sc, ([], Some EOutOfRange))
      | LBad => (sc, ([ABad], None))
      end
    | QArr k sub =>
      match jlocate sc k with
      | LNode (RArr l') sc' => let (_, a) := run sub (JA l' 0) in (sc', (AOpen true :: fst a, snd a))
      | LNode x sc' => (sc', scope_mismatch x)
      | LAbsent => (sc, ([AOpen false], None))
      | LEnd => (sc, ([], Some EOutOfRange))
      | LBad => (sc, ([ABad], None))
      end
    | QKeys => (sc, (match sc with JO m => [AKeys (map fst m)] | _ => [ABad] end, None))
    | QEnd => (sc, (match sc with JA items c => [AIsEnd (Nat.leb (length items) c)] | _ => [ABad] end, None))
    | QAttr _ _ => (sc, ([ABad], None))
    end.

  Fixpoint jrun (l : list req) (s : jsc) : jsc * res :=
    match l with
    | [] => (s, ([], None))
    | q :: l' => let (s1, a1) := jexec q s in
                 match snd a1 with Some _ => (s1, a1) | None => let (s2, a2) := jrun l' s1 in (s2, (fst a1 ++ fst a2, snd a2)) end
    end.

  (* the root scope: OpenObjectScope(0) / OpenArrayScope(0) on the document *)
  Definition jhist (root_is_array : bool) (d : rj) (h : list req) : res :=
    match root_is_array, d with
    | false, RObj m => let a := snd (jrun h (JO m)) in (AOpen true :: fst a, snd a)
    | true, RArr l => let a := snd (jrun h (JA l 0)) in (AOpen true :: fst a, snd a)
    | _, x => scope_mismatch x
    end.
End Json.

(* ------------------------------------------------------------------ XML *)

Inductive xsc := XO (attrs : list (list N * list N)) (ch : list xnode) | XA (ch : list xnode) (cursor : nat).

Section Xml.
  Variables xstrtod xstrtof : list N -> option (option N).
  Variable o : opts.

  Definition xmismatch : res := if mism_throw o then ([], Some EMismatch) else ([AOpen false], None).

  Inductive xlocated := XNode (x : xnode) (sc' : xsc) | XAbsent | XEnd | XBad.
  Definition xlocate (sc : xsc) (k : option (list N)) : xlocated :=
    match sc, k with
    | XO _ ch, Some key => match find_child ch key with Some x => XNode x sc | None => XAbsent end
    | XA ch c, None => match nth_error ch c with Some x => XNode x (XA ch (S c)) | None => XEnd end
    | _, _ => XBad
    end.

  (* an element is opened as object / array when it has no child or its first child is an element *)
  Definition opens (x : xnode) : option (list (list N * list N) * list xnode) :=
    match x with XElem _ a ch => if first_is_elem ch then Some (a, ch) else None | XText _ => None end.

  Fixpoint xexec (r : req) (sc : xsc) {struct r} : xsc * res :=
    let run := fix run (l : list req) (s : xsc) {struct l} : xsc * res :=
      match l with
      | [] => (s, ([], None))
      | q :: l' => let (s1, a1) := xexec q s in
                   match snd a1 with Some _ => (s1, a1) | None => let (s2, a2) := run l' s1 in (s2, (fst a1 ++ fst a2, snd a2)) end
      end in
    match r with
    | QGet t k =>
      match xlocate sc k with
      | XNode x sc' => (sc', res_of_lout (load_xml_inner xstrtod xstrtof o false t x))
      | XAbsent => (sc, ([ANot], None))
      | XEnd => (sc, ([], Some EOutOfRange))
      | XBad => (sc, ([ABad], None))
      end
    | QAttr t k =>
      match sc with
      | XO attrs _ => (sc, match find_attr attrs k with Some s => res_of_lout (load_xml_attr xstrtod xstrtof o t s) | None => ([ANot], None) end)
      | _ => (sc, ([ABad], None))
      end
    | QObj k sub =>
      match xlocate sc k with
      | XNode x sc' => match opens x with
                       | Some (a, ch) => let (_, r1) := run sub (XO a ch) in (sc', (AOpen true :: fst r1, snd r1))
                       | None => (sc', xmismatch)
                       end
      | XAbsent => (sc, ([AOpen false], None))
      | XEnd => (sc, ([], Some EOutOfRange))
      | XBad => (sc, ([ABad], None))
      end
    | QArr k sub =>
      match xlocate sc k with
      | XNode x sc' => match opens x with
                       | Some (_, ch) => let (_, r1) := run sub (XA ch 0) in (sc', (AOpen true :: fst r1, snd r1))
                       | None => (sc', xmismatch)
                       end
      | XAbsent => (sc, ([AOpen false], None))
      | XEnd => (sc, ([], Some EOutOfRange))
      | XBad => (sc, ([ABad], None))
      end
    | QKeys => (sc, (match sc with XO _ ch => [AKeys (map elem_name ch)] | _ => [ABad] end, None))
    | QEnd => (sc, (match sc with XA ch c => [AIsEnd (Nat.leb (length ch) c)] | _ => [ABad] end, None))
    end.

  Fixpoint xrun (l : list req) (s : xsc) : xsc * res :=
    match l with
    | [] => (s, ([], None))
    | q :: l' => let (s1, a1) := xexec q s in
                 match snd a1 with Some _ => (s1, a1) | None => let (s2, a2) := xrun l' s1 in (s2, (fst a1 ++ fst a2, snd a2)) end
    end.

  (* the root scope: the key-less openers test the first child of the document element like the nested ones (b0f5582) *)
  Definition xhist (root_is_array : bool) (root : xnode) (h : list req) : res :=
    match opens root with
    | Some (a, ch) => let r1 := snd (xrun h (if root_is_array then XA ch 0 else XO a ch)) in (AOpen true :: fst r1, snd r1)
    | None => xmismatch
    end.
End Xml.

Definition jhist_text (strtod : list N -> option N) (i2d : Z -> N) (o : opts) (arr : bool) (cps : list N) (h : list req) : res :=
  match json_parse_cps cps with
  | JOk d => match rj_of_jv strtod d with Some r => jhist i2d o arr r h | None => ([], Some EParse) end
  | _ => ([], Some EParse)
  end.

Definition xhist_text (xstrtod xstrtof : list N -> option (option N)) (o : opts) (arr : bool) (cps : list N) (h : list req) : res :=
  match px_parse cps with
  | XOk root => xhist xstrtod xstrtof o arr root h
  | _ => ([], Some EParse)
  end.
