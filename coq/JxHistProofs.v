(* JxHistProofs.v — C03 for the JSON / XML object scopes: no request changes the scope, every answer is a function of
   the document and the request alone (any order, repeats, absent keys, nested scopes left partly read). *)
From BS Require Import Base UtfSpec JxJsonSpec JxXmlSpec JxModel JxHistModel.
Local Open Scope N_scope.

(* the answers of a history, given the answer of each request on its own: up to the first exception *)
Fixpoint seq_res (l : list res) : res :=
  match l with
  | [] => ([], None)
  | a :: l' => match snd a with Some _ => a | None => let r := seq_res l' in (fst a ++ fst r, snd r) end
  end.

Lemma seq_res_app a b : seq_res (a ++ b) = res_seq (seq_res a) (fun _ => seq_res b).
Proof.
  induction a as [|x a IH]; cbn [app seq_res].
  - unfold res_seq. cbn. destruct (seq_res b). reflexivity.
  - destruct x as [xa [e|]]; cbn [snd fst]; [reflexivity|]. rewrite IH. unfold res_seq.
    destruct (seq_res a) as [ra [e|]]; cbn [snd fst]; [reflexivity|]. rewrite app_assoc. reflexivity.
Qed.

(* ================================================================== JSON *)

Section Json.
  Variable i2d : Z -> N.
  Variable o : opts.

  (* the loop inside jexec is jrun *)
  Lemma jrun_inner : forall l s,
    (fix run (l : list req) (s : jsc) {struct l} : jsc * res :=
       match l with
       | [] => (s, ([], None))
       | q :: l' => let (s1, a1) := jexec i2d o q s in
                    match snd a1 with Some _ => (s1, a1) | None => let (s2, a2) := run l' s1 in (s2, (fst a1 ++ fst a2, snd a2)) end
       end) l s = jrun i2d o l s.
  Proof. induction l as [|q l IH]; intros s; cbn [jrun]; [reflexivity|]. destruct (jexec i2d o q s) as [s1 a1]. destruct (snd a1); [reflexivity|]. rewrite IH. reflexivity. Qed.

  Lemma jexec_obj k sub sc : jexec i2d o (QObj k sub) sc =
    match jlocate sc k with
    | LNode (RObj m') sc' => let (_, a) := jrun i2d o sub (JO m') in (sc', (AOpen true :: fst a, snd a))
    | LNode x sc' => (sc', scope_mismatch o x)
    | LAbsent => (sc, ([AOpen false], None))
    | LEnd => (sc, ([], Some EOutOfRange))
    | LBad => (sc, ([ABad], None))
    end.
  Proof. cbn [jexec]. destruct (jlocate sc k) as [x sc'| | |]; reflexivity. Qed.

  Lemma jexec_arr k sub sc : jexec i2d o (QArr k sub) sc =
    match jlocate sc k with
    | LNode (RArr l') sc' => let (_, a) := jrun i2d o sub (JA l' 0) in (sc', (AOpen true :: fst a, snd a))
    | LNode x sc' => (sc', scope_mismatch o x)
    | LAbsent => (sc, ([AOpen false], None))
    | LEnd => (sc, ([], Some EOutOfRange))
    | LBad => (sc, ([ABad], None))
    end.
  Proof. cbn [jexec]. destruct (jlocate sc k) as [x sc'| | |]; reflexivity. Qed.

  (* an object scope has no state: whatever is requested, also a nested scope opened and left, the scope is as before *)
  Lemma jobj_locate m k : match jlocate (JO m) k with LNode _ sc' => sc' = JO m | _ => True end.
  Proof. unfold jlocate. destruct k as [key|]; [|exact I]. destruct (find_member m key); [reflexivity | exact I]. Qed.

  Theorem jobj_stateless r m : fst (jexec i2d o r (JO m)) = JO m.
  Proof.
    destruct r as [t k | t k | k sub | k sub | | ]; try reflexivity.
    - cbn [jexec]. pose proof (jobj_locate m k) as H. destruct (jlocate (JO m) k); try reflexivity. subst. reflexivity.
    - rewrite jexec_obj. pose proof (jobj_locate m k) as H. destruct (jlocate (JO m) k) as [x sc'| | |]; try reflexivity. subst.
      destruct x; try reflexivity. destruct (jrun i2d o sub (JO m0)). reflexivity.
    - rewrite jexec_arr. pose proof (jobj_locate m k) as H. destruct (jlocate (JO m) k) as [x sc'| | |]; try reflexivity. subst.
      destruct x; try reflexivity. destruct (jrun i2d o sub (JA l 0)). reflexivity.
  Qed.

  (* the answer of one request on its own *)
  Definition jsingle (m : list (list N * rj)) (r : req) : res := snd (jexec i2d o r (JO m)).

  (* every history: the scope is unchanged and the answers are those of the requests taken one by one *)
  Theorem jobj_history h m : jrun i2d o h (JO m) = (JO m, seq_res (map (jsingle m) h)).
  Proof.
    induction h as [|r h IH]; [reflexivity|]. cbn [jrun map seq_res]. change (jsingle m r) with (snd (jexec i2d o r (JO m))).
    pose proof (jobj_stateless r m) as Hs. destruct (jexec i2d o r (JO m)) as [s1 a1]. cbn [fst snd] in *. subst s1.
    destruct (snd a1); [reflexivity|]. rewrite IH. reflexivity.
  Qed.

  (* requests made before do not matter *)
  Corollary jobj_order_free h1 h2 m :
    snd (jrun i2d o (h1 ++ h2) (JO m)) = res_seq (snd (jrun i2d o h1 (JO m))) (fun _ => snd (jrun i2d o h2 (JO m))).
  Proof. rewrite !jobj_history. cbn [snd]. rewrite map_app. apply seq_res_app. Qed.

  (* what one request answers: the value stored under the first member of that name, converted; absent: not loaded *)
  Theorem jget_present m k x t : find_member m k = Some x -> jsingle m (QGet t (Some k)) = res_of_lout (load_inner i2d o t x).
  Proof. intros H. unfold jsingle. cbn [jexec jlocate]. rewrite H. reflexivity. Qed.

  Theorem jget_absent m k t : find_member m k = None -> jsingle m (QGet t (Some k)) = ([ANot], None).
  Proof. intros H. unfold jsingle. cbn [jexec jlocate]. rewrite H. reflexivity. Qed.

  Theorem jobj_present m k m' sub : find_member m k = Some (RObj m') ->
    jsingle m (QObj (Some k) sub) = (AOpen true :: fst (seq_res (map (jsingle m') sub)), snd (seq_res (map (jsingle m') sub))).
  Proof. intros H. unfold jsingle at 1. rewrite jexec_obj. cbn [jlocate]. rewrite H, jobj_history. reflexivity. Qed.

  Theorem jscope_absent m k sub : find_member m k = None ->
    jsingle m (QObj (Some k) sub) = ([AOpen false], None) /\ jsingle m (QArr (Some k) sub) = ([AOpen false], None).
  Proof. intros H. unfold jsingle. rewrite jexec_obj, jexec_arr. cbn [jlocate]. rewrite H. split; reflexivity. Qed.

  (* duplicate names: the first member of that name answers (FindMember), the later ones are never reached by name *)
  Lemma find_member_first m1 k x m2 : find_member m1 k = None -> find_member (m1 ++ (k, x) :: m2) k = Some x.
  Proof.
    induction m1 as [|[k0 x0] m1 IH]; cbn [app find_member]; intros H.
    - assert (E : key_eqb k k = true). { unfold key_eqb. assert (C : key_cmp k k = Eq) by (induction k as [|c k IHk]; cbn; [reflexivity | rewrite N.compare_refl; exact IHk]). rewrite C. reflexivity. }
      rewrite E. reflexivity.
    - destruct (key_eqb k k0); [discriminate | apply IH; exact H].
  Qed.

  (* an array scope does have a state, the cursor: a request answers the item under the cursor and moves it by one,
     whether the item could be loaded or not; past the end it raises *)
  Theorem jarr_get items c t :
    jexec i2d o (QGet t None) (JA items c) =
      match nth_error items c with
      | Some x => (JA items (S c), res_of_lout (load_inner i2d o t x))
      | None => (JA items c, ([], Some EOutOfRange))
      end.
  Proof. cbn [jexec jlocate]. destruct (nth_error items c); reflexivity. Qed.
End Json.

(* ================================================================== XML *)

Section Xml.
  Variables xstrtod xstrtof : list N -> option (option N).
  Variable o : opts.

  Lemma xexec_obj k sub sc : xexec xstrtod xstrtof o (QObj k sub) sc =
    match xlocate sc k with
    | XNode x sc' => match opens x with
                     | Some (a, ch) => let (_, r1) := xrun xstrtod xstrtof o sub (XO a ch) in (sc', (AOpen true :: fst r1, snd r1))
                     | None => (sc', xmismatch o)
                     end
    | XAbsent => (sc, ([AOpen false], None))
    | XEnd => (sc, ([], Some EOutOfRange))
    | XBad => (sc, ([ABad], None))
    end.
  Proof. cbn [xexec]. destruct (xlocate sc k) as [x sc'| | |]; reflexivity. Qed.

  Lemma xexec_arr k sub sc : xexec xstrtod xstrtof o (QArr k sub) sc =
    match xlocate sc k with
    | XNode x sc' => match opens x with
                     | Some (_, ch) => let (_, r1) := xrun xstrtod xstrtof o sub (XA ch 0) in (sc', (AOpen true :: fst r1, snd r1))
                     | None => (sc', xmismatch o)
                     end
    | XAbsent => (sc, ([AOpen false], None))
    | XEnd => (sc, ([], Some EOutOfRange))
    | XBad => (sc, ([ABad], None))
    end.
  Proof. cbn [xexec]. destruct (xlocate sc k) as [x sc'| | |]; reflexivity. Qed.

  Lemma xobj_locate a ch k : match xlocate (XO a ch) k with XNode _ sc' => sc' = XO a ch | _ => True end.
  Proof. unfold xlocate. destruct k as [key|]; [|exact I]. destruct (find_child ch key); [reflexivity | exact I]. Qed.

  (* an object scope (and the attribute scope opened from it) has no state *)
  Theorem xobj_stateless r a ch : fst (xexec xstrtod xstrtof o r (XO a ch)) = XO a ch.
  Proof.
    destruct r as [t k | t k | k sub | k sub | | ]; try reflexivity.
    - cbn [xexec]. pose proof (xobj_locate a ch k) as H. destruct (xlocate (XO a ch) k); try reflexivity. subst. reflexivity.
    - rewrite xexec_obj. pose proof (xobj_locate a ch k) as H. destruct (xlocate (XO a ch) k) as [x sc'| | |]; try reflexivity. subst.
      destruct (opens x) as [[a' ch']|]; [|reflexivity]. destruct (xrun xstrtod xstrtof o sub (XO a' ch')). reflexivity.
    - rewrite xexec_arr. pose proof (xobj_locate a ch k) as H. destruct (xlocate (XO a ch) k) as [x sc'| | |]; try reflexivity. subst.
      destruct (opens x) as [[a' ch']|]; [|reflexivity]. destruct (xrun xstrtod xstrtof o sub (XA ch' 0)). reflexivity.
  Qed.

  Definition xsingle (a : list (list N * list N)) (ch : list xnode) (r : req) : res := snd (xexec xstrtod xstrtof o r (XO a ch)).

  Theorem xobj_history h a ch : xrun xstrtod xstrtof o h (XO a ch) = (XO a ch, seq_res (map (xsingle a ch) h)).
  Proof.
    induction h as [|r h IH]; [reflexivity|]. cbn [xrun map seq_res]. change (xsingle a ch r) with (snd (xexec xstrtod xstrtof o r (XO a ch))).
    pose proof (xobj_stateless r a ch) as Hs. destruct (xexec xstrtod xstrtof o r (XO a ch)) as [s1 a1]. cbn [fst snd] in *. subst s1.
    destruct (snd a1); [reflexivity|]. rewrite IH. reflexivity.
  Qed.

  Corollary xobj_order_free h1 h2 a ch :
    snd (xrun xstrtod xstrtof o (h1 ++ h2) (XO a ch)) =
    res_seq (snd (xrun xstrtod xstrtof o h1 (XO a ch))) (fun _ => snd (xrun xstrtod xstrtof o h2 (XO a ch))).
  Proof. rewrite !xobj_history. cbn [snd]. rewrite map_app. apply seq_res_app. Qed.

  (* a child element is found by xml_node::child(name): the first child ELEMENT of that name; an attribute by
     xml_node::attribute(name); the two name spaces do not see each other *)
  Theorem xget_present a ch k x t : find_child ch k = Some x ->
    xsingle a ch (QGet t (Some k)) = res_of_lout (load_xml_inner xstrtod xstrtof o false t x).
  Proof. intros H. unfold xsingle. cbn [xexec xlocate]. rewrite H. reflexivity. Qed.

  Theorem xget_absent a ch k t : find_child ch k = None -> xsingle a ch (QGet t (Some k)) = ([ANot], None).
  Proof. intros H. unfold xsingle. cbn [xexec xlocate]. rewrite H. reflexivity. Qed.

  Theorem xattr_get a ch k t :
    xsingle a ch (QAttr t k) = match find_attr a k with Some s => res_of_lout (load_xml_attr xstrtod xstrtof o t s) | None => ([ANot], None) end.
  Proof. reflexivity. Qed.

  Theorem xarr_get ch c t :
    xexec xstrtod xstrtof o (QGet t None) (XA ch c) =
      match nth_error ch c with
      | Some x => (XA ch (S c), res_of_lout (load_xml_inner xstrtod xstrtof o false t x))
      | None => (XA ch c, ([], Some EOutOfRange))
      end.
  Proof. cbn [xexec xlocate]. destruct (nth_error ch c); reflexivity. Qed.
End Xml.
