(* JxJsonProofs.v — the RFC 8259 reference syntax: the parser reads back what the printer writes
   (for every well-formed DOM), whitespace between tokens is irrelevant, no fuel is ever exhausted. *)
From BS Require Import Base UtfSpec UtfModel UtfLemmas UtfProofs JxJsonSpec.
From Coq Require Import ZifyBool ZifyN ZifyNat.
Local Open Scope N_scope.
Ltac Zify.zify_post_hook ::= Z.div_mod_to_equations.

(* ================================================================== numbers *)

(* what may follow a number lexeme without being absorbed into it *)
Definition nd (rest : list N) : Prop := match rest with [] => True | c :: _ => is_digit c = false end.
Definition stops (rest : list N) : bool :=
  match rest with [] => true | c :: _ => negb (is_digit c || (c =? 46) || (c =? 101) || (c =? 69)) end.

Lemma stops_nd rest : stops rest = true -> nd rest.
Proof. destruct rest as [|c r]; cbn; [trivial|]. intros H. destruct (is_digit c); [discriminate|reflexivity]. Qed.

Lemma span_digits_app s : forall d r rest, span_digits s = (d, r) -> (r = [] -> nd rest) ->
  span_digits (s ++ rest) = (d, r ++ rest).
Proof.
  induction s as [|c s IH]; intros d r rest H Hr.
  - cbn in H. inversion H; subst. cbn. specialize (Hr eq_refl). destruct rest as [|c rest]; [reflexivity|].
    cbn in Hr |- *. rewrite Hr. reflexivity.
  - cbn in H |- *. destruct (is_digit c) eqn:E.
    + destruct (span_digits s) as [d' r'] eqn:Es. inversion H; subst.
      rewrite (IH d' r rest eq_refl Hr). reflexivity.
    + inversion H; subst. reflexivity.
Qed.

Lemma span_digits_split s : forall d r, span_digits s = (d, r) -> s = d ++ r /\ forallb is_digit d = true.
Proof.
  induction s as [|c s IH]; intros d r H; cbn in H.
  - inversion H; subst. split; reflexivity.
  - destruct (is_digit c) eqn:E.
    + destruct (span_digits s) as [d' r'] eqn:Es. inversion H; subst.
      destruct (IH d' r eq_refl) as [-> Hd]. split; [reflexivity|]. cbn. rewrite E, Hd. reflexivity.
    + inversion H; subst. split; reflexivity.
Qed.

Lemma lex_int_app s i r rest : lex_int s = Some (i, r) -> (r = [] -> nd rest) ->
  lex_int (s ++ rest) = Some (i, r ++ rest).
Proof.
  destruct s as [|c s]; cbn; [discriminate|]. intros H Hr.
  destruct (c =? 48); [inversion H; subst; reflexivity|].
  destruct (is_digit c); [|discriminate].
  destruct (span_digits s) as [d r'] eqn:Es. inversion H; subst.
  rewrite (span_digits_app s d r rest Es Hr). reflexivity.
Qed.

Lemma lex_frac_app s f r rest : lex_frac s = Some (f, r) -> (r = [] -> stops rest = true) ->
  lex_frac (s ++ rest) = Some (f, r ++ rest).
Proof.
  destruct s as [|c s]; cbn; intros H Hr.
  - inversion H; subst. specialize (Hr eq_refl). destruct rest as [|c rest]; [reflexivity|].
    cbn in Hr |- *. destruct (c =? 46); [|reflexivity]. rewrite !orb_true_r in Hr. cbn in Hr.
    destruct (is_digit c); discriminate.
  - destruct (c =? 46).
    + destruct (span_digits s) as [d r'] eqn:Es. destruct d as [|d0 d]; [discriminate|]. inversion H; subst.
      rewrite (span_digits_app s (d0 :: d) r rest Es (fun E => stops_nd _ (Hr E))). reflexivity.
    + inversion H; subst. reflexivity.
Qed.

Lemma lex_exp_app s e r rest : lex_exp s = Some (e, r) -> (r = [] -> stops rest = true) ->
  lex_exp (s ++ rest) = Some (e, r ++ rest).
Proof.
  destruct s as [|c s]; cbn; intros H Hr.
  - inversion H; subst. specialize (Hr eq_refl). destruct rest as [|c rest]; [reflexivity|].
    cbn in Hr |- *. destruct ((c =? 101) || (c =? 69)) eqn:E; [|reflexivity].
    exfalso. destruct (is_digit c), (c =? 46), (c =? 101), (c =? 69); cbn in *; discriminate.
  - destruct ((c =? 101) || (c =? 69)).
    + destruct s as [|c2 s2].
      * cbn in H. discriminate.
      * cbn [app]. destruct ((c2 =? 43) || (c2 =? 45)).
        -- destruct (span_digits s2) as [d r'] eqn:Es. destruct d as [|d0 d]; [discriminate|]. inversion H; subst.
           rewrite (span_digits_app s2 (d0 :: d) r rest Es (fun E => stops_nd _ (Hr E))). reflexivity.
        -- destruct (span_digits (c2 :: s2)) as [d r'] eqn:Es. destruct d as [|d0 d]; [discriminate|]. inversion H; subst.
           change (c2 :: s2 ++ rest) with ((c2 :: s2) ++ rest).
           rewrite (span_digits_app (c2 :: s2) (d0 :: d) r rest Es (fun E => stops_nd _ (Hr E))). reflexivity.
    + inversion H; subst. reflexivity.
Qed.

Lemma lex_frac_nil_rest s f : lex_frac s = Some (f, []) -> lex_exp [] = Some ([], []).
Proof. reflexivity. Qed.

Lemma lex_num_app s l r rest : lex_num s = Some (l, r) -> (r = [] -> stops rest = true) ->
  lex_num (s ++ rest) = Some (l, r ++ rest).
Proof.
  unfold lex_num. intros H Hr.
  assert (G : forall s1 l1, match lex_int s1 with
     | None => None
     | Some (i, s2) => match lex_frac s2 with None => None | Some (f, s3) =>
         match lex_exp s3 with None => None | Some (e, s4) => Some (l1 ++ i ++ f ++ e, s4) end end end = Some (l, r) ->
     match lex_int (s1 ++ rest) with
     | None => None
     | Some (i, s2) => match lex_frac s2 with None => None | Some (f, s3) =>
         match lex_exp s3 with None => None | Some (e, s4) => Some (l1 ++ i ++ f ++ e, s4) end end end = Some (l, r ++ rest)).
  { intros s1 l1 H1.
    destruct (lex_int s1) as [[i s2]|] eqn:Ei; [|discriminate].
    destruct (lex_frac s2) as [[f s3]|] eqn:Ef; [|discriminate].
    destruct (lex_exp s3) as [[e s4]|] eqn:Ee; [|discriminate].
    inversion H1; subst.
    assert (H3 : s3 = [] -> stops rest = true).
    { intros ->. cbn in Ee. inversion Ee; subst. apply Hr. reflexivity. }
    assert (H2 : s2 = [] -> nd rest).
    { intros ->. cbn in Ef. inversion Ef; subst. apply stops_nd, H3. reflexivity. }
    rewrite (lex_int_app _ _ _ rest Ei H2), (lex_frac_app _ _ _ rest Ef H3), (lex_exp_app _ _ _ rest Ee Hr).
    reflexivity. }
  destruct s as [|c s].
  - cbn in H. discriminate.
  - cbn [app]. destruct (c =? 45).
    + apply (G s [45]). exact H.
    + change (c :: s ++ rest) with ((c :: s) ++ rest). apply (G (c :: s) []). exact H.
Qed.

(* the lexeme is the consumed prefix, it is not empty, it is ASCII and starts with minus or a digit *)
Lemma lex_int_split s i r : lex_int s = Some (i, r) ->
  s = i ++ r /\ i <> [] /\ forallb is_digit i = true.
Proof.
  destruct s as [|c s]; cbn; [discriminate|]. intros H.
  destruct (c =? 48) eqn:E0.
  - inversion H; subst. apply N.eqb_eq in E0. subst. repeat split. discriminate.
  - destruct (is_digit c) eqn:Ed; [|discriminate].
    destruct (span_digits s) as [d r'] eqn:Es. inversion H; subst.
    destruct (span_digits_split _ _ _ Es) as [-> Hd]. repeat split; [discriminate|]. cbn. rewrite Ed, Hd. reflexivity.
Qed.

Definition numch (c : N) : bool := is_digit c || (c =? 43) || (c =? 45) || (c =? 46) || (c =? 101) || (c =? 69).

Lemma digits_numch d : forallb is_digit d = true -> forallb numch d = true.
Proof.
  induction d as [|c d IH]; cbn; [reflexivity|]. intros H. apply andb_true_iff in H. destruct H as [H1 H2].
  rewrite (IH H2). unfold numch. rewrite H1. reflexivity.
Qed.

Lemma lex_frac_split s f r : lex_frac s = Some (f, r) -> s = f ++ r /\ forallb numch f = true.
Proof.
  destruct s as [|c s]; cbn; intros H.
  - inversion H; subst. split; reflexivity.
  - destruct (c =? 46) eqn:E.
    + destruct (span_digits s) as [d r'] eqn:Es. destruct d as [|d0 d]; [discriminate|]. inversion H; subst.
      destruct (span_digits_split _ _ _ Es) as [-> Hd]. apply N.eqb_eq in E. subst. split; [reflexivity|].
      change (numch 46 && forallb numch (d0 :: d) = true).
      rewrite (digits_numch _ Hd). reflexivity.
    + inversion H; subst. split; reflexivity.
Qed.

Lemma lex_exp_split s e r : lex_exp s = Some (e, r) -> s = e ++ r /\ forallb numch e = true.
Proof.
  destruct s as [|c s]; cbn; intros H.
  - inversion H; subst. split; reflexivity.
  - destruct ((c =? 101) || (c =? 69)) eqn:E.
    + assert (Hc : numch c = true). { unfold numch. destruct (c =? 101), (c =? 69); try discriminate; rewrite ?orb_true_r; reflexivity. }
      destruct s as [|c2 s2]; [cbn in H; discriminate|].
      destruct ((c2 =? 43) || (c2 =? 45)) eqn:E2.
      * assert (Hc2 : numch c2 = true). { unfold numch. destruct (c2 =? 43), (c2 =? 45); try discriminate; rewrite ?orb_true_r; reflexivity. }
        destruct (span_digits s2) as [d r'] eqn:Es. destruct d as [|d0 d]; [discriminate|]. inversion H; subst.
        destruct (span_digits_split _ _ _ Es) as [-> Hd]. split; [reflexivity|].
        change (numch c && (numch c2 && forallb numch (d0 :: d)) = true).
        rewrite Hc, Hc2, (digits_numch _ Hd). reflexivity.
      * destruct (span_digits (c2 :: s2)) as [d r'] eqn:Es. destruct d as [|d0 d]; [discriminate|]. inversion H; subst.
        destruct (span_digits_split _ _ _ Es) as [E' Hd]. split; [cbn [app]; rewrite E'; reflexivity|].
        change (numch c && forallb numch (d0 :: d) = true).
        rewrite Hc, (digits_numch _ Hd). reflexivity.
    + inversion H; subst. split; reflexivity.
Qed.

Lemma forallb_app' {A} (p : A -> bool) a b : forallb p (a ++ b) = forallb p a && forallb p b.
Proof. induction a as [|x a IH]; cbn; [reflexivity|]. rewrite IH, andb_assoc. reflexivity. Qed.

Lemma lex_num_split s l r : lex_num s = Some (l, r) ->
  s = l ++ r /\ forallb numch l = true /\
  exists c l', l = c :: l' /\ ((c =? 45) || is_digit c) = true.
Proof.
  unfold lex_num. intros H.
  assert (G : forall s1 l1, match lex_int s1 with
     | None => None
     | Some (i, s2) => match lex_frac s2 with None => None | Some (f, s3) =>
         match lex_exp s3 with None => None | Some (e, s4) => Some (l1 ++ i ++ f ++ e, s4) end end end = Some (l, r) ->
     exists i f e, l = l1 ++ i ++ f ++ e /\ s1 = i ++ f ++ e ++ r /\ forallb numch (i ++ f ++ e) = true /\
       exists c i', i = c :: i' /\ is_digit c = true).
  { intros s1 l1 H1.
    destruct (lex_int s1) as [[i s2]|] eqn:Ei; [|discriminate].
    destruct (lex_frac s2) as [[f s3]|] eqn:Ef; [|discriminate].
    destruct (lex_exp s3) as [[e s4]|] eqn:Ee; [|discriminate].
    inversion H1; subst.
    destruct (lex_int_split _ _ _ Ei) as [-> [Hi Hdi]].
    destruct (lex_frac_split _ _ _ Ef) as [-> Hf].
    destruct (lex_exp_split _ _ _ Ee) as [-> He].
    exists i, f, e. repeat split.
    - rewrite !forallb_app', (digits_numch _ Hdi), Hf, He. reflexivity.
    - destruct i as [|c i']; [congruence|]. exists c, i'. split; [reflexivity|].
      cbn in Hdi. apply andb_true_iff in Hdi. tauto. }
  destruct s as [|c s].
  - cbn in H. discriminate.
  - destruct (c =? 45) eqn:E.
    + destruct (G s [45] H) as [i [f [e [-> [-> [Hn _]]]]]]. apply N.eqb_eq in E. subst.
      split; [cbn [app]; rewrite <- !app_assoc; reflexivity|]. split.
      * change (numch 45 && forallb numch (i ++ f ++ e) = true). rewrite Hn. reflexivity.
      * exists 45, (i ++ f ++ e). split; reflexivity.
    + destruct (G (c :: s) [] H) as [i [f [e [-> [E' [Hn [c' [i' [-> Hd]]]]]]]]].
      split; [cbn [app]; rewrite E'; cbn [app]; rewrite <- !app_assoc; reflexivity|]. split; [exact Hn|].
      exists c', (i' ++ f ++ e). split; [reflexivity|]. rewrite Hd. apply orb_true_r.
Qed.

Lemma num_ok_lex l : num_ok l = true -> lex_num l = Some (l, []).
Proof.
  unfold num_ok. destruct (lex_num l) as [[l' r]|] eqn:E; [|discriminate].
  destruct r; [|discriminate]. intros _. destruct (lex_num_split _ _ _ E) as [H _]. rewrite app_nil_r in H. congruence.
Qed.

Lemma num_ok_stops l rest : num_ok l = true -> stops rest = true -> lex_num (l ++ rest) = Some (l, rest).
Proof.
  intros H Hs. apply num_ok_lex in H. apply (lex_num_app l l [] rest H). intros _. exact Hs.
Qed.

(* ================================================================== strings *)

Lemma scalarb_lt32 c : c < 32 -> scalarb c = true.
Proof. intros H. unfold scalarb. lia. Qed.

(* the escape sequence of a control character is read back as that character *)
Lemma esc_ctl c out X : c < 32 ->
  lex_str SN out ([92; 117; 48; 48; hexdigit (c / 16); hexdigit (c mod 16)] ++ X) = lex_str SN (c :: out) X.
Proof.
  intros H.
  destruct c as [|p]; [reflexivity|].
  destruct p as [p|p|]; [| |reflexivity];
  (destruct p as [p|p|]; [| |reflexivity]);
  (destruct p as [p|p|]; [| |reflexivity]);
  (destruct p as [p|p|]; [| |reflexivity]);
  (destruct p as [p|p|]; [| |reflexivity]); exfalso; lia.
Qed.

Lemma lex_str_print s : forall out rest, forallb scalarb s = true ->
  lex_str SN out (str_body s ++ 34 :: rest) = Some (rev out ++ s, rest).
Proof.
  induction s as [|c s IH]; intros out rest Hs.
  - cbn. rewrite app_nil_r. reflexivity.
  - cbn in Hs. apply andb_true_iff in Hs. destruct Hs as [Hc Hs].
    change (str_body (c :: s)) with (esc_char c ++ str_body s). rewrite <- app_assoc.
    assert (R : rev out ++ c :: s = rev (c :: out) ++ s). { cbn. rewrite <- app_assoc. reflexivity. }
    rewrite R. rewrite <- (IH (c :: out) rest Hs).
    unfold esc_char.
    destruct (c =? 34) eqn:E1.
    { apply N.eqb_eq in E1. subst. reflexivity. }
    destruct (c =? 92) eqn:E2.
    { apply N.eqb_eq in E2. subst. reflexivity. }
    destruct (c <? 32) eqn:E3.
    { apply esc_ctl. lia. }
    cbn [app lex_str]. rewrite E1, E2, E3, Hc. reflexivity.
Qed.

Lemma lex_str_shorter s : forall st out v r, lex_str st out s = Some (v, r) -> (length r < length s)%nat.
Proof.
  induction s as [|c s IH]; intros st out v r H; [discriminate|].
  cbn [length]. destruct st; cbn [lex_str] in H.
  - destruct (c =? 34). { inversion H; subst. lia. }
    destruct (c =? 92). { apply IH in H. lia. }
    destruct (c <? 32); [discriminate|]. destruct (scalarb c); [|discriminate]. apply IH in H. lia.
  - repeat match type of H with (if ?b then _ else _) = _ => destruct b; [apply IH in H; lia|] end. discriminate.
  - destruct (hexval c); [|discriminate]. destruct k. 
    + destruct (is_hi _). { apply IH in H. lia. } destruct (is_lo _); [discriminate|]. apply IH in H. lia.
    + apply IH in H. lia.
  - destruct (c =? 92); [|discriminate]. apply IH in H. lia.
  - destruct (c =? 117); [|discriminate]. apply IH in H. lia.
  - destruct (hexval c); [|discriminate]. destruct k.
    + destruct (is_lo _); [|discriminate]. apply IH in H. lia.
    + apply IH in H. lia.
Qed.

(* ================================================================== lexer *)

Definition tok_okb (t : tok) : bool :=
  match t with TStr s => forallb scalarb s | TNum l => num_ok l | _ => true end.

Definition is_num (t : tok) : bool := match t with TNum _ => true | _ => false end.

Fixpoint no_adj_num (ts : list tok) : bool :=
  match ts with
  | [] => true
  | t :: r => negb (is_num t && match r with t2 :: _ => is_num t2 | [] => false end) && no_adj_num r
  end.

Lemma strip_prefix_app p X : strip_prefix p (p ++ X) = Some X.
Proof. induction p as [|a p IH]; cbn; [reflexivity|]. rewrite N.eqb_refl. exact IH. Qed.

Lemma strip_prefix_len p : forall s r, strip_prefix p s = Some r -> (length r <= length s)%nat.
Proof.
  induction p as [|a p IH]; intros s r H; cbn in H.
  - inversion H; subst. lia.
  - destruct s as [|b s]; [discriminate|]. destruct (a =? b); [|discriminate]. apply IH in H. cbn. lia.
Qed.

Lemma lex_skip_ws w : forall f s, forallb is_ws w = true -> lex (length w + f) (w ++ s) = lex f s.
Proof.
  induction w as [|c w IH]; intros f s H; [reflexivity|].
  cbn in H. apply andb_true_iff in H. destruct H as [Hc Hw].
  cbn [length app Nat.add lex]. rewrite Hc. apply IH. exact Hw.
Qed.

Lemma lex_num_branch f c s : ((c =? 45) || is_digit c) = true ->
  lex (S f) (c :: s) = match lex_num (c :: s) with Some (l, r') => lcons (TNum l) (lex f r') | None => LErr end.
Proof.
  intros H. cbn [lex].
  assert (E0 : is_ws c = false) by (unfold is_ws, is_digit in *; lia).
  assert (E1 : (c =? 123) = false) by (unfold is_digit in *; lia).
  assert (E2 : (c =? 125) = false) by (unfold is_digit in *; lia).
  assert (E3 : (c =? 91) = false) by (unfold is_digit in *; lia).
  assert (E4 : (c =? 93) = false) by (unfold is_digit in *; lia).
  assert (E5 : (c =? 44) = false) by (unfold is_digit in *; lia).
  assert (E6 : (c =? 58) = false) by (unfold is_digit in *; lia).
  assert (E7 : (c =? 34) = false) by (unfold is_digit in *; lia).
  assert (E8 : (c =? 110) = false) by (unfold is_digit in *; lia).
  assert (E9 : (c =? 116) = false) by (unfold is_digit in *; lia).
  assert (E10 : (c =? 102) = false) by (unfold is_digit in *; lia).
  rewrite E0, E1, E2, E3, E4, E5, E6, E7, E8, E9, E10, H. reflexivity.
Qed.

Lemma render_cons ws0 t w tws : render_ws ws0 ((t, w) :: tws) = ws0 ++ tok_text t ++ render_ws w tws.
Proof. unfold render_ws. cbn. rewrite <- app_assoc. reflexivity. Qed.

(* the first character of the text that follows a number token *)
Lemma stops_render w tws : forallb is_ws w = true ->
  match tws with (t2, _) :: _ => is_num t2 = false | [] => True end ->
  forallb (fun tw => tok_okb (fst tw)) tws = true ->
  stops (render_ws w tws) = true.
Proof.
  intros Hw Hn Hok. destruct w as [|c w].
  - destruct tws as [|[t2 w2] tws]; [reflexivity|]. rewrite render_cons. cbn [app].
    destruct t2; try reflexivity. discriminate.
  - cbn in Hw. apply andb_true_iff in Hw. destruct Hw as [Hc _].
    unfold render_ws. cbn [app stops]. unfold is_ws, is_digit in *. lia.
Qed.

Lemma tok_text_nonempty t : tok_okb t = true -> (0 < length (tok_text t))%nat.
Proof.
  destruct t; cbn; try lia. intros H. apply num_ok_lex in H. destruct (lex_num_split _ _ _ H) as [_ [_ [c [l' [-> _]]]]].
  cbn. lia.
Qed.

Lemma lex_render tws : forall ws0 fuel,
  forallb is_ws ws0 = true ->
  forallb (fun tw => tok_okb (fst tw) && forallb is_ws (snd tw)) tws = true ->
  no_adj_num (map fst tws) = true ->
  (length (render_ws ws0 tws) < fuel)%nat ->
  lex fuel (render_ws ws0 tws) = LOk (map fst tws).
Proof.
  induction tws as [|[t w] tws IH]; intros ws0 fuel Hw0 Hok Hadj Hf.
  - unfold render_ws in *. cbn [flat_map] in *. rewrite app_nil_r in *.
    pose proof (lex_skip_ws ws0 (fuel - length ws0) [] Hw0) as Hs. rewrite app_nil_r in Hs.
    replace (length ws0 + (fuel - length ws0))%nat with fuel in Hs by lia. rewrite Hs.
    destruct (fuel - length ws0)%nat eqn:E; [lia|]. reflexivity.
  - rewrite render_cons in *. rewrite !app_length in Hf.
    cbn [forallb fst snd] in Hok. apply andb_true_iff in Hok. destruct Hok as [Ht Hok].
    apply andb_true_iff in Ht. destruct Ht as [Ht Hw].
    cbn [map fst no_adj_num] in Hadj. apply andb_true_iff in Hadj. destruct Hadj as [Hadj1 Hadj].
    pose proof (tok_text_nonempty t Ht) as Hne.
    replace fuel with (length ws0 + (fuel - length ws0))%nat by lia.
    rewrite (lex_skip_ws ws0 _ _ Hw0).
    destruct (fuel - length ws0)%nat as [|f] eqn:E; [lia|].
    assert (Hf' : (length (render_ws w tws) < f)%nat) by lia.
    specialize (IH w f Hw Hok Hadj Hf').
    cbn [map fst].
    assert (Hok' : forallb (fun tw => tok_okb (fst tw)) tws = true).
    { clear -Hok. induction tws as [|x tws IH]; [reflexivity|]. cbn in *. apply andb_true_iff in Hok.
      destruct Hok as [H1 H2]. apply andb_true_iff in H1. destruct H1 as [H1 _]. rewrite H1, (IH H2). reflexivity. }
    set (X := render_ws w tws) in *.
    destruct t; cbn [tok_text app];
      try (cbn [lex]; cbn; rewrite ?strip_prefix_app; rewrite IH; reflexivity).
    + (* string *)
      cbn [lex]. change (is_ws 34) with false. cbv iota.
      change (34 =? 123) with false. change (34 =? 125) with false. change (34 =? 91) with false.
      change (34 =? 93) with false. change (34 =? 44) with false. change (34 =? 58) with false.
      change (34 =? 34) with true. cbv iota.
      rewrite <- app_assoc. cbn [app]. cbn [tok_okb] in Ht. rewrite (lex_str_print s [] X Ht). cbn [rev app].
      rewrite IH. reflexivity.
    + (* number *)
      cbn [tok_okb] in Ht. pose proof (num_ok_lex _ Ht) as Hl.
      destruct (lex_num_split _ _ _ Hl) as [_ [_ [c [l' [El Hc]]]]]. subst l.
      cbn [app]. rewrite (lex_num_branch f c (l' ++ X) Hc).
      change (c :: l' ++ X) with ((c :: l') ++ X).
      rewrite (num_ok_stops (c :: l') X Ht).
      * rewrite IH. reflexivity.
      * apply stops_render; [exact Hw| |exact Hok'].
        destruct tws as [|[t2 w2] tws]; [trivial|]. cbn [map fst] in Hadj1. cbn [is_num andb negb] in Hadj1.
        destruct (is_num t2); [discriminate|reflexivity].
Qed.

(* ================================================================== grammar *)

Lemma jv_ind' (P : jv -> Prop)
  (Hnull : P JNull) (Hbool : forall b, P (JBool b)) (Hnum : forall l, P (JNum l)) (Hstr : forall s, P (JStr s))
  (Harr : forall l, Forall P l -> P (JArr l))
  (Hobj : forall m, Forall (fun kv => P (snd kv)) m -> P (JObj m)) : forall d, P d.
Proof.
  fix IH 1. intros [ | b | l | s | l | m ].
  - exact Hnull.
  - apply Hbool.
  - apply Hnum.
  - apply Hstr.
  - apply Harr. revert l. fix IHl 1. intros [|x l]; constructor; [apply IH | apply IHl].
  - apply Hobj. revert m. fix IHm 1. intros [|[k v] m]; constructor; [apply IH | apply IHm].
Qed.

(* more fuel never changes a result other than "out of fuel" *)
Lemma pv_mono f :
  (forall ts res f', pv f ts = res -> res <> PFuel -> (f <= f')%nat -> pv f' ts = res) /\
  (forall ts acc res f', pelems f ts acc = res -> res <> PFuel -> (f <= f')%nat -> pelems f' ts acc = res) /\
  (forall ts acc res f', pmembers f ts acc = res -> res <> PFuel -> (f <= f')%nat -> pmembers f' ts acc = res).
Proof.
  induction f as [|f [IHv [IHe IHm]]].
  - repeat split; intros; cbn in *; congruence.
  - repeat split.
    + intros ts res f' H Hn Hle. destruct f' as [|f']; [lia|]. assert (Hle' : (f <= f')%nat) by lia.
      cbn [pv] in *.
      destruct ts as [|t r]; [exact H|].
      destruct t; try exact H;
        (destruct r as [|t2 r2]; [first [exact H | apply (IHm _ _ _ _ H Hn Hle') | apply (IHe _ _ _ _ H Hn Hle')]|]);
        destruct t2; first [exact H | apply (IHm _ _ _ _ H Hn Hle') | apply (IHe _ _ _ _ H Hn Hle')].
    + intros ts acc res f' H Hn Hle. destruct f' as [|f']; [lia|]. assert (Hle' : (f <= f')%nat) by lia.
      cbn [pelems] in *.
      destruct (pv f ts) as [v r| |] eqn:Ev.
      * rewrite (IHv _ _ f' Ev ltac:(discriminate) Hle').
        destruct r as [|t r]; [exact H|]. destruct t; try exact H. apply (IHe _ _ _ _ H Hn Hle').
      * rewrite (IHv _ _ f' Ev ltac:(discriminate) Hle'). exact H.
      * congruence.
    + intros ts acc res f' H Hn Hle. destruct f' as [|f']; [lia|]. assert (Hle' : (f <= f')%nat) by lia.
      cbn [pmembers] in *.
      destruct ts as [|t r]; [exact H|]. destruct t; try exact H.
      destruct r as [|t2 r2]; [exact H|]. destruct t2; try exact H.
      destruct (pv f r2) as [v r| |] eqn:Ev.
      * rewrite (IHv _ _ f' Ev ltac:(discriminate) Hle').
        destruct r as [|t r]; [exact H|]. destruct t; try exact H. apply (IHm _ _ _ _ H Hn Hle').
      * rewrite (IHv _ _ f' Ev ltac:(discriminate) Hle'). exact H.
      * congruence.
Qed.

(* enough fuel is always provided: 2 * tokens + 2 *)
Lemma pv_fuel f :
  (forall ts, (2 * length ts < f)%nat -> pv f ts <> PFuel) /\
  (forall ts acc, (2 * length ts + 1 < f)%nat -> pelems f ts acc <> PFuel) /\
  (forall ts acc, (2 * length ts + 1 < f)%nat -> pmembers f ts acc <> PFuel) /\
  (forall ts v r, pv f ts = POk v r -> (length r < length ts)%nat) /\
  (forall ts acc v r, pelems f ts acc = POk v r -> (length r < length ts)%nat) /\
  (forall ts acc v r, pmembers f ts acc = POk v r -> (length r < length ts)%nat).
Proof.
  induction f as [|f [IHv [IHe [IHm [ILv [ILe ILm]]]]]].
  - repeat split; intros; cbn in *; try lia; discriminate.
  - assert (Lv : forall ts v r, pv (S f) ts = POk v r -> (length r < length ts)%nat).
    { intros ts v r H. cbn [pv] in H.
      destruct ts as [|t r0]; [discriminate|].
      destruct t; try discriminate; try (inversion H; subst; cbn; lia);
        (destruct r0 as [|t2 r2]; [try discriminate; try (apply ILe in H; cbn in *; lia); try (apply ILm in H; cbn in *; lia)|]);
        destruct t2; try discriminate; try (inversion H; subst; cbn; lia);
        try (apply ILe in H; cbn in *; lia); try (apply ILm in H; cbn in *; lia). }
    assert (Le : forall ts acc v r, pelems (S f) ts acc = POk v r -> (length r < length ts)%nat).
    { intros ts acc v r H. cbn [pelems] in H.
      destruct (pv f ts) as [v0 r0| |] eqn:Ev; try discriminate. apply ILv in Ev.
      destruct r0 as [|t r0]; [discriminate|]. destruct t; try discriminate.
      - inversion H; subst. cbn in *. lia.
      - apply ILe in H. cbn in *. lia. }
    assert (Lm : forall ts acc v r, pmembers (S f) ts acc = POk v r -> (length r < length ts)%nat).
    { intros ts acc v r H. cbn [pmembers] in H.
      destruct ts as [|t r1]; [discriminate|]. destruct t; try discriminate.
      destruct r1 as [|t2 r2]; [discriminate|]. destruct t2; try discriminate.
      destruct (pv f r2) as [v0 r0| |] eqn:Ev; try discriminate. apply ILv in Ev.
      destruct r0 as [|t r0]; [discriminate|]. destruct t; try discriminate.
      - inversion H; subst. cbn in *. lia.
      - apply ILm in H. cbn in *. lia. }
    repeat split; try assumption.
    + intros ts Hf. cbn [pv].
      destruct ts as [|t r0]; [discriminate|].
      destruct t; try discriminate;
        (destruct r0 as [|t2 r2]; [try discriminate; try (apply IHe; cbn in *; lia); try (apply IHm; cbn in *; lia)|]);
        destruct t2; try discriminate; try (apply IHe; cbn in *; lia); try (apply IHm; cbn in *; lia).
    + intros ts acc Hf. cbn [pelems].
      destruct (pv f ts) as [v0 r0| |] eqn:Ev.
      * apply ILv in Ev. destruct r0 as [|t r0]; [discriminate|]. destruct t; try discriminate.
        apply IHe. cbn in *. lia.
      * discriminate.
      * exfalso. revert Ev. apply IHv. lia.
    + intros ts acc Hf. cbn [pmembers].
      destruct ts as [|t r1]; [discriminate|]. destruct t; try discriminate.
      destruct r1 as [|t2 r2]; [discriminate|]. destruct t2; try discriminate.
      destruct (pv f r2) as [v0 r0| |] eqn:Ev.
      * apply ILv in Ev. destruct r0 as [|t r0]; [discriminate|]. destruct t; try discriminate.
        apply IHm. cbn in *. lia.
      * discriminate.
      * exfalso. revert Ev. apply IHv. cbn in *. lia.
Qed.

Lemma pv_fuel_suffices ts : pv (2 * length ts + 2) ts <> PFuel.
Proof. apply (proj1 (pv_fuel _)). lia. Qed.

(* a value never starts with a closing bracket, a comma or a colon *)
Definition vstart (t : tok) : Prop :=
  match t with TRBrace | TRBrack | TComma | TColon => False | _ => True end.

Lemma tokens_of_start d : exists t ts, tokens_of d = t :: ts /\ vstart t.
Proof. destruct d as [| [|] | | | |]; cbn; eexists; eexists; split; try reflexivity; exact I. Qed.

Definition pv_ok (d : jv) : Prop :=
  forall rest, exists f0, forall f, (f0 <= f)%nat -> pv f (tokens_of d ++ rest) = POk d rest.

Lemma pelems_ok l : Forall pv_ok l -> l <> [] -> forall acc rest, exists f0, forall f, (f0 <= f)%nat ->
  pelems f (join_comma (map tokens_of l) ++ TRBrack :: rest) acc = POk (JArr (rev acc ++ l)) rest.
Proof.
  induction 1 as [|x l Hx Hl IH]; intros Hne acc rest; [congruence|].
  destruct l as [|y l].
  - cbn [map join_comma]. destruct (Hx (TRBrack :: rest)) as [f0 H0]. exists (S f0). intros f Hf.
    destruct f as [|f]; [lia|]. cbn [pelems]. rewrite H0 by lia. reflexivity.
  - change (join_comma (map tokens_of (x :: y :: l))) with (tokens_of x ++ TComma :: join_comma (map tokens_of (y :: l))).
    rewrite <- app_assoc. cbn [app].
    destruct (Hx (TComma :: join_comma (map tokens_of (y :: l)) ++ TRBrack :: rest)) as [f0 H0].
    destruct (IH ltac:(discriminate) (x :: acc) rest) as [f1 H1].
    exists (S (Nat.max f0 f1)). intros f Hf. destruct f as [|f]; [lia|]. cbn [pelems].
    rewrite H0 by lia. rewrite H1 by lia. cbn [rev]. rewrite <- app_assoc. reflexivity.
Qed.

Definition mem_toks (kv : list N * jv) : list tok := TStr (fst kv) :: TColon :: tokens_of (snd kv).

Lemma pmembers_ok m : Forall (fun kv => pv_ok (snd kv)) m -> m <> [] -> forall acc rest, exists f0, forall f, (f0 <= f)%nat ->
  pmembers f (join_comma (map mem_toks m) ++ TRBrace :: rest) acc = POk (JObj (rev acc ++ m)) rest.
Proof.
  induction 1 as [|[k v] m Hx Hm IH]; intros Hne acc rest; [congruence|]. cbn [snd] in Hx.
  destruct m as [|y m].
  - cbn [map join_comma mem_toks fst snd app]. destruct (Hx (TRBrace :: rest)) as [f0 H0]. exists (S f0). intros f Hf.
    destruct f as [|f]; [lia|]. cbn [pmembers]. rewrite H0 by lia. reflexivity.
  - change (join_comma (map mem_toks ((k, v) :: y :: m))) with (mem_toks (k, v) ++ TComma :: join_comma (map mem_toks (y :: m))).
    rewrite <- app_assoc. cbn [mem_toks fst snd app].
    destruct (Hx (TComma :: join_comma (map mem_toks (y :: m)) ++ TRBrace :: rest)) as [f0 H0].
    destruct (IH ltac:(discriminate) ((k, v) :: acc) rest) as [f1 H1].
    exists (S (Nat.max f0 f1)). intros f Hf. destruct f as [|f]; [lia|]. cbn [pmembers].
    rewrite H0 by lia. rewrite H1 by lia. cbn [rev]. rewrite <- app_assoc. reflexivity.
Qed.

Lemma pv_print d : pv_ok d.
Proof.
  induction d as [ | b | l | s | l IH | m IH ] using jv_ind'; intros rest.
  - exists 1%nat. intros [|f] Hf; [lia|]. reflexivity.
  - exists 1%nat. intros [|f] Hf; [lia|]. destruct b; reflexivity.
  - exists 1%nat. intros [|f] Hf; [lia|]. reflexivity.
  - exists 1%nat. intros [|f] Hf; [lia|]. reflexivity.
  - destruct l as [|x l].
    + exists 1%nat. intros [|f] Hf; [lia|]. reflexivity.
    + destruct (pelems_ok (x :: l) IH ltac:(discriminate) [] rest) as [f0 H0].
      exists (S f0). intros [|f] Hf; [lia|].
      cbn [tokens_of]. rewrite <- app_comm_cons, <- app_assoc. cbn [app].
      destruct (tokens_of_start x) as [t [ts [Et Hv]]].
      assert (E : exists t' ts', join_comma (map tokens_of (x :: l)) ++ TRBrack :: rest = t' :: ts' /\ vstart t').
      { destruct l; cbn [map join_comma]; rewrite Et; cbn [app]; eauto. }
      destruct E as [t' [ts' [E Hv']]]. rewrite E in *. cbn [pv].
      destruct t'; try contradiction; apply H0; lia.
  - destruct m as [|[k v] m].
    + exists 1%nat. intros [|f] Hf; [lia|]. reflexivity.
    + destruct (pmembers_ok ((k, v) :: m) IH ltac:(discriminate) [] rest) as [f0 H0].
      exists (S f0). intros [|f] Hf; [lia|].
      cbn [tokens_of]. rewrite <- app_comm_cons, <- app_assoc. cbn [app].
      change (map (fun kv => TStr (fst kv) :: TColon :: tokens_of (snd kv)) ((k, v) :: m)) with (map mem_toks ((k, v) :: m)).
      assert (E : exists ts', join_comma (map mem_toks ((k, v) :: m)) ++ TRBrace :: rest = TStr k :: ts').
      { destruct m; cbn [map join_comma mem_toks fst app]; eauto. }
      destruct E as [ts' E]. rewrite E in *. cbn [pv]. apply H0. lia.
Qed.

(* ================================================================== the token list of a DOM *)

Lemma no_adj_cons t a : is_num t = false -> no_adj_num a = true -> no_adj_num (t :: a) = true.
Proof. intros Ht Ha. cbn [no_adj_num]. rewrite Ht, Ha. reflexivity. Qed.

Lemma no_adj_sep a t b : no_adj_num a = true -> is_num t = false -> no_adj_num (t :: b) = true ->
  no_adj_num (a ++ t :: b) = true.
Proof.
  intros Ha Ht Hb. induction a as [|x a IH]; [exact Hb|].
  cbn [no_adj_num] in Ha. apply andb_true_iff in Ha. destruct Ha as [H1 H2].
  cbn [app no_adj_num]. rewrite (IH H2), andb_true_r.
  destruct a as [|y a]; cbn [app] in *; [rewrite Ht, andb_false_r; reflexivity | exact H1].
Qed.

Lemma no_adj_end a t : no_adj_num a = true -> is_num t = false -> no_adj_num (a ++ [t]) = true.
Proof. intros Ha Ht. apply no_adj_sep; [exact Ha | exact Ht |]. cbn. rewrite Ht. reflexivity. Qed.

Definition good (l : list tok) : Prop := forallb tok_okb l = true /\ no_adj_num l = true.

Lemma good_join ls : Forall good ls -> good (join_comma ls).
Proof.
  induction 1 as [|x ls Hx Hls IH]; [split; reflexivity|].
  destruct ls as [|y ls]; [exact Hx|].
  change (join_comma (x :: y :: ls)) with (x ++ TComma :: join_comma (y :: ls)).
  destruct Hx as [Hx1 Hx2]. destruct IH as [I1 I2]. split.
  - rewrite forallb_app'. cbn [forallb tok_okb]. rewrite Hx1, I1. reflexivity.
  - apply no_adj_sep; [exact Hx2 | reflexivity | apply no_adj_cons; [reflexivity | exact I2]].
Qed.

Lemma good_tokens d : jwf d -> good (tokens_of d).
Proof.
  unfold jwf. induction d as [ | b | l | s | l IH | m IH ] using jv_ind'; intros H.
  - split; reflexivity.
  - destruct b; split; reflexivity.
  - cbn in H. split; cbn; rewrite ?H; reflexivity.
  - cbn in H. split; cbn; rewrite ?H; reflexivity.
  - cbn [jwfb] in H. cbn [tokens_of].
    assert (G : good (join_comma (map tokens_of l))).
    { apply good_join. induction IH as [|x l Hx _ IHl]; [constructor|].
      cbn in H. apply andb_true_iff in H. destruct H as [H1 H2]. constructor; [apply Hx; exact H1 | apply IHl; exact H2]. }
    destruct G as [G1 G2]. split.
    + cbn [forallb tok_okb]. rewrite forallb_app', G1. reflexivity.
    + apply no_adj_cons; [reflexivity|]. apply no_adj_end; [exact G2 | reflexivity].
  - cbn [jwfb] in H. cbn [tokens_of].
    change (map (fun kv => TStr (fst kv) :: TColon :: tokens_of (snd kv)) m) with (map mem_toks m).
    assert (G : good (join_comma (map mem_toks m))).
    { apply good_join. induction IH as [|[k v] m Hx _ IHm]; [constructor|].
      cbn in H. apply andb_true_iff in H. destruct H as [H1 H2]. apply andb_true_iff in H1. destruct H1 as [Hk Hv].
      constructor; [|apply IHm; exact H2].
      cbn [snd] in Hx. destruct (Hx Hv) as [X1 X2]. unfold mem_toks. cbn [fst snd]. split.
      - cbn [forallb tok_okb]. rewrite Hk, X1. reflexivity.
      - apply no_adj_cons; [reflexivity|]. apply no_adj_cons; [reflexivity | exact X2]. }
    destruct G as [G1 G2]. split.
    + cbn [forallb tok_okb]. rewrite forallb_app', G1. reflexivity.
    + apply no_adj_cons; [reflexivity|]. apply no_adj_end; [exact G2 | reflexivity].
Qed.

(* ================================================================== theorems at the code point level *)

Lemma pv_tokens d : pv (2 * length (tokens_of d) + 2) (tokens_of d) = POk d [].
Proof.
  destruct (pv_print d []) as [f0 H0]. rewrite app_nil_r in H0.
  set (F := (2 * length (tokens_of d) + 2)%nat).
  pose proof (pv_fuel_suffices (tokens_of d)) as Hn. fold F in Hn.
  pose proof (proj1 (pv_mono F) (tokens_of d) _ (Nat.max f0 F) eq_refl Hn ltac:(lia)) as Hm.
  rewrite <- Hm. apply H0. lia.
Qed.

Theorem json_cps_ws d ws0 tws : jwf d -> map fst tws = tokens_of d ->
  forallb is_ws ws0 = true -> forallb (fun tw => forallb is_ws (snd tw)) tws = true ->
  json_parse_cps (render_ws ws0 tws) = JOk d.
Proof.
  intros Hwf Et Hw0 Hws. destruct (good_tokens d Hwf) as [G1 G2]. rewrite <- Et in G1, G2.
  unfold json_parse_cps.
  rewrite (lex_render tws ws0 _ Hw0); [| |exact G2|lia].
  - rewrite Et, pv_tokens. reflexivity.
  - clear -G1 Hws. induction tws as [|[t w] tws IH]; [reflexivity|].
    cbn in *. apply andb_true_iff in G1, Hws. destruct G1 as [A1 A2], Hws as [B1 B2].
    rewrite A1, B1, (IH B2 A2). reflexivity.
Qed.

Lemma render_compact ts : render_ws [] (map (fun t => (t, [])) ts) = flat_map tok_text ts.
Proof.
  unfold render_ws. cbn [app]. induction ts as [|t ts IH]; [reflexivity|].
  cbn. rewrite app_nil_r, IH. reflexivity.
Qed.

Lemma compact_fst (ts : list tok) : map fst (map (fun t => (t, @nil N)) ts) = ts.
Proof. rewrite map_map. cbn. apply map_id. Qed.

Lemma compact_ws (ts : list tok) : forallb (fun tw : tok * list N => forallb is_ws (snd tw)) (map (fun t => (t, [])) ts) = true.
Proof. induction ts as [|t ts IH]; [reflexivity|]. cbn. exact IH. Qed.

Theorem json_cps_parse_print d : jwf d -> json_parse_cps (json_print_cps d) = JOk d.
Proof.
  intros H. unfold json_print_cps. rewrite <- render_compact.
  apply json_cps_ws; [exact H | apply compact_fst | reflexivity | apply compact_ws].
Qed.

(* ================================================================== the byte level (UTF-8) *)

Lemma encs32_id cps : encs W32 cps = cps.
Proof. induction cps as [|c cps IH]; [reflexivity|]. cbn. unfold encs in IH. rewrite IH. reflexivity. Qed.

Lemma utf8_decode_encs cps : Forall scalar cps -> utf8_decode (encs W8 cps) = Some (Some cps).
Proof.
  intros H. unfold utf8_decode. rewrite (transcode_exact' W8 W32 ThrowError [] cps [] H). cbn.
  rewrite encs32_id. reflexivity.
Qed.

Lemma json_parse_utf8 cps : Forall scalar cps -> json_parse (encs W8 cps) = json_parse_cps cps.
Proof. intros H. unfold json_parse. rewrite (utf8_decode_encs cps H). reflexivity. Qed.

Lemma scalar_lt128 c : c < 128 -> scalar c.
Proof. intros H. unfold scalar, scalarb. lia. Qed.

Lemma forallb_Forall_scalar l : forallb scalarb l = true -> Forall scalar l.
Proof. intros H. apply Forall_forall. intros x Hx. exact (proj1 (forallb_forall _ _) H x Hx). Qed.

Lemma esc_char_scalar c : scalar c -> Forall scalar (esc_char c).
Proof.
  intros Hc. unfold esc_char.
  destruct (c =? 34); [repeat constructor|].
  destruct (c =? 92); [repeat constructor|].
  destruct (c <? 32) eqn:E; [|repeat constructor; exact Hc].
  repeat constructor; apply scalar_lt128; unfold hexdigit;
    match goal with |- context [if ?b then _ else _] => destruct b eqn:? end; lia.
Qed.

Lemma tok_text_scalar t : tok_okb t = true -> Forall scalar (tok_text t).
Proof.
  destruct t; cbn [tok_text tok_okb]; intros H; try (repeat constructor; fail).
  - constructor; [reflexivity|]. apply Forall_app. split; [|repeat constructor].
    unfold str_body. apply Forall_forall. intros x Hx. apply in_flat_map in Hx. destruct Hx as [c [Hc Hx]].
    pose proof (esc_char_scalar c (proj1 (forallb_forall _ _) H c Hc)) as Hs.
    exact (proj1 (Forall_forall _ _) Hs x Hx).
  - apply num_ok_lex in H. destruct (lex_num_split _ _ _ H) as [_ [Hn _]].
    apply Forall_forall. intros x Hx. pose proof (proj1 (forallb_forall _ _) Hn x Hx) as Hc.
    apply scalar_lt128. unfold numch, is_digit in Hc. lia.
Qed.

Lemma ws_scalar w : forallb is_ws w = true -> Forall scalar w.
Proof.
  intros H. apply Forall_forall. intros x Hx. pose proof (proj1 (forallb_forall _ _) H x Hx) as Hc.
  apply scalar_lt128. unfold is_ws in Hc. lia.
Qed.

Lemma render_scalar ws0 tws : forallb is_ws ws0 = true ->
  forallb (fun tw => tok_okb (fst tw) && forallb is_ws (snd tw)) tws = true ->
  Forall scalar (render_ws ws0 tws).
Proof.
  intros H0 H. unfold render_ws. apply Forall_app. split; [apply ws_scalar; exact H0|].
  apply Forall_forall. intros x Hx. apply in_flat_map in Hx. destruct Hx as [[t w] [Hin Hx]].
  pose proof (proj1 (forallb_forall _ _) H _ Hin) as Ht. cbn [fst snd] in *. apply andb_true_iff in Ht. destruct Ht as [Ht Hw].
  apply in_app_or in Hx. destruct Hx as [Hx|Hx].
  - exact (proj1 (Forall_forall _ _) (tok_text_scalar t Ht) x Hx).
  - exact (proj1 (Forall_forall _ _) (ws_scalar w Hw) x Hx).
Qed.

Theorem json_ws_invariance d ws0 tws : jwf d -> map fst tws = tokens_of d ->
  forallb is_ws ws0 = true -> forallb (fun tw => forallb is_ws (snd tw)) tws = true ->
  json_parse (encs W8 (render_ws ws0 tws)) = JOk d /\ json_parse (json_print d) = JOk d.
Proof.
  intros Hwf Et Hw0 Hws.
  assert (Hc : forall ws0' tws', map fst tws' = tokens_of d -> forallb is_ws ws0' = true ->
             forallb (fun tw => forallb is_ws (snd tw)) tws' = true ->
             json_parse (encs W8 (render_ws ws0' tws')) = JOk d).
  { intros ws0' tws' Et' Hw0' Hws'. rewrite json_parse_utf8; [apply json_cps_ws; assumption|].
    apply render_scalar; [exact Hw0'|].
    destruct (good_tokens d Hwf) as [G1 _]. rewrite <- Et' in G1. clear -G1 Hws'.
    induction tws' as [|[t w] tws IH]; [reflexivity|].
    cbn in *. apply andb_true_iff in G1, Hws'. destruct G1 as [A1 A2], Hws' as [B1 B2].
    rewrite A1, B1, (IH B2 A2). reflexivity. }
  split; [apply Hc; assumption|].
  unfold json_print, json_print_cps. rewrite <- render_compact. apply Hc; [apply compact_fst | reflexivity | apply compact_ws].
Qed.

Theorem json_parse_print d : jwf d -> json_parse (json_print d) = JOk d.
Proof.
  intros H.
  exact (proj2 (json_ws_invariance d [] (map (fun t => (t, [])) (tokens_of d)) H (compact_fst _) eq_refl (compact_ws _))).
Qed.

(* ================================================================== no fuel is ever exhausted *)

Lemma lcons_fuel t r : r <> LFuel -> lcons t r <> LFuel.
Proof. destruct r; cbn; congruence. Qed.

Lemma lex_fuel_suffices fuel : forall s, (length s < fuel)%nat -> lex fuel s <> LFuel.
Proof.
  induction fuel as [|f IH]; intros s Hf; [lia|].
  cbn [lex]. destruct s as [|c r]; [discriminate|]. cbn [length] in Hf.
  destruct (is_ws c); [apply IH; lia|].
  repeat match goal with
  | |- (if ?b then _ else _) <> _ => destruct b; [try (apply lcons_fuel, IH; lia)|]
  end; try discriminate.
  - destruct (lex_str SN [] r) as [[v r']|] eqn:E; [|discriminate]. apply lex_str_shorter in E. apply lcons_fuel, IH. lia.
  - destruct (strip_prefix _ r) as [r'|] eqn:E; [|discriminate]. apply strip_prefix_len in E. apply lcons_fuel, IH. lia.
  - destruct (strip_prefix _ r) as [r'|] eqn:E; [|discriminate]. apply strip_prefix_len in E. apply lcons_fuel, IH. lia.
  - destruct (strip_prefix _ r) as [r'|] eqn:E; [|discriminate]. apply strip_prefix_len in E. apply lcons_fuel, IH. lia.
  - destruct (lex_num (c :: r)) as [[l r']|] eqn:E; [|discriminate].
    destruct (lex_num_split _ _ _ E) as [Es [_ [c' [l' [-> _]]]]].
    apply lcons_fuel, IH. apply (f_equal (@length N)) in Es. rewrite app_length in Es. cbn in Es. lia.
Qed.

Theorem json_parse_cps_total s : json_parse_cps s <> JFuel.
Proof.
  unfold json_parse_cps. pose proof (lex_fuel_suffices (S (length s)) s ltac:(lia)) as H.
  destruct (lex (S (length s)) s) as [ts| |]; try discriminate; [|congruence].
  pose proof (pv_fuel_suffices ts) as H2.
  destruct (pv (2 * length ts + 2) ts) as [v [|? ?]| |]; try discriminate. congruence.
Qed.

Theorem json_parse_total bytes : Forall (fun b => b < 256) bytes -> json_parse bytes <> JFuel.
Proof.
  intros Hb. unfold json_parse, utf8_decode.
  destruct (transcode_in_bounds W8 W32 ThrowError [] bytes [] Hb) as [_ [Hc _]].
  destruct (r_code (transcode W8 W32 ThrowError [] bytes [])); try discriminate; [apply json_parse_cps_total | congruence].
Qed.
