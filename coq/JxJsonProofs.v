(* JxJsonProofs.v — the RFC 8259 reference syntax: the parser reads back what the printer writes
   (for every well-formed DOM), whitespace between tokens is irrelevant, no fuel is ever exhausted. *)
From BS Require Import Base UtfSpec UtfModel UtfLemmas UtfProofs JxJsonSpec.
From Coq Require Import ZifyBool ZifyN ZifyNat.
Local Open Scope N_scope.
Ltac Zify.zify_post_hook ::= Z.div_mod_to_equations.

(* ================================================================== numbers *)

(* what may follow a number lexeme without being absorbed into it *)
Definition nd (rest : list N) : Prop := match rest with [] => True | c :: _ => is_digit c = false end.
Definition stops (rest : list N) : bool :=
  match rest with [] => true | c :: _ => negb (is_digit c || (c =? 46) || (c =? 101) || (c =? 69)) end.

Lemma stops_nd rest : stops rest = true -> nd rest.
Proof. destruct rest as [|c r]; cbn; [trivial|]. intros H. destruct (is_digit c); [discriminate|reflexivity]. Qed.

Lemma span_digits_app s : forall d r rest, span_digits s = (d, r) -> (r = [] -> nd rest) ->
  span_digits (s ++ rest) = (d, r ++ rest).
Proof.
  induction s as [|c s IH]; intros d r rest H Hr.
  - cbn in H. inversion H; subst. cbn. specialize (Hr eq_refl). destruct rest as [|c rest]; [reflexivity|].
    cbn in Hr |- *. rewrite Hr. reflexivity.
  - cbn in H |- *. destruct (is_digit c) eqn:E.
    + destruct (span_digits s) as [d' r'] eqn:Es. inversion H; subst.
      rewrite (IH d' r rest eq_refl Hr). reflexivity.
    + inversion H; subst. reflexivity.
Qed.

Lemma span_digits_split s : forall d r, span_digits s = (d, r) -> s = d ++ r /\ forallb is_digit d = true.
Proof.
  induction s as [|c s IH]; intros d r H; cbn in H.
  - inversion H; subst. split; reflexivity.
  - destruct (is_digit c) eqn:E.
    + destruct (span_digits s) as [d' r'] eqn:Es. inversion H; subst.
      destruct (IH d' r eq_refl) as [-> Hd]. split; [reflexivity|]. cbn. rewrite E, Hd. reflexivity.
    + inversion H; subst. split; reflexivity.
Qed.

Lemma lex_int_app s i r rest : lex_int s = Some (i, r) -> (r = [] -> nd rest) ->
  lex_int (s ++ rest) = Some (i, r ++ rest).
Proof.
  destruct s as [|c s]; cbn; [discriminate|]. intros H Hr.
  destruct (c =? 48); [inversion H; subst; reflexivity|].
  destruct (is_digit c); [|discriminate].
  destruct (span_digits s) as [d r'] eqn:Es. inversion H; subst.
  rewrite (span_digits_app s d r rest Es Hr). reflexivity.
Qed.

Lemma lex_frac_app s f r rest : lex_frac s = Some (f, r) -> (r = [] -> stops rest = true) ->
  lex_frac (s ++ rest) = Some (f, r ++ rest).
Proof.
  destruct s as [|c s]; cbn; intros H Hr.
  - inversion H; subst. specialize (Hr eq_refl). destruct rest as [|c rest]; [reflexivity|].
    cbn in Hr |- *. destruct (c =? 46); [|reflexivity]. rewrite !orb_true_r in Hr. cbn in Hr.
    destruct (is_digit c); discriminate.
  - destruct (c =? 46).
    + destruct (span_digits s) as [d r'] eqn:Es. destruct d as [|d0 d]; [discriminate|]. inversion H; subst.
      rewrite (span_digits_app s (d0 :: d) r rest Es (fun E => stops_nd _ (Hr E))). reflexivity.
    + inversion H; subst. reflexivity.
Qed.

Lemma lex_exp_app s e r rest : lex_exp s = Some (e, r) -> (r = [] -> stops rest = true) ->
  lex_exp (s ++ rest) = Some (e, r ++ rest).
Proof.
  destruct s as [|c s]; cbn; intros H Hr.
  - inversion H; subst. specialize (Hr eq_refl). destruct rest as [|c rest]; [reflexivity|].
    cbn in Hr |- *. destruct ((c =? 101) || (c =? 69)) eqn:E; [|reflexivity].
    exfalso. destruct (is_digit c), (c =? 46), (c =? 101), (c =? 69); cbn in *; discriminate.
  - destruct ((c =? 101) || (c =? 69)).
    + destruct s as [|c2 s2].
      * cbn in H. discriminate.
      * cbn [app]. destruct ((c2 =? 43) || (c2 =? 45)).
        -- destruct (span_digits s2) as [d r'] eqn:Es. destruct d as [|d0 d]; [discriminate|]. inversion H; subst.
           rewrite (span_digits_app s2 (d0 :: d) r rest Es (fun E => stops_nd _ (Hr E))). reflexivity.
        -- destruct (span_digits (c2 :: s2)) as [d r'] eqn:Es. destruct d as [|d0 d]; [discriminate|]. inversion H; subst.
           change (c2 :: s2 ++ rest) with ((c2 :: s2) ++ rest).
           rewrite (span_digits_app (c2 :: s2) (d0 :: d) r rest Es (fun E => stops_nd _ (Hr E))). reflexivity.
    + inversion H; subst. reflexivity.
Qed.

Lemma lex_frac_nil_rest s f : lex_frac s = Some (f, []) -> lex_exp [] = Some ([], []).
Proof. reflexivity. Qed.

Lemma lex_num_app s l r rest : lex_num s = Some (l, r) -> (r = [] -> stops rest = true) ->
  lex_num (s ++ rest) = Some (l, r ++ rest).
Proof.
  unfold lex_num. intros H Hr.
  assert (G : forall s1 l1, match lex_int s1 with
     | None => None
     | Some (i, s2) => match lex_frac s2 with None => None | Some (f, s3) =>
         match lex_exp s3 with None => None | Some (e, s4) => Some (l1 ++ i ++ f ++ e, s4) end end end = Some (l, r) ->
     match lex_int (s1 ++ rest) with
     | None => None
     | Some (i, s2) => match lex_frac s2 with None => None | Some (f, s3) =>
         match lex_exp s3 with None => None | Some (e, s4) => Some (l1 ++ i ++ f ++ e, s4) end end end = Some (l, r ++ rest)).
  { intros s1 l1 H1.
    destruct (lex_int s1) as [[i s2]|] eqn:Ei; [|discriminate].
    destruct (lex_frac s2) as [[f s3]|] eqn:Ef; [|discriminate].
    destruct (lex_exp s3) as [[e s4]|] eqn:Ee; [|discriminate].
    inversion H1; subst.
    assert (H3 : s3 = [] -> stops rest = true).
    { intros ->. cbn in Ee. inversion Ee; subst. apply Hr. reflexivity. }
    assert (H2 : s2 = [] -> nd rest).
    { intros ->. cbn in Ef. inversion Ef; subst. apply stops_nd, H3. reflexivity. }
    rewrite (lex_int_app _ _ _ rest Ei H2), (lex_frac_app _ _ _ rest Ef H3), (lex_exp_app _ _ _ rest Ee Hr).
    reflexivity. }
  destruct s as [|c s].
  - cbn in H. discriminate.
  - cbn [app]. destruct (c =? 45).
    + apply (G s [45]). exact H.
    + change (c :: s ++ rest) with ((c :: s) ++ rest). apply (G (c :: s) []). exact H.
Qed.

(* the lexeme is the consumed prefix, it is not empty, it is ASCII and starts with minus or a digit *)
Lemma lex_int_split s i r : lex_int s = Some (i, r) ->
  s = i ++ r /\ i <> [] /\ forallb is_digit i = true.
Proof.
  destruct s as [|c s]; cbn; [discriminate|]. intros H.
  destruct (c =? 48) eqn:E0.
  - inversion H; subst. apply N.eqb_eq in E0. subst. repeat split. discriminate.
  - destruct (is_digit c) eqn:Ed; [|discriminate].
    destruct (span_digits s) as [d r'] eqn:Es. inversion H; subst.
    destruct (span_digits_split _ _ _ Es) as [-> Hd]. repeat split; [discriminate|]. cbn. rewrite Ed, Hd. reflexivity.
Qed.

Definition numch (c : N) : bool := is_digit c || (c =? 43) || (c =? 45) || (c =? 46) || (c =? 101) || (c =? 69).

Lemma digits_numch d : forallb is_digit d = true -> forallb numch d = true.
Proof.
  induction d as [|c d IH]; cbn; [reflexivity|]. intros H. apply andb_true_iff in H. destruct H as [H1 H2].
  rewrite (IH H2). unfold numch. rewrite H1. reflexivity.
Qed.

Lemma lex_frac_split s f r : lex_frac s = Some (f, r) -> s = f ++ r /\ forallb numch f = true.
Proof.
  destruct s as [|c s]; cbn; intros H.
  - inversion H; subst. split; reflexivity.
  - destruct (c =? 46) eqn:E.
    + destruct (span_digits s) as [d r'] eqn:Es. destruct d as [|d0 d]; [discriminate|]. inversion H; subst.
      destruct (span_digits_split _ _ _ Es) as [-> Hd]. apply N.eqb_eq in E. subst. split; [reflexivity|].
      change (numch 46 && forallb numch (d0 :: d) = true).
      rewrite (digits_numch _ Hd). reflexivity.
    + inversion H; subst. split; reflexivity.
Qed.

Lemma lex_exp_split s e r : lex_exp s = Some (e, r) -> s = e ++ r /\ forallb numch e = true.
Proof.
  destruct s as [|c s]; cbn; intros H.
  - inversion H; subst. split; reflexivity.
  - destruct ((c =? 101) || (c =? 69)) eqn:E.
    + assert (Hc : numch c = true). { unfold numch. destruct (c =? 101), (c =? 69); try discriminate; rewrite ?orb_true_r; reflexivity. }
      destruct s as [|c2 s2]; [cbn in H; discriminate|].
      destruct ((c2 =? 43) || (c2 =? 45)) eqn:E2.
      * assert (Hc2 : numch c2 = true). { unfold numch. destruct (c2 =? 43), (c2 =? 45); try discriminate; rewrite ?orb_true_r; reflexivity. }
        destruct (span_digits s2) as [d r'] eqn:Es. destruct d as [|d0 d]; [discriminate|]. inversion H; subst.
        destruct (span_digits_split _ _ _ Es) as [-> Hd]. split; [reflexivity|].
        change (numch c && (numch c2 && forallb numch (d0 :: d)) = true).
        rewrite Hc, Hc2, (digits_numch _ Hd). reflexivity.
      * destruct (span_digits (c2 :: s2)) as [d r'] eqn:Es. destruct d as [|d0 d]; [discriminate|]. inversion H; subst.
        destruct (span_digits_split _ _ _ Es) as [E' Hd]. split; [cbn [app]; rewrite E'; reflexivity|].
        change (numch c && forallb numch (d0 :: d) = true).
        rewrite Hc, (digits_numch _ Hd). reflexivity.
    + inversion H; subst. split; reflexivity.
Qed.

Lemma forallb_app' {A} (p : A -> bool) a b : forallb p (a ++ b) = forallb p a && forallb p b.
Proof. induction a as [|x a IH]; cbn; [reflexivity|]. rewrite IH, andb_assoc. reflexivity. Qed.

Lemma lex_num_split s l r : lex_num s = Some (l, r) ->
  s = l ++ r /\ forallb numch l = true /\
  exists c l', l = c :: l' /\ ((c =? 45) || is_digit c) = true.
Proof.
  unfold lex_num. intros H.
  assert (G : forall s1 l1, match lex_int s1 with
     | None => None
     | Some (i, s2) => match lex_frac s2 with None => None | Some (f, s3) =>
         match lex_exp s3 with None => None | Some (e, s4) => Some (l1 ++ i ++ f ++ e, s4) end end end = Some (l, r) ->
     exists i f e, l = l1 ++ i ++ f ++ e /\ s1 = i ++ f ++ e ++ r /\ forallb numch (i ++ f ++ e) = true /\
       exists c i', i = c :: i' /\ is_digit c = true).
  { intros s1 l1 H1.
    destruct (lex_int s1) as [[i s2]|] eqn:Ei; [|discriminate].
    destruct (lex_frac s2) as [[f s3]|] eqn:Ef; [|discriminate].
    destruct (lex_exp s3) as [[e s4]|] eqn:Ee; [|discriminate].
    inversion H1; subst.
    destruct (lex_int_split _ _ _ Ei) as [-> [Hi Hdi]].
    destruct (lex_frac_split _ _ _ Ef) as [-> Hf].
    destruct (lex_exp_split _ _ _ Ee) as [-> He].
    exists i, f, e. repeat split.
    - rewrite !forallb_app', (digits_numch _ Hdi), Hf, He. reflexivity.
    - destruct i as [|c i']; [congruence|]. exists c, i'. split; [reflexivity|].
      cbn in Hdi. apply andb_true_iff in Hdi. tauto. }
  destruct s as [|c s].
  - cbn in H. discriminate.
  - destruct (c =? 45) eqn:E.
    + destruct (G s [45] H) as [i [f [e [-> [-> [Hn _]]]]]]. apply N.eqb_eq in E. subst.
      split; [cbn [app]; rewrite <- !app_assoc; reflexivity|]. split.
      * change (numch 45 && forallb numch (i ++ f ++ e) = true). rewrite Hn. reflexivity.
      * exists 45, (i ++ f ++ e). split; reflexivity.
    + destruct (G (c :: s) [] H) as [i [f [e [-> [E' [Hn [c' [i' [-> Hd]]]]]]]]].
      split; [cbn [app]; rewrite E'; cbn [app]; rewrite <- !app_assoc; reflexivity|]. split; [exact Hn|].
      exists c', (i' ++ f ++ e). split; [reflexivity|]. rewrite Hd. apply orb_true_r.
Qed.

Lemma num_ok_lex l : num_ok l = true -> lex_num l = Some (l, []).
Proof.
  unfold num_ok. destruct (lex_num l) as [[l' r]|] eqn:E; [|discriminate].
  destruct r; [|discriminate]. intros _. destruct (lex_num_split _ _ _ E) as [H _]. rewrite app_nil_r in H. congruence.
Qed.

Lemma num_ok_stops l rest : num_ok l = true -> stops rest = true -> lex_num (l ++ rest) = Some (l, rest).
Proof.
  intros H Hs. apply num_ok_lex in H. apply (lex_num_app l l [] rest H). intros _. exact Hs.
Qed.

(* ================================================================== strings *)

Lemma scalarb_lt32 c : c < 32 -> scalarb c = true.
Proof. intros H. unfold scalarb. lia. Qed.

(* the escape sequence of a control character is read back as that character *)
Lemma esc_ctl c out X : c < 32 ->
  lex_str SN out ([92; 117; 48; 48; hexdigit (c / 16); hexdigit (c mod 16)] ++ X) = lex_str SN (c :: out) X.
Proof.
  intros H.
  destruct c as [|p]; [reflexivity|].
  destruct p as [p|p|]; [| |reflexivity];
  (destruct p as [p|p|]; [| |reflexivity]);
  (destruct p as [p|p|]; [| |reflexivity]);
  (destruct p as [p|p|]; [| |reflexivity]);
  (destruct p as [p|p|]; [| |reflexivity]); exfalso; lia.
Qed.

Lemma lex_str_print s : forall out rest, forallb scalarb s = true ->
  lex_str SN out (str_body s ++ 34 :: rest) = Some (rev out ++ s, rest).
Proof.
  induction s as [|c s IH]; intros out rest Hs.
  - cbn. rewrite app_nil_r. reflexivity.
  - cbn in Hs. apply andb_true_iff in Hs. destruct Hs as [Hc Hs].
    change (str_body (c :: s)) with (esc_char c ++ str_body s). rewrite <- app_assoc.
    assert (R : rev out ++ c :: s = rev (c :: out) ++ s). { cbn. rewrite <- app_assoc. reflexivity. }
    rewrite R. rewrite <- (IH (c :: out) rest Hs).
    unfold esc_char.
    destruct (c =? 34) eqn:E1.
    { apply N.eqb_eq in E1. subst. reflexivity. }
    destruct (c =? 92) eqn:E2.
    { apply N.eqb_eq in E2. subst. reflexivity. }
    destruct (c <? 32) eqn:E3.
    { apply esc_ctl. lia. }
    cbn [app lex_str]. rewrite E1, E2, E3, Hc. reflexivity.
Qed.

Lemma lex_str_shorter s : forall st out v r, lex_str st out s = Some (v, r) -> (length r < length s)%nat.
Proof.
  induction s as [|c s IH]; intros st out v r H; [discriminate|].
  cbn [length]. destruct st; cbn [lex_str] in H.
  - destruct (c =? 34). { inversion H; subst. lia. }
    destruct (c =? 92). { apply IH in H. lia. }
    destruct (c <? 32); [discriminate|]. destruct (scalarb c); [|discriminate]. apply IH in H. lia.
  - repeat match type of H with (if ?b then _ else _) = _ => destruct b; [apply IH in H; lia|] end. discriminate.
  - destruct (hexval c); [|discriminate]. destruct k. 
    + destruct (is_hi _). { apply IH in H. lia. } destruct (is_lo _); [discriminate|]. apply IH in H. lia.
    + apply IH in H. lia.
  - destruct (c =? 92); [|discriminate]. apply IH in H. lia.
  - destruct (c =? 117); [|discriminate]. apply IH in H. lia.
  - destruct (hexval c); [|discriminate]. destruct k.
    + destruct (is_lo _); [|discriminate]. apply IH in H. lia.
    + apply IH in H. lia.
Qed.

(* ================================================================== lexer *)

Definition tok_okb (t : tok) : bool :=
  match t with TStr s => forallb scalarb s | TNum l => num_ok l | _ => true end.

Definition is_num (t : tok) : bool := match t with TNum _ => true | _ => false end.

Fixpoint no_adj_num (ts : list tok) : bool :=
  match ts with
  | [] => true
  | t :: r => negb (is_num t && match r with t2 :: _ => is_num t2 | [] => false end) && no_adj_num r
  end.

Lemma strip_prefix_app p X : strip_prefix p (p ++ X) = Some X.
Proof. induction p as [|a p IH]; cbn; [reflexivity|]. rewrite N.eqb_refl. exact IH. Qed.

Lemma strip_prefix_len p : forall s r, strip_prefix p s = Some r -> (length r <= length s)%nat.
Proof.
  induction p as [|a p IH]; intros s r H; cbn in H.
  - inversion H; subst. lia.
  - destruct s as [|b s]; [discriminate|]. destruct (a =? b); [|discriminate]. apply IH in H. cbn. lia.
Qed.

Lemma lex_skip_ws w : forall f s, forallb is_ws w = true -> lex (length w + f) (w ++ s) = lex f s.
Proof.
  induction w as [|c w IH]; intros f s H; [reflexivity|].
  cbn in H. apply andb_true_iff in H. destruct H as [Hc Hw].
  cbn [length app Nat.add lex]. rewrite Hc. apply IH. exact Hw.
Qed.

Lemma lex_num_branch f c s : ((c =? 45) || is_digit c) = true ->
  lex (S f) (c :: s) = match lex_num (c :: s) with Some (l, r') => lcons (TNum l) (lex f r') | None => LErr end.
Proof.
  intros H. cbn [lex].
  assert (E0 : is_ws c = false) by (unfold is_ws, is_digit in *; lia).
  assert (E1 : (c =? 123) = false) by (unfold is_digit in *; lia).
  assert (E2 : (c =? 125) = false) by (unfold is_digit in *; lia).
  assert (E3 : (c =? 91) = false) by (unfold is_digit in *; lia).
  assert (E4 : (c =? 93) = false) by (unfold is_digit in *; lia).
  assert (E5 : (c =? 44) = false) by (unfold is_digit in *; lia).
  assert (E6 : (c =? 58) = false) by (unfold is_digit in *; lia).
  assert (E7 : (c =? 34) = false) by (unfold is_digit in *; lia).
  assert (E8 : (c =? 110) = false) by (unfold is_digit in *; lia).
  assert (E9 : (c =? 116) = false) by (unfold is_digit in *; lia).
  assert (E10 : (c =? 102) = false) by (unfold is_digit in *; lia).
  rewrite E0, E1, E2, E3, E4, E5, E6, E7, E8, E9, E10, H. reflexivity.
Qed.

Lemma render_cons ws0 t w tws : render_ws ws0 ((t, w) :: tws) = ws0 ++ tok_text t ++ render_ws w tws.
Proof. unfold render_ws. cbn. rewrite <- app_assoc. reflexivity. Qed.

(* the first character of the text that follows a number token *)
Lemma stops_render w tws : forallb is_ws w = true ->
  match tws with (t2, _) :: _ => is_num t2 = false | [] => True end ->
  forallb (fun tw => tok_okb (fst tw)) tws = true ->
  stops (render_ws w tws) = true.
Proof.
  intros Hw Hn Hok. destruct w as [|c w].
  - destruct tws as [|[t2 w2] tws]; [reflexivity|]. rewrite render_cons. cbn [app].
    destruct t2; try reflexivity. discriminate.
  - cbn in Hw. apply andb_true_iff in Hw. destruct Hw as [Hc _].
    unfold render_ws. cbn [app stops]. unfold is_ws, is_digit in *. lia.
Qed.

Lemma tok_text_nonempty t : tok_okb t = true -> (0 < length (tok_text t))%nat.
Proof.
  destruct t; cbn; try lia. intros H. apply num_ok_lex in H. destruct (lex_num_split _ _ _ H) as [_ [_ [c [l' [-> _]]]]].
  cbn. lia.
Qed.

Lemma lex_render tws : forall ws0 fuel,
  forallb is_ws ws0 = true ->
  forallb (fun tw => tok_okb (fst tw) && forallb is_ws (snd tw)) tws = true ->
  no_adj_num (map fst tws) = true ->
  (length (render_ws ws0 tws) < fuel)%nat ->
  lex fuel (render_ws ws0 tws) = LOk (map fst tws).
Proof.
  induction tws as [|[t w] tws IH]; intros ws0 fuel Hw0 Hok Hadj Hf.
  - unfold render_ws in *. cbn [flat_map] in *. rewrite app_nil_r in *.
    pose proof (lex_skip_ws ws0 (fuel - length ws0) [] Hw0) as Hs. rewrite app_nil_r in Hs.
    replace (length ws0 + (fuel - length ws0))%nat with fuel in Hs by lia. rewrite Hs.
    destruct (fuel - length ws0)%nat eqn:E; [lia|]. reflexivity.
  - rewrite render_cons in *. rewrite !app_length in Hf.
    cbn [forallb fst snd] in Hok. apply andb_true_iff in Hok. destruct Hok as [Ht Hok].
    apply andb_true_iff in Ht. destruct Ht as [Ht Hw].
    cbn [map fst no_adj_num] in Hadj. apply andb_true_iff in Hadj. destruct Hadj as [Hadj1 Hadj].
    pose proof (tok_text_nonempty t Ht) as Hne.
    replace fuel with (length ws0 + (fuel - length ws0))%nat by lia.
    rewrite (lex_skip_ws ws0 _ _ Hw0).
    destruct (fuel - length ws0)%nat as [|f] eqn:E; [lia|].
    assert (Hf' : (length (render_ws w tws) < f)%nat) by lia.
    specialize (IH w f Hw Hok Hadj Hf').
    cbn [map fst].
    assert (Hok' : forallb (fun tw => tok_okb (fst tw)) tws = true).
    { clear -Hok. induction tws as [|x tws IH]; [reflexivity|]. cbn in *. apply andb_true_iff in Hok.
      destruct Hok as [H1 H2]. apply andb_true_iff in H1. destruct H1 as [H1 _]. rewrite H1, (IH H2). reflexivity. }
    set (X := render_ws w tws) in *.
    destruct t; cbn [tok_text app];
      try (cbn [lex]; cbn; rewrite ?strip_prefix_app; rewrite IH; reflexivity).
    + (* string *)
      cbn [lex]. change (is_ws 34) with false. cbv iota.
      change (34 =? 123) with false. change (34 =? 125) with false. change (34 =? 91) with false.
      change (34 =? 93) with false. change (34 =? 44) with false. change (34 =? 58) with false.
      change (34 =? 34) with true. cbv iota.
      rewrite <- app_assoc. cbn [app]. cbn [tok_okb] in Ht. rewrite (lex_str_print s [] X Ht). cbn [rev app].
      rewrite IH. reflexivity.
    + (* number *)
      cbn [tok_okb] in Ht. pose proof (num_ok_lex _ Ht) as Hl.
      destruct (lex_num_split _ _ _ Hl) as [_ [_ [c [l' [El Hc]]]]]. subst l.
      cbn [app]. rewrite (lex_num_branch f c (l' ++ X) Hc).
      change (c :: l' ++ X) with ((c :: l') ++ X).
      rewrite (num_ok_stops (c :: l') X Ht).
      * rewrite IH. reflexivity.
      * apply stops_render; [exact Hw| |exact Hok'].
        destruct tws as [|[t2 w2] tws]; [trivial|]. cbn [map fst] in Hadj1. cbn [is_num andb negb] in Hadj1.
        destruct (is_num t2); [discriminate|reflexivity].
Qed.
