(* JxJsonSound.v — the reference JSON parser accepts exactly the RFC 8259 texts: a generative description of all
   renderings of a DOM (free white space, free choice among the RFC's spellings of every string character; a number is
   its lexeme, which the DOM carries) and the two directions: every rendering is parsed to the DOM, and whatever is
   parsed to a DOM is one of its renderings. *)
From BS Require Import Base UtfSpec UtfModel JxJsonSpec JxJsonProofs.
From Coq Require Import ZifyBool ZifyN ZifyNat.
Local Open Scope N_scope.
Ltac Zify.zify_post_hook ::= Z.div_mod_to_equations.

(* ================================================================== the renderings (RFC 8259 sections 2, 6, 7) *)

Definition hex4 (a b c d : N) : option N :=
  match hexval a, hexval b, hexval c, hexval d with
  | Some x, Some y, Some z, Some w => Some (((x * 16 + y) * 16 + z) * 16 + w)
  | _, _, _, _ => None
  end.

(* two-character escapes: reverse solidus followed by quotation mark, reverse solidus, solidus, b, f, n, r, t *)
Definition short_esc (e : N) : option N :=
  if e =? 34 then Some 34 else if e =? 92 then Some 92 else if e =? 47 then Some 47
  else if e =? 98 then Some 8 else if e =? 102 then Some 12 else if e =? 110 then Some 10
  else if e =? 114 then Some 13 else if e =? 116 then Some 9 else None.

(* the spellings of one code point inside a string *)
Inductive cp_spells : N -> list N -> Prop :=
| sp_lit c : (c =? 34) = false -> (c =? 92) = false -> (c <? 32) = false -> scalarb c = true -> cp_spells c [c]
| sp_short e c : short_esc e = Some c -> cp_spells c [92; e]
| sp_u a b c d u : hex4 a b c d = Some u -> is_hi u = false -> is_lo u = false -> cp_spells u [92; 117; a; b; c; d]
| sp_pair a b c d a' b' c' d' hi lo : hex4 a b c d = Some hi -> is_hi hi = true -> hex4 a' b' c' d' = Some lo -> is_lo lo = true ->
    cp_spells (pair_cp hi lo) [92; 117; a; b; c; d; 92; 117; a'; b'; c'; d'].

Inductive str_spells : list N -> list N -> Prop :=
| ss_nil : str_spells [] []
| ss_cons c p v body : cp_spells c p -> str_spells v body -> str_spells (c :: v) (p ++ body).

(* the spellings of a token *)
Inductive tok_spells : tok -> list N -> Prop :=
| ts_str v body : str_spells v body -> tok_spells (TStr v) (34 :: body ++ [34])
| ts_num l : num_ok l = true -> tok_spells (TNum l) l
| ts_fix t : (match t with TStr _ | TNum _ => False | _ => True end) -> tok_spells t (tok_text t).

(* a text made of the given tokens: white space anywhere between them *)
Inductive jtext : list N -> list tok -> Prop :=
| jt_nil : jtext [] []
| jt_ws c s ts : is_ws c = true -> jtext s ts -> jtext (c :: s) ts
| jt_tok t p s ts : tok_spells t p -> jtext s ts -> jtext (p ++ s) (t :: ts).

(* the renderings of a DOM *)
Definition renders (s : list N) (d : jv) : Prop := jtext s (tokens_of d).

(* ================================================================== strings: the reader is sound *)

Lemma hex4_some a b c d u : hex4 a b c d = Some u ->
  exists x y z w, hexval a = Some x /\ hexval b = Some y /\ hexval c = Some z /\ hexval d = Some w /\ u = ((x * 16 + y) * 16 + z) * 16 + w.
Proof.
  unfold hex4. destruct (hexval a) as [x|]; [|discriminate]. destruct (hexval b) as [y|]; [|discriminate].
  destruct (hexval c) as [z|]; [|discriminate]. destruct (hexval d) as [w|]; [|discriminate]. intros H. inversion H.
  exists x, y, z, w. repeat split.
Qed.

(* reading the four digits of a u-escape *)
Lemma lex_u_step out a b c d s : lex_str (SU 3 0) out (a :: b :: c :: d :: s) =
  match hex4 a b c d with
  | Some u => if is_hi u then lex_str (SL0 u) out s else if is_lo u then None else lex_str SN (u :: out) s
  | None => None
  end.
Proof.
  unfold hex4. cbn [lex_str]. destruct (hexval a) as [x|]; [|reflexivity]. cbn [lex_str].
  destruct (hexval b) as [y|]; [|reflexivity]. cbn [lex_str]. destruct (hexval c) as [z|]; [|reflexivity]. cbn [lex_str].
  destruct (hexval d) as [w|]; [|reflexivity]. replace (0 * 16 + x) with x by lia. reflexivity.
Qed.

Lemma lex_lu_step hi out a b c d s : lex_str (SLU hi 3 0) out (a :: b :: c :: d :: s) =
  match hex4 a b c d with
  | Some u => if is_lo u then lex_str SN (pair_cp hi u :: out) s else None
  | None => None
  end.
Proof.
  unfold hex4. cbn [lex_str]. destruct (hexval a) as [x|]; [|reflexivity]. cbn [lex_str].
  destruct (hexval b) as [y|]; [|reflexivity]. cbn [lex_str]. destruct (hexval c) as [z|]; [|reflexivity]. cbn [lex_str].
  destruct (hexval d) as [w|]; [|reflexivity]. replace (0 * 16 + x) with x by lia. reflexivity.
Qed.

Lemma lex_esc_u out s : lex_str SN out (92 :: 117 :: s) = lex_str (SU 3 0) out s.
Proof. reflexivity. Qed.
Lemma lex_l0_u hi out s : lex_str (SL0 hi) out (92 :: 117 :: s) = lex_str (SLU hi 3 0) out s.
Proof. reflexivity. Qed.

(* completeness of the string reader: every spelling is read *)
Lemma lex_str_spells v body : str_spells v body -> forall out rest,
  lex_str SN out (body ++ 34 :: rest) = Some (rev out ++ v, rest).
Proof.
  induction 1 as [|c p v body Hc _ IH]; intros out rest.
  - cbn. rewrite app_nil_r. reflexivity.
  - assert (R : rev out ++ c :: v = rev (c :: out) ++ v) by (cbn; rewrite <- app_assoc; reflexivity).
    rewrite R, <- (IH (c :: out) rest), <- app_assoc.
    destruct Hc as [c H1 H2 H3 H4 | e c He | a b c' d u Hu Hh Hl | a b c' d a' b' c'' d' hi lo Hhi Hh Hlo Hl].
    + cbn [app lex_str]. rewrite H1, H2, H3, H4. reflexivity.
    + cbn [app lex_str]. change (92 =? 34) with false. change (92 =? 92) with true. cbv iota.
      unfold short_esc in He.
      repeat match type of He with (if ?b then _ else _) = _ => destruct b eqn:?; [inversion He; subst; reflexivity|] end. discriminate.
    + cbn [app]. rewrite lex_esc_u, lex_u_step, Hu, Hh, Hl. reflexivity.
    + cbn [app]. rewrite lex_esc_u, lex_u_step, Hhi, Hh, lex_l0_u, lex_lu_step, Hlo, Hl. reflexivity.
Qed.

Lemma short_list_u out s v r : (length s < 4)%nat -> lex_str (SU 3 0) out s <> Some (v, r).
Proof.
  intros Hl. destruct s as [|a [|b [|c [|d s]]]]; cbn [length] in Hl; try lia; cbn [lex_str];
    repeat match goal with |- context [hexval ?x] => destruct (hexval x); cbn [lex_str] end; discriminate.
Qed.

Lemma short_list_lu hi out s v r : (length s < 4)%nat -> lex_str (SLU hi 3 0) out s <> Some (v, r).
Proof.
  intros Hl. destruct s as [|a [|b [|c [|d s]]]]; cbn [length] in Hl; try lia; cbn [lex_str];
    repeat match goal with |- context [hexval ?x] => destruct (hexval x); cbn [lex_str] end; discriminate.
Qed.

(* soundness of the string reader: what is read is one of the spellings *)
Lemma lex_str_sound n : forall s out v r, (length s <= n)%nat -> lex_str SN out s = Some (v, r) ->
  exists body v', s = body ++ 34 :: r /\ v = rev out ++ v' /\ str_spells v' body.
Proof.
  induction n as [|n IH]; intros s out v r Hn H.
  - destruct s; [discriminate | cbn in Hn; lia].
  - destruct s as [|c s1]; [discriminate|]. cbn [length] in Hn.
    cbn [lex_str] in H. destruct (c =? 34) eqn:E34.
    { inversion H; subst. apply N.eqb_eq in E34. subst. exists [], []. rewrite app_nil_r. repeat split. constructor. }
    destruct (c =? 92) eqn:E92.
    { apply N.eqb_eq in E92. subst c. destruct s1 as [|e s2]; [discriminate|]. cbn [length] in Hn.
      (* the character after the reverse solidus *)
      assert (Simple : forall x, short_esc e = Some x -> lex_str SN (x :: out) s2 = Some (v, r) ->
                exists body v', 92 :: e :: s2 = body ++ 34 :: r /\ v = rev out ++ v' /\ str_spells v' body).
      { intros x Hx Hr. destruct (IH s2 (x :: out) v r ltac:(lia) Hr) as [body [v' [E1 [E2 E3]]]].
        exists ([92; e] ++ body), (x :: v'). split; [cbn [app]; rewrite E1; reflexivity|]. split.
        - rewrite E2. cbn [rev]. rewrite <- app_assoc. reflexivity.
        - constructor; [apply sp_short; exact Hx | exact E3]. }
      cbn [lex_str] in H.
      destruct (e =? 34) eqn:A1. { apply (Simple 34); [unfold short_esc; rewrite A1; reflexivity | exact H]. }
      destruct (e =? 92) eqn:A2. { apply (Simple 92); [unfold short_esc; rewrite A1, A2; reflexivity | exact H]. }
      destruct (e =? 47) eqn:A3. { apply (Simple 47); [unfold short_esc; rewrite A1, A2, A3; reflexivity | exact H]. }
      destruct (e =? 98) eqn:A4. { apply (Simple 8); [unfold short_esc; rewrite A1, A2, A3, A4; reflexivity | exact H]. }
      destruct (e =? 102) eqn:A5. { apply (Simple 12); [unfold short_esc; rewrite A1, A2, A3, A4, A5; reflexivity | exact H]. }
      destruct (e =? 110) eqn:A6. { apply (Simple 10); [unfold short_esc; rewrite A1, A2, A3, A4, A5, A6; reflexivity | exact H]. }
      destruct (e =? 114) eqn:A7. { apply (Simple 13); [unfold short_esc; rewrite A1, A2, A3, A4, A5, A6, A7; reflexivity | exact H]. }
      destruct (e =? 116) eqn:A8. { apply (Simple 9); [unfold short_esc; rewrite A1, A2, A3, A4, A5, A6, A7, A8; reflexivity | exact H]. }
      destruct (e =? 117) eqn:A9; [|discriminate]. apply N.eqb_eq in A9. subst e.
      destruct s2 as [|a [|b [|c [|d s6]]]]; try (exfalso; revert H; apply short_list_u; cbn; lia).
      rewrite lex_u_step in H. destruct (hex4 a b c d) as [u|] eqn:Hu; [|discriminate].
      destruct (is_hi u) eqn:Hh.
      - (* a high surrogate: a low one must follow *)
        destruct s6 as [|x [|y s8]]; [discriminate | cbn [lex_str] in H; destruct (x =? 92); discriminate |].
        cbn [lex_str] in H. destruct (x =? 92) eqn:B1; [|discriminate]. cbn [lex_str] in H. destruct (y =? 117) eqn:B2; [|discriminate].
        apply N.eqb_eq in B1, B2. subst x y.
        destruct s8 as [|a' [|b' [|c' [|d' s12]]]]; try (exfalso; revert H; apply short_list_lu; cbn; lia).
        rewrite lex_lu_step in H. destruct (hex4 a' b' c' d') as [lo|] eqn:Hlo; [|discriminate].
        destruct (is_lo lo) eqn:Hl; [|discriminate].
        cbn [length] in Hn. destruct (IH s12 (pair_cp u lo :: out) v r ltac:(lia) H) as [body [v' [E1 [E2 E3]]]].
        exists ([92; 117; a; b; c; d; 92; 117; a'; b'; c'; d'] ++ body), (pair_cp u lo :: v'). split; [cbn [app]; rewrite E1; reflexivity|]. split.
        + rewrite E2. cbn [rev]. rewrite <- app_assoc. reflexivity.
        + constructor; [apply sp_pair; assumption | exact E3].
      - destruct (is_lo u) eqn:Hl; [discriminate|].
        cbn [length] in Hn. destruct (IH s6 (u :: out) v r ltac:(lia) H) as [body [v' [E1 [E2 E3]]]].
        exists ([92; 117; a; b; c; d] ++ body), (u :: v'). split; [cbn [app]; rewrite E1; reflexivity|]. split.
        + rewrite E2. cbn [rev]. rewrite <- app_assoc. reflexivity.
        + constructor; [apply sp_u; assumption | exact E3]. }
    destruct (c <? 32) eqn:E32; [discriminate|]. destruct (scalarb c) eqn:Es; [|discriminate].
    destruct (IH s1 (c :: out) v r ltac:(lia) H) as [body [v' [E1 [E2 E3]]]].
    exists ([c] ++ body), (c :: v'). split; [cbn [app]; rewrite E1; reflexivity|]. split.
    + rewrite E2. cbn [rev]. rewrite <- app_assoc. reflexivity.
    + constructor; [apply sp_lit; assumption | exact E3].
Qed.

(* ================================================================== numbers: the lexeme the lexer cuts off is a number *)

Lemma span_digits_id d : forallb is_digit d = true -> span_digits d = (d, []).
Proof.
  induction d as [|c d IH]; [reflexivity|]. cbn. intros H. apply andb_true_iff in H. destruct H as [H1 H2].
  rewrite H1, (IH H2). reflexivity.
Qed.

Lemma lex_int_self s i r : lex_int s = Some (i, r) -> lex_int i = Some (i, []).
Proof.
  destruct s as [|c s]; cbn; [discriminate|]. intros H. destruct (c =? 48) eqn:E0.
  - inversion H; subst. reflexivity.
  - destruct (is_digit c) eqn:Ed; [|discriminate]. destruct (span_digits s) as [d r'] eqn:Es. inversion H; subst.
    destruct (span_digits_split _ _ _ Es) as [_ Hd]. cbn. rewrite E0, Ed, (span_digits_id d Hd). reflexivity.
Qed.

Lemma lex_frac_self s f r : lex_frac s = Some (f, r) -> lex_frac f = Some (f, []) /\ (f = [] \/ exists d, f = 46 :: d).
Proof.
  destruct s as [|c s]; cbn; intros H.
  - inversion H; subst. split; [reflexivity | left; reflexivity].
  - destruct (c =? 46) eqn:E.
    + destruct (span_digits s) as [d r'] eqn:Es. destruct d as [|d0 d]; [discriminate|]. inversion H; subst.
      destruct (span_digits_split _ _ _ Es) as [_ Hd]. split; [|right; eexists; reflexivity].
      cbn [lex_frac]. change (46 =? 46) with true. cbv iota. rewrite (span_digits_id _ Hd). reflexivity.
    + inversion H; subst. split; [reflexivity | left; reflexivity].
Qed.

Lemma lex_exp_self s e r : lex_exp s = Some (e, r) -> lex_exp e = Some (e, []) /\ (e = [] \/ exists c t, e = c :: t /\ ((c =? 101) || (c =? 69)) = true).
Proof.
  destruct s as [|c s]; cbn; intros H.
  - inversion H; subst. split; [reflexivity | left; reflexivity].
  - destruct ((c =? 101) || (c =? 69)) eqn:E.
    + destruct s as [|c2 s2]; [cbn in H; discriminate|].
      destruct ((c2 =? 43) || (c2 =? 45)) eqn:E2.
      * destruct (span_digits s2) as [d r'] eqn:Es. destruct d as [|d0 d]; [discriminate|]. inversion H; subst.
        destruct (span_digits_split _ _ _ Es) as [_ Hd]. split; [|right; eexists; eexists; split; [reflexivity | exact E]].
        cbn [lex_exp app]. rewrite E, E2, (span_digits_id _ Hd). reflexivity.
      * destruct (span_digits (c2 :: s2)) as [d r'] eqn:Es. destruct d as [|d0 d]; [discriminate|]. inversion H; subst.
        destruct (span_digits_split _ _ _ Es) as [_ Hd]. split; [|right; eexists; eexists; split; [reflexivity | exact E]].
        (* the first digit is not a sign *)
        cbn [forallb] in Hd. apply andb_true_iff in Hd. destruct Hd as [Hd0 Hd].
        assert (E3 : ((d0 =? 43) || (d0 =? 45)) = false) by (unfold is_digit in Hd0; lia).
        cbn [lex_exp app]. rewrite E, E3. cbn [span_digits]. rewrite Hd0, (span_digits_id _ Hd). reflexivity.
    + inversion H; subst. split; [reflexivity | left; reflexivity].
Qed.

Lemma lex_num_ok s l r : lex_num s = Some (l, r) -> num_ok l = true.
Proof.
  unfold lex_num. intros H.
  assert (G : forall s1 sg, (sg = [] \/ sg = [45]) ->
     match lex_int s1 with
     | None => None
     | Some (i, s2) => match lex_frac s2 with None => None | Some (f, s3) =>
         match lex_exp s3 with None => None | Some (e, s4) => Some (sg ++ i ++ f ++ e, s4) end end end = Some (l, r) ->
     (sg = [] -> exists c t, s1 = c :: t /\ (c =? 45) = false) -> num_ok l = true).
  { intros s1 sg Hsg H1 Hfirst.
    destruct (lex_int s1) as [[i s2]|] eqn:Ei; [|discriminate].
    destruct (lex_frac s2) as [[f s3]|] eqn:Ef; [|discriminate].
    destruct (lex_exp s3) as [[e s4]|] eqn:Ee; [|discriminate]. inversion H1; subst. clear H1.
    pose proof (lex_int_self _ _ _ Ei) as Si. destruct (lex_frac_self _ _ _ Ef) as [Sf Cf]. destruct (lex_exp_self _ _ _ Ee) as [Se Ce].
    destruct (lex_int_split _ _ _ Ei) as [Es1 [Hne Hdi]].
    (* the pieces are read back in turn *)
    assert (Nfe : nd (f ++ e)).
    { destruct Cf as [->|[d ->]]; [|reflexivity]. destruct Ce as [->|[c [t [-> Hc]]]]; [exact I|]. cbn. unfold is_digit. lia. }
    assert (Li : lex_int (i ++ f ++ e) = Some (i, f ++ e)).
    { apply (lex_int_app i i [] (f ++ e) Si). intros _. exact Nfe. }
    assert (Lf : lex_frac (f ++ e) = Some (f, e)).
    { destruct Cf as [->|[d ->]].
      - cbn [app]. destruct Ce as [->|[c [t [-> Hc]]]]; [reflexivity|]. cbn. assert (E46 : (c =? 46) = false) by lia. rewrite E46. reflexivity.
      - cbn [lex_frac] in Sf. change (46 =? 46) with true in Sf. cbv iota in Sf.
        destruct (span_digits d) as [d1 r1] eqn:Ed. destruct d1 as [|x d1]; [discriminate|].
        assert (Hd1 : x :: d1 = d /\ r1 = []) by (inversion Sf; split; reflexivity). destruct Hd1 as [Hd1 Hr1]. subst r1.
        cbn [app lex_frac]. change (46 =? 46) with true. cbv iota.
        assert (Ne : nd e). { destruct Ce as [->|[c [t [-> Hc]]]]; [exact I|]. cbn. unfold is_digit. lia. }
        rewrite (span_digits_app d (x :: d1) [] e Ed (fun _ => Ne)). rewrite Hd1. reflexivity. }
    unfold num_ok, lex_num.
    destruct Hsg as [->| ->].
    - destruct (Hfirst eq_refl) as [c [t [-> Hc]]]. cbn [app].
      (* the integer part starts with the same character *)
      assert (Hi : exists t', i = c :: t').
      { cbn in Ei. destruct (c =? 48) eqn:E48; [apply N.eqb_eq in E48; subst c; inversion Ei; subst; eexists; reflexivity|]. destruct (is_digit c); [|discriminate].
        destruct (span_digits t). inversion Ei; subst. eexists; reflexivity. }
      destruct Hi as [t' ->]. cbn [app]. rewrite Hc. change (c :: t' ++ f ++ e) with ((c :: t') ++ f ++ e).
      rewrite Li, Lf, Se. reflexivity.
    - cbn [app]. change (45 =? 45) with true. cbv iota. rewrite Li, Lf, Se. reflexivity. }
  destruct s as [|c s].
  - cbn in H. discriminate.
  - destruct (c =? 45) eqn:E.
    + apply (G s [45]); [right; reflexivity | exact H | discriminate].
    + apply (G (c :: s) []); [left; reflexivity | exact H |]. intros _. exists c, s. split; [reflexivity | exact E].
Qed.

(* ================================================================== the lexer *)

Lemma strip_prefix_sound p : forall s r, strip_prefix p s = Some r -> s = p ++ r.
Proof.
  induction p as [|a p IH]; intros s r H; cbn in H.
  - inversion H. reflexivity.
  - destruct s as [|b s]; [discriminate|]. destruct (a =? b) eqn:E; [|discriminate]. apply N.eqb_eq in E. subst. cbn. f_equal. apply IH. exact H.
Qed.

Lemma lcons_ok t r ts : lcons t r = LOk ts -> exists ts', r = LOk ts' /\ ts = t :: ts'.
Proof. destruct r; cbn; intros H; try discriminate. inversion H. eexists; split; reflexivity. Qed.

(* sound: whatever the lexer returns, the text is those tokens in some spelling with white space between them *)
Lemma lex_sound fuel : forall s ts, lex fuel s = LOk ts -> jtext s ts.
Proof.
  induction fuel as [|f IH]; intros s ts H; [discriminate|].
  cbn [lex] in H. destruct s as [|c r]; [inversion H; constructor|].
  destruct (is_ws c) eqn:Ew; [apply jt_ws; [exact Ew | apply IH; exact H]|].
  assert (Fix : forall t p r', c :: r = p ++ r' -> tok_spells t p -> lcons t (lex f r') = LOk ts -> jtext (c :: r) ts).
  { intros t p r' E Hs Hl. destruct (lcons_ok _ _ _ Hl) as [ts' [H1 ->]]. rewrite E. apply jt_tok; [exact Hs | apply IH; exact H1]. }
  destruct (c =? 123) eqn:E1. { apply N.eqb_eq in E1. subst. apply (Fix TLBrace [123] r eq_refl); [apply (ts_fix TLBrace I) | exact H]. }
  destruct (c =? 125) eqn:E2. { apply N.eqb_eq in E2. subst. apply (Fix TRBrace [125] r eq_refl); [apply (ts_fix TRBrace I) | exact H]. }
  destruct (c =? 91) eqn:E3. { apply N.eqb_eq in E3. subst. apply (Fix TLBrack [91] r eq_refl); [apply (ts_fix TLBrack I) | exact H]. }
  destruct (c =? 93) eqn:E4. { apply N.eqb_eq in E4. subst. apply (Fix TRBrack [93] r eq_refl); [apply (ts_fix TRBrack I) | exact H]. }
  destruct (c =? 44) eqn:E5. { apply N.eqb_eq in E5. subst. apply (Fix TComma [44] r eq_refl); [apply (ts_fix TComma I) | exact H]. }
  destruct (c =? 58) eqn:E6. { apply N.eqb_eq in E6. subst. apply (Fix TColon [58] r eq_refl); [apply (ts_fix TColon I) | exact H]. }
  destruct (c =? 34) eqn:E7.
  { apply N.eqb_eq in E7. subst. destruct (lex_str SN [] r) as [[v r']|] eqn:Es; [|discriminate].
    destruct (lex_str_sound (length r) r [] v r' (le_n _) Es) as [body [v' [Eb [Ev Hsp]]]]. cbn in Ev. subst v.
    apply (Fix (TStr v') (34 :: body ++ [34]) r'); [| apply ts_str; exact Hsp | exact H].
    rewrite Eb. cbn [app]. rewrite <- app_assoc. reflexivity. }
  destruct (c =? 110) eqn:E8.
  { apply N.eqb_eq in E8. subst. destruct (strip_prefix [117; 108; 108] r) as [r'|] eqn:Ep; [|discriminate].
    apply strip_prefix_sound in Ep. apply (Fix TNull (tok_text TNull) r'); [rewrite Ep; reflexivity | apply (ts_fix TNull I) | exact H]. }
  destruct (c =? 116) eqn:E9.
  { apply N.eqb_eq in E9. subst. destruct (strip_prefix [114; 117; 101] r) as [r'|] eqn:Ep; [|discriminate].
    apply strip_prefix_sound in Ep. apply (Fix TTrue (tok_text TTrue) r'); [rewrite Ep; reflexivity | apply (ts_fix TTrue I) | exact H]. }
  destruct (c =? 102) eqn:E10.
  { apply N.eqb_eq in E10. subst. destruct (strip_prefix [97; 108; 115; 101] r) as [r'|] eqn:Ep; [|discriminate].
    apply strip_prefix_sound in Ep. apply (Fix TFalse (tok_text TFalse) r'); [rewrite Ep; reflexivity | apply (ts_fix TFalse I) | exact H]. }
  destruct ((c =? 45) || is_digit c) eqn:E11; [|discriminate].
  destruct (lex_num (c :: r)) as [[l r']|] eqn:En; [|discriminate].
  destruct (lex_num_split _ _ _ En) as [Es _].
  apply (Fix (TNum l) l r' Es); [apply ts_num; apply (lex_num_ok _ _ _ En) | exact H].
Qed.

(* what may follow a number in a text *)
Lemma spells_head t p : tok_spells t p -> is_num t = false -> exists c p', p = c :: p' /\ stops (c :: p') = true.
Proof.
  intros Hs Hn. destruct Hs as [v body _ | l _ | t Ht]; [eexists; eexists; split; reflexivity | discriminate |].
  destruct t; try contradiction; eexists; eexists; split; reflexivity.
Qed.

Lemma jtext_stops s ts : jtext s ts -> match ts with t :: _ => is_num t = false | [] => True end -> stops s = true.
Proof.
  induction 1 as [|c s ts Hc _ _|t p s ts Hs _ _]; intros Hn.
  - reflexivity.
  - cbn [stops]. unfold is_ws, is_digit in *. lia.
  - destruct (spells_head t p Hs Hn) as [c [p' [-> Hst]]]. cbn [app stops] in *. exact Hst.
Qed.

(* complete: every spelling of the tokens (no two numbers next to each other) is read as these tokens *)
Lemma lex_complete s ts : jtext s ts -> no_adj_num ts = true -> forall fuel, (length s < fuel)%nat -> lex fuel s = LOk ts.
Proof.
  induction 1 as [|c s ts Hc Hj IH|t p s ts Hs Hj IH]; intros Hadj fuel Hf.
  - destruct fuel; [lia | reflexivity].
  - destruct fuel as [|f]; [lia|]. cbn [lex]. rewrite Hc. apply IH; [exact Hadj | cbn in Hf; lia].
  - cbn [no_adj_num] in Hadj. apply andb_true_iff in Hadj. destruct Hadj as [Ha1 Ha2].
    rewrite app_length in Hf.
    destruct Hs as [v body Hsp | l Hl | t Ht].
    + destruct fuel as [|f]; [cbn in Hf; lia|]. cbn [app lex]. change (is_ws 34) with false. cbv iota.
      change (34 =? 123) with false. change (34 =? 125) with false. change (34 =? 91) with false.
      change (34 =? 93) with false. change (34 =? 44) with false. change (34 =? 58) with false. change (34 =? 34) with true. cbv iota.
      rewrite <- app_assoc. cbn [app]. rewrite (lex_str_spells v body Hsp [] s). cbn [rev app].
      rewrite IH; [reflexivity | exact Ha2 | cbn in Hf; rewrite app_length in Hf; cbn in Hf; lia].
    + pose proof (num_ok_lex _ Hl) as Hlex. destruct (lex_num_split _ _ _ Hlex) as [_ [_ [c [l' [El Hc]]]]]. subst l.
      destruct fuel as [|f]; [cbn in Hf; lia|]. cbn [app]. rewrite (lex_num_branch f c (l' ++ s) Hc).
      change (c :: l' ++ s) with ((c :: l') ++ s). rewrite (num_ok_stops (c :: l') s Hl).
      * rewrite IH; [reflexivity | exact Ha2 | cbn in Hf; lia].
      * apply (jtext_stops s ts Hj). destruct ts as [|t2 ts]; [exact I|]. cbn [is_num andb negb] in Ha1. destruct (is_num t2); [discriminate | reflexivity].
    + assert (Hlen : (0 < length (tok_text t))%nat) by (destruct t; try contradiction; cbn; lia).
      destruct fuel as [|f]; [lia|].
      assert (Hf' : (length s < f)%nat) by lia.
      destruct t; try contradiction; cbn [tok_text app]; cbn [lex]; cbn; rewrite ?strip_prefix_app; rewrite (IH Ha2 f Hf'); reflexivity.
Qed.

(* ================================================================== the grammar *)

Lemma join_cons (x : list tok) ls : ls <> [] -> join_comma (x :: ls) = x ++ TComma :: join_comma ls.
Proof. destruct ls; [congruence | reflexivity]. Qed.

Definition pv_sound_at f := forall ts d rest, pv f ts = POk d rest -> ts = tokens_of d ++ rest.
Definition pelems_sound_at f := forall ts acc v rest, pelems f ts acc = POk v rest ->
  exists l, l <> [] /\ v = JArr (rev acc ++ l) /\ ts = join_comma (map tokens_of l) ++ TRBrack :: rest.
Definition pmembers_sound_at f := forall ts acc v rest, pmembers f ts acc = POk v rest ->
  exists m, m <> [] /\ v = JObj (rev acc ++ m) /\ ts = join_comma (map mem_toks m) ++ TRBrace :: rest.

Lemma tokens_arr l : tokens_of (JArr l) = TLBrack :: join_comma (map tokens_of l) ++ [TRBrack].
Proof. reflexivity. Qed.
Lemma tokens_obj m : tokens_of (JObj m) = TLBrace :: join_comma (map mem_toks m) ++ [TRBrace].
Proof. reflexivity. Qed.

Lemma pelems_step f : pv_sound_at f -> pelems_sound_at f -> pelems_sound_at (S f).
Proof.
  intros Hv He ts acc v rest H. cbn [pelems] in H.
  destruct (pv f ts) as [x r| |] eqn:E; try discriminate. apply Hv in E.
  destruct r as [|t r']; [discriminate|]. destruct t; try discriminate.
  - inversion H; subst. exists [x]. split; [discriminate|]. split; reflexivity.
  - apply He in H. destruct H as [l [Hne [Hv' Ets]]]. exists (x :: l). split; [discriminate|]. split.
    + rewrite Hv'. cbn [rev]. rewrite <- app_assoc. reflexivity.
    + cbn [map]. rewrite join_cons by (destruct l; [congruence | discriminate]). rewrite <- app_assoc. cbn [app]. rewrite E, Ets. reflexivity.
Qed.

Lemma pmembers_step f : pv_sound_at f -> pmembers_sound_at f -> pmembers_sound_at (S f).
Proof.
  intros Hv Hm ts acc v rest H. cbn [pmembers] in H.
  destruct ts as [|t ts]; [discriminate|]. destruct t; try discriminate.
  destruct ts as [|t ts]; [discriminate|]. destruct t; try discriminate.
  destruct (pv f ts) as [x r| |] eqn:E; try discriminate. apply Hv in E.
  destruct r as [|t r']; [discriminate|]. destruct t; try discriminate.
  - inversion H; subst. exists [(s, x)]. split; [discriminate|]. split; [reflexivity|].
    reflexivity.
  - apply Hm in H. destruct H as [m [Hne [Hv' Ets]]]. exists ((s, x) :: m). split; [discriminate|]. split.
    + rewrite Hv'. cbn [rev]. rewrite <- app_assoc. reflexivity.
    + cbn [map]. rewrite join_cons by (destruct m; [congruence | discriminate]). unfold mem_toks at 1. cbn [fst snd app].
      rewrite <- app_assoc. cbn [app]. rewrite E, Ets. reflexivity.
Qed.

Lemma pv_step f : pelems_sound_at f -> pmembers_sound_at f -> pv_sound_at (S f).
Proof.
  intros He Hm ts d rest H. cbn [pv] in H.
  destruct ts as [|t r]; [discriminate|]. destruct t; try discriminate; try (inversion H; subst; reflexivity).
  - destruct r as [|t2 r2]; [|destruct t2]; try (inversion H; subst; reflexivity);
      (apply Hm in H; destruct H as [m0 [_ [-> ->]]]; cbn [rev app]; rewrite tokens_obj; cbn [app]; rewrite <- app_assoc; reflexivity).
  - destruct r as [|t2 r2]; [|destruct t2]; try (inversion H; subst; reflexivity);
      (apply He in H; destruct H as [l0 [_ [-> ->]]]; cbn [rev app]; rewrite tokens_arr; cbn [app]; rewrite <- app_assoc; reflexivity).
Qed.

Lemma parser_sound f : pv_sound_at f /\ pelems_sound_at f /\ pmembers_sound_at f.
Proof.
  induction f as [|f [Hv [He Hm]]].
  - split; [|split]; [intros ? ? ? H | intros ? ? ? ? H | intros ? ? ? ? H]; discriminate.
  - split; [|split]; [apply pv_step | apply pelems_step | apply pmembers_step]; assumption.
Qed.

(* sound: the tokens the parser consumed are the tokens of the DOM it returned *)
Lemma pv_sound f ts d : pv f ts = POk d [] -> ts = tokens_of d.
Proof. intros H. apply (proj1 (parser_sound f)) in H. rewrite app_nil_r in H. exact H. Qed.

(* ================================================================== accepted texts = renderings *)

Lemma no_adj_join ls : Forall (fun l => no_adj_num l = true) ls -> no_adj_num (join_comma ls) = true.
Proof.
  induction 1 as [|x ls Hx Hls IH]; [reflexivity|].
  destruct ls as [|y ls]; [exact Hx|].
  change (join_comma (x :: y :: ls)) with (x ++ TComma :: join_comma (y :: ls)).
  apply no_adj_sep; [exact Hx | reflexivity | apply no_adj_cons; [reflexivity | exact IH]].
Qed.

Lemma no_adj_tokens d : no_adj_num (tokens_of d) = true.
Proof.
  induction d as [ | b | l | s | l IH | m IH ] using jv_ind'; try reflexivity.
  - destruct b; reflexivity.
  - rewrite tokens_arr. apply no_adj_cons; [reflexivity|]. apply no_adj_end; [|reflexivity].
    apply no_adj_join. induction IH as [|x l Hx _ IHl]; constructor; assumption.
  - rewrite tokens_obj. apply no_adj_cons; [reflexivity|]. apply no_adj_end; [|reflexivity].
    apply no_adj_join. induction IH as [|[k v] m Hx _ IHm]; constructor; [|assumption].
    unfold mem_toks. cbn [fst snd] in *. apply no_adj_cons; [reflexivity|]. apply no_adj_cons; [reflexivity | exact Hx].
Qed.

(* Every text the reference parser accepts is a rendering of the DOM it returns. *)
Theorem json_cps_sound s d : json_parse_cps s = JOk d -> renders s d.
Proof.
  unfold json_parse_cps, renders. destruct (lex (S (length s)) s) as [ts| |] eqn:El; try discriminate.
  destruct (pv (2 * length ts + 2) ts) as [v r| |] eqn:Ep; try discriminate.
  destruct r; [|discriminate]. intros H. inversion H; subst v.
  apply pv_sound in Ep. subst ts. apply (lex_sound _ _ _ El).
Qed.

(* Every rendering of a DOM is accepted, with that DOM as the result. *)
Theorem json_cps_complete s d : renders s d -> json_parse_cps s = JOk d.
Proof.
  unfold json_parse_cps, renders. intros H.
  rewrite (lex_complete s _ H (no_adj_tokens d) (S (length s)) (Nat.lt_succ_diag_r _)).
  rewrite pv_tokens. reflexivity.
Qed.

Theorem json_cps_exact s d : json_parse_cps s = JOk d <-> renders s d.
Proof. split; [apply json_cps_sound | apply json_cps_complete]. Qed.

(* bytes: the accepted byte strings are exactly the strict UTF-8 encodings of renderings *)
Theorem json_parse_exact bytes d :
  json_parse bytes = JOk d <-> exists cps, utf8_decode bytes = Some (Some cps) /\ renders cps d.
Proof.
  unfold json_parse. split.
  - destruct (utf8_decode bytes) as [[cps|]|]; try discriminate. intros H. exists cps. split; [reflexivity | apply json_cps_sound; exact H].
  - intros [cps [-> H]]. apply json_cps_complete. exact H.
Qed.

(* what is rendered (hence what is accepted) is a well-formed DOM: scalar values in strings, RFC numbers *)
Lemma hexval_lt a x : hexval a = Some x -> x < 16.
Proof. unfold hexval. repeat match goal with |- context [if ?b then _ else _] => destruct b eqn:? end; intros H; inversion H; unfold is_digit in *; lia. Qed.

Lemma hex4_lt a b c d u : hex4 a b c d = Some u -> u < 65536.
Proof.
  intros H. destruct (hex4_some _ _ _ _ _ H) as [x [y [z [w [Hx [Hy [Hz [Hw ->]]]]]]]].
  apply hexval_lt in Hx, Hy, Hz, Hw. lia.
Qed.

Lemma cp_spells_scalar c p : cp_spells c p -> scalarb c = true.
Proof.
  destruct 1 as [c _ _ _ H | e c H | a b c d u H Hh Hl | a b c d a' b' c' d' hi lo H Hh H' Hl].
  - exact H.
  - unfold short_esc in H. repeat match type of H with (if ?b then _ else _) = _ => destruct b end; inversion H; reflexivity.
  - apply hex4_lt in H. unfold is_hi, is_lo, scalarb in *. lia.
  - apply hex4_lt in H, H'. unfold is_hi, is_lo, pair_cp, scalarb in *. lia.
Qed.

Lemma str_spells_scalar v body : str_spells v body -> forallb scalarb v = true.
Proof. induction 1 as [|c p v body Hc _ IH]; [reflexivity|]. cbn [forallb]. rewrite (cp_spells_scalar _ _ Hc), IH. reflexivity. Qed.

Lemma tok_spells_ok t p : tok_spells t p -> tok_okb t = true.
Proof. destruct 1 as [v body H | l H | t Ht]; cbn [tok_okb]; [apply (str_spells_scalar _ _ H) | exact H | destruct t; try contradiction; reflexivity]. Qed.

Lemma jtext_ok s ts : jtext s ts -> forallb tok_okb ts = true.
Proof. induction 1 as [| |t p s ts Ht _ IH]; [reflexivity | assumption |]. cbn [forallb]. rewrite (tok_spells_ok _ _ Ht), IH. reflexivity. Qed.

Lemma ok_join ls : forallb tok_okb (join_comma ls) = true -> Forall (fun l => forallb tok_okb l = true) ls.
Proof.
  induction ls as [|x ls IH]; intros H; [constructor|].
  destruct ls as [|y ls]; [constructor; [exact H | constructor]|].
  change (join_comma (x :: y :: ls)) with (x ++ TComma :: join_comma (y :: ls)) in H.
  rewrite forallb_app' in H. cbn [forallb tok_okb] in H. apply andb_true_iff in H. destruct H as [H1 H2].
  constructor; [exact H1 | apply IH; exact H2].
Qed.

Lemma tokens_ok_wf d : forallb tok_okb (tokens_of d) = true -> jwf d.
Proof.
  unfold jwf. induction d as [ | b | l | s | l IH | m IH ] using jv_ind'; intros H; try reflexivity.
  - cbn in H. cbn [jwfb]. rewrite andb_true_r in H. exact H.
  - cbn in H. cbn [jwfb]. rewrite andb_true_r in H. exact H.
  - rewrite tokens_arr in H. cbn [forallb tok_okb] in H. rewrite forallb_app' in H. cbn [forallb tok_okb] in H.
    rewrite andb_true_r in H. cbn [andb] in H. apply ok_join in H. cbn [jwfb].
    induction IH as [|x l Hx _ IHl]; [reflexivity|]. cbn [map] in H. inversion H; subst. cbn [forallb].
    rewrite (Hx H2), (IHl H3). reflexivity.
  - rewrite tokens_obj in H. cbn [forallb tok_okb] in H. rewrite forallb_app' in H. cbn [forallb tok_okb] in H.
    rewrite andb_true_r in H. cbn [andb] in H. apply ok_join in H. cbn [jwfb].
    induction IH as [|[k v] m Hx _ IHm]; [reflexivity|]. cbn [map] in H. inversion H; subst. cbn [forallb fst snd] in *.
    unfold mem_toks in H2. cbn [forallb tok_okb fst snd andb] in H2. apply andb_true_iff in H2. destruct H2 as [Hk Hv].
    rewrite Hk, (Hx Hv), (IHm H3). reflexivity.
Qed.

Theorem renders_wf s d : renders s d -> jwf d.
Proof. intros H. apply tokens_ok_wf. apply (jtext_ok _ _ H). Qed.

(* ================================================================== the free choices, by example *)

(* white space in all six places, an escape in each of the four spellings, upper and lower case hex digits, and a
   number kept as its lexeme: one rendering of {"a/é😀":[1.0e+2,true]} *)
Example renders_example :
  renders ([32; 123; 10; 34; 97; 92; 47; 92; 117; 48; 48; 69; 57; 92; 117; 100; 56; 51; 68; 92; 117; 68; 69; 48; 48; 34; 9; 58; 13; 91;
            49; 46; 48; 101; 43; 50; 32; 44; 116; 114; 117; 101; 93; 32; 125; 10])
          (JObj [([97; 47; 233; 128512], JArr [JNum [49; 46; 48; 101; 43; 50]; JBool true])]).
Proof. apply json_cps_sound. vm_compute. reflexivity. Qed.

