(* JxJsonSpec.v — JSON per RFC 8259, written from the RFC's grammar (sections 2-7): a DOM whose
   numbers keep their lexical form, a compact printer and a total parser that accepts every RFC 8259
   text (any whitespace, every escape incl. \uXXXX surrogate pairs, any number spelling, any member
   order) and rejects everything else.  Nothing here mentions RapidJSON or BitSerializer.
   Text is a list of code points; the byte level is UTF-8 (RFC 8259 section 8.1) through UtfSpec.enc8
   and the strict decoder proved against it in the UTF family. *)
From BS Require Import Base UtfSpec UtfModel.
Local Open Scope N_scope.

(* ------------------------------------------------------------------ DOM *)

Inductive jv :=
| JNull
| JBool (b : bool)
| JNum (lexeme : list N)              (* the number exactly as spelled: ASCII code points *)
| JStr (s : list N)                   (* code points *)
| JArr (l : list jv)
| JObj (m : list (list N * jv)).      (* members in document order; names are code point strings *)

(* ------------------------------------------------------------------ characters *)

Definition is_ws (c : N) : bool := (c =? 32) || (c =? 9) || (c =? 10) || (c =? 13).      (* RFC 8259 section 2 *)
Definition is_digit (c : N) : bool := (48 <=? c) && (c <=? 57).

Definition hexval (c : N) : option N :=
  if is_digit c then Some (c - 48)
  else if (97 <=? c) && (c <=? 102) then Some (c - 87)
  else if (65 <=? c) && (c <=? 70) then Some (c - 55)
  else None.

Definition hexdigit (h : N) : N := if h <? 10 then 48 + h else 87 + h.

(* ------------------------------------------------------------------ numbers (section 6) *)

Fixpoint span_digits (s : list N) : list N * list N :=
  match s with
  | c :: r => if is_digit c then let (d, r') := span_digits r in (c :: d, r') else ([], s)
  | [] => ([], [])
  end.

(* int = zero / ( digit1-9 *DIGIT ) *)
Definition lex_int (s : list N) : option (list N * list N) :=
  match s with
  | c :: r => if c =? 48 then Some ([48], r)
              else if is_digit c then let (d, r') := span_digits r in Some (c :: d, r')
              else None
  | [] => None
  end.

(* [ frac ]   frac = decimal-point 1*DIGIT *)
Definition lex_frac (s : list N) : option (list N * list N) :=
  match s with
  | c :: r => if c =? 46 then
                match span_digits r with
                | ([], _) => None
                | (d, r') => Some (46 :: d, r')
                end
              else Some ([], s)
  | [] => Some ([], [])
  end.

(* [ exp ]   exp = e [ minus / plus ] 1*DIGIT *)
Definition lex_exp (s : list N) : option (list N * list N) :=
  match s with
  | c :: r =>
    if (c =? 101) || (c =? 69) then
      let (sg, r1) := match r with
                      | c2 :: r2 => if (c2 =? 43) || (c2 =? 45) then ([c2], r2) else ([], r)
                      | [] => ([], r)
                      end in
      match span_digits r1 with
      | ([], _) => None
      | (d, r') => Some (c :: sg ++ d, r')
      end
    else Some ([], s)
  | [] => Some ([], [])
  end.

(* number = [ minus ] int [ frac ] [ exp ]; returns the lexeme and the remaining text *)
Definition lex_num (s : list N) : option (list N * list N) :=
  let (sg, s1) := match s with
                  | c :: r => if c =? 45 then ([45], r) else ([], s)
                  | [] => ([], s)
                  end in
  match lex_int s1 with
  | None => None
  | Some (i, s2) =>
    match lex_frac s2 with
    | None => None
    | Some (f, s3) =>
      match lex_exp s3 with
      | None => None
      | Some (e, s4) => Some (sg ++ i ++ f ++ e, s4)
      end
    end
  end.

(* a list of code points is a number lexeme iff the grammar consumes all of it *)
Definition num_ok (l : list N) : bool :=
  match lex_num l with Some (_, []) => true | _ => false end.

(* denotation: (negative, digits, exponent) standing for (-1)^negative * digits * 10^exponent *)
Definition digits_val (ds : list N) : N := fold_left (fun a c => 10 * a + (c - 48)) ds 0.

Definition num_den (l : list N) : option (bool * N * Z) :=
  if num_ok l then
    let (neg, body) := match l with c :: r => if c =? 45 then (true, r) else (false, l) | [] => (false, l) end in
    let (ip, r1) := span_digits body in
    let (fp, r2) := match r1 with
                    | c :: r => if c =? 46 then span_digits r else ([], r1)
                    | [] => ([], r1)
                    end in
    let ex := match r2 with
              | _ :: c2 :: r3 =>
                if c2 =? 45 then (- Z.of_N (digits_val r3))%Z
                else if c2 =? 43 then Z.of_N (digits_val r3)
                else Z.of_N (digits_val (c2 :: r3))
              | _ => 0%Z
              end in
    Some (neg, digits_val (ip ++ fp), (ex - Z.of_nat (length fp))%Z)
  else None.

(* normal form of a denotation: zero is (false,0,0); otherwise digits carries no trailing zero *)
Fixpoint strip_zeros (fuel : nat) (d : N) (e : Z) : N * Z :=
  match fuel with
  | O => (d, e)
  | S f => if (d mod 10 =? 0) && negb (d =? 0) then strip_zeros f (d / 10) (e + 1)%Z else (d, e)
  end.

Definition den_norm (x : bool * N * Z) : bool * N * Z :=
  let '(neg, d, e) := x in
  if d =? 0 then (false, 0, 0%Z)
  else let (d', e') := strip_zeros (N.to_nat (N.size d)) d e in (neg, d', e').

Definition den_eqb (x y : bool * N * Z) : bool :=
  let '(n1, d1, e1) := den_norm x in
  let '(n2, d2, e2) := den_norm y in
  Bool.eqb n1 n2 && (d1 =? d2) && (e1 =? e2)%Z.

(* "same numeric value, different spelling" *)
Definition num_same_value (a b : list N) : bool :=
  match num_den a, num_den b with
  | Some x, Some y => den_eqb x y
  | _, _ => false
  end.

(* ------------------------------------------------------------------ strings (section 7) *)

(* minimal escaping: only what the RFC requires (quotation mark, reverse solidus, U+0000..U+001F) *)
Definition esc_char (c : N) : list N :=
  if c =? 34 then [92; 34]
  else if c =? 92 then [92; 92]
  else if c <? 32 then [92; 117; 48; 48; hexdigit (c / 16); hexdigit (c mod 16)]
  else [c].

Definition str_body (s : list N) : list N := flat_map esc_char s.

Definition is_hi (u : N) : bool := (0xD800 <=? u) && (u <=? 0xDBFF).
Definition is_lo (u : N) : bool := (0xDC00 <=? u) && (u <=? 0xDFFF).
Definition pair_cp (hi lo : N) : N := 0x10000 + (hi - 0xD800) * 1024 + (lo - 0xDC00).

(* reader of a string body after the opening quotation mark: one code point per step *)
Inductive sst :=
| SN                                   (* unescaped text *)
| SE                                   (* after a reverse solidus *)
| SU (k : nat) (acc : N)               (* inside \uXXXX, k more digits after the next one *)
| SL0 (hi : N)                         (* a high surrogate was read: a reverse solidus must follow *)
| SL1 (hi : N)                         (* ... then u *)
| SLU (hi : N) (k : nat) (acc : N).    (* ... then the four digits of a low surrogate *)

Fixpoint lex_str (st : sst) (out : list N) (s : list N) {struct s} : option (list N * list N) :=
  match s with
  | [] => None                                             (* unterminated *)
  | c :: r =>
    match st with
    | SN =>
      if c =? 34 then Some (rev out, r)
      else if c =? 92 then lex_str SE out r
      else if c <? 32 then None                            (* control characters must be escaped *)
      else if scalarb c then lex_str SN (c :: out) r
      else None
    | SE =>
      if c =? 34 then lex_str SN (34 :: out) r
      else if c =? 92 then lex_str SN (92 :: out) r
      else if c =? 47 then lex_str SN (47 :: out) r
      else if c =? 98 then lex_str SN (8 :: out) r
      else if c =? 102 then lex_str SN (12 :: out) r
      else if c =? 110 then lex_str SN (10 :: out) r
      else if c =? 114 then lex_str SN (13 :: out) r
      else if c =? 116 then lex_str SN (9 :: out) r
      else if c =? 117 then lex_str (SU 3 0) out r
      else None
    | SU k acc =>
      match hexval c with
      | None => None
      | Some h =>
        let a := acc * 16 + h in
        match k with
        | S k' => lex_str (SU k' a) out r
        | O => if is_hi a then lex_str (SL0 a) out r
               else if is_lo a then None                   (* lone low surrogate *)
               else lex_str SN (a :: out) r
        end
      end
    | SL0 hi => if c =? 92 then lex_str (SL1 hi) out r else None          (* lone high surrogate *)
    | SL1 hi => if c =? 117 then lex_str (SLU hi 3 0) out r else None
    | SLU hi k acc =>
      match hexval c with
      | None => None
      | Some h =>
        let a := acc * 16 + h in
        match k with
        | S k' => lex_str (SLU hi k' a) out r
        | O => if is_lo a then lex_str SN (pair_cp hi a :: out) r else None
        end
      end
    end
  end.

(* ------------------------------------------------------------------ tokens (section 2) *)

Inductive tok :=
| TLBrace | TRBrace | TLBrack | TRBrack | TComma | TColon
| TNull | TTrue | TFalse
| TStr (s : list N)
| TNum (l : list N).

Definition tok_text (t : tok) : list N :=
  match t with
  | TLBrace => [123] | TRBrace => [125] | TLBrack => [91] | TRBrack => [93]
  | TComma => [44] | TColon => [58]
  | TNull => [110; 117; 108; 108]
  | TTrue => [116; 114; 117; 101]
  | TFalse => [102; 97; 108; 115; 101]
  | TStr s => 34 :: str_body s ++ [34]
  | TNum l => l
  end.

Inductive lres := LOk (ts : list tok) | LErr | LFuel.

(* the text after a given literal prefix *)
Fixpoint strip_prefix (p s : list N) : option (list N) :=
  match p with
  | [] => Some s
  | a :: p' =>
    match s with
    | b :: s' => if a =? b then strip_prefix p' s' else None
    | [] => None
    end
  end.

Definition lcons (t : tok) (r : lres) : lres :=
  match r with LOk ts => LOk (t :: ts) | e => e end.

Fixpoint lex (fuel : nat) (s : list N) : lres :=
  match fuel with
  | O => LFuel
  | S f =>
    match s with
    | [] => LOk []
    | c :: r =>
      if is_ws c then lex f r
      else if c =? 123 then lcons TLBrace (lex f r)
      else if c =? 125 then lcons TRBrace (lex f r)
      else if c =? 91 then lcons TLBrack (lex f r)
      else if c =? 93 then lcons TRBrack (lex f r)
      else if c =? 44 then lcons TComma (lex f r)
      else if c =? 58 then lcons TColon (lex f r)
      else if c =? 34 then
        match lex_str SN [] r with
        | Some (v, r') => lcons (TStr v) (lex f r')
        | None => LErr
        end
      else if c =? 110 then
        match strip_prefix [117; 108; 108] r with
        | Some r' => lcons TNull (lex f r')
        | None => LErr
        end
      else if c =? 116 then
        match strip_prefix [114; 117; 101] r with
        | Some r' => lcons TTrue (lex f r')
        | None => LErr
        end
      else if c =? 102 then
        match strip_prefix [97; 108; 115; 101] r with
        | Some r' => lcons TFalse (lex f r')
        | None => LErr
        end
      else if (c =? 45) || is_digit c then
        match lex_num s with
        | Some (l, r') => lcons (TNum l) (lex f r')
        | None => LErr
        end
      else LErr
    end
  end.

(* ------------------------------------------------------------------ grammar (sections 2-5) *)

Inductive pres := POk (v : jv) (rest : list tok) | PErr | PFuel.

Fixpoint pv (fuel : nat) (ts : list tok) {struct fuel} : pres :=
  match fuel with
  | O => PFuel
  | S f =>
    match ts with
    | TNull :: r => POk JNull r
    | TTrue :: r => POk (JBool true) r
    | TFalse :: r => POk (JBool false) r
    | TStr s :: r => POk (JStr s) r
    | TNum l :: r => POk (JNum l) r
    | TLBrack :: TRBrack :: r => POk (JArr []) r
    | TLBrack :: r => pelems f r []
    | TLBrace :: TRBrace :: r => POk (JObj []) r
    | TLBrace :: r => pmembers f r []
    | _ => PErr
    end
  end
with pelems (fuel : nat) (ts : list tok) (acc : list jv) {struct fuel} : pres :=
  match fuel with
  | O => PFuel
  | S f =>
    match pv f ts with
    | POk v (TComma :: r) => pelems f r (v :: acc)
    | POk v (TRBrack :: r) => POk (JArr (rev (v :: acc))) r
    | POk _ _ => PErr
    | e => e
    end
  end
with pmembers (fuel : nat) (ts : list tok) (acc : list (list N * jv)) {struct fuel} : pres :=
  match fuel with
  | O => PFuel
  | S f =>
    match ts with
    | TStr k :: TColon :: r =>
      match pv f r with
      | POk v (TComma :: r') => pmembers f r' ((k, v) :: acc)
      | POk v (TRBrace :: r') => POk (JObj (rev ((k, v) :: acc))) r'
      | POk _ _ => PErr
      | e => e
      end
    | _ => PErr
    end
  end.

(* ------------------------------------------------------------------ parser and printer *)

Inductive jres := JOk (v : jv) | JErr | JFuel.

(* JSON-text = ws value ws, nothing after it *)
Definition json_parse_cps (s : list N) : jres :=
  match lex (S (length s)) s with
  | LOk ts =>
    match pv (2 * length ts + 2) ts with
    | POk v [] => JOk v
    | POk _ _ => JErr
    | PErr => JErr
    | PFuel => JFuel
    end
  | LErr => JErr
  | LFuel => JFuel
  end.

(* bytes: strict UTF-8 (the decoder of the UTF family, proved to accept exactly the well-formed
   sequences of UtfSpec and to deliver their scalar values) *)
Definition utf8_decode (bytes : list N) : option (option (list N)) :=
  let r := transcode W8 W32 ThrowError [] bytes [] in
  match r_code r with
  | Success => Some (Some (r_out r))
  | OutOfFuel => None
  | _ => Some None
  end.

Definition json_parse (bytes : list N) : jres :=
  match utf8_decode bytes with
  | Some (Some cps) => json_parse_cps cps
  | Some None => JErr
  | None => JFuel
  end.

Fixpoint join_comma (l : list (list tok)) : list tok :=
  match l with
  | [] => []
  | [x] => x
  | x :: rest => x ++ TComma :: join_comma rest
  end.

Fixpoint tokens_of (d : jv) : list tok :=
  match d with
  | JNull => [TNull]
  | JBool true => [TTrue]
  | JBool false => [TFalse]
  | JNum l => [TNum l]
  | JStr s => [TStr s]
  | JArr l => TLBrack :: join_comma (map tokens_of l) ++ [TRBrack]
  | JObj m => TLBrace :: join_comma (map (fun kv => TStr (fst kv) :: TColon :: tokens_of (snd kv)) m) ++ [TRBrace]
  end.

Definition json_print_cps (d : jv) : list N := flat_map tok_text (tokens_of d).
Definition json_print (d : jv) : list N := encs W8 (json_print_cps d).

(* the same tokens with arbitrary text between them (used with whitespace) *)
Definition render_ws (ws0 : list N) (tws : list (tok * list N)) : list N :=
  ws0 ++ flat_map (fun tw => tok_text (fst tw) ++ snd tw) tws.

(* ------------------------------------------------------------------ well-formed DOMs *)

Fixpoint jwfb (d : jv) : bool :=
  match d with
  | JNull | JBool _ => true
  | JNum l => num_ok l
  | JStr s => forallb scalarb s
  | JArr l => forallb jwfb l
  | JObj m => forallb (fun kv => forallb scalarb (fst kv) && jwfb (snd kv)) m
  end.

Definition jwf (d : jv) : Prop := jwfb d = true.
