(* JxMemberOrder.v — what a JSON document loads does not depend on the order of the members of its objects, at any
   depth, for every target type of the model (classes, std::map, sequences, optionals, scalars), for any permutation. *)
From BS Require Import Base UtfSpec JxJsonSpec JxXmlSpec JxModel JxProofs.
From Coq Require Import Permutation.
Local Open Scope N_scope.

(* ================================================================== reordered documents *)

(* d' is d with the members of any of its objects, at any depth, permuted *)
Inductive reordered : rj -> rj -> Prop :=
| ro_same d : reordered d d
| ro_arr l l' : Forall2 reordered l l' -> reordered (RArr l) (RArr l')
| ro_obj m m1 m' : Forall2 (fun a b => fst a = fst b /\ reordered (snd a) (snd b)) m m1 -> Permutation m1 m' ->
    reordered (RObj m) (RObj m').

(* no object of the document, at any depth, has two members of the same name (with two, FindMember takes the first:
   order matters) *)
Fixpoint members_distinct (d : rj) : bool :=
  match d with
  | RArr l => forallb members_distinct l
  | RObj m => names_distinct (map fst m) && forallb (fun kv => members_distinct (snd kv)) m
  | _ => true
  end.

(* same result; when both raise: the same error if strict, else possibly different errors (a std::map is filled in
   document order, so which of two failing members is met first depends on the order) *)
Definition lsimb (strict : bool) (a b : lout) : Prop :=
  match a, b with
  | Loaded v, Loaded v' => v = v'
  | NotLoaded, NotLoaded => True
  | Failed e, Failed e' => strict = true -> e = e'
  | _, _ => False
  end.

Definition osimb (strict : bool) (a b : outcome) : Prop :=
  match a, b with
  | Ok v, Ok v' => v = v'
  | Err e, Err e' => strict = true -> e = e'
  | _, _ => False
  end.

Notation lsim := (lsimb false).

Lemma lsimb_refl s a : lsimb s a a.
Proof. destruct a; cbn; auto. Qed.

Lemma lsim_refl a : lsim a a.
Proof. apply lsimb_refl. Qed.

Lemma lsimb_weaken s a b : lsimb s a b -> lsim a b.
Proof. destruct a, b; cbn; auto. intros _ H. discriminate. Qed.

Lemma lsim_trans a b c : lsim a b -> lsim b c -> lsim a c.
Proof. destruct a, b, c; cbn; intros; try contradiction; try congruence; auto. Qed.

Lemma osimb_true a b : osimb true a b -> a = b.
Proof. destruct a, b; cbn; intros H; try contradiction; [subst; reflexivity | rewrite (H eq_refl); reflexivity]. Qed.

(* no std::map anywhere in the target type *)
Fixpoint map_free (t : ty) : bool :=
  match t with
  | TyMap _ => false
  | TyVec e | TyOpt e => map_free e
  | TyObj fields => forallb (fun f => map_free (snd f)) fields
  | _ => true
  end.

(* ================================================================== names *)

Lemma names_distinct_nodup ks : names_distinct ks = true -> NoDup ks.
Proof.
  induction ks as [|k r IH]; intros H; [constructor|].
  cbn [names_distinct] in H. apply andb_true_iff in H. destruct H as [H1 H2]. constructor; [|apply IH; exact H2].
  intros Hin. apply negb_true_iff in H1. assert (E : existsb (key_eqb k) r = true).
  { apply existsb_exists. exists k. split; [exact Hin | apply key_eqb_refl]. }
  congruence.
Qed.

Lemma find_member_in dm : NoDup (map fst dm) -> forall k x, In (k, x) dm -> find_member dm k = Some x.
Proof.
  induction dm as [|[k0 x0] dm IH]; intros Hnd k x Hin; [contradiction|].
  cbn [map fst] in Hnd. inversion Hnd as [|? ? Hn Hnd']; subst. cbn [find_member].
  destruct Hin as [E|Hin].
  - inversion E; subst. rewrite key_eqb_refl. reflexivity.
  - destruct (key_eqb k k0) eqn:E; [|apply IH; assumption].
    apply key_eqb_eq in E. subst. exfalso. apply Hn. apply (in_map fst) in Hin. exact Hin.
Qed.

Lemma find_member_perm m1 m' : Permutation m1 m' -> NoDup (map fst m1) -> forall k, find_member m1 k = find_member m' k.
Proof.
  induction 1 as [|[kx x] l l' Hp IH|[kx x] [ky y] l|l l' l'' Hp1 IH1 Hp2 IH2]; intros Hnd k.
  - reflexivity.
  - cbn [find_member]. cbn [map fst] in Hnd. inversion Hnd; subst. rewrite IH by assumption. reflexivity.
  - cbn [find_member]. destruct (key_eqb k ky) eqn:E1, (key_eqb k kx) eqn:E2; try reflexivity.
    apply key_eqb_eq in E1, E2. subst. cbn [map fst] in Hnd. inversion Hnd as [|? ? Hn _]; subst. exfalso. apply Hn. left. reflexivity.
  - rewrite IH1 by assumption. apply IH2. apply (Permutation_NoDup (Permutation_map fst Hp1)). exact Hnd.
Qed.

Definition mrel (a b : list N * rj) : Prop := fst a = fst b /\ reordered (snd a) (snd b).

Lemma mrel_keys m m1 : Forall2 mrel m m1 -> map fst m = map fst m1.
Proof. induction 1 as [|a b m m1 [Hk _] _ IH]; [reflexivity|]. cbn [map]. rewrite Hk, IH. reflexivity. Qed.

Lemma find_member_mrel m m1 k : Forall2 mrel m m1 -> forallb (fun kv => members_distinct (snd kv)) m = true ->
  match find_member m k, find_member m1 k with
  | Some x, Some x1 => reordered x x1 /\ members_distinct x = true
  | None, None => True
  | _, _ => False
  end.
Proof.
  induction 1 as [|[ka xa] [kb xb] m m1 [Hk Hr] _ IH]; intros Hd; [exact I|].
  cbn [fst snd] in *. subst kb. cbn [forallb snd] in Hd. apply andb_true_iff in Hd. destruct Hd as [Hd1 Hd2].
  cbn [find_member]. destruct (key_eqb k ka); [split; assumption | apply IH; exact Hd2].
Qed.

(* ================================================================== std::map::try_emplace in either order *)

Lemma key_cmp_gt_trans a b c : key_cmp a b = Gt -> key_cmp b c = Gt -> key_cmp a c = Gt.
Proof.
  intros H1 H2. rewrite (key_cmp_antisym b a) in H1. rewrite (key_cmp_antisym c b) in H2. rewrite (key_cmp_antisym c a).
  destruct (key_cmp b a) eqn:E1; try discriminate. destruct (key_cmp c b) eqn:E2; try discriminate.
  rewrite (key_cmp_trans c b a E2 E1). reflexivity.
Qed.

Lemma map_insert_comm_lt k1 v1 k2 v2 : key_cmp k1 k2 = Lt -> forall acc,
  map_insert k2 v2 (map_insert k1 v1 acc) = map_insert k1 v1 (map_insert k2 v2 acc).
Proof.
  intros Hlt. assert (Hgt : key_cmp k2 k1 = Gt) by (rewrite (key_cmp_antisym k1 k2), Hlt; reflexivity).
  induction acc as [|[h vh] r IH].
  - cbn [map_insert]. rewrite Hgt, Hlt. reflexivity.
  - cbn [map_insert]. destruct (key_cmp k1 h) eqn:E1.
    + (* k1 = h *) apply key_cmp_eq in E1. subst h. rewrite Hgt. cbn [map_insert]. rewrite Hgt, key_cmp_refl. reflexivity.
    + (* k1 < h *) cbn [map_insert]. rewrite Hgt.
      destruct (key_cmp k2 h) eqn:E2; cbn [map_insert]; rewrite ?Hlt, ?E1; try reflexivity.
    + (* k1 > h *) assert (E2 : key_cmp k2 h = Gt) by (apply (key_cmp_gt_trans k2 k1 h); assumption).
      rewrite E2. cbn [map_insert]. rewrite E1, E2, IH. reflexivity.
Qed.

Lemma map_insert_comm k1 v1 k2 v2 acc : k1 <> k2 ->
  map_insert k2 v2 (map_insert k1 v1 acc) = map_insert k1 v1 (map_insert k2 v2 acc).
Proof.
  intros Hne. destruct (key_cmp k1 k2) eqn:E.
  - apply key_cmp_eq in E. contradiction.
  - apply map_insert_comm_lt. exact E.
  - symmetry. apply map_insert_comm_lt. rewrite (key_cmp_antisym k1 k2), E. reflexivity.
Qed.

(* ================================================================== loading *)

Section MemberOrder.
  Variable i2d : Z -> N.
  Variable o : opts.

  Definition inv (s : bool) (t : ty) : Prop := forall d d', reordered d d' -> members_distinct d = true ->
    lsimb s (load_inner i2d o t d) (load_inner i2d o t d').

  Lemma inv_weaken s t : inv s t -> inv false t.
  Proof. intros H d d' Hr Hd. apply (lsimb_weaken s). apply H; assumption. Qed.

  (* a scalar target looks at the kind of the node only when the node is an array or an object *)
  Lemma scalar_inv s t : (forall d, load_inner i2d o t d = load_scalar i2d o t d) -> inv s t.
  Proof.
    intros Hs d d' H _. rewrite !Hs. inversion H as [d0 | l l' HF | m m1 m' HF HP]; subst.
    - apply lsimb_refl.
    - replace (load_scalar i2d o t (RArr l')) with (load_scalar i2d o t (RArr l)); [apply lsimb_refl|].
      destruct t; try reflexivity.
    - replace (load_scalar i2d o t (RObj m')) with (load_scalar i2d o t (RObj m)); [apply lsimb_refl|].
      destruct t; try reflexivity.
  Qed.

  (* sequences: item by item *)
  Definition vec_go (e : ty) :=
    fix go (prev : val) (l : list rj) : lout :=
      match l with
      | [] => Loaded (VArr [])
      | x :: r =>
        match load_inner i2d o e x with
        | Failed er => Failed er
        | res =>
          let xv := match res with Loaded v => v | _ => if is_boolty e then prev else default e end in
          match go xv r with
          | Loaded (VArr vs) => Loaded (VArr (xv :: vs))
          | other => other
          end
        end
      end.

  Lemma load_vec e l : load_inner i2d o (TyVec e) (RArr l) = vec_go e (VBool false) l.
  Proof. reflexivity. Qed.

  Lemma vec_inv s e : inv s e -> inv s (TyVec e).
  Proof.
    intros IH d d' H Hd. inversion H as [d0 | l l' HF | m m1 m' HF HP]; subst; [apply lsimb_refl | | apply lsimb_refl].
    rewrite !load_vec. cbn [members_distinct] in Hd. clear H. generalize (VBool false) as prev.
    induction HF as [|x x' l l' Hx _ IHl]; intros prev; [apply lsimb_refl|].
    cbn [forallb] in Hd. apply andb_true_iff in Hd. destruct Hd as [Hd1 Hd2].
    cbn [vec_go]. pose proof (IH x x' Hx Hd1) as G.
    destruct (load_inner i2d o e x) as [v| |er], (load_inner i2d o e x') as [v'| |er']; cbn [lsimb] in G; try contradiction; try exact G.
    - subst v'. pose proof (IHl Hd2 v) as G2. fold (vec_go e) in *.
      destruct (vec_go e v l) as [w| |], (vec_go e v l') as [w'| |]; cbn [lsimb] in G2; try contradiction; try exact G2.
      subst w'. destruct w; apply lsimb_refl.
    - set (pv := if is_boolty e then prev else default e). pose proof (IHl Hd2 pv) as G2. fold (vec_go e) in *.
      destruct (vec_go e pv l) as [w| |], (vec_go e pv l') as [w'| |]; cbn [lsimb] in G2; try contradiction; try exact G2.
      subst w'. destruct w; apply lsimb_refl.
  Qed.

  (* optionals and smart pointers *)
  Lemma opt_inv s e : inv s e -> inv s (TyOpt e).
  Proof.
    intros IH d d' H Hd. cbn [load_inner]. pose proof (IH d d' H Hd) as G.
    destruct (load_inner i2d o e d), (load_inner i2d o e d'); cbn [lsimb] in *; try contradiction; try exact G. subst. reflexivity.
  Qed.

  (* classes: every field looks its member up by name *)
  Lemma obj_inv s fields : Forall (fun f => inv s (snd f)) fields -> inv s (TyObj fields).
  Proof.
    intros IH d d' H Hd. inversion H as [d0 | l l' HF | m m1 m' HF HP]; subst; [apply lsimb_refl | apply lsimb_refl |].
    rewrite !load_obj. cbn [members_distinct] in Hd. apply andb_true_iff in Hd. destruct Hd as [Hn Hd].
    assert (Hnd : NoDup (map fst m1)) by (rewrite <- (mrel_keys m m1 HF); apply names_distinct_nodup; exact Hn).
    induction IH as [|[[k fk] ft] fs Hft _ IHfs]; [apply lsimb_refl|]. cbn [snd] in Hft.
    cbn [obj_go]. rewrite <- (find_member_perm m1 m' HP Hnd k).
    pose proof (find_member_mrel m m1 k HF Hd) as G.
    fold (obj_go i2d o m) in *. fold (obj_go i2d o m') in *.
    assert (G1 : lsimb s (match find_member m k with None => NotLoaded | Some x => load_inner i2d o ft x end)
                         (match find_member m1 k with None => NotLoaded | Some x => load_inner i2d o ft x end)).
    { destruct (find_member m k) as [x|], (find_member m1 k) as [x1|]; try contradiction; [|exact I].
      destruct G as [Gr Gd]. apply Hft; assumption. }
    destruct (match find_member m k with None => NotLoaded | Some x => load_inner i2d o ft x end) as [v| |er],
             (match find_member m1 k with None => NotLoaded | Some x => load_inner i2d o ft x end) as [v'| |er'];
      cbn [lsimb] in G1; try contradiction; try exact G1.
    - subst v'. destruct (obj_go i2d o m fs) as [w| |], (obj_go i2d o m' fs) as [w'| |]; cbn [lsimb] in IHfs; try contradiction; try exact IHfs.
      subst w'. destruct w; apply lsimb_refl.
    - destruct (obj_go i2d o m fs) as [w| |], (obj_go i2d o m' fs) as [w'| |]; cbn [lsimb] in IHfs; try contradiction; try exact IHfs.
      subst w'. destruct w; apply lsimb_refl.
  Qed.

  (* std::map: VisitKeys in document order; with distinct names every key finds its own value *)
  Definition map_direct (e : ty) :=
    fix go (ms : list (list N * rj)) (acc : list (list N * val)) : lout :=
      match ms with
      | [] => Loaded (VObj acc)
      | (k, x) :: r =>
        match load_inner i2d o e x with
        | Failed er => Failed er
        | Loaded v => go r (map_insert k v acc)
        | NotLoaded => go r (map_insert k (default e) acc)
        end
      end.

  Lemma map_go_direct e dm : forall ms acc, (forall k x, In (k, x) ms -> find_member dm k = Some x) ->
    map_go i2d o e dm ms acc = map_direct e ms acc.
  Proof.
    induction ms as [|[k x] r IH]; intros acc Hin; [reflexivity|].
    cbn [map_go map_direct]. rewrite (Hin k x (or_introl eq_refl)).
    assert (Hr : forall k0 x0, In (k0, x0) r -> find_member dm k0 = Some x0) by (intros; apply Hin; right; assumption).
    fold (map_go i2d o e dm). fold (map_direct e).
    destruct (load_inner i2d o e x); rewrite ?IH by exact Hr; reflexivity.
  Qed.

  Lemma load_map_direct e dm : NoDup (map fst dm) -> load_inner i2d o (TyMap e) (RObj dm) = map_direct e dm [].
  Proof. intros H. rewrite load_map. apply map_go_direct. intros k x. apply find_member_in. exact H. Qed.

  Lemma map_direct_mrel e : inv false e -> forall m m1, Forall2 mrel m m1 -> forallb (fun kv => members_distinct (snd kv)) m = true ->
    forall acc, lsim (map_direct e m acc) (map_direct e m1 acc).
  Proof.
    intros IH m m1 HF. induction HF as [|[ka xa] [kb xb] m m1 [Hk Hr] _ IHm]; intros Hd acc; [apply lsim_refl|].
    cbn [fst snd] in *. subst kb. cbn [forallb snd] in Hd. apply andb_true_iff in Hd. destruct Hd as [Hd1 Hd2].
    cbn [map_direct]. fold (map_direct e). pose proof (IH xa xb Hr Hd1) as G.
    destruct (load_inner i2d o e xa) as [v| |er], (load_inner i2d o e xb) as [v'| |er']; cbn [lsimb] in G; try contradiction; try exact G.
    - subst v'. apply IHm. exact Hd2.
    - apply IHm. exact Hd2.
  Qed.

  Lemma map_direct_perm e m1 m' : Permutation m1 m' -> NoDup (map fst m1) ->
    forall acc, lsim (map_direct e m1 acc) (map_direct e m' acc).
  Proof.
    induction 1 as [|[kx x] l l' Hp IH|[kx x] [ky y] l|l l' l'' Hp1 IH1 Hp2 IH2]; intros Hnd acc.
    - apply lsim_refl.
    - cbn [map fst] in Hnd. inversion Hnd; subst. cbn [map_direct]. fold (map_direct e).
      destruct (load_inner i2d o e x); [apply IH; assumption | apply IH; assumption | apply lsim_refl].
    - cbn [map fst] in Hnd. inversion Hnd as [|? ? Hn _]; subst.
      assert (Hne : ky <> kx) by (intros E; apply Hn; left; symmetry; exact E).
      cbn [map_direct]. fold (map_direct e).
      destruct (load_inner i2d o e y) as [vy| |ey], (load_inner i2d o e x) as [vx| |ex];
        try (rewrite (map_insert_comm ky _ kx _ acc Hne); apply lsim_refl);
        try (cbn [lsimb]; intros Hf; discriminate Hf);
        match goal with |- lsimb false ?a _ => destruct a; cbn [lsimb]; auto; intros Hf; discriminate Hf end.
    - apply (lsim_trans _ (map_direct e l' acc)); [apply IH1; exact Hnd|].
      apply IH2. apply (Permutation_NoDup (Permutation_map fst Hp1)). exact Hnd.
  Qed.

  Lemma map_inv s e : inv s e -> inv false (TyMap e).
  Proof.
    intros IH d d' H Hd. apply inv_weaken in IH.
    inversion H as [d0 | l l' HF | m m1 m' HF HP]; subst; [apply lsim_refl | apply lsim_refl |].
    cbn [members_distinct] in Hd. apply andb_true_iff in Hd. destruct Hd as [Hn Hd].
    pose proof (names_distinct_nodup _ Hn) as Hnd.
    assert (Hnd1 : NoDup (map fst m1)) by (rewrite <- (mrel_keys m m1 HF); exact Hnd).
    assert (Hnd' : NoDup (map fst m')) by (apply (Permutation_NoDup (Permutation_map fst HP)); exact Hnd1).
    rewrite (load_map_direct e m Hnd), (load_map_direct e m' Hnd').
    apply (lsim_trans _ (map_direct e m1 [])); [apply map_direct_mrel; assumption | apply map_direct_perm; assumption].
  Qed.

  (* every target type; strict (the same error, when both raise) for the types without a std::map *)
  Theorem load_inner_member_order t : inv (map_free t) t.
  Proof.
    induction t as [ | | k | | | e IH | e IH | fields IH | e IH | | names ] using ty_ind';
      try (apply scalar_inv; intros d; reflexivity).
    - apply vec_inv, IH.
    - apply (map_inv _ e IH).
    - apply obj_inv. cbn [map_free]. destruct (forallb (fun f => map_free (snd f)) fields) eqn:E.
      + apply Forall_forall. intros f Hf. pose proof (proj1 (Forall_forall _ _) IH f Hf) as G. cbn beta in G.
        rewrite (proj1 (forallb_forall _ _) E f Hf) in G. exact G.
      + apply Forall_forall. intros f Hf. pose proof (proj1 (Forall_forall _ _) IH f Hf) as G. cbn beta in G.
        apply (inv_weaken _ _ G).
    - apply opt_inv, IH.
  Qed.

  Theorem load_json_member_order t d d' : reordered d d' -> members_distinct d = true ->
    osimb (map_free t) (load_json i2d o t d) (load_json i2d o t d').
  Proof.
    intros H Hd. unfold load_json. pose proof (load_inner_member_order t d d' H Hd) as G.
    destruct (load_inner i2d o t d), (load_inner i2d o t d'); cbn [lsimb] in G; try contradiction; cbn [osimb]; try exact I; try exact G; subst; reflexivity.
  Qed.

  Corollary load_json_member_order_eq t d d' : map_free t = true -> reordered d d' -> members_distinct d = true ->
    load_json i2d o t d = load_json i2d o t d'.
  Proof. intros Hm H Hd. apply osimb_true. rewrite <- Hm. apply load_json_member_order; assumption. Qed.
End MemberOrder.

(* ================================================================== building reorderings; examples *)

Lemma mrel_refl m : Forall2 mrel m m.
Proof. induction m as [|a m IH]; constructor; [split; [reflexivity | apply ro_same] | exact IH]. Qed.

(* any permutation of the members of the root object *)
Lemma reordered_perm m m' : Permutation m m' -> reordered (RObj m) (RObj m').
Proof. intros H. apply (ro_obj m m m'); [apply mrel_refl | exact H]. Qed.

(* ... of which the exchange of two neighbours is one *)
Lemma reordered_swap m1 a b m2 : reordered (RObj (m1 ++ a :: b :: m2)) (RObj (m1 ++ b :: a :: m2)).
Proof. apply reordered_perm. apply Permutation_app_head. apply perm_swap. Qed.

(* a member value reordered inside, the members then permuted *)
Lemma reordered_inside m1 k x x' m2 m' : reordered x x' -> Permutation (m1 ++ (k, x') :: m2) m' ->
  reordered (RObj (m1 ++ (k, x) :: m2)) (RObj m').
Proof.
  intros Hx Hp. apply (ro_obj _ (m1 ++ (k, x') :: m2)); [|exact Hp].
  apply Forall2_app; [apply mrel_refl|]. constructor; [split; [reflexivity | exact Hx] | apply mrel_refl].
Qed.

(* two failing members of a std::map target: which error is raised depends on the order (hence up to the error) *)
Example map_error_depends_on_order i2d :
  load_json i2d mkT (TyMap (TyInt U8)) (RObj [([97], RStr [120]); ([98], RInt 300)]) = Err EMismatch /\
  load_json i2d mkT (TyMap (TyInt U8)) (RObj [([98], RInt 300); ([97], RStr [120])]) = Err EOverflow.
Proof. split; reflexivity. Qed.

(* a nested document into a class holding a map of classes: the reordering at three depths loads the same *)
Example member_order_example i2d :
  let t := TyObj [([109], FElem, TyMap (TyObj [([120], FElem, TyInt I32); ([121], FElem, TyStr)])); ([110], FElem, TyBool)] in
  let d  := RObj [([109], RObj [([97], RObj [([120], RInt 1); ([121], RStr [117])]); ([98], RObj [([120], RInt 2); ([121], RStr [118])])]); ([110], RBool true)] in
  let d' := RObj [([110], RBool true); ([109], RObj [([98], RObj [([121], RStr [118]); ([120], RInt 2)]); ([97], RObj [([120], RInt 1); ([121], RStr [117])])])] in
  load_json i2d mkT t d = load_json i2d mkT t d' /\
  load_json i2d mkT t d = Ok (VObj [([109], VObj [([97], VObj [([120], VInt 1); ([121], VStr [117])]); ([98], VObj [([120], VInt 2); ([121], VStr [118])])]); ([110], VBool true)]).
Proof. split; reflexivity. Qed.
