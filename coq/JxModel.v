(* JxModel.v — executable mirror of the adapter logic of rapidjson_archive.h and pugixml_archive.h:
   which DOM the archive builds for a typed value (which setter / constructor at root, array and
   object level), how a DOM is read back into a typed target (type checks, ConvertByPolicy,
   mismatch / overflow policies), what Finalize() does with the writer's result.  RapidJSON and
   pugixml themselves are not modelled: their number <-> text conversions enter as the functions
   [dtoa], [strtod], [i2d] given as arguments (oracles), the rest of their behaviour (in-memory
   DOM <-> text) is the small, explicit interface [accept] / [rj_of_jv] below, validated document
   by document by props/C08.py.  No proofs here. *)
From BS Require Import Base UtfSpec JxJsonSpec JxXmlSpec.
Local Open Scope N_scope.

(* ------------------------------------------------------------------ typed values *)

Inductive ity := I8 | U8 | I16 | U16 | I32 | U32 | I64 | U64.

Definition ity_min (k : ity) : Z :=
  match k with
  | I8 => -128 | I16 => -32768 | I32 => -2147483648 | I64 => -9223372036854775808
  | _ => 0
  end%Z.
Definition ity_max (k : ity) : Z :=
  match k with
  | I8 => 127 | U8 => 255 | I16 => 32767 | U16 => 65535 | I32 => 2147483647 | U32 => 4294967295
  | I64 => 9223372036854775807 | U64 => 18446744073709551615
  end%Z.
Definition in_range (k : ity) (z : Z) : bool := ((ity_min k <=? z) && (z <=? ity_max k))%Z.

(* a class member is an element (KeyValue) or, in XML only, an attribute (AttributeValue) *)
Inductive fkind := FElem | FAttr.

Inductive ty :=
| TyNull                                        (* std::nullptr_t *)
| TyBool
| TyInt (k : ity)
| TyDbl                                         (* double, as its 64 IEEE bits *)
| TyStr                                         (* std::string holding UTF-8; here: code points *)
| TyVec (e : ty)                                (* std::vector<T> *)
| TyMap (e : ty)                                (* std::map<std::string, T> *)
| TyObj (fields : list (list N * fkind * ty))   (* class with Serialize(): members in declaration order *)
| TyOpt (e : ty)                                (* std::optional<T>, std::unique_ptr<T>, std::shared_ptr<T> *)
| TyFlt                                         (* float; a value is given by the IEEE bits of the same number as a double *)
| TyEnum (names : list (list N)).               (* enum registered with REGISTER_ENUM: the names, by index *)

Inductive val :=
| VNull
| VBool (b : bool)
| VInt (z : Z)
| VDbl (bits : N)
| VStr (s : list N)
| VArr (l : list val)
| VObj (m : list (list N * val))
| VOpt (x : option val)
| VFlt (dbits : N)
| VEnum (i : N).

(* lexicographic order on names (= byte order of their UTF-8 forms = std::map<std::string> order) *)
Fixpoint key_cmp (a b : list N) : comparison :=
  match a, b with
  | [], [] => Eq
  | [], _ :: _ => Lt
  | _ :: _, [] => Gt
  | x :: a', y :: b' => match x ?= y with Eq => key_cmp a' b' | c => c end
  end.
Definition key_eqb (a b : list N) : bool := match key_cmp a b with Eq => true | _ => false end.
Definition key_ltb (a b : list N) : bool := match key_cmp a b with Lt => true | _ => false end.

Fixpoint keys_sorted (ks : list (list N)) : bool :=
  match ks with
  | a :: ((b :: _) as r) => key_ltb a b && keys_sorted r
  | _ => true
  end.

Definition is_nonfinite (bits : N) : bool := (bits / 4503599627370496) mod 2048 =? 2047.

(* ---- float as the double of the same value *)
Definition d_exp (b : N) : N := (b / 4503599627370496) mod 2048.
Definition d_man (b : N) : N := b mod 4503599627370496.

(* the double is exactly a float value (zero, float normal or subnormal, infinity / NaN) *)
Definition flt_exact (b : N) : bool :=
  let e := d_exp b in let m := d_man b in
  if e =? 0 then m =? 0
  else if e =? 2047 then true
  else (874 <=? e) && (e <=? 1150) && (m mod 2 ^ (N.max 29 (926 - e)) =? 0).

(* Convert::To<float>(double): lowest() <= x <= max() (false for NaN and the infinities) *)
Definition dbl_in_flt_range (b : N) : bool := b mod 9223372036854775808 <=? 0x47EFFFFFE0000000.

(* static_cast<float>(double), round to nearest even, for a double in that range *)
Definition flt_round (b : N) : N :=
  let s := b / 9223372036854775808 in let e := d_exp b in let m := d_man b in
  if e =? 0 then s * 9223372036854775808
  else
    let M := 4503599627370496 + m in
    let q := N.max 29 (926 - e) in
    let lo := M mod 2 ^ q in let hi := M / 2 ^ q in
    let half := 2 ^ (q - 1) in
    let hi' := if (half <? lo) || ((lo =? half) && N.odd hi) then hi + 1 else hi in
    if hi' =? 0 then s * 9223372036854775808
    else
      let L := N.size hi' in
      s * 9223372036854775808 + (e + q + L - 53) * 4503599627370496 + (hi' * 2 ^ (53 - L) - 4503599627370496).

(* ---- enums: EnumRegistry::GetEnumMetadata(name) compares case-insensitively (ASCII), first match *)
Fixpoint find_enum (names : list (list N)) (s : list N) (i : N) : option N :=
  match names with
  | [] => None
  | n :: r => if list_eqb (map lower n) (map lower s) then Some i else find_enum r s (i + 1)
  end.

Fixpoint has_type (t : ty) (v : val) {struct t} : bool :=
  match t, v with
  | TyNull, VNull => true
  | TyBool, VBool _ => true
  | TyInt k, VInt z => in_range k z
  | TyDbl, VDbl b => b <? 18446744073709551616
  | TyStr, VStr s => forallb scalarb s
  | TyVec e, VArr l => forallb (has_type e) l
  | TyMap e, VObj m => forallb (fun kv => forallb scalarb (fst kv) && has_type e (snd kv)) m && keys_sorted (map fst m)
  | TyObj fields, VObj m =>
    (fix go (fs : list (list N * fkind * ty)) (ms : list (list N * val)) : bool :=
       match fs, ms with
       | [], [] => true
       | (k, _, ft) :: fs', (k', fv) :: ms' => key_eqb k k' && has_type ft fv && go fs' ms'
       | _, _ => false
       end) fields m
  | TyOpt e, VOpt None => true
  | TyOpt e, VOpt (Some x) => has_type e x
  | TyFlt, VFlt d => (d <? 18446744073709551616) && flt_exact d
  | TyEnum names, VEnum i => i <? N.of_nat (length names)
  | _, _ => false
  end.

Fixpoint default (t : ty) : val :=
  match t with
  | TyNull => VNull
  | TyBool => VBool false
  | TyInt _ => VInt 0
  | TyDbl => VDbl 0
  | TyStr => VStr []
  | TyVec _ => VArr []
  | TyMap _ => VObj []
  | TyObj fields => VObj (map (fun f => (fst (fst f), default (snd f))) fields)
  | TyOpt _ => VOpt None
  | TyFlt => VFlt 0
  | TyEnum _ => VEnum 0
  end.

(* ------------------------------------------------------------------ RapidJSON's in-memory DOM *)

(* A GenericValue: numbers are typed.  Integers are one constructor: the flag set of a RapidJSON
   number (Int/Uint/Int64/Uint64) is a function of its value, whichever setter stored it. *)
Inductive rj :=
| RNull
| RBool (b : bool)
| RInt (z : Z)                    (* -2^63 <= z < 2^64 *)
| RDbl (bits : N)
| RStr (s : list N)
| RArr (l : list rj)
| RObj (m : list (list N * rj)).

(* SetInt(value) / SetUint(value): the argument is converted to int / unsigned (32 bits) *)
Definition wrap32 (z : Z) : Z := ((z + 2147483648) mod 4294967296 - 2147483648)%Z.
Definition wrapu32 (z : Z) : Z := (z mod 4294967296)%Z.

(* scalar stored through the GenericValue constructors used by the array / object scopes
   (PushBack(T), RapidJsonNode(value)): int, unsigned, int64_t, uint64_t, double, bool: exact *)
Definition save_scalar_inner (t : ty) (v : val) : option rj :=
  match t, v with
  | TyNull, VNull => Some RNull
  | TyBool, VBool b => Some (RBool b)
  | TyInt _, VInt z => Some (RInt z)
  | TyDbl, VDbl b => Some (RDbl b)
  | TyStr, VStr s => Some (RStr s)
  | TyFlt, VFlt d => Some (RDbl d)                                   (* float promotes to double *)
  | TyEnum names, VEnum i => option_map RStr (nth_error names (N.to_nat i))   (* the registered name, as a string *)
  | _, _ => None
  end.

(* scalar stored by RapidJsonRootScope::SerializeValue: SetBool / SetInt64 / SetUint64 / SetUint (the other unsigned
   types) / SetInt (the other signed types) / SetDouble / SetNull / SetString *)
Definition save_scalar_root (t : ty) (v : val) : option rj :=
  match t, v with
  | TyInt I64, VInt z => Some (RInt z)
  | TyInt U64, VInt z => Some (RInt z)
  | TyInt U8, VInt z | TyInt U16, VInt z | TyInt U32, VInt z => Some (RInt (wrapu32 z))
  | TyInt _, VInt z => Some (RInt (wrap32 z))
  | _, _ => save_scalar_inner t v
  end.

Definition opt_map {A B} (f : A -> option B) : list A -> option (list B) :=
  fix go (l : list A) : option (list B) :=
    match l with
    | [] => Some []
    | x :: r => match f x, go r with Some y, Some ys => Some (y :: ys) | _, _ => None end
    end.

Fixpoint save_inner (t : ty) (v : val) {struct t} : option rj :=
  match t, v with
  | TyVec e, VArr l => option_map RArr (opt_map (save_inner e) l)
  | TyMap e, VObj m =>
    option_map RObj (opt_map (fun kv => option_map (fun d => (fst kv, d)) (save_inner e (snd kv))) m)
  | TyObj fields, VObj m =>
    option_map RObj
      ((fix go (fs : list (list N * fkind * ty)) (ms : list (list N * val)) : option (list (list N * rj)) :=
          match fs, ms with
          | [], [] => Some []
          | (k, FElem, ft) :: fs', (_, fv) :: ms' =>
            match save_inner ft fv, go fs' ms' with Some d, Some ds => Some ((k, d) :: ds) | _, _ => None end
          | _, _ => None                       (* attributes are not supported by the JSON archive *)
          end) fields m)
  | TyOpt e, VOpt None => Some RNull           (* Serialize(archive, nullptr) *)
  | TyOpt e, VOpt (Some x) => save_inner e x
  | _, _ => save_scalar_inner t v
  end.

Definition save_root1 (t : ty) (v : val) : option rj :=
  match t with
  | TyVec _ | TyMap _ | TyObj _ | TyOpt _ => save_inner t v
  | _ => save_scalar_root t v
  end.

Definition save_json (t : ty) (v : val) : option rj :=
  match t, v with
  | TyOpt e, VOpt None => Some RNull
  | TyOpt e, VOpt (Some x) => save_root1 e x
  | _, _ => save_root1 t v
  end.

(* ------------------------------------------------------------------ the writer and Finalize() *)

(* decimal digits of a natural number *)
Fixpoint dec_digits (fuel : nat) (n : N) (acc : list N) : list N :=
  match fuel with
  | O => acc
  | S f => if n <? 10 then (48 + n) :: acc else dec_digits f (n / 10) ((48 + n mod 10) :: acc)
  end.
Definition dec_of_N (n : N) : list N := dec_digits (S (N.to_nat (N.size n))) n [].
Definition dec_of_Z (z : Z) : list N :=
  match z with
  | Zneg p => 45 :: dec_of_N (Npos p)
  | _ => dec_of_N (Z.to_N z)
  end.

(* what the RapidJSON Writer is asked to emit: tokens; a double is left to the library's dtoa *)
Inductive wev := WTok (t : tok) | WDbl (bits : N).

(* GenericValue::Accept(Writer): events in order; stops at the first handler call that fails.
   Writer::Double fails on NaN/Inf after the separator was written. *)
Fixpoint accept (d : rj) : bool * list wev :=
  match d with
  | RNull => (true, [WTok TNull])
  | RBool b => (true, [WTok (if b then TTrue else TFalse)])
  | RInt z => (true, [WTok (TNum (dec_of_Z z))])
  | RDbl b => if is_nonfinite b then (false, []) else (true, [WDbl b])
  | RStr s => (true, [WTok (TStr s)])
  | RArr l =>
    let fix go (first : bool) (l : list rj) : bool * list wev :=
      match l with
      | [] => (true, [WTok TRBrack])
      | x :: r =>
        let sep := if first then [] else [WTok TComma] in
        let (ok, ev) := accept x in
        if ok then let (ok2, ev2) := go false r in (ok2, sep ++ ev ++ ev2)
        else (false, sep ++ ev)
      end in
    let (ok, ev) := go true l in (ok, WTok TLBrack :: ev)
  | RObj m =>
    let fix go (first : bool) (m : list (list N * rj)) : bool * list wev :=
      match m with
      | [] => (true, [WTok TRBrace])
      | (k, x) :: r =>
        let sep := if first then [] else [WTok TComma] in
        let (ok, ev) := accept x in
        if ok then let (ok2, ev2) := go false r in (ok2, sep ++ WTok (TStr k) :: WTok TColon :: ev ++ ev2)
        else (false, sep ++ WTok (TStr k) :: WTok TColon :: ev)
      end in
    let (ok, ev) := go true m in (ok, WTok TLBrace :: ev)
  end.

(* RapidJsonRootScope::Finalize(): CheckWriterResult(mRootJson.Accept(writer)) — a writer failure is raised as
   SerializationException(OutOfRange); otherwise what reached the buffer / stream is the document *)
Inductive fres := FDoc (ev : list wev) | FError.

Definition finalize_json (d : rj) : fres := let (ok, ev) := accept d in if ok then FDoc ev else FError.

(* the code before the repair (finding F26): the result of Accept was dropped *)
Definition finalize_json_unchecked (d : rj) : fres := let (_, ev) := accept d in FDoc ev.

(* ------------------------------------------------------------------ output options (serialization_options.h) *)

Inductive utf := Utf8 | Utf16le | Utf16be | Utf32le | Utf32be.     (* Convert::Utf::UtfType, the values the archives support *)

(* medium (std::string or std::ostream), streamOptions.encoding / writeBom, formatOptions.enableFormat / paddingChar / paddingCharNum *)
Record sopts := mkSopts { so_stream : bool; so_enc : utf; so_bom : bool; so_fmt : bool; so_pad : N; so_cnt : N }.

(* what RapidJsonRootScope::Finalize() configures: Writer or PrettyWriter + SetIndent(char, count); for a stream an
   AutoUTFOutputStream(osw, ToRapidUtfType(encoding), writeBom), for a string a UTF-8 StringBuffer *)
Inductive rj_utf := kUTF8 | kUTF16LE | kUTF16BE | kUTF32LE | kUTF32BE.
Record rj_writer := mkW { w_indent : option (N * N); w_utf : rj_utf; w_bom : bool }.

Definition to_rapid_utf (u : utf) : rj_utf :=
  match u with Utf8 => kUTF8 | Utf16le => kUTF16LE | Utf16be => kUTF16BE | Utf32le => kUTF32LE | Utf32be => kUTF32BE end.

Definition json_writer (o : sopts) : rj_writer :=
  {| w_indent := if so_fmt o then Some (so_pad o, so_cnt o) else None;
     w_utf := if so_stream o then to_rapid_utf (so_enc o) else kUTF8;
     w_bom := so_stream o && so_bom o |}.

(* third party (validated per document): what an AutoUTFOutputStream of that type puts out for a text *)
Definition rj_scheme (t : rj_utf) : width * endian :=
  match t with kUTF8 => (W8, LE) | kUTF16LE => (W16, LE) | kUTF16BE => (W16, BE) | kUTF32LE => (W32, LE) | kUTF32BE => (W32, BE) end.
Definition rj_bom (t : rj_utf) : list N :=
  match t with
  | kUTF8 => [0xEF; 0xBB; 0xBF] | kUTF16LE => [0xFF; 0xFE] | kUTF16BE => [0xFE; 0xFF]
  | kUTF32LE => [0xFF; 0xFE; 0; 0] | kUTF32BE => [0; 0; 0xFE; 0xFF]
  end.
Definition rj_put (w : rj_writer) (cps : list N) : list N :=
  (if w_bom w then rj_bom (w_utf w) else []) ++ units_bytes (snd (rj_scheme (w_utf w))) (fst (rj_scheme (w_utf w))) (encs (fst (rj_scheme (w_utf w))) cps).

(* ------------------------------------------------------------------ reading a document *)

(* how GenericReader types a number of a standard document: an integer spelling that fits 64 bits
   is an integer, everything else is a double (through the library's strtod) *)
Definition int_lexeme (l : list N) : bool :=
  negb (existsb (fun c => (c =? 46) || (c =? 101) || (c =? 69)) l).

Section Oracles.
  Variable strtod : list N -> option N. (* number lexeme -> IEEE bits as RapidJSON parses it; None = "number too big" *)
  Variable i2d : Z -> N.                (* static_cast<double>(int64_t / uint64_t) *)

  Definition classify_num (l : list N) : option rj :=
    if int_lexeme l then
      match num_den l with
      | Some (neg, d, _) =>
        let z := if neg then (- Z.of_N d)%Z else Z.of_N d in
        if ((-9223372036854775808 <=? z) && (z <=? 18446744073709551615))%Z then Some (RInt z)
        else option_map RDbl (strtod l)
      | None => None
      end
    else option_map RDbl (strtod l).

  (* None: the reader reports a parse error (a number outside the range of double) *)
  Fixpoint rj_of_jv (d : jv) : option rj :=
    match d with
    | JNull => Some RNull
    | JBool b => Some (RBool b)
    | JNum l => classify_num l
    | JStr s => Some (RStr s)
    | JArr l => option_map RArr (opt_map rj_of_jv l)
    | JObj m =>
      option_map RObj
        ((fix go (m : list (list N * jv)) : option (list (list N * rj)) :=
            match m with
            | [] => Some []
            | (k, x) :: r => match rj_of_jv x, go r with Some y, Some ys => Some ((k, y) :: ys) | _, _ => None end
            end) m)
    end.

  (* ---------------------------------------------------------------- loading *)

  Inductive err := EMismatch | EOverflow | EOutOfRange | EParse | EUtf.
  Inductive lout := Loaded (v : val) | NotLoaded | Failed (e : err).
  Record opts := mkOpts { mism_throw : bool; ovf_throw : bool }.

  Definition mismatch (o : opts) : lout := if mism_throw o then Failed EMismatch else NotLoaded.
  Definition overflow (o : opts) : lout := if ovf_throw o then Failed EOverflow else NotLoaded.

  (* RapidJsonScopeBase::LoadValue for fundamental types and for strings *)
  Definition load_scalar (o : opts) (t : ty) (d : rj) : lout :=
    match t with
    | TyNull => match d with RNull => Loaded VNull | _ => mismatch o end
    | TyBool =>
      match d with
      | RNull => NotLoaded
      | RBool b => Loaded (VBool b)
      | RInt z => if (z =? 0)%Z then Loaded (VBool false) else if (z =? 1)%Z then Loaded (VBool true) else overflow o
      | _ => mismatch o
      end
    | TyInt k =>
      match d with
      | RNull => NotLoaded
      | RBool b => Loaded (VInt (if b then 1 else 0))
      | RInt z => if in_range k z then Loaded (VInt z) else overflow o
      | _ => mismatch o
      end
    | TyDbl =>
      match d with
      | RNull => NotLoaded
      | RInt z => Loaded (VDbl (i2d z))
      | RDbl b => Loaded (VDbl b)
      | _ => mismatch o
      end
    | TyStr => match d with RNull => NotLoaded | RStr s => Loaded (VStr s) | _ => mismatch o end
    | TyFlt =>
      let conv (b : N) := if dbl_in_flt_range b then Loaded (VFlt (flt_round b)) else overflow o in
      match d with
      | RNull => NotLoaded
      | RInt z => conv (i2d z)
      | RDbl b => conv b
      | _ => mismatch o
      end
    | TyEnum names =>
      match d with
      | RNull => NotLoaded
      | RStr s => match find_enum names s 0 with Some i => Loaded (VEnum i) | None => mismatch o end
      | _ => mismatch o
      end
    | _ => mismatch o
    end.

  Definition is_boolty (t : ty) : bool := match t with TyBool => true | _ => false end.

  (* FindMember: first member with that name *)
  Fixpoint find_member (m : list (list N * rj)) (k : list N) : option rj :=
    match m with
    | [] => None
    | (k', d) :: r => if key_eqb k k' then Some d else find_member r k
    end.

  (* std::map::try_emplace: insert in key order unless the key is present *)
  Fixpoint map_insert (k : list N) (v : val) (m : list (list N * val)) : list (list N * val) :=
    match m with
    | [] => [(k, v)]
    | (k', v') :: r =>
      match key_cmp k k' with
      | Lt => (k, v) :: m
      | Eq => (k', v) :: r
      | Gt => (k', v') :: map_insert k v r
      end
    end.

  Fixpoint load_inner (o : opts) (t : ty) (d : rj) {struct t} : lout :=
    match t with
    | TyVec e =>
      match d with
      | RArr l =>
        (* an item that is not loaded is reset to T(); std::vector<bool> is read through one local bool, which keeps the
           value of the previous item *)
        (fix go (prev : val) (l : list rj) : lout :=
           match l with
           | [] => Loaded (VArr [])
           | x :: r =>
             match load_inner o e x with
             | Failed er => Failed er
             | res =>
               let xv := match res with Loaded v => v | _ => if is_boolty e then prev else default e end in
               match go xv r with
               | Loaded (VArr vs) => Loaded (VArr (xv :: vs))
               | other => other
               end
             end
           end) (VBool false) l
      | RNull => NotLoaded                 (* HandleMismatchedScopePolicy: null is "not loaded", no policy *)
      | _ => mismatch o
      end
    | TyMap e =>
      match d with
      | RObj m =>
        (fix go (ms : list (list N * rj)) (acc : list (list N * val)) : lout :=
           match ms with
           | [] => Loaded (VObj acc)
           | (k, _) :: r =>
             let ck := k in                       (* VisitKeys hands over the name with its length *)
             match find_member m ck with
             | None => go r (map_insert ck (default e) acc)          (* entry created, value not found *)
             | Some x =>
               match load_inner o e x with
               | Failed er => Failed er
               | Loaded v => go r (map_insert ck v acc)
               | NotLoaded => go r (map_insert ck (default e) acc)
               end
             end
           end) m []
      | RNull => NotLoaded
      | _ => mismatch o
      end
    | TyObj fields =>
      match d with
      | RObj m =>
        (fix go (fs : list (list N * fkind * ty)) : lout :=
           match fs with
           | [] => Loaded (VObj [])
           | (k, _, ft) :: fs' =>
             let r := match find_member m k with
                      | None => NotLoaded
                      | Some x => load_inner o ft x
                      end in
             match r with
             | Failed er => Failed er
             | _ =>
               let fv := match r with Loaded v => v | _ => default ft end in
               match go fs' with
               | Loaded (VObj vs) => Loaded (VObj ((k, fv) :: vs))
               | other => other
               end
             end
           end) fields
      | RNull => NotLoaded
      | _ => mismatch o
      end
    | TyOpt e =>
      (* the target is engaged with T(), loaded, and reset when nothing was loaded *)
      match load_inner o e d with
      | Loaded v => Loaded (VOpt (Some v))
      | other => other
      end
    | _ => load_scalar o t d
    end.

  (* LoadObject into a fresh target: what the target holds afterwards, or the exception *)
  Inductive outcome := Ok (v : val) | Err (e : err).

  Definition load_json (o : opts) (t : ty) (d : rj) : outcome :=
    match load_inner o t d with
    | Loaded v => Ok v
    | NotLoaded => Ok (default t)
    | Failed e => Err e
    end.

  Definition load_json_text (o : opts) (t : ty) (cps : list N) : outcome :=
    match json_parse_cps cps with
    | JOk d => match rj_of_jv d with Some r => load_json o t r | None => Err EParse end
    | _ => Err EParse
    end.
End Oracles.

(* ------------------------------------------------------------------ comparing a document with the model *)

Definition tok_eqb (a b : tok) : bool :=
  match a, b with
  | TLBrace, TLBrace | TRBrace, TRBrace | TLBrack, TLBrack | TRBrack, TRBrack
  | TComma, TComma | TColon, TColon | TNull, TNull | TTrue, TTrue | TFalse, TFalse => true
  | TStr s, TStr s' => key_eqb s s'
  | TNum l, TNum l' => num_same_value l l' && Bool.eqb (int_lexeme l) (int_lexeme l')
  | _, _ => false
  end.

(* dbl_match bits lexeme: the lexeme denotes a number that rounds to exactly this double *)
Fixpoint events_match (dbl_match : N -> list N -> bool) (ev : list wev) (ts : list tok) : bool :=
  match ev, ts with
  | [], [] => true
  | WTok t :: ev', t' :: ts' => tok_eqb t t' && events_match dbl_match ev' ts'
  | WDbl b :: ev', TNum l :: ts' => dbl_match b l && events_match dbl_match ev' ts'
  | _, _ => false
  end.

Fixpoint rj_match (dbl_match : N -> list N -> bool) (d : rj) (j : jv) {struct d} : bool :=
  match d, j with
  | RNull, JNull => true
  | RBool b, JBool b' => Bool.eqb b b'
  | RInt z, JNum l => int_lexeme l && num_same_value l (dec_of_Z z)
  | RDbl b, JNum l => dbl_match b l
  | RStr s, JStr s' => key_eqb s s'
  | RArr l, JArr l' =>
    (fix go (l : list rj) (l' : list jv) : bool :=
       match l, l' with
       | [], [] => true
       | x :: r, y :: r' => rj_match dbl_match x y && go r r'
       | _, _ => false
       end) l l'
  | RObj m, JObj m' =>
    (fix go (m : list (list N * rj)) (m' : list (list N * jv)) : bool :=
       match m, m' with
       | [], [] => true
       | (k, x) :: r, (k', y) :: r' => key_eqb k k' && rj_match dbl_match x y && go r r'
       | _, _ => false
       end) m m'
  | _, _ => false
  end.

(* ================================================================== XML (pugixml_archive.h) *)

Definition s_value : list N := [118; 97; 108; 117; 101].
Definition s_array : list N := [97; 114; 114; 97; 121].
Definition s_object : list N := [111; 98; 106; 101; 99; 116].
Definition s_root : list N := [114; 111; 111; 116].
Definition s_true : list N := [116; 114; 117; 101].
Definition s_false : list N := [102; 97; 108; 115; 101].

(* the name the array scope gives to an item: SerializeValue -> "value", OpenArrayScope -> "array",
   OpenObjectScope -> "object" *)
Fixpoint item_name (t : ty) (v : val) : list N :=
  match t, v with
  | TyVec _, _ => s_array
  | TyMap _, _ | TyObj _, _ => s_object
  | TyOpt e, VOpt (Some x) => item_name e x
  | _, _ => s_value                              (* scalars; an empty optional is written as nullptr *)
  end.

Section XmlOracles.
  Variable dtoa17 : N -> list N.               (* pugixml text().set(double): printf("%.17g") *)
  Variable dtoa9 : N -> list N.                (* pugixml text().set(float): printf("%.9g"); the float as double bits *)
  (* std::from_chars on the text: None = not a number, Some None = out of the type's range, Some (Some bits) *)
  Variable xstrtod : list N -> option (option N).
  Variable xstrtof : list N -> option (option N).     (* float, as the double of the same value *)

  (* text written by xml_text::set / xml_attribute::set_value for a fundamental value or a string *)
  Definition scalar_text (t : ty) (v : val) : option (list N) :=
    match t, v with
    | TyNull, VNull => Some []
    | TyBool, VBool b => Some (if b then s_true else s_false)
    | TyInt _, VInt z => Some (dec_of_Z z)
    | TyDbl, VDbl b => Some (dtoa17 b)
    | TyStr, VStr s => Some s
    | TyFlt, VFlt d => Some (dtoa9 d)
    | TyEnum names, VEnum i => nth_error names (N.to_nat i)
    | _, _ => None
    end.

  Definition text_child (s : list N) : list xnode := match s with [] => [] | _ => [XText s] end.

  (* the element <name ...>...</name> that represents the value *)
  Fixpoint xml_elem (name : list N) (t : ty) (v : val) {struct t} : option xnode :=
    match t, v with
    | TyVec e, VArr l => option_map (XElem name []) (opt_map (fun x => xml_elem (item_name e x) e x) l)
    | TyMap e, VObj m =>
      option_map (XElem name [])
        ((fix go (m : list (list N * val)) : option (list xnode) :=
            match m with
            | [] => Some []
            | (k, x) :: r => match xml_elem k e x, go r with Some c, Some cs => Some (c :: cs) | _, _ => None end
            end) m)
    | TyObj fields, VObj m =>
      (fix go (fs : list (list N * fkind * ty)) (ms : list (list N * val)) (attrs : list (list N * list N)) (ch : list xnode) : option xnode :=
         match fs, ms with
         | [], [] => Some (XElem name (rev attrs) (rev ch))
         | (k, FAttr, ft) :: fs', (_, fv) :: ms' =>
           match scalar_text ft fv with Some s => go fs' ms' ((k, s) :: attrs) ch | None => None end
         | (k, FElem, ft) :: fs', (_, fv) :: ms' =>
           match xml_elem k ft fv with Some c => go fs' ms' attrs (c :: ch) | None => None end
         | _, _ => None
         end) fields m [] []
    | TyOpt e, VOpt None => Some (XElem name [] [])
    | TyOpt e, VOpt (Some x) => xml_elem name e x
    | _, _ => option_map (fun s => XElem name [] (text_child s)) (scalar_text t v)
    end.

  (* the root: "array" for arrays, "root" for classes and maps unless a key is given; nothing else is supported *)
  Definition save_xml (rootkey : option (list N)) (t : ty) (v : val) : option xnode :=
    match t with
    | TyVec _ => xml_elem (match rootkey with Some k => k | None => s_array end) t v
    | TyMap _ | TyObj _ => xml_elem (match rootkey with Some k => k | None => s_root end) t v
    | _ => None
    end.

  (* pugixml writes a carriage return in character data literally (it escapes it in attributes only); a standard
     parser then reads a line feed (XML 1.0 2.11): what the produced document says *)
  Fixpoint saved_view (x : xnode) : xnode :=
    match x with
    | XElem n a ch => XElem n a (map saved_view ch)
    | XText s => XText (norm_eol s)
    end.

  (* white-space-only text between element siblings is formatting (pretty printing), not data *)
  Definition is_elem (x : xnode) : bool := match x with XElem _ _ _ => true | _ => false end.
  Definition is_ws_text (x : xnode) : bool := match x with XText s => ws_only s | _ => false end.
  Fixpoint strip_fmt_ws (x : xnode) : xnode :=
    match x with
    | XElem n a ch =>
      let ch' := map strip_fmt_ws ch in
      XElem n a (if existsb is_elem ch' then filter (fun c => negb (is_ws_text c)) ch' else ch')
    | XText s => XText s
    end.

  Fixpoint xnode_eqb (a b : xnode) {struct a} : bool :=
    match a, b with
    | XText s, XText s' => list_eqb s s'
    | XElem n at1 ch, XElem n' at2 ch' =>
      list_eqb n n' &&
      (fix goa (x y : list (list N * list N)) : bool :=
         match x, y with
         | [], [] => true
         | (k, v) :: x', (k', v') :: y' => list_eqb k k' && list_eqb v v' && goa x' y'
         | _, _ => false
         end) at1 at2 &&
      (fix goc (x : list xnode) (y : list xnode) : bool :=
         match x, y with
         | [], [] => true
         | c :: x', c' :: y' => xnode_eqb c c' && goc x' y'
         | _, _ => false
         end) ch ch'
    | _, _ => false
    end.

  (* ------------------------------------------------------------------ pugixml's tokenisation (third party, mirrored)

     These three functions are the tokeniser the reference syntax JxXmlSpec.v had before it was made strict about the
     prolog, the epilog and the XML declaration.  pugixml is lenient in exactly those places (character data, CDATA and
     references are tolerated around the document element and are dropped; the values of the declaration are read like
     attribute values), so its model keeps them.  No theorem is stated about them: px_parse is compared with pugixml on
     every run. *)
  Fixpoint px_lex_attrs (fuel : nat) (decl : bool) (s : list N) (acc : list (list N * list N))
    : option (list (list N * list N) * tagend * list N) :=
    match fuel with
    | O => None
    | S f =>
      let (w, s1) := span is_xws s in
      match s1 with
      | c :: r =>
        if negb decl && (c =? 62) then Some (rev acc, EndTag, r)
        else if negb decl && (c =? 47) then match r with c2 :: r2 => if c2 =? 62 then Some (rev acc, EndEmpty, r2) else None | [] => None end
        else if decl && (c =? 63) then match r with c2 :: r2 => if c2 =? 62 then Some (rev acc, EndDecl, r2) else None | [] => None end
        else
          match w with
          | [] => None                                      (* white space is required before an attribute *)
          | _ :: _ =>
            match lex_name s1 with
            | None => None
            | Some (n, r1) =>
              match skip_ws r1 with
              | e :: r2 =>
                if e =? 61 then
                  match skip_ws r2 with
                  | q :: r3 =>
                    if (q =? 34) || (q =? 39) then
                      match lex_attval q None [] r3 with
                      | Some (v, r4) => if has_key n acc then None else px_lex_attrs f decl r4 ((n, v) :: acc)
                      | None => None
                      end
                    else None
                  | [] => None
                  end
                else None
              | [] => None
              end
            end
          end
      | [] => None
      end
    end.


  (* pugixml's nodes in text order: a tag or plain character data (PT), a CDATA section (PCd: node_cdata, always kept by
     parse_cdata, also an empty or white-space-only one), a comment / processing instruction / late declaration (PMisc: not
     kept in the tree, but white space before it is not "directly followed by the end tag") *)
  Inductive ptok := PT (t : xtok) | PCd (s : list N) | PMisc.
  Inductive pxlres := PLOk (ts : list ptok) | PLErr | PLFuel.
  Definition pcons (t : ptok) (r : pxlres) : pxlres := match r with PLOk ts => PLOk (t :: ts) | e => e end.

  Fixpoint pxlex (fuel : nat) (s : list N) : pxlres :=
    match fuel with
    | O => PLFuel
    | S f =>
      match s with
      | [] => PLOk []
      | c :: r =>
        if c =? 60 then
          match r with
          | [] => PLErr
          | c1 :: r1 =>
            if c1 =? 47 then                                               (* ETag ::= '</' Name S? '>' *)
              match lex_name r1 with
              | Some (n, r2) => match skip_ws r2 with
                                | e :: r3 => if e =? 62 then pcons (PT (XClose n)) (pxlex f r3) else PLErr
                                | [] => PLErr
                                end
              | None => PLErr
              end
            else if c1 =? 63 then                                          (* PI ::= '<?' PITarget (S ...)? '?>' *)
              match lex_name r1 with
              | Some (n, r2) =>
                (* a declaration that is not at the start of the text is skipped like a processing instruction *)
                  match r2 with
                  | c2 :: _ =>
                    if is_xws c2 || starts [63; 62] r2 then
                      match scan_until [63; 62] r2 with Some (_, r3) => pcons PMisc (pxlex f r3) | None => PLErr end
                    else PLErr
                  | [] => PLErr
                  end
              | None => PLErr
              end
            else if c1 =? 33 then
              match strip_prefix [45; 45] r1 with
              | Some r2 =>                                                 (* Comment: no "--" inside *)
                match scan_until [45; 45] r2 with
                | Some (_, e :: r3) => if e =? 62 then pcons PMisc (pxlex f r3) else PLErr
                | _ => PLErr
                end
              | None =>
                match strip_prefix [91; 67; 68; 65; 84; 65; 91] r1 with   (* CDSect *)
                | Some r2 =>
                  match scan_until [93; 93; 62] r2 with
                  | Some (t, r3) => pcons (PCd t) (pxlex f r3)
                  | None => PLErr
                  end
                | None => PLErr                                            (* DOCTYPE etc.: outside the subset *)
                end
              end
            else                                                           (* STag / EmptyElemTag *)
              match lex_name r with
              | Some (n, r2) =>
                match px_lex_attrs f false r2 [] with
                | Some (a, EndTag, r3) => pcons (PT (XOpen n a)) (pxlex f r3)
                | Some (a, EndEmpty, r3) => pcons (PT (XEmpty n a)) (pxlex f r3)
                | _ => PLErr
                end
              | None => PLErr
              end
          end
        else
          match lex_text None [] s with
          | Some (t, r') => pcons (PT (XTxt t)) (pxlex f r')
          | None => PLErr
          end
      end
    end.


  Definition px_split_decl (s : list N) : option (option (list (list N * list N)) * list N) :=
    match strip_prefix [60; 63; 120; 109; 108] s with
    | Some r =>
      match r with
      | c :: _ =>
        if is_xws c then
          match px_lex_attrs (S (length r)) true r [] with
          | Some (a, EndDecl, r') => if decl_ok a then Some (Some a, r') else None
          | _ => None
          end
        else Some (None, s)               (* a processing instruction such as <?xml-stylesheet ..?> *)
      | [] => None
      end
    | None => Some (None, s)
    end.



  (* ---------------------------------------------------------------- what pugixml hands to the adapter *)

  (* parse_default | parse_ws_pcdata_single: white-space-only character data is dropped unless it is directly followed
     by the end tag and its element has no child so far; character data split by a comment, a processing instruction
     or a CDATA section stays split (separate pcdata / cdata nodes); comments, PIs and the declaration are not kept *)
  Fixpoint px_filter (stack : list bool) (ts : list ptok) : list xtok :=
    let child (st : list bool) := match st with _ :: r => true :: r | [] => [] end in
    match ts with
    | [] => []
    | PMisc :: r => px_filter stack r
    | PT (XOpen n a) :: r => XOpen n a :: px_filter (false :: child stack) r
    | PT (XEmpty n a) :: r => XEmpty n a :: px_filter (child stack) r
    | PT (XClose n) :: r => XClose n :: px_filter (match stack with _ :: st => st | [] => [] end) r
    | PCd s :: r =>
      (* character data at document level (outside the document element) is skipped, whatever it is; inside an element a
         CDATA section always becomes a node (an empty one too: the element then has a text child whose value is empty) *)
      if match stack with [] => true | _ :: _ => false end then px_filter stack r
      else XTxt s :: px_filter (child stack) r
    | PT (XTxt s) :: r =>
      if match stack with [] => true | _ :: _ => false end then px_filter stack r
      else if ws_only s then
        (* parse_ws_pcdata_single: white space is kept only when the end tag follows it directly and the element has no
           child so far (a CDATA node counts as a child; a comment or PI after the white space is not the end tag) *)
        let sole := match r, stack with PT (XClose _) :: _, false :: _ => true | _, _ => false end in
        if sole then XTxt s :: px_filter (child stack) r
        else px_filter stack r
      else XTxt s :: px_filter (child stack) r
    end.

  Definition drop_ws_tokens (ts : list ptok) : list xtok := px_filter [] ts.

  Definition px_parse (s0 : list N) : xres :=
    let s := norm_eol s0 in
    match px_split_decl s with
    | None => XErr
    | Some (_, s1) =>
      match pxlex (S (length s1)) s1 with
      | PLErr => XErr
      | PLFuel => XFuel
      | PLOk ts =>
        let ts1 := drop_ws_tokens ts in
        match xbuild (2 * length ts1 + 2) ts1 with
        | BOk root [] => XOk root
        | BOk _ _ => XErr
        | BErr => XErr
        | BFuel => XFuel
        end
      end
    end.

  (* ---------------------------------------------------------------- loading *)

  (* GetText: the first pcdata / cdata child and the text children that follow it directly (character data that a comment,
     a processing instruction or a CDATA section splits into several nodes), joined in document order *)
  Fixpoint text_run (ch : list xnode) : list N :=
    match ch with
    | XText s :: r => s ++ text_run r
    | _ => []
    end.
  Fixpoint first_text (ch : list xnode) : option (list N) :=
    match ch with
    | [] => None
    | XText s :: r => Some (s ++ text_run r)
    | _ :: r => first_text r
    end.

  Definition skip_blanks (s : list N) : list N := snd (span (fun c => (c =? 32) || (c =? 9)) s).

  (* Convert::To<integer>(text): blanks, from_chars (optional minus, digits), no fraction after it *)
  Definition parse_int_text (o : opts) (k : ity) (s : list N) : lout :=
    let s1 := skip_blanks s in
    let (neg, s2) := match s1 with c :: r => if c =? 45 then (true, r) else (false, s1) | [] => (false, s1) end in
    let (ds, rest) := span_digits s2 in
    match ds with
    | [] => mismatch o
    | _ =>
      (* from_chars of an unsigned type does not take a minus sign; a value that does not fit is reported by from_chars
         itself, before the check for a fraction *)
      if neg && (ity_min k =? 0)%Z then mismatch o
      else
        let frac := match rest with c :: c2 :: _ => (c =? 46) && is_digit c2 | _ => false end in
        let z := if neg then (- Z.of_N (digits_val ds))%Z else Z.of_N (digits_val ds) in
        if in_range k z then (if frac then mismatch o else Loaded (VInt z)) else overflow o
    end.

  (* Convert::To<bool>(text) *)
  Definition lower_eq (s p : list N) : bool :=
    (fix go (s p : list N) : bool :=
       match p, s with
       | [], _ => true
       | x :: p', y :: s' => (lower y =? x) && go s' p'
       | _ :: _, [] => false
       end) s p.

  Definition parse_bool_text (o : opts) (s : list N) : lout :=
    match skip_blanks s with
    | c :: r =>
      if is_digit c then
        let next_digit := match r with c2 :: _ => is_digit c2 | [] => false end in
        if (c =? 49) && negb next_digit then Loaded (VBool true)
        else if (c =? 48) && negb next_digit then Loaded (VBool false)
        else overflow o
      else if lower_eq (c :: r) s_true then Loaded (VBool true)
      else if lower_eq (c :: r) s_false then Loaded (VBool false)
      else mismatch o
    | [] => mismatch o
    end.

  (* PugiXmlExtensions::LoadValueFromText (numbers, bool: Convert::To<T>(text) under the two policies) and the string
     path, for the text of an element or the value of an attribute *)
  Definition conv_xml_text (o : opts) (t : ty) (s : list N) : lout :=
    match t with
    | TyStr => Loaded (VStr s)
    | TyBool => parse_bool_text o s
    | TyInt k => parse_int_text o k s
    | TyDbl => match xstrtod (skip_blanks s) with Some (Some b) => Loaded (VDbl b) | Some None => overflow o | None => mismatch o end
    | TyFlt => match xstrtof (skip_blanks s) with Some (Some b) => Loaded (VFlt b) | Some None => overflow o | None => mismatch o end
    | TyEnum names => match find_enum names s 0 with Some i => Loaded (VEnum i) | None => mismatch o end
    | _ => mismatch o
    end.

  (* PugiXmlExtensions::LoadValue on an element *)
  Definition load_xml_scalar (o : opts) (t : ty) (ch : list xnode) : lout :=
    match t with
    | TyNull => NotLoaded                                  (* LoadValue(node, nullptr_t&) = node.empty() = false *)
    | _ =>
      match first_text ch with
      | None => NotLoaded                                  (* "empty node is treated as null" *)
      | Some s => conv_xml_text o t s
      end
    end.

  (* PugiXmlAttributeScope::SerializeValue on a present attribute (commit eaa6abb): numbers and bool through
     LoadValueFromText(attr.value()) - the conversion and the policies of element values; an empty value is a text that
     is not a number, not "null" *)
  Definition load_xml_attr (o : opts) (t : ty) (s : list N) : lout :=
    match t with
    | TyStr => Loaded (VStr s)
    | TyBool | TyInt _ | TyDbl | TyFlt => conv_xml_text o t s
    | TyEnum names => match find_enum names s 0 with Some i => Loaded (VEnum i) | None => NotLoaded end
    | _ => NotLoaded
    end.

  Fixpoint find_attr (a : list (list N * list N)) (k : list N) : option (list N) :=
    match a with
    | [] => None
    | (k', v) :: r => if list_eqb k k' then Some v else find_attr r k
    end.

  Definition elem_name (x : xnode) : list N := match x with XElem n _ _ => n | XText _ => [] end.

  (* xml_node::child(name): the first child element with that name *)
  Fixpoint find_child (ch : list xnode) (k : list N) : option xnode :=
    match ch with
    | [] => None
    | (XElem n _ _ as c) :: r => if list_eqb k n then Some c else find_child r k
    | _ :: r => find_child r k
    end.

  (* OpenArrayScope / OpenObjectScope below the root: no child at all (an empty container, an object with attributes
     only) or the first child is an element *)
  Definition first_is_elem (ch : list xnode) : bool := match ch with [] => true | XElem _ _ _ :: _ => true | _ => false end.

  (* root = true: the scope is opened BY KEY from the root scope, which only requires an element; without a key the root
     scope tests the first child like every nested scope (commit b0f5582) *)
  Fixpoint load_xml_inner (o : opts) (root : bool) (t : ty) (x : xnode) {struct t} : lout :=
    match x with
    | XText s =>
      (* only an item of an array scope can be a text node: the scope openers require an element (mismatch policy),
         LoadValue reads the text of the node itself *)
      match t with
      | TyVec _ | TyMap _ | TyObj _ => mismatch o
      | TyOpt _ => NotLoaded                                   (* not produced by the archive; not modelled *)
      | _ => load_xml_scalar o t [XText s]
      end
    | XElem _ attrs ch =>
      match t with
      | TyVec e =>
        if root || first_is_elem ch then
          (fix go (prev : val) (l : list xnode) : lout :=
             match l with
             | [] => Loaded (VArr [])
             | c :: r =>
               match load_xml_inner o false e c with
               | Failed er => Failed er
               | res =>
                 let xv := match res with Loaded v => v | _ => if is_boolty e then prev else default e end in
                 match go xv r with
                 | Loaded (VArr vs) => Loaded (VArr (xv :: vs))
                 | other => other
                 end
               end
             end) (VBool false) ch
        else mismatch o
      | TyMap e =>
        if root || first_is_elem ch then
          (fix go (l : list xnode) (acc : list (list N * val)) : lout :=
             match l with
             | [] => Loaded (VObj acc)
             | c :: r =>
               let k := elem_name c in
               match find_child ch k with
               | None => go r (map_insert k (default e) acc)
               | Some c1 =>
                 match load_xml_inner o false e c1 with
                 | Failed er => Failed er
                 | Loaded v => go r (map_insert k v acc)
                 | NotLoaded => go r (map_insert k (default e) acc)
                 end
               end
             end) ch []
        else mismatch o
      | TyObj fields =>
        if root || first_is_elem ch then
          (fix go (fs : list (list N * fkind * ty)) : lout :=
             match fs with
             | [] => Loaded (VObj [])
             | (k, fk, ft) :: fs' =>
               let r := match fk with
                        | FAttr => match find_attr attrs k with Some s => load_xml_attr o ft s | None => NotLoaded end
                        | FElem => match find_child ch k with Some c => load_xml_inner o false ft c | None => NotLoaded end
                        end in
               match r with
               | Failed er => Failed er
               | _ =>
                 let fv := match r with Loaded v => v | _ => default ft end in
                 match go fs' with
                 | Loaded (VObj vs) => Loaded (VObj ((k, fv) :: vs))
                 | other => other
                 end
               end
             end) fields
        else mismatch o
      | TyOpt e =>
        match load_xml_inner o root e x with
        | Loaded v => Loaded (VOpt (Some v))
        | other => other
        end
      | _ => load_xml_scalar o t ch
      end
    end.

  (* the root scope: the document element (whatever its name) or, with a key, the document element of that name;
     it only has to be an element (a child-less root is fine) *)
  Definition load_xml (o : opts) (rootkey : option (list N)) (t : ty) (root : xnode) : outcome :=
    match t with
    | TyVec _ | TyMap _ | TyObj _ =>
      let named := match rootkey with Some k => list_eqb k (elem_name root) | None => true end in
      if negb named then Ok (default t)
      else
        match load_xml_inner o (match rootkey with Some _ => true | None => false end) t root with
        | Loaded v => Ok v
        | NotLoaded => Ok (default t)
        | Failed e => Err e
        end
    | _ => Err EMismatch
    end.

  Definition load_xml_text (o : opts) (rootkey : option (list N)) (t : ty) (cps : list N) : outcome :=
    match px_parse cps with
    | XOk root => load_xml o rootkey t root
    | _ => Err EParse
    end.
End XmlOracles.

(* ------------------------------------------------------------------ the catalogue of C++ targets *)

Definition s_ (l : list N) := l.
Definition ty_inner : ty := TyObj [([120], FElem, TyInt I32); ([110; 97; 109; 101], FElem, TyStr)].   (* x, name *)

Definition ty_mix : ty := TyObj [
  ([98], FElem, TyBool);                          (* b *)
  ([105; 56], FElem, TyInt I8);                   (* i8 *)
  ([117; 56], FElem, TyInt U8);                   (* u8 *)
  ([105; 49; 54], FElem, TyInt I16);              (* i16 *)
  ([117; 49; 54], FElem, TyInt U16);              (* u16 *)
  ([105; 51; 50], FElem, TyInt I32);              (* i32 *)
  ([117; 51; 50], FElem, TyInt U32);              (* u32 *)
  ([105; 54; 52], FElem, TyInt I64);              (* i64 *)
  ([117; 54; 52], FElem, TyInt U64);              (* u64 *)
  ([100], FElem, TyDbl);                          (* d *)
  ([115], FElem, TyStr);                          (* s *)
  ([110], FElem, TyNull);                         (* n *)
  ([118; 105], FElem, TyVec (TyInt I32));         (* vi *)
  ([118; 115], FElem, TyVec TyStr);               (* vs *)
  ([109; 115], FElem, TyMap TyStr);               (* ms *)
  ([105; 110; 110; 101; 114], FElem, ty_inner);   (* inner *)
  ([105; 110; 110; 101; 114; 115], FElem, TyVec ty_inner);  (* inners *)
  ([118; 118], FElem, TyVec (TyVec (TyInt I32)))  (* vv *)
].

(* XML only: attributes *)
Definition ty_attr : ty := TyObj [
  ([97], FAttr, TyInt I32);                       (* a *)
  ([115], FAttr, TyStr);                          (* s *)
  ([98], FAttr, TyBool);                          (* b *)
  ([117], FAttr, TyInt U64);                      (* u *)
  ([118], FElem, TyInt I32);                      (* v *)
  ([116], FElem, TyStr)                           (* t *)
].

(* XML only: a class that has attributes and no element member (the documented CPoint/CRectangle pattern) *)
Definition ty_attronly : ty := TyObj [
  ([120], FAttr, TyInt I32);                      (* x *)
  ([116; 121; 112; 101], FAttr, TyStr)            (* type *)
].

(* XML only: numbers and a bool of every width as attributes *)
Definition ty_attrnum : ty := TyObj [
  ([105; 56], FAttr, TyInt I8);                   (* i8 *)
  ([117; 56], FAttr, TyInt U8);                   (* u8 *)
  ([105; 49; 54], FAttr, TyInt I16);              (* i16 *)
  ([117; 51; 50], FAttr, TyInt U32);              (* u32 *)
  ([105; 54; 52], FAttr, TyInt I64);              (* i64 *)
  ([98], FAttr, TyBool);                          (* b *)
  ([100], FAttr, TyDbl)                           (* d *)
].

(* enum class Colour { Red, Green, DarkBlue } registered as "Red", "green", "Dark Blue&<" *)
Definition enum_colour : ty := TyEnum [[82; 101; 100]; [103; 114; 101; 101; 110]; [68; 97; 114; 107; 32; 66; 108; 117; 101; 38; 60]].

(* optional / smart pointer members, float, enum, vector<bool>, char *)
Definition ty_optc : ty := TyObj [
  ([111; 105], FElem, TyOpt (TyInt I32));            (* oi : std::optional<int32_t> *)
  ([111; 115], FElem, TyOpt TyStr);                  (* os : std::optional<std::string> *)
  ([117; 118], FElem, TyOpt (TyVec (TyInt I32)));    (* uv : std::unique_ptr<std::vector<int32_t>> *)
  ([115; 112], FElem, TyOpt ty_inner);               (* sp : std::shared_ptr<Inner> *)
  ([102], FElem, TyFlt);                        (* f : float *)
  ([101], FElem, enum_colour);                  (* e : Colour *)
  ([118; 98], FElem, TyVec TyBool);                 (* vb : std::vector<bool> *)
  ([99], FElem, TyInt I8)                      (* c : char *)
].

Definition catalogue : list ty := [
  TyNull; TyBool;
  TyInt I8; TyInt U8; TyInt I16; TyInt U16; TyInt I32; TyInt U32; TyInt I64; TyInt U64;
  TyDbl; TyStr;
  TyVec (TyInt I32); TyVec (TyInt U32); TyVec (TyInt I64); TyVec (TyInt U64); TyVec TyDbl; TyVec TyStr; TyVec TyNull;
  TyVec (TyVec (TyInt I32)); TyVec (TyVec TyStr); TyVec (TyMap (TyInt I32));
  TyMap TyBool; TyMap (TyInt I32); TyMap (TyInt U64); TyMap TyDbl; TyMap TyStr; TyMap (TyVec (TyInt I32)); TyMap (TyMap TyStr);
  ty_inner; ty_mix; TyVec ty_inner; TyMap ty_inner;
  ty_attr; TyVec ty_attr; ty_attronly; TyVec ty_attronly;
  (* std::u16string, std::u32string, std::wstring (transcoded by the archive layer): the same model type *)
  TyStr; TyStr; TyStr; TyVec TyStr; TyMap TyStr;
  (* #42.. : vector<bool>; float; enum; char; optional / unique_ptr / shared_ptr *)
  TyVec TyBool;
  TyFlt; TyVec TyFlt; TyMap TyFlt;
  enum_colour; TyVec enum_colour; TyMap enum_colour;
  TyInt I8; TyVec (TyInt I8);
  TyOpt (TyInt I32); TyOpt TyStr; TyVec (TyOpt (TyInt I32)); TyVec (TyOpt TyStr); TyMap (TyOpt TyDbl);
  TyOpt (TyVec (TyInt I32));
  ty_optc; TyVec ty_optc;
  (* #59, #60 : numeric attributes *)
  ty_attrnum; TyVec ty_attrnum
].
