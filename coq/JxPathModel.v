(* JxPathModel.v — validation error paths of the JSON and XML archives.
   The model of what the library does when a class with validators (Required, Range) is loaded: which scopes are
   opened (RapidJsonScopeBase: parent pointer, parent key, array cursor; PugiXml scopes: the node), what GetPath() of the
   scope returns when a validator fails (key_value_proxy.h: archive.GetPath() + path_separator + key), and the map of
   errors of the ValidationException.  Next to it the specification of a path: the JSON Pointer (RFC 6901) of the
   member, which the library's documentation names as the meaning of the JSON paths.
   Unvalidated parts of a target are loaded by load_inner / load_xml_inner of JxModel.v. *)
From BS Require Import Base UtfSpec JxJsonSpec JxXmlSpec JxModel.
Local Open Scope N_scope.

(* ------------------------------------------------------------------ validated targets *)

(* a class field: key, element or attribute (XML; the JSON archive has elements only), Required, Range(0, 9), type *)
Inductive vty :=
| VLeaf (t : ty)                                                   (* a target without validators inside *)
| VCls (fields : list (list N * fkind * bool * bool * vty))
| VVec (e : vty)
| VMap (e : vty).

Inductive vmsg := MReq | MRange.

(* ValidationMap = std::map<std::string, std::vector<std::string>>: ordered by path, messages in order of arrival *)
Definition vmap := list (list N * list vmsg).

Fixpoint vadd (path : list N) (msg : vmsg) (m : vmap) : vmap :=
  match m with
  | [] => [(path, [msg])]
  | (p, ms) :: r =>
    match key_cmp path p with
    | Lt => (path, [msg]) :: m
    | Eq => (p, ms ++ [msg]) :: r
    | Gt => (p, ms) :: vadd path msg r
    end
  end.

(* raised by the load itself | finished: was the value loaded (and what), the errors so far *)
Inductive vres := VRaise (e : err) | VDone (v : option val) (m : vmap).

Definition in_range (v : val) : bool := match v with VInt z => ((0 <=? z) && (z <=? 9))%Z | _ => true end.

(* KeyValue(key, value, Required(), Range(0, 9)): the validators in declaration order *)
Definition validate (path : list N) (req rng : bool) (lv : option val) (m : vmap) : vmap :=
  let m1 := if req then match lv with None => vadd path MReq m | Some _ => m end else m in
  if rng then match lv with Some v => if in_range v then m1 else vadd path MRange m1 | None => m1 end else m1.

Definition of_lout (r : lout) (m : vmap) : vres :=
  match r with Failed e => VRaise e | Loaded v => VDone (Some v) m | NotLoaded => VDone None m end.

(* ------------------------------------------------------------------ JSON: the walk, for any notion of position *)

Section JsonWalk.
  Variable i2d : Z -> N.
  Variable o : opts.
  Variable P : Type.
  (* the position of an object scope opened from position p by a key (None: as the next item of an array) *)
  Variable open_obj : P -> option (list N) -> P.
  (* the position of an array scope, opened likewise, while its item number i (from 0) is being loaded *)
  Variable open_item : P -> option (list N) -> N -> P.
  (* the path reported for the field of that key in the scope at that position *)
  Variable render : P -> list N -> list N.

  Fixpoint vwalk (t : vty) (p : P) (ko : option (list N)) (d : rj) (m : vmap) {struct t} : vres :=
    match t with
    | VLeaf ty => of_lout (load_inner i2d o ty d) m
    | VCls fields =>
      match d with
      | RObj mm =>
        let sc := open_obj p ko in
        (fix go (fs : list (list N * fkind * bool * bool * vty)) (m : vmap) : vres :=
           match fs with
           | [] => VDone (Some VNull) m
           | (k, _, req, rng, ft) :: fs' =>
             let r := match find_member mm k with
                      | None => VDone None m
                      | Some x => vwalk ft sc (Some k) x m
                      end in
             match r with
             | VRaise e => VRaise e
             | VDone lv m1 => go fs' (validate (render sc k) req rng lv m1)
             end
           end) fields m
      | RNull => VDone None m
      | _ => of_lout (mismatch o) m
      end
    | VVec e =>
      match d with
      | RArr l =>
        (fix go (i : N) (l : list rj) (m : vmap) : vres :=
           match l with
           | [] => VDone (Some VNull) m
           | x :: r =>
             match vwalk e (open_item p ko i) None x m with
             | VRaise er => VRaise er
             | VDone _ m1 => go (i + 1) r m1
             end
           end) 0 l m
      | RNull => VDone None m
      | _ => of_lout (mismatch o) m
      end
    | VMap e =>
      match d with
      | RObj mm =>
        let sc := open_obj p ko in
        (fix go (ms : list (list N * rj)) (m : vmap) : vres :=
           match ms with
           | [] => VDone (Some VNull) m
           | (k, _) :: r =>
             match find_member mm k with
             | None => go r m
             | Some x =>
               match vwalk e sc (Some k) x m with
               | VRaise er => VRaise er
               | VDone _ m1 => go r m1
               end
             end
           end) mm m
      | RNull => VDone None m
      | _ => of_lout (mismatch o) m
      end
    end.
End JsonWalk.

(* ------------------------------------------------------------------ JSON: the scopes of rapidjson_archive.h *)

(* RapidJsonScopeBase: mParent, mParentKey; RapidJsonArrayScope in load mode adds mValueIt - Begin() *)
Inductive jscope := JNone | JScope (parent : jscope) (key : list N) (cursor : option N).

(* GetPath(): the parent's path, then the separator and the key unless the key is empty, then for an array scope the
   separator and the cursor *)
Fixpoint jscope_path (s : jscope) : list N :=
  match s with
  | JNone => []
  | JScope p k c =>
    jscope_path p ++ (match k with [] => [] | _ => 47 :: k end) ++ (match c with Some n => 47 :: dec_of_N n | None => [] end)
  end.

Definition key_view (ko : option (list N)) : list N := match ko with Some k => k | None => [] end.

(* an object scope: opened with (this, key), or (this) from an array scope; an array scope: LoadNextItem() has moved
   the cursor past the item before the item's own scope is opened *)
Definition j_open_obj (p : jscope) (ko : option (list N)) : jscope := JScope p (key_view ko) None.
Definition j_open_item (p : jscope) (ko : option (list N)) (i : N) : jscope := JScope p (key_view ko) (Some (i + 1)).
Definition j_render (s : jscope) (k : list N) : list N := jscope_path s ++ 47 :: k.

Definition vload_json (i2d : Z -> N) (o : opts) (t : vty) (d : rj) : vres :=
  vwalk i2d o jscope j_open_obj j_open_item j_render t JNone None d [].

(* ------------------------------------------------------------------ JSON: what a path should be (RFC 6901) *)

Inductive step := SKey (k : list N) | SIdx (i : N).

(* section 3: tilde and solidus inside a reference token are written ~0 and ~1 *)
Definition esc_token (k : list N) : list N :=
  flat_map (fun c => if c =? 126 then [126; 48] else if c =? 47 then [126; 49] else [c]) k.

(* section 3, 4: a solidus before every reference token; array items by their zero-based index in decimal *)
Definition pointer (loc : list step) : list N :=
  flat_map (fun s => 47 :: match s with SKey k => esc_token k | SIdx i => dec_of_N i end) loc.

Definition loc_key (loc : list step) (ko : option (list N)) : list step :=
  match ko with Some k => loc ++ [SKey k] | None => loc end.

Definition s_open_obj (loc : list step) (ko : option (list N)) : list step := loc_key loc ko.
Definition s_open_item (loc : list step) (ko : option (list N)) (i : N) : list step := loc_key loc ko ++ [SIdx i].
Definition s_render (loc : list step) (k : list N) : list N := pointer (loc ++ [SKey k]).

(* the same walk, every failing field reported under the JSON Pointer of that member *)
Definition vload_json_spec (i2d : Z -> N) (o : opts) (t : vty) (d : rj) : vres :=
  vwalk i2d o (list step) s_open_obj s_open_item s_render t [] None d [].

(* what the scopes compute, as a function of the location: no escapes, an empty key is dropped, indices from one *)
Definition impl_pointer (loc : list step) : list N :=
  flat_map (fun s => match s with SKey [] => [] | SKey k => 47 :: k | SIdx i => 47 :: dec_of_N (i + 1) end) loc.
Definition c_render (loc : list step) (k : list N) : list N := impl_pointer loc ++ 47 :: k.

Definition vload_json_char (i2d : Z -> N) (o : opts) (t : vty) (d : rj) : vres :=
  vwalk i2d o (list step) s_open_obj s_open_item c_render t [] None d [].

(* ------------------------------------------------------------------ XML: pugixml_archive.h *)

Section XmlWalk.
  Variable xstrtod xstrtof : list N -> option (option N).
  Variable o : opts.

  (* xml_node::path('/') of the scope's node: the names of the elements from the document element down to the node,
     a separator before each (third party; the run compares) *)
  Definition x_render (names : list (list N)) (k : list N) : list N := flat_map (fun n => 47 :: n) names ++ 47 :: k.

  (* names: the elements above x; root: x is the document element opened by key (not used: the classes are loaded without a root key) *)
  Fixpoint vwalk_x (t : vty) (names : list (list N)) (root : bool) (x : xnode) (m : vmap) {struct t} : vres :=
    match t with
    | VLeaf ty => of_lout (load_xml_inner xstrtod xstrtof o root ty x) m
    | VCls fields =>
      match x with
      | XText _ => of_lout (mismatch o) m
      | XElem n attrs ch =>
        if root || first_is_elem ch then
          let sc := names ++ [n] in
          (fix go (fs : list (list N * fkind * bool * bool * vty)) (m : vmap) : vres :=
             match fs with
             | [] => VDone (Some VNull) m
             | (k, fk, req, rng, ft) :: fs' =>
               let r := match fk with
                        | FAttr =>
                          match ft with
                          | VLeaf ty => match find_attr attrs k with Some s => of_lout (load_xml_attr xstrtod xstrtof o ty s) m | None => VDone None m end
                          | _ => VDone None m
                          end
                        | FElem => match find_child ch k with Some c => vwalk_x ft sc false c m | None => VDone None m end
                        end in
               match r with
               | VRaise e => VRaise e
               | VDone lv m1 => go fs' (validate (x_render sc k) req rng lv m1)
               end
             end) fields m
        else of_lout (mismatch o) m
      end
    | VVec e =>
      match x with
      | XText _ => of_lout (mismatch o) m
      | XElem n _ ch =>
        if root || first_is_elem ch then
          (fix go (l : list xnode) (m : vmap) : vres :=
             match l with
             | [] => VDone (Some VNull) m
             | c :: r =>
               match vwalk_x e (names ++ [n]) false c m with
               | VRaise er => VRaise er
               | VDone _ m1 => go r m1
               end
             end) ch m
        else of_lout (mismatch o) m
      end
    | VMap e =>
      match x with
      | XText _ => of_lout (mismatch o) m
      | XElem n _ ch =>
        if root || first_is_elem ch then
          (fix go (l : list xnode) (m : vmap) : vres :=
             match l with
             | [] => VDone (Some VNull) m
             | c :: r =>
               match find_child ch (elem_name c) with
               | None => go r m
               | Some c1 =>
                 match vwalk_x e (names ++ [n]) false c1 m with
                 | VRaise er => VRaise er
                 | VDone _ m1 => go r m1
                 end
               end
             end) ch m
        else of_lout (mismatch o) m
      end
    end.

  Definition vload_xml (t : vty) (root : xnode) : vres := vwalk_x t [] false root [].
End XmlWalk.

(* ------------------------------------------------------------------ from text *)

Inductive vout := VOk | VErrors (m : vmap) | VExc (e : err).

Definition vout_of (r : vres) : vout :=
  match r with VRaise e => VExc e | VDone _ [] => VOk | VDone _ m => VErrors m end.

Definition vload_json_text (strtod : list N -> option N) (i2d : Z -> N) (o : opts) (t : vty) (cps : list N) : vout * vout :=
  match json_parse_cps cps with
  | JOk d => match rj_of_jv strtod d with
             | Some r => (vout_of (vload_json i2d o t r), vout_of (vload_json_spec i2d o t r))
             | None => (VExc EParse, VExc EParse)
             end
  | _ => (VExc EParse, VExc EParse)
  end.

Definition vload_xml_text (xstrtod xstrtof : list N -> option (option N)) (o : opts) (t : vty) (cps : list N) : vout :=
  match px_parse cps with
  | XOk root => vout_of (vload_xml xstrtod xstrtof o t root)
  | _ => VExc EParse
  end.

(* ------------------------------------------------------------------ the validated classes of the drivers *)

Definition vint : vty := VLeaf (TyInt I32).
(* Leaf: v (Required, Range), w (Range), a (attribute in XML; Range) *)
Definition v_leaf : vty := VCls [([118], FElem, true, true, vint); ([119], FElem, false, true, vint); ([97], FAttr, false, true, vint)].
(* Mid: leaf, list, dict, grid, own, a/b, m~n, the empty key, e-acute (a wide key in C++) *)
Definition v_mid : vty :=
  VCls [([108; 101; 97; 102], FElem, false, false, v_leaf);
        ([108; 105; 115; 116], FElem, true, false, VVec v_leaf);
        ([100; 105; 99; 116], FElem, false, false, VMap v_leaf);
        ([103; 114; 105; 100], FElem, false, false, VVec (VVec v_leaf));
        ([111; 119; 110], FElem, false, true, vint);
        ([97; 47; 98], FElem, false, true, vint);
        ([109; 126; 110], FElem, false, true, vint);
        ([], FElem, false, true, vint);
        ([233], FElem, false, true, vint)].
(* Top: mid, mids, named, deep, nums (an unvalidated vector), id (attribute in XML; Required) *)
Definition v_top : vty :=
  VCls [([109; 105; 100], FElem, true, false, v_mid);
        ([109; 105; 100; 115], FElem, false, false, VVec v_mid);
        ([110; 97; 109; 101; 100], FElem, false, false, VMap v_mid);
        ([100; 101; 101; 112], FElem, false, false, VVec (VMap (VVec v_leaf)));
        ([110; 117; 109; 115], FElem, true, false, VLeaf (TyVec (TyInt I32)));
        ([105; 100], FAttr, true, true, vint)].

Definition vcatalogue : list vty :=
  [v_leaf; v_mid; v_top; VVec v_leaf; VVec v_mid; VMap v_mid; VVec (VVec v_leaf); VMap (VVec v_leaf); VVec v_top].
