(* JxPathProofs.v — validation error paths: what the scopes of the JSON archive report, for every nesting, as a function
   of the location of the failing member; where that is the JSON Pointer (RFC 6901) of the member and where it is not. *)
From BS Require Import Base UtfSpec JxJsonSpec JxXmlSpec JxModel JxProofs JxPathModel.
Local Open Scope N_scope.

Lemma vty_ind' (P : vty -> Prop)
  (Hl : forall t, P (VLeaf t))
  (Hc : forall fields, Forall (fun f => P (snd f)) fields -> P (VCls fields))
  (Hv : forall e, P e -> P (VVec e)) (Hm : forall e, P e -> P (VMap e)) : forall t, P t.
Proof.
  fix IH 1. intros [ t | fields | e | e ].
  - apply Hl.
  - apply Hc. revert fields. fix IHf 1. intros [|[[[[k fk] rq] rg] ft] fields]; constructor; [apply IH | apply IHf].
  - apply Hv, IH.
  - apply Hm, IH.
Qed.

(* ================================================================== two notions of position that correspond *)

Section Rel.
  Variable i2d : Z -> N.
  Variable o : opts.
  Variables P1 P2 : Type.
  Variable oo1 : P1 -> option (list N) -> P1.
  Variable oi1 : P1 -> option (list N) -> N -> P1.
  Variable r1 : P1 -> list N -> list N.
  Variable oo2 : P2 -> option (list N) -> P2.
  Variable oi2 : P2 -> option (list N) -> N -> P2.
  Variable r2 : P2 -> list N -> list N.
  Variable R : P1 -> P2 -> Prop.
  (* the names that may occur (as class field names and as member names of the document); whether sequences may *)
  Variable kok : list N -> bool.
  Variable vok : bool.

  Definition kok_opt (ko : option (list N)) : Prop := match ko with Some k => kok k = true | None => True end.

  Hypothesis Hobj : forall p1 p2 ko, R p1 p2 -> kok_opt ko -> R (oo1 p1 ko) (oo2 p2 ko).
  Hypothesis Hitem : forall p1 p2 ko i, vok = true -> R p1 p2 -> kok_opt ko -> R (oi1 p1 ko i) (oi2 p2 ko i).
  Hypothesis Hrender : forall p1 p2 k, R p1 p2 -> kok k = true -> r1 p1 k = r2 p2 k.

  Fixpoint type_ok (t : vty) : bool :=
    match t with
    | VLeaf _ => true
    | VCls fields => forallb (fun f => kok (fst (fst (fst (fst f)))) && type_ok (snd f)) fields
    | VVec e => vok && type_ok e
    | VMap e => type_ok e
    end.

  Fixpoint doc_ok (d : rj) : bool :=
    match d with
    | RArr l => forallb doc_ok l
    | RObj m => forallb (fun kv => kok (fst kv) && doc_ok (snd kv)) m
    | _ => true
    end.

  Lemma find_member_ok mm k x : forallb (fun kv => kok (fst kv) && doc_ok (snd kv)) mm = true ->
    find_member mm k = Some x -> doc_ok x = true.
  Proof.
    induction mm as [|[k0 x0] mm IH]; intros H Hf; [discriminate|].
    cbn [forallb fst snd] in H. apply andb_true_iff in H. destruct H as [H1 H2]. apply andb_true_iff in H1. destruct H1 as [_ H1].
    cbn [find_member] in Hf. destruct (key_eqb k k0); [inversion Hf; subst; exact H1 | apply IH; assumption].
  Qed.

  Definition walk1 := vwalk i2d o P1 oo1 oi1 r1.
  Definition walk2 := vwalk i2d o P2 oo2 oi2 r2.

  Definition same_walk (t : vty) : Prop := type_ok t = true -> forall d, doc_ok d = true -> forall p1 p2 ko m,
    R p1 p2 -> kok_opt ko -> walk1 t p1 ko d m = walk2 t p2 ko d m.

  Lemma walk_rel t : same_walk t.
  Proof.
    induction t as [ ty | fields IH | e IH | e IH ] using vty_ind'; intros Ht d Hd p1 p2 ko m HR Hk; unfold walk1, walk2.
    - reflexivity.
    - cbn [vwalk]. destruct d as [ | b | z | b | s | l | mm ]; try reflexivity.
      pose proof (Hobj p1 p2 ko HR Hk) as Hsc. set (sc1 := oo1 p1 ko) in *. set (sc2 := oo2 p2 ko) in *.
      cbn [type_ok] in Ht. cbn [doc_ok] in Hd. revert m.
      induction IH as [|[[[[k fk] rq] rg] ft] fs Hft _ IHfs]; intros m; [reflexivity|].
      cbn [forallb fst snd] in Ht. apply andb_true_iff in Ht. destruct Ht as [Ht1 Ht2]. apply andb_true_iff in Ht1. destruct Ht1 as [Hkk Hft'].
      cbn [snd] in Hft.
      assert (E : match find_member mm k with None => VDone None m | Some x => vwalk i2d o P1 oo1 oi1 r1 ft sc1 (Some k) x m end =
                  match find_member mm k with None => VDone None m | Some x => vwalk i2d o P2 oo2 oi2 r2 ft sc2 (Some k) x m end).
      { destruct (find_member mm k) as [x|] eqn:Ef; [|reflexivity].
        apply (Hft Hft' x (find_member_ok mm k x Hd Ef) sc1 sc2 (Some k) m Hsc Hkk). }
      rewrite E. destruct (match find_member mm k with None => VDone None m | Some x => vwalk i2d o P2 oo2 oi2 r2 ft sc2 (Some k) x m end) as [er|lv m1]; [reflexivity|].
      rewrite (Hrender sc1 sc2 k Hsc Hkk). apply (IHfs Ht2).
    - cbn [vwalk]. destruct d as [ | b | z | b | s | l | mm ]; try reflexivity.
      cbn [type_ok] in Ht. apply andb_true_iff in Ht. destruct Ht as [Hv Ht]. cbn [doc_ok] in Hd.
      generalize 0 as i. revert m. induction l as [|x l IHl]; intros m i; [reflexivity|].
      cbn [forallb] in Hd. apply andb_true_iff in Hd. destruct Hd as [Hd1 Hd2].
      pose proof (IH Ht x Hd1 (oi1 p1 ko i) (oi2 p2 ko i) None m (Hitem p1 p2 ko i Hv HR Hk) I) as E. unfold walk1, walk2 in E.
      rewrite E. destruct (vwalk i2d o P2 oo2 oi2 r2 e (oi2 p2 ko i) None x m) as [er|lv m1]; [reflexivity|]. apply (IHl Hd2).
    - cbn [vwalk]. destruct d as [ | b | z | b | s | l | mm ]; try reflexivity.
      pose proof (Hobj p1 p2 ko HR Hk) as Hsc. set (sc1 := oo1 p1 ko) in *. set (sc2 := oo2 p2 ko) in *.
      cbn [type_ok] in Ht. cbn [doc_ok] in Hd.
      assert (G : forall ms, forallb (fun kv => kok (fst kv) && doc_ok (snd kv)) ms = true -> forall m,
        (fix go (ms : list (list N * rj)) (m : vmap) : vres :=
           match ms with
           | [] => VDone (Some VNull) m
           | (k, _) :: r =>
             match find_member mm k with
             | None => go r m
             | Some x => match vwalk i2d o P1 oo1 oi1 r1 e sc1 (Some k) x m with VRaise er => VRaise er | VDone _ m1 => go r m1 end
             end
           end) ms m =
        (fix go (ms : list (list N * rj)) (m : vmap) : vres :=
           match ms with
           | [] => VDone (Some VNull) m
           | (k, _) :: r =>
             match find_member mm k with
             | None => go r m
             | Some x => match vwalk i2d o P2 oo2 oi2 r2 e sc2 (Some k) x m with VRaise er => VRaise er | VDone _ m1 => go r m1 end
             end
           end) ms m).
      { induction ms as [|[k x0] ms IHms]; intros Hms m0; [reflexivity|].
        cbn [forallb fst snd] in Hms. apply andb_true_iff in Hms. destruct Hms as [Hm1 Hm2]. apply andb_true_iff in Hm1. destruct Hm1 as [Hkk _].
        destruct (find_member mm k) as [x|] eqn:Ef; [|apply (IHms Hm2)].
        pose proof (IH Ht x (find_member_ok mm k x Hd Ef) sc1 sc2 (Some k) m0 Hsc Hkk) as E. unfold walk1, walk2 in E.
        rewrite E. destruct (vwalk i2d o P2 oo2 oi2 r2 e sc2 (Some k) x m0) as [er|lv m1]; [reflexivity|]. apply (IHms Hm2). }
      apply (G mm Hd m).
  Qed.
End Rel.

(* ================================================================== what the scopes report, for every nesting *)

Lemma impl_pointer_app a b : impl_pointer (a ++ b) = impl_pointer a ++ impl_pointer b.
Proof. unfold impl_pointer. apply flat_map_app. Qed.

Lemma pointer_app a b : pointer (a ++ b) = pointer a ++ pointer b.
Proof. unfold pointer. apply flat_map_app. Qed.

Lemma impl_pointer_key loc ko :
  impl_pointer (loc_key loc ko) = impl_pointer loc ++ match key_view ko with [] => [] | _ :: _ => 47 :: key_view ko end.
Proof.
  destruct ko as [k|]; cbn [loc_key key_view]; [|rewrite app_nil_r; reflexivity].
  rewrite impl_pointer_app. f_equal. destruct k; cbn; [reflexivity | rewrite app_nil_r; reflexivity].
Qed.

(* GetPath() of the scope that is open at a location = the explicit formula impl_pointer of the location: names
   verbatim, an empty name dropped, items numbered from one.  Hence the whole map of errors, for every target, every
   document, every nesting *)
Theorem json_paths_characterised i2d o t d : vload_json i2d o t d = vload_json_char i2d o t d.
Proof.
  unfold vload_json, vload_json_char.
  apply (walk_rel i2d o jscope (list step) j_open_obj j_open_item j_render s_open_obj s_open_item c_render
           (fun sc loc => jscope_path sc = impl_pointer loc) (fun _ => true) true).
  - intros p1 p2 ko H _. unfold j_open_obj, s_open_obj. cbn [jscope_path]. rewrite impl_pointer_key, H, app_nil_r. reflexivity.
  - intros p1 p2 ko i _ H _. unfold j_open_item, s_open_item. cbn [jscope_path].
    rewrite impl_pointer_app, impl_pointer_key, H, <- app_assoc. cbn. rewrite app_nil_r. reflexivity.
  - intros p1 p2 k H _. unfold j_render, c_render. rewrite H. reflexivity.
  - clear. induction t as [ ty | fields IH | e IH | e IH ] using vty_ind'; cbn [type_ok]; try assumption; [reflexivity|].
    induction IH as [|f fs Hf _ IHfs]; [reflexivity|]. cbn [forallb]. rewrite Hf, IHfs. reflexivity.
  - clear. induction d as [ | b | z | b | s | l IH | m IH ] using rj_ind'; cbn [doc_ok]; try reflexivity.
    + induction IH as [|x l Hx _ IHl]; [reflexivity|]. cbn [forallb]. rewrite Hx, IHl. reflexivity.
    + induction IH as [|x l Hx _ IHl]; [reflexivity|]. cbn [forallb]. rewrite Hx, IHl. reflexivity.
  - reflexivity.
  - exact I.
Qed.

(* ================================================================== where that is the JSON Pointer *)

(* a name that needs no escape and is not empty *)
Definition plain_key (k : list N) : bool :=
  negb (match k with [] => true | _ => false end) && forallb (fun c => negb ((c =? 47) || (c =? 126))) k.

Lemma esc_token_plain k : forallb (fun c => negb ((c =? 47) || (c =? 126))) k = true -> esc_token k = k.
Proof.
  induction k as [|c k IH]; intros H; [reflexivity|]. cbn [forallb] in H. apply andb_true_iff in H. destruct H as [H1 H2].
  unfold esc_token in *. cbn [flat_map]. rewrite (IH H2).
  destruct (c =? 126) eqn:E1; [rewrite orb_true_r in H1; discriminate|].
  destruct (c =? 47) eqn:E2; [discriminate|]. reflexivity.
Qed.

(* no sequence anywhere in the target, plain names in the target's classes and in the document: every reported path is
   the JSON Pointer of the failing member *)
Theorem json_paths_rfc6901_outside i2d o t d :
  type_ok plain_key false t = true -> doc_ok plain_key d = true -> vload_json i2d o t d = vload_json_spec i2d o t d.
Proof.
  intros Ht Hd. unfold vload_json, vload_json_spec.
  apply (walk_rel i2d o jscope (list step) j_open_obj j_open_item j_render s_open_obj s_open_item s_render
           (fun sc loc => jscope_path sc = pointer loc) plain_key false); try assumption; try exact I; try reflexivity.
  - intros p1 p2 ko H Hk. unfold j_open_obj, s_open_obj. cbn [jscope_path]. rewrite app_nil_r, H.
    destruct ko as [k|]; cbn [loc_key key_view]; [|rewrite app_nil_r; reflexivity].
    cbn [kok_opt] in Hk. unfold plain_key in Hk. apply andb_true_iff in Hk. destruct Hk as [Hne Hesc].
    rewrite pointer_app. f_equal. destruct k as [|c k]; [discriminate|]. unfold pointer. cbn [flat_map]. rewrite (esc_token_plain _ Hesc), app_nil_r. reflexivity.
  - intros p1 p2 ko i Hv. discriminate.
  - intros p1 p2 k H Hk. unfold j_render, s_render. rewrite pointer_app, H. f_equal.
    unfold plain_key in Hk. apply andb_true_iff in Hk. destruct Hk as [_ Hesc].
    unfold pointer. cbn [flat_map]. rewrite (esc_token_plain _ Hesc), app_nil_r. reflexivity.
Qed.

(* ================================================================== where it is not (J48, J49) *)

Definition o_skip := mkOpts false false.

(* [{"v":1},{"v":10}] into a vector of Leaf: reported /2/v, the member is /1/v *)
Example json_path_index_refuted i2d :
  let d := RArr [RObj [([118], RInt 1)]; RObj [([118], RInt 10)]] in
  vload_json i2d o_skip (VVec v_leaf) d = VDone (Some VNull) [([47; 50; 47; 118], [MRange])] /\
  vload_json_spec i2d o_skip (VVec v_leaf) d = VDone (Some VNull) [([47; 49; 47; 118], [MRange])].
Proof. split; reflexivity. Qed.

(* {"list":[],"a/b":10,"m~n":10,"dict":{"":{"v":10}}} into Mid: /a/b, /dict/v, /m~n for /a~1b, /dict//v, /m~0n *)
Example json_path_escape_refuted i2d :
  let d := RObj [([108; 105; 115; 116], RArr []); ([97; 47; 98], RInt 10); ([109; 126; 110], RInt 10);
                 ([100; 105; 99; 116], RObj [([], RObj [([118], RInt 10)])])] in
  vload_json i2d o_skip v_mid d =
    VDone (Some VNull) [([47; 97; 47; 98], [MRange]); ([47; 100; 105; 99; 116; 47; 118], [MRange]); ([47; 109; 126; 110], [MRange])] /\
  vload_json_spec i2d o_skip v_mid d =
    VDone (Some VNull) [([47; 97; 126; 49; 98], [MRange]); ([47; 100; 105; 99; 116; 47; 47; 118], [MRange]); ([47; 109; 126; 48; 110], [MRange])].
Proof. split; reflexivity. Qed.

(* two different failing members under one reported path: {"dict":{"":{"v":10}},"list":[]} and a member v of dict *)
Example json_path_collision i2d :
  vload_json i2d o_skip (VCls [([100], FElem, false, false, VMap v_leaf)])
    (RObj [([100], RObj [([], RObj [([118], RInt 10)]); ([118], RObj [([118], RInt 3); ([119], RInt 11)])])]) =
  VDone (Some VNull) [([47; 100; 47; 118], [MRange]); ([47; 100; 47; 118; 47; 119], [MRange])].
Proof. reflexivity. Qed.

(* XML: <array><object><v>10</v></object><object><v>11</v></object></array>: the two items share one path *)
Example xml_path_items_share xstrtod xstrtof :
  vload_xml xstrtod xstrtof o_skip (VVec v_leaf)
    (XElem [97; 114; 114; 97; 121] [] [XElem [111; 98; 106; 101; 99; 116] [] [XElem [118] [] [XText [49; 48]]];
                                       XElem [111; 98; 106; 101; 99; 116] [] [XElem [118] [] [XText [49; 49]]]]) =
  VDone (Some VNull) [([47; 97; 114; 114; 97; 121; 47; 111; 98; 106; 101; 99; 116; 47; 118], [MRange; MRange])].
Proof. reflexivity. Qed.
