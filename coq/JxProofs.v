(* JxProofs.v — theorems about the adapter model (JxModel.v): Finalize() and the writer's result,
   save-then-load at the DOM level, what loading depends on. *)
From BS Require Import Base UtfSpec JxJsonSpec JxXmlSpec JxModel.
From Coq Require Import ZifyBool ZifyN ZifyNat.
Local Open Scope N_scope.
Ltac Zify.zify_post_hook ::= Z.div_mod_to_equations.

(* ================================================================== induction principles *)

Lemma rj_ind' (P : rj -> Prop)
  (Hn : P RNull) (Hb : forall b, P (RBool b)) (Hi : forall z, P (RInt z)) (Hd : forall b, P (RDbl b)) (Hs : forall s, P (RStr s))
  (Ha : forall l, Forall P l -> P (RArr l))
  (Ho : forall m, Forall (fun kv => P (snd kv)) m -> P (RObj m)) : forall d, P d.
Proof.
  fix IH 1. intros [ | b | z | b | s | l | m ].
  - exact Hn.
  - apply Hb.
  - apply Hi.
  - apply Hd.
  - apply Hs.
  - apply Ha. revert l. fix IHl 1. intros [|x l]; constructor; [apply IH | apply IHl].
  - apply Ho. revert m. fix IHm 1. intros [|[k v] m]; constructor; [apply IH | apply IHm].
Qed.

(* ================================================================== Finalize() and writer failures (F26) *)

Fixpoint has_nonfinite (d : rj) : bool :=
  match d with
  | RDbl b => is_nonfinite b
  | RArr l => existsb has_nonfinite l
  | RObj m => existsb (fun kv => has_nonfinite (snd kv)) m
  | _ => false
  end.

(* the statement at full strength: whenever the writer fails, Finalize reports it *)
Definition finalize_reports (fin : rj -> fres) (d : rj) : Prop := fst (accept d) = false -> fin d = FError.

(* the array / object loops of [accept], named *)
Definition acc_arr := fix go (first : bool) (l : list rj) : bool * list wev :=
  match l with
  | [] => (true, [WTok TRBrack])
  | x :: r =>
    let sep := if first then [] else [WTok TComma] in
    let (ok, ev) := accept x in
    if ok then let (ok2, ev2) := go false r in (ok2, sep ++ ev ++ ev2)
    else (false, sep ++ ev)
  end.

Definition acc_obj := fix go (first : bool) (m : list (list N * rj)) : bool * list wev :=
  match m with
  | [] => (true, [WTok TRBrace])
  | (k, x) :: r =>
    let sep := if first then [] else [WTok TComma] in
    let (ok, ev) := accept x in
    if ok then let (ok2, ev2) := go false r in (ok2, sep ++ WTok (TStr k) :: WTok TColon :: ev ++ ev2)
    else (false, sep ++ WTok (TStr k) :: WTok TColon :: ev)
  end.

Lemma accept_arr l : accept (RArr l) = let (ok, ev) := acc_arr true l in (ok, WTok TLBrack :: ev).
Proof. reflexivity. Qed.
Lemma accept_obj m : accept (RObj m) = let (ok, ev) := acc_obj true m in (ok, WTok TLBrace :: ev).
Proof. reflexivity. Qed.

Lemma accept_ok d : has_nonfinite d = false -> fst (accept d) = true.
Proof.
  induction d as [ | b | z | b | s | l IH | m IH ] using rj_ind'; intros H; try reflexivity.
  - cbn in H |- *. rewrite H. reflexivity.
  - rewrite accept_arr. cbn [has_nonfinite] in H.
    assert (G : forall first, fst (acc_arr first l) = true).
    { induction IH as [|x l Hx _ IHl]; intros first; [reflexivity|].
      cbn [existsb] in H. apply orb_false_iff in H. destruct H as [H1 H2].
      cbn [acc_arr]. specialize (Hx H1). destruct (accept x) as [ok ev]. cbn in Hx. subst ok.
      specialize (IHl H2 false). destruct (acc_arr false l) as [ok2 ev2]. exact IHl. }
    specialize (G true). destruct (acc_arr true l). exact G.
  - rewrite accept_obj. cbn [has_nonfinite] in H.
    assert (G : forall first, fst (acc_obj first m) = true).
    { induction IH as [|[k x] m Hx _ IHm]; intros first; [reflexivity|].
      cbn [existsb snd] in H. apply orb_false_iff in H. destruct H as [H1 H2]. cbn [snd] in Hx.
      cbn [acc_obj]. specialize (Hx H1). destruct (accept x) as [ok ev]. cbn in Hx. subst ok.
      specialize (IHm H2 false). destruct (acc_obj false m) as [ok2 ev2]. exact IHm. }
    specialize (G true). destruct (acc_obj true m). exact G.
Qed.

(* vector<double>{1, NaN, 2} *)
Definition f26_witness : rj := RArr [RDbl 0x3FF0000000000000; RDbl 0x7FF8000000000000; RDbl 0x4000000000000000].

(* the current code: full strength *)
Lemma finalize_checked_reports d : finalize_reports finalize_json d.
Proof. unfold finalize_reports, finalize_json. destruct (accept d) as [ok ev]. cbn. intros ->. reflexivity. Qed.

(* the code before the repair of F26 falsified it, exactly through non-finite doubles *)
Lemma finalize_unchecked_refuted : exists d, ~ finalize_reports finalize_json_unchecked d.
Proof. exists f26_witness. unfold finalize_reports. intros H. specialize (H eq_refl). discriminate. Qed.

Lemma finalize_unchecked_outside d : has_nonfinite d = false -> finalize_reports finalize_json_unchecked d.
Proof. intros H Hf. rewrite (accept_ok d H) in Hf. discriminate. Qed.

Example f26_document : finalize_json f26_witness = FError /\
  finalize_json_unchecked f26_witness = FDoc [WTok TLBrack; WDbl 0x3FF0000000000000; WTok TComma].
Proof. split; reflexivity. Qed.

(* ================================================================== the order on names *)

Lemma key_cmp_refl a : key_cmp a a = Eq.
Proof. induction a as [|x a IH]; cbn; [reflexivity|]. rewrite N.compare_refl. exact IH. Qed.

Lemma key_cmp_eq a : forall b, key_cmp a b = Eq -> a = b.
Proof.
  induction a as [|x a IH]; intros [|y b] H; cbn in H; try discriminate; [reflexivity|].
  destruct (x ?= y) eqn:E; try discriminate. apply N.compare_eq in E. subst. f_equal. apply IH. exact H.
Qed.

Lemma key_cmp_antisym a : forall b, key_cmp b a = CompOpp (key_cmp a b).
Proof.
  induction a as [|x a IH]; intros [|y b]; cbn; try reflexivity.
  rewrite (N.compare_antisym x y). destruct (x ?= y); cbn; [apply IH | reflexivity | reflexivity].
Qed.

Lemma key_cmp_trans a : forall b c, key_cmp a b = Lt -> key_cmp b c = Lt -> key_cmp a c = Lt.
Proof.
  induction a as [|x a IH]; intros [|y b] [|z c] H1 H2; cbn in *; try discriminate; try reflexivity.
  destruct (x ?= y) eqn:E1; try discriminate.
  - apply N.compare_eq in E1. subst. destruct (y ?= z) eqn:E2; try discriminate; [|reflexivity]. eapply IH; eassumption.
  - destruct (y ?= z) eqn:E2; try discriminate.
    + apply N.compare_eq in E2. subst. rewrite E1. reflexivity.
    + assert (Hxz : (x ?= z) = Lt) by (apply (N.lt_trans x y z); assumption). rewrite Hxz. reflexivity.
Qed.

Lemma key_eqb_refl a : key_eqb a a = true.
Proof. unfold key_eqb. rewrite key_cmp_refl. reflexivity. Qed.

Lemma key_eqb_eq a b : key_eqb a b = true -> a = b.
Proof. unfold key_eqb. destruct (key_cmp a b) eqn:E; try discriminate. intros _. apply key_cmp_eq. exact E. Qed.

Lemma key_eqb_sym a b : key_eqb a b = key_eqb b a.
Proof. unfold key_eqb. rewrite (key_cmp_antisym a b). destruct (key_cmp a b); reflexivity. Qed.

Lemma key_ltb_neq a b : key_ltb a b = true -> key_eqb b a = false.
Proof.
  unfold key_ltb, key_eqb. rewrite (key_cmp_antisym a b). destruct (key_cmp a b); cbn; try discriminate. reflexivity.
Qed.

(* ================================================================== save then load, JSON, at the DOM level *)

Lemma ty_ind' (P : ty -> Prop)
  (Hn : P TyNull) (Hb : P TyBool) (Hi : forall k, P (TyInt k)) (Hd : P TyDbl) (Hs : P TyStr)
  (Hv : forall e, P e -> P (TyVec e)) (Hm : forall e, P e -> P (TyMap e))
  (Ho : forall fields, Forall (fun f => P (snd f)) fields -> P (TyObj fields))
  (Hop : forall e, P e -> P (TyOpt e)) (Hf : P TyFlt) (He : forall names, P (TyEnum names)) : forall t, P t.
Proof.
  fix IH 1. intros [ | | k | | | e | e | fields | e | | names ].
  - exact Hn.
  - exact Hb.
  - apply Hi.
  - exact Hd.
  - exact Hs.
  - apply Hv, IH.
  - apply Hm, IH.
  - apply Ho. revert fields. fix IHf 1. intros [|[[k fk] ft] fields]; constructor; [apply IH | apply IHf].
  - apply Hop, IH.
  - exact Hf.
  - apply He.
Qed.

(* field names of a class are pairwise different (C++: KeyValue keys of one Serialize()); for the JSON
   archive no member is an attribute *)
Fixpoint names_distinct (ks : list (list N)) : bool :=
  match ks with
  | [] => true
  | k :: r => negb (existsb (key_eqb k) r) && names_distinct r
  end.

Definition is_opt (t : ty) : bool := match t with TyOpt _ => true | _ => false end.
Definition is_nullty (t : ty) : bool := match t with TyNull => true | _ => false end.

(* an optional / smart pointer holds something other than another optional or a nullptr_t (for those "empty" and
   "holding an empty one" are written alike) *)
Fixpoint ty_wf (t : ty) : bool :=
  match t with
  | TyVec e | TyMap e => ty_wf e
  | TyObj fields => names_distinct (map (fun f => fst (fst f)) fields) && forallb (fun f => ty_wf (snd f)) fields
  | TyOpt e => ty_wf e && negb (is_opt e) && negb (is_nullty e)
  | TyFlt | TyEnum _ => false         (* float and enum targets: correspondence only, outside the theorems *)
  | _ => true
  end.

Fixpoint val_nonfinite (v : val) : bool :=
  match v with
  | VDbl b => is_nonfinite b
  | VArr l => existsb val_nonfinite l
  | VObj m => existsb (fun kv => val_nonfinite (snd kv)) m
  | VOpt (Some x) => val_nonfinite x
  | VFlt d => is_nonfinite d
  | _ => false
  end.

Lemma opt_map_spec {A B} (f : A -> option B) l : forall ds, opt_map f l = Some ds -> Forall2 (fun x y => f x = Some y) l ds.
Proof.
  induction l as [|x l IH]; intros ds H; cbn in H.
  - inversion H. constructor.
  - destruct (f x) as [y|] eqn:E; [|discriminate]. destruct (opt_map f l) as [ys|] eqn:E2; [|discriminate].
    inversion H; subst. constructor; [exact E | apply IH; reflexivity].
Qed.

Lemma map_insert_append k v acc :
  Forall (fun kv => key_cmp k (fst kv) = Gt) acc -> map_insert k v acc = acc ++ [(k, v)].
Proof.
  induction 1 as [|[k' v'] acc H _ IH]; [reflexivity|]. cbn in H |- *. rewrite H, IH. reflexivity.
Qed.

Lemma keys_sorted_cons a r : keys_sorted (a :: r) = true ->
  Forall (fun b => key_cmp a b = Lt) r /\ keys_sorted r = true.
Proof.
  revert a. induction r as [|b r IH]; intros a H; [split; [constructor | reflexivity]|].
  cbn [keys_sorted] in H. apply andb_true_iff in H. destruct H as [H1 H2].
  destruct (IH b H2) as [H3 H4]. split; [|exact H2].
  assert (Hab : key_cmp a b = Lt). { unfold key_ltb in H1. destruct (key_cmp a b); try discriminate. reflexivity. }
  constructor; [exact Hab|]. eapply Forall_impl; [|exact H3]. intros c Hc. eapply key_cmp_trans; eassumption.
Qed.

Section RoundTrip.
  Variable i2d : Z -> N.
  Variable o : opts.

  (* what a fresh target of type t holds after the load *)
  Definition got (t : ty) (r : lout) : option val :=
    match r with Loaded v => Some v | NotLoaded => Some (default t) | Failed _ => None end.

  Definition rt_ok (t : ty) : Prop := forall v d, has_type t v = true ->
    save_inner t v = Some d -> got t (load_inner i2d o t d) = Some v.
  Definition rt_strong (t : ty) : Prop := forall v d, has_type t v = true ->
    save_inner t v = Some d -> load_inner i2d o t d = Loaded v.

  Lemma rt_strong_ok t : rt_strong t -> rt_ok t.
  Proof. intros H v d Ht Hs. rewrite (H v d Ht Hs). reflexivity. Qed.

  Lemma rt_vec e : rt_ok e -> (is_boolty e = true -> rt_strong e) -> rt_strong (TyVec e).
  Proof.
    intros IH IHb v d Ht Hs. destruct v; try discriminate. cbn [has_type] in Ht.
    cbn [save_inner] in Hs. destruct (opt_map (save_inner e) l) as [ds|] eqn:E; [|discriminate]. inversion Hs; subst. clear Hs.
    apply opt_map_spec in E. cbn [load_inner]. generalize (VBool false) as prev.
    induction E as [|x y l ds Hxy _ IHl]; intros prev; [reflexivity|].
    cbn in Ht. apply andb_true_iff in Ht. destruct Ht as [Ht1 Ht2].
    destruct (is_boolty e) eqn:Eb.
    - rewrite (IHb eq_refl x y Ht1 Hxy). rewrite (IHl Ht2). reflexivity.
    - pose proof (IH x y Ht1 Hxy) as G.
      destruct (load_inner i2d o e y); cbn in G; inversion G; subst; rewrite (IHl Ht2); reflexivity.
  Qed.

  (* the loop of the map loader, named *)
  Definition map_go (e : ty) (dm : list (list N * rj)) :=
    fix go (ms : list (list N * rj)) (acc : list (list N * val)) : lout :=
      match ms with
      | [] => Loaded (VObj acc)
      | (k, _) :: r =>
        let ck := k in
        match find_member dm ck with
        | None => go r (map_insert ck (default e) acc)
        | Some x =>
          match load_inner i2d o e x with
          | Failed er => Failed er
          | Loaded v => go r (map_insert ck v acc)
          | NotLoaded => go r (map_insert ck (default e) acc)
          end
        end
      end.

  Lemma load_map e dm : load_inner i2d o (TyMap e) (RObj dm) = map_go e dm dm [].
  Proof. reflexivity. Qed.

  Lemma map_go_ok e dm : forall (ms : list (list N * rj)) (vs : list (list N * val)),
    Forall2 (fun kd kv => fst kd = fst kv /\
                          find_member dm (fst kv) = Some (snd kd) /\ got e (load_inner i2d o e (snd kd)) = Some (snd kv)) ms vs ->
    forall acc : list (list N * val), keys_sorted (map fst acc ++ map fst vs) = true ->
    map_go e dm ms acc = Loaded (VObj (acc ++ vs)).
  Proof.
    induction 1 as [|[k d] [k' v] ms vs [Hk [Hf Hl]] _ IH]; intros acc Hs.
    - rewrite app_nil_r. reflexivity.
    - cbn [fst snd] in *. subst k'. cbn [map_go]. rewrite Hf.
      assert (Hins : map_insert k v acc = acc ++ [(k, v)]).
      { apply map_insert_append. clear -Hs. induction acc as [|[a va] acc IHa]; [constructor|].
        cbn [map app fst] in Hs. destruct (keys_sorted_cons _ _ Hs) as [H1 H2]. constructor.
        - cbn [fst]. rewrite (key_cmp_antisym a k).
          assert (Hin : In k (map fst acc ++ map fst ((k, v) :: vs))) by (apply in_or_app; right; left; reflexivity).
          rewrite (proj1 (Forall_forall _ _) H1 k Hin). reflexivity.
        - apply IHa. exact H2. }
      assert (Hrest : map_go e dm ms (acc ++ [(k, v)]) = Loaded (VObj (acc ++ (k, v) :: vs))).
      { rewrite IH; [rewrite <- app_assoc; reflexivity | rewrite map_app, <- app_assoc; exact Hs]. }
      destruct (load_inner i2d o e d); cbn in Hl; inversion Hl; subst; rewrite Hins; exact Hrest.
  Qed.

  Lemma find_member_sorted (f : val -> option rj) : forall (m : list (list N * val)) (dm : list (list N * rj)),
    Forall2 (fun kv kd => fst kd = fst kv /\ f (snd kv) = Some (snd kd)) m dm ->
    keys_sorted (map fst m) = true ->
    Forall2 (fun kd kv => fst kd = fst kv /\ find_member dm (fst kv) = Some (snd kd)) dm m.
  Proof.
    induction 1 as [|[k v] [k' d] m dm [Hk Hf] Hr IH]; intros Hs; [constructor|].
    cbn [fst snd] in *. subst k'. cbn [map fst] in Hs. destruct (keys_sorted_cons _ _ Hs) as [H1 H2].
    constructor.
    - split; [reflexivity|]. cbn [find_member fst snd]. rewrite key_eqb_refl. reflexivity.
    - specialize (IH H2).
      (* the later members have larger names: the head is not found in their place *)
      assert (G : forall (m' : list (list N * val)) dm', Forall2 (fun kd kv => fst kd = fst kv /\ find_member dm (fst kv) = Some (snd kd)) dm' m' ->
                  Forall (fun b => key_cmp k b = Lt) (map fst m') ->
                  Forall2 (fun kd kv => fst kd = fst kv /\ find_member ((k, d) :: dm) (fst kv) = Some (snd kd)) dm' m').
      { induction 1 as [|[a da] [a' va] dm' m' [Ha Hfa] _ IHG]; intros Hlt; [constructor|].
        cbn [fst snd map] in *. inversion Hlt as [|? ? Hlt1 Hlt2]; subst. constructor.
        - split; [reflexivity|]. cbn [find_member fst snd]. rewrite key_eqb_sym.
          assert (E : key_eqb k a' = false). { unfold key_eqb. rewrite Hlt1. reflexivity. }
          rewrite E. exact Hfa.
        - apply IHG. exact Hlt2. }
      apply G; assumption.
  Qed.

  Lemma rt_map e : rt_ok e -> rt_strong (TyMap e).
  Proof.
    intros IH v d Ht Hs. destruct v; try discriminate. cbn [has_type] in Ht.
    apply andb_true_iff in Ht. destruct Ht as [Ht Hsort].
    cbn [save_inner] in Hs.
    destruct (opt_map (fun kv : list N * val => option_map (fun d0 : rj => (fst kv, d0)) (save_inner e (snd kv))) m) as [dm|] eqn:E; [|discriminate].
    inversion Hs; subst. clear Hs. apply opt_map_spec in E. rewrite load_map.
    assert (F1 : Forall2 (fun kv kd => fst kd = fst kv /\ save_inner e (snd kv) = Some (snd kd)) m dm).
    { clear -E. induction E as [|[k v] [k' d] m dm H _ IHE]; constructor; [|exact IHE].
      cbn [fst snd] in *. destruct (save_inner e v); [|discriminate]. inversion H; subst. split; reflexivity. }
    pose proof (find_member_sorted (save_inner e) m dm F1 Hsort) as F2.
    rewrite (map_go_ok e dm dm m) with (acc := []).
    - reflexivity.
    - clear -IH Ht F1 F2.
      assert (G : forall m' dm', Forall2 (fun kv kd => fst kd = fst kv /\ save_inner e (snd kv) = Some (snd kd)) m' dm' ->
                 Forall2 (fun kd kv => fst kd = fst kv /\ find_member dm (fst kv) = Some (snd kd)) dm' m' ->
                 forallb (fun kv => forallb scalarb (fst kv) && has_type e (snd kv)) m' = true ->
                 Forall2 (fun kd kv => fst kd = fst kv /\
                          find_member dm (fst kv) = Some (snd kd) /\ got e (load_inner i2d o e (snd kd)) = Some (snd kv)) dm' m').
      { induction 1 as [|[k v] [k' d] m' dm' [Hk Hsv] _ IHG]; intros H2 H3; [constructor|].
        inversion H2 as [|? ? ? ? [_ Hfm] H2']; subst. cbn [fst snd forallb] in *.
        apply andb_true_iff in H3. destruct H3 as [H3a H3b]. apply andb_true_iff in H3a. destruct H3a as [_ Hty].
        constructor; [|apply IHG; assumption].
        repeat split; try assumption. apply (IH v d Hty Hsv). }
      apply G; assumption.
    - cbn [map app]. exact Hsort.
  Qed.
End RoundTrip.

(* ---------------------------------------------------------------- classes *)

Definition obj_ty := fix go (fs : list (list N * fkind * ty)) (ms : list (list N * val)) : bool :=
  match fs, ms with
  | [], [] => true
  | (k, _, ft) :: fs', (k', fv) :: ms' => key_eqb k k' && has_type ft fv && go fs' ms'
  | _, _ => false
  end.

Definition obj_save := fix go (fs : list (list N * fkind * ty)) (ms : list (list N * val)) : option (list (list N * rj)) :=
  match fs, ms with
  | [], [] => Some []
  | (k, FElem, ft) :: fs', (_, fv) :: ms' =>
    match save_inner ft fv, go fs' ms' with Some d, Some ds => Some ((k, d) :: ds) | _, _ => None end
  | _, _ => None
  end.

Lemma has_type_obj fields m : has_type (TyObj fields) (VObj m) = obj_ty fields m.
Proof. reflexivity. Qed.
Lemma save_inner_obj fields m : save_inner (TyObj fields) (VObj m) = option_map RObj (obj_save fields m).
Proof. reflexivity. Qed.

Lemma find_member_distinct dm : names_distinct (map fst dm) = true ->
  forall k d, In (k, d) dm -> find_member dm k = Some d.
Proof.
  induction dm as [|[k0 d0] dm IH]; intros Hd k d Hin; [destruct Hin|].
  cbn [map fst names_distinct] in Hd. apply andb_true_iff in Hd. destruct Hd as [H1 H2].
  cbn [find_member]. destruct Hin as [E|Hin].
  - inversion E; subst. rewrite key_eqb_refl. reflexivity.
  - destruct (key_eqb k k0) eqn:E.
    + exfalso. apply key_eqb_eq in E. subst k0.
      assert (X : existsb (key_eqb k) (map fst dm) = true).
      { apply existsb_exists. exists k. split; [|apply key_eqb_refl]. apply in_map_iff. exists (k, d). split; [reflexivity | exact Hin]. }
      rewrite X in H1. discriminate.
    + apply IH; assumption.
Qed.

Section RoundTripObj.
  Variable i2d : Z -> N.
  Variable o : opts.

  Definition obj_go (dm : list (list N * rj)) :=
    fix go (fs : list (list N * fkind * ty)) : lout :=
      match fs with
      | [] => Loaded (VObj [])
      | (k, _, ft) :: fs' =>
        let r := match find_member dm k with
                 | None => NotLoaded
                 | Some x => load_inner i2d o ft x
                 end in
        match r with
        | Failed er => Failed er
        | _ =>
          let fv := match r with Loaded v => v | _ => default ft end in
          match go fs' with
          | Loaded (VObj vs) => Loaded (VObj ((k, fv) :: vs))
          | other => other
          end
        end
      end.

  Lemma load_obj fields dm : load_inner i2d o (TyObj fields) (RObj dm) = obj_go dm fields.
  Proof. reflexivity. Qed.

  Lemma obj_go_ok dm : forall fs ms ds,
    Forall (fun f => rt_ok i2d o (snd f)) fs ->
    obj_ty fs ms = true -> obj_save fs ms = Some ds ->
    (forall k d, In (k, d) ds -> find_member dm k = Some d) ->
    obj_go dm fs = Loaded (VObj ms) /\ map fst ds = map (fun f => fst (fst f)) fs.
  Proof.
    induction fs as [|[[k fk] ft] fs IH]; intros ms ds Hrt Hty Hsv Hfind.
    - destruct ms; [|discriminate]. cbn in Hsv. inversion Hsv; subst. split; reflexivity.
    - destruct ms as [|[k' fv] ms]; [cbn in Hty; discriminate|].
      inversion Hrt as [|? ? Hrt1 Hrt2]; subst. cbn [snd] in Hrt1.
      cbn [obj_ty] in Hty. apply andb_true_iff in Hty. destruct Hty as [Hty Hty2]. apply andb_true_iff in Hty. destruct Hty as [Hk Hty1].
      cbn [obj_save] in Hsv. destruct fk; [|discriminate].
      destruct (save_inner ft fv) as [d|] eqn:Es; [|discriminate].
      destruct (obj_save fs ms) as [ds'|] eqn:Es2; [|discriminate]. inversion Hsv; subst. clear Hsv.
      apply key_eqb_eq in Hk. subst k'.
      destruct (IH ms ds' Hrt2 Hty2 Es2) as [IH1 IH2].
      { intros k0 d0 Hin. apply Hfind. right. exact Hin. }
      split; [|cbn [map fst]; rewrite IH2; reflexivity].
      cbn [obj_go]. rewrite (Hfind k d (or_introl eq_refl)). pose proof (Hrt1 fv d Hty1 Es) as G. rewrite IH1.
      destruct (load_inner i2d o ft d); cbn in G; inversion G; subst; reflexivity.
  Qed.

  Lemma rt_obj fields : names_distinct (map (fun f => fst (fst f)) fields) = true ->
    Forall (fun f => rt_ok i2d o (snd f)) fields -> rt_strong i2d o (TyObj fields).
  Proof.
    intros Hd Hrt v d Ht Hs. destruct v; try discriminate.
    rewrite has_type_obj in Ht. rewrite save_inner_obj in Hs.
    destruct (obj_save fields m) as [ds|] eqn:Es; [|discriminate]. cbn in Hs. inversion Hs; subst. clear Hs.
    rewrite load_obj.
    (* the names of the saved members are the field names, hence distinct *)
    assert (Hkeys : map fst ds = map (fun f => fst (fst f)) fields).
    { clear -Es. revert m ds Es. induction fields as [|[[k fk] ft] fs IH]; intros m ds Es.
      - destruct m; cbn in Es; [|discriminate]. inversion Es. reflexivity.
      - destruct fk; [|destruct m; cbn in Es; discriminate].
        destruct m as [|[k' fv] m]; [cbn in Es; discriminate|]. cbn [obj_save] in Es.
        destruct (save_inner ft fv); [|discriminate]. destruct (obj_save fs m) as [ds'|] eqn:E2; [|discriminate].
        inversion Es; subst. cbn [map fst]. rewrite (IH m ds' E2). reflexivity. }
    destruct (obj_go_ok ds fields m ds Hrt Ht Es) as [G _].
    - apply find_member_distinct. rewrite Hkeys. exact Hd.
    - exact G.
  Qed.

  Lemma null_not_loaded e : is_opt e = false -> is_nullty e = false -> load_inner i2d o e RNull = NotLoaded.
  Proof. destruct e; intros H1 H2; try discriminate; reflexivity. Qed.

  Lemma rt_all t : ty_wf t = true -> rt_ok i2d o t /\ (is_opt t = false -> rt_strong i2d o t).
  Proof.
    induction t as [ | | k | | | e IH | e IH | fields IH | e IH | | names ] using ty_ind'; intros Hwf; try discriminate.
    - assert (S : rt_strong i2d o TyNull). { intros v d Ht Hs. destruct v; try discriminate. cbn in Hs. inversion Hs. reflexivity. }
      split; [apply rt_strong_ok, S | intros _; exact S].
    - assert (S : rt_strong i2d o TyBool). { intros v d Ht Hs. destruct v; try discriminate. cbn in Hs. inversion Hs. reflexivity. }
      split; [apply rt_strong_ok, S | intros _; exact S].
    - assert (S : rt_strong i2d o (TyInt k)).
      { intros v d Ht Hs. destruct v; try discriminate. cbn in Hs. inversion Hs. cbn in Ht |- *. rewrite Ht. reflexivity. }
      split; [apply rt_strong_ok, S | intros _; exact S].
    - assert (S : rt_strong i2d o TyDbl). { intros v d Ht Hs. destruct v; try discriminate. cbn in Hs. inversion Hs. reflexivity. }
      split; [apply rt_strong_ok, S | intros _; exact S].
    - assert (S : rt_strong i2d o TyStr). { intros v d Ht Hs. destruct v; try discriminate. cbn in Hs. inversion Hs. reflexivity. }
      split; [apply rt_strong_ok, S | intros _; exact S].
    - assert (S : rt_strong i2d o (TyVec e)).
      { apply rt_vec; [apply IH; exact Hwf|]. intros Eb. apply (proj2 (IH Hwf)). destruct e; try discriminate; reflexivity. }
      split; [apply rt_strong_ok, S | intros _; exact S].
    - assert (S : rt_strong i2d o (TyMap e)) by (apply rt_map, IH; exact Hwf).
      split; [apply rt_strong_ok, S | intros _; exact S].
    - cbn [ty_wf] in Hwf. apply andb_true_iff in Hwf. destruct Hwf as [H1 H2].
      assert (S : rt_strong i2d o (TyObj fields)).
      { apply rt_obj; [exact H1|].
        clear H1. induction IH as [|f fields Hf _ IHf]; [constructor|].
        cbn in H2. apply andb_true_iff in H2. destruct H2 as [H2 H3]. constructor; [apply Hf; exact H2 | apply IHf; exact H3]. }
      split; [apply rt_strong_ok, S | intros _; exact S].
    - cbn [ty_wf] in Hwf. apply andb_true_iff in Hwf. destruct Hwf as [Hwf Hn]. apply andb_true_iff in Hwf. destruct Hwf as [Hwf Ho].
      apply negb_true_iff in Hn, Ho. destruct (IH Hwf) as [_ S]. specialize (S Ho).
      split; [|discriminate].
      intros v d Ht Hs. destruct v as [ | | | | | | | [x|] | | ]; try discriminate.
      + cbn [has_type save_inner] in Ht, Hs. cbn [load_inner]. rewrite (S x d Ht Hs). reflexivity.
      + cbn in Hs. inversion Hs; subst. cbn [load_inner]. rewrite (null_not_loaded e Ho Hn). reflexivity.
  Qed.
End RoundTripObj.

(* ---------------------------------------------------------------- the round trip of SaveObject / LoadObject *)

(* H_rj (tested on every run, not proved): a DOM the writer accepts is reproduced by RapidJSON's write + parse.
   SaveObject raises an exception when the writer refuses the DOM. *)
Inductive rt := SaveRaises | LoadedBack (r : outcome).

Definition roundtrip_json (i2d : Z -> N) (o : opts) (t : ty) (v : val) : option rt :=
  match save_json t v with
  | None => None
  | Some d => Some (match finalize_json d with FError => SaveRaises | FDoc _ => LoadedBack (load_json i2d o t d) end)
  end.

(* C01 for one value: the value comes back, or the save fails with an exception *)
Definition rt_good (v : val) (r : rt) : Prop := r = SaveRaises \/ r = LoadedBack (Ok v).

Lemma save_nonfinite t : forall v d, save_inner t v = Some d -> has_nonfinite d = val_nonfinite v.
Proof.
  induction t as [ | | k | | | e IH | e IH | fields IH | e IH | | names ] using ty_ind'; intros v d Hs;
    try (destruct v; try discriminate; cbn in Hs; inversion Hs; reflexivity).
  - destruct v; try discriminate. cbn [save_inner] in Hs.
    destruct (opt_map (save_inner e) l) as [ds|] eqn:E; [|discriminate]. inversion Hs; subst. clear Hs. apply opt_map_spec in E.
    cbn [has_nonfinite val_nonfinite]. induction E as [|x y l ds Hxy _ IHl]; [reflexivity|]. cbn. rewrite (IH x y Hxy), IHl. reflexivity.
  - destruct v; try discriminate. cbn [save_inner] in Hs.
    destruct (opt_map (fun kv : list N * val => option_map (fun d0 : rj => (fst kv, d0)) (save_inner e (snd kv))) m) as [dm|] eqn:E; [|discriminate].
    inversion Hs; subst. clear Hs. apply opt_map_spec in E. cbn [has_nonfinite val_nonfinite].
    induction E as [|[k v] [k' d] m dm H _ IHl]; [reflexivity|]. cbn [existsb fst snd] in *.
    destruct (save_inner e v) as [d'|] eqn:Ed; [|discriminate]. inversion H; subst. rewrite (IH v d Ed), IHl. reflexivity.
  - destruct v; try discriminate. rewrite save_inner_obj in Hs. destruct (obj_save fields m) as [ds|] eqn:Es; [|discriminate].
    cbn in Hs. inversion Hs; subst. cbn [has_nonfinite val_nonfinite]. clear Hs. revert m ds Es.
    induction IH as [|[[k fk] ft] fs Hf _ IHf]; intros m ds Es.
    + destruct m; cbn in Es; [|discriminate]. inversion Es. reflexivity.
    + destruct fk; [|destruct m; cbn in Es; discriminate].
      destruct m as [|[k' fv] m]; [cbn in Es; discriminate|]. cbn [obj_save] in Es.
      destruct (save_inner ft fv) as [d|] eqn:Ed; [|discriminate]. destruct (obj_save fs m) as [ds'|] eqn:E2; [|discriminate].
      inversion Es; subst. cbn [existsb snd]. cbn [snd] in Hf. rewrite (Hf fv d Ed), (IHf m ds' E2). reflexivity.
  - destruct v as [ | | | | | | | [x|] | | ]; try discriminate.
    + cbn [save_inner] in Hs. cbn [val_nonfinite]. apply IH. exact Hs.
    + cbn in Hs. inversion Hs. reflexivity.
  - destruct v; try discriminate. cbn in Hs. destruct (nth_error names (N.to_nat i)); [|discriminate]. inversion Hs. reflexivity.
Qed.

Lemma save_root1_inner t v : has_type t v = true -> save_root1 t v = save_inner t v.
Proof.
  intros Ht. destruct t; try reflexivity. destruct v; try (cbn in Ht; discriminate). cbn [has_type] in Ht.
  unfold save_root1, save_scalar_root. cbn [save_inner save_scalar_inner].
  destruct k; try reflexivity; f_equal; f_equal; unfold wrap32, wrapu32, in_range, ity_min, ity_max in *; lia.
Qed.

Lemma save_json_inner t v : has_type t v = true -> save_json t v = save_inner t v.
Proof.
  intros Ht. destruct t; try (apply save_root1_inner; exact Ht).
  destruct v as [ | | | | | | | [x|] | | ]; try (cbn in Ht; discriminate); [|reflexivity].
  cbn [has_type] in Ht. unfold save_json. cbn [save_inner]. apply save_root1_inner. exact Ht.
Qed.

(* full strength: the value comes back or the save raises; it raises only for a value with a non-finite double *)
Theorem json_roundtrip i2d o t v : ty_wf t = true -> has_type t v = true ->
  forall r, roundtrip_json i2d o t v = Some r ->
  rt_good v r /\ (val_nonfinite v = false -> r = LoadedBack (Ok v)).
Proof.
  intros Hwf Ht r Hr.
  unfold roundtrip_json in Hr. rewrite (save_json_inner t v Ht) in Hr.
  destruct (save_inner t v) as [d|] eqn:Es; [|discriminate]. inversion Hr; subst. clear Hr.
  pose proof (save_nonfinite t v d Es) as Hnf.
  assert (L : load_json i2d o t d = Ok v).
  { unfold load_json. pose proof (proj1 (rt_all i2d o t Hwf) v d Ht Es) as G. destruct (load_inner i2d o t d); cbn in G; inversion G; subst; reflexivity. }
  unfold finalize_json. destruct (accept d) as [ok ev] eqn:Ea. destruct ok.
  - rewrite L. split; [right; reflexivity | intros _; reflexivity].
  - split; [left; reflexivity|]. intros Hv. rewrite <- Hnf in Hv. pose proof (accept_ok d Hv) as H. rewrite Ea in H. discriminate.
Qed.

Definition mkT := mkOpts true true.

(* regression cases of repaired findings: a map key with an embedded U+0000 (F42), also with a container element (F42c);
   a NaN inside an array makes the save raise (F26) *)
Example json_roundtrip_nul_key i2d :
  roundtrip_json i2d mkT (TyMap TyStr) (VObj [([97; 0], VStr [120]); ([98], VStr [121])]) =
    Some (LoadedBack (Ok (VObj [([97; 0], VStr [120]); ([98], VStr [121])]))) /\
  roundtrip_json i2d mkT (TyMap (TyMap TyStr)) (VObj [([97; 0], VObj [])]) = Some (LoadedBack (Ok (VObj [([97; 0], VObj [])]))).
Proof. split; reflexivity. Qed.

Example json_roundtrip_nan i2d :
  roundtrip_json i2d mkT (TyVec TyDbl) (VArr [VDbl 0x3FF0000000000000; VDbl 0x7FF8000000000000; VDbl 0x4000000000000000]) = Some SaveRaises.
Proof. reflexivity. Qed.

(* every integer type at the root, extremes included (the former finding F28 is repaired: SetUint for unsigned) *)
Example json_roundtrip_root_ints i2d :
  roundtrip_json i2d mkT (TyInt U32) (VInt 4294967295) = Some (LoadedBack (Ok (VInt 4294967295))) /\
  roundtrip_json i2d mkT (TyInt I32) (VInt (-2147483648)) = Some (LoadedBack (Ok (VInt (-2147483648)))) /\
  roundtrip_json i2d mkT (TyInt U64) (VInt 18446744073709551615) = Some (LoadedBack (Ok (VInt 18446744073709551615))).
Proof. repeat split; reflexivity. Qed.

Example json_roundtrip_mix_example i2d :
  roundtrip_json i2d mkT (TyMap (TyVec (TyInt I64))) (VObj [([97], VArr [VInt (-9223372036854775808); VInt 7]); ([98; 233], VArr [])]) =
  Some (LoadedBack (Ok (VObj [([97], VArr [VInt (-9223372036854775808); VInt 7]); ([98; 233], VArr [])]))).
Proof. reflexivity. Qed.

(* ================================================================== what loading depends on (C08) *)

(* numeric spelling: 1 and 1.0 are the same number (RFC 8259 section 6) but load differently into an integer *)
Definition load_number (strtod : list N -> option N) (i2d : Z -> N) (o : opts) (t : ty) (l : list N) : option outcome :=
  option_map (load_json i2d o t) (classify_num strtod l).

Lemma spelling_refuted strtod i2d :
  exists l l' t, num_same_value l l' = true /\ load_number strtod i2d mkT t l <> load_number strtod i2d mkT t l'.
Proof.
  exists [49], [49; 46; 48], (TyInt I32). split; [reflexivity|].
  unfold load_number. cbn. destruct (strtod [49; 46; 48]); cbn; discriminate.
Qed.

(* outside the defect: two spellings that RapidJSON types alike (both integer spellings, or both with fraction/exponent
   and the library's strtod agreeing on them) load identically, whatever the target *)
Lemma spelling_outside strtod i2d o t l l' :
  classify_num strtod l = classify_num strtod l' -> load_number strtod i2d o t l = load_number strtod i2d o t l'.
Proof. unfold load_number. intros ->. reflexivity. Qed.

(* the class, as a boolean: the reader types the two spellings differently (one as an integer, one as a double; two
   different 64-bit integers cannot have the same value; two doubles on which strtod disagrees; one too big) *)
Definition spelling_defect (strtod : list N -> option N) (l l' : list N) : bool :=
  match classify_num strtod l, classify_num strtod l' with
  | Some (RInt a), Some (RInt b) => negb (a =? b)%Z
  | Some (RDbl a), Some (RDbl b) => negb (a =? b)
  | None, None => false
  | _, _ => true
  end.

Lemma spelling_outside_b strtod i2d o t l l' :
  spelling_defect strtod l l' = false -> load_number strtod i2d o t l = load_number strtod i2d o t l'.
Proof.
  intros H. apply spelling_outside. unfold spelling_defect in H.
  destruct (classify_num strtod l) as [[ | ? | na | na | ? | ? | ? ]|], (classify_num strtod l') as [[ | ? | nb | nb | ? | ? | ? ]|]; try discriminate; try reflexivity.
  - apply negb_false_iff, Z.eqb_eq in H. subst. reflexivity.
  - apply negb_false_iff, N.eqb_eq in H. subst. reflexivity.
Qed.

(* member order: a class member is looked up by name (FindMember), so the position of the other members is irrelevant *)
Lemma find_member_swap m1 a b m2 k : key_eqb (fst a) (fst b) = false ->
  find_member (m1 ++ a :: b :: m2) k = find_member (m1 ++ b :: a :: m2) k.
Proof.
  intros Hab. induction m1 as [|[k0 d0] m1 IH]; cbn [app find_member].
  - destruct a as [ka da], b as [kb db]. cbn [fst] in *. cbn [find_member].
    destruct (key_eqb k ka) eqn:E1, (key_eqb k kb) eqn:E2; try reflexivity.
    apply key_eqb_eq in E1, E2. subst. rewrite key_eqb_refl in Hab. discriminate.
  - rewrite IH. reflexivity.
Qed.

Lemma obj_go_swap i2d o fields m1 a b m2 : key_eqb (fst a) (fst b) = false ->
  obj_go i2d o (m1 ++ a :: b :: m2) fields = obj_go i2d o (m1 ++ b :: a :: m2) fields.
Proof.
  intros Hab. induction fields as [|[[k fk] ft] fs IH]; [reflexivity|].
  cbn [obj_go]. rewrite (find_member_swap m1 a b m2 k Hab), IH. reflexivity.
Qed.

Lemma load_class_member_order i2d o fields m1 a b m2 : key_eqb (fst a) (fst b) = false ->
  load_json i2d o (TyObj fields) (RObj (m1 ++ a :: b :: m2)) = load_json i2d o (TyObj fields) (RObj (m1 ++ b :: a :: m2)).
Proof.
  intros Hab. unfold load_json. rewrite !load_obj, (obj_go_swap i2d o fields m1 a b m2 Hab). reflexivity.
Qed.

(* ================================================================== save then load, XML, at the DOM level *)

(* H_px (tested on every run, not proved): what pugixml's parser (parse_default | parse_ws_pcdata_single) hands back for
   a document that pugixml wrote from this DOM: the DOM itself, except that a carriage return in character data comes
   back as a line feed (saved_view) *)
Definition roundtrip_xml (dtoa17 dtoa9 : N -> list N) (xstrtod xstrtof : list N -> option (option N)) (o : opts) (key : option (list N)) (t : ty) (v : val)
  : option outcome :=
  option_map (fun d => load_xml xstrtod xstrtof o key t (saved_view d)) (save_xml dtoa17 dtoa9 key t v).

(* the full statement (every well-typed value comes back) fails in the model of the current code:
   J41, a carriage return silently becomes a line feed *)
Lemma xml_roundtrip_refuted dtoa17 dtoa9 xstrtod xstrtof :
  roundtrip_xml dtoa17 dtoa9 xstrtod xstrtof mkT None (TyVec TyStr) (VArr [VStr [97; 13; 98]]) = Some (Ok (VArr [VStr [97; 10; 98]])).
Proof. reflexivity. Qed.

(* the former findings F29, F29a, F29w are repaired: an empty container below the root, a class with attributes only
   inside a container, a white-space-only string *)
Example xml_roundtrip_repaired dtoa17 dtoa9 xstrtod xstrtof :
  roundtrip_xml dtoa17 dtoa9 xstrtod xstrtof mkT None (TyVec (TyVec (TyInt I32))) (VArr [VArr [VInt 1]; VArr []]) = Some (Ok (VArr [VArr [VInt 1]; VArr []])) /\
  roundtrip_xml dtoa17 dtoa9 xstrtod xstrtof mkT None (TyVec ty_attronly) (VArr [VObj [([120], VInt 1); ([116; 121; 112; 101], VStr [82])]]) =
    Some (Ok (VArr [VObj [([120], VInt 1); ([116; 121; 112; 101], VStr [82])]])) /\
  roundtrip_xml dtoa17 dtoa9 xstrtod xstrtof mkT None (TyVec TyStr) (VArr [VStr [32]; VStr [97]; VStr []]) = Some (Ok (VArr [VStr [32]; VStr [97]; VStr []])).
Proof. repeat split; reflexivity. Qed.

Example xml_roundtrip_example dtoa17 dtoa9 xstrtod xstrtof :
  roundtrip_xml dtoa17 dtoa9 xstrtod xstrtof mkT (Some [83]) (TyMap (TyVec ty_attr))
    (VObj [([107], VArr [VObj [([97], VInt (-5)); ([115], VStr [60; 34; 10]); ([98], VBool true); ([117], VInt 18446744073709551615); ([118], VInt 7); ([116], VStr [120; 32])]])]) =
  Some (Ok (VObj [([107], VArr [VObj [([97], VInt (-5)); ([115], VStr [60; 34; 10]); ([98], VBool true); ([117], VInt 18446744073709551615); ([118], VInt 7); ([116], VStr [120; 32])]])])).
Proof. reflexivity. Qed.

(* ================================================================== the output options reach the writer (C08) *)

(* what the options mean (serialization_options.h, docs): a string is UTF-8 without BOM whatever the stream options say;
   a stream is the text in the encoding scheme of streamOptions.encoding, preceded by U+FEFF in that scheme iff writeBom *)
Definition enc_scheme (u : utf) : width * endian :=
  match u with Utf8 => (W8, LE) | Utf16le => (W16, LE) | Utf16be => (W16, BE) | Utf32le => (W32, LE) | Utf32be => (W32, BE) end.

Definition spec_bytes (o : sopts) (cps : list N) : list N :=
  if so_stream o then
    let (w, e) := enc_scheme (so_enc o) in
    (if so_bom o then units_bytes e w (encs w [0xFEFF]) else []) ++ units_bytes e w (encs w cps)
  else encs W8 cps.

Definition spec_indent (o : sopts) : option (N * N) := if so_fmt o then Some (so_pad o, so_cnt o) else None.

Lemma units_bytes_w8 e l : units_bytes e W8 l = l.
Proof. induction l as [|x l IH]; [reflexivity|]. cbn. unfold units_bytes in IH. rewrite IH. reflexivity. Qed.

Lemma options_passed o cps :
  rj_put (json_writer o) cps = spec_bytes o cps /\ w_indent (json_writer o) = spec_indent o.
Proof.
  split; [|reflexivity].
  destruct o as [st enc bom fmt pad cnt]. unfold rj_put, json_writer, spec_bytes. cbn [so_stream so_enc so_bom w_bom w_utf].
  destruct st.
  - destruct enc, bom; reflexivity.
  - cbn. apply units_bytes_w8.
Qed.

Lemma to_rapid_utf_injective a b : to_rapid_utf a = to_rapid_utf b -> a = b.
Proof. destruct a, b; intros H; try discriminate; reflexivity. Qed.

Example options_example :
  rj_put (json_writer (mkSopts true Utf16be true true 32 2)) [91; 233; 0x1F600] = [0xFE; 0xFF; 0; 91; 0; 233; 0xD8; 0x3D; 0xDE; 0] /\
  rj_put (json_writer (mkSopts false Utf16be true false 9 1)) [91; 233] = [91; 0xC3; 0xA9] /\
  w_indent (json_writer (mkSopts true Utf8 false true 9 3)) = Some (9, 3).
Proof. repeat split; reflexivity. Qed.
