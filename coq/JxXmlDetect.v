(* JxXmlDetect.v — the load side of the encoding axis for XML streams: pugixml's auto-detection of the encoding
   (xml_document::load(std::istream&) = load_buffer with encoding_auto, which the stream constructor of the XML archive
   uses; the string constructor passes encoding_utf8).  pugixml's source is not installed here (only pugixml.hpp 1.13):
   px_detect is written from guess_buffer_encoding as documented in the manual ("Encodings": a byte order mark, else the
   patterns of '<' and '<?' in UTF-16 / UTF-32, else UTF-8) and is validated against the library on every run: the
   extracted function decides the encoding of every XML stream load of the model driver (stage_xdetect adds short,
   cut and adversarial streams).  NOT modelled: the branch that reads an encoding pseudo-attribute naming iso-8859-1 /
   latin1 out of a UTF-8-compatible declaration; the archive never writes an encoding pseudo-attribute
   (T_C08_xml_options_no_encoding_declaration), so it does not apply to what the archive writes. *)
From BS Require Import Base UtfSpec UtfModel UtfProofs JxJsonSpec JxJsonProofs JxXmlSpec JxModel JxProofs JxXmlOptions JxDetect JxDetectProofs.
From Coq Require Import ZifyBool ZifyN ZifyNat.
Local Open Scope N_scope.
Ltac Zify.zify_post_hook ::= Z.div_mod_to_equations.

(* guess_buffer_encoding: fewer than four bytes: UTF-8.  Byte order marks (00 00 FE FF, FF FE 00 00, FE FF, FF FE,
   EF BB BF); then '<' in UTF-32 (00 00 00 3C, 3C 00 00 00); then '<?' in UTF-16 (00 3C 00 3F, 3C 00 3F 00); then '<'
   followed by anything in UTF-16 (00 3C, 3C 00); else UTF-8.  Detection consumes nothing: the text is decoded whole and
   the parser skips one leading U+FEFF (parse_skip_bom) *)
Definition px_detect (b : list N) : px_encoding :=
  match b with
  | d0 :: d1 :: d2 :: d3 :: _ =>
    if (d0 =? 0) && (d1 =? 0) && (d2 =? 0xFE) && (d3 =? 0xFF) then pe_utf32_be
    else if (d0 =? 0xFF) && (d1 =? 0xFE) && (d2 =? 0) && (d3 =? 0) then pe_utf32_le
    else if (d0 =? 0xFE) && (d1 =? 0xFF) then pe_utf16_be
    else if (d0 =? 0xFF) && (d1 =? 0xFE) then pe_utf16_le
    else if (d0 =? 0xEF) && (d1 =? 0xBB) && (d2 =? 0xBF) then pe_utf8
    else if (d0 =? 0) && (d1 =? 0) && (d2 =? 0) && (d3 =? 0x3C) then pe_utf32_be
    else if (d0 =? 0x3C) && (d1 =? 0) && (d2 =? 0) && (d3 =? 0) then pe_utf32_le
    else if (d0 =? 0) && (d1 =? 0x3C) then pe_utf16_be
    else if (d0 =? 0x3C) && (d1 =? 0) then pe_utf16_le
    else pe_utf8
  | _ => pe_utf8
  end.

Definition px_body (e : px_encoding) (cps : list N) : list N :=
  units_bytes (snd (px_scheme e)) (fst (px_scheme e)) (encs (fst (px_scheme e)) cps).

Definition px_decode (e : px_encoding) (b : list N) : option (list N) :=
  let (w, en) := px_scheme e in
  match bytes_units en w b with
  | Some u => let r := transcode w W32 ThrowError [] u [] in
              match r_code r with Success => if forallb scalarb (r_out r) then Some (r_out r) else None | _ => None end
  | None => None
  end.

Definition strip_bom (cps : list N) : list N := match cps with c :: r => if c =? 0xFEFF then r else cps | [] => [] end.

(* what the parser gets from a stream (for well-formed input; pugixml's decoders are lenient about ill-formed sequences,
   which is not modelled: None) *)
Definition px_read (b : list N) : option (list N) := option_map strip_bom (px_decode (px_detect b) b).
