(* JxXmlDetectProofs.v — pugixml's auto-detection on what the XML archive writes: with a byte order mark always; without
   one for every text that starts with '<' (every document of the archive starts with the XML declaration); composition
   with T_C08_xml_options_passed into a stream round trip for all five encodings with and without BOM. *)
From BS Require Import Base UtfSpec UtfModel UtfProofs JxJsonSpec JxJsonProofs JxXmlSpec JxModel JxProofs JxXmlOptions JxDetect JxDetectProofs JxXmlDetect.
From Coq Require Import ZifyBool ZifyN ZifyNat.
Local Open Scope N_scope.
Ltac Zify.zify_post_hook ::= Z.div_mod_to_equations.

(* ================================================================== decoding what was encoded *)

Lemma px_bytes_units_inv e cps : Forall scalar cps ->
  bytes_units (snd (px_scheme e)) (fst (px_scheme e)) (px_body e cps) = Some (encs (fst (px_scheme e)) cps).
Proof.
  intros H. unfold px_body. destruct e; cbn [px_scheme fst snd bytes_units].
  - rewrite units_bytes_w8. reflexivity.
  - apply bytes_units16_inv, encs16_bound, H.
  - apply bytes_units16_inv, encs16_bound, H.
  - apply bytes_units32_inv, encs32_bound, H.
  - apply bytes_units32_inv, encs32_bound, H.
Qed.

Lemma px_decode_body e cps : Forall scalar cps -> px_decode e (px_body e cps) = Some cps.
Proof.
  intros H. unfold px_decode. pose proof (px_bytes_units_inv e cps H) as E.
  destruct (px_scheme e) as [w en] eqn:Es. cbn [fst snd] in E. rewrite E.
  rewrite (transcode_exact' w W32 ThrowError [] cps [] H). cbn [r_code r_out app]. rewrite encs32_id.
  assert (Hb : forallb scalarb cps = true) by (apply forallb_forall; intros x Hx; exact (proj1 (Forall_forall _ _) H x Hx)).
  rewrite Hb. reflexivity.
Qed.

Lemma px_body_cons e a rest : px_body e (a :: rest) =
  units_bytes (snd (px_scheme e)) (fst (px_scheme e)) (enc (fst (px_scheme e)) a) ++ px_body e rest.
Proof. unfold px_body, units_bytes, encs. cbn [flat_map]. rewrite flat_map_app. reflexivity. Qed.

(* the byte order mark is U+FEFF in the scheme *)
Lemma px_bom_body e text : px_bom e ++ px_body e text = px_body e (0xFEFF :: text).
Proof. rewrite px_body_cons. destruct e; reflexivity. Qed.

(* ================================================================== detection on explicit bytes *)

Ltac px_tests d0 d1 d2 d3 :=
  let B1 := fresh "B" in let B2 := fresh "B" in let B3 := fresh "B" in let B4 := fresh "B" in let B5 := fresh "B" in
  assert (B1 : ((d0 =? 0) && (d1 =? 0) && (d2 =? 254) && (d3 =? 255)) = false) by lia;
  assert (B2 : ((d0 =? 255) && (d1 =? 254) && (d2 =? 0) && (d3 =? 0)) = false) by lia;
  assert (B3 : ((d0 =? 254) && (d1 =? 255)) = false) by lia;
  assert (B4 : ((d0 =? 255) && (d1 =? 254)) = false) by lia;
  assert (B5 : ((d0 =? 239) && (d1 =? 187) && (d2 =? 191)) = false) by lia;
  unfold px_detect; rewrite B1, B2, B3, B4, B5.

(* '<' then a byte that is not zero: UTF-8 *)
Lemma px_detect_lt8 b : match b with d0 :: d1 :: _ => d0 = 0x3C /\ d1 <> 0 | _ => True end -> px_detect b = pe_utf8.
Proof.
  destruct b as [|d0 [|d1 [|d2 [|d3 r]]]]; try reflexivity. intros [H0 H1]. px_tests d0 d1 d2 d3.
  assert (C1 : ((d0 =? 0) && (d1 =? 0) && (d2 =? 0) && (d3 =? 60)) = false) by lia.
  assert (C2 : ((d0 =? 60) && (d1 =? 0) && (d2 =? 0) && (d3 =? 0)) = false) by lia.
  assert (C3 : ((d0 =? 0) && (d1 =? 60)) = false) by lia.
  assert (C4 : ((d0 =? 60) && (d1 =? 0)) = false) by lia.
  rewrite C1, C2, C3, C4. reflexivity.
Qed.

Lemma px_detect_lt16le d2 d3 r : ~ (d2 = 0 /\ d3 = 0) -> px_detect (0x3C :: 0 :: d2 :: d3 :: r) = pe_utf16_le.
Proof.
  intros H. unfold px_detect.
  assert (C2 : ((d2 =? 0) && (d3 =? 0)) = false) by lia.
  change (60 =? 0) with false. change (60 =? 255) with false. change (60 =? 254) with false. change (60 =? 239) with false.
  change (60 =? 60) with true. change (0 =? 0) with true. change (0 =? 60) with false. cbn [andb]. rewrite C2. reflexivity.
Qed.

Lemma px_detect_lt16be d2 d3 r : px_detect (0 :: 0x3C :: d2 :: d3 :: r) = pe_utf16_be.
Proof. reflexivity. Qed.

Lemma px_detect_bom16le d2 d3 r : ~ (d2 = 0 /\ d3 = 0) -> px_detect (0xFF :: 0xFE :: d2 :: d3 :: r) = pe_utf16_le.
Proof.
  intros H. unfold px_detect. assert (C2 : ((d2 =? 0) && (d3 =? 0)) = false) by lia.
  change (255 =? 0) with false. change (255 =? 255) with true. change (254 =? 254) with true. change (255 =? 254) with false.
  cbn [andb]. rewrite C2. reflexivity.
Qed.

(* ================================================================== (a) with a byte order mark *)

Theorem px_detect_bom e text : Forall scalar text -> match text with a :: _ => a <> 0 | [] => False end ->
  px_detect (px_bom e ++ px_body e text) = e.
Proof.
  intros Hs Hne. destruct text as [|a rest]; [contradiction|]. inversion Hs as [|? ? Ha _]; subst. unfold scalar, scalarb in Ha.
  rewrite px_body_cons. destruct e; cbn [px_bom px_scheme fst snd enc app].
  - rewrite units_bytes_w8. unfold enc8. destruct (a <? 128); [|destruct (a <? 2048); [|destruct (a <? 65536)]]; reflexivity.
  - unfold enc16. destruct (a <? 65536) eqn:E; cbn [units_bytes flat_map unit_bytes app]; apply px_detect_bom16le; lia.
  - unfold enc16. destruct (a <? 65536) eqn:E; cbn [units_bytes flat_map unit_bytes app]; reflexivity.
  - reflexivity.
  - reflexivity.
Qed.

Theorem px_read_bom e text : Forall scalar text -> match text with a :: _ => a <> 0 | [] => False end ->
  px_read (px_bom e ++ px_body e text) = Some text.
Proof.
  intros Hs Hne. unfold px_read. rewrite (px_detect_bom e text Hs Hne), px_bom_body.
  rewrite px_decode_body by (constructor; [reflexivity | exact Hs]). reflexivity.
Qed.

(* ================================================================== (b) without one: a text that starts with '<' *)

Definition starts_lt (text : list N) : bool := match text with a :: b :: _ => (a =? 0x3C) && negb (b =? 0) | _ => false end.

Theorem px_detect_lt e text : Forall scalar text -> starts_lt text = true -> px_detect (px_body e text) = e.
Proof.
  intros Hs Hl. destruct text as [|a [|b rest]]; try discriminate. cbn [starts_lt] in Hl.
  assert (Ea : a = 0x3C) by lia. assert (Hb0 : b <> 0) by lia. subst a.
  inversion Hs as [|? ? _ Hs']; subst. inversion Hs' as [|? ? Hb _]; subst. unfold scalar, scalarb in Hb.
  rewrite !px_body_cons. destruct e; cbn [px_scheme fst snd enc].
  - rewrite !units_bytes_w8. change (enc8 60) with [60]. cbn [app]. apply px_detect_lt8.
    unfold enc8. destruct (b <? 128) eqn:F1; [|destruct (b <? 2048) eqn:F2; [|destruct (b <? 65536) eqn:F3]]; cbn [app]; split; lia.
  - change (units_bytes LE W16 (enc16 60)) with [60; 0]. cbn [app]. unfold enc16.
    destruct (b <? 65536) eqn:E; cbn [units_bytes flat_map unit_bytes app]; apply px_detect_lt16le; lia.
  - change (units_bytes BE W16 (enc16 60)) with [0; 60]. cbn [app]. unfold enc16.
    destruct (b <? 65536) eqn:E; cbn [units_bytes flat_map unit_bytes app]; apply px_detect_lt16be.
  - reflexivity.
  - reflexivity.
Qed.

Theorem px_read_lt e text : Forall scalar text -> starts_lt text = true -> px_read (px_body e text) = Some text.
Proof.
  intros Hs Hl. unfold px_read. rewrite (px_detect_lt e text Hs Hl), (px_decode_body e text Hs).
  destruct text as [|a r]; [discriminate|]. cbn [starts_lt] in Hl. destruct r; [discriminate|].
  assert (Ea : a = 0x3C) by lia. subst. reflexivity.
Qed.

(* where it is not recognised without a mark: white space before the first '<' in UTF-16 (the stream is taken for UTF-8) *)
Example px_detect_refuted :
  px_detect (px_body pe_utf16_le [32; 60; 97; 47; 62]) = pe_utf8 /\ px_read (px_body pe_utf16_le [32; 60; 97; 47; 62]) <> Some [32; 60; 97; 47; 62].
Proof. split; [reflexivity | vm_compute; discriminate]. Qed.

(* ================================================================== (c) what the archive writes to a stream is read back *)

Section Composition.
  Variable tag : xtok -> list N.

  Lemma px_doc_starts o root : starts_lt (px_doc tag (xml_writer o) root) = true.
  Proof. reflexivity. Qed.

  (* for every option setting of a stream - five encodings, with and without BOM, formatted or not - and every document
     (whose text consists of scalar values): detection + decoding gives back exactly the text that was written *)
  Theorem xml_stream_roundtrip o root : so_stream o = true -> Forall scalar (px_doc tag (xml_writer o) root) ->
    px_read (px_put tag (xml_writer o) root) = Some (px_doc tag (xml_writer o) root).
  Proof.
    intros Hst Hs. unfold px_put. set (w := xml_writer o). set (text := px_doc tag w root) in *.
    fold (px_body (px_enc w) text).
    destruct (px_bom_flag w).
    - apply px_read_bom; [exact Hs|]. subst text. unfold px_doc. cbn. discriminate.
    - cbn [app]. apply px_read_lt; [exact Hs | apply px_doc_starts].
  Qed.

  (* and the detected encoding is the configured one *)
  Theorem xml_stream_detected o root : so_stream o = true -> Forall scalar (px_doc tag (xml_writer o) root) ->
    px_detect (px_put tag (xml_writer o) root) = to_pugi_utf (so_enc o).
  Proof.
    intros Hst Hs. unfold px_put. set (w := xml_writer o). set (text := px_doc tag w root) in *.
    fold (px_body (px_enc w) text).
    assert (Ee : px_enc w = to_pugi_utf (so_enc o)) by (subst w; unfold xml_writer; cbn [px_enc]; rewrite Hst; reflexivity).
    destruct (px_bom_flag w).
    - rewrite px_detect_bom; [exact Ee | exact Hs |]. subst text. unfold px_doc. cbn. discriminate.
    - cbn [app]. rewrite px_detect_lt; [exact Ee | exact Hs | apply px_doc_starts].
  Qed.
End Composition.
