(* JxXmlOptions.v — the output options of the XML archive reach pugixml (C08): what PugiXmlRootScope::Finalize()
   configures from the options (the save flags format_indent / format_raw / format_write_bom, the indent string, the
   pugi encoding) composed with what those flags mean (pugixml manual, 'Saving document'; third party, validated per
   document by the run) gives exactly what the options mean; and the stated exception J47. *)
From BS Require Import Base UtfSpec JxJsonSpec JxXmlSpec JxXmlProofs JxModel JxProofs.
Local Open Scope N_scope.

(* ================================================================== what the adapter configures *)

Inductive px_encoding := pe_utf8 | pe_utf16_le | pe_utf16_be | pe_utf32_le | pe_utf32_be.

(* the arguments of xml_document::save(writer / stream, indent, flags, encoding) *)
Record px_save := mkPx {
  px_indent_flag : bool;        (* format_indent; otherwise format_raw *)
  px_bom_flag : bool;           (* format_write_bom *)
  px_indent : list N;           (* the indent string *)
  px_enc : px_encoding }.

(* ToPugiUtfType *)
Definition to_pugi_utf (u : utf) : px_encoding :=
  match u with Utf8 => pe_utf8 | Utf16le => pe_utf16_le | Utf16be => pe_utf16_be | Utf32le => pe_utf32_le | Utf32be => pe_utf32_be end.

(* Finalize(): flags = enableFormat ? format_indent : format_raw; indent = string(paddingCharNum, paddingChar);
   a std::string: save(writer, indent, flags, encoding_utf8); a stream: flags |= writeBom ? format_write_bom : 0 and
   save(stream, indent, flags, ToPugiUtfType(encoding)) *)
Definition xml_writer (o : sopts) : px_save :=
  {| px_indent_flag := so_fmt o;
     px_bom_flag := so_stream o && so_bom o;
     px_indent := repeat (so_pad o) (N.to_nat (so_cnt o));
     px_enc := if so_stream o then to_pugi_utf (so_enc o) else pe_utf8 |}.

(* ================================================================== what the flags mean (pugixml; third party) *)

Section Output.
  (* how pugixml spells a start-tag, an empty-element tag, an end-tag and character data (escapes); immaterial here *)
  Variable tag : xtok -> list N.

  (* format_raw: nothing is added between nodes.  format_indent: every element starts on its own line after `depth`
     copies of the indent string, a line feed follows every tag that is not next to character data; character data
     stays on the line of its element.  ind = Some indent-string for format_indent, None for format_raw *)
  Fixpoint px_node (ind : option (list N)) (depth : nat) (x : xnode) {struct x} : list N :=
    match x with
    | XText s => tag (XTxt s)
    | XElem n a ch =>
      let pre := match ind with Some i => concat (repeat i depth) | None => [] end in
      let nl := match ind with Some _ => [10] | None => [] end in
      match ch with
      | [] => pre ++ tag (XEmpty n a) ++ nl
      | XText _ :: _ => pre ++ tag (XOpen n a) ++ flat_map (px_node ind (S depth)) ch ++ tag (XClose n) ++ nl
      | _ => pre ++ tag (XOpen n a) ++ nl ++ flat_map (px_node ind (S depth)) ch ++ pre ++ tag (XClose n) ++ nl
      end
    end.

  (* the document: the default declaration (no document has a declaration node of its own: the archive never adds one),
     which names no encoding, then the document element *)
  Definition px_doc (w : px_save) (root : xnode) : list N :=
    let ind := if px_indent_flag w then Some (px_indent w) else None in
    xml_decl_text ++ (match ind with Some _ => [10] | None => [] end) ++ px_node ind 0 root.

  Definition px_scheme (e : px_encoding) : width * endian :=
    match e with pe_utf8 => (W8, LE) | pe_utf16_le => (W16, LE) | pe_utf16_be => (W16, BE) | pe_utf32_le => (W32, LE) | pe_utf32_be => (W32, BE) end.
  (* format_write_bom: the encoding-specific byte order mark *)
  Definition px_bom (e : px_encoding) : list N :=
    match e with
    | pe_utf8 => [0xEF; 0xBB; 0xBF] | pe_utf16_le => [0xFF; 0xFE] | pe_utf16_be => [0xFE; 0xFF]
    | pe_utf32_le => [0xFF; 0xFE; 0; 0] | pe_utf32_be => [0; 0; 0xFE; 0xFF]
    end.

  (* the bytes handed to the writer *)
  Definition px_put (w : px_save) (root : xnode) : list N :=
    (if px_bom_flag w then px_bom (px_enc w) else []) ++
    units_bytes (snd (px_scheme (px_enc w))) (fst (px_scheme (px_enc w))) (encs (fst (px_scheme (px_enc w))) (px_doc w root)).

  (* ================================================================== what the options mean *)

  (* formatOptions: with enableFormat every element is on its own line, preceded by paddingChar repeated
     paddingCharNum times per nesting level; without it no white space is added *)
  Fixpoint spec_node (fmt : option (N * N)) (depth : nat) (x : xnode) {struct x} : list N :=
    match x with
    | XText s => tag (XTxt s)
    | XElem n a ch =>
      let pre := match fmt with Some (pad, cnt) => repeat pad (depth * N.to_nat cnt) | None => [] end in
      let nl := match fmt with Some _ => [10] | None => [] end in
      match ch with
      | [] => pre ++ tag (XEmpty n a) ++ nl
      | XText _ :: _ => pre ++ tag (XOpen n a) ++ flat_map (spec_node fmt (S depth)) ch ++ tag (XClose n) ++ nl
      | _ => pre ++ tag (XOpen n a) ++ nl ++ flat_map (spec_node fmt (S depth)) ch ++ pre ++ tag (XClose n) ++ nl
      end
    end.

  Definition spec_xml_text (o : sopts) (root : xnode) : list N :=
    xml_decl_text ++ (if so_fmt o then [10] else []) ++ spec_node (spec_indent o) 0 root.

  (* streamOptions as for JSON (spec_bytes of JxProofs.v): a std::string is UTF-8 without BOM whatever the stream options
     say; a stream is the text in the scheme named by encoding, preceded by U+FEFF in that scheme iff writeBom *)
  Definition spec_xml_bytes (o : sopts) (root : xnode) : list N := spec_bytes o (spec_xml_text o root).

  (* ================================================================== the composition *)

  Lemma concat_repeat_repeat (c : N) n d : concat (repeat (repeat c n) d) = repeat c (d * n).
  Proof. induction d as [|d IH]; [reflexivity|]. cbn [repeat concat Nat.mul]. rewrite IH, repeat_app. reflexivity. Qed.

  Lemma xnode_ind' (P : xnode -> Prop) (Ht : forall s, P (XText s))
    (He : forall n a ch, Forall P ch -> P (XElem n a ch)) : forall x, P x.
  Proof.
    fix IH 1. intros [n a ch|s]; [|apply Ht]. apply He. revert ch. fix IHl 1. intros [|x ch]; constructor; [apply IH | apply IHl].
  Qed.

  Lemma flat_map_ext_Forall {A B} (f g : A -> list B) l : Forall (fun x => f x = g x) l -> flat_map f l = flat_map g l.
  Proof. induction 1 as [|x l Hx _ IH]; [reflexivity|]. cbn [flat_map]. rewrite Hx, IH. reflexivity. Qed.

  Lemma px_node_spec pad cnt x : forall depth,
    px_node (Some (repeat pad (N.to_nat cnt))) depth x = spec_node (Some (pad, cnt)) depth x.
  Proof.
    induction x as [s | n a ch IH] using xnode_ind'; intros depth; [reflexivity|].
    cbn [px_node spec_node]. rewrite concat_repeat_repeat.
    assert (E : flat_map (px_node (Some (repeat pad (N.to_nat cnt))) (S depth)) ch = flat_map (spec_node (Some (pad, cnt)) (S depth)) ch).
    { apply flat_map_ext_Forall. apply Forall_forall. intros x Hx. apply (proj1 (Forall_forall _ _) IH x Hx). }
    rewrite E. reflexivity.
  Qed.

  Lemma px_node_raw x : forall depth, px_node None depth x = spec_node None depth x.
  Proof.
    induction x as [s | n a ch IH] using xnode_ind'; intros depth; [reflexivity|].
    cbn [px_node spec_node].
    assert (E : flat_map (px_node None (S depth)) ch = flat_map (spec_node None (S depth)) ch).
    { apply flat_map_ext_Forall. apply Forall_forall. intros x Hx. apply (proj1 (Forall_forall _ _) IH x Hx). }
    rewrite E. reflexivity.
  Qed.

  Lemma px_doc_spec o root : px_doc (xml_writer o) root = spec_xml_text o root.
  Proof.
    unfold px_doc, spec_xml_text, spec_indent, xml_writer. cbn [px_indent_flag px_indent]. destruct (so_fmt o).
    - rewrite px_node_spec. reflexivity.
    - rewrite px_node_raw. reflexivity.
  Qed.

  (* the flags and arguments chosen by Finalize(), with the meaning pugixml gives them, produce exactly what the options
     mean: layout and bytes *)
  Theorem xml_options_passed o root : px_put (xml_writer o) root = spec_xml_bytes o root.
  Proof.
    unfold px_put, spec_xml_bytes. rewrite px_doc_spec. generalize (spec_xml_text o root) as cps. intros cps.
    destruct o as [st enc bom fmt pad cnt]. unfold xml_writer, spec_bytes. cbn [so_stream so_enc so_bom px_bom_flag px_enc].
    destruct st.
    - destruct enc, bom; reflexivity.
    - cbn. apply units_bytes_w8.
  Qed.

  (* ================================================================== the exception (J47) *)

  (* whatever the options, the produced text declares no encoding: the declaration is <?xml version="1.0"?> *)
  Theorem xml_no_encoding_declared o root : xml_declared_encoding (px_doc (xml_writer o) root) = None.
  Proof.
    unfold xml_declared_encoding, px_doc.
    assert (E : forall rest, norm_eol (xml_decl_text ++ rest) = xml_decl_text ++ norm_eol rest) by (intros; reflexivity).
    rewrite E, split_decl_print. reflexivity.
  Qed.
End Output.

Lemma to_pugi_utf_injective a b : to_pugi_utf a = to_pugi_utf b -> a = b.
Proof. destruct a, b; intros H; try discriminate; reflexivity. Qed.

(* XML 1.0 4.3.3: an entity that is not UTF-8 must say so: a byte order mark (UTF-16) or an encoding declaration.  The
   produced stream does, exactly when it is UTF-8 or carries the BOM: *)
Definition xml_self_describing (o : sopts) (declared : bool) : bool :=
  negb (so_stream o) || match so_enc o with Utf8 => true | _ => false end || so_bom o || declared.

Theorem xml_j47_exact tag o root :
  xml_self_describing o (match xml_declared_encoding (px_doc tag (xml_writer o) root) with Some _ => true | None => false end) = false <->
  so_stream o = true /\ so_enc o <> Utf8 /\ so_bom o = false.
Proof.
  rewrite xml_no_encoding_declared. unfold xml_self_describing. destruct o as [st enc bom fmt pad cnt]. cbn [so_stream so_enc so_bom].
  destruct st, enc, bom; cbn; split; intros H; try discriminate; try reflexivity; try (repeat split; discriminate);
    destruct H as [H1 [H2 H3]]; try discriminate; try (exfalso; apply H2; reflexivity).
Qed.

(* <a><b/></a> to a UTF-16BE stream with BOM, indented by two tabs; and to a string, where the stream options are ignored *)
Example xml_options_example :
  px_put xtok_text (xml_writer (mkSopts true Utf16be true true 9 2)) (XElem [97] [] [XElem [98] [] []]) =
    [0xFE; 0xFF] ++ units_bytes BE W16 (xml_decl_text ++ [10; 60; 97; 62; 10; 9; 9; 60; 98; 47; 62; 10; 60; 47; 97; 62; 10]) /\
  px_put xtok_text (xml_writer (mkSopts false Utf16be true false 9 2)) (XElem [97] [] [XElem [98] [] []]) =
    xml_decl_text ++ [60; 97; 62; 60; 98; 47; 62; 60; 47; 97; 62].
Proof. split; vm_compute; reflexivity. Qed.
