(* JxXmlProofs.v — the XML reference syntax of JxXmlSpec: the parser reads back what the printer writes
   (for every well-formed DOM whose root is an element), at the code point level and through UTF-8,
   and no fuel is ever exhausted. *)
From BS Require Import Base UtfSpec UtfModel UtfLemmas UtfProofs JxJsonSpec JxJsonProofs JxXmlSpec.
From Coq Require Import ZifyBool ZifyN ZifyNat.
Local Open Scope N_scope.
Ltac Zify.zify_post_hook ::= Z.div_mod_to_equations.

(* ================================================================== span, names *)

Lemma span_split p s : forall a r, span p s = (a, r) -> s = a ++ r /\ forallb p a = true.
Proof.
  induction s as [|c s IH]; intros a r H; cbn in H.
  - inversion H; subst. split; reflexivity.
  - destruct (p c) eqn:E.
    + destruct (span p s) as [a' r'] eqn:Es. inversion H; subst.
      destruct (IH a' r eq_refl) as [-> Ha]. split; [reflexivity|]. cbn. rewrite E, Ha. reflexivity.
    + inversion H; subst. split; reflexivity.
Qed.

Definition stopsp (p : N -> bool) (rest : list N) : Prop :=
  match rest with c :: _ => p c = false | [] => True end.

Lemma span_app p a : forall rest, forallb p a = true -> stopsp p rest -> span p (a ++ rest) = (a, rest).
Proof.
  induction a as [|c a IH]; intros rest Ha Hr.
  - cbn [app]. destruct rest as [|d rest]; [reflexivity|]. cbn in Hr |- *. rewrite Hr. reflexivity.
  - cbn in Ha. apply andb_true_iff in Ha. destruct Ha as [Hc Ha].
    cbn [app span]. rewrite Hc, (IH rest Ha Hr). reflexivity.
Qed.

Lemma span_len p s : forall a r, span p s = (a, r) -> (length r <= length s)%nat.
Proof.
  intros a r H. destruct (span_split _ _ _ _ H) as [-> _]. rewrite app_length. lia.
Qed.

Lemma skip_ws_len s : (length (skip_ws s) <= length s)%nat.
Proof. unfold skip_ws. destruct (span is_xws s) as [a r] eqn:E. cbn [snd]. exact (span_len _ _ _ _ E). Qed.

Lemma name_start_ge c : name_start c = true -> c = 58 \/ 65 <= c.
Proof. unfold name_start. lia. Qed.

Lemma name_char_ge c : name_char c = true -> c = 45 \/ c = 46 \/ (48 <= c /\ c <= 58) \/ 65 <= c.
Proof. unfold name_char, name_start. lia. Qed.

Lemma name_start_char c : name_start c = true -> name_char c = true.
Proof. unfold name_char. intros ->. reflexivity. Qed.

Lemma name_char_scalar c : name_char c = true -> scalar c.
Proof. unfold name_char, name_start, scalar, scalarb. lia. Qed.

Lemma name_ok_inv n : name_ok n = true ->
  exists c r, n = c :: r /\ name_start c = true /\ forallb name_char r = true.
Proof.
  unfold name_ok, lex_name. destruct n as [|c r]; [discriminate|].
  destruct (name_start c) eqn:E; [|discriminate].
  destruct (span name_char r) as [a r'] eqn:Es. destruct r'; [|discriminate]. intros _.
  destruct (span_split _ _ _ _ Es) as [-> H]. rewrite app_nil_r. eauto.
Qed.

Lemma name_ok_chars n : name_ok n = true -> forallb name_char n = true.
Proof.
  intros H. destruct (name_ok_inv n H) as [c [r [-> [Hc Hr]]]]. cbn. rewrite (name_start_char c Hc), Hr. reflexivity.
Qed.

Lemma lex_name_app n rest : name_ok n = true -> stopsp name_char rest -> lex_name (n ++ rest) = Some (n, rest).
Proof.
  intros H Hr. destruct (name_ok_inv n H) as [c [r [-> [Hc Hn]]]].
  cbn [app lex_name]. rewrite Hc, (span_app name_char r rest Hn Hr). reflexivity.
Qed.

Lemma lex_name_len s n r : lex_name s = Some (n, r) -> (length r < length s)%nat.
Proof.
  destruct s as [|c s]; cbn; [discriminate|]. destruct (name_start c); [|discriminate].
  destruct (span name_char s) as [a r'] eqn:E. intros H. inversion H; subst. apply span_len in E. lia.
Qed.

Lemma list_eqb_refl n : list_eqb n n = true.
Proof. induction n as [|c n IH]; cbn; [reflexivity|]. rewrite N.eqb_refl, IH. reflexivity. Qed.

Lemma list_eqb_sym a : forall b, list_eqb a b = list_eqb b a.
Proof.
  induction a as [|x a IH]; intros [|y b]; cbn; try reflexivity. rewrite (N.eqb_sym x y), IH. reflexivity.
Qed.

(* ================================================================== character data *)

Lemma esc_text_cases c :
  (c = 38 /\ esc_text c = [38; 97; 109; 112; 59]) \/
  (c = 60 /\ esc_text c = [38; 108; 116; 59]) \/
  (c = 62 /\ esc_text c = [38; 103; 116; 59]) \/
  (c = 13 /\ esc_text c = [38; 35; 49; 51; 59]) \/
  (c <> 38 /\ c <> 60 /\ c <> 62 /\ c <> 13 /\ esc_text c = [c]).
Proof.
  unfold esc_text.
  destruct (c =? 38) eqn:E1; [left; split; [lia|reflexivity]|].
  destruct (c =? 60) eqn:E2; [right; left; split; [lia|reflexivity]|].
  destruct (c =? 62) eqn:E3; [right; right; left; split; [lia|reflexivity]|].
  destruct (c =? 13) eqn:E4; [right; right; right; left; split; [lia|reflexivity]|].
  right; right; right; right. repeat split; lia.
Qed.

(* what follows character data in printed text: nothing, or a tag *)
Definition tstop (rest : list N) : Prop := match rest with c :: _ => c = 60 | [] => True end.

Lemma esc_text_nf62 s rest : tstop rest ->
  match flat_map esc_text s ++ rest with c :: _ => (c =? 62) = false | [] => True end.
Proof.
  intros Hr. destruct s as [|c s].
  - cbn. destruct rest as [|d rest]; [trivial|]. cbn in Hr. subst d. reflexivity.
  - cbn [flat_map]. rewrite <- app_assoc.
    destruct (esc_text_cases c) as [[_ ->]|[[_ ->]|[[_ ->]|[[_ ->]|[_ [_ [N3 [_ ->]]]]]]]]; try reflexivity.
    cbn [app]. lia.
Qed.

Lemma esc_text_no_cdend s rest : tstop rest -> starts [93; 62] (flat_map esc_text s ++ rest) = false.
Proof.
  intros Hr. destruct s as [|c s].
  - cbn. destruct rest as [|d rest]; [reflexivity|]. cbn in Hr. subst d. reflexivity.
  - cbn [flat_map]. rewrite <- app_assoc.
    destruct (esc_text_cases c) as [[_ ->]|[[_ ->]|[[_ ->]|[[_ ->]|[_ [_ [_ [_ ->]]]]]]]]; try reflexivity.
    cbn [app]. unfold starts. cbn [strip_prefix]. destruct (93 =? c); [|reflexivity].
    pose proof (esc_text_nf62 s rest Hr) as H. destruct (flat_map esc_text s ++ rest) as [|d l]; [reflexivity|].
    rewrite N.eqb_sym, H. reflexivity.
Qed.

Lemma lex_text_print s : forall acc rest, forallb xml_char s = true -> tstop rest ->
  lex_text None acc (flat_map esc_text s ++ rest) = Some (rev acc ++ s, rest).
Proof.
  induction s as [|c s IH]; intros acc rest Hs Hr.
  - cbn [flat_map app]. rewrite app_nil_r. destruct rest as [|d rest]; [reflexivity|]. cbn in Hr. subst d. reflexivity.
  - cbn in Hs. apply andb_true_iff in Hs. destruct Hs as [Hc Hs].
    cbn [flat_map]. rewrite <- app_assoc.
    assert (R : rev acc ++ c :: s = rev (c :: acc) ++ s). { cbn. rewrite <- app_assoc. reflexivity. }
    rewrite R, <- (IH (c :: acc) rest Hs Hr).
    destruct (esc_text_cases c) as [[-> ->]|[[-> ->]|[[-> ->]|[[-> ->]|[N1 [N2 [N3 [N4 ->]]]]]]]]; try reflexivity.
    cbn [app lex_text].
    assert (E1 : (c =? 60) = false) by lia. assert (E2 : (c =? 38) = false) by lia.
    rewrite E1, E2, (esc_text_no_cdend s rest Hr), andb_false_r, Hc. reflexivity.
Qed.

Lemma lex_text_len s : forall st acc t r, lex_text st acc s = Some (t, r) -> (length r <= length s)%nat.
Proof.
  induction s as [|c s IH]; intros st acc t r H.
  - cbn in H. destruct st; [discriminate|]. inversion H; subst. cbn. lia.
  - cbn [lex_text] in H. cbn [length]. destruct st as [ra|].
    + destruct (c =? 59).
      * destruct (decode_ref (rev ra)); [|discriminate]. apply IH in H. lia.
      * apply IH in H. lia.
    + destruct (c =? 60). { inversion H; subst. cbn. lia. }
      destruct (c =? 38). { apply IH in H. lia. }
      destruct ((c =? 93) && starts [93; 62] s); [discriminate|].
      destruct (xml_char c); [|discriminate]. apply IH in H. lia.
Qed.

(* a text token consumes at least its first character *)
Lemma lex_text_shorter c s t r : (c =? 60) = false -> lex_text None [] (c :: s) = Some (t, r) -> (length r <= length s)%nat.
Proof.
  intros E H. cbn [lex_text] in H. rewrite E in H.
  destruct (c =? 38). { apply lex_text_len in H. exact H. }
  destruct ((c =? 93) && starts [93; 62] s); [discriminate|].
  destruct (xml_char c); [|discriminate]. apply lex_text_len in H. exact H.
Qed.

(* ================================================================== attribute values *)

Lemma esc_attr_cases c :
  (c = 38 /\ esc_attr c = [38; 97; 109; 112; 59]) \/
  (c = 60 /\ esc_attr c = [38; 108; 116; 59]) \/
  (c = 34 /\ esc_attr c = [38; 113; 117; 111; 116; 59]) \/
  (c = 9 /\ esc_attr c = [38; 35; 57; 59]) \/
  (c = 10 /\ esc_attr c = [38; 35; 49; 48; 59]) \/
  (c = 13 /\ esc_attr c = [38; 35; 49; 51; 59]) \/
  (c <> 38 /\ c <> 60 /\ c <> 34 /\ c <> 9 /\ c <> 10 /\ c <> 13 /\ esc_attr c = [c]).
Proof.
  unfold esc_attr.
  destruct (c =? 38) eqn:E1; [left; split; [lia|reflexivity]|].
  destruct (c =? 60) eqn:E2; [right; left; split; [lia|reflexivity]|].
  destruct (c =? 34) eqn:E3; [right; right; left; split; [lia|reflexivity]|].
  destruct (c =? 9) eqn:E4; [right; right; right; left; split; [lia|reflexivity]|].
  destruct (c =? 10) eqn:E5; [right; right; right; right; left; split; [lia|reflexivity]|].
  destruct (c =? 13) eqn:E6; [right; right; right; right; right; left; split; [lia|reflexivity]|].
  right; right; right; right; right; right. repeat split; lia.
Qed.

Lemma lex_attval_print v : forall acc rest, forallb xml_char v = true ->
  lex_attval 34 None acc (flat_map esc_attr v ++ 34 :: rest) = Some (rev acc ++ v, rest).
Proof.
  induction v as [|c v IH]; intros acc rest Hv.
  - cbn. rewrite app_nil_r. reflexivity.
  - cbn in Hv. apply andb_true_iff in Hv. destruct Hv as [Hc Hv].
    cbn [flat_map]. rewrite <- app_assoc.
    assert (R : rev acc ++ c :: v = rev (c :: acc) ++ v). { cbn. rewrite <- app_assoc. reflexivity. }
    rewrite R, <- (IH (c :: acc) rest Hv).
    destruct (esc_attr_cases c) as [[-> ->]|[[-> ->]|[[-> ->]|[[-> ->]|[[-> ->]|[[-> ->]|[N1 [N2 [N3 [N4 [N5 [N6 ->]]]]]]]]]]]];
      try reflexivity.
    cbn [app lex_attval].
    assert (E1 : (c =? 34) = false) by lia. assert (E2 : (c =? 60) = false) by lia. assert (E3 : (c =? 38) = false) by lia.
    rewrite E1, E2, E3. destruct (is_xws c) eqn:E4.
    + assert (c = 32) by (unfold is_xws in E4; lia). subst c. reflexivity.
    + rewrite Hc. reflexivity.
Qed.

Lemma lex_attval_len q s : forall st acc v r, lex_attval q st acc s = Some (v, r) -> (length r < length s)%nat.
Proof.
  induction s as [|c s IH]; intros st acc v r H; [discriminate|].
  cbn [lex_attval] in H. cbn [length]. destruct st as [ra|].
  - destruct (c =? 59).
    + destruct (decode_ref (rev ra)); [|discriminate]. apply IH in H. lia.
    + apply IH in H. lia.
  - destruct (c =? q). { inversion H; subst. lia. }
    destruct (c =? 60); [discriminate|].
    destruct (c =? 38). { apply IH in H. lia. }
    destruct (is_xws c). { apply IH in H. lia. }
    destruct (xml_char c); [|discriminate]. apply IH in H. lia.
Qed.

Lemma lex_declval_len q s v r : lex_declval q s = Some (v, r) -> (length r < length s)%nat.
Proof.
  unfold lex_declval. destruct (span (fun c => negb (c =? q)) s) as [a r0] eqn:E. apply span_len in E.
  destruct r0 as [|c r']; [discriminate|]. intros H. inversion H; subst. cbn [length] in E. lia.
Qed.

(* ================================================================== attributes *)

Lemma existsb_false_in {A} (f : A -> bool) l x : existsb f l = false -> In x l -> f x = false.
Proof.
  induction l as [|y l IH]; cbn; [tauto|]. intros H [->|Hin].
  - destruct (f x); [discriminate|reflexivity].
  - apply IH; [|exact Hin]. destruct (f y); [discriminate|exact H].
Qed.

Lemma attr_text_flat k v a Y :
  flat_map attr_text ((k, v) :: a) ++ Y = 32 :: k ++ 61 :: 34 :: flat_map esc_attr v ++ 34 :: flat_map attr_text a ++ Y.
Proof.
  cbn [flat_map]. unfold attr_text at 1. cbn [fst snd].
  repeat (rewrite <- app_assoc || rewrite <- app_comm_cons). reflexivity.
Qed.

Lemma attrs_len a : (length a <= length (flat_map attr_text a))%nat.
Proof. induction a as [|kv a IH]; [cbn; lia|]. cbn [flat_map length]. rewrite app_length. unfold attr_text at 1. cbn [length]. lia. Qed.

(* one attribute *)
Lemma lex_attrs_one f k v Y acc : name_ok k = true -> forallb xml_char v = true -> has_key k acc = false ->
  lex_attrs (S f) false (32 :: k ++ 61 :: 34 :: flat_map esc_attr v ++ 34 :: Y) acc = lex_attrs f false Y ((k, v) :: acc).
Proof.
  intros Hk Hv Hh. destruct (name_ok_inv k Hk) as [c0 [k' [Ek [Hc0 Hk']]]].
  pose proof (name_start_ge c0 Hc0) as Hge.
  set (Z := 61 :: 34 :: flat_map esc_attr v ++ 34 :: Y).
  assert (Esp : span is_xws (32 :: k ++ Z) = ([32], k ++ Z)).
  { rewrite Ek. cbn [span app]. change (is_xws 32) with true. cbv iota.
    assert (E : is_xws c0 = false) by (unfold is_xws; lia). rewrite E. reflexivity. }
  cbn [lex_attrs]. rewrite Esp.
  rewrite (lex_name_app k Z Hk) by reflexivity.
  rewrite Ek. cbn [app].
  assert (E62 : (c0 =? 62) = false) by lia. assert (E47 : (c0 =? 47) = false) by lia.
  rewrite E62, E47. cbn [negb andb].
  unfold Z.
  assert (S1 : forall W, skip_ws (61 :: W) = 61 :: W) by reflexivity.
  assert (S2 : forall W, skip_ws (34 :: W) = 34 :: W) by reflexivity.
  rewrite S1. change (61 =? 61) with true. cbv iota. rewrite S2.
  change ((34 =? 34) || (34 =? 39)) with true. cbv iota.
  rewrite (lex_attval_print v [] Y Hv). cbn [rev app]. rewrite <- Ek, Hh. reflexivity.
Qed.

Lemma lex_attrs_print a : forall f acc rest,
  forallb (fun kv => name_ok (fst kv) && forallb xml_char (snd kv)) a = true ->
  keys_distinct a = true ->
  (forall kv, In kv a -> has_key (fst kv) acc = false) ->
  (length a < f)%nat ->
  lex_attrs f false (flat_map attr_text a ++ 62 :: rest) acc = Some (rev acc ++ a, EndTag, rest).
Proof.
  induction a as [|[k v] a IH]; intros f acc rest Hok Hd Hacc Hf.
  - destruct f as [|f]; [lia|]. cbn. rewrite app_nil_r. reflexivity.
  - destruct f as [|f]; [cbn in Hf; lia|].
    cbn [forallb fst snd] in Hok. apply andb_true_iff in Hok. destruct Hok as [Hkv Hok].
    apply andb_true_iff in Hkv. destruct Hkv as [Hk Hv].
    cbn [keys_distinct] in Hd. apply andb_true_iff in Hd. destruct Hd as [Hnk Hd].
    apply negb_true_iff in Hnk.
    rewrite attr_text_flat.
    rewrite (lex_attrs_one f k v _ acc Hk Hv (Hacc (k, v) (or_introl eq_refl))).
    rewrite (IH f ((k, v) :: acc) rest Hok Hd).
    + cbn [rev]. rewrite <- app_assoc. reflexivity.
    + intros kv Hin. unfold has_key. cbn [existsb fst].
      unfold has_key in Hnk. pose proof (existsb_false_in _ _ kv Hnk Hin) as H1. cbn beta in H1.
      rewrite list_eqb_sym, H1. cbn [orb]. apply Hacc. right. exact Hin.
    + cbn [length] in Hf. lia.
Qed.

Lemma lex_attrs_len f : forall decl s acc a e r, lex_attrs f decl s acc = Some (a, e, r) -> (length r < length s)%nat.
Proof.
  induction f as [|f IH]; intros decl s acc a e r H; [discriminate|].
  cbn [lex_attrs] in H.
  destruct (span is_xws s) as [w s1] eqn:Es. apply span_len in Es.
  destruct s1 as [|c r0]; [discriminate|]. cbn [length] in Es.
  destruct (negb decl && (c =? 62)). { inversion H; subst. lia. }
  destruct (negb decl && (c =? 47)).
  { destruct r0 as [|c2 r2]; [discriminate|]. destruct (c2 =? 62); [|discriminate]. inversion H; subst. cbn [length] in *. lia. }
  destruct (decl && (c =? 63)).
  { destruct r0 as [|c2 r2]; [discriminate|]. destruct (c2 =? 62); [|discriminate]. inversion H; subst. cbn [length] in *. lia. }
  destruct w as [|w0 w]; [discriminate|].
  destruct (lex_name (c :: r0)) as [[n r1]|] eqn:En; [|discriminate]. apply lex_name_len in En. cbn [length] in En.
  pose proof (skip_ws_len r1) as L1.
  destruct (skip_ws r1) as [|e1 r2]; [discriminate|]. cbn [length] in L1.
  destruct (e1 =? 61); [|discriminate].
  pose proof (skip_ws_len r2) as L2.
  destruct (skip_ws r2) as [|q r3]; [discriminate|]. cbn [length] in L2.
  destruct ((q =? 34) || (q =? 39)); [|discriminate].
  destruct (if decl then lex_declval q r3 else lex_attval q None [] r3) as [[v r4]|] eqn:Ev; [|discriminate].
  assert (Lv : (length r4 < length r3)%nat).
  { destruct decl; [apply lex_declval_len in Ev | apply lex_attval_len in Ev]; exact Ev. }
  destruct (has_key n acc); [discriminate|]. apply IH in H. lia.
Qed.

(* ================================================================== lexer *)

Definition is_txt (t : xtok) : bool := match t with XTxt _ => true | _ => false end.
Definition first_txt (ts : list xtok) : bool := match ts with t :: _ => is_txt t | [] => false end.

Fixpoint no_adj_txt (ts : list xtok) : bool :=
  match ts with
  | [] => true
  | t :: r => negb (is_txt t && first_txt r) && no_adj_txt r
  end.

(* the tokens a printer emits (it never emits an empty-element tag) *)
Definition xtok_okb (t : xtok) : bool :=
  match t with
  | XOpen n a => name_ok n && attrs_ok a
  | XEmpty _ _ => false
  | XClose n => name_ok n
  | XTxt s => negb (match s with [] => true | _ => false end) && forallb xml_char s
  end.

Lemma tstop_tokens ts : first_txt ts = false -> tstop (flat_map xtok_text ts).
Proof. destruct ts as [|t ts]; [intros _; exact I|]. destruct t; cbn; intros H; try reflexivity; discriminate. Qed.

Lemma stop_attrs a X : stopsp name_char (flat_map attr_text a ++ 62 :: X).
Proof. destruct a as [|[k v] a]; [reflexivity|]. rewrite attr_text_flat. reflexivity. Qed.

(* the tokens fit the depth d (the number of open elements): character data only inside an element, no end tag
   without a start tag *)
Fixpoint depths (d : nat) (ts : list xtok) : bool :=
  match ts with
  | [] => true
  | XOpen _ _ :: r => depths (S d) r
  | XEmpty _ _ :: r => depths d r
  | XClose _ :: r => match d with O => false | S d' => depths d' r end
  | XTxt _ :: r => match d with O => false | S _ => depths d r end
  end.

Lemma xlex_print ts : forall fuel d, forallb xtok_okb ts = true -> no_adj_txt ts = true -> depths d ts = true ->
  (length (flat_map xtok_text ts) < fuel)%nat -> xlex fuel d (flat_map xtok_text ts) = XLOk ts.
Proof.
  induction ts as [|t ts IH0]; intros fuel d Hok Hadj Hdep Hf.
  - destruct fuel; [cbn in Hf; lia|]. reflexivity.
  - destruct fuel as [|f]; [lia|].
    cbn [forallb] in Hok. apply andb_true_iff in Hok. destruct Hok as [Ht Hok].
    cbn [no_adj_txt] in Hadj. apply andb_true_iff in Hadj. destruct Hadj as [Ha1 Hadj].
    cbn [flat_map] in *. rewrite app_length in Hf.
    pose proof (fun d' => IH0 f d' Hok Hadj) as IH. clear IH0.
    set (X := flat_map xtok_text ts) in *.
    destruct t as [n a|n a|n|s]; cbn [xtok_okb] in Ht; [| discriminate | |].
    + (* start tag *)
      apply andb_true_iff in Ht. destruct Ht as [Hn Hattr]. unfold attrs_ok in Hattr.
      apply andb_true_iff in Hattr. destruct Hattr as [Ha Hd].
      destruct (name_ok_inv n Hn) as [c0 [n' [En [Hc0 Hn']]]].
      pose proof (name_start_ge c0 Hc0) as Hge.
      cbn [xtok_text] in *.
      assert (Etxt : (60 :: n ++ flat_map attr_text a ++ [62]) ++ X = 60 :: c0 :: n' ++ flat_map attr_text a ++ 62 :: X).
      { rewrite En. repeat (rewrite <- app_assoc || rewrite <- app_comm_cons). reflexivity. }
      rewrite Etxt. cbn [xlex]. change (60 =? 60) with true. cbv iota.
      assert (E47 : (c0 =? 47) = false) by lia. assert (E63 : (c0 =? 63) = false) by lia.
      assert (E33 : (c0 =? 33) = false) by lia. rewrite E47, E63, E33.
      change (c0 :: n' ++ flat_map attr_text a ++ 62 :: X) with ((c0 :: n') ++ flat_map attr_text a ++ 62 :: X).
      rewrite <- En. rewrite (lex_name_app n _ Hn (stop_attrs a X)).
      cbn [length] in Hf. rewrite !app_length in Hf. cbn [length] in Hf. pose proof (attrs_len a) as La.
      rewrite (lex_attrs_print a f [] X Ha Hd); [|intros; reflexivity|lia].
      cbn [depths] in Hdep.
      cbn [rev app]. rewrite (IH (S d) Hdep) by lia. reflexivity.
    + (* end tag *)
      destruct (name_ok_inv n Ht) as [c0 [n' [En [Hc0 Hn']]]].
      cbn [xtok_text] in *.
      cbn [depths] in Hdep. destruct d as [|d']; [discriminate|].
      assert (Etxt : (60 :: 47 :: n ++ [62]) ++ X = 60 :: 47 :: n ++ 62 :: X).
      { repeat (rewrite <- app_assoc || rewrite <- app_comm_cons). reflexivity. }
      rewrite Etxt. cbn [xlex]. change (60 =? 60) with true. change (47 =? 47) with true. cbv iota.
      rewrite (lex_name_app n (62 :: X) Ht) by reflexivity.
      assert (S1 : forall W, skip_ws (62 :: W) = 62 :: W) by reflexivity. rewrite S1.
      change (62 =? 62) with true. cbv iota.
      cbn [length] in Hf. rewrite (IH d' Hdep) by lia. reflexivity.
    + (* character data *)
      apply andb_true_iff in Ht. destruct Ht as [Hne Hs].
      destruct s as [|c s']; [discriminate|].
      cbn [is_txt andb] in Ha1. apply negb_true_iff in Ha1.
      cbn [xtok_text] in *.
      cbn [depths] in Hdep. destruct d as [|d']; [discriminate|].
      assert (E : exists d r0, flat_map esc_text (c :: s') = d :: r0 /\ (d =? 60) = false).
      { cbn [flat_map].
        destruct (esc_text_cases c) as [[_ ->]|[[_ ->]|[[_ ->]|[[_ ->]|[_ [N2 [_ [_ ->]]]]]]]];
          cbn [app]; eexists; eexists; (split; [reflexivity | first [reflexivity | lia]]). }
      destruct E as [d [r0 [E Ed]]].
      assert (L : lex_text None [] (d :: r0 ++ X) = Some (c :: s', X)).
      { change (d :: r0 ++ X) with ((d :: r0) ++ X). rewrite <- E.
        rewrite (lex_text_print (c :: s') [] X Hs (tstop_tokens ts Ha1)). reflexivity. }
      rewrite E in *. cbn [app xlex]. rewrite Ed, L.
      cbn [length] in Hf. rewrite (IH (S d') Hdep) by lia. reflexivity.
Qed.

Lemma scan_until_len delim s : forall a r, scan_until delim s = Some (a, r) -> (length r <= length s)%nat.
Proof.
  induction s as [|c s IH]; intros a r H; cbn [scan_until] in H.
  - destruct (strip_prefix delim []) eqn:E; [|discriminate]. inversion H; subst. apply strip_prefix_len in E. exact E.
  - destruct (strip_prefix delim (c :: s)) eqn:E. { inversion H; subst. apply strip_prefix_len in E. exact E. }
    destruct (xml_char c); [|discriminate]. destruct (scan_until delim s) as [[a' r']|]; [|discriminate].
    specialize (IH a' r' eq_refl). inversion H; subst. cbn [length]. lia.
Qed.

Lemma xlcons_fuel t r : r <> XLFuel -> xlcons t r <> XLFuel.
Proof. destruct r; cbn; congruence. Qed.

Lemma xlex_fuel_suffices fuel : forall d s, (length s < fuel)%nat -> xlex fuel d s <> XLFuel.
Proof.
  induction fuel as [|f IH]; intros d s Hf; [lia|].
  destruct s as [|c r]; [discriminate|]. cbn [length] in Hf. cbn [xlex].
  destruct (c =? 60) eqn:E60.
  - destruct r as [|c1 r1]; [discriminate|]. cbn [length] in Hf.
    destruct (c1 =? 47).
    { destruct (lex_name r1) as [[n r2]|] eqn:En; [|discriminate]. apply lex_name_len in En.
      pose proof (skip_ws_len r2) as L. destruct (skip_ws r2) as [|e r3]; [discriminate|]. cbn [length] in L.
      destruct (e =? 62); [|discriminate]. destruct d as [|d']; [discriminate|]. apply xlcons_fuel, IH. lia. }
    destruct (c1 =? 63).
    { destruct (lex_name r1) as [[n r2]|] eqn:En; [|discriminate]. apply lex_name_len in En.
      destruct (is_xml_target n); [discriminate|].
      destruct r2 as [|c2 r2']; [discriminate|].
      destruct (is_xws c2 || starts [63; 62] (c2 :: r2')); [|discriminate].
      destruct (scan_until [63; 62] (c2 :: r2')) as [[a r3]|] eqn:Es; [|discriminate].
      apply scan_until_len in Es. apply IH. lia. }
    destruct (c1 =? 33).
    { destruct (strip_prefix [45; 45] r1) as [r2|] eqn:Ep.
      - apply strip_prefix_len in Ep. destruct (scan_until [45; 45] r2) as [[a [|e r3]]|] eqn:Es; try discriminate.
        apply scan_until_len in Es. cbn [length] in Es. destruct (e =? 62); [|discriminate]. apply IH. lia.
      - destruct (strip_prefix [91; 67; 68; 65; 84; 65; 91] r1) as [r2|] eqn:Ep2; [|discriminate].
        apply strip_prefix_len in Ep2. destruct d as [|d']; [discriminate|].
        destruct (scan_until [93; 93; 62] r2) as [[[|t0 t] r3]|] eqn:Es; [ | |discriminate]; apply scan_until_len in Es.
        + apply IH. lia.
        + apply xlcons_fuel, IH. lia. }
    destruct (lex_name (c1 :: r1)) as [[n r2]|] eqn:En; [|discriminate]. apply lex_name_len in En. cbn [length] in En.
    destruct (lex_attrs f false r2 []) as [[[a e] r3]|] eqn:Ea; [|discriminate]. apply lex_attrs_len in Ea.
    destruct e; try discriminate; apply xlcons_fuel, IH; lia.
  - destruct d as [|d'].
    + destruct (span is_xws (c :: r)) as [w r'] eqn:Es. destruct w as [|w0 w]; [discriminate|].
      destruct (span_split _ _ _ _ Es) as [Ew _]. apply (f_equal (@length N)) in Ew.
      cbn [app length] in Ew. rewrite app_length in Ew. apply IH. lia.
    + destruct (lex_text None [] (c :: r)) as [[t r']|] eqn:Et; [|discriminate].
      apply lex_text_shorter in Et; [|exact E60]. apply xlcons_fuel, IH. lia.
Qed.

Lemma merge_txt_id ts : no_adj_txt ts = true -> merge_txt ts = ts.
Proof.
  induction ts as [|t ts IH]; [reflexivity|]. cbn [no_adj_txt]. intros H.
  apply andb_true_iff in H. destruct H as [H1 H2]. specialize (IH H2).
  destruct t; cbn [merge_txt]; rewrite IH; try reflexivity.
  destruct ts as [|t2 ts2]; [reflexivity|]. destruct t2; try reflexivity. cbn in H1. discriminate.
Qed.

(* ================================================================== element structure *)

Lemma xnode_ind' (P : xnode -> Prop)
  (Helem : forall n a ch, Forall P ch -> P (XElem n a ch)) (Htext : forall s, P (XText s)) : forall x, P x.
Proof.
  fix IH 1. intros [n a ch|s].
  - apply Helem. revert ch. fix IHl 1. intros [|x l]; constructor; [apply IH | apply IHl].
  - apply Htext.
Qed.

(* more fuel never changes a result other than out-of-fuel *)
Lemma xbuild_mono f :
  (forall ts res f', xbuild f ts = res -> res <> BFuel -> (f <= f')%nat -> xbuild f' ts = res) /\
  (forall ts acc res f', xchildren f ts acc = res -> res <> CFuel -> (f <= f')%nat -> xchildren f' ts acc = res).
Proof.
  induction f as [|f [IHb IHc]].
  - split; intros; cbn in *; congruence.
  - split.
    + intros ts res f' H Hn Hle. destruct f' as [|f']; [lia|]. assert (Hle' : (f <= f')%nat) by lia.
      cbn [xbuild] in *. destruct ts as [|t r]; [exact H|]. destruct t; try exact H.
      destruct (xchildren f r []) as [ch n' r'| |] eqn:Ec.
      * rewrite (IHc _ _ _ f' Ec ltac:(discriminate) Hle'). exact H.
      * rewrite (IHc _ _ _ f' Ec ltac:(discriminate) Hle'). exact H.
      * congruence.
    + intros ts acc res f' H Hn Hle. destruct f' as [|f']; [lia|]. assert (Hle' : (f <= f')%nat) by lia.
      cbn [xchildren] in *. destruct ts as [|t r]; [exact H|].
      destruct t as [n a|n a|n|s].
      * destruct (xbuild f (XOpen n a :: r)) as [x r'| |] eqn:Eb.
        -- rewrite (IHb _ _ f' Eb ltac:(discriminate) Hle'). apply (IHc _ _ _ _ H Hn Hle').
        -- rewrite (IHb _ _ f' Eb ltac:(discriminate) Hle'). exact H.
        -- congruence.
      * destruct (xbuild f (XEmpty n a :: r)) as [x r'| |] eqn:Eb.
        -- rewrite (IHb _ _ f' Eb ltac:(discriminate) Hle'). apply (IHc _ _ _ _ H Hn Hle').
        -- rewrite (IHb _ _ f' Eb ltac:(discriminate) Hle'). exact H.
        -- congruence.
      * exact H.
      * apply (IHc _ _ _ _ H Hn Hle').
Qed.

(* enough fuel is always provided: 2 * tokens + 2 *)
Lemma xbuild_fuel f :
  (forall ts, (2 * length ts < f)%nat -> xbuild f ts <> BFuel) /\
  (forall ts acc, (2 * length ts + 1 < f)%nat -> xchildren f ts acc <> CFuel) /\
  (forall ts x r, xbuild f ts = BOk x r -> (length r < length ts)%nat) /\
  (forall ts acc ch n r, xchildren f ts acc = COk ch n r -> (length r < length ts)%nat).
Proof.
  induction f as [|f [IHb [IHc [ILb ILc]]]].
  - repeat split; intros; cbn in *; try lia; discriminate.
  - assert (Lb : forall ts x r, xbuild (S f) ts = BOk x r -> (length r < length ts)%nat).
    { intros ts x r H. cbn [xbuild] in H. destruct ts as [|t r0]; [discriminate|].
      destruct t as [n a|n a|n|s]; try discriminate.
      - destruct (xchildren f r0 []) as [ch n' r'| |] eqn:Ec; try discriminate. apply ILc in Ec.
        destruct (list_eqb n n'); [|discriminate]. inversion H; subst. cbn [length]. lia.
      - inversion H; subst. cbn [length]. lia. }
    assert (Lc : forall ts acc ch n r, xchildren (S f) ts acc = COk ch n r -> (length r < length ts)%nat).
    { intros ts acc ch n r H. cbn [xchildren] in H. destruct ts as [|t r0]; [discriminate|].
      destruct t as [n0 a|n0 a|n0|s].
      - destruct (xbuild f (XOpen n0 a :: r0)) as [x r'| |] eqn:Eb; try discriminate.
        apply ILb in Eb. apply ILc in H. lia.
      - destruct (xbuild f (XEmpty n0 a :: r0)) as [x r'| |] eqn:Eb; try discriminate.
        apply ILb in Eb. apply ILc in H. lia.
      - inversion H; subst. cbn [length]. lia.
      - apply ILc in H. cbn [length]. lia. }
    repeat split; try assumption.
    + intros ts Hf. cbn [xbuild]. destruct ts as [|t r0]; [discriminate|]. cbn [length] in Hf.
      destruct t as [n a|n a|n|s]; try discriminate.
      destruct (xchildren f r0 []) as [ch n' r'| |] eqn:Ec.
      * destruct (list_eqb n n'); discriminate.
      * discriminate.
      * exfalso. revert Ec. apply IHc. lia.
    + intros ts acc Hf. cbn [xchildren]. destruct ts as [|t r0]; [discriminate|].
      destruct t as [n a|n a|n|s].
      * destruct (xbuild f (XOpen n a :: r0)) as [x r'| |] eqn:Eb.
        -- apply ILb in Eb. apply IHc. lia.
        -- discriminate.
        -- exfalso. revert Eb. apply IHb. lia.
      * destruct (xbuild f (XEmpty n a :: r0)) as [x r'| |] eqn:Eb.
        -- apply ILb in Eb. apply IHc. lia.
        -- discriminate.
        -- exfalso. revert Eb. apply IHb. lia.
      * discriminate.
      * apply IHc. cbn [length] in Hf. lia.
Qed.

Lemma xbuild_fuel_suffices ts : xbuild (2 * length ts + 2) ts <> BFuel.
Proof. apply (proj1 (xbuild_fuel _)). lia. Qed.

Definition build_ok (x : xnode) : Prop :=
  match x with
  | XElem _ _ _ => forall rest, exists f0, forall f, (f0 <= f)%nat -> xbuild f (xtokens_of x ++ rest) = BOk x rest
  | XText _ => True
  end.

Lemma xchildren_ok ch : Forall build_ok ch -> forall acc n rest, exists f0, forall f, (f0 <= f)%nat ->
  xchildren f (flat_map xtokens_of ch ++ XClose n :: rest) acc = COk (rev acc ++ ch) n rest.
Proof.
  induction 1 as [|x ch Hx Hch IH]; intros acc n rest.
  - exists 1%nat. intros [|f] Hf; [lia|]. cbn. rewrite app_nil_r. reflexivity.
  - cbn [flat_map]. rewrite <- app_assoc. destruct x as [n' a' ch'|s].
    + destruct (Hx (flat_map xtokens_of ch ++ XClose n :: rest)) as [f0 H0].
      destruct (IH (XElem n' a' ch' :: acc) n rest) as [f1 H1].
      exists (S (Nat.max f0 f1)). intros [|f] Hf; [lia|].
      cbn [xtokens_of app] in H0 |- *. cbn [xchildren].
      rewrite H0 by lia. rewrite H1 by lia. cbn [rev]. rewrite <- app_assoc. reflexivity.
    + destruct (IH (XText s :: acc) n rest) as [f1 H1].
      exists (S f1). intros [|f] Hf; [lia|].
      cbn [xtokens_of app xchildren]. rewrite H1 by lia. cbn [rev]. rewrite <- app_assoc. reflexivity.
Qed.

Lemma xbuild_print x : build_ok x.
Proof.
  induction x as [n a ch IH|s] using xnode_ind'; [|exact I].
  intros rest. destruct (xchildren_ok ch IH [] n rest) as [f0 H0].
  exists (S f0). intros [|f] Hf; [lia|].
  cbn [xtokens_of app]. rewrite <- app_assoc. cbn [app xbuild]. rewrite H0 by lia.
  rewrite list_eqb_refl. reflexivity.
Qed.

Lemma xbuild_tokens n a ch :
  xbuild (2 * length (xtokens_of (XElem n a ch)) + 2) (xtokens_of (XElem n a ch)) = BOk (XElem n a ch) [].
Proof.
  set (x := XElem n a ch).
  destruct (xbuild_print x []) as [f0 H0]. rewrite app_nil_r in H0.
  set (F := (2 * length (xtokens_of x) + 2)%nat).
  pose proof (xbuild_fuel_suffices (xtokens_of x)) as Hn. fold F in Hn.
  pose proof (proj1 (xbuild_mono F) (xtokens_of x) _ (Nat.max f0 F) eq_refl Hn ltac:(lia)) as Hm.
  rewrite <- Hm. apply H0. lia.
Qed.

(* ================================================================== the token list of a DOM *)

Lemma first_txt_app a t b : first_txt (a ++ t :: b) = first_txt (a ++ [t]).
Proof. destruct a; reflexivity. Qed.

Lemma no_adj_sep a t b : no_adj_txt (a ++ [t]) = true -> is_txt t = false -> no_adj_txt b = true ->
  no_adj_txt (a ++ t :: b) = true.
Proof.
  intros Ha Ht Hb. induction a as [|x a IH].
  - cbn [app no_adj_txt]. rewrite Ht, Hb. reflexivity.
  - cbn [app no_adj_txt] in *. apply andb_true_iff in Ha. destruct Ha as [H1 H2].
    rewrite (IH H2), first_txt_app, H1. reflexivity.
Qed.

Lemma no_adj_text_inv x ch : no_adj_text (x :: ch) = true ->
  no_adj_text ch = true /\ (is_text x = true -> match ch with y :: _ => is_text y = false | [] => True end).
Proof.
  destruct ch as [|y ch]; [split; [reflexivity|trivial]|].
  cbn [no_adj_text]. intros H. apply andb_true_iff in H. destruct H as [H1 H2]. split; [exact H2|].
  intros Hx. rewrite Hx in H1. destruct (is_text y); [discriminate|reflexivity].
Qed.

Definition good (ts : list xtok) : Prop := forallb xtok_okb ts = true /\ no_adj_txt ts = true.

Lemma good_children ch n : Forall (fun x => xwfb x = true -> good (xtokens_of x)) ch ->
  forallb xwfb ch = true -> no_adj_text ch = true ->
  forallb xtok_okb (flat_map xtokens_of ch) = true /\ no_adj_txt (flat_map xtokens_of ch ++ [XClose n]) = true.
Proof.
  induction 1 as [|x ch Hx Hch IH]; intros Hwf Hadj; [split; reflexivity|].
  cbn [forallb] in Hwf. apply andb_true_iff in Hwf. destruct Hwf as [Hw1 Hw2].
  destruct (no_adj_text_inv x ch Hadj) as [Hadj' Hnext].
  destruct (IH Hw2 Hadj') as [I1 I2]. destruct (Hx Hw1) as [X1 X2].
  cbn [flat_map]. split; [rewrite forallb_app', X1, I1; reflexivity|].
  rewrite <- app_assoc. destruct x as [n' a' ch'|s].
  - change (xtokens_of (XElem n' a' ch')) with ((XOpen n' a' :: flat_map xtokens_of ch') ++ [XClose n']) in *.
    rewrite <- app_assoc. cbn [app]. rewrite app_comm_cons.
    apply no_adj_sep; [exact X2 | reflexivity | exact I2].
  - cbn [xtokens_of app no_adj_txt is_txt andb]. rewrite I2, andb_true_r. apply negb_true_iff.
    specialize (Hnext eq_refl). destruct ch as [|y ch]; [reflexivity|].
    destruct y; [reflexivity|discriminate].
Qed.

Lemma good_tokens x : xwfb x = true -> good (xtokens_of x).
Proof.
  induction x as [n a ch IH|s] using xnode_ind'; intros H; cbn [xwfb] in H.
  - apply andb_true_iff in H. destruct H as [H Hadj]. apply andb_true_iff in H. destruct H as [H Hch].
    apply andb_true_iff in H. destruct H as [Hn Ha].
    destruct (good_children ch n IH Hch Hadj) as [G1 G2].
    cbn [xtokens_of]. split.
    + cbn [forallb xtok_okb]. rewrite Hn, Ha, forallb_app', G1. cbn [forallb xtok_okb andb]. rewrite Hn. reflexivity.
    + cbn [no_adj_txt is_txt andb negb]. exact G2.
  - split; cbn; [rewrite H|]; reflexivity.
Qed.

(* the tokens of a node leave the depth as it is; character data needs an open element *)
Lemma depths_tokens x : forall d rest, (is_text x = true -> d <> O) -> depths d (xtokens_of x ++ rest) = depths d rest.
Proof.
  induction x as [n a ch IH|s] using xnode_ind'; intros d rest Hd.
  - cbn [xtokens_of app depths]. rewrite <- app_assoc. cbn [app].
    assert (L : forall rest', depths (S d) (flat_map xtokens_of ch ++ rest') = depths (S d) rest').
    { clear Hd. induction IH as [|x ch Hx _ IHl]; intros rest'; [reflexivity|].
      cbn [flat_map]. rewrite <- app_assoc, Hx by (intros _; discriminate). apply IHl. }
    rewrite L. reflexivity.
  - cbn [xtokens_of app depths]. destruct d; [exfalso; apply Hd; reflexivity | reflexivity].
Qed.

Lemma depths_root n a ch : depths 0 (xtokens_of (XElem n a ch)) = true.
Proof.
  pose proof (depths_tokens (XElem n a ch) 0%nat [] ltac:(intros H; discriminate H)) as H.
  rewrite app_nil_r in H. exact H.
Qed.

(* ================================================================== the characters of printed text *)

(* every printed character is a scalar value and is not a carriage return *)
Definition pchar (c : N) : bool := negb (c =? 13) && scalarb c.

Lemma name_char_p c : name_char c = true -> pchar c = true.
Proof.
  intros H. pose proof (name_char_scalar c H) as Hs. apply name_char_ge in H.
  unfold pchar. unfold scalar in Hs. rewrite Hs. lia.
Qed.

Lemma name_ok_p n : name_ok n = true -> forallb pchar n = true.
Proof.
  intros H. apply name_ok_chars in H. induction n as [|c n IH]; [reflexivity|].
  cbn in H |- *. apply andb_true_iff in H. destruct H as [H1 H2]. rewrite (name_char_p c H1), (IH H2). reflexivity.
Qed.

Lemma xml_char_p c : xml_char c = true -> c <> 13 -> pchar c = true.
Proof. unfold xml_char, pchar, scalarb. lia. Qed.

Lemma xml_char_scalar c : xml_char c = true -> scalar c.
Proof. unfold xml_char, scalar, scalarb. lia. Qed.

Lemma esc_text_p c : xml_char c = true -> forallb pchar (esc_text c) = true.
Proof.
  intros H. destruct (esc_text_cases c) as [[_ ->]|[[_ ->]|[[_ ->]|[[_ ->]|[_ [_ [_ [N4 ->]]]]]]]]; try reflexivity.
  cbn [forallb]. rewrite (xml_char_p c H N4). reflexivity.
Qed.

Lemma esc_attr_p c : xml_char c = true -> forallb pchar (esc_attr c) = true.
Proof.
  intros H.
  destruct (esc_attr_cases c) as [[_ ->]|[[_ ->]|[[_ ->]|[[_ ->]|[[_ ->]|[[_ ->]|[_ [_ [_ [_ [_ [N6 ->]]]]]]]]]]]]; try reflexivity.
  cbn [forallb]. rewrite (xml_char_p c H N6). reflexivity.
Qed.

Lemma flat_map_forallb {A} (P : N -> bool) (f : A -> list N) l :
  (forall x, In x l -> forallb P (f x) = true) -> forallb P (flat_map f l) = true.
Proof.
  induction l as [|x l IH]; intros H; [reflexivity|].
  cbn [flat_map]. rewrite forallb_app', (H x (or_introl eq_refl)), IH; [reflexivity|].
  intros y Hy. apply H. right. exact Hy.
Qed.

Lemma forallb_in {A} (P : A -> bool) l x : forallb P l = true -> In x l -> P x = true.
Proof. intros H. exact (proj1 (forallb_forall _ _) H x). Qed.

Lemma attr_text_p kv : name_ok (fst kv) && forallb xml_char (snd kv) = true -> forallb pchar (attr_text kv) = true.
Proof.
  intros H. apply andb_true_iff in H. destruct H as [Hk Hv]. unfold attr_text.
  cbn [forallb]. rewrite forallb_app'. cbn [forallb]. rewrite forallb_app'.
  rewrite (name_ok_p _ Hk).
  rewrite (flat_map_forallb pchar esc_attr (snd kv)); [reflexivity|].
  intros c Hc. apply esc_attr_p. exact (forallb_in _ _ _ Hv Hc).
Qed.

Lemma tok_text_p t : xtok_okb t = true -> forallb pchar (xtok_text t) = true.
Proof.
  destruct t as [n a|n a|n|s]; cbn [xtok_okb xtok_text]; intros H; [| discriminate | |].
  - apply andb_true_iff in H. destruct H as [Hn Ha]. unfold attrs_ok in Ha.
    apply andb_true_iff in Ha. destruct Ha as [Ha _].
    cbn [forallb]. rewrite !forallb_app', (name_ok_p n Hn).
    rewrite (flat_map_forallb pchar attr_text a); [reflexivity|].
    intros kv Hkv. apply attr_text_p. exact (forallb_in _ _ _ Ha Hkv).
  - cbn [forallb]. rewrite forallb_app', (name_ok_p n H). reflexivity.
  - apply andb_true_iff in H. destruct H as [_ Hs].
    apply flat_map_forallb. intros c Hc. apply esc_text_p. exact (forallb_in _ _ _ Hs Hc).
Qed.

Lemma print_p x : xwfb x = true -> forallb pchar (xml_print_cps x) = true.
Proof.
  intros H. destruct (good_tokens x H) as [G _]. unfold xml_print_cps. rewrite forallb_app'.
  rewrite (flat_map_forallb pchar xtok_text (xtokens_of x)); [reflexivity|].
  intros t Ht. apply tok_text_p. exact (forallb_in _ _ _ G Ht).
Qed.

Lemma norm_eol_id s : forallb pchar s = true -> norm_eol s = s.
Proof.
  induction s as [|c s IH]; [reflexivity|]. cbn [forallb norm_eol]. intros H.
  apply andb_true_iff in H. destruct H as [Hc Hs]. unfold pchar in Hc.
  destruct (c =? 13); [discriminate|]. rewrite (IH Hs). reflexivity.
Qed.

Lemma print_scalar x : xwfb x = true -> Forall scalar (xml_print_cps x).
Proof.
  intros H. apply Forall_forall. intros c Hc. pose proof (forallb_in _ _ _ (print_p x H) Hc) as Hp.
  unfold pchar in Hp. apply andb_true_iff in Hp. exact (proj2 Hp).
Qed.

(* ================================================================== the declaration *)

Lemma split_decl_print rest :
  split_decl (xml_decl_text ++ rest) = Some (Some [(k_version, [49; 46; 48])], rest).
Proof. reflexivity. Qed.

(* ================================================================== theorems at the code point level *)

Theorem xml_cps_parse_print : forall x, xwf x -> xml_parse_cps (xml_print_cps x) = XOk x.
Proof.
  intros x [Hwf Hel]. destruct x as [n a ch|s]; [|discriminate].
  destruct (good_tokens _ Hwf) as [G1 G2].
  unfold xml_parse_cps. cbv zeta. rewrite (norm_eol_id _ (print_p _ Hwf)).
  unfold xml_print_cps. rewrite split_decl_print.
  rewrite (xlex_print _ _ 0%nat G1 G2 (depths_root n a ch)) by lia.
  rewrite (merge_txt_id _ G2).
  rewrite xbuild_tokens. reflexivity.
Qed.

(* <a b=[dq]&#9;&#10;&#13;&quot;&amp;&lt;>]]> [dq]>]]&gt;&#13;&amp;&lt;<c></c>]</a> *)
Example xml_cps_parse_print_ex :
  let x := XElem [97] [([98], [9; 10; 13; 34; 38; 60; 62; 93; 93; 62; 32])]
             [XText [93; 93; 62; 13; 38; 60]; XElem [99] [] []; XText [93]] in
  xwfb x = true /\ xml_parse_cps (xml_print_cps x) = XOk x.
Proof. split; reflexivity. Qed.

(* ================================================================== the byte level (UTF-8) *)

Lemma xml_parse_utf8 cps : Forall scalar cps -> xml_parse (encs W8 cps) = xml_parse_cps cps.
Proof. intros H. unfold xml_parse. rewrite (utf8_decode_encs cps H). reflexivity. Qed.

Theorem xml_parse_print : forall x, xwf x -> xml_parse (xml_print x) = XOk x.
Proof.
  intros x Hwf. unfold xml_print. rewrite (xml_parse_utf8 _ (print_scalar x (proj1 Hwf))).
  apply xml_cps_parse_print. exact Hwf.
Qed.

(* ================================================================== no fuel is ever exhausted *)

Theorem xml_parse_cps_total : forall s, xml_parse_cps s <> XFuel.
Proof.
  intros s. unfold xml_parse_cps. cbv zeta.
  destruct (split_decl (norm_eol s)) as [[d s1]|]; [|discriminate].
  pose proof (xlex_fuel_suffices (S (length s1)) 0%nat s1 ltac:(lia)) as H.
  destruct (xlex (S (length s1)) 0 s1) as [ts| |]; try discriminate; [|congruence].
  pose proof (xbuild_fuel_suffices (merge_txt ts)) as H2.
  destruct (xbuild _ (merge_txt ts)) as [root [|t0 rest]| |]; try discriminate. congruence.
Qed.

(* unclosed nested start tags: an error, not an exhausted budget *)
Example xml_parse_cps_total_ex : xml_parse_cps [60; 97; 62; 60; 98; 62; 60; 99; 62; 60; 100; 62] = XErr.
Proof. reflexivity. Qed.

Theorem xml_parse_total : forall bytes, Forall (fun b => b < 256) bytes -> xml_parse bytes <> XFuel.
Proof.
  intros bytes Hb. unfold xml_parse, utf8_decode.
  destruct (transcode_in_bounds W8 W32 ThrowError [] bytes [] Hb) as [_ [Hc _]].
  destruct (r_code (transcode W8 W32 ThrowError [] bytes [])); try discriminate; [apply xml_parse_cps_total | congruence].
Qed.
