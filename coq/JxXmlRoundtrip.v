(* JxXmlRoundtrip.v — save then load through the XML adapter model (JxModel.v), at the DOM level: the value comes back
   for every type and value outside an exact, decidable defect class (xml_defect). *)
From BS Require Import Base UtfSpec JxJsonSpec JxXmlSpec JxModel JxProofs.
From Coq Require Import ZifyBool ZifyN ZifyNat.
Local Open Scope N_scope.
Ltac Zify.zify_post_hook ::= Z.div_mod_to_equations.

(* ================================================================== decimal text of integers *)

Definition dv (a : N) (l : list N) : N := fold_left (fun a c => 10 * a + (c - 48)) l a.

Lemma dv_app a x y : dv a (x ++ y) = dv (dv a x) y.
Proof. unfold dv. apply fold_left_app. Qed.

Lemma dec_digits_spec fuel : forall n acc, n < 10 ^ N.of_nat fuel -> (0 < fuel)%nat ->
  exists D, dec_digits fuel n acc = D ++ acc /\ forallb is_digit D = true /\ D <> [] /\
            forall a, dv a D = a * 10 ^ N.of_nat (length D) + n.
Proof.
  induction fuel as [|f IH]; intros n acc Hn Hf; [lia|].
  cbn [dec_digits]. destruct (n <? 10) eqn:E.
  - exists [48 + n]. repeat split.
    + cbn [forallb]. unfold is_digit. lia.
    + discriminate.
    + intros a. unfold dv. cbn [fold_left length]. change (N.of_nat 1) with 1. rewrite N.pow_1_r. lia.
  - assert (Hf' : (0 < f)%nat).
    { destruct f; [|lia]. cbn in Hn. lia. }
    assert (Hn' : n / 10 < 10 ^ N.of_nat f).
    { rewrite Nat2N.inj_succ, N.pow_succ_r' in Hn. apply N.div_lt_upper_bound; lia. }
    destruct (IH (n / 10) ((48 + n mod 10) :: acc) Hn' Hf') as [D [E1 [E2 [E3 E4]]]].
    exists (D ++ [48 + n mod 10]). repeat split.
    + rewrite E1, <- app_assoc. reflexivity.
    + rewrite forallb_app, E2. cbn [forallb]. unfold is_digit. pose proof (N.mod_upper_bound n 10). lia.
    + destruct D; discriminate.
    + intros a. rewrite dv_app, E4. unfold dv. cbn [fold_left]. rewrite app_length. cbn [length]. rewrite Nat.add_1_r, Nat2N.inj_succ, N.pow_succ_r'.
      pose proof (N.div_mod n 10). pose proof (N.mod_upper_bound n 10). set (P := 10 ^ N.of_nat (length D)) in *. clearbody P. lia.
Qed.

Lemma dec_of_N_spec n : forallb is_digit (dec_of_N n) = true /\ dec_of_N n <> [] /\ digits_val (dec_of_N n) = n.
Proof.
  unfold dec_of_N.
  assert (Hn : n < 10 ^ N.of_nat (S (N.to_nat (N.size n)))).
  { rewrite Nat2N.inj_succ, N2Nat.id, N.pow_succ_r'.
    assert (H2 : n < 2 ^ N.size n) by apply N.size_gt.
    assert (H3 : 2 ^ N.size n <= 10 ^ N.size n) by (apply N.pow_le_mono_l; lia).
    assert (H4 : 0 < 10 ^ N.size n) by (apply N.neq_0_lt_0, N.pow_nonzero; lia).
    lia. }
  destruct (dec_digits_spec _ n [] Hn ltac:(lia)) as [D [E1 [E2 [E3 E4]]]].
  rewrite E1, app_nil_r. repeat split; [exact E2 | exact E3 |].
  unfold digits_val. change (dv 0 D = n). rewrite E4. lia.
Qed.

Lemma span_digits_all d : forallb is_digit d = true -> span_digits d = (d, []).
Proof.
  induction d as [|c d IH]; [reflexivity|]. cbn. intros H. apply andb_true_iff in H. destruct H as [H1 H2].
  rewrite H1, (IH H2). reflexivity.
Qed.

Lemma span_none (p : N -> bool) c r : p c = false -> span p (c :: r) = ([], c :: r).
Proof. intros H. cbn. rewrite H. reflexivity. Qed.

(* the text of an integer is read back as that integer (from_chars) *)
Lemma parse_int_text_dec o k z : in_range k z = true -> parse_int_text o k (dec_of_Z z) = Loaded (VInt z).
Proof.
  intros Hr. unfold parse_int_text.
  assert (G : forall n, exists c d, dec_of_N n = c :: d /\ is_digit c = true).
  { intros n. destruct (dec_of_N_spec n) as [H1 [H2 _]]. destruct (dec_of_N n) as [|c d]; [congruence|].
    exists c, d. split; [reflexivity|]. cbn in H1. apply andb_true_iff in H1. tauto. }
  destruct z as [|p|p]; unfold dec_of_Z.
  - destruct (G (Z.to_N 0)) as [c [d [E Hc]]]. destruct (dec_of_N_spec (Z.to_N 0)) as [H1 [_ H3]]. rewrite E in *.
    unfold skip_blanks. rewrite span_none by (unfold is_digit in Hc; lia). cbn [snd].
    assert (E45 : (c =? 45) = false) by (unfold is_digit in Hc; lia). rewrite E45.
    rewrite (span_digits_all _ H1), H3. cbn. cbn in Hr. rewrite Hr. reflexivity.
  - destruct (G (Z.to_N (Z.pos p))) as [c [d [E Hc]]]. destruct (dec_of_N_spec (Z.to_N (Z.pos p))) as [H1 [_ H3]]. rewrite E in *.
    unfold skip_blanks. rewrite span_none by (unfold is_digit in Hc; lia). cbn [snd].
    assert (E45 : (c =? 45) = false) by (unfold is_digit in Hc; lia). rewrite E45.
    rewrite (span_digits_all _ H1), H3. cbn [Z.to_N]. rewrite positive_N_Z. rewrite Hr. reflexivity.
  - destruct (G (N.pos p)) as [c [d [E Hc]]]. destruct (dec_of_N_spec (N.pos p)) as [H1 [_ H3]]. rewrite E in *.
    unfold skip_blanks. rewrite span_none by reflexivity. cbn [snd]. change (45 =? 45) with true. cbv iota.
    rewrite (span_digits_all _ H1), H3. rewrite positive_N_Z. change (- Z.pos p)%Z with (Z.neg p). rewrite Hr.
    assert (Hm : (ity_min k =? 0)%Z = false) by (unfold in_range in Hr; lia). rewrite Hm. reflexivity.
Qed.

(* the same for an attribute (LoadValueFromText on attr.value(): the same conversion) *)
Lemma load_attr_int_dec xs xf o k z : in_range k z = true -> load_xml_attr xs xf o (TyInt k) (dec_of_Z z) = Loaded (VInt z).
Proof. intros H. cbn [load_xml_attr conv_xml_text]. apply parse_int_text_dec. exact H. Qed.

Lemma norm_eol_nocr s : existsb (N.eqb 13) s = false -> norm_eol s = s.
Proof.
  induction s as [|c s IH]; [reflexivity|]. cbn [existsb norm_eol]. intros H. apply orb_false_iff in H. destruct H as [H1 H2].
  rewrite N.eqb_sym, H1, (IH H2). reflexivity.
Qed.

Lemma dec_nocr z : existsb (N.eqb 13) (dec_of_Z z) = false /\ dec_of_Z z <> [] /\ ws_only (dec_of_Z z) = false.
Proof.
  assert (G : forall d, forallb is_digit d = true -> existsb (N.eqb 13) d = false).
  { induction d as [|c d IH]; [reflexivity|]. cbn [forallb existsb]. intros H. apply andb_true_iff in H. destruct H as [H1 H2].
    rewrite (IH H2). unfold is_digit in H1. assert (E : (13 =? c) = false) by lia. rewrite E. reflexivity. }
  assert (W : forall n, ws_only (dec_of_N n) = false).
  { intros n. destruct (dec_of_N_spec n) as [H1 [H2 _]]. destruct (dec_of_N n) as [|c d]; [congruence|].
    cbn [forallb] in H1. unfold ws_only. cbn [forallb]. apply andb_true_iff in H1. destruct H1 as [H1 _].
    assert (E : is_xws c = false) by (unfold is_xws, is_digit in *; lia). rewrite E. reflexivity. }
  destruct z as [|p|p]; unfold dec_of_Z.
  - destruct (dec_of_N_spec (Z.to_N 0)) as [H1 [H2 _]]. split; [apply G, H1 | split; [exact H2 | apply W]].
  - destruct (dec_of_N_spec (Z.to_N (Z.pos p))) as [H1 [H2 _]]. split; [apply G, H1 | split; [exact H2 | apply W]].
  - destruct (dec_of_N_spec (N.pos p)) as [H1 [H2 _]]. split; [cbn [existsb]; rewrite (G _ H1); reflexivity | split; [discriminate | reflexivity]].
Qed.

(* ================================================================== the defect class *)

Definition has_cr (s : list N) : bool := existsb (N.eqb 13) s.
Definition is_container (t : ty) : bool := match t with TyVec _ | TyMap _ | TyObj _ => true | _ => false end.
Definition is_scalar_ty (t : ty) : bool := match t with TyNull | TyBool | TyInt _ | TyDbl | TyStr => true | _ => false end.

(* J41: a carriage return in a string written as character data (attributes are safe);
   F29n: an empty optional / smart pointer of a container or class (loads as an engaged empty one);
   F53:  an optional / smart pointer holding the empty string (loads as an empty one) *)
Fixpoint xml_defect (t : ty) (v : val) {struct t} : bool :=
  match t, v with
  | TyStr, VStr s => has_cr s
  | TyVec e, VArr l => existsb (xml_defect e) l
  | TyMap e, VObj m => existsb (fun kv => xml_defect e (snd kv)) m
  | TyObj fields, VObj m =>
    (fix go (fs : list (list N * fkind * ty)) (ms : list (list N * val)) : bool :=
       match fs, ms with
       | (_, FElem, ft) :: fs', (_, fv) :: ms' => xml_defect ft fv || go fs' ms'
       | (_, FAttr, _) :: fs', _ :: ms' => go fs' ms'
       | _, _ => false
       end) fields m
  | TyOpt e, VOpt None => is_container e
  | TyOpt e, VOpt (Some x) => (match e, x with TyStr, VStr [] => true | _, _ => false end) || xml_defect e x
  | _, _ => false
  end.

(* types the XML archive carries: ty_wf, and attributes are fundamental values or strings *)
Fixpoint ty_wfx (t : ty) : bool :=
  match t with
  | TyVec e | TyMap e | TyOpt e => ty_wfx e
  | TyObj fields => forallb (fun f => match snd (fst f) with FAttr => is_scalar_ty (snd f) | FElem => ty_wfx (snd f) end) fields
  | _ => true
  end.

Lemma list_eqb_eq a : forall b, list_eqb a b = true -> a = b.
Proof.
  induction a as [|x a IH]; intros [|y b] H; cbn in H; try discriminate; [reflexivity|].
  apply andb_true_iff in H. destruct H as [H1 H2]. apply N.eqb_eq in H1. subst. f_equal. apply IH. exact H2.
Qed.

Lemma list_eqb_refl' a : list_eqb a a = true.
Proof. induction a as [|x a IH]; cbn; [reflexivity|]. rewrite N.eqb_refl. exact IH. Qed.

Lemma list_eqb_neq a b : a <> b -> list_eqb a b = false.
Proof. intros H. destruct (list_eqb a b) eqn:E; [|reflexivity]. exfalso. apply H, list_eqb_eq. exact E. Qed.

Lemma existsb_false_in' {A} (f : A -> bool) l x : existsb f l = false -> In x l -> f x = false.
Proof.
  induction l as [|y l IH]; intros H Hin; [destruct Hin|]. cbn in H. apply orb_false_iff in H. destruct H as [H1 H2].
  destruct Hin as [->|Hin]; [exact H1 | apply IH; assumption].
Qed.

Lemma key_lt_neq a b : key_cmp a b = Lt -> a <> b.
Proof. intros H E. subst. rewrite key_cmp_refl in H. discriminate. Qed.

Section XmlRoundTrip.
  Variable dtoa17 dtoa9 : N -> list N.
  Variable xstrtod xstrtof : list N -> option (option N).
  Variable o : opts.

  (* H_dtoa (tested, not proved): the text pugixml writes for a finite double (printf "%.17g") has no blanks in front, no
     carriage return, is not empty, and from_chars reads it back as the same double *)
  Hypothesis Hd : forall b, is_nonfinite b = false ->
    xstrtod (dtoa17 b) = Some (Some b) /\ skip_blanks (dtoa17 b) = dtoa17 b /\ has_cr (dtoa17 b) = false /\ dtoa17 b <> [].

  Definition gotx (t : ty) (r : lout) : option val :=
    match r with Loaded v => Some v | NotLoaded => Some (default t) | Failed _ => None end.

  (* when the element is certainly "loaded" (not merely left at its default) *)
  Definition strongly (t : ty) (v : val) : bool :=
    match t, v with
    | TyNull, _ => false
    | TyStr, VStr [] => false
    | TyOpt _, _ => false
    | _, _ => true
    end.

  Definition xrt (t : ty) : Prop := forall root name v x,
    has_type t v = true -> xml_defect t v = false -> val_nonfinite v = false ->
    xml_elem dtoa17 dtoa9 name t v = Some x ->
    gotx t (load_xml_inner xstrtod xstrtof o root t (saved_view x)) = Some v /\
    (strongly t v = true -> load_xml_inner xstrtod xstrtof o root t (saved_view x) = Loaded v) /\
    elem_name (saved_view x) = name /\ is_elem (saved_view x) = true.

  (* ---------------------------------------------------------------- scalars *)

  Lemma scalar_elem name t v s : is_scalar_ty t = true -> scalar_text dtoa17 dtoa9 t v = Some s ->
    xml_elem dtoa17 dtoa9 name t v = Some (XElem name [] (text_child s)).
  Proof. intros Ht Hs. destruct t; try discriminate; cbn [xml_elem]; rewrite Hs; reflexivity. Qed.

  Lemma xrt_scalar t : is_scalar_ty t = true -> xrt t.
  Proof.
    intros Hsc root name v x Ht Hdf Hnf Hx.
    destruct t; try discriminate; destruct v; try discriminate; cbn [xml_elem scalar_text option_map] in Hx; inversion Hx; subst; clear Hx.
    - (* null *) repeat split; discriminate.
    - (* bool *) destruct b; repeat split; reflexivity.
    - (* int *)
      destruct (dec_nocr z) as [H1 [H2 H3]]. cbn [has_type] in Ht.
      assert (E : saved_view (XElem name [] (text_child (dec_of_Z z))) = XElem name [] [XText (dec_of_Z z)]).
      { unfold text_child. destruct (dec_of_Z z) eqn:Ez; [congruence|]. cbn [saved_view map]. rewrite (norm_eol_nocr _ H1). reflexivity. }
      rewrite E. cbn [load_xml_inner load_xml_scalar first_text text_run conv_xml_text]. rewrite app_nil_r. rewrite (parse_int_text_dec o k z Ht). repeat split; reflexivity.
    - (* double *)
      cbn [val_nonfinite] in Hnf. destruct (Hd bits Hnf) as [H1 [H2 [H3 H4]]].
      assert (E : saved_view (XElem name [] (text_child (dtoa17 bits))) = XElem name [] [XText (dtoa17 bits)]).
      { unfold text_child. destruct (dtoa17 bits) eqn:Ez; [congruence|]. cbn [saved_view map]. rewrite (norm_eol_nocr _ H3). reflexivity. }
      rewrite E. cbn [load_xml_inner load_xml_scalar first_text text_run conv_xml_text]. rewrite app_nil_r. rewrite H2, H1. repeat split; reflexivity.
    - (* string *)
      cbn [xml_defect] in Hdf. destruct s as [|c s].
      + repeat split; discriminate.
      + assert (E : saved_view (XElem name [] (text_child (c :: s))) = XElem name [] [XText (c :: s)]).
        { cbn [text_child saved_view map]. rewrite (norm_eol_nocr _ Hdf). reflexivity. }
        rewrite E. cbn [load_xml_inner load_xml_scalar first_text text_run conv_xml_text]. rewrite app_nil_r. repeat split; reflexivity.
  Qed.

  (* ---------------------------------------------------------------- vectors *)

  Definition xvec_go (e : ty) := fix go (prev : val) (l : list xnode) : lout :=
    match l with
    | [] => Loaded (VArr [])
    | c :: r =>
      match load_xml_inner xstrtod xstrtof o false e c with
      | Failed er => Failed er
      | res =>
        let xv := match res with Loaded v => v | _ => if is_boolty e then prev else default e end in
        match go xv r with
        | Loaded (VArr vs) => Loaded (VArr (xv :: vs))
        | other => other
        end
      end
    end.

  Lemma load_xvec root e n a ch : load_xml_inner xstrtod xstrtof o root (TyVec e) (XElem n a ch) =
    if root || first_is_elem ch then xvec_go e (VBool false) ch else mismatch o.
  Proof. reflexivity. Qed.

  Lemma first_elem_ok (cs : list xnode) : Forall (fun c => is_elem c = true) cs -> first_is_elem cs = true.
  Proof. intros H. destruct H as [|c cs Hc _]; [reflexivity|]. destruct c; [reflexivity | discriminate]. Qed.

  Lemma xrt_vec e : xrt e -> xrt (TyVec e).
  Proof.
    intros IH root name v x Ht Hdf Hnf Hx. destruct v; try discriminate.
    cbn [xml_elem] in Hx. destruct (opt_map (fun x0 : val => xml_elem dtoa17 dtoa9 (item_name e x0) e x0) l) as [chs|] eqn:E; [|discriminate].
    cbn in Hx. inversion Hx; subst. clear Hx. apply opt_map_spec in E.
    cbn [saved_view]. cbn [has_type xml_defect val_nonfinite] in Ht, Hdf, Hnf.
    assert (G : (forall prev, xvec_go e prev (map saved_view chs) = Loaded (VArr l)) /\ Forall (fun c => is_elem c = true) (map saved_view chs)).
    { induction E as [|v c l chs Hvc _ IHl]; [split; [reflexivity | constructor]|].
      cbn [forallb existsb] in Ht, Hdf, Hnf. apply andb_true_iff in Ht. destruct Ht as [Ht1 Ht2].
      apply orb_false_iff in Hdf. destruct Hdf as [Hd1 Hd2]. apply orb_false_iff in Hnf. destruct Hnf as [Hn1 Hn2].
      destruct (IHl Ht2 Hd2 Hn2) as [G1 G2].
      destruct (IH false (item_name e v) v c Ht1 Hd1 Hn1 Hvc) as [I1 [I2 [_ I4]]].
      split; [|cbn [map]; constructor; assumption].
      intros prev. cbn [map xvec_go]. destruct (is_boolty e) eqn:Eb.
      - assert (S : strongly e v = true) by (destruct e; try discriminate; reflexivity).
        rewrite (I2 S), G1. reflexivity.
      - destruct (load_xml_inner xstrtod xstrtof o false e (saved_view c)); cbn in I1; inversion I1; subst; rewrite G1; reflexivity. }
    destruct G as [G1 G2].
    rewrite load_xvec, (first_elem_ok _ G2), orb_true_r, G1. repeat split; reflexivity.
  Qed.

  (* ---------------------------------------------------------------- maps *)

  Definition xmap_save (e : ty) := fix go (m : list (list N * val)) : option (list xnode) :=
    match m with
    | [] => Some []
    | (k, x) :: r => match xml_elem dtoa17 dtoa9 k e x, go r with Some c, Some cs => Some (c :: cs) | _, _ => None end
    end.

  Lemma xml_elem_map name e m : xml_elem dtoa17 dtoa9 name (TyMap e) (VObj m) = option_map (XElem name []) (xmap_save e m).
  Proof. reflexivity. Qed.

  Definition xmap_go (e : ty) (ch : list xnode) := fix go (l : list xnode) (acc : list (list N * val)) : lout :=
    match l with
    | [] => Loaded (VObj acc)
    | c :: r =>
      let k := elem_name c in
      match find_child ch k with
      | None => go r (map_insert k (default e) acc)
      | Some c1 =>
        match load_xml_inner xstrtod xstrtof o false e c1 with
        | Failed er => Failed er
        | Loaded v => go r (map_insert k v acc)
        | NotLoaded => go r (map_insert k (default e) acc)
        end
      end
    end.

  Lemma load_xmap root e n a ch : load_xml_inner xstrtod xstrtof o root (TyMap e) (XElem n a ch) =
    if root || first_is_elem ch then xmap_go e ch ch [] else mismatch o.
  Proof. reflexivity. Qed.

  Lemma find_child_cons c r k : is_elem c = true ->
    find_child (c :: r) k = if list_eqb k (elem_name c) then Some c else find_child r k.
  Proof. destruct c; [reflexivity | discriminate]. Qed.

  Lemma xmap_go_ok e ch : forall (cs : list xnode) (vs : list (list N * val)),
    Forall2 (fun c kv => elem_name c = fst kv /\ find_child ch (fst kv) = Some c /\
                         gotx e (load_xml_inner xstrtod xstrtof o false e c) = Some (snd kv)) cs vs ->
    forall acc : list (list N * val), keys_sorted (map fst acc ++ map fst vs) = true ->
    xmap_go e ch cs acc = Loaded (VObj (acc ++ vs)).
  Proof.
    induction 1 as [|c [k v] cs vs [Hk [Hf Hl]] _ IH]; intros acc Hs.
    - rewrite app_nil_r. reflexivity.
    - cbn [fst snd] in *. cbn [xmap_go]. rewrite Hk, Hf.
      assert (Hins : map_insert k v acc = acc ++ [(k, v)]).
      { apply map_insert_append. clear -Hs. induction acc as [|[a va] acc IHa]; [constructor|].
        cbn [map app fst] in Hs. destruct (keys_sorted_cons _ _ Hs) as [H1 H2]. constructor.
        - cbn [fst]. rewrite (key_cmp_antisym a k).
          assert (Hin : In k (map fst acc ++ map fst ((k, v) :: vs))) by (apply in_or_app; right; left; reflexivity).
          rewrite (proj1 (Forall_forall _ _) H1 k Hin). reflexivity.
        - apply IHa. exact H2. }
      assert (Hrest : xmap_go e ch cs (acc ++ [(k, v)]) = Loaded (VObj (acc ++ (k, v) :: vs))).
      { rewrite IH; [rewrite <- app_assoc; reflexivity | rewrite map_app, <- app_assoc; exact Hs]. }
      destruct (load_xml_inner xstrtod xstrtof o false e c); cbn in Hl; inversion Hl; subst; rewrite Hins; exact Hrest.
  Qed.

  Lemma xrt_map e : xrt e -> xrt (TyMap e).
  Proof.
    intros IH root name v x Ht Hdf Hnf Hx. destruct v; try discriminate.
    rewrite xml_elem_map in Hx. destruct (xmap_save e m) as [chs|] eqn:E; [|discriminate]. cbn in Hx. inversion Hx; subst. clear Hx.
    cbn [saved_view]. cbn [has_type xml_defect val_nonfinite] in Ht, Hdf, Hnf.
    apply andb_true_iff in Ht. destruct Ht as [Ht Hsort].
    (* per member: the saved child, its name, its load *)
    assert (F : Forall2 (fun c kv => elem_name c = fst kv /\ is_elem c = true /\
                         gotx e (load_xml_inner xstrtod xstrtof o false e c) = Some (snd kv)) (map saved_view chs) m).
    { revert chs E. induction m as [|[k v] m IHm]; intros chs E; cbn [xmap_save] in E.
      - inversion E. constructor.
      - destruct (xml_elem dtoa17 dtoa9 k e v) as [c|] eqn:Ec; [|discriminate]. destruct (xmap_save e m) as [cs|] eqn:Ecs; [|discriminate].
        inversion E; subst. clear E.
        cbn [forallb existsb fst snd] in Ht, Hdf, Hnf. apply andb_true_iff in Ht. destruct Ht as [Ht1 Ht2]. apply andb_true_iff in Ht1. destruct Ht1 as [_ Ht1].
        apply orb_false_iff in Hdf. destruct Hdf as [Hd1 Hd2]. apply orb_false_iff in Hnf. destruct Hnf as [Hn1 Hn2].
        destruct (IH false k v c Ht1 Hd1 Hn1 Ec) as [I1 [_ [I3 I4]]].
        cbn [map]. constructor; [cbn [fst snd]; repeat split; assumption|].
        apply IHm; try assumption; try reflexivity. cbn [map] in Hsort. destruct (keys_sorted_cons _ _ Hsort) as [_ H]. exact H. }
    assert (Gel : Forall (fun c => is_elem c = true) (map saved_view chs)).
    { clear -F. induction F as [|c kv cs m [_ [H _]] _ IHF]; constructor; assumption. }
    (* each child is found under its own name: the names are strictly increasing *)
    assert (Ffind : forall cs m', Forall2 (fun c kv => elem_name c = fst kv /\ is_elem c = true /\
                         gotx e (load_xml_inner xstrtod xstrtof o false e c) = Some (snd kv)) cs m' ->
                    keys_sorted (map fst m') = true ->
                    Forall2 (fun c kv => elem_name c = fst kv /\ find_child cs (fst kv) = Some c /\
                         gotx e (load_xml_inner xstrtod xstrtof o false e c) = Some (snd kv)) cs m').
    { induction 1 as [|c [k v] cs m' [Hk [Hel Hl]] Hr IHF]; intros Hs; [constructor|].
      cbn [fst snd map] in *. destruct (keys_sorted_cons _ _ Hs) as [H1 H2]. constructor.
      - cbn [fst snd]. repeat split; [exact Hk | | exact Hl]. rewrite (find_child_cons c cs k Hel), Hk, list_eqb_refl'. reflexivity.
      - specialize (IHF H2).
        assert (G : forall cs' m'', Forall2 (fun c kv => elem_name c = fst kv /\ find_child cs (fst kv) = Some c /\
                         gotx e (load_xml_inner xstrtod xstrtof o false e c) = Some (snd kv)) cs' m'' ->
                    Forall (fun b => key_cmp k b = Lt) (map fst m'') ->
                    Forall2 (fun c0 kv => elem_name c0 = fst kv /\ find_child (c :: cs) (fst kv) = Some c0 /\
                         gotx e (load_xml_inner xstrtod xstrtof o false e c0) = Some (snd kv)) cs' m'').
        { induction 1 as [|c' [k' v'] cs' m'' [Hk' [Hf' Hl']] _ IHG]; intros Hlt; [constructor|].
          cbn [fst snd map] in *. inversion Hlt as [|? ? Hlt1 Hlt2]; subst. constructor; [|apply IHG; exact Hlt2].
          cbn [fst snd]. split; [reflexivity | split; [|exact Hl']].
          rewrite (find_child_cons c cs (elem_name c') Hel).
          rewrite (list_eqb_neq (elem_name c') (elem_name c)); [exact Hf'|]. intros Eq. apply (key_lt_neq _ _ Hlt1). symmetry. exact Eq. }
        apply G; assumption. }
    rewrite load_xmap, (first_elem_ok _ Gel), orb_true_r.
    rewrite (xmap_go_ok e (map saved_view chs) (map saved_view chs) m (Ffind _ _ F Hsort) []); [|exact Hsort].
    repeat split; reflexivity.
  Qed.

  (* ---------------------------------------------------------------- classes *)

  Definition xobj_save (name : list N) :=
    fix go (fs : list (list N * fkind * ty)) (ms : list (list N * val)) (attrs : list (list N * list N)) (ch : list xnode) : option xnode :=
      match fs, ms with
      | [], [] => Some (XElem name (rev attrs) (rev ch))
      | (k, FAttr, ft) :: fs', (_, fv) :: ms' =>
        match scalar_text dtoa17 dtoa9 ft fv with Some s => go fs' ms' ((k, s) :: attrs) ch | None => None end
      | (k, FElem, ft) :: fs', (_, fv) :: ms' =>
        match xml_elem dtoa17 dtoa9 k ft fv with Some c => go fs' ms' attrs (c :: ch) | None => None end
      | _, _ => None
      end.

  Lemma xml_elem_obj name fields m : xml_elem dtoa17 dtoa9 name (TyObj fields) (VObj m) = xobj_save name fields m [] [].
  Proof. reflexivity. Qed.

  (* the same without accumulators *)
  Fixpoint xobj_parts (fs : list (list N * fkind * ty)) (ms : list (list N * val)) : option (list (list N * list N) * list xnode) :=
    match fs, ms with
    | [], [] => Some ([], [])
    | (k, FAttr, ft) :: fs', (_, fv) :: ms' =>
      match scalar_text dtoa17 dtoa9 ft fv, xobj_parts fs' ms' with Some s, Some (A, C) => Some ((k, s) :: A, C) | _, _ => None end
    | (k, FElem, ft) :: fs', (_, fv) :: ms' =>
      match xml_elem dtoa17 dtoa9 k ft fv, xobj_parts fs' ms' with Some c, Some (A, C) => Some (A, c :: C) | _, _ => None end
    | _, _ => None
    end.

  Lemma xobj_save_parts name : forall fs ms attrs ch,
    xobj_save name fs ms attrs ch =
    match xobj_parts fs ms with Some (A, C) => Some (XElem name (rev attrs ++ A) (rev ch ++ C)) | None => None end.
  Proof.
    induction fs as [|[[k fk] ft] fs IH]; intros ms attrs ch.
    - destruct ms; cbn; [rewrite !app_nil_r; reflexivity | reflexivity].
    - destruct ms as [|[k' fv] ms]; [destruct fk; reflexivity|].
      destruct fk; cbn [xobj_save xobj_parts].
      + destruct (xml_elem dtoa17 dtoa9 k ft fv) as [c|]; [|reflexivity]. rewrite IH.
        destruct (xobj_parts fs ms) as [[A C]|]; [|reflexivity]. cbn [rev]. rewrite <- app_assoc. reflexivity.
      + destruct (scalar_text dtoa17 dtoa9 ft fv) as [s|]; [|reflexivity]. rewrite IH.
        destruct (xobj_parts fs ms) as [[A C]|]; [|reflexivity]. cbn [rev]. rewrite <- app_assoc. reflexivity.
  Qed.

  Definition xobj_go (attrs : list (list N * list N)) (ch : list xnode) :=
    fix go (fs : list (list N * fkind * ty)) : lout :=
      match fs with
      | [] => Loaded (VObj [])
      | (k, fk, ft) :: fs' =>
        let r := match fk with
                 | FAttr => match find_attr attrs k with Some s => load_xml_attr xstrtod xstrtof o ft s | None => NotLoaded end
                 | FElem => match find_child ch k with Some c => load_xml_inner xstrtod xstrtof o false ft c | None => NotLoaded end
                 end in
        match r with
        | Failed er => Failed er
        | _ =>
          let fv := match r with Loaded v => v | _ => default ft end in
          match go fs' with
          | Loaded (VObj vs) => Loaded (VObj ((k, fv) :: vs))
          | other => other
          end
        end
      end.

  Lemma load_xobj root fields n a ch : load_xml_inner xstrtod xstrtof o root (TyObj fields) (XElem n a ch) =
    if root || first_is_elem ch then xobj_go a ch fields else mismatch o.
  Proof. reflexivity. Qed.

  (* an attribute comes back *)
  Lemma attr_rt ft fv s : is_scalar_ty ft = true -> has_type ft fv = true -> val_nonfinite fv = false ->
    scalar_text dtoa17 dtoa9 ft fv = Some s -> gotx ft (load_xml_attr xstrtod xstrtof o ft s) = Some fv.
  Proof.
    intros Hsc Ht Hnf Hs. destruct ft; try discriminate; destruct fv; try discriminate; cbn [scalar_text] in Hs; inversion Hs; subst; clear Hs.
    - reflexivity.
    - destruct b; reflexivity.
    - rewrite (load_attr_int_dec _ _ _ _ _ Ht). reflexivity.
    - cbn [val_nonfinite] in Hnf. destruct (Hd bits Hnf) as [H1 [H2 _]]. cbn [load_xml_attr conv_xml_text]. rewrite H2, H1. reflexivity.
    - reflexivity.
  Qed.

  Lemma find_attr_distinct A : names_distinct (map fst A) = true -> forall k s, In (k, s) A -> find_attr A k = Some s.
  Proof.
    induction A as [|[k0 s0] A IH]; intros Hd' k s Hin; [destruct Hin|].
    cbn [map fst names_distinct] in Hd'. apply andb_true_iff in Hd'. destruct Hd' as [H1 H2].
    cbn [find_attr]. destruct Hin as [E|Hin].
    - inversion E; subst. rewrite list_eqb_refl'. reflexivity.
    - destruct (list_eqb k k0) eqn:E.
      + exfalso. apply list_eqb_eq in E. subst k0.
        assert (X : existsb (key_eqb k) (map fst A) = true).
        { apply existsb_exists. exists k. split; [|apply key_eqb_refl]. apply in_map_iff. exists (k, s). split; [reflexivity | exact Hin]. }
        rewrite X in H1. discriminate.
      + apply IH; assumption.
  Qed.

  Lemma find_child_distinct C : Forall (fun c => is_elem c = true) C -> names_distinct (map elem_name C) = true ->
    forall c, In c C -> find_child C (elem_name c) = Some c.
  Proof.
    induction 1 as [|c0 C Hc0 _ IH]; intros Hd' c Hin; [destruct Hin|].
    cbn [map names_distinct] in Hd'. apply andb_true_iff in Hd'. destruct Hd' as [H1 H2].
    rewrite (find_child_cons c0 C _ Hc0). destruct Hin as [E|Hin].
    - subst. rewrite list_eqb_refl'. reflexivity.
    - destruct (list_eqb (elem_name c) (elem_name c0)) eqn:E.
      + exfalso. apply list_eqb_eq in E.
        assert (X : existsb (key_eqb (elem_name c0)) (map elem_name C) = true).
        { apply existsb_exists. exists (elem_name c). split; [apply in_map; exact Hin | rewrite E; apply key_eqb_refl]. }
        rewrite X in H1. discriminate.
      + apply IH; assumption.
  Qed.

  (* names of the parts are field names, in order *)
  Lemma names_sub (k : list N) (l1 l2 : list (list N)) :
    (forall x, In x l1 -> In x l2) -> existsb (key_eqb k) l2 = false -> existsb (key_eqb k) l1 = false.
  Proof.
    intros Hsub H. destruct (existsb (key_eqb k) l1) eqn:E; [|reflexivity].
    apply existsb_exists in E. destruct E as [x [Hx1 Hx2]]. pose proof (existsb_false_in' _ _ x H (Hsub x Hx1)). congruence.
  Qed.

  Definition xobj_defect := fix go (fs : list (list N * fkind * ty)) (ms : list (list N * val)) : bool :=
    match fs, ms with
    | (_, FElem, ft) :: fs', (_, fv) :: ms' => xml_defect ft fv || go fs' ms'
    | (_, FAttr, _) :: fs', _ :: ms' => go fs' ms'
    | _, _ => false
    end.
  Lemma xml_defect_obj fields m : xml_defect (TyObj fields) (VObj m) = xobj_defect fields m.
  Proof. reflexivity. Qed.

  Definition fcond (f : list N * fkind * ty) : Prop :=
    match snd (fst f) with FElem => xrt (snd f) | FAttr => is_scalar_ty (snd f) = true end.

  Lemma xobj_main A0 C0 : forall fs ms A C,
    Forall fcond fs -> obj_ty fs ms = true -> xobj_defect fs ms = false ->
    existsb (fun kv => val_nonfinite (snd kv)) ms = false ->
    xobj_parts fs ms = Some (A, C) ->
    (forall k s, In (k, s) A -> find_attr A0 k = Some s) ->
    (forall c, In c (map saved_view C) -> find_child C0 (elem_name c) = Some c) ->
    xobj_go A0 C0 fs = Loaded (VObj ms).
  Proof.
    induction fs as [|[[k fk] ft] fs IH]; intros ms A C Hc Hty Hdf Hnf Hp HA HC.
    - destruct ms; [reflexivity | discriminate].
    - destruct ms as [|[k' fv] ms]; [destruct fk; discriminate|].
      inversion Hc as [|? ? Hc1 Hc2]; subst. unfold fcond in Hc1. cbn [fst snd] in Hc1.
      cbn [obj_ty] in Hty. apply andb_true_iff in Hty. destruct Hty as [Hty Hty2]. apply andb_true_iff in Hty. destruct Hty as [Hk Hty1].
      apply key_eqb_eq in Hk. subst k'.
      cbn [existsb snd] in Hnf. apply orb_false_iff in Hnf. destruct Hnf as [Hn1 Hn2].
      destruct fk.
      + (* element *)
        cbn [xobj_defect] in Hdf. apply orb_false_iff in Hdf. destruct Hdf as [Hd1 Hd2].
        cbn [xobj_parts] in Hp. destruct (xml_elem dtoa17 dtoa9 k ft fv) as [c|] eqn:Ec; [|discriminate].
        destruct (xobj_parts fs ms) as [[A' C']|] eqn:Ep; [|discriminate]. inversion Hp; subst. clear Hp.
        destruct (Hc1 false k fv c Hty1 Hd1 Hn1 Ec) as [I1 [_ [I3 _]]].
        assert (Hfc : find_child C0 k = Some (saved_view c)).
        { rewrite <- I3. apply HC. left. reflexivity. }
        assert (Hrest : xobj_go A0 C0 fs = Loaded (VObj ms)).
        { apply (IH ms A C' Hc2 Hty2 Hd2 Hn2 Ep HA). intros c0 Hin. apply HC. right. exact Hin. }
        cbn [xobj_go]. rewrite Hfc, Hrest.
        destruct (load_xml_inner xstrtod xstrtof o false ft (saved_view c)); cbn in I1; inversion I1; subst; reflexivity.
      + (* attribute *)
        cbn [xobj_defect] in Hdf.
        cbn [xobj_parts] in Hp. destruct (scalar_text dtoa17 dtoa9 ft fv) as [s|] eqn:Es; [|discriminate].
        destruct (xobj_parts fs ms) as [[A' C']|] eqn:Ep; [|discriminate]. inversion Hp; subst. clear Hp.
        pose proof (attr_rt ft fv s Hc1 Hty1 Hn1 Es) as I1.
        assert (Hfa : find_attr A0 k = Some s) by (apply HA; left; reflexivity).
        assert (Hrest : xobj_go A0 C0 fs = Loaded (VObj ms)).
        { apply (IH ms A' C Hc2 Hty2 Hdf Hn2 Ep); [|exact HC]. intros k0 s0 Hin. apply HA. right. exact Hin. }
        cbn [xobj_go]. rewrite Hfa, Hrest.
        destruct (load_xml_attr xstrtod xstrtof o ft s); cbn in I1; inversion I1; subst; reflexivity.
  Qed.

  Definition fname (f : list N * fkind * ty) : list N := fst (fst f).

  Lemma xobj_names : forall fs ms A C,
    Forall fcond fs -> obj_ty fs ms = true -> xobj_defect fs ms = false ->
    existsb (fun kv => val_nonfinite (snd kv)) ms = false ->
    xobj_parts fs ms = Some (A, C) ->
    (forall x, In x (map fst A) -> In x (map fname fs)) /\
    (forall x, In x (map elem_name (map saved_view C)) -> In x (map fname fs)) /\
    Forall (fun c => is_elem c = true) (map saved_view C) /\
    (names_distinct (map fname fs) = true ->
     names_distinct (map fst A) = true /\ names_distinct (map elem_name (map saved_view C)) = true).
  Proof.
    induction fs as [|[[k fk] ft] fs IH]; intros ms A C Hc Hty Hdf Hnf Hp.
    - destruct ms; [|discriminate]. cbn in Hp. inversion Hp; subst. split; [intros x []|split; [intros x []|split; [constructor|intros _; split; reflexivity]]].
    - destruct ms as [|[k' fv] ms]; [destruct fk; discriminate|].
      inversion Hc as [|? ? Hc1 Hc2]; subst. unfold fcond in Hc1. cbn [fst snd] in Hc1.
      cbn [obj_ty] in Hty. apply andb_true_iff in Hty. destruct Hty as [Hty Hty2]. apply andb_true_iff in Hty. destruct Hty as [Hk Hty1].
      cbn [existsb snd] in Hnf. apply orb_false_iff in Hnf. destruct Hnf as [Hn1 Hn2].
      destruct fk.
      + cbn [xobj_defect] in Hdf. apply orb_false_iff in Hdf. destruct Hdf as [Hd1 Hd2].
        cbn [xobj_parts] in Hp. destruct (xml_elem dtoa17 dtoa9 k ft fv) as [c|] eqn:Ec; [|discriminate].
        destruct (xobj_parts fs ms) as [[A' C']|] eqn:Ep; [|discriminate]. inversion Hp; subst. clear Hp.
        destruct (Hc1 false k fv c Hty1 Hd1 Hn1 Ec) as [_ [_ [I3 I4]]].
        destruct (IH ms A C' Hc2 Hty2 Hd2 Hn2 Ep) as [J1 [J2 [J3 J4]]].
        cbn [map fname fst]. split; [|split; [|split; [|intros H; cbn [names_distinct] in H; apply andb_true_iff in H; destruct H as [H1 H2]; split]]].
        * intros x Hx. right. apply J1. exact Hx.
        * intros x [Hx|Hx]; [left; rewrite <- Hx; symmetry; exact I3 | right; apply J2; exact Hx].
        * constructor; assumption.
        * exact (proj1 (J4 H2)).
        * cbn [names_distinct]. rewrite (proj2 (J4 H2)), andb_true_r, I3. apply negb_true_iff. apply negb_true_iff in H1.
          apply (names_sub k _ _ J2 H1).
      + cbn [xobj_defect] in Hdf.
        cbn [xobj_parts] in Hp. destruct (scalar_text dtoa17 dtoa9 ft fv) as [s|] eqn:Es; [|discriminate].
        destruct (xobj_parts fs ms) as [[A' C']|] eqn:Ep; [|discriminate]. inversion Hp; subst. clear Hp.
        destruct (IH ms A' C Hc2 Hty2 Hdf Hn2 Ep) as [J1 [J2 [J3 J4]]].
        cbn [map fname fst]. split; [|split; [|split; [|intros H; cbn [names_distinct] in H; apply andb_true_iff in H; destruct H as [H1 H2]; split]]].
        * intros x [Hx|Hx]; [left; exact Hx | right; apply J1; exact Hx].
        * intros x Hx. right. apply J2. exact Hx.
        * exact J3.
        * cbn [names_distinct]. rewrite (proj1 (J4 H2)), andb_true_r. apply negb_true_iff. apply negb_true_iff in H1.
          apply (names_sub k _ _ J1 H1).
        * exact (proj2 (J4 H2)).
  Qed.

  Lemma xrt_obj fields : names_distinct (map fname fields) = true -> Forall fcond fields -> xrt (TyObj fields).
  Proof.
    intros Hdist Hc root name v x Ht Hdf Hnf Hx. destruct v; try discriminate.
    rewrite xml_elem_obj, xobj_save_parts in Hx. destruct (xobj_parts fields m) as [[A C]|] eqn:Ep; [|discriminate].
    cbn [rev app] in Hx. inversion Hx; subst. clear Hx.
    rewrite has_type_obj in Ht. rewrite xml_defect_obj in Hdf. cbn [val_nonfinite] in Hnf.
    destruct (xobj_names fields m A C Hc Ht Hdf Hnf Ep) as [J1 [J2 [J3 J4]]]. destruct (J4 Hdist) as [D1 D2].
    cbn [saved_view]. rewrite load_xobj, (first_elem_ok _ J3), orb_true_r.
    rewrite (xobj_main A (map saved_view C) fields m A C Hc Ht Hdf Hnf Ep).
    - repeat split; reflexivity.
    - apply find_attr_distinct. exact D1.
    - apply find_child_distinct; assumption.
  Qed.

  (* ---------------------------------------------------------------- optionals / smart pointers *)

  Lemma childless_not_loaded root e n : is_container e = false -> is_opt e = false ->
    load_xml_inner xstrtod xstrtof o root e (XElem n [] []) = NotLoaded.
  Proof. destruct e; intros H1 H2; try discriminate; reflexivity. Qed.

  Lemma xrt_opt e : is_opt e = false -> is_nullty e = false -> xrt e -> xrt (TyOpt e).
  Proof.
    intros Ho Hn IH root name v x Ht Hdf Hnf Hx. destruct v as [ | | | | | | | [x0|] | | ]; try discriminate.
    - cbn [has_type xml_defect val_nonfinite xml_elem] in Ht, Hdf, Hnf, Hx. apply orb_false_iff in Hdf. destruct Hdf as [He Hdf].
      destruct (IH root name x0 x Ht Hdf Hnf Hx) as [I1 [I2 [I3 I4]]].
      assert (S : strongly e x0 = true).
      { destruct e; try discriminate; try reflexivity. destruct x0; try reflexivity. destruct s; [discriminate | reflexivity]. }
      cbn [load_xml_inner]. destruct (saved_view x) as [n a ch|s] eqn:Ev; [|discriminate].
      rewrite (I2 S). repeat split; try discriminate; assumption.
    - cbn [xml_defect xml_elem] in Hdf, Hx. inversion Hx; subst. clear Hx. cbn [saved_view map load_xml_inner].
      rewrite (childless_not_loaded root e name Hdf Ho). repeat split; discriminate.
  Qed.

  (* ---------------------------------------------------------------- all types *)

  Lemma xrt_all t : ty_wf t = true -> ty_wfx t = true -> xrt t.
  Proof.
    induction t as [ | | k | | | e IH | e IH | fields IH | e IH | | names ] using ty_ind'; intros Hwf Hwx;
      try discriminate; try (apply xrt_scalar; reflexivity).
    - apply xrt_vec, IH; assumption.
    - apply xrt_map, IH; assumption.
    - cbn [ty_wf ty_wfx] in Hwf, Hwx. apply andb_true_iff in Hwf. destruct Hwf as [H1 H2].
      apply xrt_obj; [exact H1|].
      clear H1. induction IH as [|[[k fk] ft] fields Hf _ IHf]; [constructor|].
      cbn [forallb fst snd] in H2, Hwx. apply andb_true_iff in H2, Hwx. destruct H2 as [H2 H3], Hwx as [W1 W2].
      constructor; [|apply IHf; assumption]. unfold fcond. cbn [fst snd] in *. destruct fk; [apply Hf; assumption | exact W1].
    - cbn [ty_wf ty_wfx] in Hwf, Hwx. apply andb_true_iff in Hwf. destruct Hwf as [Hwf Hn]. apply andb_true_iff in Hwf. destruct Hwf as [Hwf Ho].
      apply negb_true_iff in Hn, Ho. apply xrt_opt; [exact Ho | exact Hn | apply IH; assumption].
  Qed.

  (* the round trip of SaveObject / LoadObject through the XML archive: outside the defect class the value comes back *)
  Theorem xml_roundtrip_outside key t v : ty_wf t = true -> ty_wfx t = true -> has_type t v = true ->
    xml_defect t v = false -> val_nonfinite v = false ->
    forall r, roundtrip_xml dtoa17 dtoa9 xstrtod xstrtof o key t v = Some r -> r = Ok v.
  Proof.
    intros Hwf Hwx Ht Hdf Hnf r Hr. unfold roundtrip_xml in Hr.
    destruct (save_xml dtoa17 dtoa9 key t v) as [d|] eqn:Es; [|discriminate]. cbn in Hr. inversion Hr; subst. clear Hr.
    assert (G : forall nm, xml_elem dtoa17 dtoa9 nm t v = Some d -> is_container t = true ->
                (match key with Some k => nm = k | None => True end) -> load_xml xstrtod xstrtof o key t (saved_view d) = Ok v).
    { intros nm Hx Hcont Hnm.
      destruct (xrt_all t Hwf Hwx (match key with Some _ => true | None => false end) nm v d Ht Hdf Hnf Hx) as [_ [I2 [I3 _]]].
      assert (S : strongly t v = true) by (destruct t; try discriminate; reflexivity).
      unfold load_xml. rewrite (I2 S), I3.
      assert (Nm : (match key with Some k => list_eqb k nm | None => true end) = true).
      { destruct key; [subst; apply list_eqb_refl' | reflexivity]. }
      rewrite Nm. destruct t; try discriminate; reflexivity. }
    unfold save_xml in Es. destruct t; try discriminate.
    - apply (G _ Es eq_refl). destruct key; [reflexivity | exact I].
    - apply (G _ Es eq_refl). destruct key; [reflexivity | exact I].
    - apply (G _ Es eq_refl). destruct key; [reflexivity | exact I].
  Qed.
End XmlRoundTrip.

(* inside the defect class the value does not come back: one witness per clause of xml_defect *)
Lemma xml_defect_witnesses dtoa17 dtoa9 xstrtod xstrtof :
  (* J41 *) (xml_defect (TyVec TyStr) (VArr [VStr [97; 13; 98]]) = true /\
             roundtrip_xml dtoa17 dtoa9 xstrtod xstrtof mkT None (TyVec TyStr) (VArr [VStr [97; 13; 98]]) = Some (Ok (VArr [VStr [97; 10; 98]]))) /\
  (* F29n *) (xml_defect (TyVec (TyOpt (TyVec (TyInt I32)))) (VArr [VOpt None]) = true /\
              roundtrip_xml dtoa17 dtoa9 xstrtod xstrtof mkT None (TyVec (TyOpt (TyVec (TyInt I32)))) (VArr [VOpt None]) = Some (Ok (VArr [VOpt (Some (VArr []))]))) /\
  (* F29n, class *) (xml_defect (TyVec (TyOpt ty_inner)) (VArr [VOpt None]) = true /\
              roundtrip_xml dtoa17 dtoa9 xstrtod xstrtof mkT None (TyVec (TyOpt ty_inner)) (VArr [VOpt None]) =
                Some (Ok (VArr [VOpt (Some (VObj [([120], VInt 0); ([110; 97; 109; 101], VStr [])]))]))) /\
  (* F53 *) (xml_defect (TyVec (TyOpt TyStr)) (VArr [VOpt (Some (VStr []))]) = true /\
             roundtrip_xml dtoa17 dtoa9 xstrtod xstrtof mkT None (TyVec (TyOpt TyStr)) (VArr [VOpt (Some (VStr []))]) = Some (Ok (VArr [VOpt None]))).
Proof. repeat split; reflexivity. Qed.

(* values outside the class with optionals *)
Example xml_roundtrip_optionals dtoa17 dtoa9 xstrtod xstrtof :
  roundtrip_xml dtoa17 dtoa9 xstrtod xstrtof mkT None (TyVec (TyOpt TyStr)) (VArr [VOpt None; VOpt (Some (VStr [32])); VOpt (Some (VStr [97]))]) =
    Some (Ok (VArr [VOpt None; VOpt (Some (VStr [32])); VOpt (Some (VStr [97]))])) /\
  roundtrip_xml dtoa17 dtoa9 xstrtod xstrtof mkT None (TyMap (TyOpt (TyVec (TyInt I32)))) (VObj [([97], VOpt (Some (VArr []))); ([98], VOpt (Some (VArr [VInt 5])))]) =
    Some (Ok (VObj [([97], VOpt (Some (VArr []))); ([98], VOpt (Some (VArr [VInt 5])))])).
Proof. split; reflexivity. Qed.
