(* JxXmlSound.v — every text the reference XML parser of JxXmlSpec accepts is an XML 1.0 text of the subset that
   denotes the returned tree.  The texts are described generatively, production by production: how character data,
   attribute values, tags, CDATA sections, comments, processing instructions and the XML declaration are spelled, with
   every free choice the recommendation leaves (references or literal characters, either quote, white space inside
   tags, comments and processing instructions anywhere, empty-element tags).  The description mentions none of the
   parsing functions; it uses only the character classes, the table of references (decode_ref), Name (name_ok), the
   checks on the declaration (decl_ok) and the merging of adjacent character data (merge_txt) of JxXmlSpec. *)
From BS Require Import Base UtfSpec UtfModel JxJsonSpec JxJsonProofs JxXmlSpec JxXmlProofs.
From Coq Require Import ZifyBool ZifyN ZifyNat.
Local Open Scope N_scope.
Ltac Zify.zify_post_hook ::= Z.div_mod_to_equations.

(* ================================================================== the texts of the subset (XML 1.0, 5th edition) *)

(* Reference ::= EntityRef | CharRef  (productions 66-68): an ampersand, the name of a predefined entity or a number
   sign and decimal digits or a number sign, x and hexadecimal digits, a semicolon.  decode_ref is the table 4.6 and
   the value of a character reference, which must be a Char (WFC: Legal Character). *)
Inductive ref_spells : N -> list N -> Prop :=
| rs_ref n c : decode_ref n = Some c -> ref_spells c (38 :: n ++ [59]).

(* character data and references up to the next markup (productions 14, 43): a character of the value is written
   literally (any Char but less-than and ampersand; the literal text must not contain the CDATA-section-close
   delimiter: a right bracket is not followed by right bracket, greater-than) or as a reference *)
Inductive chardata_spells : list N -> list N -> Prop :=
| cd_nil : chardata_spells [] []
| cd_lit c v body : xml_char c = true -> c <> 60 -> c <> 38 -> (c = 93 -> starts [93; 62] body = false) ->
    chardata_spells v body -> chardata_spells (c :: v) (c :: body)
| cd_ref c p v body : ref_spells c p -> chardata_spells v body -> chardata_spells (c :: v) (p ++ body).

(* AttValue between quotes q (production 10) and its normalised value (3.3.3): a literal character is any Char but
   the quote, less-than and ampersand; literal white space becomes a space; a referenced character is kept as it is *)
Inductive attval_spells (q : N) : list N -> list N -> Prop :=
| av_nil : attval_spells q [] []
| av_lit c v body : xml_char c = true -> c <> q -> c <> 60 -> c <> 38 -> is_xws c = false ->
    attval_spells q v body -> attval_spells q (c :: v) (c :: body)
| av_ws c v body : is_xws c = true -> c <> q -> attval_spells q v body -> attval_spells q (32 :: v) (c :: body)
| av_ref c p v body : ref_spells c p -> attval_spells q v body -> attval_spells q (c :: v) (p ++ body).

(* (S Attribute)* S?  with  Attribute ::= Name Eq AttValue,  Eq ::= S? '=' S?  (productions 25, 40, 41) *)
Inductive attrs_spell : list (list N * list N) -> list N -> Prop :=
| as_nil w : ws_only w = true -> attrs_spell [] w
| as_cons n v a w1 w2 w3 q vb body :
    w1 <> [] -> ws_only w1 = true -> name_ok n = true -> ws_only w2 = true -> ws_only w3 = true ->
    q = 34 \/ q = 39 -> attval_spells q v vb -> attrs_spell a body ->
    attrs_spell ((n, v) :: a) (w1 ++ n ++ w2 ++ [61] ++ w3 ++ [q] ++ vb ++ [q] ++ body).

(* t is closed by the delimiter d: in t followed by d, no occurrence of d begins inside t.  For the delimiters of
   CDATA sections and processing instructions this says that t does not contain d; for the two hyphens that close
   the text of a comment it says that t contains no two adjacent hyphens and does not end with a hyphen. *)
Fixpoint free_of (d t : list N) : bool :=
  match t with
  | [] => true
  | c :: t' => negb (starts d (c :: t' ++ d)) && free_of d t'
  end.

(* what follows character data: markup, or nothing *)
Definition markup_or_end (s : list N) : Prop := match s with [] => True | c :: _ => c = 60 end.

(* the content of a processing instruction after its target (production 16): nothing, or white space and then any
   characters not containing the closing delimiter *)
Definition pi_data (t : list N) : Prop :=
  t = [] \/ exists w t', t = w :: t' /\ is_xws w = true /\ forallb xml_char t' = true /\ free_of [63; 62] t' = true.

(* a text and the tokens it consists of *)
Inductive xtext : list N -> list xtok -> Prop :=
| xt_nil : xtext [] []
(* STag ::= '<' Name (S Attribute)* S? '>'   (WFC: Unique Att Spec) *)
| xt_open n a ab s ts : name_ok n = true -> attrs_spell a ab -> keys_distinct a = true -> xtext s ts ->
    xtext (60 :: n ++ ab ++ 62 :: s) (XOpen n a :: ts)
(* EmptyElemTag ::= '<' Name (S Attribute)* S? '/>' *)
| xt_empty n a ab s ts : name_ok n = true -> attrs_spell a ab -> keys_distinct a = true -> xtext s ts ->
    xtext (60 :: n ++ ab ++ 47 :: 62 :: s) (XEmpty n a :: ts)
(* ETag ::= '</' Name S? '>' *)
| xt_close n w s ts : name_ok n = true -> ws_only w = true -> xtext s ts ->
    xtext (60 :: 47 :: n ++ w ++ 62 :: s) (XClose n :: ts)
(* CharData and References, up to the next markup *)
| xt_chars v body s ts : chardata_spells v body -> v <> [] -> markup_or_end s -> xtext s ts ->
    xtext (body ++ s) (XTxt v :: ts)
(* CDSect ::= '<![CDATA[' CData ']]>' *)
| xt_cdata t s ts : t <> [] -> forallb xml_char t = true -> free_of [93; 93; 62] t = true -> xtext s ts ->
    xtext ([60; 33; 91; 67; 68; 65; 84; 65; 91] ++ t ++ [93; 93; 62] ++ s) (XTxt t :: ts)
| xt_cdata_empty s ts : xtext s ts ->
    xtext ([60; 33; 91; 67; 68; 65; 84; 65; 91; 93; 93; 62] ++ s) ts
(* Comment ::= '<!--' ((Char - '-') | ('-' (Char - '-')))* '-->' *)
| xt_comment t s ts : forallb xml_char t = true -> free_of [45; 45] t = true -> xtext s ts ->
    xtext ([60; 33; 45; 45] ++ t ++ [45; 45; 62] ++ s) ts
(* PI ::= '<?' PITarget (S Chars)? '?>'  where Chars does not contain '?>' and PITarget is any Name but xml (in any
   case of the letters) *)
| xt_pi n t s ts : name_ok n = true -> is_xml_target n = false -> pi_data t -> xtext s ts ->
    xtext (60 :: 63 :: n ++ t ++ 63 :: 62 :: s) ts.

(* XMLDecl ::= '<?xml' VersionInfo EncodingDecl? SDDecl? S? '?>'  (productions 23-26, 32, 80, 81): the
   pseudo-attributes are spelled like attributes, and decl_ok demands version, encoding, standalone in this order
   with their legal values *)
Inductive xmldecl_spells : list N -> Prop :=
| xd_decl a ab : attrs_spell a ab -> decl_ok a = true -> xmldecl_spells ([60; 63; 120; 109; 108] ++ ab ++ [63; 62]).

(* element ::= EmptyElemTag | STag content ETag  (production 39; WFC: Element Type Match) *)
Inductive xtoks : xnode -> list xtok -> Prop :=
| xk_text s : xtoks (XText s) [XTxt s]
| xk_empty n a : xtoks (XElem n a []) [XEmpty n a]
| xk_elem n a ch l : xtoks_list ch l -> xtoks (XElem n a ch) (XOpen n a :: l ++ [XClose n])
with xtoks_list : list xnode -> list xtok -> Prop :=
| xkl_nil : xtoks_list [] []
| xkl_cons x ch t l : xtoks x t -> xtoks_list ch l -> xtoks_list (x :: ch) (t ++ l).

(* what may stand before and after the root element, as tokens: nothing, or character data that is white space *)
Definition misc_ws (l : list xtok) : Prop := l = [] \/ exists w, l = [XTxt w] /\ ws_only w = true.

(* document ::= prolog element Misc*  (production 1): an optional declaration, then a text whose tokens, adjacent
   character data merged, are those of the root element with at most white space around it *)
Definition xrenders (s : list N) (x : xnode) : Prop :=
  exists decl body ts pre toks post,
    s = decl ++ body /\ (decl = [] \/ xmldecl_spells decl) /\
    xtext body ts /\
    merge_txt ts = pre ++ toks ++ post /\ misc_ws pre /\ misc_ws post /\
    xtoks x toks /\ is_text x = false.

(* ================================================================== small facts *)

Lemma strip_prefix_split p : forall s r, strip_prefix p s = Some r -> s = p ++ r.
Proof.
  induction p as [|a p IH]; intros s r H; cbn [strip_prefix] in H.
  - inversion H. reflexivity.
  - destruct s as [|b s]; [discriminate|]. destruct (a =? b) eqn:E; [|discriminate].
    apply N.eqb_eq in E. subst b. cbn [app]. f_equal. apply IH. exact H.
Qed.

Lemma starts_app p u y : starts p u = true -> starts p (u ++ y) = true.
Proof.
  unfold starts. destruct (strip_prefix p u) as [z|] eqn:E; [|discriminate]. intros _.
  apply strip_prefix_split in E. subst u. rewrite <- app_assoc, strip_prefix_app. reflexivity.
Qed.

Lemma list_eqb_eq a : forall b, list_eqb a b = true -> a = b.
Proof.
  induction a as [|x a IH]; intros [|y b] H; cbn [list_eqb] in H; try discriminate; [reflexivity|].
  apply andb_true_iff in H. destruct H as [H1 H2]. apply N.eqb_eq in H1. subst y. f_equal. apply IH. exact H2.
Qed.

Lemma lex_name_sound s n r : lex_name s = Some (n, r) -> s = n ++ r /\ name_ok n = true.
Proof.
  destruct s as [|c s]; cbn [lex_name]; [discriminate|]. destruct (name_start c) eqn:E; [|discriminate].
  destruct (span name_char s) as [a r'] eqn:Es. intros H. inversion H; subst.
  destruct (span_split _ _ _ _ Es) as [-> Ha]. split; [reflexivity|].
  unfold name_ok. cbn [lex_name]. rewrite E.
  pose proof (span_app name_char a [] Ha I) as Hs. rewrite app_nil_r in Hs. rewrite Hs. reflexivity.
Qed.

Lemma skip_ws_sound s : exists w, s = w ++ skip_ws s /\ ws_only w = true.
Proof.
  unfold skip_ws. destruct (span is_xws s) as [w r] eqn:E. destruct (span_split _ _ _ _ E) as [-> Hw].
  exists w. split; [reflexivity | exact Hw].
Qed.

(* ================================================================== character data: the reader is sound *)

(* inside a reference the reader runs to the first semicolon *)
Lemma lex_text_ref s : forall ra acc v r, lex_text (Some ra) acc s = Some (v, r) ->
  exists m s' cp, s = m ++ 59 :: s' /\ decode_ref (rev ra ++ m) = Some cp /\ lex_text None (cp :: acc) s' = Some (v, r).
Proof.
  induction s as [|c s IH]; intros ra acc v r H; [discriminate|].
  cbn [lex_text] in H. destruct (c =? 59) eqn:E.
  - apply N.eqb_eq in E. subst c. destruct (decode_ref (rev ra)) as [cp|] eqn:D; [|discriminate].
    exists [], s, cp. rewrite app_nil_r. split; [reflexivity|]. split; [exact D | exact H].
  - destruct (IH _ _ _ _ H) as [m [s' [cp [E1 [E2 E3]]]]]. exists (c :: m), s', cp.
    split; [rewrite E1; reflexivity|]. split; [|exact E3].
    cbn [rev] in E2. rewrite <- app_assoc in E2. exact E2.
Qed.

Lemma lex_text_sound n : forall s acc v r, (length s <= n)%nat -> lex_text None acc s = Some (v, r) ->
  exists body v', s = body ++ r /\ v = rev acc ++ v' /\ chardata_spells v' body /\ markup_or_end r.
Proof.
  assert (Nil : forall acc v r, lex_text None acc [] = Some (v, r) ->
            exists body v', [] = body ++ r /\ v = rev acc ++ v' /\ chardata_spells v' body /\ markup_or_end r).
  { intros acc v r H. cbn [lex_text] in H. inversion H; subst. exists [], []. rewrite !app_nil_r.
    split; [reflexivity|]. split; [reflexivity|]. split; [constructor | exact I]. }
  induction n as [|n IH]; intros s acc v r Hn H.
  - destruct s; [apply Nil; exact H | cbn in Hn; lia].
  - destruct s as [|c s1]; [apply Nil; exact H|]. cbn [length] in Hn. cbn [lex_text] in H.
    destruct (c =? 60) eqn:E60.
    { inversion H; subst. exists [], []. rewrite !app_nil_r.
      split; [reflexivity|]. split; [reflexivity|]. split; [constructor | cbn; lia]. }
    destruct (c =? 38) eqn:E38.
    { apply N.eqb_eq in E38. subst c. apply lex_text_ref in H. destruct H as [m [s' [cp [E1 [E2 E3]]]]].
      cbn [rev app] in E2.
      assert (Hl : (length s' <= n)%nat). { rewrite E1, app_length in Hn. cbn [length] in Hn. lia. }
      destruct (IH s' (cp :: acc) v r Hl E3) as [body [v' [B1 [B2 B3]]]].
      exists ((38 :: m ++ [59]) ++ body), (cp :: v'). split.
      - rewrite E1, B1. cbn [app]. rewrite <- !app_assoc. reflexivity.
      - split; [rewrite B2; cbn [rev]; rewrite <- app_assoc; reflexivity|].
        split; [|exact (proj2 B3)]. apply cd_ref; [apply rs_ref; exact E2 | exact (proj1 B3)]. }
    destruct ((c =? 93) && starts [93; 62] s1) eqn:E93; [discriminate|].
    destruct (xml_char c) eqn:Ex; [|discriminate].
    destruct (IH s1 (c :: acc) v r ltac:(lia) H) as [body [v' [B1 [B2 [B3 B4]]]]].
    exists (c :: body), (c :: v'). split; [rewrite B1; reflexivity|].
    split; [rewrite B2; cbn [rev]; rewrite <- app_assoc; reflexivity|].
    split; [|exact B4]. apply cd_lit; [exact Ex | lia | lia | | exact B3].
    intros E. subst c. change (93 =? 93) with true in E93. cbn [andb] in E93.
    destruct (starts [93; 62] body) eqn:Eb; [|reflexivity].
    rewrite B1, (starts_app _ _ r Eb) in E93. discriminate.
Qed.

(* ================================================================== attribute values: the reader is sound *)

Lemma lex_attval_ref q s : forall ra acc v r, lex_attval q (Some ra) acc s = Some (v, r) ->
  exists m s' cp, s = m ++ 59 :: s' /\ decode_ref (rev ra ++ m) = Some cp /\ lex_attval q None (cp :: acc) s' = Some (v, r).
Proof.
  induction s as [|c s IH]; intros ra acc v r H; [discriminate|].
  cbn [lex_attval] in H. destruct (c =? 59) eqn:E.
  - apply N.eqb_eq in E. subst c. destruct (decode_ref (rev ra)) as [cp|] eqn:D; [|discriminate].
    exists [], s, cp. rewrite app_nil_r. split; [reflexivity|]. split; [exact D | exact H].
  - destruct (IH _ _ _ _ H) as [m [s' [cp [E1 [E2 E3]]]]]. exists (c :: m), s', cp.
    split; [rewrite E1; reflexivity|]. split; [|exact E3].
    cbn [rev] in E2. rewrite <- app_assoc in E2. exact E2.
Qed.

Lemma lex_attval_sound q n : forall s acc v r, (length s <= n)%nat -> lex_attval q None acc s = Some (v, r) ->
  exists body v', s = body ++ q :: r /\ v = rev acc ++ v' /\ attval_spells q v' body.
Proof.
  induction n as [|n IH]; intros s acc v r Hn H.
  - destruct s; [discriminate | cbn in Hn; lia].
  - destruct s as [|c s1]; [discriminate|]. cbn [length] in Hn. cbn [lex_attval] in H.
    destruct (c =? q) eqn:Eq.
    { apply N.eqb_eq in Eq. subst c. inversion H; subst. exists [], []. rewrite !app_nil_r.
      split; [reflexivity|]. split; [reflexivity | constructor]. }
    destruct (c =? 60) eqn:E60; [discriminate|].
    destruct (c =? 38) eqn:E38.
    { apply N.eqb_eq in E38. subst c. apply lex_attval_ref in H. destruct H as [m [s' [cp [E1 [E2 E3]]]]].
      cbn [rev app] in E2.
      assert (Hl : (length s' <= n)%nat). { rewrite E1, app_length in Hn. cbn [length] in Hn. lia. }
      destruct (IH s' (cp :: acc) v r Hl E3) as [body [v' [B1 [B2 B3]]]].
      exists ((38 :: m ++ [59]) ++ body), (cp :: v'). split.
      - rewrite E1, B1. cbn [app]. rewrite <- !app_assoc. reflexivity.
      - split; [rewrite B2; cbn [rev]; rewrite <- app_assoc; reflexivity|].
        apply av_ref; [apply rs_ref; exact E2 | exact B3]. }
    destruct (is_xws c) eqn:Ew.
    { destruct (IH s1 (32 :: acc) v r ltac:(lia) H) as [body [v' [B1 [B2 B3]]]].
      exists (c :: body), (32 :: v'). split; [rewrite B1; reflexivity|].
      split; [rewrite B2; cbn [rev]; rewrite <- app_assoc; reflexivity|].
      apply av_ws; [exact Ew | lia | exact B3]. }
    destruct (xml_char c) eqn:Ex; [|discriminate].
    destruct (IH s1 (c :: acc) v r ltac:(lia) H) as [body [v' [B1 [B2 B3]]]].
    exists (c :: body), (c :: v'). split; [rewrite B1; reflexivity|].
    split; [rewrite B2; cbn [rev]; rewrite <- app_assoc; reflexivity|].
    apply av_lit; [exact Ex | lia | lia | lia | exact Ew | exact B3].
Qed.

(* ================================================================== attributes: the reader is sound *)

Lemma has_key_snoc k l n v : has_key k (l ++ [(n, v)]) = has_key k l || list_eqb k n.
Proof. unfold has_key. rewrite existsb_app. cbn [existsb fst]. rewrite orb_false_r. reflexivity. Qed.

Lemma has_key_rev k l : has_key k (rev l) = has_key k l.
Proof.
  induction l as [|[n v] l IH]; [reflexivity|]. cbn [rev]. rewrite has_key_snoc, IH.
  unfold has_key. cbn [existsb fst]. apply orb_comm.
Qed.

Lemma keys_distinct_snoc l n v : keys_distinct l = true -> has_key n l = false -> keys_distinct (l ++ [(n, v)]) = true.
Proof.
  induction l as [|[k w] l IH]; intros Hd Hk; [reflexivity|].
  cbn [app keys_distinct] in *. apply andb_true_iff in Hd. destruct Hd as [Hd1 Hd2].
  unfold has_key in Hk. cbn [existsb fst] in Hk. apply orb_false_iff in Hk. destruct Hk as [Hk1 Hk2].
  rewrite has_key_snoc, (list_eqb_sym k n), Hk1, orb_false_r, Hd1. cbn [andb]. apply IH; [exact Hd2 | exact Hk2].
Qed.

Definition end_text (e : tagend) : list N :=
  match e with EndTag => [62] | EndEmpty => [47; 62] | EndDecl => [63; 62] end.
Definition end_fits (decl : bool) (e : tagend) : Prop :=
  match e with EndDecl => decl = true | _ => decl = false end.

Lemma lex_attrs_sound f : forall decl s acc a e r,
  lex_attrs f decl s acc = Some (a, e, r) -> keys_distinct (rev acc) = true ->
  exists l ab, a = rev acc ++ l /\ s = ab ++ end_text e ++ r /\ attrs_spell l ab /\ end_fits decl e /\ keys_distinct a = true.
Proof.
  induction f as [|f IH]; intros decl s acc a e r H Hd; [discriminate|].
  cbn [lex_attrs] in H.
  destruct (span is_xws s) as [w s1] eqn:Es. destruct (span_split _ _ _ _ Es) as [Hs Hw]. clear Es. subst s.
  destruct s1 as [|c r0]; [discriminate|].
  assert (Done : forall e0, end_fits decl e0 -> c :: r0 = end_text e0 ++ r -> a = rev acc -> e = e0 ->
            exists l ab, a = rev acc ++ l /\ w ++ c :: r0 = ab ++ end_text e ++ r /\ attrs_spell l ab /\
                         end_fits decl e /\ keys_distinct a = true).
  { intros e0 Hf Ht Ha He. subst e a. exists [], w. rewrite app_nil_r, Ht.
    split; [reflexivity|]. split; [reflexivity|]. split; [apply as_nil; exact Hw|]. split; [exact Hf | exact Hd]. }
  destruct (negb decl && (c =? 62)) eqn:B1.
  { apply andb_true_iff in B1. destruct B1 as [Bd Bc]. apply negb_true_iff in Bd. apply N.eqb_eq in Bc. subst c.
    inversion H; subst. apply (Done EndTag); reflexivity. }
  destruct (negb decl && (c =? 47)) eqn:B2.
  { apply andb_true_iff in B2. destruct B2 as [Bd Bc]. apply negb_true_iff in Bd. apply N.eqb_eq in Bc. subst c.
    destruct r0 as [|c2 r2]; [discriminate|]. destruct (c2 =? 62) eqn:E2; [|discriminate].
    apply N.eqb_eq in E2. subst c2. inversion H; subst. apply (Done EndEmpty); reflexivity. }
  destruct (decl && (c =? 63)) eqn:B3.
  { apply andb_true_iff in B3. destruct B3 as [Bd Bc]. apply N.eqb_eq in Bc. subst c.
    destruct r0 as [|c2 r2]; [discriminate|]. destruct (c2 =? 62) eqn:E2; [|discriminate].
    apply N.eqb_eq in E2. subst c2. inversion H; subst. apply (Done EndDecl); reflexivity. }
  clear Done B1 B2 B3.
  destruct w as [|w0 w]; [discriminate|].
  destruct (lex_name (c :: r0)) as [[n r1]|] eqn:En; [|discriminate].
  destruct (lex_name_sound _ _ _ En) as [En1 Hn]. clear En.
  destruct (skip_ws_sound r1) as [w2 [E2 Hw2]]. destruct (skip_ws r1) as [|e1 r2]; [discriminate|].
  destruct (e1 =? 61) eqn:E61; [|discriminate]. apply N.eqb_eq in E61. subst e1.
  destruct (skip_ws_sound r2) as [w3 [E3 Hw3]]. destruct (skip_ws r2) as [|q r3]; [discriminate|].
  destruct ((q =? 34) || (q =? 39)) eqn:Eq; [|discriminate].
  destruct (lex_attval q None [] r3) as [[v r4]|] eqn:Ev; [|discriminate].
  destruct (lex_attval_sound q (length r3) r3 [] v r4 (le_n _) Ev) as [vb [v' [E4 [Ev' Hv]]]].
  cbn [rev app] in Ev'. subst v'. clear Ev.
  destruct (has_key n acc) eqn:Hk; [discriminate|].
  assert (Hd' : keys_distinct (rev ((n, v) :: acc)) = true).
  { cbn [rev]. apply keys_distinct_snoc; [exact Hd|]. rewrite has_key_rev. exact Hk. }
  destruct (IH _ _ _ _ _ _ H Hd') as [l [ab [Ea [E5 [Hsp [Hf Hda]]]]]].
  exists ((n, v) :: l), ((w0 :: w) ++ n ++ w2 ++ [61] ++ w3 ++ [q] ++ vb ++ [q] ++ ab).
  split; [rewrite Ea; cbn [rev]; rewrite <- app_assoc; reflexivity|].
  split.
  - rewrite En1, E2, E3, E4, E5. rewrite <- ?app_assoc. cbn [app]. rewrite <- ?app_assoc. cbn [app]. reflexivity.
  - split; [|split; [exact Hf | exact Hda]].
    apply as_cons; try assumption; [discriminate | lia].
Qed.

(* ================================================================== delimited text: the scanner is sound *)

Lemma scan_until_sound d s : forall a r, scan_until d s = Some (a, r) ->
  s = a ++ d ++ r /\ forallb xml_char a = true /\ free_of d a = true.
Proof.
  induction s as [|c s IH]; intros a r H; cbn [scan_until] in H.
  - destruct (strip_prefix d []) as [r0|] eqn:E; [|discriminate]. inversion H; subst.
    apply strip_prefix_split in E. split; [exact E | split; reflexivity].
  - destruct (strip_prefix d (c :: s)) as [r0|] eqn:E.
    { inversion H; subst. apply strip_prefix_split in E. split; [exact E | split; reflexivity]. }
    destruct (xml_char c) eqn:Ex; [|discriminate].
    destruct (scan_until d s) as [[a' r']|] eqn:Es; [|discriminate]. inversion H; subst. clear H.
    destruct (IH a' r eq_refl) as [E1 [E2 E3]]. subst s.
    split; [reflexivity|]. split; [cbn [forallb]; rewrite Ex, E2; reflexivity|].
    cbn [free_of]. rewrite E3, andb_true_r. apply negb_true_iff.
    destruct (starts d (c :: a' ++ d)) eqn:Est; [|reflexivity].
    apply (starts_app _ _ r) in Est. unfold starts in Est.
    change ((c :: a' ++ d) ++ r) with (c :: (a' ++ d) ++ r) in Est. rewrite <- app_assoc, E in Est. discriminate.
Qed.

(* ================================================================== the lexer is sound *)

Lemma xlcons_ok t r ts : xlcons t r = XLOk ts -> exists ts', r = XLOk ts' /\ ts = t :: ts'.
Proof. destruct r; cbn; intros H; try discriminate. inversion H. eexists; split; reflexivity. Qed.

Lemma xlex_sound fuel : forall s ts, xlex fuel s = XLOk ts -> xtext s ts.
Proof.
  induction fuel as [|f IH]; intros s ts H; [discriminate|].
  cbn [xlex] in H. destruct s as [|c r]; [inversion H; constructor|].
  destruct (c =? 60) eqn:E60.
  - apply N.eqb_eq in E60. subst c. destruct r as [|c1 r1]; [discriminate|].
    destruct (c1 =? 47) eqn:E47.
    { (* end tag *)
      apply N.eqb_eq in E47. subst c1.
      destruct (lex_name r1) as [[n r2]|] eqn:En; [|discriminate]. destruct (lex_name_sound _ _ _ En) as [En1 Hn].
      destruct (skip_ws_sound r2) as [w [Ew Hw]]. destruct (skip_ws r2) as [|e r3]; [discriminate|].
      destruct (e =? 62) eqn:E62; [|discriminate]. apply N.eqb_eq in E62. subst e.
      destruct (xlcons_ok _ _ _ H) as [ts' [H1 Hts]]. subst ts. rewrite En1, Ew.
      apply xt_close; [exact Hn | exact Hw | apply IH; exact H1]. }
    destruct (c1 =? 63) eqn:E63.
    { (* processing instruction *)
      apply N.eqb_eq in E63. subst c1.
      destruct (lex_name r1) as [[n r2]|] eqn:En; [|discriminate]. destruct (lex_name_sound _ _ _ En) as [En1 Hn].
      destruct (is_xml_target n) eqn:Et; [discriminate|].
      destruct r2 as [|c2 r2']; [discriminate|].
      destruct (is_xws c2 || starts [63; 62] (c2 :: r2')) eqn:Ec; [|discriminate].
      destruct (scan_until [63; 62] (c2 :: r2')) as [[t r3]|] eqn:Es; [|discriminate].
      destruct (scan_until_sound _ _ _ _ Es) as [Es1 [Hx Hfr]].
      rewrite En1, Es1. cbn [app]. apply xt_pi; [exact Hn | exact Et | | apply IH; exact H].
      destruct t as [|t0 t']; [left; reflexivity|]. right. exists t0, t'.
      cbn [app] in Es1. inversion Es1; subst t0. clear Es1.
      cbn [forallb] in Hx. apply andb_true_iff in Hx. cbn [free_of] in Hfr. apply andb_true_iff in Hfr.
      split; [reflexivity|]. split; [|split; [exact (proj2 Hx) | exact (proj2 Hfr)]].
      destruct (is_xws c2) eqn:Ew; [reflexivity|]. cbn [orb] in Ec. exfalso.
      unfold starts in Ec. destruct (strip_prefix [63; 62] (c2 :: r2')) as [z|] eqn:Ez; [|discriminate].
      cbn [scan_until] in Es. rewrite Ez in Es. discriminate. }
    destruct (c1 =? 33) eqn:E33.
    { apply N.eqb_eq in E33. subst c1.
      destruct (strip_prefix [45; 45] r1) as [r2|] eqn:Ep.
      - (* comment *)
        apply strip_prefix_split in Ep. subst r1.
        destruct (scan_until [45; 45] r2) as [[t [|e r3]]|] eqn:Es; try discriminate.
        destruct (e =? 62) eqn:E62; [|discriminate]. apply N.eqb_eq in E62. subst e.
        destruct (scan_until_sound _ _ _ _ Es) as [Es1 [Hx Hfr]]. rewrite Es1.
        apply (xt_comment t r3 ts Hx Hfr). apply IH. exact H.
      - (* CDATA section *)
        destruct (strip_prefix [91; 67; 68; 65; 84; 65; 91] r1) as [r2|] eqn:Ep2; [|discriminate].
        apply strip_prefix_split in Ep2. subst r1.
        destruct (scan_until [93; 93; 62] r2) as [[t r3]|] eqn:Es; [|discriminate].
        destruct (scan_until_sound _ _ _ _ Es) as [Es1 [Hx Hfr]]. rewrite Es1.
        destruct t as [|t0 t'].
        + apply (xt_cdata_empty r3 ts). apply IH. exact H.
        + destruct (xlcons_ok _ _ _ H) as [ts' [H1 Hts]]. subst ts.
          apply (xt_cdata (t0 :: t') r3 ts'); [discriminate | exact Hx | exact Hfr | apply IH; exact H1]. }
    (* start tag, empty-element tag *)
    destruct (lex_name (c1 :: r1)) as [[n r2]|] eqn:En; [|discriminate]. destruct (lex_name_sound _ _ _ En) as [En1 Hn].
    destruct (lex_attrs f false r2 []) as [[[a e] r3]|] eqn:Ea; [|discriminate].
    destruct (lex_attrs_sound _ _ _ _ _ _ _ Ea eq_refl) as [l [ab [Hl [Hr2 [Hsp [Hf Hd]]]]]].
    cbn [rev app] in Hl. subst l. rewrite En1, Hr2.
    destruct e; [| |discriminate]; destruct (xlcons_ok _ _ _ H) as [ts' [H1 Hts]]; subst ts; cbn [end_text app].
    + apply xt_open; [exact Hn | exact Hsp | exact Hd | apply IH; exact H1].
    + apply xt_empty; [exact Hn | exact Hsp | exact Hd | apply IH; exact H1].
  - (* character data *)
    destruct (lex_text None [] (c :: r)) as [[t r']|] eqn:Et; [|discriminate].
    destruct (xlcons_ok _ _ _ H) as [ts' [H1 Hts]]. subst ts.
    destruct (lex_text_sound (length (c :: r)) _ _ _ _ (le_n _) Et) as [body [v' [Eb [Ev [Hsp Hm]]]]].
    cbn [rev app] in Ev. subst v'. rewrite Eb.
    apply xt_chars; [exact Hsp | | exact Hm | apply IH; exact H1].
    intros ->. inversion Hsp; subst. cbn [app] in Eb. subst r'. cbn in Hm. lia.
Qed.

(* ================================================================== the tree builder is sound *)

Definition xb_sound_at f := forall ts x rest, xbuild f ts = BOk x rest ->
  exists toks, ts = toks ++ rest /\ xtoks x toks /\ is_text x = false.
Definition xc_sound_at f := forall ts acc ch n rest, xchildren f ts acc = COk ch n rest ->
  exists l toks, ch = rev acc ++ l /\ ts = toks ++ XClose n :: rest /\ xtoks_list l toks.

Lemma xb_step f : xc_sound_at f -> xb_sound_at (S f).
Proof.
  intros Hc ts x rest H. cbn [xbuild] in H. destruct ts as [|t r]; [discriminate|].
  destruct t as [n a|n a|n|s]; try discriminate.
  - destruct (xchildren f r []) as [ch n' r'| |] eqn:Ec; try discriminate.
    destruct (list_eqb n n') eqn:En; [|discriminate]. apply list_eqb_eq in En. subst n'.
    inversion H; subst. clear H.
    destruct (Hc _ _ _ _ _ Ec) as [l [toks [E1 [E2 E3]]]]. cbn [rev app] in E1. subst l.
    exists (XOpen n a :: toks ++ [XClose n]). split; [|split; [apply xk_elem; exact E3 | reflexivity]].
    rewrite E2. cbn [app]. rewrite <- app_assoc. reflexivity.
  - inversion H; subst. exists [XEmpty n a]. split; [reflexivity|]. split; [apply xk_empty | reflexivity].
Qed.

Lemma xc_step f : xb_sound_at f -> xc_sound_at f -> xc_sound_at (S f).
Proof.
  intros Hb Hc ts acc ch n rest H. cbn [xchildren] in H. destruct ts as [|t r]; [discriminate|].
  assert (Sub : forall x r', xbuild f (t :: r) = BOk x r' -> xchildren f r' (x :: acc) = COk ch n rest ->
            exists l toks, ch = rev acc ++ l /\ t :: r = toks ++ XClose n :: rest /\ xtoks_list l toks).
  { intros x r' Eb H'. destruct (Hb _ _ _ Eb) as [tk [E1 [E2 _]]].
    destruct (Hc _ _ _ _ _ H') as [l [toks [F1 [F2 F3]]]].
    exists (x :: l), (tk ++ toks). split; [rewrite F1; cbn [rev]; rewrite <- app_assoc; reflexivity|].
    split; [rewrite E1, F2, <- app_assoc; reflexivity | apply xkl_cons; assumption]. }
  destruct t as [n0 a|n0 a|n0|s].
  - destruct (xbuild f (XOpen n0 a :: r)) as [x r'| |] eqn:Eb; try discriminate. apply (Sub x r' eq_refl H).
  - destruct (xbuild f (XEmpty n0 a :: r)) as [x r'| |] eqn:Eb; try discriminate. apply (Sub x r' eq_refl H).
  - inversion H; subst. exists [], []. rewrite app_nil_r. split; [reflexivity|]. split; [reflexivity | constructor].
  - destruct (Hc _ _ _ _ _ H) as [l [toks [F1 [F2 F3]]]].
    exists (XText s :: l), ([XTxt s] ++ toks). split; [rewrite F1; cbn [rev]; rewrite <- app_assoc; reflexivity|].
    split; [rewrite F2; reflexivity | apply xkl_cons; [apply xk_text | exact F3]].
Qed.

Lemma xbuild_sound f : xb_sound_at f /\ xc_sound_at f.
Proof.
  induction f as [|f [Hb Hc]].
  - split; [intros ? ? ? H | intros ? ? ? ? ? H]; discriminate.
  - split; [apply xb_step; exact Hc | apply xc_step; assumption].
Qed.

(* ================================================================== the declaration *)

Lemma split_decl_sound s d s1 : split_decl s = Some (d, s1) ->
  exists decl, s = decl ++ s1 /\ (decl = [] \/ xmldecl_spells decl).
Proof.
  unfold split_decl. destruct (strip_prefix [60; 63; 120; 109; 108] s) as [r|] eqn:Ep.
  - destruct r as [|c r']; [discriminate|]. destruct (is_xws c).
    + destruct (lex_attrs (S (length (c :: r'))) true (c :: r') []) as [[[a e] r2]|] eqn:Ea; [|discriminate].
      destruct e; try discriminate. destruct (decl_ok a) eqn:Ed; [|discriminate]. intros H. inversion H; subst. clear H.
      destruct (lex_attrs_sound _ _ _ _ _ _ _ Ea eq_refl) as [l [ab [Hl [Hr [Hsp _]]]]].
      cbn [rev app] in Hl. subst l. apply strip_prefix_split in Ep.
      exists ([60; 63; 120; 109; 108] ++ ab ++ [63; 62]). split; [|right; apply (xd_decl a ab Hsp Ed)].
      rewrite Ep, Hr. cbn [end_text]. rewrite <- !app_assoc. reflexivity.
    + intros H. inversion H; subst. exists []. split; [reflexivity | left; reflexivity].
  - intros H. inversion H; subst. exists []. split; [reflexivity | left; reflexivity].
Qed.

(* ================================================================== accepted texts are texts of the subset *)

Lemma drop_ws_split l : exists pre, l = pre ++ drop_ws_txt l /\ misc_ws pre.
Proof.
  destruct l as [|t r]; [exists []; split; [reflexivity | left; reflexivity]|].
  destruct t as [n a|n a|n|s]; try (exists []; split; [reflexivity | left; reflexivity]).
  cbn [drop_ws_txt]. destruct (ws_only s) eqn:E.
  - exists [XTxt s]. split; [reflexivity|]. right. exists s. split; [reflexivity | exact E].
  - exists []. split; [reflexivity | left; reflexivity].
Qed.

(* Every text the reference parser accepts is, after end-of-line normalisation, a text of the subset that denotes
   the tree the parser returns. *)
Theorem xml_cps_sound : forall s0 x, xml_parse_cps s0 = XOk x -> xrenders (norm_eol s0) x.
Proof.
  intros s0 x. unfold xml_parse_cps. cbv zeta.
  destruct (split_decl (norm_eol s0)) as [[d s1]|] eqn:Ed; [|discriminate].
  destruct (xlex (S (length s1)) s1) as [ts| |] eqn:El; try discriminate.
  destruct (xbuild (2 * length (drop_ws_txt (merge_txt ts)) + 2) (drop_ws_txt (merge_txt ts))) as [root rest| |] eqn:Eb;
    try discriminate.
  destruct (drop_ws_txt rest) as [|t0 r0] eqn:Er; [|discriminate]. intros H. inversion H; subst root. clear H.
  destruct (split_decl_sound _ _ _ Ed) as [decl [Es Hdecl]].
  destruct (proj1 (xbuild_sound _) _ _ _ Eb) as [toks [Et [Hx Hel]]].
  destruct (drop_ws_split (merge_txt ts)) as [pre [Epre Hpre]].
  destruct (drop_ws_split rest) as [post [Epost Hpost]]. rewrite Er, app_nil_r in Epost. subst post.
  exists decl, s1, ts, pre, toks, rest.
  split; [exact Es|]. split; [exact Hdecl|]. split; [apply (xlex_sound _ _ _ El)|].
  split; [rewrite Epre at 1; rewrite Et; reflexivity|]. repeat split; assumption.
Qed.

(* ================================================================== the free choices, by example *)

(* a declaration with an encoding, CR LF line ends, a comment, a processing instruction, an attribute in single
   quotes with white space around the equals sign and a tab in its value, a decimal and a hexadecimal character
   reference, an empty-element tag, an entity reference, a CDATA section, white space in the end tag:
     <?xml version=[dq]1.0[dq] encoding='UTF-8'?>[CR][LF]
     <!-- c --><?pi data?><a k = 'v[TAB]1' j=[dq]&#65;&#x42;[dq]><b/>x&lt;<![CDATA[<y>]]></a >[CR][LF] *)
Example xrenders_example :
  xrenders (norm_eol
    [60; 63; 120; 109; 108; 32; 118; 101; 114; 115; 105; 111; 110; 61; 34; 49; 46; 48; 34; 32; 101; 110; 99; 111;
     100; 105; 110; 103; 61; 39; 85; 84; 70; 45; 56; 39; 63; 62; 13; 10; 60; 33; 45; 45; 32; 99; 32; 45; 45; 62;
     60; 63; 112; 105; 32; 100; 97; 116; 97; 63; 62; 60; 97; 32; 107; 32; 61; 32; 39; 118; 9; 49; 39; 32; 106; 61;
     34; 38; 35; 54; 53; 59; 38; 35; 120; 52; 50; 59; 34; 62; 60; 98; 47; 62; 120; 38; 108; 116; 59; 60; 33; 91;
     67; 68; 65; 84; 65; 91; 60; 121; 62; 93; 93; 62; 60; 47; 97; 32; 62; 13; 10])
    (XElem [97] [([107], [118; 32; 49]); ([106], [65; 66])] [XElem [98] [] []; XText [120; 60; 60; 121; 62]]).
Proof. apply xml_cps_sound. vm_compute. reflexivity. Qed.

Print Assumptions xml_cps_sound.
Print Assumptions xrenders_example.
