(* JxXmlSound.v — the reference XML parser of JxXmlSpec accepts exactly the XML 1.0 texts of the subset, and returns
   the tree the text denotes.  The texts are described generatively, production by production: how character data,
   attribute values, tags, CDATA sections, comments, processing instructions and the XML declaration are spelled, with
   every free choice the recommendation leaves (references or literal characters, either quote, white space inside
   tags, comments and processing instructions anywhere, empty-element tags).  The description mentions none of the
   parsing functions; it uses only the character classes, the table of references (decode_ref), Name (name_ok), the
   checks on the declaration (decl_ok) and the merging of adjacent character data (merge_txt) of JxXmlSpec.
   Proved: whatever is accepted is such a text of the returned tree (xml_cps_sound); every such text is accepted with
   that tree (xml_cps_complete); the trees are well-formed DOMs (xrenders_wf).
   Two places were tightened to the letter of the recommendation (an earlier version of the parser was wider there):
   outside the document element the text consists of literal white space, comments and processing instructions only
   (Misc, production 27) - the relation xtext carries the number of open elements, and character data, references and
   CDATA sections (an empty one too) need an open element; the values of the pseudo-attributes of the XML declaration
   are literal (declval_spells: the raw text between the quotes, no references).  The last section shows, by example,
   that the texts which used to be accepted at these places are rejected now. *)
From BS Require Import Base UtfSpec UtfModel JxJsonSpec JxJsonProofs JxXmlSpec JxXmlProofs.
From Coq Require Import ZifyBool ZifyN ZifyNat.
Local Open Scope N_scope.
Ltac Zify.zify_post_hook ::= Z.div_mod_to_equations.

(* ================================================================== the texts of the subset (XML 1.0, 5th edition) *)

(* Reference ::= EntityRef | CharRef  (productions 66-68): an ampersand, the name of a predefined entity or a number
   sign and decimal digits or a number sign, x and hexadecimal digits (none of which contains a semicolon), then a
   semicolon.  decode_ref is the table of 4.6 and the value of a character reference, which must be a Char (WFC:
   Legal Character). *)
Inductive ref_spells : N -> list N -> Prop :=
| rs_ref n c : ~ In 59 n -> decode_ref n = Some c -> ref_spells c (38 :: n ++ [59]).

(* character data and references up to the next markup (productions 14, 43): a character of the value is written
   literally (any Char but less-than and ampersand; the literal text must not contain the CDATA-section-close
   delimiter: a right bracket is not followed by right bracket, greater-than) or as a reference *)
Inductive chardata_spells : list N -> list N -> Prop :=
| cd_nil : chardata_spells [] []
| cd_lit c v body : xml_char c = true -> c <> 60 -> c <> 38 -> (c = 93 -> starts [93; 62] body = false) ->
    chardata_spells v body -> chardata_spells (c :: v) (c :: body)
| cd_ref c p v body : ref_spells c p -> chardata_spells v body -> chardata_spells (c :: v) (p ++ body).

(* AttValue between quotes q (production 10) and its normalised value (3.3.3): a literal character is any Char but
   the quote, less-than and ampersand; literal white space becomes a space; a referenced character is kept as it is *)
Inductive attval_spells (q : N) : list N -> list N -> Prop :=
| av_nil : attval_spells q [] []
| av_lit c v body : xml_char c = true -> c <> q -> c <> 60 -> c <> 38 -> is_xws c = false ->
    attval_spells q v body -> attval_spells q (c :: v) (c :: body)
| av_ws c v body : is_xws c = true -> c <> q -> attval_spells q v body -> attval_spells q (32 :: v) (c :: body)
| av_ref c p v body : ref_spells c p -> attval_spells q v body -> attval_spells q (c :: v) (p ++ body).

(* the value of a pseudo-attribute of the XML declaration between quotes q (productions 24, 26, 32, 80, 81): the
   literal text between the quotes, which does not contain the quote; nothing is expanded or normalised *)
Inductive declval_spells (q : N) : list N -> list N -> Prop :=
| dv_lit v : ~ In q v -> declval_spells q v v.

(* (S Name Eq Value)* S?  with  Eq ::= S? '=' S?  (production 25) and the value between either quote, spelled as V
   says *)
Inductive attrs_spell_with (V : N -> list N -> list N -> Prop) : list (list N * list N) -> list N -> Prop :=
| as_nil w : ws_only w = true -> attrs_spell_with V [] w
| as_cons n v a w1 w2 w3 q vb body :
    w1 <> [] -> ws_only w1 = true -> name_ok n = true -> ws_only w2 = true -> ws_only w3 = true ->
    q = 34 \/ q = 39 -> V q v vb -> attrs_spell_with V a body ->
    attrs_spell_with V ((n, v) :: a) (w1 ++ n ++ w2 ++ [61] ++ w3 ++ [q] ++ vb ++ [q] ++ body).

(* (S Attribute)* S?  with  Attribute ::= Name Eq AttValue  (productions 40, 41) *)
Definition attrs_spell := attrs_spell_with attval_spells.

(* the pseudo-attributes of the XML declaration: (S Name Eq literal value)* S? *)
Definition declattrs_spell := attrs_spell_with declval_spells.

(* t is closed by the delimiter d: in t followed by d, no occurrence of d begins inside t.  For the delimiters of
   CDATA sections and processing instructions this says that t does not contain d; for the two hyphens that close
   the text of a comment it says that t contains no two adjacent hyphens and does not end with a hyphen. *)
Fixpoint free_of (d t : list N) : bool :=
  match t with
  | [] => true
  | c :: t' => negb (starts d (c :: t' ++ d)) && free_of d t'
  end.

(* what follows character data: markup, or nothing *)
Definition markup_or_end (s : list N) : Prop := match s with [] => True | c :: _ => c = 60 end.

(* the content of a processing instruction after its target (production 16): nothing, or white space and then any
   characters not containing the closing delimiter *)
Definition pi_data (t : list N) : Prop :=
  t = [] \/ exists w t', t = w :: t' /\ is_xws w = true /\ forallb xml_char t' = true /\ free_of [63; 62] t' = true.

(* a text, read with d elements open, and the tokens it consists of.  Outside the document element (d = 0) there is
   Misc only (production 27): literal white space (production 3, taken as a whole: what follows it is markup or the
   end), comments and processing instructions; character data, references and CDATA sections need an open element. *)
Inductive xtext : nat -> list N -> list xtok -> Prop :=
| xt_nil d : xtext d [] []
(* S ::= (#x20 | #x9 | #xD | #xA)+  outside the document element: no token *)
| xt_ws w s ts : w <> [] -> ws_only w = true -> markup_or_end s -> xtext 0 s ts -> xtext 0 (w ++ s) ts
(* STag ::= '<' Name (S Attribute)* S? '>'   (WFC: Unique Att Spec) *)
| xt_open d n a ab s ts : name_ok n = true -> attrs_spell a ab -> keys_distinct a = true -> xtext (S d) s ts ->
    xtext d (60 :: n ++ ab ++ 62 :: s) (XOpen n a :: ts)
(* EmptyElemTag ::= '<' Name (S Attribute)* S? '/>' *)
| xt_empty d n a ab s ts : name_ok n = true -> attrs_spell a ab -> keys_distinct a = true -> xtext d s ts ->
    xtext d (60 :: n ++ ab ++ 47 :: 62 :: s) (XEmpty n a :: ts)
(* ETag ::= '</' Name S? '>' *)
| xt_close d n w s ts : name_ok n = true -> ws_only w = true -> xtext d s ts ->
    xtext (S d) (60 :: 47 :: n ++ w ++ 62 :: s) (XClose n :: ts)
(* CharData and References, up to the next markup *)
| xt_chars d v body s ts : chardata_spells v body -> v <> [] -> markup_or_end s -> xtext (S d) s ts ->
    xtext (S d) (body ++ s) (XTxt v :: ts)
(* CDSect ::= '<![CDATA[' CData ']]>' *)
| xt_cdata d t s ts : t <> [] -> forallb xml_char t = true -> free_of [93; 93; 62] t = true -> xtext (S d) s ts ->
    xtext (S d) ([60; 33; 91; 67; 68; 65; 84; 65; 91] ++ t ++ [93; 93; 62] ++ s) (XTxt t :: ts)
| xt_cdata_empty d s ts : xtext (S d) s ts ->
    xtext (S d) ([60; 33; 91; 67; 68; 65; 84; 65; 91; 93; 93; 62] ++ s) ts
(* Comment ::= '<!--' ((Char - '-') | ('-' (Char - '-')))* '-->' *)
| xt_comment d t s ts : forallb xml_char t = true -> free_of [45; 45] t = true -> xtext d s ts ->
    xtext d ([60; 33; 45; 45] ++ t ++ [45; 45; 62] ++ s) ts
(* PI ::= '<?' PITarget (S Chars)? '?>'  where Chars does not contain '?>' and PITarget is any Name but xml (in any
   case of the letters) *)
| xt_pi d n t s ts : name_ok n = true -> is_xml_target n = false -> pi_data t -> xtext d s ts ->
    xtext d (60 :: 63 :: n ++ t ++ 63 :: 62 :: s) ts.

(* XMLDecl ::= '<?xml' VersionInfo EncodingDecl? SDDecl? S? '?>'  (productions 23-26, 32, 80, 81): the
   pseudo-attributes with their literal values, and decl_ok demands version, encoding, standalone in this order
   with their legal values (VersionNum, EncName, yes or no) *)
Inductive xmldecl_spells : list N -> Prop :=
| xd_decl a ab : declattrs_spell a ab -> decl_ok a = true -> xmldecl_spells ([60; 63; 120; 109; 108] ++ ab ++ [63; 62]).

(* element ::= EmptyElemTag | STag content ETag  (production 39; WFC: Element Type Match) *)
Inductive xtoks : xnode -> list xtok -> Prop :=
| xk_text s : xtoks (XText s) [XTxt s]
| xk_empty n a : xtoks (XElem n a []) [XEmpty n a]
| xk_elem n a ch l : xtoks_list ch l -> xtoks (XElem n a ch) (XOpen n a :: l ++ [XClose n])
with xtoks_list : list xnode -> list xtok -> Prop :=
| xkl_nil : xtoks_list [] []
| xkl_cons x ch t l : xtoks x t -> xtoks_list ch l -> xtoks_list (x :: ch) (t ++ l).

(* document ::= prolog element Misc*  (production 1): an optional declaration, then a text (no element open at its
   beginning) whose tokens, adjacent character data merged, are those of the root element *)
Definition xrenders (s : list N) (x : xnode) : Prop :=
  exists decl body ts toks,
    s = decl ++ body /\ (decl = [] \/ xmldecl_spells decl) /\
    xtext 0 body ts /\
    merge_txt ts = toks /\
    xtoks x toks /\ is_text x = false.

(* ================================================================== small facts *)

Lemma strip_prefix_split p : forall s r, strip_prefix p s = Some r -> s = p ++ r.
Proof.
  induction p as [|a p IH]; intros s r H; cbn [strip_prefix] in H.
  - inversion H. reflexivity.
  - destruct s as [|b s]; [discriminate|]. destruct (a =? b) eqn:E; [|discriminate].
    apply N.eqb_eq in E. subst b. cbn [app]. f_equal. apply IH. exact H.
Qed.

Lemma starts_app p u y : starts p u = true -> starts p (u ++ y) = true.
Proof.
  unfold starts. destruct (strip_prefix p u) as [z|] eqn:E; [|discriminate]. intros _.
  apply strip_prefix_split in E. subst u. rewrite <- app_assoc, strip_prefix_app. reflexivity.
Qed.

Lemma list_eqb_eq a : forall b, list_eqb a b = true -> a = b.
Proof.
  induction a as [|x a IH]; intros [|y b] H; cbn [list_eqb] in H; try discriminate; [reflexivity|].
  apply andb_true_iff in H. destruct H as [H1 H2]. apply N.eqb_eq in H1. subst y. f_equal. apply IH. exact H2.
Qed.

Lemma lex_name_sound s n r : lex_name s = Some (n, r) -> s = n ++ r /\ name_ok n = true.
Proof.
  destruct s as [|c s]; cbn [lex_name]; [discriminate|]. destruct (name_start c) eqn:E; [|discriminate].
  destruct (span name_char s) as [a r'] eqn:Es. intros H. inversion H; subst.
  destruct (span_split _ _ _ _ Es) as [-> Ha]. split; [reflexivity|].
  unfold name_ok. cbn [lex_name]. rewrite E.
  pose proof (span_app name_char a [] Ha I) as Hs. rewrite app_nil_r in Hs. rewrite Hs. reflexivity.
Qed.

Lemma skip_ws_sound s : exists w, s = w ++ skip_ws s /\ ws_only w = true.
Proof.
  unfold skip_ws. destruct (span is_xws s) as [w r] eqn:E. destruct (span_split _ _ _ _ E) as [-> Hw].
  exists w. split; [reflexivity | exact Hw].
Qed.

Lemma span_stop p s : forall a r, span p s = (a, r) -> stopsp p r.
Proof.
  induction s as [|c s IH]; intros a r H; cbn [span] in H.
  - inversion H. exact I.
  - destruct (p c) eqn:E.
    + destruct (span p s) as [a' r'] eqn:Es. inversion H; subst. exact (IH a' r eq_refl).
    + inversion H; subst. exact E.
Qed.

Lemma notin_forallb q v : forallb (fun c => negb (c =? q)) v = true <-> ~ In q v.
Proof.
  induction v as [|c v IH]; cbn [forallb In]; [split; [intros _ [] | reflexivity]|].
  rewrite andb_true_iff, IH. split.
  - intros [H1 H2] [E|E]; [subst c; rewrite N.eqb_refl in H1; discriminate | exact (H2 E)].
  - intros H. split; [|intros E; apply H; right; exact E].
    destruct (c =? q) eqn:E; [|reflexivity]. exfalso. apply H. left. apply N.eqb_eq. exact E.
Qed.

(* ================================================================== character data: the reader is sound *)

(* inside a reference the reader runs to the first semicolon *)
Lemma lex_text_ref s : forall ra acc v r, lex_text (Some ra) acc s = Some (v, r) ->
  exists m s' cp, s = m ++ 59 :: s' /\ ~ In 59 m /\ decode_ref (rev ra ++ m) = Some cp /\
                  lex_text None (cp :: acc) s' = Some (v, r).
Proof.
  induction s as [|c s IH]; intros ra acc v r H; [discriminate|].
  cbn [lex_text] in H. destruct (c =? 59) eqn:E.
  - apply N.eqb_eq in E. subst c. destruct (decode_ref (rev ra)) as [cp|] eqn:D; [|discriminate].
    exists [], s, cp. rewrite app_nil_r. split; [reflexivity|]. split; [intros []|]. split; [exact D | exact H].
  - destruct (IH _ _ _ _ H) as [m [s' [cp [E1 [E0 [E2 E3]]]]]]. exists (c :: m), s', cp.
    split; [rewrite E1; reflexivity|]. split; [intros [Hc|Hc]; [lia | exact (E0 Hc)]|]. split; [|exact E3].
    cbn [rev] in E2. rewrite <- app_assoc in E2. exact E2.
Qed.

Lemma lex_text_sound n : forall s acc v r, (length s <= n)%nat -> lex_text None acc s = Some (v, r) ->
  exists body v', s = body ++ r /\ v = rev acc ++ v' /\ chardata_spells v' body /\ markup_or_end r.
Proof.
  assert (Nil : forall acc v r, lex_text None acc [] = Some (v, r) ->
            exists body v', [] = body ++ r /\ v = rev acc ++ v' /\ chardata_spells v' body /\ markup_or_end r).
  { intros acc v r H. cbn [lex_text] in H. inversion H; subst. exists [], []. rewrite !app_nil_r.
    split; [reflexivity|]. split; [reflexivity|]. split; [constructor | exact I]. }
  induction n as [|n IH]; intros s acc v r Hn H.
  - destruct s; [apply Nil; exact H | cbn in Hn; lia].
  - destruct s as [|c s1]; [apply Nil; exact H|]. cbn [length] in Hn. cbn [lex_text] in H.
    destruct (c =? 60) eqn:E60.
    { inversion H; subst. exists [], []. rewrite !app_nil_r.
      split; [reflexivity|]. split; [reflexivity|]. split; [constructor | cbn; lia]. }
    destruct (c =? 38) eqn:E38.
    { apply N.eqb_eq in E38. subst c. apply lex_text_ref in H. destruct H as [m [s' [cp [E1 [E0 [E2 E3]]]]]].
      cbn [rev app] in E2.
      assert (Hl : (length s' <= n)%nat). { rewrite E1, app_length in Hn. cbn [length] in Hn. lia. }
      destruct (IH s' (cp :: acc) v r Hl E3) as [body [v' [B1 [B2 B3]]]].
      exists ((38 :: m ++ [59]) ++ body), (cp :: v'). split.
      - rewrite E1, B1. cbn [app]. rewrite <- !app_assoc. reflexivity.
      - split; [rewrite B2; cbn [rev]; rewrite <- app_assoc; reflexivity|].
        split; [|exact (proj2 B3)]. apply cd_ref; [apply rs_ref; [exact E0 | exact E2] | exact (proj1 B3)]. }
    destruct ((c =? 93) && starts [93; 62] s1) eqn:E93; [discriminate|].
    destruct (xml_char c) eqn:Ex; [|discriminate].
    destruct (IH s1 (c :: acc) v r ltac:(lia) H) as [body [v' [B1 [B2 [B3 B4]]]]].
    exists (c :: body), (c :: v'). split; [rewrite B1; reflexivity|].
    split; [rewrite B2; cbn [rev]; rewrite <- app_assoc; reflexivity|].
    split; [|exact B4]. apply cd_lit; [exact Ex | lia | lia | | exact B3].
    intros E. subst c. change (93 =? 93) with true in E93. cbn [andb] in E93.
    destruct (starts [93; 62] body) eqn:Eb; [|reflexivity].
    rewrite B1, (starts_app _ _ r Eb) in E93. discriminate.
Qed.

(* ================================================================== attribute values: the reader is sound *)

Lemma lex_attval_ref q s : forall ra acc v r, lex_attval q (Some ra) acc s = Some (v, r) ->
  exists m s' cp, s = m ++ 59 :: s' /\ ~ In 59 m /\ decode_ref (rev ra ++ m) = Some cp /\
                  lex_attval q None (cp :: acc) s' = Some (v, r).
Proof.
  induction s as [|c s IH]; intros ra acc v r H; [discriminate|].
  cbn [lex_attval] in H. destruct (c =? 59) eqn:E.
  - apply N.eqb_eq in E. subst c. destruct (decode_ref (rev ra)) as [cp|] eqn:D; [|discriminate].
    exists [], s, cp. rewrite app_nil_r. split; [reflexivity|]. split; [intros []|]. split; [exact D | exact H].
  - destruct (IH _ _ _ _ H) as [m [s' [cp [E1 [E0 [E2 E3]]]]]]. exists (c :: m), s', cp.
    split; [rewrite E1; reflexivity|]. split; [intros [Hc|Hc]; [lia | exact (E0 Hc)]|]. split; [|exact E3].
    cbn [rev] in E2. rewrite <- app_assoc in E2. exact E2.
Qed.

Lemma lex_attval_sound q n : forall s acc v r, (length s <= n)%nat -> lex_attval q None acc s = Some (v, r) ->
  exists body v', s = body ++ q :: r /\ v = rev acc ++ v' /\ attval_spells q v' body.
Proof.
  induction n as [|n IH]; intros s acc v r Hn H.
  - destruct s; [discriminate | cbn in Hn; lia].
  - destruct s as [|c s1]; [discriminate|]. cbn [length] in Hn. cbn [lex_attval] in H.
    destruct (c =? q) eqn:Eq.
    { apply N.eqb_eq in Eq. subst c. inversion H; subst. exists [], []. rewrite !app_nil_r.
      split; [reflexivity|]. split; [reflexivity | constructor]. }
    destruct (c =? 60) eqn:E60; [discriminate|].
    destruct (c =? 38) eqn:E38.
    { apply N.eqb_eq in E38. subst c. apply lex_attval_ref in H. destruct H as [m [s' [cp [E1 [E0 [E2 E3]]]]]].
      cbn [rev app] in E2.
      assert (Hl : (length s' <= n)%nat). { rewrite E1, app_length in Hn. cbn [length] in Hn. lia. }
      destruct (IH s' (cp :: acc) v r Hl E3) as [body [v' [B1 [B2 B3]]]].
      exists ((38 :: m ++ [59]) ++ body), (cp :: v'). split.
      - rewrite E1, B1. cbn [app]. rewrite <- !app_assoc. reflexivity.
      - split; [rewrite B2; cbn [rev]; rewrite <- app_assoc; reflexivity|].
        apply av_ref; [apply rs_ref; [exact E0 | exact E2] | exact B3]. }
    destruct (is_xws c) eqn:Ew.
    { destruct (IH s1 (32 :: acc) v r ltac:(lia) H) as [body [v' [B1 [B2 B3]]]].
      exists (c :: body), (32 :: v'). split; [rewrite B1; reflexivity|].
      split; [rewrite B2; cbn [rev]; rewrite <- app_assoc; reflexivity|].
      apply av_ws; [exact Ew | lia | exact B3]. }
    destruct (xml_char c) eqn:Ex; [|discriminate].
    destruct (IH s1 (c :: acc) v r ltac:(lia) H) as [body [v' [B1 [B2 B3]]]].
    exists (c :: body), (c :: v'). split; [rewrite B1; reflexivity|].
    split; [rewrite B2; cbn [rev]; rewrite <- app_assoc; reflexivity|].
    apply av_lit; [exact Ex | lia | lia | lia | exact Ew | exact B3].
Qed.

(* ================================================================== attributes: the reader is sound *)

Lemma has_key_snoc k l n v : has_key k (l ++ [(n, v)]) = has_key k l || list_eqb k n.
Proof. unfold has_key. rewrite existsb_app. cbn [existsb fst]. rewrite orb_false_r. reflexivity. Qed.

Lemma has_key_rev k l : has_key k (rev l) = has_key k l.
Proof.
  induction l as [|[n v] l IH]; [reflexivity|]. cbn [rev]. rewrite has_key_snoc, IH.
  unfold has_key. cbn [existsb fst]. apply orb_comm.
Qed.

Lemma keys_distinct_snoc l n v : keys_distinct l = true -> has_key n l = false -> keys_distinct (l ++ [(n, v)]) = true.
Proof.
  induction l as [|[k w] l IH]; intros Hd Hk; [reflexivity|].
  cbn [app keys_distinct] in *. apply andb_true_iff in Hd. destruct Hd as [Hd1 Hd2].
  unfold has_key in Hk. cbn [existsb fst] in Hk. apply orb_false_iff in Hk. destruct Hk as [Hk1 Hk2].
  rewrite has_key_snoc, (list_eqb_sym k n), Hk1, orb_false_r, Hd1. cbn [andb]. apply IH; [exact Hd2 | exact Hk2].
Qed.

Definition end_text (e : tagend) : list N :=
  match e with EndTag => [62] | EndEmpty => [47; 62] | EndDecl => [63; 62] end.
Definition end_fits (decl : bool) (e : tagend) : Prop :=
  match e with EndDecl => decl = true | _ => decl = false end.

(* the values are read as attribute values in a tag and as literal text in the declaration *)
Definition val_spells (decl : bool) : N -> list N -> list N -> Prop := if decl then declval_spells else attval_spells.

Lemma lex_declval_sound q s v r : lex_declval q s = Some (v, r) -> s = v ++ q :: r /\ declval_spells q v v.
Proof.
  unfold lex_declval. destruct (span (fun c => negb (c =? q)) s) as [a r0] eqn:E.
  destruct (span_split _ _ _ _ E) as [-> Ha]. apply span_stop in E.
  destruct r0 as [|c r']; [discriminate|]. intros H. inversion H; subst. cbn in E. apply negb_false_iff, N.eqb_eq in E.
  subst c. split; [reflexivity|]. apply dv_lit. apply notin_forallb. exact Ha.
Qed.

Lemma lex_attrs_sound f : forall decl s acc a e r,
  lex_attrs f decl s acc = Some (a, e, r) -> keys_distinct (rev acc) = true ->
  exists l ab, a = rev acc ++ l /\ s = ab ++ end_text e ++ r /\ attrs_spell_with (val_spells decl) l ab /\
               end_fits decl e /\ keys_distinct a = true.
Proof.
  induction f as [|f IH]; intros decl s acc a e r H Hd; [discriminate|].
  cbn [lex_attrs] in H.
  destruct (span is_xws s) as [w s1] eqn:Es. destruct (span_split _ _ _ _ Es) as [Hs Hw]. clear Es. subst s.
  destruct s1 as [|c r0]; [discriminate|].
  assert (Done : forall e0, end_fits decl e0 -> c :: r0 = end_text e0 ++ r -> a = rev acc -> e = e0 ->
            exists l ab, a = rev acc ++ l /\ w ++ c :: r0 = ab ++ end_text e ++ r /\
                         attrs_spell_with (val_spells decl) l ab /\ end_fits decl e /\ keys_distinct a = true).
  { intros e0 Hf Ht Ha He. subst e a. exists [], w. rewrite app_nil_r, Ht.
    split; [reflexivity|]. split; [reflexivity|]. split; [apply as_nil; exact Hw|]. split; [exact Hf | exact Hd]. }
  destruct (negb decl && (c =? 62)) eqn:B1.
  { apply andb_true_iff in B1. destruct B1 as [Bd Bc]. apply negb_true_iff in Bd. apply N.eqb_eq in Bc. subst c.
    inversion H; subst. apply (Done EndTag); reflexivity. }
  destruct (negb decl && (c =? 47)) eqn:B2.
  { apply andb_true_iff in B2. destruct B2 as [Bd Bc]. apply negb_true_iff in Bd. apply N.eqb_eq in Bc. subst c.
    destruct r0 as [|c2 r2]; [discriminate|]. destruct (c2 =? 62) eqn:E2; [|discriminate].
    apply N.eqb_eq in E2. subst c2. inversion H; subst. apply (Done EndEmpty); reflexivity. }
  destruct (decl && (c =? 63)) eqn:B3.
  { apply andb_true_iff in B3. destruct B3 as [Bd Bc]. apply N.eqb_eq in Bc. subst c.
    destruct r0 as [|c2 r2]; [discriminate|]. destruct (c2 =? 62) eqn:E2; [|discriminate].
    apply N.eqb_eq in E2. subst c2. inversion H; subst. apply (Done EndDecl); reflexivity. }
  clear Done B1 B2 B3.
  destruct w as [|w0 w]; [discriminate|].
  destruct (lex_name (c :: r0)) as [[n r1]|] eqn:En; [|discriminate].
  destruct (lex_name_sound _ _ _ En) as [En1 Hn]. clear En.
  destruct (skip_ws_sound r1) as [w2 [E2 Hw2]]. destruct (skip_ws r1) as [|e1 r2]; [discriminate|].
  destruct (e1 =? 61) eqn:E61; [|discriminate]. apply N.eqb_eq in E61. subst e1.
  destruct (skip_ws_sound r2) as [w3 [E3 Hw3]]. destruct (skip_ws r2) as [|q r3]; [discriminate|].
  destruct ((q =? 34) || (q =? 39)) eqn:Eq; [|discriminate].
  destruct (if decl then lex_declval q r3 else lex_attval q None [] r3) as [[v r4]|] eqn:Ev; [|discriminate].
  assert (Hv : exists vb, r3 = vb ++ q :: r4 /\ val_spells decl q v vb).
  { destruct decl; cbn [val_spells].
    - destruct (lex_declval_sound _ _ _ _ Ev) as [E4 Hv]. exists v. split; assumption.
    - destruct (lex_attval_sound q (length r3) r3 [] v r4 (le_n _) Ev) as [vb [v' [E4 [Ev' Hv]]]].
      cbn [rev app] in Ev'. subst v'. exists vb. split; assumption. }
  destruct Hv as [vb [E4 Hv]]. clear Ev.
  destruct (has_key n acc) eqn:Hk; [discriminate|].
  assert (Hd' : keys_distinct (rev ((n, v) :: acc)) = true).
  { cbn [rev]. apply keys_distinct_snoc; [exact Hd|]. rewrite has_key_rev. exact Hk. }
  destruct (IH _ _ _ _ _ _ H Hd') as [l [ab [Ea [E5 [Hsp [Hf Hda]]]]]].
  exists ((n, v) :: l), ((w0 :: w) ++ n ++ w2 ++ [61] ++ w3 ++ [q] ++ vb ++ [q] ++ ab).
  split; [rewrite Ea; cbn [rev]; rewrite <- app_assoc; reflexivity|].
  split.
  - rewrite En1, E2, E3, E4, E5. rewrite <- ?app_assoc. cbn [app]. rewrite <- ?app_assoc. cbn [app]. reflexivity.
  - split; [|split; [exact Hf | exact Hda]].
    apply as_cons; try assumption; [discriminate | lia].
Qed.

(* ================================================================== delimited text: the scanner is sound *)

Lemma scan_until_sound d s : forall a r, scan_until d s = Some (a, r) ->
  s = a ++ d ++ r /\ forallb xml_char a = true /\ free_of d a = true.
Proof.
  induction s as [|c s IH]; intros a r H; cbn [scan_until] in H.
  - destruct (strip_prefix d []) as [r0|] eqn:E; [|discriminate]. inversion H; subst.
    apply strip_prefix_split in E. split; [exact E | split; reflexivity].
  - destruct (strip_prefix d (c :: s)) as [r0|] eqn:E.
    { inversion H; subst. apply strip_prefix_split in E. split; [exact E | split; reflexivity]. }
    destruct (xml_char c) eqn:Ex; [|discriminate].
    destruct (scan_until d s) as [[a' r']|] eqn:Es; [|discriminate]. inversion H; subst. clear H.
    destruct (IH a' r eq_refl) as [E1 [E2 E3]]. subst s.
    split; [reflexivity|]. split; [cbn [forallb]; rewrite Ex, E2; reflexivity|].
    cbn [free_of]. rewrite E3, andb_true_r. apply negb_true_iff.
    destruct (starts d (c :: a' ++ d)) eqn:Est; [|reflexivity].
    apply (starts_app _ _ r) in Est. unfold starts in Est.
    change ((c :: a' ++ d) ++ r) with (c :: (a' ++ d) ++ r) in Est. rewrite <- app_assoc, E in Est. discriminate.
Qed.

(* ================================================================== the lexer is sound *)

Lemma xlcons_ok t r ts : xlcons t r = XLOk ts -> exists ts', r = XLOk ts' /\ ts = t :: ts'.
Proof. destruct r; cbn; intros H; try discriminate. inversion H. eexists; split; reflexivity. Qed.

(* outside the document element, what is not white space is markup *)
Lemma xlex_misc_head f c r ts : xlex f 0 (c :: r) = XLOk ts -> is_xws c = false -> c = 60.
Proof.
  destruct f as [|f]; [discriminate|]. cbn [xlex]. destruct (c =? 60) eqn:E; [lia|].
  cbn [span]. intros H Hw. rewrite Hw in H. discriminate.
Qed.

Lemma xlex_sound fuel : forall d s ts, xlex fuel d s = XLOk ts -> xtext d s ts.
Proof.
  induction fuel as [|f IH]; intros d s ts H; [discriminate|].
  cbn [xlex] in H. destruct s as [|c r]; [inversion H; constructor|].
  destruct (c =? 60) eqn:E60.
  - apply N.eqb_eq in E60. subst c. destruct r as [|c1 r1]; [discriminate|].
    destruct (c1 =? 47) eqn:E47.
    { (* end tag *)
      apply N.eqb_eq in E47. subst c1.
      destruct (lex_name r1) as [[n r2]|] eqn:En; [|discriminate]. destruct (lex_name_sound _ _ _ En) as [En1 Hn].
      destruct (skip_ws_sound r2) as [w [Ew Hw]]. destruct (skip_ws r2) as [|e r3]; [discriminate|].
      destruct (e =? 62) eqn:E62; [|discriminate]. apply N.eqb_eq in E62. subst e.
      destruct d as [|d']; [discriminate|].
      destruct (xlcons_ok _ _ _ H) as [ts' [H1 Hts]]. subst ts. rewrite En1, Ew.
      apply xt_close; [exact Hn | exact Hw | apply IH; exact H1]. }
    destruct (c1 =? 63) eqn:E63.
    { (* processing instruction *)
      apply N.eqb_eq in E63. subst c1.
      destruct (lex_name r1) as [[n r2]|] eqn:En; [|discriminate]. destruct (lex_name_sound _ _ _ En) as [En1 Hn].
      destruct (is_xml_target n) eqn:Et; [discriminate|].
      destruct r2 as [|c2 r2']; [discriminate|].
      destruct (is_xws c2 || starts [63; 62] (c2 :: r2')) eqn:Ec; [|discriminate].
      destruct (scan_until [63; 62] (c2 :: r2')) as [[t r3]|] eqn:Es; [|discriminate].
      destruct (scan_until_sound _ _ _ _ Es) as [Es1 [Hx Hfr]].
      rewrite En1, Es1. cbn [app]. apply xt_pi; [exact Hn | exact Et | | apply IH; exact H].
      destruct t as [|t0 t']; [left; reflexivity|]. right. exists t0, t'.
      cbn [app] in Es1. inversion Es1; subst t0. clear Es1.
      cbn [forallb] in Hx. apply andb_true_iff in Hx. cbn [free_of] in Hfr. apply andb_true_iff in Hfr.
      split; [reflexivity|]. split; [|split; [exact (proj2 Hx) | exact (proj2 Hfr)]].
      destruct (is_xws c2) eqn:Ew; [reflexivity|]. cbn [orb] in Ec. exfalso.
      unfold starts in Ec. destruct (strip_prefix [63; 62] (c2 :: r2')) as [z|] eqn:Ez; [|discriminate].
      cbn [scan_until] in Es. rewrite Ez in Es. discriminate. }
    destruct (c1 =? 33) eqn:E33.
    { apply N.eqb_eq in E33. subst c1.
      destruct (strip_prefix [45; 45] r1) as [r2|] eqn:Ep.
      - (* comment *)
        apply strip_prefix_split in Ep. subst r1.
        destruct (scan_until [45; 45] r2) as [[t [|e r3]]|] eqn:Es; try discriminate.
        destruct (e =? 62) eqn:E62; [|discriminate]. apply N.eqb_eq in E62. subst e.
        destruct (scan_until_sound _ _ _ _ Es) as [Es1 [Hx Hfr]]. rewrite Es1.
        apply (xt_comment d t r3 ts Hx Hfr). apply IH. exact H.
      - (* CDATA section *)
        destruct (strip_prefix [91; 67; 68; 65; 84; 65; 91] r1) as [r2|] eqn:Ep2; [|discriminate].
        apply strip_prefix_split in Ep2. subst r1. destruct d as [|d']; [discriminate|].
        destruct (scan_until [93; 93; 62] r2) as [[t r3]|] eqn:Es; [|discriminate].
        destruct (scan_until_sound _ _ _ _ Es) as [Es1 [Hx Hfr]]. rewrite Es1.
        destruct t as [|t0 t'].
        + apply (xt_cdata_empty d' r3 ts). apply IH. exact H.
        + destruct (xlcons_ok _ _ _ H) as [ts' [H1 Hts]]. subst ts.
          apply (xt_cdata d' (t0 :: t') r3 ts'); [discriminate | exact Hx | exact Hfr | apply IH; exact H1]. }
    (* start tag, empty-element tag *)
    destruct (lex_name (c1 :: r1)) as [[n r2]|] eqn:En; [|discriminate]. destruct (lex_name_sound _ _ _ En) as [En1 Hn].
    destruct (lex_attrs f false r2 []) as [[[a e] r3]|] eqn:Ea; [|discriminate].
    destruct (lex_attrs_sound _ _ _ _ _ _ _ Ea eq_refl) as [l [ab [Hl [Hr2 [Hsp [Hf Hd]]]]]].
    cbn [rev app] in Hl. subst l. rewrite En1, Hr2.
    destruct e; [| |discriminate]; destruct (xlcons_ok _ _ _ H) as [ts' [H1 Hts]]; subst ts; cbn [end_text app].
    + apply xt_open; [exact Hn | exact Hsp | exact Hd | apply IH; exact H1].
    + apply xt_empty; [exact Hn | exact Hsp | exact Hd | apply IH; exact H1].
  - destruct d as [|d'].
    + (* white space outside the document element *)
      destruct (span is_xws (c :: r)) as [w r'] eqn:Es. destruct w as [|w0 w]; [discriminate|].
      destruct (span_split _ _ _ _ Es) as [Ew Hw]. apply span_stop in Es. rewrite Ew.
      apply xt_ws; [discriminate | exact Hw | | apply IH; exact H].
      destruct r' as [|c' r'']; [exact I|]. exact (xlex_misc_head _ _ _ _ H Es).
    + (* character data *)
      destruct (lex_text None [] (c :: r)) as [[t r']|] eqn:Et; [|discriminate].
      destruct (xlcons_ok _ _ _ H) as [ts' [H1 Hts]]. subst ts.
      destruct (lex_text_sound (length (c :: r)) _ _ _ _ (le_n _) Et) as [body [v' [Eb [Ev [Hsp Hm]]]]].
      cbn [rev app] in Ev. subst v'. rewrite Eb.
      apply xt_chars; [exact Hsp | | exact Hm | apply IH; exact H1].
      intros ->. inversion Hsp; subst. cbn [app] in Eb. subst r'. cbn in Hm. lia.
Qed.

(* ================================================================== the tree builder is sound *)

Definition xb_sound_at f := forall ts x rest, xbuild f ts = BOk x rest ->
  exists toks, ts = toks ++ rest /\ xtoks x toks /\ is_text x = false.
Definition xc_sound_at f := forall ts acc ch n rest, xchildren f ts acc = COk ch n rest ->
  exists l toks, ch = rev acc ++ l /\ ts = toks ++ XClose n :: rest /\ xtoks_list l toks.

Lemma xb_step f : xc_sound_at f -> xb_sound_at (S f).
Proof.
  intros Hc ts x rest H. cbn [xbuild] in H. destruct ts as [|t r]; [discriminate|].
  destruct t as [n a|n a|n|s]; try discriminate.
  - destruct (xchildren f r []) as [ch n' r'| |] eqn:Ec; try discriminate.
    destruct (list_eqb n n') eqn:En; [|discriminate]. apply list_eqb_eq in En. subst n'.
    inversion H; subst. clear H.
    destruct (Hc _ _ _ _ _ Ec) as [l [toks [E1 [E2 E3]]]]. cbn [rev app] in E1. subst l.
    exists (XOpen n a :: toks ++ [XClose n]). split; [|split; [apply xk_elem; exact E3 | reflexivity]].
    rewrite E2. cbn [app]. rewrite <- app_assoc. reflexivity.
  - inversion H; subst. exists [XEmpty n a]. split; [reflexivity|]. split; [apply xk_empty | reflexivity].
Qed.

Lemma xc_step f : xb_sound_at f -> xc_sound_at f -> xc_sound_at (S f).
Proof.
  intros Hb Hc ts acc ch n rest H. cbn [xchildren] in H. destruct ts as [|t r]; [discriminate|].
  assert (Sub : forall x r', xbuild f (t :: r) = BOk x r' -> xchildren f r' (x :: acc) = COk ch n rest ->
            exists l toks, ch = rev acc ++ l /\ t :: r = toks ++ XClose n :: rest /\ xtoks_list l toks).
  { intros x r' Eb H'. destruct (Hb _ _ _ Eb) as [tk [E1 [E2 _]]].
    destruct (Hc _ _ _ _ _ H') as [l [toks [F1 [F2 F3]]]].
    exists (x :: l), (tk ++ toks). split; [rewrite F1; cbn [rev]; rewrite <- app_assoc; reflexivity|].
    split; [rewrite E1, F2, <- app_assoc; reflexivity | apply xkl_cons; assumption]. }
  destruct t as [n0 a|n0 a|n0|s].
  - destruct (xbuild f (XOpen n0 a :: r)) as [x r'| |] eqn:Eb; try discriminate. apply (Sub x r' eq_refl H).
  - destruct (xbuild f (XEmpty n0 a :: r)) as [x r'| |] eqn:Eb; try discriminate. apply (Sub x r' eq_refl H).
  - inversion H; subst. exists [], []. rewrite app_nil_r. split; [reflexivity|]. split; [reflexivity | constructor].
  - destruct (Hc _ _ _ _ _ H) as [l [toks [F1 [F2 F3]]]].
    exists (XText s :: l), ([XTxt s] ++ toks). split; [rewrite F1; cbn [rev]; rewrite <- app_assoc; reflexivity|].
    split; [rewrite F2; reflexivity | apply xkl_cons; [apply xk_text | exact F3]].
Qed.

Lemma xbuild_sound f : xb_sound_at f /\ xc_sound_at f.
Proof.
  induction f as [|f [Hb Hc]].
  - split; [intros ? ? ? H | intros ? ? ? ? ? H]; discriminate.
  - split; [apply xb_step; exact Hc | apply xc_step; assumption].
Qed.

(* ================================================================== the declaration *)

Lemma split_decl_sound s d s1 : split_decl s = Some (d, s1) ->
  exists decl, s = decl ++ s1 /\ (decl = [] \/ xmldecl_spells decl).
Proof.
  unfold split_decl. destruct (strip_prefix [60; 63; 120; 109; 108] s) as [r|] eqn:Ep.
  - destruct r as [|c r']; [discriminate|]. destruct (is_xws c).
    + destruct (lex_attrs (S (length (c :: r'))) true (c :: r') []) as [[[a e] r2]|] eqn:Ea; [|discriminate].
      destruct e; try discriminate. destruct (decl_ok a) eqn:Ed; [|discriminate]. intros H. inversion H; subst. clear H.
      destruct (lex_attrs_sound _ _ _ _ _ _ _ Ea eq_refl) as [l [ab [Hl [Hr [Hsp _]]]]].
      cbn [rev app] in Hl. subst l. apply strip_prefix_split in Ep. cbn [val_spells] in Hsp.
      exists ([60; 63; 120; 109; 108] ++ ab ++ [63; 62]). split; [|right; apply (xd_decl a ab Hsp Ed)].
      rewrite Ep, Hr. cbn [end_text]. rewrite <- !app_assoc. reflexivity.
    + intros H. inversion H; subst. exists []. split; [reflexivity | left; reflexivity].
  - intros H. inversion H; subst. exists []. split; [reflexivity | left; reflexivity].
Qed.

(* ================================================================== accepted texts are texts of the subset *)

(* Every text the reference parser accepts is, after end-of-line normalisation, a text of the subset that denotes
   the tree the parser returns. *)
Theorem xml_cps_sound : forall s0 x, xml_parse_cps s0 = XOk x -> xrenders (norm_eol s0) x.
Proof.
  intros s0 x. unfold xml_parse_cps. cbv zeta.
  destruct (split_decl (norm_eol s0)) as [[d s1]|] eqn:Ed; [|discriminate].
  destruct (xlex (S (length s1)) 0 s1) as [ts| |] eqn:El; try discriminate.
  destruct (xbuild (2 * length (merge_txt ts) + 2) (merge_txt ts)) as [root [|t0 rest]| |] eqn:Eb; try discriminate.
  intros H. inversion H; subst root. clear H.
  destruct (split_decl_sound _ _ _ Ed) as [decl [Es Hdecl]].
  destruct (proj1 (xbuild_sound _) _ _ _ Eb) as [toks [Et [Hx Hel]]]. rewrite app_nil_r in Et.
  exists decl, s1, ts, toks.
  split; [exact Es|]. split; [exact Hdecl|]. split; [apply (xlex_sound _ _ _ _ El)|].
  split; [exact Et|]. split; assumption.
Qed.

(* ================================================================== the converse: every text of the subset is accepted *)

(* ------------------------------------------------------------------ character data *)

Lemma lex_text_ref_complete n : forall ra acc s', ~ In 59 n ->
  lex_text (Some ra) acc (n ++ 59 :: s') =
  match decode_ref (rev ra ++ n) with Some cp => lex_text None (cp :: acc) s' | None => None end.
Proof.
  induction n as [|c n IH]; intros ra acc s' Hn.
  - cbn [app lex_text]. rewrite N.eqb_refl, app_nil_r. reflexivity.
  - assert (Ec : (c =? 59) = false). { apply N.eqb_neq. intros ->. apply Hn. left. reflexivity. }
    cbn [app lex_text]. rewrite Ec, IH by (intros Hc; apply Hn; right; exact Hc).
    cbn [rev]. rewrite <- app_assoc. reflexivity.
Qed.

Lemma starts_cdend body rest : starts [93; 62] body = false -> markup_or_end rest -> starts [93; 62] (body ++ rest) = false.
Proof.
  intros H Hr. unfold starts in *. destruct body as [|x [|y b]]; cbn [app strip_prefix] in *.
  - destruct rest as [|c rest]; [reflexivity|]. cbn in Hr. subst c. reflexivity.
  - destruct (93 =? x); [|reflexivity]. destruct rest as [|c rest]; [reflexivity|]. cbn in Hr. subst c. reflexivity.
  - destruct (93 =? x); [|reflexivity]. destruct (62 =? y); [discriminate | reflexivity].
Qed.

Lemma lex_text_complete v body : chardata_spells v body -> forall acc rest, markup_or_end rest ->
  lex_text None acc (body ++ rest) = Some (rev acc ++ v, rest).
Proof.
  induction 1 as [|c v body Hx H60 H38 H93 _ IH|c p v body Hp _ IH]; intros acc rest Hr.
  - cbn [app]. rewrite app_nil_r. destruct rest as [|d rest]; [reflexivity|]. cbn in Hr. subst d. reflexivity.
  - assert (R : rev acc ++ c :: v = rev (c :: acc) ++ v) by (cbn [rev]; rewrite <- app_assoc; reflexivity).
    rewrite R, <- (IH (c :: acc) rest Hr). cbn [app lex_text].
    assert (E60 : (c =? 60) = false) by lia. assert (E38 : (c =? 38) = false) by lia. rewrite E60, E38, Hx.
    destruct (c =? 93) eqn:E93; [|reflexivity]. apply N.eqb_eq in E93.
    rewrite (starts_cdend body rest (H93 E93) Hr). reflexivity.
  - assert (R : rev acc ++ c :: v = rev (c :: acc) ++ v) by (cbn [rev]; rewrite <- app_assoc; reflexivity).
    rewrite R, <- (IH (c :: acc) rest Hr). destruct Hp as [n c Hn Hd].
    cbn [app]. rewrite <- !app_assoc. cbn [app lex_text]. change (38 =? 60) with false. change (38 =? 38) with true.
    cbv iota. rewrite (lex_text_ref_complete n [] acc _ Hn). cbn [rev app]. rewrite Hd. reflexivity.
Qed.

(* ------------------------------------------------------------------ attribute values *)

Lemma lex_attval_ref_complete q n : forall ra acc s', ~ In 59 n ->
  lex_attval q (Some ra) acc (n ++ 59 :: s') =
  match decode_ref (rev ra ++ n) with Some cp => lex_attval q None (cp :: acc) s' | None => None end.
Proof.
  induction n as [|c n IH]; intros ra acc s' Hn.
  - cbn [app lex_attval]. rewrite N.eqb_refl, app_nil_r. reflexivity.
  - assert (Ec : (c =? 59) = false). { apply N.eqb_neq. intros ->. apply Hn. left. reflexivity. }
    cbn [app lex_attval]. rewrite Ec, IH by (intros Hc; apply Hn; right; exact Hc).
    cbn [rev]. rewrite <- app_assoc. reflexivity.
Qed.

Lemma lex_attval_complete q v body : attval_spells q v body -> q = 34 \/ q = 39 -> forall acc rest,
  lex_attval q None acc (body ++ q :: rest) = Some (rev acc ++ v, rest).
Proof.
  intros H Hq. induction H as [|c v body Hx Hcq H60 H38 Hw _ IH|c v body Hw Hcq _ IH|c p v body Hp _ IH]; intros acc rest.
  - cbn [app lex_attval]. rewrite N.eqb_refl, app_nil_r. reflexivity.
  - assert (R : rev acc ++ c :: v = rev (c :: acc) ++ v) by (cbn [rev]; rewrite <- app_assoc; reflexivity).
    rewrite R, <- (IH (c :: acc) rest). cbn [app lex_attval].
    assert (Eq : (c =? q) = false) by lia. assert (E60 : (c =? 60) = false) by lia. assert (E38 : (c =? 38) = false) by lia.
    rewrite Eq, E60, E38, Hw, Hx. reflexivity.
  - assert (R : rev acc ++ 32 :: v = rev (32 :: acc) ++ v) by (cbn [rev]; rewrite <- app_assoc; reflexivity).
    rewrite R, <- (IH (32 :: acc) rest). cbn [app lex_attval].
    assert (Eq : (c =? q) = false) by lia.
    assert (E60 : (c =? 60) = false) by (unfold is_xws in Hw; lia).
    assert (E38 : (c =? 38) = false) by (unfold is_xws in Hw; lia).
    rewrite Eq, E60, E38, Hw. reflexivity.
  - assert (R : rev acc ++ c :: v = rev (c :: acc) ++ v) by (cbn [rev]; rewrite <- app_assoc; reflexivity).
    rewrite R, <- (IH (c :: acc) rest). destruct Hp as [n c Hn Hd].
    cbn [app]. rewrite <- !app_assoc. cbn [app lex_attval].
    assert (Eq : (38 =? q) = false) by lia. rewrite Eq. change (38 =? 60) with false. change (38 =? 38) with true.
    cbv iota. rewrite (lex_attval_ref_complete q n [] acc _ Hn). cbn [rev app]. rewrite Hd. reflexivity.
Qed.

(* ------------------------------------------------------------------ delimited text *)

Lemma starts_long p : forall u y, (length p <= length u)%nat -> starts p (u ++ y) = starts p u.
Proof.
  unfold starts. induction p as [|a p IH]; intros u y Hl; [reflexivity|].
  destruct u as [|b u]; [cbn in Hl; lia|]. cbn [app strip_prefix]. destruct (a =? b); [|reflexivity].
  apply IH. cbn in Hl. lia.
Qed.

Lemma scan_until_eq d s : scan_until d s =
  match strip_prefix d s with
  | Some r => Some ([], r)
  | None => match s with
            | c :: r => if xml_char c then match scan_until d r with Some (a, r') => Some (c :: a, r') | None => None end
                        else None
            | [] => None
            end
  end.
Proof. destruct s; reflexivity. Qed.

Lemma scan_until_complete d t : forall rest, forallb xml_char t = true -> free_of d t = true ->
  scan_until d (t ++ d ++ rest) = Some (t, rest).
Proof.
  induction t as [|c t IH]; intros rest Hx Hf.
  - rewrite scan_until_eq. cbn [app]. rewrite strip_prefix_app. reflexivity.
  - cbn [forallb] in Hx. apply andb_true_iff in Hx. destruct Hx as [Hc Hx].
    cbn [free_of] in Hf. apply andb_true_iff in Hf. destruct Hf as [Hs Hf]. apply negb_true_iff in Hs.
    rewrite scan_until_eq.
    assert (E : strip_prefix d ((c :: t) ++ d ++ rest) = None).
    { pose proof (starts_long d (c :: t ++ d) rest) as L. rewrite Hs in L. unfold starts in L.
      cbn [app] in L |- *. rewrite <- app_assoc in L.
      destruct (strip_prefix d (c :: t ++ d ++ rest)); [|reflexivity].
      assert (Hl : (length d <= length (c :: t ++ d))%nat) by (cbn [length]; rewrite app_length; lia).
      specialize (L Hl). discriminate. }
    rewrite E. cbn [app]. rewrite Hc, (IH rest Hx Hf). reflexivity.
Qed.

(* ------------------------------------------------------------------ attributes *)

Lemma xws_not_name c : is_xws c = true -> name_char c = false.
Proof.
  intros H. destruct (name_char c) eqn:E; [|reflexivity]. apply name_char_ge in E. unfold is_xws in H. lia.
Qed.

Lemma ws_stop w c Z : ws_only w = true -> name_char c = false -> stopsp name_char (w ++ c :: Z).
Proof.
  intros Hw Hc. destruct w as [|x w]; [exact Hc|]. cbn in Hw. apply andb_true_iff in Hw.
  cbn. apply xws_not_name. exact (proj1 Hw).
Qed.

Lemma skip_ws_app w c Z : ws_only w = true -> is_xws c = false -> skip_ws (w ++ c :: Z) = c :: Z.
Proof. intros Hw Hc. unfold skip_ws. rewrite (span_app is_xws w (c :: Z) Hw Hc). reflexivity. Qed.

Lemma keys_distinct_mid l n v a : keys_distinct (l ++ (n, v) :: a) = true -> has_key n l = false.
Proof.
  induction l as [|[k w] l IH]; intros H; [reflexivity|].
  cbn [app keys_distinct] in H. apply andb_true_iff in H. destruct H as [H1 H2]. apply negb_true_iff in H1.
  unfold has_key in H1. rewrite existsb_app in H1. apply orb_false_iff in H1. destruct H1 as [_ H1].
  cbn [existsb fst] in H1. apply orb_false_iff in H1. destruct H1 as [H1 _].
  unfold has_key. cbn [existsb fst]. rewrite (list_eqb_sym n k), H1. cbn [orb]. apply IH. exact H2.
Qed.

Lemma lex_declval_complete q v rest : ~ In q v -> lex_declval q (v ++ q :: rest) = Some (v, rest).
Proof.
  intros H. unfold lex_declval. rewrite (span_app (fun c => negb (c =? q)) v (q :: rest)); [reflexivity | |].
  - apply notin_forallb. exact H.
  - cbn. rewrite N.eqb_refl. reflexivity.
Qed.

Lemma attrs_spell_len V a ab : attrs_spell_with V a ab -> (length a <= length ab)%nat.
Proof.
  induction 1 as [w _|n v a w1 w2 w3 q vb body Hne _ _ _ _ _ _ _ IH]; [cbn; lia|].
  cbn [length]. repeat (rewrite app_length; cbn [length]). lia.
Qed.

(* an attribute list never begins with a name character *)
Lemma attrs_spell_stop V a ab c Z : attrs_spell_with V a ab -> name_char c = false -> stopsp name_char (ab ++ c :: Z).
Proof.
  intros H Hc. destruct H as [w Hw|n v a w1 w2 w3 q vb body Hne Hw1 _ _ _ _ _ _].
  - apply ws_stop; assumption.
  - destruct w1 as [|x w1]; [congruence|]. cbn in Hw1. apply andb_true_iff in Hw1.
    cbn. apply xws_not_name. exact (proj1 Hw1).
Qed.

Lemma end_text_head e r : exists c Z, end_text e ++ r = c :: Z /\ is_xws c = false /\ name_char c = false.
Proof. destruct e; cbn [end_text app]; eexists; eexists; (split; [reflexivity | split; reflexivity]). Qed.

Lemma lex_attrs_end f decl e w acc rest : ws_only w = true -> end_fits decl e ->
  lex_attrs (S f) decl (w ++ end_text e ++ rest) acc = Some (rev acc, e, rest).
Proof.
  intros Hw Hf. cbn [lex_attrs].
  destruct (end_text_head e rest) as [c [Z [Ec [Hc _]]]].
  assert (Sp : span is_xws (w ++ end_text e ++ rest) = (w, end_text e ++ rest)).
  { apply span_app; [exact Hw|]. rewrite Ec. exact Hc. }
  rewrite Sp. destruct e; cbn in Hf; subst decl; reflexivity.
Qed.

Lemma lex_attrs_complete decl a ab : attrs_spell_with (val_spells decl) a ab -> forall f e acc rest,
  end_fits decl e -> (length a < f)%nat -> keys_distinct (rev acc ++ a) = true ->
  lex_attrs f decl (ab ++ end_text e ++ rest) acc = Some (rev acc ++ a, e, rest).
Proof.
  induction 1 as [w Hw|n v a w1 w2 w3 q vb body Hne Hw1 Hn Hw2 Hw3 Hq Hv _ IH]; intros f e acc rest Hf Hl Hd.
  - destruct f as [|f]; [lia|]. rewrite app_nil_r. apply lex_attrs_end; assumption.
  - destruct f as [|f]; [lia|]. cbn [length] in Hl.
    destruct (name_ok_inv n Hn) as [c0 [n' [En [Hc0 Hn']]]]. pose proof (name_start_ge c0 Hc0) as Hge.
    set (Z4 := body ++ end_text e ++ rest).
    set (Z3 := vb ++ q :: Z4). set (Z2 := w3 ++ q :: Z3). set (Z1 := w2 ++ 61 :: Z2).
    assert (Etxt : (w1 ++ n ++ w2 ++ [61] ++ w3 ++ [q] ++ vb ++ [q] ++ body) ++ end_text e ++ rest = w1 ++ n ++ Z1).
    { unfold Z1, Z2, Z3, Z4. rewrite <- ?app_assoc. cbn [app]. rewrite <- ?app_assoc. cbn [app]. reflexivity. }
    rewrite Etxt. cbn [lex_attrs].
    assert (Sp : span is_xws (w1 ++ n ++ Z1) = (w1, n ++ Z1)).
    { apply span_app; [exact Hw1|]. rewrite En. cbn. unfold is_xws. lia. }
    rewrite Sp. rewrite En at 1. cbn [app].
    assert (E62 : (c0 =? 62) = false) by lia. assert (E47 : (c0 =? 47) = false) by lia. assert (E63 : (c0 =? 63) = false) by lia.
    rewrite E62, E47, E63, !andb_false_r.
    destruct w1 as [|x w1]; [congruence|].
    assert (N61 : name_char 61 = false) by reflexivity.
    rewrite (lex_name_app n Z1 Hn (ws_stop w2 61 Z2 Hw2 N61)).
    unfold Z1. rewrite (skip_ws_app w2 61 Z2 Hw2 eq_refl). change (61 =? 61) with true. cbv iota.
    assert (Wq : is_xws q = false) by (unfold is_xws; lia).
    unfold Z2. rewrite (skip_ws_app w3 q Z3 Hw3 Wq).
    assert (Qq : ((q =? 34) || (q =? 39)) = true) by lia. rewrite Qq.
    unfold Z3.
    assert (Lv : (if decl then lex_declval q (vb ++ q :: Z4) else lex_attval q None [] (vb ++ q :: Z4)) = Some (v, Z4)).
    { destruct decl; cbn [val_spells] in Hv.
      - destruct Hv as [v Hv]. apply lex_declval_complete. exact Hv.
      - apply (lex_attval_complete q v vb Hv Hq [] Z4). }
    rewrite Lv.
    assert (Hk : has_key n acc = false). { rewrite <- has_key_rev. exact (keys_distinct_mid _ _ _ _ Hd). }
    rewrite Hk. unfold Z4.
    rewrite (IH f e ((n, v) :: acc) rest Hf ltac:(lia)).
    + cbn [rev]. rewrite <- app_assoc. reflexivity.
    + cbn [rev]. rewrite <- app_assoc. exact Hd.
Qed.

(* ------------------------------------------------------------------ the lexer *)

Lemma xlex_close_eq f d r1 : xlex (S f) (S d) (60 :: 47 :: r1) =
  match lex_name r1 with
  | Some (n, r2) => match skip_ws r2 with
                    | e :: r3 => if e =? 62 then xlcons (XClose n) (xlex f d r3) else XLErr
                    | [] => XLErr
                    end
  | None => XLErr
  end.
Proof. reflexivity. Qed.

Lemma xlex_pi_eq f d r1 : xlex (S f) d (60 :: 63 :: r1) =
  match lex_name r1 with
  | Some (n, r2) =>
    if is_xml_target n then XLErr
    else match r2 with
         | c2 :: _ => if is_xws c2 || starts [63; 62] r2
                      then match scan_until [63; 62] r2 with Some (_, r3) => xlex f d r3 | None => XLErr end
                      else XLErr
         | [] => XLErr
         end
  | None => XLErr
  end.
Proof. reflexivity. Qed.

Lemma xlex_comment_eq f d r2 : xlex (S f) d ([60; 33; 45; 45] ++ r2) =
  match scan_until [45; 45] r2 with
  | Some (_, e :: r3) => if e =? 62 then xlex f d r3 else XLErr
  | _ => XLErr
  end.
Proof. reflexivity. Qed.

Lemma xlex_cdata_eq f d r2 : xlex (S f) (S d) ([60; 33; 91; 67; 68; 65; 84; 65; 91] ++ r2) =
  match scan_until [93; 93; 62] r2 with
  | Some ([], r3) => xlex f (S d) r3
  | Some (t, r3) => xlcons (XTxt t) (xlex f (S d) r3)
  | None => XLErr
  end.
Proof. reflexivity. Qed.

Lemma xlex_tag_eq f d c1 r1 : name_start c1 = true -> xlex (S f) d (60 :: c1 :: r1) =
  match lex_name (c1 :: r1) with
  | Some (n, r2) =>
    match lex_attrs f false r2 [] with
    | Some (a, EndTag, r3) => xlcons (XOpen n a) (xlex f (S d) r3)
    | Some (a, EndEmpty, r3) => xlcons (XEmpty n a) (xlex f d r3)
    | _ => XLErr
    end
  | None => XLErr
  end.
Proof.
  intros H. apply name_start_ge in H. cbn [xlex]. change (60 =? 60) with true. cbv iota.
  assert (E47 : (c1 =? 47) = false) by lia. assert (E63 : (c1 =? 63) = false) by lia.
  assert (E33 : (c1 =? 33) = false) by lia. rewrite E47, E63, E33. reflexivity.
Qed.

Lemma xlex_text_eq f d c r : (c =? 60) = false -> xlex (S f) (S d) (c :: r) =
  match lex_text None [] (c :: r) with
  | Some (t, r') => xlcons (XTxt t) (xlex f (S d) r')
  | None => XLErr
  end.
Proof. intros H. cbn [xlex]. rewrite H. reflexivity. Qed.

Lemma xlex_ws_eq f c r : (c =? 60) = false -> xlex (S f) 0 (c :: r) =
  let (w, r') := span is_xws (c :: r) in match w with [] => XLErr | _ :: _ => xlex f 0 r' end.
Proof. intros H. cbn [xlex]. rewrite H. reflexivity. Qed.

(* character data that spells something begins with a character other than less-than *)
Lemma chardata_head v body : chardata_spells v body -> v <> [] -> exists c b, body = c :: b /\ (c =? 60) = false.
Proof.
  intros H Hv. destruct H as [|c v body _ H60 _ _ _|c p v body Hp _]; [congruence| |].
  - exists c, body. split; [reflexivity | lia].
  - destruct Hp as [n c _ _]. exists 38, ((n ++ [59]) ++ body). split; reflexivity.
Qed.

Lemma xws_char c : is_xws c = true -> xml_char c = true.
Proof. unfold is_xws, xml_char. lia. Qed.

Lemma xlex_complete d s ts : xtext d s ts -> forall fuel, (length s < fuel)%nat -> xlex fuel d s = XLOk ts.
Proof.
  induction 1 as [ d | w s ts Hne Hw Hm _ IH
                  | d n a ab s ts Hn Ha Hd _ IH | d n a ab s ts Hn Ha Hd _ IH | d n w s ts Hn Hw _ IH
                  | d v body s ts Hv Hne Hm _ IH | d t s ts Hne Hx Hf _ IH | d s ts _ IH | d t s ts Hx Hf _ IH
                  | d n t s ts Hn Ht Hp _ IH ]; intros fuel Hl.
  - destruct fuel; [lia | reflexivity].
  - (* white space outside the document element *)
    destruct fuel as [|f]; [lia|]. rewrite app_length in Hl.
    destruct w as [|w0 w]; [congruence|]. pose proof Hw as Hw'. cbn [ws_only forallb] in Hw'.
    apply andb_true_iff in Hw'. destruct Hw' as [Hw0 _].
    assert (E60 : (w0 =? 60) = false) by (unfold is_xws in Hw0; lia).
    assert (Hs : stopsp is_xws s). { destruct s as [|c s']; [exact I|]. cbn in Hm |- *. subst c. reflexivity. }
    change ((w0 :: w) ++ s) with (w0 :: w ++ s). rewrite (xlex_ws_eq f w0 _ E60).
    change (w0 :: w ++ s) with ((w0 :: w) ++ s). rewrite (span_app is_xws (w0 :: w) s Hw Hs).
    apply IH. cbn [length] in Hl. lia.
  - (* start tag *)
    destruct fuel as [|f]; [lia|]. cbn [length] in Hl. rewrite !app_length in Hl. cbn [length] in Hl.
    destruct (name_ok_inv n Hn) as [c0 [n' [En [Hc0 Hn']]]].
    assert (Etxt : 60 :: n ++ ab ++ 62 :: s = 60 :: c0 :: n' ++ ab ++ 62 :: s) by (rewrite En; reflexivity).
    rewrite Etxt, (xlex_tag_eq f d c0 _ Hc0). change (c0 :: n' ++ ab ++ 62 :: s) with ((c0 :: n') ++ ab ++ 62 :: s).
    rewrite <- En, (lex_name_app n _ Hn (attrs_spell_stop _ a ab 62 s Ha eq_refl)).
    pose proof (attrs_spell_len _ a ab Ha) as La.
    pose proof (lex_attrs_complete false a ab Ha f EndTag [] s eq_refl ltac:(lia) Hd) as LA.
    cbn [end_text rev app] in LA. rewrite LA.
    rewrite IH by lia. reflexivity.
  - (* empty-element tag *)
    destruct fuel as [|f]; [lia|]. cbn [length] in Hl. rewrite !app_length in Hl. cbn [length] in Hl.
    destruct (name_ok_inv n Hn) as [c0 [n' [En [Hc0 Hn']]]].
    assert (Etxt : 60 :: n ++ ab ++ 47 :: 62 :: s = 60 :: c0 :: n' ++ ab ++ 47 :: 62 :: s) by (rewrite En; reflexivity).
    rewrite Etxt, (xlex_tag_eq f d c0 _ Hc0).
    change (c0 :: n' ++ ab ++ 47 :: 62 :: s) with ((c0 :: n') ++ ab ++ 47 :: 62 :: s).
    rewrite <- En, (lex_name_app n _ Hn (attrs_spell_stop _ a ab 47 (62 :: s) Ha eq_refl)).
    pose proof (attrs_spell_len _ a ab Ha) as La.
    pose proof (lex_attrs_complete false a ab Ha f EndEmpty [] s eq_refl ltac:(lia) Hd) as LA.
    cbn [end_text rev app] in LA. rewrite LA.
    rewrite IH by lia. reflexivity.
  - (* end tag *)
    destruct fuel as [|f]; [lia|]. cbn [length] in Hl. rewrite !app_length in Hl. cbn [length] in Hl.
    rewrite xlex_close_eq, (lex_name_app n _ Hn (ws_stop w 62 s Hw eq_refl)), (skip_ws_app w 62 s Hw eq_refl).
    change (62 =? 62) with true. cbv iota. rewrite IH by lia. reflexivity.
  - (* character data *)
    destruct fuel as [|f]; [lia|]. rewrite app_length in Hl.
    destruct (chardata_head v body Hv Hne) as [c [b [Eb Ec]]].
    pose proof (lex_text_complete v body Hv [] s Hm) as L. cbn [rev app] in L.
    rewrite Eb in *. cbn [app length] in *. rewrite (xlex_text_eq f d c _ Ec), L, IH by lia. reflexivity.
  - (* CDATA section *)
    destruct fuel as [|f]; [lia|]. rewrite !app_length in Hl. cbn [length] in Hl.
    rewrite xlex_cdata_eq, (scan_until_complete _ t s Hx Hf). destruct t as [|t0 t]; [congruence|].
    rewrite IH by lia. reflexivity.
  - destruct fuel as [|f]; [lia|]. rewrite app_length in Hl. cbn [length] in Hl.
    change ([60; 33; 91; 67; 68; 65; 84; 65; 91; 93; 93; 62] ++ s)
      with ([60; 33; 91; 67; 68; 65; 84; 65; 91] ++ [] ++ [93; 93; 62] ++ s).
    rewrite xlex_cdata_eq, (scan_until_complete _ [] s eq_refl eq_refl). apply IH. lia.
  - (* comment *)
    destruct fuel as [|f]; [lia|]. rewrite !app_length in Hl. cbn [length] in Hl.
    change (t ++ [45; 45; 62] ++ s) with (t ++ [45; 45] ++ 62 :: s).
    rewrite xlex_comment_eq, (scan_until_complete _ t (62 :: s) Hx Hf). change (62 =? 62) with true. cbv iota.
    apply IH. lia.
  - (* processing instruction *)
    destruct fuel as [|f]; [lia|]. cbn [length] in Hl. rewrite !app_length in Hl. cbn [length] in Hl.
    rewrite xlex_pi_eq.
    destruct Hp as [->|[w [t' [-> [Hw [Hx Hf]]]]]].
    + cbn [app]. rewrite (lex_name_app n (63 :: 62 :: s) Hn eq_refl), Ht.
      change (is_xws 63 || starts [63; 62] (63 :: 62 :: s)) with true. cbv iota.
      change (63 :: 62 :: s) with ([] ++ [63; 62] ++ s).
      rewrite (scan_until_complete _ [] s eq_refl eq_refl). apply IH. cbn [length] in Hl. lia.
    + assert (Sw : stopsp name_char ((w :: t') ++ 63 :: 62 :: s)) by (cbn; apply xws_not_name; exact Hw).
      rewrite (lex_name_app n _ Hn Sw), Ht. cbn [app]. rewrite Hw. cbn [orb].
      change (w :: t' ++ 63 :: 62 :: s) with ((w :: t') ++ [63; 62] ++ s).
      rewrite (scan_until_complete _ (w :: t') s).
      * apply IH. cbn [length] in Hl. lia.
      * cbn [forallb]. rewrite (xws_char w Hw), Hx. reflexivity.
      * cbn [free_of]. rewrite Hf, andb_true_r. apply negb_true_iff. unfold starts. cbn [strip_prefix app].
        assert (E : (63 =? w) = false) by (unfold is_xws in Hw; lia). rewrite E. reflexivity.
Qed.

(* ------------------------------------------------------------------ the tree builder *)

Scheme xtoks_min := Minimality for xtoks Sort Prop
  with xtoks_list_min := Minimality for xtoks_list Sort Prop.
Combined Scheme xtoks_both from xtoks_min, xtoks_list_min.

Definition xb_complete (x : xnode) (toks : list xtok) : Prop :=
  is_text x = false -> forall rest, exists f0, forall f, (f0 <= f)%nat -> xbuild f (toks ++ rest) = BOk x rest.
Definition xc_complete (ch : list xnode) (l : list xtok) : Prop :=
  forall acc n rest, exists f0, forall f, (f0 <= f)%nat ->
    xchildren f (l ++ XClose n :: rest) acc = COk (rev acc ++ ch) n rest.

Lemma xbuild_complete : (forall x toks, xtoks x toks -> xb_complete x toks) /\
                        (forall ch l, xtoks_list ch l -> xc_complete ch l).
Proof.
  apply xtoks_both.
  - intros s H. discriminate.
  - intros n a _ rest. exists 1%nat. intros [|f] Hf; [lia | reflexivity].
  - intros n a ch l _ IH _ rest. destruct (IH [] n rest) as [f0 H0].
    exists (S f0). intros [|f] Hf; [lia|].
    cbn [app]. rewrite <- app_assoc. cbn [app xbuild]. rewrite H0 by lia. rewrite list_eqb_refl. reflexivity.
  - intros acc n rest. exists 1%nat. intros [|f] Hf; [lia|]. cbn. rewrite app_nil_r. reflexivity.
  - intros x ch t l Hx IHx _ IHl acc n rest. rewrite <- app_assoc.
    destruct (IHl (x :: acc) n rest) as [f1 H1].
    destruct x as [n' a' ch'|s].
    + destruct (IHx eq_refl (l ++ XClose n :: rest)) as [f0 H0].
      exists (S (Nat.max f0 f1)). intros [|f] Hf; [lia|].
      assert (Hb : xbuild f (t ++ l ++ XClose n :: rest) = BOk (XElem n' a' ch') (l ++ XClose n :: rest)) by (apply H0; lia).
      assert (Hc : xchildren f (l ++ XClose n :: rest) (XElem n' a' ch' :: acc) = COk (rev acc ++ XElem n' a' ch' :: ch) n rest).
      { rewrite H1 by lia. cbn [rev]. rewrite <- app_assoc. reflexivity. }
      inversion Hx; subst; cbn [app] in Hb |- *; cbn [xchildren]; rewrite Hb; exact Hc.
    + exists (S f1). intros [|f] Hf; [lia|]. inversion Hx; subst.
      cbn [app xchildren]. rewrite H1 by lia. cbn [rev]. rewrite <- app_assoc. reflexivity.
Qed.

Lemma xbuild_exact x toks post : xtoks x toks -> is_text x = false ->
  xbuild (2 * length (toks ++ post) + 2) (toks ++ post) = BOk x post.
Proof.
  intros Hx Hel. destruct (proj1 xbuild_complete x toks Hx Hel post) as [f0 H0].
  set (F := (2 * length (toks ++ post) + 2)%nat).
  pose proof (xbuild_fuel_suffices (toks ++ post)) as Hn. fold F in Hn.
  pose proof (proj1 (xbuild_mono F) (toks ++ post) _ (Nat.max f0 F) eq_refl Hn ltac:(lia)) as Hm.
  rewrite <- Hm. apply H0. lia.
Qed.

(* ------------------------------------------------------------------ the declaration *)

Lemma decl_ok_distinct a : decl_ok a = true -> keys_distinct a = true /\ a <> [].
Proof.
  intros H. split; [|destruct a; [discriminate | discriminate]].
  destruct a as [|[k1 v1] r]; [discriminate|]. cbn [decl_ok] in H.
  apply andb_true_iff in H. destruct H as [H H2]. apply andb_true_iff in H. destruct H as [H1 _].
  apply list_eqb_eq in H1. subst k1.
  destruct r as [|[k2 v2] [|[k3 v3] [|x r]]]; [reflexivity | | | discriminate].
  - apply orb_true_iff in H2. destruct H2 as [H2|H2]; apply andb_true_iff in H2; destruct H2 as [H2 _];
      apply list_eqb_eq in H2; subst k2; reflexivity.
  - apply andb_true_iff in H2. destruct H2 as [H2 _]. apply andb_true_iff in H2. destruct H2 as [H2 H3].
    apply andb_true_iff in H2. destruct H2 as [H2 _]. apply list_eqb_eq in H2, H3. subst k2 k3. reflexivity.
Qed.

Lemma split_decl_decl a ab body : declattrs_spell a ab -> decl_ok a = true ->
  split_decl (([60; 63; 120; 109; 108] ++ ab ++ [63; 62]) ++ body) = Some (Some a, body).
Proof.
  intros Ha Hok. destruct (decl_ok_distinct a Hok) as [Hd Hne].
  unfold split_decl. rewrite <- app_assoc, strip_prefix_app, <- app_assoc.
  pose proof (lex_attrs_complete true a ab Ha (S (length (ab ++ [63; 62] ++ body))) EndDecl [] body eq_refl) as L.
  cbn [end_text rev app] in L.
  assert (Hl : Nat.lt (length a) (S (length (ab ++ 63 :: 62 :: body)))).
  { pose proof (attrs_spell_len _ a ab Ha). rewrite app_length. lia. }
  specialize (L Hl Hd).
  destruct Ha as [w _|n v a w1 w2 w3 q vb bd Hne1 Hw1 _ _ _ _ _ _]; [congruence|].
  destruct w1 as [|x w1]; [congruence|]. cbn in Hw1. apply andb_true_iff in Hw1. destruct Hw1 as [Hx _].
  cbn [app] in L |- *. rewrite Hx, L, Hok. reflexivity.
Qed.

(* a text of the subset does not begin like a declaration *)
Lemma xtext_after_xml d0 s ts r : xtext d0 s ts -> strip_prefix [60; 63; 120; 109; 108] s = Some r ->
  exists c r', r = c :: r' /\ is_xws c = false.
Proof.
  intros H Ep.
  destruct H as [ dp | w s ts Hne Hw _ _
                 | dp n a ab s ts Hn _ _ _ | dp n a ab s ts Hn _ _ _ | dp n w s ts _ _ _
                 | dp v body s ts Hv Hne _ _ | dp t s ts _ _ _ _ | dp s ts _ | dp t s ts _ _ _
                 | dp n t s ts Hn Ht Hp _ ].
  - discriminate.
  - exfalso. destruct w as [|w0 w]; [congruence|]. cbn [ws_only forallb] in Hw. apply andb_true_iff in Hw.
    destruct Hw as [Hw0 _]. cbn [app strip_prefix] in Ep.
    destruct (60 =? w0) eqn:E; [unfold is_xws in Hw0; lia | discriminate].
  - exfalso. destruct (name_ok_inv n Hn) as [c0 [n' [-> [Hc0 _]]]]. apply name_start_ge in Hc0.
    cbn [app strip_prefix] in Ep. change (60 =? 60) with true in Ep. cbv iota in Ep.
    destruct (63 =? c0) eqn:E; [lia | discriminate].
  - exfalso. destruct (name_ok_inv n Hn) as [c0 [n' [-> [Hc0 _]]]]. apply name_start_ge in Hc0.
    cbn [app strip_prefix] in Ep. change (60 =? 60) with true in Ep. cbv iota in Ep.
    destruct (63 =? c0) eqn:E; [lia | discriminate].
  - discriminate.
  - exfalso. destruct (chardata_head v body Hv Hne) as [c [b [-> Ec]]]. cbn [app strip_prefix] in Ep.
    rewrite N.eqb_sym, Ec in Ep. discriminate.
  - discriminate.
  - discriminate.
  - discriminate.
  - cbn [strip_prefix] in Ep. change (60 =? 60) with true in Ep. change (63 =? 63) with true in Ep. cbv iota in Ep.
    pose proof (name_ok_chars n Hn) as Hch.
    (* what follows the target is a question mark or white space *)
    assert (Hend : forall z Z' r0, strip_prefix (z :: Z') (t ++ 63 :: 62 :: s) = Some r0 -> z = 63 \/ is_xws z = true).
    { intros z Z' r0 HZ. destruct Hp as [->|[w [t' [-> [Hw _]]]]]; cbn [app strip_prefix] in HZ.
      - destruct (z =? 63) eqn:E; [left; lia | discriminate].
      - destruct (z =? w) eqn:E; [|discriminate]. apply N.eqb_eq in E. subst z. right. exact Hw. }
    destruct n as [|a [|b [|c [|d n4]]]]; cbn [app strip_prefix] in Ep.
    + discriminate.
    + exfalso. destruct (120 =? a); [|discriminate].
      destruct (Hend 109 [108] r Ep) as [E|E]; discriminate.
    + exfalso. destruct (120 =? a); [|discriminate]. destruct (109 =? b); [|discriminate].
      destruct (Hend 108 [] r Ep) as [E|E]; discriminate.
    + exfalso. destruct (120 =? a) eqn:Ea; [|discriminate]. destruct (109 =? b) eqn:Eb; [|discriminate].
      destruct (108 =? c) eqn:Ec; [|discriminate].
      apply N.eqb_eq in Ea, Eb, Ec. subst a b c. discriminate.
    + destruct (120 =? a); [|discriminate]. destruct (109 =? b); [|discriminate]. destruct (108 =? c); [|discriminate].
      inversion Ep; subst r. clear Ep. exists d, (n4 ++ t ++ 63 :: 62 :: s). split; [reflexivity|].
      cbn [forallb] in Hch. apply andb_true_iff in Hch. destruct Hch as [_ Hch].
      apply andb_true_iff in Hch. destruct Hch as [_ Hch]. apply andb_true_iff in Hch. destruct Hch as [_ Hch].
      apply andb_true_iff in Hch. destruct Hch as [Hd _].
      destruct (is_xws d) eqn:E; [|reflexivity]. apply xws_not_name in E. congruence.
Qed.

Lemma xtext_no_decl d s ts : xtext d s ts -> split_decl s = Some (None, s).
Proof.
  intros H. unfold split_decl.
  destruct (strip_prefix [60; 63; 120; 109; 108] s) as [r|] eqn:Ep; [|reflexivity].
  destruct (xtext_after_xml d s ts r H Ep) as [c [r' [-> Hc]]]. rewrite Hc. reflexivity.
Qed.

(* ------------------------------------------------------------------ accepted texts = texts of the subset *)

(* Every text of the subset is accepted, with the tree it denotes as the result. *)
Theorem xml_cps_complete : forall s0 x, xrenders (norm_eol s0) x -> xml_parse_cps s0 = XOk x.
Proof.
  intros s0 x [decl [body [ts [toks [Es [Hdecl [Ht [Em [Hx Hel]]]]]]]]].
  unfold xml_parse_cps. cbv zeta. rewrite Es.
  assert (Sd : exists d, split_decl (decl ++ body) = Some (d, body)).
  { destruct Hdecl as [->|Hd].
    - exists None. cbn [app]. apply (xtext_no_decl _ _ _ Ht).
    - destruct Hd as [a ab Ha Hok]. exists (Some a). apply split_decl_decl; assumption. }
  destruct Sd as [d Sd]. rewrite Sd.
  rewrite (xlex_complete 0 body ts Ht (S (length body)) (Nat.lt_succ_diag_r _)), Em.
  pose proof (xbuild_exact x toks [] Hx Hel) as Hb. rewrite app_nil_r in Hb. rewrite Hb. reflexivity.
Qed.

Theorem xml_cps_exact : forall s0 x, xml_parse_cps s0 = XOk x <-> xrenders (norm_eol s0) x.
Proof. intros s0 x. split; [apply xml_cps_sound | apply xml_cps_complete]. Qed.

(* bytes: the accepted byte strings are the strict UTF-8 encodings of the texts of the subset *)
Theorem xml_parse_exact : forall bytes x,
  xml_parse bytes = XOk x <-> exists cps, utf8_decode bytes = Some (Some cps) /\ xrenders (norm_eol cps) x.
Proof.
  intros bytes x. unfold xml_parse. split.
  - destruct (utf8_decode bytes) as [[cps|]|]; try discriminate. intros H. exists cps.
    split; [reflexivity | apply xml_cps_sound; exact H].
  - intros [cps [-> H]]. apply xml_cps_complete. exact H.
Qed.

(* ================================================================== the trees of accepted texts are well-formed DOMs *)

Lemma decode_ref_char n c : decode_ref n = Some c -> xml_char c = true.
Proof.
  unfold decode_ref.
  destruct (list_eqb n [97; 109; 112]). { intros H. inversion H. reflexivity. }
  destruct (list_eqb n [108; 116]). { intros H. inversion H. reflexivity. }
  destruct (list_eqb n [103; 116]). { intros H. inversion H. reflexivity. }
  destruct (list_eqb n [113; 117; 111; 116]). { intros H. inversion H. reflexivity. }
  destruct (list_eqb n [97; 112; 111; 115]). { intros H. inversion H. reflexivity. }
  intros H.
  repeat match type of H with
         | match ?x with _ => _ end = Some _ => destruct x eqn:?; try discriminate H
         end.
  all: inversion H; subst; assumption.
Qed.

Lemma ref_spells_char c p : ref_spells c p -> xml_char c = true.
Proof. destruct 1 as [n c _ H]. exact (decode_ref_char n c H). Qed.

Lemma chardata_char v body : chardata_spells v body -> forallb xml_char v = true.
Proof.
  induction 1 as [|c v body Hx _ _ _ _ IH|c p v body Hp _ IH]; [reflexivity| |]; cbn [forallb].
  - rewrite Hx, IH. reflexivity.
  - rewrite (ref_spells_char c p Hp), IH. reflexivity.
Qed.

Lemma attval_char q v body : attval_spells q v body -> forallb xml_char v = true.
Proof.
  induction 1 as [|c v body Hx _ _ _ _ _ IH|c v body _ _ _ IH|c p v body Hp _ IH]; [reflexivity| | |]; cbn [forallb].
  - rewrite Hx, IH. reflexivity.
  - rewrite IH. reflexivity.
  - rewrite (ref_spells_char c p Hp), IH. reflexivity.
Qed.

Lemma attrs_spell_ok a ab : attrs_spell a ab ->
  forallb (fun kv => name_ok (fst kv) && forallb xml_char (snd kv)) a = true.
Proof.
  unfold attrs_spell. induction 1 as [w _|n v a w1 w2 w3 q vb body _ _ Hn _ _ _ Hv _ IH]; [reflexivity|].
  cbn [forallb fst snd]. rewrite Hn, (attval_char q v vb Hv), IH. reflexivity.
Qed.

Definition tok_wfb (t : xtok) : bool :=
  match t with
  | XOpen n a | XEmpty n a => name_ok n && attrs_ok a
  | XClose n => name_ok n
  | XTxt s => negb (match s with [] => true | _ => false end) && forallb xml_char s
  end.

Lemma xtext_ok d s ts : xtext d s ts -> forallb tok_wfb ts = true.
Proof.
  induction 1 as [ d | w s ts Hne Hw Hm _ IH
                  | d n a ab s ts Hn Ha Hd _ IH | d n a ab s ts Hn Ha Hd _ IH | d n w s ts Hn Hw _ IH
                  | d v body s ts Hv Hne Hm _ IH | d t s ts Hne Hx Hf _ IH | d s ts _ IH | d t s ts Hx Hf _ IH
                  | d n t s ts Hn Ht Hp _ IH ]; try assumption; try reflexivity; cbn [forallb tok_wfb].
  - unfold attrs_ok. rewrite Hn, (attrs_spell_ok a ab Ha), Hd, IH. reflexivity.
  - unfold attrs_ok. rewrite Hn, (attrs_spell_ok a ab Ha), Hd, IH. reflexivity.
  - rewrite Hn, IH. reflexivity.
  - rewrite (chardata_char v body Hv), IH. destruct v; [congruence | reflexivity].
  - rewrite Hx, IH. destruct t; [congruence | reflexivity].
Qed.

Lemma merge_ok ts : forallb tok_wfb ts = true -> forallb tok_wfb (merge_txt ts) = true.
Proof.
  induction ts as [|t ts IH]; intros H; [reflexivity|].
  cbn [forallb] in H. apply andb_true_iff in H. destruct H as [Ht H]. specialize (IH H).
  destruct t as [n a|n a|n|s]; cbn [merge_txt]; try (cbn [forallb]; rewrite Ht, IH; reflexivity).
  destruct (merge_txt ts) as [|t2 r'].
  - cbn [forallb]. rewrite Ht. reflexivity.
  - destruct t2 as [n a|n a|n|b]; try (cbn [forallb] in IH |- *; rewrite Ht, IH; reflexivity).
    cbn [forallb tok_wfb] in *. apply andb_true_iff in IH. destruct IH as [Hb IH].
    apply andb_true_iff in Ht. destruct Ht as [Hs1 Hs2]. apply andb_true_iff in Hb. destruct Hb as [_ Hb2].
    rewrite IH, forallb_app', Hs2, Hb2. destruct s; [discriminate | reflexivity].
Qed.

Lemma merge_no_adj ts : no_adj_txt (merge_txt ts) = true.
Proof.
  induction ts as [|t ts IH]; [reflexivity|].
  destruct t as [n a|n a|n|s]; cbn [merge_txt]; try (cbn [no_adj_txt is_txt andb negb]; exact IH).
  destruct (merge_txt ts) as [|t2 r']; [reflexivity|].
  destruct t2 as [n a|n a|n|b]; try (cbn [no_adj_txt first_txt is_txt andb negb] in IH |- *; exact IH).
Qed.

Lemma no_adj_app a b : no_adj_txt (a ++ b) = true -> no_adj_txt a = true /\ no_adj_txt b = true.
Proof.
  induction a as [|t a IH]; intros H; [split; [reflexivity | exact H]|].
  cbn [app no_adj_txt] in H |- *. apply andb_true_iff in H. destruct H as [H1 H2].
  destruct (IH H2) as [Ia Ib]. split; [|exact Ib]. rewrite Ia, andb_true_r.
  destruct a as [|t2 a]; [cbn [first_txt]; rewrite andb_false_r; reflexivity | exact H1].
Qed.

Lemma xtoks_wf :
  (forall x toks, xtoks x toks -> forallb tok_wfb toks = true -> no_adj_txt toks = true -> xwfb x = true) /\
  (forall ch l, xtoks_list ch l -> forallb tok_wfb l = true -> no_adj_txt l = true ->
     forallb xwfb ch = true /\ no_adj_text ch = true).
Proof.
  apply xtoks_both.
  - intros s H _. cbn [forallb tok_wfb] in H. rewrite andb_true_r in H. exact H.
  - intros n a H _. cbn [forallb tok_wfb] in H. rewrite andb_true_r in H. cbn [xwfb forallb no_adj_text].
    rewrite H. reflexivity.
  - intros n a ch l _ IH H Hadj. cbn [forallb tok_wfb] in H. apply andb_true_iff in H. destruct H as [H1 H2].
    rewrite forallb_app' in H2. apply andb_true_iff in H2. destruct H2 as [H2 _].
    cbn [no_adj_txt is_txt andb negb] in Hadj. destruct (no_adj_app _ _ Hadj) as [Hadj' _].
    destruct (IH H2 Hadj') as [I1 I2]. cbn [xwfb]. rewrite H1, I1, I2. reflexivity.
  - intros _ _. split; reflexivity.
  - intros x ch t l Hx IHx Hl IHl H Hadj. rewrite forallb_app' in H. apply andb_true_iff in H. destruct H as [H1 H2].
    destruct (no_adj_app _ _ Hadj) as [A1 A2]. destruct (IHl H2 A2) as [I1 I2].
    split; [cbn [forallb]; rewrite (IHx H1 A1), I1; reflexivity|].
    destruct ch as [|y ch']; [reflexivity|].
    change (no_adj_text (x :: y :: ch')) with (negb (is_text x && is_text y) && no_adj_text (y :: ch')).
    rewrite I2, andb_true_r. apply negb_true_iff.
    destruct x as [n a c|s]; [reflexivity|]. destruct y as [n a c|s']; [reflexivity|]. exfalso.
    inversion Hx; subst. inversion Hl; subst.
    match goal with Hy : xtoks (XText s') _ |- _ => inversion Hy; subst end.
    cbn in Hadj. discriminate.
Qed.

Theorem xrenders_wf s x : xrenders s x -> xwf x.
Proof.
  intros [decl [body [ts [toks [_ [_ [Ht [Em [Hx Hel]]]]]]]]]. split; [|exact Hel].
  pose proof (merge_ok ts (xtext_ok 0 body ts Ht)) as Hok. pose proof (merge_no_adj ts) as Hadj.
  rewrite Em in Hok, Hadj. exact (proj1 xtoks_wf x toks Hx Hok Hadj).
Qed.

(* whatever the reference parser returns can be printed and is read back from the print *)
Corollary xml_cps_reprint s0 x : xml_parse_cps s0 = XOk x -> xml_parse_cps (xml_print_cps x) = XOk x.
Proof. intros H. apply xml_cps_parse_print. exact (xrenders_wf _ _ (xml_cps_sound _ _ H)). Qed.

(* ================================================================== the free choices, by example *)

(* a declaration with an encoding, CR LF line ends, a comment, a processing instruction, an attribute in single
   quotes with white space around the equals sign and a tab in its value, a decimal and a hexadecimal character
   reference, an empty-element tag, an entity reference, a CDATA section, white space in the end tag:
     <?xml version=[dq]1.0[dq] encoding='UTF-8'?>[CR][LF]
     <!-- c --><?pi data?><a k = 'v[TAB]1' j=[dq]&#65;&#x42;[dq]><b/>x&lt;<![CDATA[<y>]]></a >[CR][LF] *)
Example xrenders_example :
  xrenders (norm_eol
    [60; 63; 120; 109; 108; 32; 118; 101; 114; 115; 105; 111; 110; 61; 34; 49; 46; 48; 34; 32; 101; 110; 99; 111;
     100; 105; 110; 103; 61; 39; 85; 84; 70; 45; 56; 39; 63; 62; 13; 10; 60; 33; 45; 45; 32; 99; 32; 45; 45; 62;
     60; 63; 112; 105; 32; 100; 97; 116; 97; 63; 62; 60; 97; 32; 107; 32; 61; 32; 39; 118; 9; 49; 39; 32; 106; 61;
     34; 38; 35; 54; 53; 59; 38; 35; 120; 52; 50; 59; 34; 62; 60; 98; 47; 62; 120; 38; 108; 116; 59; 60; 33; 91;
     67; 68; 65; 84; 65; 91; 60; 121; 62; 93; 93; 62; 60; 47; 97; 32; 62; 13; 10])
    (XElem [97] [([107], [118; 32; 49]); ([106], [65; 66])] [XElem [98] [] []; XText [120; 60; 60; 121; 62]]).
Proof. apply xml_cps_sound. vm_compute. reflexivity. Qed.

(* ================================================================== what free_of says, delimiter by delimiter *)

(* the text of a comment, as production 15 has it: ((Char - '-') | ('-' (Char - '-')))* *)
Inductive comment_text : list N -> Prop :=
| ct_nil : comment_text []
| ct_char c t : c <> 45 -> comment_text t -> comment_text (c :: t)
| ct_hyphen c t : c <> 45 -> comment_text t -> comment_text (45 :: c :: t).

Lemma comment_text_free t : comment_text t -> free_of [45; 45] t = true.
Proof.
  induction 1 as [|c t Hc _ IH|c t Hc _ IH]; [reflexivity| |].
  - cbn [free_of]. rewrite IH, andb_true_r. unfold starts. cbn [strip_prefix].
    assert (E : (45 =? c) = false) by lia. rewrite E. reflexivity.
  - cbn [free_of]. rewrite IH, andb_true_r. unfold starts. cbn [strip_prefix app].
    assert (E : (45 =? c) = false) by lia. rewrite E. change (45 =? 45) with true. reflexivity.
Qed.

Lemma free_comment_text n : forall t, (length t <= n)%nat -> free_of [45; 45] t = true -> comment_text t.
Proof.
  induction n as [|n IH]; intros t Hl H.
  - destruct t; [constructor | cbn in Hl; lia].
  - destruct t as [|c t]; [constructor|]. cbn [length] in Hl.
    cbn [free_of] in H. apply andb_true_iff in H. destruct H as [H1 H2]. apply negb_true_iff in H1.
    destruct (c =? 45) eqn:Ec.
    + apply N.eqb_eq in Ec. subst c. destruct t as [|c' t'].
      * vm_compute in H1. discriminate.
      * unfold starts in H1. cbn [strip_prefix app] in H1. change (45 =? 45) with true in H1. cbv iota in H1.
        cbn [free_of] in H2. apply andb_true_iff in H2. destruct H2 as [_ H2]. cbn [length] in Hl.
        apply ct_hyphen; [|apply IH; [lia | exact H2]].
        destruct (45 =? c') eqn:E; [discriminate | lia].
    + apply ct_char; [lia | apply IH; [lia | exact H2]].
Qed.

Theorem free_of_comment t : free_of [45; 45] t = true <-> comment_text t.
Proof. split; [apply (free_comment_text (length t)); lia | apply comment_text_free]. Qed.

(* d occurs in s *)
Fixpoint contains (d s : list N) : bool :=
  match s with
  | [] => starts d []
  | _ :: r => starts d s || contains d r
  end.

(* CData, production 20: Char* - (Char* ']]>' Char* ) *)
Theorem free_of_cdata t : free_of [93; 93; 62] t = negb (contains [93; 93; 62] t).
Proof.
  induction t as [|c t IH]; [reflexivity|]. cbn [free_of contains]. rewrite IH, negb_orb. f_equal. f_equal.
  unfold starts. cbn [strip_prefix]. destruct (93 =? c); [|reflexivity].
  destruct t as [|x [|y t]]; cbn [app strip_prefix].
  - reflexivity.
  - destruct (93 =? x); reflexivity.
  - destruct (93 =? x); [|reflexivity]. destruct (62 =? y); reflexivity.
Qed.

(* the text of a processing instruction, production 16: Char* - (Char* '?>' Char* ) *)
Theorem free_of_pi t : free_of [63; 62] t = negb (contains [63; 62] t).
Proof.
  induction t as [|c t IH]; [reflexivity|]. cbn [free_of contains]. rewrite IH, negb_orb. f_equal. f_equal.
  unfold starts. cbn [strip_prefix]. destruct (63 =? c); [|reflexivity].
  destruct t as [|x t]; cbn [app strip_prefix]; [reflexivity|]. destruct (62 =? x); reflexivity.
Qed.

(* ================================================================== strict where an earlier version was wider than XML 1.0 *)

(* An earlier version of the reference parser was wider than the recommendation at two places: white space before and
   after the document element could be spelled by character references or CDATA sections (and an empty CDATA section
   was tolerated there), and references were expanded in the values of the pseudo-attributes of the XML declaration.
   With the depth index of xtext and the literal values of declval_spells these texts are no texts of the subset, and
   the parser rejects them. *)
Example strict_prolog_reference :     (* &#32;<a/> *)
  xml_parse_cps [38; 35; 51; 50; 59; 60; 97; 47; 62] = XErr.
Proof. vm_compute. reflexivity. Qed.
Example strict_prolog_cdata :         (* <![CDATA[ ]]><a/> *)
  xml_parse_cps [60; 33; 91; 67; 68; 65; 84; 65; 91; 32; 93; 93; 62; 60; 97; 47; 62] = XErr.
Proof. vm_compute. reflexivity. Qed.
Example strict_epilog_cdata :         (* <a/><![CDATA[ ]]> *)
  xml_parse_cps [60; 97; 47; 62; 60; 33; 91; 67; 68; 65; 84; 65; 91; 32; 93; 93; 62] = XErr.
Proof. vm_compute. reflexivity. Qed.
Example strict_decl_reference :       (* <?xml version='&#49;.0'?><a/> *)
  xml_parse_cps [60; 63; 120; 109; 108; 32; 118; 101; 114; 115; 105; 111; 110; 61; 39; 38; 35; 52; 57; 59; 46; 48; 39;
                 63; 62; 60; 97; 47; 62] = XErr.
Proof. vm_compute. reflexivity. Qed.
Example strict_prolog_cdata_empty :   (* <![CDATA[]]><a/> *)
  xml_parse_cps [60; 33; 91; 67; 68; 65; 84; 65; 91; 93; 93; 62; 60; 97; 47; 62] = XErr.
Proof. vm_compute. reflexivity. Qed.

(* what Misc does allow: literal white space, a comment and a processing instruction, before and after the root:
     <?xml version='1.0'?>[SP][LF]<!-- --><?p x?>[TAB]<a/>[LF]<!----><?p?>[SP][LF] *)
Example strict_misc_accepted :
  xml_parse_cps [60; 63; 120; 109; 108; 32; 118; 101; 114; 115; 105; 111; 110; 61; 39; 49; 46; 48; 39; 63; 62;
                 32; 10; 60; 33; 45; 45; 32; 45; 45; 62; 60; 63; 112; 32; 120; 63; 62; 9; 60; 97; 47; 62; 10;
                 60; 33; 45; 45; 45; 45; 62; 60; 63; 112; 63; 62; 32; 10] = XOk (XElem [97] [] []).
Proof. vm_compute. reflexivity. Qed.
