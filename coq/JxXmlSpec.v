(* JxXmlSpec.v — the XML 1.0 (5th ed.) subset that the XML archive produces and accepts, written from
   the recommendation: optional XML declaration, elements (start/end/empty-element tags), attributes
   (with attribute-value normalisation, 3.3.3), character data, CDATA sections, the five predefined
   entities, decimal and hexadecimal character references, comments and processing instructions
   (skipped), end-of-line normalisation (2.11).  Outside the subset (rejected): DOCTYPE declarations,
   hence general entities other than the predefined ones.  The subset is strict in the two places
   where a token-level reader is easily too generous: outside the document element only literal
   white space, comments and processing instructions are read (Misc, production 27: no character
   references, no CDATA sections, not even an empty one), and the values of the pseudo-attributes of
   the XML declaration are literal text (VersionNum, EncName, yes or no: no references are
   expanded there).  Nothing here mentions pugixml or BitSerializer.  Text is a list of code points
   (see JxJsonSpec for the byte level). *)
From BS Require Import Base UtfSpec UtfModel JxJsonSpec.
Local Open Scope N_scope.

(* ------------------------------------------------------------------ DOM *)

Inductive xnode :=
| XElem (name : list N) (attrs : list (list N * list N)) (children : list xnode)
| XText (s : list N).

(* ------------------------------------------------------------------ characters (productions 2, 3, 4, 4a) *)

Definition xml_char (c : N) : bool :=
  (c =? 9) || (c =? 10) || (c =? 13) || ((32 <=? c) && (c <=? 0xD7FF)) ||
  ((0xE000 <=? c) && (c <=? 0xFFFD)) || ((0x10000 <=? c) && (c <=? 0x10FFFF)).

Definition is_xws (c : N) : bool := (c =? 32) || (c =? 9) || (c =? 10) || (c =? 13).

Definition name_start (c : N) : bool :=
  (c =? 58) || ((65 <=? c) && (c <=? 90)) || (c =? 95) || ((97 <=? c) && (c <=? 122)) ||
  ((0xC0 <=? c) && (c <=? 0xD6)) || ((0xD8 <=? c) && (c <=? 0xF6)) || ((0xF8 <=? c) && (c <=? 0x2FF)) ||
  ((0x370 <=? c) && (c <=? 0x37D)) || ((0x37F <=? c) && (c <=? 0x1FFF)) || ((0x200C <=? c) && (c <=? 0x200D)) ||
  ((0x2070 <=? c) && (c <=? 0x218F)) || ((0x2C00 <=? c) && (c <=? 0x2FEF)) || ((0x3001 <=? c) && (c <=? 0xD7FF)) ||
  ((0xF900 <=? c) && (c <=? 0xFDCF)) || ((0xFDF0 <=? c) && (c <=? 0xFFFD)) || ((0x10000 <=? c) && (c <=? 0xEFFFF)).

Definition name_char (c : N) : bool :=
  name_start c || (c =? 45) || (c =? 46) || ((48 <=? c) && (c <=? 57)) || (c =? 0xB7) ||
  ((0x300 <=? c) && (c <=? 0x36F)) || ((0x203F <=? c) && (c <=? 0x2040)).

Fixpoint span (p : N -> bool) (s : list N) : list N * list N :=
  match s with
  | c :: r => if p c then let (a, r') := span p r in (c :: a, r') else ([], s)
  | [] => ([], [])
  end.

Definition skip_ws (s : list N) : list N := snd (span is_xws s).

(* Name ::= NameStartChar (NameChar)* *)
Definition lex_name (s : list N) : option (list N * list N) :=
  match s with
  | c :: r => if name_start c then let (n, r') := span name_char r in Some (c :: n, r') else None
  | [] => None
  end.

Definition name_ok (n : list N) : bool := match lex_name n with Some (_, []) => true | _ => false end.

Fixpoint list_eqb (a b : list N) : bool :=
  match a, b with
  | [], [] => true
  | x :: a', y :: b' => (x =? y) && list_eqb a' b'
  | _, _ => false
  end.

(* ------------------------------------------------------------------ end-of-line handling (2.11) *)

Fixpoint norm_eol (s : list N) : list N :=
  match s with
  | [] => []
  | c :: r =>
    if c =? 13 then
      10 :: match r with
            | c2 :: r2 => if c2 =? 10 then norm_eol r2 else norm_eol r
            | [] => []
            end
    else c :: norm_eol r
  end.

(* ------------------------------------------------------------------ references (4.1, 4.6) *)

Definition hex_val (ds : list N) : option N :=
  fold_left (fun a c => match a, hexval c with Some x, Some h => Some (x * 16 + h) | _, _ => None end) ds (Some 0).
Definition dec_val (ds : list N) : option N :=
  fold_left (fun a c => match a with Some x => if is_digit c then Some (x * 10 + (c - 48)) else None | None => None end) ds (Some 0).

(* the text between '&' and ';' *)
Definition decode_ref (n : list N) : option N :=
  if list_eqb n [97; 109; 112] then Some 38                 (* amp *)
  else if list_eqb n [108; 116] then Some 60                (* lt *)
  else if list_eqb n [103; 116] then Some 62                (* gt *)
  else if list_eqb n [113; 117; 111; 116] then Some 34      (* quot *)
  else if list_eqb n [97; 112; 111; 115] then Some 39       (* apos *)
  else match n with
       | 35 :: 120 :: (_ :: _) as ds =>
         match hex_val (tl (tl n)) with Some v => if xml_char v then Some v else None | None => None end
       | 35 :: (_ :: _) as ds =>
         match dec_val (tl n) with Some v => if xml_char v then Some v else None | None => None end
       | _ => None
       end.

(* ------------------------------------------------------------------ character data and attribute values *)

Definition starts (p s : list N) : bool := match strip_prefix p s with Some _ => true | None => false end.

(* content up to the next '<' (or the end): CharData and References; st = Some r: inside a reference *)
Fixpoint lex_text (st : option (list N)) (acc : list N) (s : list N) {struct s} : option (list N * list N) :=
  match s with
  | [] => match st with None => Some (rev acc, []) | Some _ => None end
  | c :: r =>
    match st with
    | None =>
      if c =? 60 then Some (rev acc, s)
      else if c =? 38 then lex_text (Some []) acc r
      else if (c =? 93) && starts [93; 62] r then None                    (* no ]]> in content *)          
      else if xml_char c then lex_text None (c :: acc) r
      else None
    | Some ra =>
      if c =? 59 then
        match decode_ref (rev ra) with
        | Some cp => lex_text None (cp :: acc) r
        | None => None
        end
      else lex_text (Some (c :: ra)) acc r
    end
  end.

(* AttValue after the opening quote q, normalised per 3.3.3 *)
Fixpoint lex_attval (q : N) (st : option (list N)) (acc : list N) (s : list N) {struct s} : option (list N * list N) :=
  match s with
  | [] => None
  | c :: r =>
    match st with
    | None =>
      if c =? q then Some (rev acc, r)
      else if c =? 60 then None
      else if c =? 38 then lex_attval q (Some []) acc r
      else if is_xws c then lex_attval q None (32 :: acc) r
      else if xml_char c then lex_attval q None (c :: acc) r
      else None
    | Some ra =>
      if c =? 59 then
        match decode_ref (rev ra) with
        | Some cp => lex_attval q None (cp :: acc) r
        | None => None
        end
      else lex_attval q (Some (c :: ra)) acc r
    end
  end.

(* the value of a pseudo-attribute of the XML declaration after the opening quote q: the literal text up to the
   closing quote (productions 24, 26, 32, 80, 81 have no references) *)
Definition lex_declval (q : N) (s : list N) : option (list N * list N) :=
  let (v, r) := span (fun c => negb (c =? q)) s in
  match r with _ :: r' => Some (v, r') | [] => None end.

(* ------------------------------------------------------------------ tags *)

Inductive tagend := EndTag | EndEmpty | EndDecl.      (* '>'  '/>'  '?>' *)

Definition has_key (k : list N) (m : list (list N * list N)) : bool := existsb (fun kv => list_eqb k (fst kv)) m.

(* (S Attribute)* S? then the end of the tag; decl = inside an XML declaration *)
Fixpoint lex_attrs (fuel : nat) (decl : bool) (s : list N) (acc : list (list N * list N))
  : option (list (list N * list N) * tagend * list N) :=
  match fuel with
  | O => None
  | S f =>
    let (w, s1) := span is_xws s in
    match s1 with
    | c :: r =>
      if negb decl && (c =? 62) then Some (rev acc, EndTag, r)
      else if negb decl && (c =? 47) then match r with c2 :: r2 => if c2 =? 62 then Some (rev acc, EndEmpty, r2) else None | [] => None end
      else if decl && (c =? 63) then match r with c2 :: r2 => if c2 =? 62 then Some (rev acc, EndDecl, r2) else None | [] => None end
      else
        match w with
        | [] => None                                      (* white space is required before an attribute *)
        | _ :: _ =>
          match lex_name s1 with
          | None => None
          | Some (n, r1) =>
            match skip_ws r1 with
            | e :: r2 =>
              if e =? 61 then
                match skip_ws r2 with
                | q :: r3 =>
                  if (q =? 34) || (q =? 39) then
                    match (if decl then lex_declval q r3 else lex_attval q None [] r3) with
                    | Some (v, r4) => if has_key n acc then None else lex_attrs f decl r4 ((n, v) :: acc)
                    | None => None
                    end
                  else None
                | [] => None
                end
              else None
            | [] => None
            end
          end
        end
    | [] => None
    end
  end.

(* the text before the first occurrence of a delimiter, and the text after it; every character legal *)
Fixpoint scan_until (delim : list N) (s : list N) : option (list N * list N) :=
  match strip_prefix delim s with
  | Some r => Some ([], r)
  | None =>
    match s with
    | c :: r => if xml_char c then
                  match scan_until delim r with Some (a, r') => Some (c :: a, r') | None => None end
                else None
    | [] => None
    end
  end.

(* ------------------------------------------------------------------ tokens *)

Inductive xtok :=
| XOpen (name : list N) (attrs : list (list N * list N))
| XEmpty (name : list N) (attrs : list (list N * list N))
| XClose (name : list N)
| XTxt (s : list N).

Inductive xlres := XLOk (ts : list xtok) | XLErr | XLFuel.

Definition xlcons (t : xtok) (r : xlres) : xlres := match r with XLOk ts => XLOk (t :: ts) | e => e end.

Definition lower (c : N) : N := if (65 <=? c) && (c <=? 90) then c + 32 else c.
Definition is_xml_target (n : list N) : bool := list_eqb (map lower n) [120; 109; 108].

(* depth = the number of open elements: outside the document element (depth 0) only white space, comments and
   processing instructions may stand between the tags (Misc), and no end tag *)
Fixpoint xlex (fuel : nat) (depth : nat) (s : list N) : xlres :=
  match fuel with
  | O => XLFuel
  | S f =>
    match s with
    | [] => XLOk []
    | c :: r =>
      if c =? 60 then
        match r with
        | [] => XLErr
        | c1 :: r1 =>
          if c1 =? 47 then                                               (* ETag ::= '</' Name S? '>' *)
            match lex_name r1 with
            | Some (n, r2) => match skip_ws r2 with
                              | e :: r3 => if e =? 62 then
                                             match depth with
                                             | O => XLErr
                                             | S d => xlcons (XClose n) (xlex f d r3)
                                             end
                                           else XLErr
                              | [] => XLErr
                              end
            | None => XLErr
            end
          else if c1 =? 63 then                                          (* PI ::= '<?' PITarget (S ...)? '?>' *)
            match lex_name r1 with
            | Some (n, r2) =>
              if is_xml_target n then XLErr
              else
                match r2 with
                | c2 :: _ =>
                  if is_xws c2 || starts [63; 62] r2 then
                    match scan_until [63; 62] r2 with Some (_, r3) => xlex f depth r3 | None => XLErr end
                  else XLErr
                | [] => XLErr
                end
            | None => XLErr
            end
          else if c1 =? 33 then
            match strip_prefix [45; 45] r1 with
            | Some r2 =>                                                 (* Comment: no -- inside *)  
              match scan_until [45; 45] r2 with
              | Some (_, e :: r3) => if e =? 62 then xlex f depth r3 else XLErr
              | _ => XLErr
              end
            | None =>
              match strip_prefix [91; 67; 68; 65; 84; 65; 91] r1 with   (* CDSect *)
              | Some r2 =>
                match depth with
                | O => XLErr                                             (* not in Misc, not even an empty one *)
                | S _ =>
                  match scan_until [93; 93; 62] r2 with
                  | Some ([], r3) => xlex f depth r3
                  | Some (t, r3) => xlcons (XTxt t) (xlex f depth r3)
                  | None => XLErr
                  end
                end
              | None => XLErr                                            (* DOCTYPE etc.: outside the subset *)
              end
            end
          else                                                           (* STag / EmptyElemTag *)
            match lex_name r with
            | Some (n, r2) =>
              match lex_attrs f false r2 [] with
              | Some (a, EndTag, r3) => xlcons (XOpen n a) (xlex f (S depth) r3)
              | Some (a, EndEmpty, r3) => xlcons (XEmpty n a) (xlex f depth r3)
              | _ => XLErr
              end
            | None => XLErr
            end
        end
      else
        match depth with
        | O =>                                                           (* S in Misc: literal white space only *)
          let (w, r') := span is_xws s in
          match w with [] => XLErr | _ :: _ => xlex f 0 r' end
        | S _ =>
          match lex_text None [] s with
          | Some (t, r') => xlcons (XTxt t) (xlex f depth r')
          | None => XLErr
          end
        end
    end
  end.

(* character data split by comments, PIs, CDATA boundaries is one text *)
Fixpoint merge_txt (ts : list xtok) : list xtok :=
  match ts with
  | XTxt a :: r =>
    match merge_txt r with
    | XTxt b :: r' => XTxt (a ++ b) :: r'
    | r' => XTxt a :: r'
    end
  | t :: r => t :: merge_txt r
  | [] => []
  end.

(* ------------------------------------------------------------------ element structure (production 39) *)

Inductive bres := BOk (n : xnode) (rest : list xtok) | BErr | BFuel.
Inductive cres := COk (ch : list xnode) (closing : list N) (rest : list xtok) | CErr | CFuel.

Fixpoint xbuild (fuel : nat) (ts : list xtok) {struct fuel} : bres :=
  match fuel with
  | O => BFuel
  | S f =>
    match ts with
    | XEmpty n a :: r => BOk (XElem n a []) r
    | XOpen n a :: r =>
      match xchildren f r [] with
      | COk ch n' r' => if list_eqb n n' then BOk (XElem n a ch) r' else BErr     (* WFC: element type match *)
      | CErr => BErr
      | CFuel => BFuel
      end
    | _ => BErr
    end
  end
with xchildren (fuel : nat) (ts : list xtok) (acc : list xnode) {struct fuel} : cres :=
  match fuel with
  | O => CFuel
  | S f =>
    match ts with
    | XClose n :: r => COk (rev acc) n r
    | XTxt s :: r => xchildren f r (XText s :: acc)
    | [] => CErr
    | _ =>
      match xbuild f ts with
      | BOk n r => xchildren f r (n :: acc)
      | BErr => CErr
      | BFuel => CFuel
      end
    end
  end.

(* ------------------------------------------------------------------ documents *)

Inductive xres := XOk (root : xnode) | XErr | XFuel.

Definition ws_only (s : list N) : bool := forallb is_xws s.

(* XMLDecl ::= '<?xml' VersionInfo EncodingDecl? SDDecl? S? '?>' : the pseudo-attributes, in this order *)
Definition version_ok (v : list N) : bool :=
  match v with
  | 49 :: 46 :: (_ :: _) as d => forallb is_digit (tl (tl v))
  | _ => false
  end.
Definition enc_name_ok (v : list N) : bool :=
  match v with
  | c :: r => (((65 <=? c) && (c <=? 90)) || ((97 <=? c) && (c <=? 122))) &&
              forallb (fun x => ((65 <=? x) && (x <=? 90)) || ((97 <=? x) && (x <=? 122)) || is_digit x ||
                                (x =? 46) || (x =? 95) || (x =? 45)) r
  | [] => false
  end.
Definition yes_no (v : list N) : bool := list_eqb v [121; 101; 115] || list_eqb v [110; 111].

Definition k_version := [118; 101; 114; 115; 105; 111; 110].
Definition k_encoding := [101; 110; 99; 111; 100; 105; 110; 103].
Definition k_standalone := [115; 116; 97; 110; 100; 97; 108; 111; 110; 101].

Definition decl_ok (a : list (list N * list N)) : bool :=
  match a with
  | (k1, v1) :: r =>
    list_eqb k1 k_version && version_ok v1 &&
    match r with
    | [] => true
    | [(k2, v2)] => (list_eqb k2 k_encoding && enc_name_ok v2) || (list_eqb k2 k_standalone && yes_no v2)
    | [(k2, v2); (k3, v3)] => list_eqb k2 k_encoding && enc_name_ok v2 && list_eqb k3 k_standalone && yes_no v3
    | _ => false
    end
  | [] => false
  end.

(* the declaration, if the text starts with one: its pseudo-attributes and the remaining text *)
Definition split_decl (s : list N) : option (option (list (list N * list N)) * list N) :=
  match strip_prefix [60; 63; 120; 109; 108] s with
  | Some r =>
    match r with
    | c :: _ =>
      if is_xws c then
        match lex_attrs (S (length r)) true r [] with
        | Some (a, EndDecl, r') => if decl_ok a then Some (Some a, r') else None
        | _ => None
        end
      else Some (None, s)               (* a processing instruction such as <?xml-stylesheet ..?> *)
    | [] => None
    end
  | None => Some (None, s)
  end.

Definition xml_parse_cps (s0 : list N) : xres :=
  let s := norm_eol s0 in
  match split_decl s with
  | None => XErr
  | Some (_, s1) =>
    match xlex (S (length s1)) 0 s1 with
    | XLErr => XErr
    | XLFuel => XFuel
    | XLOk ts =>
      let ts1 := merge_txt ts in
      match xbuild (2 * length ts1 + 2) ts1 with
      | BOk root [] => XOk root
      | BOk _ (_ :: _) => XErr                        (* exactly one document element *)
      | BErr => XErr
      | BFuel => XFuel
      end
    end
  end.

(* the encoding named by the declaration, if any *)
Definition xml_declared_encoding (s0 : list N) : option (list N) :=
  match split_decl (norm_eol s0) with
  | Some (Some a, _) =>
    match find (fun kv => list_eqb (fst kv) k_encoding) a with Some kv => Some (snd kv) | None => None end
  | _ => None
  end.

Definition xml_parse (bytes : list N) : xres :=
  match utf8_decode bytes with
  | Some (Some cps) => xml_parse_cps cps
  | Some None => XErr
  | None => XFuel
  end.

(* ------------------------------------------------------------------ printer *)

Definition esc_text (c : N) : list N :=
  if c =? 38 then [38; 97; 109; 112; 59]
  else if c =? 60 then [38; 108; 116; 59]
  else if c =? 62 then [38; 103; 116; 59]
  else if c =? 13 then [38; 35; 49; 51; 59]
  else [c].

Definition esc_attr (c : N) : list N :=
  if c =? 38 then [38; 97; 109; 112; 59]
  else if c =? 60 then [38; 108; 116; 59]
  else if c =? 34 then [38; 113; 117; 111; 116; 59]
  else if c =? 9 then [38; 35; 57; 59]
  else if c =? 10 then [38; 35; 49; 48; 59]
  else if c =? 13 then [38; 35; 49; 51; 59]
  else [c].

Definition attr_text (kv : list N * list N) : list N :=
  32 :: fst kv ++ 61 :: 34 :: flat_map esc_attr (snd kv) ++ [34].

Definition xtok_text (t : xtok) : list N :=
  match t with
  | XOpen n a => 60 :: n ++ flat_map attr_text a ++ [62]
  | XEmpty n a => 60 :: n ++ flat_map attr_text a ++ [47; 62]
  | XClose n => 60 :: 47 :: n ++ [62]
  | XTxt s => flat_map esc_text s
  end.

Fixpoint xtokens_of (x : xnode) : list xtok :=
  match x with
  | XElem n a ch => XOpen n a :: flat_map xtokens_of ch ++ [XClose n]
  | XText s => [XTxt s]
  end.

(* <?xml version=[dq]1.0[dq]?> *)
Definition xml_decl_text : list N :=
  [60; 63; 120; 109; 108; 32; 118; 101; 114; 115; 105; 111; 110; 61; 34; 49; 46; 48; 34; 63; 62].

Definition xml_print_cps (root : xnode) : list N := xml_decl_text ++ flat_map xtok_text (xtokens_of root).
Definition xml_print (root : xnode) : list N := encs W8 (xml_print_cps root).

(* ------------------------------------------------------------------ well-formed DOMs *)

Fixpoint keys_distinct (m : list (list N * list N)) : bool :=
  match m with
  | [] => true
  | (k, _) :: r => negb (has_key k r) && keys_distinct r
  end.

Definition attrs_ok (a : list (list N * list N)) : bool :=
  forallb (fun kv => name_ok (fst kv) && forallb xml_char (snd kv)) a && keys_distinct a.

Definition is_text (x : xnode) : bool := match x with XText _ => true | _ => false end.

Fixpoint no_adj_text (l : list xnode) : bool :=
  match l with
  | a :: ((b :: _) as r) => negb (is_text a && is_text b) && no_adj_text r
  | _ => true
  end.

Fixpoint xwfb (x : xnode) : bool :=
  match x with
  | XElem n a ch => name_ok n && attrs_ok a && forallb xwfb ch && no_adj_text ch
  | XText s => negb (match s with [] => true | _ => false end) && forallb xml_char s
  end.

(* a document: the root is an element *)
Definition xwf (x : xnode) : Prop := xwfb x = true /\ is_text x = false.
