(* MpLemmas.v — basic facts about the byte-level helpers of MpSpec.v *)
From BS Require Import Base MpSpec.
From Coq Require Import ZifyBool ZifyN ZifyNat.
Local Open Scope N_scope.
Ltac Zify.zify_post_hook ::= Z.div_mod_to_equations.

Lemma be_val_snoc l b : be_val (l ++ [b]) = be_val l * 256 + b.
Proof. unfold be_val. rewrite fold_left_app. reflexivity. Qed.

Lemma be_bytes_length k v : length (be_bytes k v) = k.
Proof. revert v. induction k as [|k IH]; intros v; cbn [be_bytes]; [reflexivity|]. rewrite app_length, IH. cbn. lia. Qed.

Lemma be_val_bytes k : forall v, v < 256 ^ N.of_nat k -> be_val (be_bytes k v) = v.
Proof.
  induction k as [|k IH]; intros v Hv.
  - cbn in *. unfold be_val. cbn. lia.
  - cbn [be_bytes]. rewrite be_val_snoc. rewrite IH.
    + rewrite (N.div_mod v 256) at 3 by discriminate. lia.
    + rewrite Nat2N.inj_succ, N.pow_succ_r' in Hv. apply N.div_lt_upper_bound; [discriminate|]. lia.
Qed.

Lemma be_bytes_bytes k : forall v, Forall (fun b => b < 256) (be_bytes k v).
Proof.
  induction k as [|k IH]; intros v; cbn [be_bytes]; [constructor|].
  apply Forall_app. split; [apply IH|]. constructor; [|constructor]. apply N.mod_upper_bound. discriminate.
Qed.

Lemma take_app (a rest : list N) : take (N.of_nat (length a)) (a ++ rest) = Some (a, rest).
Proof.
  unfold take. rewrite app_length, Nat2N.id.
  replace (N.of_nat (length a) <=? N.of_nat (length a + length rest)) with true by (symmetry; lia).
  rewrite firstn_app_exact, skipn_app_exact. reflexivity.
Qed.

Lemma take_app_n n (a rest : list N) : n = N.of_nat (length a) -> take n (a ++ rest) = Some (a, rest).
Proof. intros ->. apply take_app. Qed.

Lemma take_some n d a r : take n d = Some (a, r) -> d = a ++ r /\ N.of_nat (length a) = n.
Proof.
  unfold take. destruct (n <=? N.of_nat (length d)) eqn:E; [|discriminate].
  intros H. injection H as <- <-. split; [symmetry; apply firstn_skipn|].
  rewrite firstn_length. lia.
Qed.

Lemma take_none n d : take n d = None -> N.of_nat (length d) < n.
Proof. unfold take. destruct (n <=? N.of_nat (length d)) eqn:E; [discriminate|]. lia. Qed.

Lemma take_len_app k v rest : v < 256 ^ N.of_nat k ->
  take_len (N.of_nat k) (be_bytes k v ++ rest) = Some (v, rest).
Proof.
  intros Hv. unfold take_len. rewrite take_app_n by (rewrite be_bytes_length; reflexivity).
  cbn [bind]. rewrite be_val_bytes by exact Hv. reflexivity.
Qed.

(* two's complement *)
Lemma to_signed_twos bits z : 0 < bits ->
  (- 2 ^ (Z.of_N bits - 1) <= z < 2 ^ (Z.of_N bits - 1))%Z ->
  to_signed bits (Z.to_N (z mod 2 ^ Z.of_N bits)) = z.
Proof.
  intros Hb Hz. unfold to_signed.
  assert (Hp : (2 ^ Z.of_N bits = 2 * 2 ^ (Z.of_N bits - 1))%Z).
  { rewrite <- Z.pow_succ_r by lia. f_equal. lia. }
  assert (Hpos : (0 < 2 ^ (Z.of_N bits - 1))%Z) by (apply Z.pow_pos_nonneg; lia).
  assert (HN : Z.of_N (2 ^ bits) = (2 ^ Z.of_N bits)%Z) by (rewrite N2Z.inj_pow; reflexivity).
  assert (HN1 : Z.of_N (2 ^ (bits - 1)) = (2 ^ (Z.of_N bits - 1))%Z).
  { rewrite N2Z.inj_pow. f_equal. lia. }
  set (P := (2 ^ (Z.of_N bits - 1))%Z) in *. set (Q := (2 ^ Z.of_N bits)%Z) in *.
  destruct (Z.ltb_spec z 0) as [Hneg|Hnn].
  - assert (Em : (z mod Q = z + Q)%Z).
    { symmetry. apply Z.mod_unique with (q := (-1)%Z); lia. }
    rewrite Em. rewrite Z2N.id by lia.
    destruct (Z.to_N (z + Q) <? 2 ^ (bits - 1)) eqn:E; [|lia].
    apply N.ltb_lt in E. apply N2Z.inj_lt in E. rewrite Z2N.id in E by lia. lia.
  - assert (Em : (z mod Q = z)%Z) by (apply Z.mod_small; lia).
    rewrite Em. rewrite Z2N.id by lia.
    destruct (Z.to_N z <? 2 ^ (bits - 1)) eqn:E; [reflexivity|].
    apply N.ltb_ge in E. apply N2Z.inj_le in E. rewrite Z2N.id in E by lia. lia.
Qed.

Lemma twos_bound bits z : Z.to_N (z mod 2 ^ Z.of_N bits) < 2 ^ bits.
Proof.
  assert (Hpos : (0 < 2 ^ Z.of_N bits)%Z) by (apply Z.pow_pos_nonneg; lia).
  pose proof (Z.mod_pos_bound z _ Hpos) as Hb.
  apply N2Z.inj_lt. rewrite Z2N.id by lia. rewrite N2Z.inj_pow. exact (proj2 Hb).
Qed.
