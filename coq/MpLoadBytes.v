(* MpLoadBytes.v — what SaveObject writes consists of bytes: every emitter of MpModel.v pushes values < 256
   (headers are constants or tag + small count, payloads are big-endian images), the payload of a string / byte
   container is copied — so the only condition is on the VALUE: its strings and byte containers hold bytes. *)
From BS Require Import Base MpSpec MpModel MpLemmas MpWriter MpSaveModel MpSave MpScopeLemmas.
From Coq Require Import ZifyBool ZifyN ZifyNat.
Local Open Scope N_scope.
Ltac Zify.zify_post_hook ::= Z.div_mod_to_equations.

(* the strings and byte containers of the value tree hold bytes (C++ char): all < 256 *)
Fixpoint wf_bytes (v : tv) : bool :=
  match v with
  | TStr s | TBytes s => forallb (fun b => b <? 256) s
  | TArr l => (fix go (l : list tv) : bool := match l with [] => true | x :: t => wf_bytes x && go t end) l
  | TObj kvs => (fix go (l : list (tv * tv)) : bool :=
                   match l with [] => true | (k, x) :: t => wf_bytes k && wf_bytes x && go t end) kvs
  | _ => true
  end.

Fixpoint wfb_list (l : list tv) : bool := match l with [] => true | x :: t => wf_bytes x && wfb_list t end.
Fixpoint wfb_pairs (l : list (tv * tv)) : bool :=
  match l with [] => true | (k, x) :: t => wf_bytes k && wf_bytes x && wfb_pairs t end.
Lemma wfb_arr l : wf_bytes (TArr l) = wfb_list l.
Proof. reflexivity. Qed.
Lemma wfb_obj l : wf_bytes (TObj l) = wfb_pairs l.
Proof. reflexivity. Qed.

Lemma bytes_of_forallb l : forallb (fun b => b <? 256) l = true -> bytes l.
Proof.
  intros H. apply Forall_forall. intros b Hin. rewrite forallb_forall in H. specialize (H b Hin). unfold byte. lia.
Qed.

Lemma bytes_app2 (a b : list N) : bytes a -> bytes b -> bytes (a ++ b).
Proof. intros Ha Hb. apply Forall_app. split; assumption. Qed.

Lemma twos8_lt z : twos 8 z < 256.
Proof. unfold twos. change (2 ^ Z.of_N 8)%Z with 256%Z. pose proof (Z.mod_pos_bound z 256). lia. Qed.

Lemma wr_int_bytes k z : ikind_range k z = true -> bytes (wr_int k z).
Proof.
  destruct k; cbn [wr_int ikind_range]; intros H;
    unfold wr_u64, wr_u32, wr_u16, wr_u8, wr_i64, wr_i32, wr_i16, wr_i8;
    repeat match goal with |- context [if ?c then _ else _] => destruct c eqn:? end;
    repeat (apply Forall_cons || apply Forall_nil || apply be_bytes_bytes); unfold byte; try apply twos8_lt; lia.
Qed.

Lemma str_header_bytes n h : wr_str_header n = Some h -> bytes h.
Proof.
  unfold wr_str_header. repeat match goal with |- context [if ?c then _ else _] => destruct c eqn:? end;
    intros H; try discriminate; injection H as <-;
    repeat (apply Forall_cons || apply Forall_nil || apply be_bytes_bytes); unfold byte; try lia.
  rewrite (lor_tag n 0xA0 5 eq_refl) by (change (2 ^ 5) with 32; lia). lia.
Qed.

Lemma bin_header_bytes n h : wr_bin_header n = Some h -> bytes h.
Proof.
  unfold wr_bin_header. repeat match goal with |- context [if ?c then _ else _] => destruct c eqn:? end;
    intros H; try discriminate; injection H as <-;
    repeat (apply Forall_cons || apply Forall_nil || apply be_bytes_bytes); unfold byte; lia.
Qed.

Lemma array_header_bytes n h : wr_array_header n = Some h -> bytes h.
Proof.
  unfold wr_array_header. repeat match goal with |- context [if ?c then _ else _] => destruct c eqn:? end;
    intros H; try discriminate; injection H as <-;
    repeat (apply Forall_cons || apply Forall_nil || apply be_bytes_bytes); unfold byte; try lia.
  rewrite (lor_tag n 0x90 4 eq_refl) by (change (2 ^ 4) with 16; lia). lia.
Qed.

Lemma map_header_bytes n h : wr_map_header n = Some h -> bytes h.
Proof.
  unfold wr_map_header. repeat match goal with |- context [if ?c then _ else _] => destruct c eqn:? end;
    intros H; try discriminate; injection H as <-;
    repeat (apply Forall_cons || apply Forall_nil || apply be_bytes_bytes); unfold byte; try lia.
  rewrite (lor_tag n 0x80 4 eq_refl) by (change (2 ^ 4) with 16; lia). lia.
Qed.

(* SaveObject writes bytes *)
Theorem save_bytes : forall v b, wf_tv v -> wf_bytes v = true -> save v = Some b -> bytes b.
Proof.
  apply (tv_ind2 (fun v => forall b, wf_tv v -> wf_bytes v = true -> save v = Some b -> bytes b)).
  - intros b _ _ H. injection H as <-. repeat constructor.
  - intros x b _ _ H. injection H as <-. destruct x; repeat constructor.
  - intros k z b Hw _ H. cbn [save] in H. injection H as <-. apply wr_int_bytes. exact Hw.
  - intros x b _ _ H. cbn [save] in H. injection H as <-. unfold wr_f32. apply Forall_cons; [reflexivity | apply be_bytes_bytes].
  - intros x b _ _ H. cbn [save] in H. injection H as <-. unfold wr_f64. apply Forall_cons; [reflexivity | apply be_bytes_bytes].
  - intros s b _ Hb H. cbn [save] in H. unfold wr_str in H. destruct (wr_str_header _) as [h|] eqn:E; [|discriminate].
    injection H as <-. apply bytes_app2; [exact (str_header_bytes _ _ E) | apply bytes_of_forallb; exact Hb].
  - intros s b _ Hb H. cbn [save] in H. apply opt_app_some in H. destruct H as [h [y [E [Ey ->]]]]. injection Ey as <-.
    apply bytes_app2; [exact (bin_header_bytes _ _ E) | apply bytes_of_forallb; exact Hb].
  - intros l IH b Hw Hb H. rewrite save_arr in H. apply opt_app_some in H. destruct H as [h [y [E [Ey ->]]]].
    apply bytes_app2; [exact (array_header_bytes _ _ E)|].
    rewrite wf_arr in Hw. rewrite wfb_arr in Hb. clear E. revert y Hw Hb Ey.
    induction IH as [|x t Hx Ht IHt]; intros y Hw Hb Ey.
    + injection Ey as <-. constructor.
    + cbn [save_list] in Ey. apply opt_app_some in Ey. destruct Ey as [y1 [y2 [E1 [E2 ->]]]].
      cbn [wf_list] in Hw. destruct Hw as [Hw1 Hw2]. cbn [wfb_list] in Hb. apply andb_true_iff in Hb. destruct Hb as [Hb1 Hb2].
      apply bytes_app2; [exact (Hx y1 Hw1 Hb1 E1) | exact (IHt y2 Hw2 Hb2 E2)].
  - intros kvs IH b Hw Hb H. rewrite save_obj in H. apply opt_app_some in H. destruct H as [h [y [E [Ey ->]]]].
    apply bytes_app2; [exact (map_header_bytes _ _ E)|].
    rewrite wf_obj in Hw. rewrite wfb_obj in Hb. clear E. revert y Hw Hb Ey.
    induction IH as [|[k x] t [Hk Hx] Ht IHt]; intros y Hw Hb Ey.
    + injection Ey as <-. constructor.
    + cbn [save_pairs] in Ey. apply opt_app_some in Ey. destruct Ey as [y1 [y2 [E1 [E2 ->]]]].
      apply opt_app_some in E1. destruct E1 as [yk [yx [Ek [Ex ->]]]].
      cbn [wf_pairs] in Hw. destruct Hw as [Hwk [Hwx Hw2]].
      cbn [wfb_pairs] in Hb. apply andb_true_iff in Hb. destruct Hb as [Hb Hb2]. apply andb_true_iff in Hb. destruct Hb as [Hbk Hbx].
      cbn [fst snd] in *.
      apply bytes_app2; [apply bytes_app2; [exact (Hk yk Hwk Hbk Ek) | exact (Hx yx Hwx Hbx Ex)] | exact (IHt y2 Hw2 Hb2 E2)].
Qed.
