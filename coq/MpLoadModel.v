(* MpLoadModel.v — the typed LOAD of a whole value tree from a MsgPack document, as the generic
   serialization layer (serialization_base_types.h, generic_container.h, key_value_proxy.h) drives the
   read scopes of msgpack_archive.h for a target of a given static shape:
     fundamental types / nullptr_t / std::string -> SerializeValue (one typed read);
     sequence containers (SerializeContainer: vector<T> with T != bool, deque, list) -> OpenArrayScope,
       resize to the announced count, one element load per element while !IsEnd(), an element that is
       not loaded is reset to value_type();
     byte containers (vector<char / signed char / unsigned char>) -> OpenBinaryScope first, then the
       array fallback;
     classes with a Serialize() method -> OpenObjectScope, then one keyed load per member in
       DECLARATION order (archive << KeyValue("name", member)), members not loaded keep their value.
   load_tr is the association-list level: it consumes the scopes' ANSWERS (typed_spec of the value
   found, lookup of a member key) and returns them as tokens together with the loaded value;
   elem_prog / member_prog are the request programs (in the history language of MpScopeSpec.v) the
   layer issues on that document; read_off re-reads the loaded value from the tokens alone.
   Not modelled here: std::map targets (SerializeMapImpl loads each value from inside the VisitKeys
   callback, which the history language cannot express yet), std::vector<bool> (its own loop), tuples,
   validation.  Definitions only. *)
From BS Require Import Base MpSpec MpModel MpSaveModel MpScopeSpec.
Local Open Scope N_scope.

(* ---------- shapes of load targets ---------- *)
Inductive shape :=
| SNil                                   (* std::nullptr_t *)
| SBool
| SInt (k : ikind)
| SF32
| SF64
| SStr                                   (* std::string *)
| SBytes                                 (* std::vector<unsigned char> *)
| SVec (e : shape)                       (* sequence container of e *)
| SClass (ms : list (list N * shape)).   (* class: members (name, shape) in declaration order *)

Definition key_bytes (k : tv) : list N := match k with TStr s => s | _ => [] end.

Fixpoint shape_of (v : tv) : shape :=
  match v with
  | TNil => SNil
  | TBool _ => SBool
  | TInt k _ => SInt k
  | TF32 _ => SF32
  | TF64 _ => SF64
  | TStr _ => SStr
  | TBytes _ => SBytes
  | TArr l => SVec (match l with x :: _ => shape_of x | [] => SNil end)
  | TObj kvs => SClass ((fix go (l : list (tv * tv)) : list (list N * shape) :=
                           match l with [] => [] | (k, x) :: t => (key_bytes k, shape_of x) :: go t end) kvs)
  end.

(* v is a value of the static shape s: arrays are homogeneous, objects are classes with string member names *)
Fixpoint has_shape (v : tv) (s : shape) {struct v} : bool :=
  match v, s with
  | TNil, SNil | TBool _, SBool | TF32 _, SF32 | TF64 _, SF64 | TStr _, SStr | TBytes _, SBytes => true
  | TInt k _, SInt k' => match k, k' with
                         | IU8, IU8 | IU16, IU16 | IU32, IU32 | IU64, IU64 | IS8, IS8 | IS16, IS16 | IS32, IS32 | IS64, IS64 => true
                         | _, _ => false
                         end
  | TArr l, SVec e => (fix all (l : list tv) : bool := match l with [] => true | x :: t => has_shape x e && all t end) l
  | TObj kvs, SClass ms =>
    (fix all (l : list (tv * tv)) (ms : list (list N * shape)) : bool :=
       match l, ms with
       | [], [] => true
       | (k, x) :: t, (name, s') :: ms' =>
         match k with TStr kb => bytes_eqb kb name | _ => false end && has_shape x s' && all t ms'
       | _, _ => false
       end) kvs ms
  | _, _ => false
  end.

Definition ity_of_kind (k : ikind) : ity :=
  match k with
  | IU8 => mkIty false 8 | IU16 => mkIty false 16 | IU32 => mkIty false 32 | IU64 => mkIty false 64
  | IS8 => mkIty true 8 | IS16 => mkIty true 16 | IS32 => mkIty true 32 | IS64 => mkIty true 64
  end.

(* the ReadValue overload a shape of one value selects (None: a container shape) *)
Definition target_of (s : shape) : option target :=
  match s with
  | SNil => Some TgNil
  | SBool => Some (TgInt (mkIty false 1))
  | SInt k => Some (TgInt (ity_of_kind k))
  | SF32 => Some TgF32
  | SF64 => Some TgF64
  | SStr => Some TgStr
  | _ => None
  end.

(* a value-initialised target *)
Fixpoint default_of (s : shape) : tv :=
  match s with
  | SNil => TNil
  | SBool => TBool false
  | SInt k => TInt k 0
  | SF32 => TF32 0
  | SF64 => TF64 0
  | SStr => TStr []
  | SBytes => TBytes []
  | SVec _ => TArr []
  | SClass ms => TObj ((fix go (ms : list (list N * shape)) : list (tv * tv) :=
                          match ms with [] => [] | (k, s') :: t => (TStr k, default_of s') :: go t end) ms)
  end.

(* the C++ object a delivered value becomes *)
Definition of_value (s : shape) (x : value) : tv :=
  match s, x with
  | SNil, _ => TNil
  | SBool, VInt z => TBool (negb (z =? 0)%Z)
  | SInt k, VInt z => TInt k z
  | SF32, VF32 b => TF32 b
  | SF64, VF64 b => TF64 b
  | SStr, VStr b => TStr b
  | _, _ => default_of s
  end.

(* Serialize(...) returned true with the loaded value / returned false (target untouched) / threw *)
Inductive lres := LOk (v : tv) | LNot | LErr (e : serr).

Definition fill (s : shape) (r : lres) : tv := match r with LOk v => v | _ => default_of s end.

Definition byte_of (v : tv) : N := match v with TInt _ z => Z.to_N z | _ => 0 end.

Section Load.
  Variable narrow : N -> option N.
  Variable widen : N -> N.
  Variable o : opts.

  (* a value that is not the container asked for: nil is passed silently, anything else per policy *)
  Definition no_container (v : mpv) : list tok * lres :=
    match v with
    | MNil => ([KNone], LNot)
    | _ => match o_mismatch o with PThrow => ([], LErr (SE EMismatch)) | PSkip => ([KNone], LNot) end
    end.

  Definition scalar_tr (s : shape) (t : target) (v : mpv) : list tok * lres :=
    match typed_spec narrow widen o t v with
    | TVal x => ([KVal x], LOk (of_value s x))
    | TNot => ([KFalse], LNot)
    | TErr e => ([], LErr (SE e))
    end.

  (* SerializeContainer over the elements: IsEnd() before each, the element load, stop at an exception *)
  Section Elements.
    Variable e : shape.
    Variable load_e : mpv -> list tok * lres.
    Fixpoint elems_tr (vs : list mpv) : list tok * list tv * option serr :=
      match vs with
      | [] => ([KIsEnd true], [], None)
      | v :: vs' =>
        match load_e v with
        | (t, LErr err) => (KIsEnd false :: t, [], Some err)
        | (t, r) => match elems_tr vs' with (t', items, err) => (KIsEnd false :: t ++ t', fill e r :: items, err) end
        end
      end.
  End Elements.

  Definition vec_tr (e : shape) (load_e : mpv -> list tok * lres) (mk : list tv -> tv) (v : mpv) : list tok * lres :=
    match v with
    | MArr vs =>
      match elems_tr e load_e vs with
      | (t, items, None) => (KOpen :: t ++ [KClose], LOk (mk items))
      | (t, _, Some err) => (KOpen :: t, LErr err)
      end
    | _ => no_container v
    end.

  Definition absent_toks (s : shape) : list tok :=
    match s with SVec _ | SClass _ => [KNone] | SBytes => [KNone; KNone] | _ => [KFalse] end.

  (* value.Serialize(scope): one keyed load per member, in declaration order; stop at an exception *)
  Section Members.
    Variable load : shape -> mpv -> list tok * lres.
    Variable kvs : list (mpv * mpv).
    Fixpoint members_tr (ms : list (list N * shape)) : list tok * list (tv * tv) * option serr :=
      match ms with
      | [] => ([], [], None)
      | (name, s') :: ms' =>
        match (match lookup (KStr name) kvs with
               | Some x => load s' x
               | None => (absent_toks s', LNot)
               end) with
        | (t, LErr err) => (t, [], Some err)
        | (t, r) => match members_tr ms' with (t', fields, err) => (t ++ t', (TStr name, fill s' r) :: fields, err) end
        end
      end.
  End Members.

  (* answers consumed (as tokens) and loaded value, for a target of shape s at an array-element / root
     position holding the document value v *)
  Fixpoint load_tr (s : shape) (v : mpv) {struct s} : list tok * lres :=
    match s with
    | SVec e => vec_tr e (load_tr e) TArr v
    | SBytes =>
      match v with
      | MBin bs => (KOpen :: map KByte bs ++ [KClose], LOk (TBytes bs))
      | _ =>   (* OpenBinaryScope declines, then the array scope with unsigned char elements *)
        match vec_tr (SInt IU8) (scalar_tr (SInt IU8) (TgInt (mkIty false 8))) (fun items => TBytes (map byte_of items)) v with
        | (t, r) => (KNone :: t, r)
        end
      end
    | SClass ms =>
      match v with
      | MMap kvs =>
        match members_tr load_tr kvs ms with
        | (t, fields, None) => (KOpen :: t ++ [KClose], LOk (TObj fields))
        | (t, _, Some err) => (KOpen :: t, LErr err)
        end
      | _ => no_container v
      end
    | _ => match target_of s with Some t => scalar_tr s t v | None => ([], LNot) end
    end.

  (* LoadObject into a value-initialised target of shape s from a document holding the value v *)
  Definition load_spec (s : shape) (v : mpv) : lres := snd (load_tr s v).
  Definition load_toks (s : shape) (v : mpv) : list tok := fst (load_tr s v).
End Load.

(* ---------- the request programs the generic layer issues ---------- *)
Fixpoint mk_areqs (l : list areq) : areqs := match l with [] => ANil | a :: t => ACons a (mk_areqs t) end.
Fixpoint mk_reqs (l : list req) : reqs := match l with [] => RNil | r :: t => RCons r (mk_reqs t) end.

(* the loop of SerializeContainer on a document array vs: IsEnd, element, ..., IsEnd *)
Definition vec_body (prog_e : mpv -> list areq) (vs : list mpv) : list areq :=
  flat_map (fun v => AEnd :: prog_e v) vs ++ [AEnd].

Definition arr_prog (prog_e : mpv -> list areq) (v : mpv) : areqs :=
  match v with MArr vs => mk_areqs (vec_body prog_e vs) | _ => ANil end.

Definition u8_prog (_ : mpv) : list areq := [AGet (TgInt (mkIty false 8))].

Section MemberProgs.
  Variable mprog : shape -> qkey -> option mpv -> list req.
  Variable kvs : list (mpv * mpv).
  Fixpoint members_prog (ms : list (list N * shape)) : list req :=
    match ms with
    | [] => []
    | (name, s') :: ms' => mprog s' (QStr name) (lookup (KStr name) kvs) ++ members_prog ms'
    end.
End MemberProgs.

(* the program is a function of the shape and of the document: the layer is adaptive only in looping
   while !IsEnd(), in not entering a child scope that was not opened, and in the binary -> array fallback *)
Fixpoint elem_prog (s : shape) (v : mpv) {struct s} : list areq :=
  match s with
  | SVec e => [AArr (arr_prog (elem_prog e) v)]
  | SBytes => match v with
              | MBin bs => [ABin (length bs)]
              | _ => [ABin 0; AArr (arr_prog u8_prog v)]
              end
  | SClass ms => [AObj (match v with MMap kvs => mk_reqs (members_prog member_prog kvs ms) | _ => RNil end)]
  | _ => match target_of s with Some t => [AGet t] | None => [] end
  end
with member_prog (s : shape) (q : qkey) (ov : option mpv) {struct s} : list req :=
  match s with
  | SVec e => [RArr q (match ov with Some v => arr_prog (elem_prog e) v | None => ANil end)]
  | SBytes => match ov with
              | Some (MBin bs) => [RBin q (length bs)]
              | Some v => [RBin q 0; RArr q (arr_prog u8_prog v)]
              | None => [RBin q 0; RArr q ANil]
              end
  | SClass ms => [RObj q (match ov with Some (MMap kvs) => mk_reqs (members_prog member_prog kvs ms) | _ => RNil end)]
  | _ => match target_of s with Some t => [RGet q t] | None => [] end
  end.

(* the history on the root scope: a class at the root opens the root object scope itself *)
Definition class_prog (ms : list (list N * shape)) (kvs : list (mpv * mpv)) : reqs :=
  mk_reqs (members_prog member_prog kvs ms).

Definition vec_prog (e : shape) (vs : list mpv) : areqs := mk_areqs (vec_body (elem_prog e) vs).

(* ---------- reading the loaded value off the scopes' answers alone ---------- *)
(* the generic layer sees nothing of the document but these tokens (true/false + value, scope opened or not,
   IsEnd, the bytes); read_off is what it builds from them for a value-initialised target of shape s *)
Section ReadElems.
  Variable e : shape.
  Variable rd : list tok -> option (lres * list tok).
  Fixpoint read_elems (fuel : nat) (t : list tok) : option (list tv * list tok) :=
    match fuel with
    | O => None
    | S f =>
      match t with
      | KIsEnd true :: KClose :: t' => Some ([], t')
      | KIsEnd false :: t' =>
        match rd t' with
        | Some (r, t'') => match read_elems f t'' with Some (items, t3) => Some (fill e r :: items, t3) | None => None end
        | None => None
        end
      | _ => None
      end
    end.
End ReadElems.

Fixpoint read_bytes (t : list tok) : option (list N * list tok) :=
  match t with
  | KClose :: t' => Some ([], t')
  | KByte b :: t' => match read_bytes t' with Some (bs, t'') => Some (b :: bs, t'') | None => None end
  | _ => None
  end.

Definition read_scalar (s : shape) (t : list tok) : option (lres * list tok) :=
  match t with
  | KVal x :: t' => Some (LOk (of_value s x), t')
  | KFalse :: t' => Some (LNot, t')
  | _ => None
  end.

Section ReadMembers.
  Variable rd : shape -> list tok -> option (lres * list tok).
  Fixpoint read_members (ms : list (list N * shape)) (t : list tok) : option (list (tv * tv) * list tok) :=
    match ms with
    | [] => Some ([], t)
    | (name, s') :: ms' =>
      match rd s' t with
      | Some (r, t') => match read_members ms' t' with Some (fields, t'') => Some ((TStr name, fill s' r) :: fields, t'') | None => None end
      | None => None
      end
    end.
End ReadMembers.

Fixpoint read_off (s : shape) (t : list tok) {struct s} : option (lres * list tok) :=
  match s with
  | SVec e =>
    match t with
    | KNone :: t' => Some (LNot, t')
    | KOpen :: t' => match read_elems e (read_off e) (length t') t' with Some (items, t'') => Some (LOk (TArr items), t'') | None => None end
    | _ => None
    end
  | SBytes =>
    match t with
    | KOpen :: t' => match read_bytes t' with Some (bs, t'') => Some (LOk (TBytes bs), t'') | None => None end
    | KNone :: KNone :: t' => Some (LNot, t')
    | KNone :: KOpen :: t' =>
      match read_elems (SInt IU8) (read_scalar (SInt IU8)) (length t') t' with
      | Some (items, t'') => Some (LOk (TBytes (map byte_of items)), t'')
      | None => None
      end
    | _ => None
    end
  | SClass ms =>
    match t with
    | KNone :: t' => Some (LNot, t')
    | KOpen :: t' =>
      match read_members read_off ms t' with
      | Some (fields, KClose :: t'') => Some (LOk (TObj fields), t'')
      | _ => None
      end
    | _ => None
    end
  | _ => read_scalar s t
  end.

(* LoadObject from bytes, association-list level: the reference decoder, then the typed load *)
Definition load_bytes (narrow : N -> option N) (widen : N -> N) (o : opts) (s : shape) (b : list N) : lres :=
  match decode b with
  | Some (d, _) => load_spec narrow widen o s d
  | None => LErr (SE EParse)
  end.
