(* MpLoadModel.v — the typed LOAD of a whole value tree from a MsgPack document, as the generic
   serialization layer (serialization_base_types.h, generic_container.h, key_value_proxy.h) drives the
   read scopes of msgpack_archive.h for a target of a given static shape:
     fundamental types / nullptr_t / std::string -> SerializeValue (one typed read);
     sequence containers (SerializeContainer: vector<T> with T != bool, deque, list) -> OpenArrayScope,
       resize to the announced count, one element load per element while !IsEnd(), an element that is
       not loaded is reset to value_type();
     byte containers (vector<char / signed char / unsigned char>) -> OpenBinaryScope first, then the
       array fallback;
     classes with a Serialize() method -> OpenObjectScope, then one keyed load per member in
       DECLARATION order (archive << KeyValue("name", member)), members not loaded keep their value.
   load_tr is the association-list level: it consumes the scopes' ANSWERS (typed_spec of the value
   found, lookup of a member key) and returns them as tokens together with the loaded value;
   elem_prog / member_prog are the request programs (in the history language of MpScopeSpec.v) the
   layer issues on that document; read_off re-reads the loaded value from the tokens alone.
     std::array<T, N> / T[N] (SerializeFixedSizeArray) -> OpenArrayScope, one element load per element while
       elements of both sides remain (an element that is not loaded keeps its value), then OutOfRange unless
       both the target and the document array are exhausted;
     std::vector<bool> (its own loop) -> as a sequence container, but an element that is not loaded takes
       the value of the PREVIOUS element (the loop assigns the same local variable again; false for the first);
     std::tuple<T1, .., Tn> (SerializeArray of a tuple, since 9e55af6) -> OpenArrayScope, then per component: IsEnd();
       once it has answered true the array is "shorter" and neither IsEnd() nor a load is issued for the remaining
       components, which keep their values; a shorter array is MismatchedTypes under the Throw policy; then IsEnd()
       once more: elements left over are MismatchedTypes under Throw and passed over under Skip.  An error raised
       inside a component propagates (known finding M02, fixed).  std::pair is a class with the members "key" and
       "value" (SClass);
     std::map<K, V> (SerializeMapImpl) with K = std::string or an integer type -> OpenObjectScope, clear() in
       MapLoadMode::Clean, VisitKeys; in the callback: ConvertByPolicy(archive key -> K), then
         Clean:         try_emplace(hint, key), the keyed load of the mapped value under the ARCHIVE key;
         OnlyExistKeys: find(key); the keyed load into the element found, nothing for a key that is not there;
         UpdateKeys:    the keyed load into cont[key] (a value-initialised element is inserted for a new key);
       a mapped value that is not loaded stays as it was (value-initialised if new); a key that does not fit K is an
       Overflow error or, under the Skip policy, passed over.  The result is ordered by std::less<K>.
       Modelled for archive keys of the class of K (string keys for std::string, integer keys for the integer types)
       that convert to pairwise different K: see `modelled`; the conversions between the classes (text <-> number,
       float / timestamp keys) and two archive keys that convert to the same K are NOT modelled.
     std::multimap<K, V> (SerializeMultiMapImpl) -> OpenArrayScope, clear(); while !IsEnd(): a value-initialised
       std::pair<const K, V> is loaded as the class { "key"; "value" }; if that returned true it is inserted with the
       end as the hint: the pairs are ordered by key and pairs with equal keys keep the order of the document (571471d).
       Content: the array of { key, value } objects in that order (what is saved);
     std::set<K> / std::multiset<K> (SerializeSetImpl) -> OpenArrayScope, clear(); while !IsEnd(): a value-initialised K
       is loaded (the result is ignored: an element that does not load inserts the value-initialised K) and inserted;
       a set drops an element equal to one it has.  Content: the ordered array of the elements;
   THE TARGET HAS A CONTENT when the load starts: load_tr s i v loads the document value v into a target of
   shape s that holds i.  What is not loaded keeps its content: the members of a class, the elements of a
   fixed-size array, the components of a tuple, the mapped values of a map (OnlyExistKeys / UpdateKeys); a sequence
   container is resized to the announced count and an element that is not loaded is RESET to value_type(); a target
   whose scope cannot be opened (nil, a value of another kind under Skip) is left as it is (LNot).
     std::optional<T>, std::unique_ptr<T>, std::shared_ptr<T> (one shape, SOpt e: ownership is not modelled): an empty one
       gets a value-initialised T, then T is loaded into what it holds; if that load returns false the wrapper is
       RESET to empty and returns false itself (LReset: returned false, but the target has changed) — so an absent
       class member, a nil, a mismatch under Skip all leave it EMPTY.  Content: TNil = empty, otherwise the value;
       modelled for T that is itself never nil (not nullptr_t, not another wrapper).
   load_tr is the association-list level: it consumes the scopes' ANSWERS (typed_spec of the value found, lookup of a
   member key) and returns them as tokens together with the loaded value.
   Not modelled here: validation.  On loads that end in an error the tokens are not claimed (only the error).
   Definitions only. *)
From BS Require Import Base MpSpec MpModel MpSaveModel MpScopeSpec.
Local Open Scope N_scope.

(* ---------- shapes of load targets ---------- *)
Inductive kshape := KSStr | KSInt (k : ikind).   (* std::string / an integer type *)

Definition ikind_eqb (k k' : ikind) : bool :=
  match k, k' with
  | IU8, IU8 | IU16, IU16 | IU32, IU32 | IU64, IU64 | IS8, IS8 | IS16, IS16 | IS32, IS32 | IS64, IS64 => true
  | _, _ => false
  end.

Definition key_has (k : tv) (ks : kshape) : bool :=
  match k, ks with
  | TStr _, KSStr => true
  | TInt k _, KSInt k' => ikind_eqb k k'
  | _, _ => false
  end.

(* ---------- std::map: ordering ---------- *)
(* std::less<std::string>: lexicographic on unsigned char, a proper prefix first *)
Fixpoint bytes_ltb (a b : list N) : bool :=
  match a, b with
  | _, [] => false
  | [], _ :: _ => true
  | x :: a', y :: b' => (x <? y) || ((x =? y) && bytes_ltb a' b')
  end.

Definition tkey_ltb (a b : tv) : bool :=
  match a, b with
  | TStr x, TStr y => bytes_ltb x y
  | TInt _ x, TInt _ y => (x <? y)%Z
  | _, _ => false
  end.

(* the pairs of a std::map value: strictly increasing keys *)
Fixpoint pairs_sorted (l : list (tv * tv)) : bool :=
  match l with
  | [] => true
  | (k, _) :: t => (match t with [] => true | (k', _) :: _ => tkey_ltb k k' end) && pairs_sorted t
  end.

Inductive mmode := MClean | MOnlyExist | MUpdate.   (* MapLoadMode *)

(* the member names of std::pair *)
Definition key_name : list N := [0x6B; 0x65; 0x79].
Definition value_name : list N := [0x76; 0x61; 0x6C; 0x75; 0x65].
Definition pair_key (p : tv) : tv := match p with TObj ((_, k) :: _) => k | _ => TNil end.

(* the elements of a set in strictly increasing / of a multiset in non-decreasing order; the pairs of a multimap in
   non-decreasing order of their keys (every later one is not below an earlier one) *)
Fixpoint set_sorted (l : list tv) : bool :=
  match l with [] => true | k :: t => forallb (fun q => tkey_ltb k q) t && set_sorted t end.
Fixpoint mset_sorted (l : list tv) : bool :=
  match l with [] => true | k :: t => forallb (fun q => negb (tkey_ltb q k)) t && mset_sorted t end.
Definition mm_sorted (l : list tv) : bool := mset_sorted (map pair_key l).

Inductive shape :=
| SNil                                   (* std::nullptr_t *)
| SBool
| SInt (k : ikind)
| SF32
| SF64
| SStr                                   (* std::string *)
| SBytes                                 (* std::vector<unsigned char> *)
| SVec (e : shape)                       (* sequence container of e *)
| SClass (ms : list (list N * shape))    (* class: members (name, shape) in declaration order *)
| SMap (m : mmode) (ks : kshape) (e : shape)   (* std::map<K, e> loaded in mode m *)
| SArr (n : nat) (e : shape)             (* std::array<e, n>, e[n] *)
| SVecBool                               (* std::vector<bool> *)
| STuple (ss : list shape)               (* std::tuple<ss...> *)
| SOpt (e : shape)                       (* std::optional<e>, std::unique_ptr<e>, std::shared_ptr<e> *)
| SMMap (ks : kshape) (e : shape)        (* std::multimap<K, e> *)
| SSet (multi : bool) (ks : kshape).     (* std::set<K> / std::multiset<K> *)

Definition key_bytes (k : tv) : list N := match k with TStr s => s | _ => [] end.

Fixpoint shape_of (v : tv) : shape :=
  match v with
  | TNil => SNil
  | TBool _ => SBool
  | TInt k _ => SInt k
  | TF32 _ => SF32
  | TF64 _ => SF64
  | TStr _ => SStr
  | TBytes _ => SBytes
  | TArr l => SVec (match l with x :: _ => shape_of x | [] => SNil end)
  | TObj kvs => SClass ((fix go (l : list (tv * tv)) : list (list N * shape) :=
                           match l with [] => [] | (k, x) :: t => (key_bytes k, shape_of x) :: go t end) kvs)
  end.

(* v is a value of the static shape s: arrays are homogeneous, objects are classes with string member names or
   std::map values (keys of the map's key type, strictly increasing) *)
Fixpoint has_shape (v : tv) (s : shape) {struct s} : bool :=
  match s with
  | SNil => match v with TNil => true | _ => false end
  | SBool => match v with TBool _ => true | _ => false end
  | SInt k' => match v with TInt k _ => ikind_eqb k k' | _ => false end
  | SF32 => match v with TF32 _ => true | _ => false end
  | SF64 => match v with TF64 _ => true | _ => false end
  | SStr => match v with TStr _ => true | _ => false end
  | SBytes => match v with TBytes _ => true | _ => false end
  | SVec e =>
    match v with
    | TArr l => (fix all (l : list tv) : bool := match l with [] => true | x :: t => has_shape x e && all t end) l
    | _ => false
    end
  | SClass ms =>
    match v with
    | TObj kvs =>
      (fix all (ms : list (list N * shape)) (l : list (tv * tv)) {struct ms} : bool :=
         match l, ms with
         | [], [] => true
         | (k, x) :: t, (name, s') :: ms' =>
           match k with TStr kb => bytes_eqb kb name | _ => false end && has_shape x s' && all ms' t
         | _, _ => false
         end) ms kvs
    | _ => false
    end
  | SMap _ ks e =>
    match v with
    | TObj kvs =>
      (fix all (l : list (tv * tv)) : bool :=
         match l with [] => true | (k, x) :: t => key_has k ks && has_shape x e && all t end) kvs && pairs_sorted kvs
    | _ => false
    end
  | SArr n e =>
    match v with
    | TArr l => Nat.eqb (length l) n && (fix all (l : list tv) : bool := match l with [] => true | x :: t => has_shape x e && all t end) l
    | _ => false
    end
  | SVecBool =>
    match v with
    | TArr l => (fix all (l : list tv) : bool := match l with [] => true | TBool _ :: t => all t | _ => false end) l
    | _ => false
    end
  | STuple ss =>
    match v with
    | TArr l =>
      (fix all (ss : list shape) (l : list tv) {struct ss} : bool :=
         match l, ss with
         | [], [] => true
         | x :: t, s' :: ss' => has_shape x s' && all ss' t
         | _, _ => false
         end) ss l
    | _ => false
    end
  | SOpt e =>     (* empty, or a value of a shape that is never nil *)
    match v with
    | TNil => true
    | _ => match e with SNil | SOpt _ => false | _ => has_shape v e end
    end
  | SMMap ks e =>
    match v with
    | TArr l =>
      (fix all (l : list tv) : bool :=
         match l with
         | [] => true
         | TObj [(TStr kn, k); (TStr vn, x)] :: t =>
           bytes_eqb kn key_name && bytes_eqb vn value_name && key_has k ks && has_shape x e && all t
         | _ => false
         end) l && mm_sorted l
    | _ => false
    end
  | SSet multi ks =>
    match v with
    | TArr l => forallb (fun k => key_has k ks) l && (if multi then mset_sorted l else set_sorted l)
    | _ => false
    end
  end.

Definition ity_of_kind (k : ikind) : ity :=
  match k with
  | IU8 => mkIty false 8 | IU16 => mkIty false 16 | IU32 => mkIty false 32 | IU64 => mkIty false 64
  | IS8 => mkIty true 8 | IS16 => mkIty true 16 | IS32 => mkIty true 32 | IS64 => mkIty true 64
  end.

(* the ReadValue overload a shape of one value selects (None: a container shape) *)
Definition target_of (s : shape) : option target :=
  match s with
  | SNil => Some TgNil
  | SBool => Some (TgInt (mkIty false 1))
  | SInt k => Some (TgInt (ity_of_kind k))
  | SF32 => Some TgF32
  | SF64 => Some TgF64
  | SStr => Some TgStr
  | _ => None
  end.

(* a value-initialised target *)
Fixpoint default_of (s : shape) : tv :=
  match s with
  | SNil => TNil
  | SBool => TBool false
  | SInt k => TInt k 0
  | SF32 => TF32 0
  | SF64 => TF64 0
  | SStr => TStr []
  | SBytes => TBytes []
  | SVec _ => TArr []
  | SClass ms => TObj ((fix go (ms : list (list N * shape)) : list (tv * tv) :=
                          match ms with [] => [] | (k, s') :: t => (TStr k, default_of s') :: go t end) ms)
  | SMap _ _ _ => TObj []
  | SArr n e => TArr (repeat (default_of e) n)
  | SVecBool => TArr []
  | STuple ss => TArr ((fix go (ss : list shape) : list tv := match ss with [] => [] | s' :: t => default_of s' :: go t end) ss)
  | SOpt _ => TNil
  | SMMap _ _ | SSet _ _ => TArr []
  end.

Definition kshape_shape (ks : kshape) : shape := match ks with KSStr => SStr | KSInt k => SInt k end.
Definition kshape_target (ks : kshape) : target := match ks with KSStr => TgStr | KSInt k => TgInt (ity_of_kind k) end.
Definition pair_ms (ks : kshape) (e : shape) : list (list N * shape) := [(key_name, kshape_shape ks); (value_name, e)].

(* ---------- std::multimap / std::set: ordered insertion ---------- *)
(* emplace_hint(end): behind every pair whose key is not above *)
Fixpoint mm_insert (p : tv) (l : list tv) : list tv :=
  match l with
  | [] => [p]
  | q :: t => if tkey_ltb (pair_key p) (pair_key q) then p :: l else q :: mm_insert p t
  end.
Definition mm_of (items : list tv) : list tv := fold_left (fun acc p => mm_insert p acc) items [].

Fixpoint set_insert (multi : bool) (k : tv) (l : list tv) : list tv :=
  match l with
  | [] => [k]
  | q :: t =>
    if tkey_ltb k q then k :: l
    else if multi || tkey_ltb q k then q :: set_insert multi k t
    else l                                   (* a set has an equal element already *)
  end.
Definition set_of (multi : bool) (items : list tv) : list tv := fold_left (fun acc k => set_insert multi k acc) items [].
Definition is_pair (p : tv) : bool := match p with TObj _ => true | _ => false end.

(* ---------- std::map: lookup, insertion, key conversion ---------- *)
(* equivalence under std::less *)
Definition tkey_eqb (a b : tv) : bool := negb (tkey_ltb a b) && negb (tkey_ltb b a).

Fixpoint map_find (k : tv) (l : list (tv * tv)) : option tv :=
  match l with
  | [] => None
  | (k', x') :: t => if tkey_eqb k k' then Some x' else map_find k t
  end.

(* the mapped value under k becomes x: an equivalent key already present keeps its place (and its key object),
   a new key is inserted before the first greater one *)
Fixpoint map_replace (k x : tv) (l : list (tv * tv)) : list (tv * tv) :=
  match l with
  | [] => []
  | (k', x') :: t => if tkey_eqb k k' then (k', x) :: t else (k', x') :: map_replace k x t
  end.

Fixpoint map_insert (k x : tv) (l : list (tv * tv)) : list (tv * tv) :=
  match l with
  | [] => [(k, x)]
  | (k', x') :: t => if tkey_ltb k k' then (k, x) :: l else (k', x') :: map_insert k x t
  end.

Definition map_put (k x : tv) (l : list (tv * tv)) : list (tv * tv) :=
  match map_find k l with Some _ => map_replace k x l | None => map_insert k x l end.

Definition map_apply (m : list (tv * tv)) (es : list (tv * tv)) : list (tv * tv) :=
  fold_left (fun acc e => map_put (fst e) (snd e) acc) es m.

(* ConvertByPolicy(archive key, K): the key / passed over / exception *)
Inductive ckey := CKey (k : tv) | CSkip | CErr (e : serr).

Definition conv_key (o : opts) (ks : kshape) (kk : key) : ckey :=
  match ks, kk with
  | KSStr, KStr s => CKey (TStr s)
  | KSInt k, KInt z =>
    if ikind_range k z then CKey (TInt k z)
    else match o_overflow o with PThrow => CErr (SE EOverflow) | PSkip => CSkip end
  | _, _ =>   (* a key of another class: NOT MODELLED (excluded by `modelled`); a placeholder keeps the functions total *)
    match o_mismatch o with PThrow => CErr (SE EMismatch) | PSkip => CSkip end
  end.

Definition key_class_ok (ks : kshape) (k : mpv) : bool :=
  match ks, keyden k with
  | KSStr, Some (KStr _) => true
  | KSInt _, Some (KInt _) => true
  | _, _ => false
  end.

Definition keys_list (kvs : list (mpv * mpv)) : list key :=
  flat_map (fun kv => match keyden (fst kv) with Some k => [k] | None => [] end) kvs.

(* the documents on which load_tr claims to mirror the code for a target of shape s: every map that meets a
   std::map target has keys of the target's key class, pairwise different *)
Fixpoint modelled (s : shape) (v : mpv) {struct s} : bool :=
  match s with
  | SVec e | SArr _ e => match v with MArr vs => forallb (modelled e) vs | _ => true end
  | SOpt e => modelled e v
  | SMMap _ e =>
    match v with
    | MArr vs => forallb (fun x => match x with
                                   | MMap kvs => match lookup (KStr value_name) kvs with Some y => modelled e y | None => true end
                                   | _ => true
                                   end) vs
    | _ => true
    end
  | STuple ss =>
    match v with
    | MArr vs =>
      (fix go (ss : list shape) (vs : list mpv) : bool :=
         match ss, vs with
         | s' :: ss', x :: vs' => modelled s' x && go ss' vs'
         | _, _ => true
         end) ss vs
    | _ => true
    end
  | SClass ms =>
    match v with
    | MMap kvs =>
      (fix go (ms : list (list N * shape)) : bool :=
         match ms with
         | [] => true
         | (name, s') :: ms' => (match lookup (KStr name) kvs with Some x => modelled s' x | None => true end) && go ms'
         end) ms
    | _ => true
    end
  | SMap _ ks e =>
    match v with
    | MMap kvs => forallb (fun kv => key_class_ok ks (fst kv) && modelled e (snd kv)) kvs && keys_distinct (keys_list kvs)
    | _ => true
    end
  | _ => true
  end.

(* the C++ object a delivered value becomes *)
Definition of_value (s : shape) (x : value) : tv :=
  match s, x with
  | SNil, _ => TNil
  | SBool, VInt z => TBool (negb (z =? 0)%Z)
  | SInt k, VInt z => TInt k z
  | SF32, VF32 b => TF32 b
  | SF64, VF64 b => TF64 b
  | SStr, VStr b => TStr b
  | _, _ => default_of s
  end.

(* Serialize(...) returned true with the loaded value / returned false (target untouched) / threw *)
(* LReset x: Serialize(...) returned false, but the target now holds x (a wrapper that was reset to empty) *)
Inductive lres := LOk (v : tv) | LNot | LReset (x : tv) | LErr (e : serr).

(* what a sequence container holds after the load of an element (reset when not loaded) / what any other target holds *)
Definition fill (s : shape) (r : lres) : tv := match r with LOk v => v | _ => default_of s end.
Definition keep (i : tv) (r : lres) : tv := match r with LOk v => v | LReset x => x | _ => i end.

(* the parts of a target's content *)
Definition arr_items (i : tv) : list tv := match i with TArr l => l | _ => [] end.
Definition obj_fields (i : tv) : list (tv * tv) := match i with TObj l => l | _ => [] end.

Definition byte_of (v : tv) : N := match v with TInt _ z => Z.to_N z | _ => 0 end.

Section Load.
  Variable narrow : N -> option N.
  Variable widen : N -> N.
  Variable o : opts.

  (* a value that is not the container asked for: nil is passed silently, anything else per policy *)
  Definition no_container (v : mpv) : list tok * lres :=
    match v with
    | MNil => ([KNone], LNot)
    | _ => match o_mismatch o with PThrow => ([], LErr (SE EMismatch)) | PSkip => ([KNone], LNot) end
    end.

  Definition scalar_tr (s : shape) (t : target) (v : mpv) : list tok * lres :=
    match typed_spec narrow widen o t v with
    | TVal x => ([KVal x], LOk (of_value s x))
    | TNot => ([KFalse], LNot)
    | TErr e => ([], LErr (SE e))
    end.

  (* the elements of an array scope against the elements the target has (inits; beyond them: value-initialised):
     IsEnd() before each, the element load, stop at an exception.  after : content before, result -> content after *)
  Section Elements.
    Variable e : shape.
    Variable load_e : tv -> mpv -> list tok * lres.
    Variable after : tv -> lres -> tv.
    Fixpoint elems_tr (inits : list tv) (vs : list mpv) : list tok * list tv * option serr :=
      match vs with
      | [] => ([KIsEnd true], [], None)
      | v :: vs' =>
        let i0 := hd (default_of e) inits in
        match load_e i0 v with
        | (t, LErr err) => (KIsEnd false :: t, [], Some err)
        | (t, r) => match elems_tr (tl inits) vs' with (t', items, err) => (KIsEnd false :: t ++ t', after i0 r :: items, err) end
        end
      end.
  End Elements.

  (* std::vector<bool>: the loop loads into one local bool and assigns it to the element whether it was loaded or not *)
  Section Bools.
    Variable load_b : mpv -> list tok * lres.
    Fixpoint bools_tr (prev : bool) (vs : list mpv) : list tok * list tv * option serr :=
      match vs with
      | [] => ([KIsEnd true], [], None)
      | v :: vs' =>
        match load_b v with
        | (t, LErr err) => (KIsEnd false :: t, [], Some err)
        | (t, r) =>
          let b := match r with LOk (TBool b) => b | _ => prev end in
          match bools_tr b vs' with (t', items, err) => (KIsEnd false :: t ++ t', TBool b :: items, err) end
        end
      end.
  End Bools.

  (* SerializeContainer: the container is resized to the count, an element that is not loaded is reset *)
  Definition vec_tr (e : shape) (load_e : tv -> mpv -> list tok * lres) (mk : list tv -> tv) (inits : list tv) (v : mpv) : list tok * lres :=
    match v with
    | MArr vs =>
      match elems_tr e load_e (fun _ r => fill e r) inits vs with
      | (t, items, None) => (KOpen :: t ++ [KClose], LOk (mk items))
      | (t, _, Some err) => (KOpen :: t, LErr err)
      end
    | _ => no_container v
    end.

  Fixpoint absent_toks (s : shape) : list tok :=
    match s with SOpt e => absent_toks e | SMMap _ _ | SSet _ _ => [KNone] | SVec _ | SClass _ | SMap _ _ _ | SArr _ _ | SVecBool | STuple _ => [KNone] | SBytes => [KNone; KNone] | _ => [KFalse] end.

  (* SerializeMapImpl over the members of the document, in document order: key conversion, then (unless the mode is
     OnlyExistKeys and the map m0 has no such key) the load of the mapped value under the archive key (which finds the
     member just visited) into the element of m0 under that key, or into a value-initialised one; stop at an
     exception.  The updates (key, new mapped value) in document order *)
  Section Entries.
    Variable only : bool.
    Variable ks : kshape.
    Variable e : shape.
    Variable load_e : tv -> mpv -> list tok * lres.
    Variable m0 : list (tv * tv).
    Fixpoint entries_tr (kvs : list (mpv * mpv)) : list tok * list (tv * tv) * option serr :=
      match kvs with
      | [] => ([], [], None)
      | (k, x) :: kvs' =>
        match keyden k with
        | None => ([], [], Some (SE EParse))     (* ReadKey: unsupported key kind *)
        | Some kk =>
          match conv_key o ks kk with
          | CErr err => ([], [], Some err)
          | CSkip => entries_tr kvs'
          | CKey key =>
            match map_find key m0, only with
            | None, true => entries_tr kvs'        (* OnlyExistKeys: no such element *)
            | found, _ =>
              let i0 := match found with Some old => old | None => default_of e end in
              match load_e i0 x with
              | (t, LErr err) => (t, [], Some err)
              | (t, r) => match entries_tr kvs' with (t', es, err) => (t ++ t', (key, keep i0 r) :: es, err) end
              end
            end
          end
        end
      end.
  End Entries.

  (* the keyed load of a member the document does not have: false; a wrapper has been reset to empty by then *)
  Definition absent_res (s : shape) : lres := match s with SOpt _ => LReset TNil | _ => LNot end.

  (* the content the wrapped value is loaded into, and what the wrapper makes of the result *)
  Definition opt_init (e : shape) (i : tv) : tv := match i with TNil => default_of e | _ => i end.
  Definition opt_res (r : lres) : lres := match r with LOk x => LOk x | LErr err => LErr err | _ => LReset TNil end.

  (* value.Serialize(scope): one keyed load per member, in declaration order, each into the member's content
     (inits: the fields the target has, in declaration order); stop at an exception *)
  Section Members.
    Variable load : shape -> tv -> mpv -> list tok * lres.
    Variable kvs : list (mpv * mpv).
    Fixpoint members_tr (inits : list (tv * tv)) (ms : list (list N * shape)) : list tok * list (tv * tv) * option serr :=
      match ms with
      | [] => ([], [], None)
      | (name, s') :: ms' =>
        let i0 := match inits with (_, x) :: _ => x | [] => default_of s' end in
        match (match lookup (KStr name) kvs with
               | Some x => load s' i0 x
               | None => (absent_toks s', absent_res s')
               end) with
        | (t, LErr err) => (t, [], Some err)
        | (t, r) => match members_tr (tl inits) ms' with (t', fields, err) => (t ++ t', (TStr name, keep i0 r) :: fields, err) end
        end
      end.
  End Members.

  (* the content of the components a tuple has (beyond it: value-initialised) *)
  Fixpoint comp_inits (ss : list shape) (inits : list tv) : list tv :=
    match ss with
    | [] => []
    | s' :: ss' => hd (default_of s') inits :: comp_inits ss' (tl inits)
    end.

  (* SerializeArray(tuple): IsEnd() and a load per component while the array has elements; then the end check *)
  Section Comps.
    Variable load : shape -> tv -> mpv -> list tok * lres.
    Fixpoint comps_tr (ss : list shape) (inits : list tv) (vs : list mpv) : list tok * list tv * option serr :=
      match ss with
      | [] =>
        match vs with
        | [] => ([KIsEnd true], [], None)
        | _ => ([KIsEnd false], [], match o_mismatch o with PThrow => Some (SE EMismatch) | PSkip => None end)
        end
      | s' :: ss' =>
        match vs with
        | [] =>      (* the array is shorter than the tuple: IsEnd() once, then the end check; the rest stays as it is *)
          match o_mismatch o with
          | PThrow => ([KIsEnd true], [], Some (SE EMismatch))
          | PSkip => ([KIsEnd true; KIsEnd true], comp_inits (s' :: ss') inits, None)
          end
        | v :: vs' =>
          let i0 := hd (default_of s') inits in
          match load s' i0 v with
          | (t, LErr err) => (KIsEnd false :: t, [], Some err)
          | (t, r) => match comps_tr ss' (tl inits) vs' with (t', items, err) => (KIsEnd false :: t ++ t', keep i0 r :: items, err) end
          end
        end
      end.
  End Comps.

  Definition scalar_ld (s : shape) (t : target) (_ : tv) (v : mpv) : list tok * lres := scalar_tr s t v.

  (* answers consumed (as tokens) and loaded value, for a target of shape s holding i at an array-element / root
     position holding the document value v *)
  Fixpoint load_tr (s : shape) (i : tv) (v : mpv) {struct s} : list tok * lres :=
    match s with
    | SVec e => vec_tr e (load_tr e) TArr (arr_items i) v
    | SBytes =>
      match v with
      | MBin bs => (KOpen :: map KByte bs ++ [KClose], LOk (TBytes bs))
      | _ =>   (* OpenBinaryScope declines, then the array scope with unsigned char elements *)
        match vec_tr (SInt IU8) (scalar_ld (SInt IU8) (TgInt (mkIty false 8))) (fun items => TBytes (map byte_of items)) [] v with
        | (t, r) => (KNone :: t, r)
        end
      end
    | SClass ms =>
      match v with
      | MMap kvs =>
        match members_tr load_tr kvs (obj_fields i) ms with
        | (t, fields, None) => (KOpen :: t ++ [KClose], LOk (TObj fields))
        | (t, _, Some err) => (KOpen :: t, LErr err)
        end
      | _ => no_container v
      end
    | SArr n e =>
      match v with
      | MArr vs =>
        (* elements while both sides have one (an element that is not loaded keeps its content); then the count check *)
        match elems_tr e (load_tr e) keep (arr_items i) (firstn n vs) with
        | (t, items, None) =>
          if Nat.eqb (length vs) n then (KOpen :: t ++ [KClose], LOk (TArr items))
          else (KOpen :: t, LErr SERange)
        | (t, _, Some err) => (KOpen :: t, LErr err)
        end
      | _ => no_container v
      end
    | SVecBool =>
      match v with
      | MArr vs =>
        match bools_tr (scalar_tr SBool (TgInt (mkIty false 1))) false vs with
        | (t, items, None) => (KOpen :: t ++ [KClose], LOk (TArr items))
        | (t, _, Some err) => (KOpen :: t, LErr err)
        end
      | _ => no_container v
      end
    | STuple ss =>
      match v with
      | MArr vs =>
        match comps_tr load_tr ss (arr_items i) vs with
        | (t, items, None) => (KOpen :: t ++ [KClose], LOk (TArr items))
        | (t, _, Some err) => (KOpen :: t, LErr err)
        end
      | _ => no_container v
      end
    | SMap m ks e =>
      match v with
      | MMap kvs =>
        let m0 := match m with MClean => [] | _ => obj_fields i end in     (* Clean: cont.clear() *)
        match entries_tr (match m with MOnlyExist => true | _ => false end) ks e (load_tr e) m0 kvs with
        | (t, es, None) => (KOpen :: t ++ [KClose], LOk (TObj (map_apply m0 es)))
        | (t, _, Some err) => (KOpen :: t, LErr err)
        end
      | _ => no_container v
      end
    | SOpt e => match load_tr e (opt_init e i) v with (t, r) => (t, opt_res r) end
    | SMMap ks e =>
      match v with
      | MArr vs =>
        (* each element: a value-initialised pair, loaded as the class { key; value }; inserted if that returned true *)
        match elems_tr (SClass (pair_ms ks e))
                (fun i0 x =>
                   match x with
                   | MMap kvs =>
                     match members_tr (fun s' i' y => match target_of s' with Some t => scalar_tr s' t y | None => load_tr e i' y end)
                                      kvs (obj_fields i0) (pair_ms ks e) with
                     | (t, fields, None) => (KOpen :: t ++ [KClose], LOk (TObj fields))
                     | (t, _, Some err) => (KOpen :: t, LErr err)
                     end
                   | _ => no_container x
                   end)
                (fun _ r => match r with LOk p => p | _ => TNil end) [] vs with
        | (t, items, None) => (KOpen :: t ++ [KClose], LOk (TArr (mm_of (filter is_pair items))))
        | (t, _, Some err) => (KOpen :: t, LErr err)
        end
      | _ => no_container v
      end
    | SSet multi ks =>
      match v with
      | MArr vs =>
        match elems_tr (kshape_shape ks) (scalar_ld (kshape_shape ks) (kshape_target ks)) (fun _ r => fill (kshape_shape ks) r) [] vs with
        | (t, items, None) => (KOpen :: t ++ [KClose], LOk (TArr (set_of multi items)))
        | (t, _, Some err) => (KOpen :: t, LErr err)
        end
      | _ => no_container v
      end
    | _ => match target_of s with Some t => scalar_tr s t v | None => ([], LNot) end
    end.

  (* LoadObject into a target of shape s holding i from a document holding the value v *)
  Definition load_spec (s : shape) (i : tv) (v : mpv) : lres := snd (load_tr s i v).
  Definition load_toks (s : shape) (i : tv) (v : mpv) : list tok := fst (load_tr s i v).
End Load.

(* ---------- the request programs the generic layer issues ---------- *)
Fixpoint mk_areqs (l : list areq) : areqs := match l with [] => ANil | a :: t => ACons a (mk_areqs t) end.
Fixpoint mk_reqs (l : list req) : reqs := match l with [] => RNil | r :: t => RCons r (mk_reqs t) end.

(* the loop of an array scope on a document array vs: IsEnd, element, ..., IsEnd; the elements are loaded into the
   contents inits (beyond them: d) *)
Fixpoint vec_body (prog_e : tv -> mpv -> list areq) (d : tv) (inits : list tv) (vs : list mpv) : list areq :=
  match vs with
  | [] => [AEnd]
  | v :: vs' => AEnd :: prog_e (hd d inits) v ++ vec_body prog_e d (tl inits) vs'
  end.

Definition arr_prog (prog_e : tv -> mpv -> list areq) (d : tv) (inits : list tv) (v : mpv) : areqs :=
  match v with MArr vs => mk_areqs (vec_body prog_e d inits vs) | _ => ANil end.

Definition u8_prog (_ : tv) (_ : mpv) : list areq := [AGet (TgInt (mkIty false 8))].
Definition bool_prog (_ : tv) (_ : mpv) : list areq := [AGet (TgInt (mkIty false 1))].

Definition key_prog (ks : kshape) (_ : tv) (_ : mpv) : list areq := [AGet (kshape_target ks)].

Fixpoint mk_vacts (l : list vact) : vacts := match l with [] => VANil | a :: t => VACons a (mk_vacts t) end.

(* the callback of SerializeMapImpl, one action per member of the document *)
Section MapActs.
  Variable o : opts.
  Variable only : bool.
  Variable ks : kshape.
  Variable d : tv.                                (* a value-initialised mapped value *)
  Variable vprog : tv -> mpv -> vact.
  Variable m0 : list (tv * tv).
  Definition map_act (kv : mpv * mpv) : vact :=
    match keyden (fst kv) with
    | Some kk =>
      match conv_key o ks kk with
      | CKey key =>
        match map_find key m0, only with
        | None, true => VSkip
        | found, _ => vprog (match found with Some old => old | None => d end) (snd kv)
        end
      | CSkip => VSkip
      | CErr e => VThrow e
      end
    | None => VSkip
    end.
  Fixpoint map_acts (kvs : list (mpv * mpv)) : list vact :=
    match kvs with [] => [] | kv :: kvs' => map_act kv :: map_acts kvs' end.
End MapActs.

(* the components of a tuple: IsEnd, component, ...; a shorter array: IsEnd (true), then the end check *)
Section CompProgs.
  Variable o : opts.
  Variable eprog : shape -> tv -> mpv -> list areq.
  Fixpoint comps_prog (ss : list shape) (inits : list tv) (vs : list mpv) : list areq :=
    match ss with
    | [] =>
      AEnd :: (match vs, o_mismatch o with _ :: _, PThrow => [AThrow (SE EMismatch)] | _, _ => [] end)
    | s' :: ss' =>
      match vs with
      | [] => AEnd :: (match o_mismatch o with PThrow => [AThrow (SE EMismatch)] | PSkip => [AEnd] end)
      | v :: vs' => AEnd :: eprog s' (hd (default_of s') inits) v ++ comps_prog ss' (tl inits) vs'
      end
    end.
End CompProgs.

Section MemberProgs.
  Variable mprog : shape -> tv -> qkey -> option mpv -> list req.
  Variable kvs : list (mpv * mpv).
  Fixpoint members_prog (inits : list (tv * tv)) (ms : list (list N * shape)) : list req :=
    match ms with
    | [] => []
    | (name, s') :: ms' =>
      mprog s' (match inits with (_, x) :: _ => x | [] => default_of s' end) (QStr name) (lookup (KStr name) kvs)
        ++ members_prog (tl inits) ms'
    end.
End MemberProgs.

Definition map_m0 (m : mmode) (i : tv) : list (tv * tv) := match m with MClean => [] | _ => obj_fields i end.
Definition map_only (m : mmode) : bool := match m with MOnlyExist => true | _ => false end.

(* the program is a function of the shape, of the document, of the content of the target (which keys a map loaded
   with OnlyExistKeys has) and (for the keys of a std::map that do not fit) of the policies: the layer is adaptive only
   in looping while !IsEnd(), in not entering a child scope that was not opened, in the binary -> array fallback, in the
   key conversion and in find(key) *)
Section Progs.
  Variable o : opts.

  Fixpoint elem_prog (s : shape) (i : tv) (v : mpv) {struct s} : list areq :=
    match s with
    | SVec e | SArr _ e => [AArr (arr_prog (elem_prog e) (default_of e) (arr_items i) v)]
    | SVecBool => [AArr (arr_prog bool_prog (TBool false) [] v)]
    | SOpt e => elem_prog e (opt_init e i) v
    | SMMap ks e =>
      [AArr (arr_prog (fun _ x => [AObj (match x with
                                         | MMap kvs => mk_reqs (RGet (QStr key_name) (kshape_target ks)
                                                                  :: member_prog e (default_of e) (QStr value_name) (lookup (KStr value_name) kvs))
                                         | _ => RNil
                                         end)])
                      (default_of (SClass (pair_ms ks e))) [] v)]
    | SSet _ ks => [AArr (arr_prog (key_prog ks) (default_of (kshape_shape ks)) [] v)]
    | STuple ss => [AArr (match v with MArr vs => mk_areqs (comps_prog o elem_prog ss (arr_items i) vs) | _ => ANil end)]
    | SBytes => match v with
                | MBin bs => [ABin (length bs)]
                | _ => [ABin 0; AArr (arr_prog u8_prog (TInt IU8 0) [] v)]
                end
    | SClass ms => [AObj (match v with MMap kvs => mk_reqs (members_prog member_prog kvs (obj_fields i) ms) | _ => RNil end)]
    | SMap m ks e =>
      [AObj (match v with
             | MMap kvs => mk_reqs [REach (mk_vacts (map_acts o (map_only m) ks (default_of e) (vact_prog e) (map_m0 m i) kvs))]
             | _ => RNil
             end)]
    | _ => match target_of s with Some t => [AGet t] | None => [] end
    end
  with member_prog (s : shape) (i : tv) (q : qkey) (ov : option mpv) {struct s} : list req :=
    match s with
    | SVec e | SArr _ e => [RArr q (match ov with Some v => arr_prog (elem_prog e) (default_of e) (arr_items i) v | None => ANil end)]
    | SVecBool => [RArr q (match ov with Some v => arr_prog bool_prog (TBool false) [] v | None => ANil end)]
    | SOpt e => member_prog e (opt_init e i) q ov
    | SMMap ks e =>
      [RArr q (match ov with
               | Some v =>
                 arr_prog (fun _ x => [AObj (match x with
                                             | MMap kvs => mk_reqs (RGet (QStr key_name) (kshape_target ks)
                                                                      :: member_prog e (default_of e) (QStr value_name) (lookup (KStr value_name) kvs))
                                             | _ => RNil
                                             end)])
                          (default_of (SClass (pair_ms ks e))) [] v
               | None => ANil
               end)]
    | SSet _ ks => [RArr q (match ov with Some v => arr_prog (key_prog ks) (default_of (kshape_shape ks)) [] v | None => ANil end)]
    | STuple ss => [RArr q (match ov with Some (MArr vs) => mk_areqs (comps_prog o elem_prog ss (arr_items i) vs) | _ => ANil end)]
    | SBytes => match ov with
                | Some (MBin bs) => [RBin q (length bs)]
                | Some v => [RBin q 0; RArr q (arr_prog u8_prog (TInt IU8 0) [] v)]
                | None => [RBin q 0; RArr q ANil]
                end
    | SClass ms => [RObj q (match ov with Some (MMap kvs) => mk_reqs (members_prog member_prog kvs (obj_fields i) ms) | _ => RNil end)]
    | SMap m ks e =>
      [RObj q (match ov with
               | Some (MMap kvs) => mk_reqs [REach (mk_vacts (map_acts o (map_only m) ks (default_of e) (vact_prog e) (map_m0 m i) kvs))]
               | _ => RNil
               end)]
    | _ => match target_of s with Some t => [RGet q t] | None => [] end
    end
  (* the keyed load of a mapped value from inside the VisitKeys callback, under the visited key *)
  with vact_prog (s : shape) (i : tv) (v : mpv) {struct s} : vact :=
    match s with
    | SVec e | SArr _ e => VArr (arr_prog (elem_prog e) (default_of e) (arr_items i) v)
    | SVecBool => VArr (arr_prog bool_prog (TBool false) [] v)
    | SOpt e => vact_prog e (opt_init e i) v
    | SMMap ks e =>
      VArr (arr_prog (fun _ x => [AObj (match x with
                                        | MMap kvs => mk_reqs (RGet (QStr key_name) (kshape_target ks)
                                                                 :: member_prog e (default_of e) (QStr value_name) (lookup (KStr value_name) kvs))
                                        | _ => RNil
                                        end)])
                     (default_of (SClass (pair_ms ks e))) [] v)
    | SSet _ ks => VArr (arr_prog (key_prog ks) (default_of (kshape_shape ks)) [] v)
    | STuple ss => VArr (match v with MArr vs => mk_areqs (comps_prog o elem_prog ss (arr_items i) vs) | _ => ANil end)
    | SBytes => match v with
                | MBin bs => VBin (length bs)
                | _ => VBinArr 0 (arr_prog u8_prog (TInt IU8 0) [] v)
                end
    | SClass ms => VObj (match v with MMap kvs => mk_reqs (members_prog member_prog kvs (obj_fields i) ms) | _ => RNil end)
    | SMap m ks e =>
      VObj (match v with
            | MMap kvs => mk_reqs [REach (mk_vacts (map_acts o (map_only m) ks (default_of e) (vact_prog e) (map_m0 m i) kvs))]
            | _ => RNil
            end)
    | _ => match target_of s with Some t => VGet t | None => VSkip end
    end.

  (* the history on the root scope: a class / a map at the root opens the root object scope itself *)
  Definition class_prog (ms : list (list N * shape)) (i : tv) (kvs : list (mpv * mpv)) : reqs :=
    mk_reqs (members_prog member_prog kvs (obj_fields i) ms).

  Definition map_prog (m : mmode) (ks : kshape) (e : shape) (i : tv) (kvs : list (mpv * mpv)) : reqs :=
    mk_reqs [REach (mk_vacts (map_acts o (map_only m) ks (default_of e) (vact_prog e) (map_m0 m i) kvs))].

  Definition vec_prog (e : shape) (i : tv) (vs : list mpv) : areqs := mk_areqs (vec_body (elem_prog e) (default_of e) (arr_items i) vs).
  Definition tuple_prog (ss : list shape) (i : tv) (vs : list mpv) : areqs := mk_areqs (comps_prog o elem_prog ss (arr_items i) vs).
End Progs.

(* ---------- reading the loaded value off the scopes' answers alone ---------- *)
(* the generic layer sees nothing of the document but these tokens (true/false + value, scope opened or not,
   IsEnd, the bytes); read_off is what it builds from them in a target of shape s that holds i *)
Section ReadElems.
  Variable e : shape.
  Variable rd : tv -> list tok -> option (lres * list tok).
  Variable after : tv -> lres -> tv.
  Fixpoint read_elems (fuel : nat) (inits : list tv) (t : list tok) : option (list tv * list tok) :=
    match fuel with
    | O => None
    | S f =>
      match t with
      | KIsEnd true :: KClose :: t' => Some ([], t')
      | KIsEnd false :: t' =>
        let i0 := hd (default_of e) inits in
        match rd i0 t' with
        | Some (r, t'') => match read_elems f (tl inits) t'' with Some (items, t3) => Some (after i0 r :: items, t3) | None => None end
        | None => None
        end
      | _ => None
      end
    end.
End ReadElems.

(* std::vector<bool>: an element that is not loaded repeats the previous one *)
Fixpoint read_bools (prev : bool) (fuel : nat) (t : list tok) : option (list tv * list tok) :=
  match fuel with
  | O => None
  | S f =>
    match t with
    | KIsEnd true :: KClose :: t' => Some ([], t')
    | KIsEnd false :: KVal x :: t' =>
      let b := match of_value SBool x with TBool b => b | _ => prev end in
      match read_bools b f t' with Some (items, t3) => Some (TBool b :: items, t3) | None => None end
    | KIsEnd false :: KFalse :: t' =>
      match read_bools prev f t' with Some (items, t3) => Some (TBool prev :: items, t3) | None => None end
    | _ => None
    end
  end.

Fixpoint read_bytes (t : list tok) : option (list N * list tok) :=
  match t with
  | KClose :: t' => Some ([], t')
  | KByte b :: t' => match read_bytes t' with Some (bs, t'') => Some (b :: bs, t'') | None => None end
  | _ => None
  end.

Definition read_scalar (s : shape) (_ : tv) (t : list tok) : option (lres * list tok) :=
  match t with
  | KVal x :: t' => Some (LOk (of_value s x), t')
  | KFalse :: t' => Some (LNot, t')
  | _ => None
  end.

Section ReadMembers.
  Variable rd : shape -> tv -> list tok -> option (lres * list tok).
  Fixpoint read_members (inits : list (tv * tv)) (ms : list (list N * shape)) (t : list tok) : option (list (tv * tv) * list tok) :=
    match ms with
    | [] => Some ([], t)
    | (name, s') :: ms' =>
      let i0 := match inits with (_, x) :: _ => x | [] => default_of s' end in
      match rd s' i0 t with
      | Some (r, t') => match read_members (tl inits) ms' t' with Some (fields, t'') => Some ((TStr name, keep i0 r) :: fields, t'') | None => None end
      | None => None
      end
    end.
End ReadMembers.

Section ReadComps.
  Variable rd : shape -> tv -> list tok -> option (lres * list tok).
  Fixpoint read_comps (ss : list shape) (inits : list tv) (t : list tok) : option (list tv * list tok) :=
    match ss with
    | [] => match t with KIsEnd _ :: KClose :: t' => Some ([], t') | _ => None end
    | s' :: ss' =>
      match t with
      | KIsEnd true :: KIsEnd true :: KClose :: t' => Some (comp_inits (s' :: ss') inits, t')
      | KIsEnd false :: t1 =>
        let i0 := hd (default_of s') inits in
        match rd s' i0 t1 with
        | Some (r, t') => match read_comps ss' (tl inits) t' with Some (items, t'') => Some (keep i0 r :: items, t'') | None => None end
        | None => None
        end
      | _ => None
      end
    end.
End ReadComps.

Fixpoint read_off (s : shape) (i : tv) (t : list tok) {struct s} : option (lres * list tok) :=
  match s with
  | SOpt e =>
    match read_off e (opt_init e i) t with
    | Some (r, t') => Some (opt_res r, t')
    | None => None
    end
  | STuple ss =>
    match t with
    | KNone :: t' => Some (LNot, t')
    | KOpen :: t' => match read_comps read_off ss (arr_items i) t' with Some (items, t'') => Some (LOk (TArr items), t'') | None => None end
    | _ => None
    end
  | SVecBool =>
    match t with
    | KNone :: t' => Some (LNot, t')
    | KOpen :: t' => match read_bools false (length t') t' with Some (items, t'') => Some (LOk (TArr items), t'') | None => None end
    | _ => None
    end
  | SVec e =>
    match t with
    | KNone :: t' => Some (LNot, t')
    | KOpen :: t' =>
      match read_elems e (read_off e) (fun _ r => fill e r) (length t') (arr_items i) t' with
      | Some (items, t'') => Some (LOk (TArr items), t'')
      | None => None
      end
    | _ => None
    end
  | SArr _ e =>
    match t with
    | KNone :: t' => Some (LNot, t')
    | KOpen :: t' =>
      match read_elems e (read_off e) keep (length t') (arr_items i) t' with
      | Some (items, t'') => Some (LOk (TArr items), t'')
      | None => None
      end
    | _ => None
    end
  | SBytes =>
    match t with
    | KOpen :: t' => match read_bytes t' with Some (bs, t'') => Some (LOk (TBytes bs), t'') | None => None end
    | KNone :: KNone :: t' => Some (LNot, t')
    | KNone :: KOpen :: t' =>
      match read_elems (SInt IU8) (read_scalar (SInt IU8)) (fun _ r => fill (SInt IU8) r) (length t') [] t' with
      | Some (items, t'') => Some (LOk (TBytes (map byte_of items)), t'')
      | None => None
      end
    | _ => None
    end
  | SClass ms =>
    match t with
    | KNone :: t' => Some (LNot, t')
    | KOpen :: t' =>
      match read_members read_off (obj_fields i) ms t' with
      | Some (fields, KClose :: t'') => Some (LOk (TObj fields), t'')
      | _ => None
      end
    | _ => None
    end
  | SMap _ _ _ | SMMap _ _ | SSet _ _ => None    (* maps: the keys are not among the tokens; multimap / set: not done: see map_free *)
  | _ => read_scalar s i t
  end.

(* shapes without std::map *)
Fixpoint map_free (s : shape) : bool :=
  match s with
  | SVec e | SArr _ e | SOpt e => map_free e
  | SClass ms => (fix go (ms : list (list N * shape)) : bool := match ms with [] => true | (_, s') :: t => map_free s' && go t end) ms
  | SMap _ _ _ | SMMap _ _ | SSet _ _ => false
  | STuple ss => (fix go (ss : list shape) : bool := match ss with [] => true | s' :: t => map_free s' && go t end) ss
  | _ => true
  end.

(* every std::map of the shape is loaded with MapLoadMode::Clean *)
Fixpoint clean_maps (s : shape) : bool :=
  match s with
  | SVec e | SArr _ e | SOpt e | SMMap _ e => clean_maps e
  | SClass ms => (fix go (ms : list (list N * shape)) : bool := match ms with [] => true | (_, s') :: t => clean_maps s' && go t end) ms
  | STuple ss => (fix go (ss : list shape) : bool := match ss with [] => true | s' :: t => clean_maps s' && go t end) ss
  | SMap m _ e => (match m with MClean => true | _ => false end) && clean_maps e
  | _ => true
  end.

(* targets that keep nothing of their content when they are loaded: values, strings, byte containers, sequence
   containers and maps loaded with Clean of such (a class keeps the members that are not loaded, a fixed-size array
   and a tuple the elements that are not loaded: known finding F36, by design) *)
Fixpoint overwritten (s : shape) : bool :=
  match s with
  | SVec e => overwritten e
  | SOpt e => overwritten e
  | SMap MClean _ e => overwritten e
  | SMMap _ _ | SSet _ _ => true
  | SClass _ | SArr _ _ | STuple _ | SMap _ _ _ => false
  | _ => true
  end.

(* LoadObject from bytes, association-list level: the reference decoder, then the typed load into a target holding i *)
Definition load_bytes_into (narrow : N -> option N) (widen : N -> N) (o : opts) (s : shape) (i : tv) (b : list N) : lres :=
  match decode b with
  | Some (d, _) => load_spec narrow widen o s i d
  | None => LErr (SE EParse)
  end.

(* ... into a value-initialised target *)
Definition load_bytes (narrow : N -> option N) (widen : N -> N) (o : opts) (s : shape) (b : list N) : lres :=
  load_bytes_into narrow widen o s (default_of s) b.
