(* MpLoadProofs.v — the typed load of value trees: the specification's evaluation of the request program
   yields the answers load_tr consumes, save-then-load is the identity, transport to the scope model. *)
From BS Require Import Base MpSpec MpModel MpLemmas MpReader MpTyped MpSaveModel MpSave
  MpScopeSpec MpScopeModel MpScopeLemmas MpScopeTyped MpScopeProofs MpScopeRefine MpLoadModel MpLoadBytes.
From Coq Require Import ZifyBool ZifyN ZifyNat.
Local Open Scope N_scope.
Ltac Zify.zify_post_hook ::= Z.div_mod_to_equations.

(* ---------- induction over shapes ---------- *)
Section ShapeInd.
  Variable P : shape -> Prop.
  Hypothesis Hscalar : forall s, (match s with SVec _ | SClass _ | SBytes | SMap _ _ _ | SArr _ _ | SVecBool | STuple _ | SOpt _ | SMMap _ _ | SSet _ _ => False | _ => True end) -> P s.
  Hypothesis Hbytes : P SBytes.
  Hypothesis Hvec : forall e, P e -> P (SVec e).
  Hypothesis Hclass : forall ms, Forall (fun m => P (snd m)) ms -> P (SClass ms).
  Hypothesis Hmap : forall m ks e, P e -> P (SMap m ks e).
  Hypothesis Harr : forall n e, P e -> P (SArr n e).
  Hypothesis Hvb : P SVecBool.
  Hypothesis Htuple : forall ss, Forall P ss -> P (STuple ss).
  Hypothesis Hopt : forall e, P e -> P (SOpt e).
  Hypothesis Hmm : forall ks e, P e -> P (SMMap ks e).
  Hypothesis Hset : forall multi ks, P (SSet multi ks).
  Fixpoint shape_ind' (s : shape) : P s :=
    match s with
    | SVec e => Hvec e (shape_ind' e)
    | SClass ms => Hclass ms ((fix go (ms : list (list N * shape)) : Forall (fun m => P (snd m)) ms :=
                                 match ms with
                                 | [] => Forall_nil _
                                 | m :: t => Forall_cons m (shape_ind' (snd m)) (go t)
                                 end) ms)
    | SBytes => Hbytes
    | SMap m ks e => Hmap m ks e (shape_ind' e)
    | SArr n e => Harr n e (shape_ind' e)
    | SVecBool => Hvb
    | SOpt e => Hopt e (shape_ind' e)
    | SMMap ks e => Hmm ks e (shape_ind' e)
    | SSet multi ks => Hset multi ks
    | STuple ss => Htuple ss ((fix go (ss : list shape) : Forall P ss :=
                                 match ss with
                                 | [] => Forall_nil _
                                 | s' :: t => Forall_cons s' (shape_ind' s') (go t)
                                 end) ss)
    | SNil => Hscalar SNil I | SBool => Hscalar SBool I | SInt k => Hscalar (SInt k) I
    | SF32 => Hscalar SF32 I | SF64 => Hscalar SF64 I | SStr => Hscalar SStr I
    end.
End ShapeInd.

Definition no_err (r : lres) : Prop := match r with LErr _ => False | _ => True end.

Lemma lookup_some_in q l v : lookup q l = Some v -> exists k kk, In (k, v) l /\ keyden k = Some kk /\ key_eq kk q = true.
Proof.
  induction l as [|[k x] l IH]; intros H; [discriminate H|]. cbn [lookup] in H.
  destruct (keyden k) as [k0|] eqn:Ek.
  - destruct (key_eq k0 q) eqn:Eq.
    + injection H as <-. exists k, k0. split; [left; reflexivity | split; assumption].
    + destruct (IH H) as [k' [kk [Hin Hr]]]. exists k', kk. split; [right; exact Hin | exact Hr].
  - destruct (IH H) as [k' [kk [Hin Hr]]]. exists k', kk. split; [right; exact Hin | exact Hr].
Qed.


(* what is asked of the document under a target of shape s: nothing for shapes without std::map (any value the
   reference decoder accepts), supported and pairwise different keys (at every depth) otherwise *)
Definition dok (s : shape) (v : mpv) : Prop := map_free s = true \/ doc_ok v = true.

Lemma map_free_class ms : map_free (SClass ms) = forallb (fun m => map_free (snd m)) ms.
Proof. induction ms as [|[name s'] ms IH]; [reflexivity|]. cbn [forallb snd]. rewrite <- IH. reflexivity. Qed.

Lemma dok_vec e vs : dok (SVec e) (MArr vs) -> Forall (dok e) vs.
Proof.
  intros [H | H]; apply Forall_forall; intros v Hin.
  - left. exact H.
  - right. pose proof (doc_ok_arr _ H) as HF. rewrite Forall_forall in HF. exact (HF v Hin).
Qed.

Lemma dok_arr n e vs : dok (SArr n e) (MArr vs) -> Forall (dok e) vs.
Proof. intros [H | H]; [apply (dok_vec e vs); left; exact H | apply (dok_vec e vs); right; exact H]. Qed.

Lemma map_free_tuple ss : map_free (STuple ss) = forallb map_free ss.
Proof. induction ss as [|s' ss IH]; [reflexivity|]. cbn [forallb]. rewrite <- IH. reflexivity. Qed.

Lemma dok_tuple ss vs : dok (STuple ss) (MArr vs) -> forall s v, In (s, v) (combine ss vs) -> dok s v.
Proof.
  intros [H | H] s v Hin.
  - left. rewrite map_free_tuple, forallb_forall in H. exact (H s (in_combine_l _ _ _ _ Hin)).
  - right. pose proof (doc_ok_arr _ H) as HF. rewrite Forall_forall in HF. exact (HF v (in_combine_r _ _ _ _ Hin)).
Qed.

Lemma dok_class ms kvs : dok (SClass ms) (MMap kvs) ->
  forall name s' x, In (name, s') ms -> lookup (KStr name) kvs = Some x -> dok s' x.
Proof.
  intros [H | H] name s' x Hin Hl.
  - left. rewrite map_free_class, forallb_forall in H. exact (H (name, s') Hin).
  - right. destruct (doc_ok_map _ H) as [_ [_ Hvals]]. destruct (lookup_some_in _ _ _ Hl) as [k [kk [Hk _]]].
    apply Hvals. apply in_map_iff. exists (k, x). split; [reflexivity | exact Hk].
Qed.

Lemma dok_map m ks e kvs : dok (SMap m ks e) (MMap kvs) -> doc_ok (MMap kvs) = true.
Proof. intros [H | H]; [discriminate H | exact H]. Qed.

Lemma conv_key_refl o ks kk key : conv_key o ks kk = CKey key -> key_eq kk kk = true.
Proof.
  destruct ks, kk; cbn [conv_key]; intros H; try (destruct (o_mismatch o); discriminate H).
  - cbn [key_eq]. apply bytes_eqb_eq. reflexivity.
  - cbn [key_eq]. apply Z.eqb_refl.
Qed.

Section Programs.
  Variable narrow : N -> option N.
  Variable widen : N -> N.
  Variable o : opts.

  Notation spec_req := (spec_req narrow widen o).
  Notation spec_reqs := (spec_reqs narrow widen o).
  Notation spec_areq := (spec_areq narrow widen o).
  Notation spec_areqs := (spec_areqs narrow widen o).
  Notation load_tr := (load_tr narrow widen o).

  (* ---------- sequencing of programs ---------- *)
  Lemma spec_areqs_app p1 : forall p2 vs, spec_areqs vs (mk_areqs (p1 ++ p2)) =
    match spec_areqs vs (mk_areqs p1) with
    | ((t1, None, c1), vs1) =>
      match spec_areqs vs1 (mk_areqs p2) with ((t2, e2, c2), vs2) => ((t1 ++ t2, e2, c1 && c2), vs2) end
    | failed => failed
    end.
  Proof.
    induction p1 as [|a p1 IH]; intros p2 vs; cbn [app mk_areqs].
    - cbn [MpScopeSpec.spec_areqs]. destruct (spec_areqs vs (mk_areqs p2)) as [[[t2 e2] c2] vs2]. reflexivity.
    - rewrite !spec_areqs_cons. destruct (spec_areq vs a) as [[[t1 e1] c1] vs1]. destruct e1 as [e1|]; [reflexivity|].
      rewrite IH. destruct (spec_areqs vs1 (mk_areqs p1)) as [[[t3 e3] c3] vs3]. destruct e3 as [e3|]; [reflexivity|].
      destruct (spec_areqs vs3 (mk_areqs p2)) as [[[t2 e2] c2] vs2]. rewrite app_assoc, andb_assoc. reflexivity.
  Qed.

  Lemma spec_reqs_app p1 : forall p2 kvs, spec_reqs kvs (mk_reqs (p1 ++ p2)) =
    match spec_reqs kvs (mk_reqs p1) with
    | (t1, None, c1) =>
      match spec_reqs kvs (mk_reqs p2) with (t2, e2, c2) => (t1 ++ t2, e2, c1 && c2) end
    | failed => failed
    end.
  Proof.
    induction p1 as [|a p1 IH]; intros p2 kvs; cbn [app mk_reqs].
    - cbn [MpScopeSpec.spec_reqs]. destruct (spec_reqs kvs (mk_reqs p2)) as [[t2 e2] c2]. reflexivity.
    - rewrite !spec_reqs_cons. destruct (spec_req kvs a) as [[t1 e1] c1]. destruct e1 as [e1|]; [reflexivity|].
      rewrite IH. destruct (spec_reqs kvs (mk_reqs p1)) as [[t3 e3] c3]. destruct e3 as [e3|]; [reflexivity|].
      destruct (spec_reqs kvs (mk_reqs p2)) as [[t2 e2] c2]. rewrite app_assoc, andb_assoc. reflexivity.
  Qed.

  Notation elem_prog := (elem_prog o).
  Notation member_prog := (member_prog o).
  Notation vact_prog := (vact_prog o).
  Notation spec_vact := (spec_vact narrow widen o).
  Notation spec_vacts := (spec_vacts narrow widen o).

  (* what the specification answers to the program of one element / one member / one mapped value, whatever the
     target holds (i) *)
  Definition elem_ok (s : shape) : Prop :=
    forall i v vs toks r, dok s v -> load_tr s i v = (toks, r) -> no_err r ->
    exists c, spec_areqs (v :: vs) (mk_areqs (elem_prog s i v)) = ((toks, None, c), vs).

  Definition member_tr (s : shape) (i : tv) (ov : option mpv) : list tok * lres :=
    match ov with Some x => load_tr s i x | None => (absent_toks s, absent_res s) end.

  Definition member_ok (s : shape) : Prop :=
    forall i q kvs toks r, (forall x, lookup (key_of_q q) kvs = Some x -> dok s x) ->
    member_tr s i (lookup (key_of_q q) kvs) = (toks, r) -> no_err r ->
    exists c, spec_reqs kvs (mk_reqs (member_prog s i q (lookup (key_of_q q) kvs))) = (toks, None, c).

  (* the load from inside the VisitKeys callback, under a key q that finds x *)
  Definition vact_ok (s : shape) : Prop :=
    forall i q kvs x toks r, lookup (key_of_q q) kvs = Some x -> dok s x ->
    load_tr s i x = (toks, r) -> no_err r ->
    exists c, spec_vact kvs q (vact_prog s i x) = (toks, None, c).

  (* unfolding equations (cbn would expose the mutual fixpoint) *)
  Lemma elem_prog_vec e i v : elem_prog (SVec e) i v = [AArr (arr_prog (elem_prog e) (default_of e) (arr_items i) v)].
  Proof. reflexivity. Qed.
  Lemma member_prog_vec e i q ov : member_prog (SVec e) i q ov =
    [RArr q (match ov with Some v => arr_prog (elem_prog e) (default_of e) (arr_items i) v | None => ANil end)].
  Proof. reflexivity. Qed.
  Lemma elem_prog_class ms i v : elem_prog (SClass ms) i v =
    [AObj (match v with MMap kvs => mk_reqs (members_prog member_prog kvs (obj_fields i) ms) | _ => RNil end)].
  Proof. reflexivity. Qed.
  Lemma member_prog_class ms i q ov : member_prog (SClass ms) i q ov =
    [RObj q (match ov with Some (MMap kvs) => mk_reqs (members_prog member_prog kvs (obj_fields i) ms) | _ => RNil end)].
  Proof. reflexivity. Qed.
  Lemma elem_prog_map m ks e i v : elem_prog (SMap m ks e) i v =
    [AObj (match v with
           | MMap kvs => mk_reqs [REach (mk_vacts (map_acts o (map_only m) ks (default_of e) (vact_prog e) (map_m0 m i) kvs))]
           | _ => RNil
           end)].
  Proof. reflexivity. Qed.
  Lemma member_prog_map m ks e i q ov : member_prog (SMap m ks e) i q ov =
    [RObj q (match ov with
             | Some (MMap kvs) => mk_reqs [REach (mk_vacts (map_acts o (map_only m) ks (default_of e) (vact_prog e) (map_m0 m i) kvs))]
             | _ => RNil
             end)].
  Proof. reflexivity. Qed.
  Lemma elem_prog_arr n e i v : elem_prog (SArr n e) i v = [AArr (arr_prog (elem_prog e) (default_of e) (arr_items i) v)].
  Proof. reflexivity. Qed.
  Lemma member_prog_arr n e i q ov : member_prog (SArr n e) i q ov =
    [RArr q (match ov with Some v => arr_prog (elem_prog e) (default_of e) (arr_items i) v | None => ANil end)].
  Proof. reflexivity. Qed.
  Lemma elem_prog_vb i v : elem_prog SVecBool i v = [AArr (arr_prog bool_prog (TBool false) [] v)].
  Proof. reflexivity. Qed.
  Lemma member_prog_vb i q ov : member_prog SVecBool i q ov = [RArr q (match ov with Some v => arr_prog bool_prog (TBool false) [] v | None => ANil end)].
  Proof. reflexivity. Qed.
  Lemma elem_prog_tuple ss i v : elem_prog (STuple ss) i v =
    [AArr (match v with MArr vs => mk_areqs (comps_prog o elem_prog ss (arr_items i) vs) | _ => ANil end)].
  Proof. reflexivity. Qed.
  Lemma member_prog_tuple ss i q ov : member_prog (STuple ss) i q ov =
    [RArr q (match ov with Some (MArr vs) => mk_areqs (comps_prog o elem_prog ss (arr_items i) vs) | _ => ANil end)].
  Proof. reflexivity. Qed.

  (* the loop of an array scope *)
  Lemma vec_loop e (load_e : tv -> mpv -> list tok * lres) (prog_e : tv -> mpv -> list areq) (after : tv -> lres -> tv) (D : mpv -> Prop) :
    (forall i v vs toks r, D v -> load_e i v = (toks, r) -> no_err r ->
       exists c, spec_areqs (v :: vs) (mk_areqs (prog_e i v)) = ((toks, None, c), vs)) ->
    forall vs inits toks items, Forall D vs -> elems_tr e load_e after inits vs = (toks, items, None) ->
    exists c, spec_areqs vs (mk_areqs (vec_body prog_e (default_of e) inits vs)) = ((toks, None, c), []).
  Proof.
    intros He. induction vs as [|v vs IH]; intros inits toks items HD H; cbn [elems_tr vec_body] in *.
    - injection H as <- _. exists true. reflexivity.
    - inversion HD as [|? ? HDv HDvs]; subst.
      destruct (load_e (hd (default_of e) inits) v) as [t r] eqn:El.
      assert (Hr : no_err r /\ exists t' items', elems_tr e load_e after (tl inits) vs = (t', items', None) /\ toks = KIsEnd false :: t ++ t').
      { destruct r; [| | |discriminate H].
        all: destruct (elems_tr e load_e after (tl inits) vs) as [[t' items'] err]; injection H as <- _ ->; split; [exact I | eauto]. }
      destruct Hr as [Hne [t' [items' [Hrest ->]]]].
      destruct (He _ v vs t r HDv El Hne) as [c1 E1]. destruct (IH (tl inits) t' items' HDvs Hrest) as [c2 E2].
      cbn [mk_areqs]. rewrite spec_areqs_cons. cbn [MpScopeSpec.spec_areq].
      rewrite spec_areqs_app, E1, E2.
      eexists. cbn [app andb]. reflexivity.
  Qed.

  (* the loop over the members of a class *)
  Lemma members_loop kvs ms : Forall (fun m => member_ok (snd m)) ms ->
    (forall name s' x, In (name, s') ms -> lookup (KStr name) kvs = Some x -> dok s' x) ->
    forall inits toks fields, members_tr load_tr kvs inits ms = (toks, fields, None) ->
    exists c, spec_reqs kvs (mk_reqs (members_prog member_prog kvs inits ms)) = (toks, None, c).
  Proof.
    induction 1 as [|[name s'] ms Hm _ IH]; intros HD inits toks fields H; cbn [members_tr members_prog] in *.
    - injection H as <- _. exists true. reflexivity.
    - cbn [snd] in Hm.
      set (i0 := match inits with (_, x) :: _ => x | [] => default_of s' end) in *.
      destruct (match lookup (KStr name) kvs with Some x => load_tr s' i0 x | None => (absent_toks s', absent_res s') end) as [t r] eqn:El.
      assert (Hr : no_err r /\ exists t' f', members_tr load_tr kvs (tl inits) ms = (t', f', None) /\ toks = t ++ t').
      { destruct r; [| | |discriminate H].
        all: destruct (members_tr load_tr kvs (tl inits) ms) as [[t' f'] err]; injection H as <- _ ->; split; [exact I | eauto]. }
      destruct Hr as [Hne [t' [f' [Hrest ->]]]].
      destruct (Hm i0 (QStr name) kvs t r (fun x Hx => HD name s' x (or_introl eq_refl) Hx) El Hne) as [c1 E1].
      destruct (IH (fun n s0 x Hin => HD n s0 x (or_intror Hin)) (tl inits) t' f' Hrest) as [c2 E2].
      rewrite spec_reqs_app. cbn [key_of_q] in E1. rewrite E1, E2. eexists. reflexivity.
  Qed.

  Lemma no_container_spec v toks r : no_container o v = (toks, r) -> no_err r ->
    not_container o v = (toks, None, true) /\ r = LNot.
  Proof.
    unfold no_container, not_container. destruct v; destruct (o_mismatch o); intros H; injection H as <- <-; intros Hn;
      try (exfalso; exact Hn); split; reflexivity.
  Qed.

  (* an array scope at an element position / as a member: the body is the loop, whatever becomes of the elements *)
  Definition arr_tr (e : shape) (load_e : tv -> mpv -> list tok * lres) (after : tv -> lres -> tv) (mk : list tv -> tv) (inits : list tv) (v : mpv) : list tok * lres :=
    match v with
    | MArr vs =>
      match elems_tr e load_e after inits vs with
      | (t, items, None) => (KOpen :: t ++ [KClose], LOk (mk items))
      | (t, _, Some err) => (KOpen :: t, LErr err)
      end
    | _ => no_container o v
    end.

  Lemma vec_is_arr e load_e mk inits v : vec_tr o e load_e mk inits v = arr_tr e load_e (fun _ r => fill e r) mk inits v.
  Proof. reflexivity. Qed.

  Lemma vec_elem e load_e prog_e after mk (D : mpv -> Prop) inits v vs toks r :
    (forall i v vs toks r, D v -> load_e i v = (toks, r) -> no_err r ->
       exists c, spec_areqs (v :: vs) (mk_areqs (prog_e i v)) = ((toks, None, c), vs)) ->
    (forall l, v = MArr l -> Forall D l) ->
    arr_tr e load_e after mk inits v = (toks, r) -> no_err r ->
    exists c, spec_areq (v :: vs) (AArr (arr_prog prog_e (default_of e) inits v)) = ((toks, None, c), vs).
  Proof.
    intros He HD H Hn. rewrite spec_areq_arr. unfold arr_tr in H.
    destruct v; try (destruct (no_container_spec _ _ _ H Hn) as [E _]; rewrite E; eexists; reflexivity).
    cbn [arr_prog]. destruct (elems_tr e load_e after inits l) as [[t items] err] eqn:Et. destruct err as [err|].
    { injection H as _ <-. destruct Hn. }
    injection H as <- _. destruct (vec_loop e load_e prog_e after D He l inits t items (HD l eq_refl) Et) as [c E]. rewrite E.
    eexists. reflexivity.
  Qed.

  Lemma vec_member e load_e prog_e after mk (D : mpv -> Prop) inits q kvs toks r :
    (forall i v vs toks r, D v -> load_e i v = (toks, r) -> no_err r ->
       exists c, spec_areqs (v :: vs) (mk_areqs (prog_e i v)) = ((toks, None, c), vs)) ->
    (forall l, lookup (key_of_q q) kvs = Some (MArr l) -> Forall D l) ->
    (match lookup (key_of_q q) kvs with Some x => arr_tr e load_e after mk inits x | None => ([KNone], LNot) end) = (toks, r) -> no_err r ->
    exists c, spec_req kvs (RArr q (match lookup (key_of_q q) kvs with Some v => arr_prog prog_e (default_of e) inits v | None => ANil end)) = (toks, None, c).
  Proof.
    intros He HD H Hn. rewrite spec_req_arr. destruct (lookup (key_of_q q) kvs) as [v|].
    2:{ injection H as <- _. eexists. reflexivity. }
    unfold arr_tr in H.
    destruct v; try (destruct (no_container_spec _ _ _ H Hn) as [E _]; rewrite E; eexists; reflexivity).
    cbn [arr_prog]. destruct (elems_tr e load_e after inits l) as [[t items] err] eqn:Et. destruct err as [err|].
    { injection H as _ <-. destruct Hn. }
    injection H as <- _. destruct (vec_loop e load_e prog_e after D He l inits t items (HD l eq_refl) Et) as [c E]. rewrite E.
    eexists. reflexivity.
  Qed.

  Definition any (_ : mpv) : Prop := True.
  Lemma any_all l : Forall any l.
  Proof. apply Forall_forall. intros x _. exact I. Qed.

  Lemma u8_elem i v vs toks r : any v -> scalar_ld narrow widen o (SInt IU8) (TgInt (mkIty false 8)) i v = (toks, r) -> no_err r ->
    exists c, spec_areqs (v :: vs) (mk_areqs (u8_prog i v)) = ((toks, None, c), vs).
  Proof.
    intros _ H Hn. unfold u8_prog. cbn [mk_areqs]. rewrite spec_areqs_cons. cbn [MpScopeSpec.spec_areq MpScopeSpec.spec_areqs].
    unfold scalar_ld, scalar_tr in H. destruct (typed_spec narrow widen o (TgInt (mkIty false 8)) v); injection H as <- <-;
      try (exfalso; exact Hn); cbn [of_tres]; eexists; reflexivity.
  Qed.

  Lemma bool_elem i v vs toks r : any v -> scalar_ld narrow widen o SBool (TgInt (mkIty false 1)) i v = (toks, r) -> no_err r ->
    exists c, spec_areqs (v :: vs) (mk_areqs (bool_prog i v)) = ((toks, None, c), vs).
  Proof.
    intros _ H Hn. unfold bool_prog. cbn [mk_areqs]. rewrite spec_areqs_cons. cbn [MpScopeSpec.spec_areq MpScopeSpec.spec_areqs].
    unfold scalar_ld, scalar_tr in H. destruct (typed_spec narrow widen o (TgInt (mkIty false 1)) v); injection H as <- <-;
      try (exfalso; exact Hn); cbn [of_tres]; eexists; reflexivity.
  Qed.

  (* an error-free load into a fixed-size array consumes the answers of an array scope whose loop runs to the end *)
  Lemma arr_as_vec n e i v toks r : load_tr (SArr n e) i v = (toks, r) -> no_err r ->
    arr_tr e (load_tr e) keep TArr (arr_items i) v = (toks, r).
  Proof.
    intros H Hn. cbn [MpLoadModel.load_tr] in H. unfold arr_tr. destruct v; try exact H.
    destruct (elems_tr e (load_tr e) keep (arr_items i) (firstn n l)) as [[t items] err] eqn:Et. destruct err as [err|].
    { injection H as _ <-. destruct Hn. }
    destruct (Nat.eqb (length l) n) eqn:En; [|injection H as _ <-; destruct Hn].
    apply Nat.eqb_eq in En. subst n. rewrite firstn_all in Et. rewrite Et. exact H.
  Qed.

  (* std::vector<bool> consumes the answers a sequence container of bool would (the values differ) *)
  Lemma bools_toks ld : forall vs prev t items err, bools_tr ld prev vs = (t, items, err) ->
    forall after inits, exists items', elems_tr SBool (fun _ => ld) after inits vs = (t, items', err).
  Proof.
    induction vs as [|v vs IH]; intros prev t items err H after inits; cbn [bools_tr elems_tr] in *.
    - injection H as <- _ <-. eexists. reflexivity.
    - destruct (ld v) as [t0 r0]. destruct r0 as [x| |x|e0].
      + destruct (bools_tr ld (match x with TBool b => b | _ => prev end) vs) as [[t' i'] e'] eqn:Eb. injection H as <- _ <-.
        destruct (IH _ _ _ _ Eb after (tl inits)) as [i2 E2]. rewrite E2. eexists. reflexivity.
      + destruct (bools_tr ld prev vs) as [[t' i'] e'] eqn:Eb. injection H as <- _ <-.
        destruct (IH _ _ _ _ Eb after (tl inits)) as [i2 E2]. rewrite E2. eexists. reflexivity.
      + destruct (bools_tr ld prev vs) as [[t' i'] e'] eqn:Eb. injection H as <- _ <-.
        destruct (IH _ _ _ _ Eb after (tl inits)) as [i2 E2]. rewrite E2. eexists. reflexivity.
      + injection H as <- _ <-. eexists. reflexivity.
  Qed.

  Lemma vb_as_vec i v toks r : load_tr SVecBool i v = (toks, r) -> no_err r ->
    exists r', arr_tr SBool (scalar_ld narrow widen o SBool (TgInt (mkIty false 1))) (fun _ r => fill SBool r) TArr [] v = (toks, r') /\ no_err r'.
  Proof.
    intros H Hn. cbn [MpLoadModel.load_tr] in H. unfold arr_tr. destruct v; try (exists r; split; [exact H | exact Hn]).
    destruct (bools_tr (scalar_tr narrow widen o SBool (TgInt (mkIty false 1))) false l) as [[t items] err] eqn:Et.
    destruct (bools_toks _ _ _ _ _ _ Et (fun _ r => fill SBool r) []) as [items' E'].
    change (fun _ : tv => scalar_tr narrow widen o SBool (TgInt (mkIty false 1))) with (scalar_ld narrow widen o SBool (TgInt (mkIty false 1))) in E'.
    rewrite E'. destruct err as [err|].
    { injection H as _ <-. destruct Hn. }
    injection H as <- _. eexists. split; [reflexivity | exact I].
  Qed.

  Lemma one_areq a vs r vs' : spec_areq vs a = (r, vs') ->
    spec_areqs vs (mk_areqs [a]) = (match r with (t, None, c) => (t ++ [], None, c && true) | f => f end, vs').
  Proof.
    intros H. cbn [mk_areqs]. rewrite spec_areqs_cons, H. destruct r as [[t e] c]. destruct e; reflexivity.
  Qed.

  Lemma one_req_inv kvs r toks c : spec_reqs kvs (mk_reqs [r]) = (toks, None, c) -> exists c', spec_req kvs r = (toks, None, c').
  Proof.
    cbn [mk_reqs]. rewrite spec_reqs_cons. destruct (spec_req kvs r) as [[t1 e1] c1]. destruct e1 as [e1|]; [discriminate|].
    cbn [MpScopeSpec.spec_reqs]. rewrite app_nil_r. intros H. injection H as <- _. exists c1. reflexivity.
  Qed.

  Definition is_bin (v : mpv) : bool := match v with MBin _ => true | _ => false end.

  Lemma spec_areq_bin_other v vs n : is_bin v = false -> spec_areq (v :: vs) (ABin n) = (([KNone], None, true), v :: vs).
  Proof. destruct v; intros H; try discriminate H; reflexivity. Qed.

  Lemma spec_req_bin_other q kvs n : (match lookup (key_of_q q) kvs with Some v => is_bin v | None => false end) = false ->
    spec_req kvs (RBin q n) = ([KNone], None, true).
  Proof. cbn [MpScopeSpec.spec_req]. destruct (lookup (key_of_q q) kvs) as [v|]; [|reflexivity]. destruct v; intros H; try discriminate H; reflexivity. Qed.

  Notation u8_tr := (vec_tr o (SInt IU8) (scalar_ld narrow widen o (SInt IU8) (TgInt (mkIty false 8))) (fun items => TBytes (map byte_of items)) []).

  Lemma bytes_fallback_elem v vs t r0 : is_bin v = false -> u8_tr v = (t, r0) -> no_err r0 ->
    exists c, spec_areqs (v :: vs) (mk_areqs [ABin 0; AArr (arr_prog u8_prog (TInt IU8 0) [] v)]) = ((KNone :: t, None, c), vs).
  Proof.
    intros Hb Ev Hn. cbn [mk_areqs]. rewrite spec_areqs_cons, (spec_areq_bin_other v vs 0 Hb).
    rewrite vec_is_arr in Ev.
    destruct (vec_elem (SInt IU8) _ u8_prog _ _ any [] v vs t r0 u8_elem (fun l _ => any_all l) Ev Hn) as [c E].
    cbn [default_of] in E. rewrite spec_areqs_cons, E. cbn [MpScopeSpec.spec_areqs]. eexists. rewrite app_nil_r. reflexivity.
  Qed.

  Lemma bytes_fallback_member q kvs v t r0 : lookup (key_of_q q) kvs = Some v -> is_bin v = false -> u8_tr v = (t, r0) -> no_err r0 ->
    exists c, spec_reqs kvs (mk_reqs [RBin q 0; RArr q (arr_prog u8_prog (TInt IU8 0) [] v)]) = (KNone :: t, None, c).
  Proof.
    intros El Hb Ev Hn. cbn [mk_reqs]. rewrite spec_reqs_cons, spec_req_bin_other by (rewrite El; exact Hb).
    rewrite vec_is_arr in Ev.
    pose proof (vec_member (SInt IU8) _ u8_prog (fun _ r => fill (SInt IU8) r) (fun items => TBytes (map byte_of items)) any [] q kvs t r0 u8_elem (fun l _ => any_all l)) as Hv. rewrite El in Hv.
    destruct (Hv Ev Hn) as [c E]. cbn [default_of] in E. rewrite spec_reqs_cons, E. cbn [MpScopeSpec.spec_reqs]. eexists. rewrite app_nil_r. reflexivity.
  Qed.

  Lemma binarr_nonbin q kvs x n body : lookup (key_of_q q) kvs = Some x -> is_bin x = false ->
    spec_vact kvs q (VBinArr n body) = match spec_req kvs (RArr q body) with (t2, e2, c2) => (KNone :: t2, e2, c2) end.
  Proof. intros Hl Hb. rewrite spec_vact_binarr, spec_req_arr, Hl. destruct x; try discriminate Hb; reflexivity. Qed.

  (* ---------- guarded requests (not issued by the layer since 9e55af6) ---------- *)
  (* an error-free sequence of requests is the same inside a try block: nothing is caught *)
  Lemma try_free p : forall vs t c vs', spec_areqs vs (mk_areqs p) = ((t, None, c), vs') ->
    spec_areqs vs (mk_areqs (map ATry p)) = ((t, None, c), vs').
  Proof.
    induction p as [|a p IH]; intros vs t c vs' H; [exact H|]. cbn [map mk_areqs] in *. rewrite spec_areqs_cons in *.
    destruct (spec_areq vs a) as [[[t1 e1] c1] vs1] eqn:E1. destruct e1 as [e1|]; [discriminate H|].
    assert (Et : spec_areq vs (ATry a) = spec_areq vs a).
    { rewrite spec_areq_try. destruct vs as [|v0 vs0]; [|reflexivity].
      destruct a; try reflexivity; cbn [MpScopeSpec.spec_areq] in E1; discriminate E1. }
    rewrite Et, E1. destruct (spec_areqs vs1 (mk_areqs p)) as [[[t2 e2] c2] vs2] eqn:E2. destruct e2 as [e2|]; [discriminate H|].
    rewrite (IH vs1 t2 c2 vs2 E2). exact H.
  Qed.

  Lemma caught_on_empty a : guarded a = true -> spec_areq [] (ATry a) = (([KCaught], None, true), []).
  Proof. destruct a; intros H; try discriminate H; reflexivity. Qed.

  (* ---------- std::tuple ---------- *)
  Lemma comps_loop ss : Forall elem_ok ss ->
    forall inits vs toks items, (forall s v, In (s, v) (combine ss vs) -> dok s v) ->
    comps_tr o load_tr ss inits vs = (toks, items, None) ->
    exists c vs', spec_areqs vs (mk_areqs (comps_prog o elem_prog ss inits vs)) = ((toks, None, c), vs').
  Proof.
    induction 1 as [|s ss Hs _ IH]; intros inits vs toks items HD H; cbn [comps_tr comps_prog] in *.
    - destruct vs as [|v vs].
      + injection H as <- _. eexists _, _. reflexivity.
      + destruct (o_mismatch o); [discriminate H|]. injection H as <- _. eexists _, _. reflexivity.
    - destruct vs as [|v vs].
      + destruct (o_mismatch o); [discriminate H|]. injection H as <- _. eexists _, _. reflexivity.
      + destruct (load_tr s (hd (default_of s) inits) v) as [t r] eqn:El.
        assert (Hr : no_err r /\ exists t' items', comps_tr o load_tr ss (tl inits) vs = (t', items', None) /\ toks = KIsEnd false :: t ++ t').
        { destruct r; [| | |discriminate H].
          all: destruct (comps_tr o load_tr ss (tl inits) vs) as [[t' items'] err]; injection H as <- _ ->; split; [exact I | eauto]. }
        destruct Hr as [Hne [t' [items' [Hrest ->]]]].
        destruct (Hs _ v vs t r (HD s v (or_introl eq_refl)) El Hne) as [c1 E1].
        destruct (IH (tl inits) vs t' items' (fun s0 v0 Hin => HD s0 v0 (or_intror Hin)) Hrest) as [c2 [vs' E2]].
        cbn [mk_areqs]. rewrite spec_areqs_cons. cbn [MpScopeSpec.spec_areq].
        rewrite spec_areqs_app, E1, E2. eexists _, _. reflexivity.
  Qed.

  Lemma tuple_body ss : Forall elem_ok ss -> forall i v toks r, dok (STuple ss) v -> load_tr (STuple ss) i v = (toks, r) -> no_err r ->
    exists c, (match v with
               | MArr vs2 =>
                 match spec_areqs vs2 (match v with MArr vs => mk_areqs (comps_prog o elem_prog ss (arr_items i) vs) | _ => ANil end) with
                 | (r', lft) => child r' (match lft with [] => true | _ => false end)
                 end
               | _ => not_container o v
               end) = (toks, None, c).
  Proof.
    intros Hss i v toks r HD H Hn. cbn [MpLoadModel.load_tr] in H.
    destruct v; try (destruct (no_container_spec _ _ _ H Hn) as [E _]; rewrite E; eexists; reflexivity).
    destruct (comps_tr o load_tr ss (arr_items i) l) as [[t items] err] eqn:Et. destruct err as [err|].
    { injection H as _ <-. destruct Hn. }
    injection H as <- _. destruct (comps_loop ss Hss (arr_items i) l t items (dok_tuple ss l HD) Et) as [c [vs' E]]. rewrite E.
    eexists. reflexivity.
  Qed.

  (* the keyed load from inside the callback is the keyed load of a member whose key finds the value *)
  Definition not_opt (s : shape) : Prop := match s with SOpt _ => False | _ => True end.
  Lemma vact_of_member s : not_opt s -> member_ok s -> vact_ok s.
  Proof.
    intros Hs Hm i q kvs x toks r Hl HD H Hn. specialize (Hm i q kvs toks r). unfold member_tr in Hm. rewrite Hl in Hm.
    assert (HD' : forall y, Some x = Some y -> dok s y) by (intros y Hy; injection Hy as <-; exact HD).
    destruct (Hm HD' H Hn) as [c E]. clear Hm HD'.
    destruct s; try (destruct Hs; fail); cbn [MpLoadModel.member_prog MpLoadModel.vact_prog target_of] in *;
      try (apply one_req_inv in E; destruct E as [c' E]; exists c'; exact E).
    (* byte container *)
    destruct (is_bin x) eqn:Hb.
    - destruct x; try discriminate Hb. apply one_req_inv in E. destruct E as [c' E]. exists c'. exact E.
    - assert (E' : spec_reqs kvs (mk_reqs [RBin q 0; RArr q (arr_prog u8_prog (TInt IU8 0) [] x)]) = (toks, None, c))
        by (destruct x; try discriminate Hb; exact E).
      assert (G : vact_prog SBytes i x = VBinArr 0 (arr_prog u8_prog (TInt IU8 0) [] x)) by (destruct x; try discriminate Hb; reflexivity).
      cbn [MpLoadModel.vact_prog]. change (match x with MBin bs => VBin (length bs) | _ => VBinArr 0 (arr_prog u8_prog (TInt IU8 0) [] x) end) with (vact_prog SBytes i x).
      rewrite G. clear E G.
      cbn [mk_reqs] in E'. rewrite spec_reqs_cons, spec_req_bin_other in E' by (rewrite Hl; exact Hb).
      rewrite spec_reqs_cons in E'. rewrite (binarr_nonbin q kvs x 0 _ Hl Hb).
      destruct (spec_req kvs (RArr q (arr_prog u8_prog (TInt IU8 0) [] x))) as [[t2 e2] c2].
      destruct e2 as [e2|]; [discriminate E'|]. cbn [MpScopeSpec.spec_reqs app] in E'. rewrite app_nil_r in E'.
      injection E' as <- _. eexists. reflexivity.
  Qed.

  (* the loop of SerializeMapImpl over the members of the document, in any mode, into a map that holds m0 *)
  Lemma entries_loop only ks e m0 kvs : vact_ok e -> doc_ok (MMap kvs) = true ->
    forall kvs2 kvs1, kvs = kvs1 ++ kvs2 ->
    forall toks es, entries_tr o only ks e (load_tr e) m0 kvs2 = (toks, es, None) ->
    exists c, spec_vacts kvs kvs2 (mk_vacts (map_acts o only ks (default_of e) (vact_prog e) m0 kvs2)) = (toks, None, c).
  Proof.
    intros He Hok. destruct (doc_ok_map _ Hok) as [Hsup [Hdist Hvals]].
    induction kvs2 as [|[k x] kvs2 IH]; intros kvs1 E toks es H.
    - cbn [entries_tr] in H. injection H as <- _. exists true. reflexivity.
    - cbn [entries_tr] in H. cbn [map_acts mk_vacts]. rewrite spec_vacts_cons. unfold map_act. cbn [fst snd].
      assert (E' : kvs = (kvs1 ++ [(k, x)]) ++ kvs2) by (rewrite <- app_assoc; exact E).
      destruct (keyden k) as [kk|] eqn:Ek; [|discriminate H].
      destruct (conv_key o ks kk) as [key| |err] eqn:Ec; [| |discriminate H].
      + assert (Hskip : forall toks es, entries_tr o only ks e (load_tr e) m0 kvs2 = (toks, es, None) ->
                  exists c, (let '(t2, e2, c2) := spec_vacts kvs kvs2 (mk_vacts (map_acts o only ks (default_of e) (vact_prog e) m0 kvs2)) in
                             ([] ++ t2, e2, true && c2)) = (toks, None, c)).
        { intros toks0 es0 H0. destruct (IH (kvs1 ++ [(k, x)]) E' toks0 es0 H0) as [c2 E2]. rewrite E2. eexists. reflexivity. }
        assert (Hload : forall i0, (match load_tr e i0 x with
                                    | (t, LErr err) => (t, [], Some err)
                                    | (t, r) => match entries_tr o only ks e (load_tr e) m0 kvs2 with (t', es, err) => (t ++ t', (key, keep i0 r) :: es, err) end
                                    end) = (toks, es, None) ->
                  exists c, (match spec_vact kvs (qkey_of_key kk) (vact_prog e i0 x) with
                             | (t1, None, c1) => match spec_vacts kvs kvs2 (mk_vacts (map_acts o only ks (default_of e) (vact_prog e) m0 kvs2)) with
                                                 | (t2, e2, c2) => (t1 ++ t2, e2, c1 && c2) end
                             | failed => failed end) = (toks, None, c)).
        { intros i0 H0. destruct (load_tr e i0 x) as [t r] eqn:El.
          assert (Hr : no_err r /\ exists t' es', entries_tr o only ks e (load_tr e) m0 kvs2 = (t', es', None) /\ toks = t ++ t').
          { destruct r; [| | |discriminate H0].
            all: destruct (entries_tr o only ks e (load_tr e) m0 kvs2) as [[t' es'] err]; injection H0 as <- _ ->; split; [exact I | eauto]. }
          destruct Hr as [Hne [t' [es' [Hrest ->]]]].
          assert (Hl : lookup (key_of_q (qkey_of_key kk)) kvs = Some x).
          { assert (Hm : kmatch (qkey_of_key kk) (k, x) = true)
              by (unfold kmatch; cbn [fst]; rewrite Ek, key_of_qkey_of_key; exact (conv_key_refl o ks kk key Ec)).
            rewrite E in Hdist. destruct (match_unique _ _ _ _ _ Hdist Hm) as [Hno _].
            rewrite E, (lookup_skip _ _ _ Hno). apply lookup_hit. exact Hm. }
          assert (HDx : dok e x).
          { right. apply Hvals. rewrite E, map_app. apply in_or_app. right. left. reflexivity. }
          destruct (He i0 (qkey_of_key kk) kvs x t r Hl HDx El Hne) as [c1 E1]. rewrite E1.
          destruct (IH (kvs1 ++ [(k, x)]) E' t' es' Hrest) as [c2 E2]. rewrite E2. eexists. reflexivity. }
        destruct (map_find key m0) as [old|]; [exact (Hload old H)|].
        destruct only; [cbn [MpScopeSpec.spec_vact]; exact (Hskip toks es H) | exact (Hload (default_of e) H)].
      + cbn [MpScopeSpec.spec_vact]. destruct (IH (kvs1 ++ [(k, x)]) E' toks es H) as [c2 E2]. rewrite E2. eexists. reflexivity.
  Qed.

  Lemma spec_req_each kvs acts : spec_req kvs (REach acts) = spec_vacts kvs kvs acts.
  Proof. reflexivity. Qed.

  (* std::map at an element position / as a member / as a mapped value: the body of the object scope *)
  Lemma map_body m ks e : vact_ok e -> forall i v toks r, dok (SMap m ks e) v -> load_tr (SMap m ks e) i v = (toks, r) -> no_err r ->
    exists c, (match v with
               | MMap kvs' => child (spec_reqs kvs' (match v with
                                                     | MMap kvs => mk_reqs [REach (mk_vacts (map_acts o (map_only m) ks (default_of e) (vact_prog e) (map_m0 m i) kvs))]
                                                     | _ => RNil end)) true
               | _ => not_container o v
               end) = (toks, None, c).
  Proof.
    intros He i v toks r HD H Hn. cbn [MpLoadModel.load_tr] in H.
    destruct v; try (destruct (no_container_spec _ _ _ H Hn) as [E _]; rewrite E; eexists; reflexivity).
    fold (map_m0 m i) in H. fold (map_only m) in H.
    destruct (entries_tr o (map_only m) ks e (load_tr e) (map_m0 m i) l) as [[t es] err] eqn:Et. destruct err as [err|].
    { injection H as _ <-. destruct Hn. }
    injection H as <- _.
    destruct (entries_loop (map_only m) ks e (map_m0 m i) l He (dok_map _ _ _ _ HD) l [] eq_refl t es Et) as [c E].
    cbn [mk_reqs]. rewrite spec_reqs_cons, spec_req_each, E. cbn [MpScopeSpec.spec_reqs child]. eexists. rewrite app_nil_r. reflexivity.
  Qed.

  Definition triple (s : shape) : Prop := elem_ok s /\ member_ok s /\ vact_ok s.
  Lemma third s : not_opt s -> elem_ok s /\ member_ok s -> triple s.
  Proof. intros Hs [H1 H2]. split; [exact H1 | split; [exact H2 | exact (vact_of_member s Hs H2)]]. Qed.

  (* one typed read *)
  Lemma scalar_case s : (match s with SVec _ | SClass _ | SBytes | SMap _ _ _ | SArr _ _ | SVecBool | STuple _ | SOpt _ | SMMap _ _ | SSet _ _ => False | _ => True end) -> triple s.
  Proof.
    intros Hs. apply third; [destruct s; try destruct Hs; exact I|].
    assert (Ht : exists t, target_of s = Some t /\ forall i v, load_tr s i v = scalar_tr narrow widen o s t v
                                   /\ elem_prog s i v = [AGet t] /\ forall q ov, member_prog s i q ov = [RGet q t] /\ absent_toks s = [KFalse])
      by (destruct s; try destruct Hs; eexists; (split; [reflexivity|]); intros i v; repeat split).
    destruct Ht as [t [Ht Hall]]. split.
    + intros i v vs toks r _ H Hn. destruct (Hall i v) as [Hl [Hp _]]. rewrite Hl in H. rewrite Hp.
      cbn [mk_areqs]. rewrite spec_areqs_cons. cbn [MpScopeSpec.spec_areq MpScopeSpec.spec_areqs].
      unfold scalar_tr in H. destruct (typed_spec narrow widen o t v); injection H as <- <-;
        try (exfalso; exact Hn); cbn [of_tres]; eexists; reflexivity.
    + intros i q kvs toks r _ H Hn. destruct (Hall i MNil) as [_ [_ Hm]]. destruct (Hm q (lookup (key_of_q q) kvs)) as [Hp Ha].
      rewrite Hp. cbn [mk_reqs]. rewrite spec_reqs_cons. cbn [MpScopeSpec.spec_req MpScopeSpec.spec_reqs].
      unfold member_tr in H. destruct (lookup (key_of_q q) kvs) as [v|].
      * destruct (Hall i v) as [Hl _]. rewrite Hl in H. unfold scalar_tr in H.
        destruct (typed_spec narrow widen o t v); injection H as <- <-; try (exfalso; exact Hn); cbn [of_tres]; eexists; reflexivity.
      * rewrite Ha in H. injection H as <- _. eexists. reflexivity.
  Qed.

  (* class *)
  Lemma class_case ms : Forall (fun m => triple (snd m)) ms -> triple (SClass ms).
  Proof.
    intros Hms. apply third; [exact I|].
    assert (Hm : Forall (fun m => member_ok (snd m)) ms) by (eapply Forall_impl; [|exact Hms]; intros m [_ [Hmm _]]; exact Hmm).
    assert (Hbody : forall i v toks r, dok (SClass ms) v -> load_tr (SClass ms) i v = (toks, r) -> no_err r ->
              exists c, (match v with
                         | MMap kvs' => child (spec_reqs kvs' (match v with MMap kvs => mk_reqs (members_prog member_prog kvs (obj_fields i) ms) | _ => RNil end)) true
                         | _ => not_container o v
                         end) = (toks, None, c)).
    { intros i v toks r HD H Hn. cbn [MpLoadModel.load_tr] in H.
      destruct v; try (destruct (no_container_spec _ _ _ H Hn) as [E _]; rewrite E; eexists; reflexivity).
      destruct (members_tr load_tr l (obj_fields i) ms) as [[t fields] err] eqn:Et. destruct err as [err|].
      { injection H as _ <-. destruct Hn. }
      injection H as <- _. destruct (members_loop l ms Hm (dok_class ms l HD) (obj_fields i) t fields Et) as [c E]. rewrite E. eexists. reflexivity. }
    split.
    + intros i v vs toks r HD H Hn. rewrite ?elem_prog_class, ?elem_prog_map. cbn [mk_areqs]. rewrite spec_areqs_cons, spec_areq_obj.
      destruct (Hbody i v toks r HD H Hn) as [c E]. cbn [mk_reqs] in E |- *. destruct v; rewrite E; cbn [MpScopeSpec.spec_areqs]; eexists; rewrite app_nil_r; reflexivity.
    + intros i q kvs toks r HD H Hn. unfold member_tr in H. rewrite ?member_prog_class, ?member_prog_map. cbn [mk_reqs]. rewrite spec_reqs_cons, spec_req_obj.
      destruct (lookup (key_of_q q) kvs) as [v|].
      * destruct (Hbody i v toks r (HD v eq_refl) H Hn) as [c E]. cbn [mk_reqs] in E |- *. destruct v; rewrite E; cbn [MpScopeSpec.spec_reqs]; eexists; rewrite app_nil_r; reflexivity.
      * injection H as <- _. cbn [MpScopeSpec.spec_reqs absent_toks]. eexists. reflexivity.
  Qed.

  (* ---------- std::multimap, std::set ---------- *)
  Lemma elems_ext e ld1 ld2 after : (forall i x, ld1 i x = ld2 i x) ->
    forall vs inits, elems_tr e ld1 after inits vs = elems_tr e ld2 after inits vs.
  Proof.
    intros H. induction vs as [|v vs IH]; intros inits; [reflexivity|]. cbn [elems_tr]. rewrite H, (IH (tl inits)). reflexivity.
  Qed.

  Lemma vec_body_ext (p1 p2 : tv -> mpv -> list areq) d : (forall x, p1 d x = p2 d x) -> forall vs, vec_body p1 d [] vs = vec_body p2 d [] vs.
  Proof. intros H. induction vs as [|v vs IH]; [reflexivity|]. cbn [vec_body hd tl]. rewrite H, IH. reflexivity. Qed.

  Lemma members_ext_load (ld1 ld2 : shape -> tv -> mpv -> list tok * lres) kvs : forall ms inits,
    (forall name s', In (name, s') ms -> forall i y, ld1 s' i y = ld2 s' i y) ->
    members_tr ld1 kvs inits ms = members_tr ld2 kvs inits ms.
  Proof.
    induction ms as [|[name s'] ms IH]; intros inits H; [reflexivity|]. cbn [members_tr].
    rewrite (IH (tl inits)) by (intros n s0 Hin; apply (H n s0); right; exact Hin).
    destruct (lookup (KStr name) kvs) as [x|]; [rewrite (H name s' (or_introl eq_refl))|]; reflexivity.
  Qed.

  Definition pair_sh (ks : kshape) (e : shape) : shape := SClass (pair_ms ks e).
  Definition load2 (e : shape) (s' : shape) (i : tv) (y : mpv) : list tok * lres :=
    match target_of s' with Some t => scalar_tr narrow widen o s' t y | None => load_tr e i y end.

  Lemma load2_eq ks e name s' : In (name, s') (pair_ms ks e) -> forall i y, load2 e s' i y = load_tr s' i y.
  Proof.
    intros [H | [H | []]] i y; injection H as _ <-; unfold load2.
    - destruct ks; reflexivity.
    - destruct e; reflexivity.
  Qed.

  (* the element of a multimap is loaded as the class { key; value } *)
  Definition pair_loader (ks : kshape) (e : shape) (i0 : tv) (x : mpv) : list tok * lres :=
    match x with
    | MMap kvs =>
      match members_tr (load2 e) kvs (obj_fields i0) (pair_ms ks e) with
      | (t, fields, None) => (KOpen :: t ++ [KClose], LOk (TObj fields))
      | (t, _, Some err) => (KOpen :: t, LErr err)
      end
    | _ => no_container o x
    end.

  Lemma pair_load_eq ks e i0 x : pair_loader ks e i0 x = load_tr (pair_sh ks e) i0 x.
  Proof.
    unfold pair_loader, pair_sh. cbn [MpLoadModel.load_tr]. destruct x; try reflexivity.
    rewrite (members_ext_load (load2 e) load_tr l (pair_ms ks e) (obj_fields i0) (load2_eq ks e)). reflexivity.
  Qed.

  Definition pair_prog (ks : kshape) (e : shape) (_ : tv) (x : mpv) : list areq :=
    [AObj (match x with
           | MMap kvs => mk_reqs (RGet (QStr key_name) (kshape_target ks) :: member_prog e (default_of e) (QStr value_name) (lookup (KStr value_name) kvs))
           | _ => RNil
           end)].

  Lemma pair_prog_eq ks e x : pair_prog ks e (default_of (pair_sh ks e)) x = elem_prog (pair_sh ks e) (default_of (pair_sh ks e)) x.
  Proof.
    unfold pair_prog, pair_sh. rewrite elem_prog_class. destruct x; try reflexivity.
    cbn [pair_ms default_of obj_fields members_prog tl]. rewrite app_nil_r.
    replace (member_prog (kshape_shape ks) (default_of (kshape_shape ks)) (QStr key_name) (lookup (KStr key_name) l)) with [RGet (QStr key_name) (kshape_target ks)]
      by (destruct ks; reflexivity).
    reflexivity.
  Qed.

  Definition mm_after (_ : tv) (r : lres) : tv := match r with LOk p => p | _ => TNil end.
  Definition mm_mk (items : list tv) : tv := TArr (mm_of (filter is_pair items)).

  Lemma mm_as_arr ks e i v : load_tr (SMMap ks e) i v = arr_tr (pair_sh ks e) (load_tr (pair_sh ks e)) mm_after mm_mk [] v.
  Proof.
    cbn [MpLoadModel.load_tr]. unfold arr_tr. destruct v; try reflexivity.
    change (elems_tr (SClass (pair_ms ks e)) _ _ [] l) with (elems_tr (pair_sh ks e) (pair_loader ks e) mm_after [] l).
    rewrite (elems_ext (pair_sh ks e) (pair_loader ks e) (load_tr (pair_sh ks e)) mm_after (pair_load_eq ks e) l []). reflexivity.
  Qed.

  Lemma elem_prog_mm ks e i v : elem_prog (SMMap ks e) i v = [AArr (arr_prog (pair_prog ks e) (default_of (pair_sh ks e)) [] v)].
  Proof. reflexivity. Qed.
  Lemma member_prog_mm ks e i q ov : member_prog (SMMap ks e) i q ov =
    [RArr q (match ov with Some v => arr_prog (pair_prog ks e) (default_of (pair_sh ks e)) [] v | None => ANil end)].
  Proof. reflexivity. Qed.

  Lemma mm_prog_eq ks e v : arr_prog (pair_prog ks e) (default_of (pair_sh ks e)) [] v = arr_prog (elem_prog (pair_sh ks e)) (default_of (pair_sh ks e)) [] v.
  Proof. unfold arr_prog. destruct v; try reflexivity. rewrite (vec_body_ext _ _ _ (pair_prog_eq ks e) l). reflexivity. Qed.

  Lemma dok_mm ks e l : dok (SMMap ks e) (MArr l) -> Forall (dok (pair_sh ks e)) l.
  Proof.
    intros [H | H]; [discriminate H|]. apply Forall_forall. intros x Hin. right.
    pose proof (doc_ok_arr _ H) as HF. rewrite Forall_forall in HF. exact (HF x Hin).
  Qed.

  Lemma elem_prog_set multi ks i v : elem_prog (SSet multi ks) i v = [AArr (arr_prog (key_prog ks) (default_of (kshape_shape ks)) [] v)].
  Proof. reflexivity. Qed.
  Lemma member_prog_set multi ks i q ov : member_prog (SSet multi ks) i q ov =
    [RArr q (match ov with Some v => arr_prog (key_prog ks) (default_of (kshape_shape ks)) [] v | None => ANil end)].
  Proof. reflexivity. Qed.

  Lemma key_elem ks i v vs toks r : any v -> scalar_ld narrow widen o (kshape_shape ks) (kshape_target ks) i v = (toks, r) -> no_err r ->
    exists c, spec_areqs (v :: vs) (mk_areqs (key_prog ks i v)) = ((toks, None, c), vs).
  Proof.
    intros _ H Hn. unfold key_prog. cbn [mk_areqs]. rewrite spec_areqs_cons. cbn [MpScopeSpec.spec_areq MpScopeSpec.spec_areqs].
    unfold scalar_ld, scalar_tr in H. destruct (typed_spec narrow widen o (kshape_target ks) v); injection H as <- <-;
      try (exfalso; exact Hn); cbn [of_tres]; eexists; reflexivity.
  Qed.

  Lemma set_as_arr multi ks i v : load_tr (SSet multi ks) i v =
    arr_tr (kshape_shape ks) (scalar_ld narrow widen o (kshape_shape ks) (kshape_target ks)) (fun _ r => fill (kshape_shape ks) r)
           (fun items => TArr (set_of multi items)) [] v.
  Proof. reflexivity. Qed.

  Theorem progs_ok : forall s, elem_ok s /\ member_ok s /\ vact_ok s.
  Proof.
    assert (Hthird : forall s, not_opt s -> elem_ok s /\ member_ok s -> elem_ok s /\ member_ok s /\ vact_ok s)
      by (intros s Hs [H1 H2]; split; [exact H1 | split; [exact H2 | exact (vact_of_member s Hs H2)]]).
    apply shape_ind'.
    - (* one typed read *)
      intros s Hs. exact (scalar_case s Hs).
    - (* byte container *)
      apply Hthird; [exact I|]. split.
      + intros i v vs toks r _ H Hn. cbn [MpLoadModel.load_tr] in H.
        destruct (is_bin v) eqn:Hb.
        * destruct v; try discriminate Hb. injection H as <- _. cbn [MpLoadModel.elem_prog mk_areqs]. rewrite spec_areqs_cons.
          cbn [MpScopeSpec.spec_areq MpScopeSpec.spec_areqs].
          unfold bytes_child. rewrite Nat.leb_refl, firstn_all. eexists. rewrite app_nil_r. reflexivity.
        * assert (Hp : elem_prog SBytes i v = [ABin 0; AArr (arr_prog u8_prog (TInt IU8 0) [] v)]) by (destruct v; try discriminate Hb; reflexivity).
          assert (Hl : exists t r0, u8_tr v = (t, r0) /\ toks = KNone :: t /\ r = r0).
          { destruct v; try discriminate Hb;
              match type of H with (let (t, r) := ?X in _) = _ => destruct X as [t r0] eqn:Ev end;
              injection H as <- <-; eexists _, _; (split; [reflexivity | split; reflexivity]). }
          destruct Hl as [t [r0 [Ev [-> ->]]]]. rewrite Hp. exact (bytes_fallback_elem v vs t r0 Hb Ev Hn).
      + intros i q kvs toks r _ H Hn. unfold member_tr in H.
        destruct (lookup (key_of_q q) kvs) as [v|] eqn:El.
        2:{ injection H as <- _. cbn [MpLoadModel.member_prog absent_toks mk_reqs]. rewrite !spec_reqs_cons.
            rewrite spec_req_bin_other by (rewrite El; reflexivity).
            rewrite spec_req_arr, El. cbn [MpScopeSpec.spec_reqs]. eexists. reflexivity. }
        cbn [MpLoadModel.load_tr] in H.
        destruct (is_bin v) eqn:Hb.
        * destruct v; try discriminate Hb. injection H as <- _. cbn [MpLoadModel.member_prog mk_reqs]. rewrite spec_reqs_cons.
          cbn [MpScopeSpec.spec_req MpScopeSpec.spec_reqs]. rewrite El.
          unfold bytes_child. rewrite Nat.leb_refl, firstn_all. eexists. rewrite app_nil_r. reflexivity.
        * assert (Hp : member_prog SBytes i q (Some v) = [RBin q 0; RArr q (arr_prog u8_prog (TInt IU8 0) [] v)]) by (destruct v; try discriminate Hb; reflexivity).
          assert (Hl : exists t r0, u8_tr v = (t, r0) /\ toks = KNone :: t /\ r = r0).
          { destruct v; try discriminate Hb;
              match type of H with (let (t, r) := ?X in _) = _ => destruct X as [t r0] eqn:Ev end;
              injection H as <- <-; eexists _, _; (split; [reflexivity | split; reflexivity]). }
          destruct Hl as [t [r0 [Ev [-> ->]]]]. rewrite Hp. exact (bytes_fallback_member q kvs v t r0 El Hb Ev Hn).
    - (* sequence container *)
      intros e [IHe _]. apply Hthird; [exact I|]. split.
      + intros i v vs toks r HD H Hn. rewrite elem_prog_vec. cbn [MpLoadModel.load_tr] in H. rewrite vec_is_arr in H.
        destruct (vec_elem e _ (elem_prog e) _ _ (dok e) (arr_items i) v vs toks r IHe (fun l El => dok_vec e l (eq_ind _ (dok (SVec e)) HD _ El)) H Hn) as [c E].
        rewrite (one_areq _ _ _ _ E). eexists. rewrite app_nil_r. reflexivity.
      + intros i q kvs toks r HD H Hn. unfold member_tr in H. rewrite member_prog_vec. cbn [MpLoadModel.load_tr absent_toks] in H.
        destruct (vec_member e _ (elem_prog e) (fun _ r => fill e r) TArr (dok e) (arr_items i) q kvs toks r IHe (fun l El => dok_vec e l (HD _ El))) as [c E]; [|exact Hn|].
        { destruct (lookup (key_of_q q) kvs); exact H. }
        cbn [mk_reqs]. rewrite spec_reqs_cons, E. cbn [MpScopeSpec.spec_reqs]. eexists. rewrite app_nil_r. reflexivity.
    - (* class *)
      intros ms Hms. exact (class_case ms Hms).
    - (* std::map *)
      intros m ks e [_ [_ IHv]]. apply Hthird; [exact I|]. pose proof (map_body m ks e IHv) as Hbody. split.
      + intros i v vs toks r HD H Hn. rewrite ?elem_prog_class, ?elem_prog_map. cbn [mk_areqs]. rewrite spec_areqs_cons, spec_areq_obj.
        destruct (Hbody i v toks r HD H Hn) as [c E]. cbn [mk_reqs] in E |- *. destruct v; rewrite E; cbn [MpScopeSpec.spec_areqs]; eexists; rewrite app_nil_r; reflexivity.
      + intros i q kvs toks r HD H Hn. unfold member_tr in H. rewrite ?member_prog_class, ?member_prog_map. cbn [mk_reqs]. rewrite spec_reqs_cons, spec_req_obj.
        destruct (lookup (key_of_q q) kvs) as [v|].
        * destruct (Hbody i v toks r (HD v eq_refl) H Hn) as [c E]. cbn [mk_reqs] in E |- *. destruct v; rewrite E; cbn [MpScopeSpec.spec_reqs]; eexists; rewrite app_nil_r; reflexivity.
        * injection H as <- _. cbn [MpScopeSpec.spec_reqs absent_toks]. eexists. reflexivity.
    - (* fixed-size array *)
      intros n e [IHe _]. apply Hthird; [exact I|]. split.
      + intros i v vs toks r HD H Hn. rewrite elem_prog_arr. apply arr_as_vec in H; [|exact Hn].
        destruct (vec_elem e _ (elem_prog e) _ _ (dok e) (arr_items i) v vs toks r IHe (fun l El => dok_arr n e l (eq_ind _ (dok (SArr n e)) HD _ El)) H Hn) as [c E].
        rewrite (one_areq _ _ _ _ E). eexists. rewrite app_nil_r. reflexivity.
      + intros i q kvs toks r HD H Hn. unfold member_tr in H. rewrite member_prog_arr.
        destruct (vec_member e _ (elem_prog e) keep TArr (dok e) (arr_items i) q kvs toks r IHe (fun l El => dok_arr n e l (HD _ El))) as [c E]; [|exact Hn|].
        { destruct (lookup (key_of_q q) kvs); [exact (arr_as_vec n e i _ toks r H Hn) | exact H]. }
        cbn [mk_reqs]. rewrite spec_reqs_cons, E. cbn [MpScopeSpec.spec_reqs]. eexists. rewrite app_nil_r. reflexivity.
    - (* std::vector<bool> *)
      apply Hthird; [exact I|]. split.
      + intros i v vs toks r _ H Hn. rewrite elem_prog_vb. destruct (vb_as_vec i v toks r H Hn) as [r' [H' Hn']].
        destruct (vec_elem SBool _ bool_prog _ _ any [] v vs toks r' bool_elem (fun l _ => any_all l) H' Hn') as [c E].
        cbn [default_of] in E. rewrite (one_areq _ _ _ _ E). eexists. rewrite app_nil_r. reflexivity.
      + intros i q kvs toks r _ H Hn. unfold member_tr in H. rewrite member_prog_vb.
        assert (Hv : exists r', (match lookup (key_of_q q) kvs with
                                 | Some x => arr_tr SBool (scalar_ld narrow widen o SBool (TgInt (mkIty false 1))) (fun _ r => fill SBool r) TArr [] x
                                 | None => ([KNone], LNot) end) = (toks, r') /\ no_err r').
        { destruct (lookup (key_of_q q) kvs) as [x|]; [exact (vb_as_vec i x toks r H Hn) | exists r; split; [exact H | exact Hn]]. }
        destruct Hv as [r' [H' Hn']].
        destruct (vec_member SBool _ bool_prog _ TArr any [] q kvs toks r' bool_elem (fun l _ => any_all l) H' Hn') as [c E].
        cbn [default_of] in E. cbn [mk_reqs]. rewrite spec_reqs_cons, E. cbn [MpScopeSpec.spec_reqs]. eexists. rewrite app_nil_r. reflexivity.
    - (* std::tuple *)
      intros ss Hss. apply Hthird; [exact I|].
      assert (He : Forall elem_ok ss) by (eapply Forall_impl; [|exact Hss]; intros s0 [H0 _]; exact H0).
      pose proof (tuple_body ss He) as Hbody. split.
      + intros i v vs toks r HD H Hn. rewrite elem_prog_tuple. cbn [mk_areqs]. rewrite spec_areqs_cons, spec_areq_arr.
        destruct (Hbody i v toks r HD H Hn) as [c E].
        destruct v; try (rewrite E; cbn [MpScopeSpec.spec_areqs]; eexists; rewrite app_nil_r; reflexivity).
        destruct (spec_areqs l _) as [r' lft]. rewrite E. cbn [MpScopeSpec.spec_areqs]. eexists. rewrite app_nil_r. reflexivity.
      + intros i q kvs toks r HD H Hn. unfold member_tr in H. rewrite member_prog_tuple. cbn [mk_reqs]. rewrite spec_reqs_cons, spec_req_arr.
        destruct (lookup (key_of_q q) kvs) as [v|].
        * destruct (Hbody i v toks r (HD v eq_refl) H Hn) as [c E].
          destruct v; rewrite E; cbn [MpScopeSpec.spec_reqs]; eexists; rewrite app_nil_r; reflexivity.
        * injection H as <- _. cbn [MpScopeSpec.spec_reqs absent_toks]. eexists. reflexivity.
    - (* std::optional / unique_ptr / shared_ptr: the program and the answers of the wrapped value *)
      intros e [IHe [IHm IHv]].
      assert (Hn' : forall r, no_err (opt_res r) -> no_err r) by (intros r; destruct r; intros H; exact H || exact I).
      split; [|split].
      + intros i v vs toks r HD H Hn. cbn [MpLoadModel.load_tr] in H. destruct (load_tr e (opt_init e i) v) as [t r0] eqn:El.
        injection H as <- <-. exact (IHe (opt_init e i) v vs t r0 HD El (Hn' r0 Hn)).
      + intros i q kvs toks r HD H Hn. unfold member_tr in H.
        change (member_prog (SOpt e) i q (lookup (key_of_q q) kvs)) with (member_prog e (opt_init e i) q (lookup (key_of_q q) kvs)).
        assert (H' : exists r0, member_tr e (opt_init e i) (lookup (key_of_q q) kvs) = (toks, r0) /\ no_err r0).
        { unfold member_tr. destruct (lookup (key_of_q q) kvs) as [x|].
          - cbn [MpLoadModel.load_tr] in H. destruct (load_tr e (opt_init e i) x) as [t r0]. injection H as <- <-. exists r0. split; [reflexivity | exact (Hn' r0 Hn)].
          - injection H as <- _. cbn [absent_toks]. eexists. split; [reflexivity|]. destruct e; exact I. }
        destruct H' as [r0 [H' Hn0]]. exact (IHm (opt_init e i) q kvs toks r0 HD H' Hn0).
      + intros i q kvs x toks r Hl HD H Hn. cbn [MpLoadModel.load_tr] in H. destruct (load_tr e (opt_init e i) x) as [t r0] eqn:El.
        injection H as <- <-. exact (IHv (opt_init e i) q kvs x t r0 Hl HD El (Hn' r0 Hn)).
    - (* std::multimap: an array of pairs, each loaded as the class { key; value } *)
      intros ks e IHe.
      assert (Hp : triple (pair_sh ks e)).
      { apply class_case. constructor; [apply scalar_case; destruct ks; exact I|]. constructor; [exact IHe | constructor]. }
      destruct Hp as [Hpe _]. apply Hthird; [exact I|]. split.
      + intros i v vs toks r HD H Hn. rewrite elem_prog_mm, mm_prog_eq. rewrite mm_as_arr in H.
        destruct (vec_elem (pair_sh ks e) _ (elem_prog (pair_sh ks e)) _ _ (dok (pair_sh ks e)) [] v vs toks r Hpe
                    (fun l El => dok_mm ks e l (eq_ind _ (dok (SMMap ks e)) HD _ El)) H Hn) as [c E].
        rewrite (one_areq _ _ _ _ E). eexists. rewrite app_nil_r. reflexivity.
      + intros i q kvs toks r HD H Hn. unfold member_tr in H. rewrite member_prog_mm.
        assert (H' : (match lookup (key_of_q q) kvs with
                      | Some x => arr_tr (pair_sh ks e) (load_tr (pair_sh ks e)) mm_after mm_mk [] x
                      | None => ([KNone], LNot) end) = (toks, r)).
        { destruct (lookup (key_of_q q) kvs) as [x|]; [rewrite <- mm_as_arr with (i := i); exact H | exact H]. }
        destruct (vec_member (pair_sh ks e) _ (elem_prog (pair_sh ks e)) mm_after mm_mk (dok (pair_sh ks e)) [] q kvs toks r Hpe
                    (fun l El => dok_mm ks e l (HD _ El)) H' Hn) as [c E].
        assert (Eq : (match lookup (key_of_q q) kvs with Some v => arr_prog (pair_prog ks e) (default_of (pair_sh ks e)) [] v | None => ANil end) =
                     (match lookup (key_of_q q) kvs with Some v => arr_prog (elem_prog (pair_sh ks e)) (default_of (pair_sh ks e)) [] v | None => ANil end))
          by (destruct (lookup (key_of_q q) kvs); [apply mm_prog_eq | reflexivity]).
        rewrite Eq. cbn [mk_reqs]. rewrite spec_reqs_cons, E. cbn [MpScopeSpec.spec_reqs]. eexists. rewrite app_nil_r. reflexivity.
    - (* std::set / std::multiset *)
      intros multi ks. apply Hthird; [exact I|]. split.
      + intros i v vs toks r _ H Hn. rewrite elem_prog_set. rewrite set_as_arr in H.
        destruct (vec_elem (kshape_shape ks) _ (key_prog ks) _ _ any [] v vs toks r (key_elem ks) (fun l _ => any_all l) H Hn) as [c E].
        rewrite (one_areq _ _ _ _ E). eexists. rewrite app_nil_r. reflexivity.
      + intros i q kvs toks r _ H Hn. unfold member_tr in H. rewrite member_prog_set.
        assert (H' : (match lookup (key_of_q q) kvs with
                      | Some x => arr_tr (kshape_shape ks) (scalar_ld narrow widen o (kshape_shape ks) (kshape_target ks)) (fun _ r => fill (kshape_shape ks) r)
                                         (fun items => TArr (set_of multi items)) [] x
                      | None => ([KNone], LNot) end) = (toks, r)).
        { destruct (lookup (key_of_q q) kvs) as [x|]; exact H. }
        destruct (vec_member (kshape_shape ks) _ (key_prog ks) _ _ any [] q kvs toks r (key_elem ks) (fun l _ => any_all l) H' Hn) as [c E].
        cbn [mk_reqs]. rewrite spec_reqs_cons, E. cbn [MpScopeSpec.spec_reqs]. eexists. rewrite app_nil_r. reflexivity.
  Qed.
End Programs.

(* ---------- save then load, at the association-list level ---------- *)
Fixpoint all_shape (e : shape) (l : list tv) : bool :=
  match l with [] => true | x :: t => has_shape x e && all_shape e t end.
Fixpoint class_shape (l : list (tv * tv)) (ms : list (list N * shape)) : bool :=
  match l, ms with
  | [], [] => true
  | (k, x) :: t, (name, s') :: ms' =>
    match k with TStr kb => bytes_eqb kb name | _ => false end && has_shape x s' && class_shape t ms'
  | _, _ => false
  end.

Lemma has_shape_arr l e : has_shape (TArr l) (SVec e) = all_shape e l.
Proof. induction l as [|x t IH]; [reflexivity|]. cbn [all_shape]. rewrite <- IH. reflexivity. Qed.
Lemma has_shape_arrn l n e : has_shape (TArr l) (SArr n e) = Nat.eqb (length l) n && all_shape e l.
Proof. cbn [has_shape]. f_equal. induction l as [|x t IH]; [reflexivity|]. cbn [all_shape]. rewrite <- IH. reflexivity. Qed.
Fixpoint all_bool (l : list tv) : bool := match l with [] => true | TBool _ :: t => all_bool t | _ => false end.
Lemma has_shape_vb l : has_shape (TArr l) SVecBool = all_bool l.
Proof. induction l as [|x t IH]; [reflexivity|]. cbn [all_bool]. rewrite <- IH. reflexivity. Qed.
Fixpoint tuple_shape (l : list tv) (ss : list shape) : bool :=
  match l, ss with
  | [], [] => true
  | x :: t, s' :: ss' => has_shape x s' && tuple_shape t ss'
  | _, _ => false
  end.
Lemma has_shape_tuple l : forall ss, has_shape (TArr l) (STuple ss) = tuple_shape l ss.
Proof. induction l as [|x t IH]; intros [|s' ss']; try reflexivity. cbn [tuple_shape]. rewrite <- IH. reflexivity. Qed.
Lemma has_shape_obj l : forall ms, has_shape (TObj l) (SClass ms) = class_shape l ms.
Proof.
  induction l as [|[k x] t IH]; intros [|[name s'] ms']; try reflexivity. cbn [class_shape]. rewrite <- IH. reflexivity.
Qed.

Fixpoint map_shape (ks : kshape) (e : shape) (l : list (tv * tv)) : bool :=
  match l with [] => true | (k, x) :: t => key_has k ks && has_shape x e && map_shape ks e t end.
Lemma has_shape_map l m ks e : has_shape (TObj l) (SMap m ks e) = map_shape ks e l && pairs_sorted l.
Proof.
  cbn [has_shape]. f_equal. induction l as [|[k x] t IH]; [reflexivity|]. cbn [map_shape]. rewrite <- IH. reflexivity.
Qed.

(* ---------- std::less on the keys: a strict order ---------- *)
Lemma bytes_ltb_asym : forall a b, bytes_ltb a b = true -> bytes_ltb b a = false.
Proof.
  induction a as [|x a IH]; intros [|y b] H; try reflexivity; try discriminate H. cbn [bytes_ltb] in *.
  apply orb_true_iff in H. destruct H as [H | H].
  - apply N.ltb_lt in H. replace (y <? x) with false by (symmetry; apply N.ltb_ge; lia). replace (y =? x) with false by (symmetry; apply N.eqb_neq; lia). reflexivity.
  - apply andb_true_iff in H. destruct H as [H1 H2]. apply N.eqb_eq in H1. subst y. rewrite N.ltb_irrefl, N.eqb_refl. cbn [orb andb]. exact (IH b H2).
Qed.

Lemma bytes_ltb_trans : forall a b c, bytes_ltb a b = true -> bytes_ltb b c = true -> bytes_ltb a c = true.
Proof.
  induction a as [|x a IH]; intros [|y b] [|z c] H1 H2; try reflexivity; try discriminate H1; try discriminate H2. cbn [bytes_ltb] in *.
  apply orb_true_iff in H1. apply orb_true_iff in H2. apply orb_true_iff.
  destruct H1 as [H1 | H1]; destruct H2 as [H2 | H2].
  - left. apply N.ltb_lt in H1, H2. apply N.ltb_lt. lia.
  - apply andb_true_iff in H2. destruct H2 as [E _]. apply N.eqb_eq in E. subst z. left. exact H1.
  - apply andb_true_iff in H1. destruct H1 as [E _]. apply N.eqb_eq in E. subst y. left. exact H2.
  - apply andb_true_iff in H1. apply andb_true_iff in H2. destruct H1 as [E1 L1]. destruct H2 as [E2 L2].
    apply N.eqb_eq in E1, E2. subst y z. right. rewrite N.eqb_refl. exact (IH b c L1 L2).
Qed.

Lemma tkey_ltb_asym a b : tkey_ltb a b = true -> tkey_ltb b a = false.
Proof.
  destruct a, b; cbn [tkey_ltb]; intros H; try discriminate H; try reflexivity.
  - apply Z.ltb_lt in H. apply Z.ltb_ge. lia.
  - exact (bytes_ltb_asym _ _ H).
Qed.

Lemma tkey_ltb_trans a b c : tkey_ltb a b = true -> tkey_ltb b c = true -> tkey_ltb a c = true.
Proof.
  destruct a, b, c; cbn [tkey_ltb]; intros H1 H2; try discriminate H1; try discriminate H2.
  - apply Z.ltb_lt in H1, H2. apply Z.ltb_lt. lia.
  - exact (bytes_ltb_trans _ _ _ H1 H2).
Qed.

Definition all_below (k : tv) (l : list (tv * tv)) : Prop := forall kv, In kv l -> tkey_ltb (fst kv) k = true.

Lemma sorted_below l : forall k x r, pairs_sorted (l ++ (k, x) :: r) = true -> all_below k l.
Proof.
  induction l as [|[k0 x0] l IH]; intros k x r H kv Hin; [destruct Hin|].
  cbn [app pairs_sorted] in H. apply andb_true_iff in H. destruct H as [Hh Ht].
  pose proof (IH k x r Ht) as Hall.
  destruct Hin as [<- | Hin]; [|exact (Hall kv Hin)]. cbn [fst].
  destruct l as [|[k1 x1] l']; cbn [app] in Hh; [exact Hh|].
  exact (tkey_ltb_trans _ _ _ Hh (Hall (k1, x1) (or_introl eq_refl))).
Qed.

Lemma sorted_app_l l r : pairs_sorted (l ++ r) = true -> pairs_sorted l = true.
Proof.
  induction l as [|[k x] l IH]; intros H; [reflexivity|]. cbn [app pairs_sorted] in *. apply andb_true_iff in H. destruct H as [Hh Ht].
  rewrite (IH Ht), andb_true_r. destruct l as [|[k1 x1] l']; [reflexivity | exact Hh].
Qed.

(* a key above all keys of the map is not found, and is appended *)
Lemma find_above k : forall l, all_below k l -> map_find k l = None.
Proof.
  induction l as [|[k' x'] l IH]; intros H; [reflexivity|]. cbn [map_find]. unfold tkey_eqb.
  pose proof (H (k', x') (or_introl eq_refl)) as Hlt. cbn [fst] in Hlt. rewrite Hlt, andb_false_r.
  apply IH. intros kv Hin. apply H. right. exact Hin.
Qed.

Lemma insert_last k x : forall l, all_below k l -> map_insert k x l = l ++ [(k, x)].
Proof.
  induction l as [|[k' x'] l IH]; intros H; [reflexivity|]. cbn [map_insert app].
  pose proof (H (k', x') (or_introl eq_refl)) as Hlt. cbn [fst] in Hlt.
  rewrite (tkey_ltb_asym _ _ Hlt). rewrite IH by (intros kv Hin; apply H; right; exact Hin). reflexivity.
Qed.

Lemma put_last k x l : all_below k l -> map_put k x l = l ++ [(k, x)].
Proof. intros H. unfold map_put. rewrite (find_above k l H). exact (insert_last k x l H). Qed.

Lemma apply_sorted : forall es acc, pairs_sorted (acc ++ es) = true -> map_apply acc es = acc ++ es.
Proof.
  induction es as [|[k x] es IH]; intros acc H; [unfold map_apply; cbn [fold_left]; rewrite app_nil_r; reflexivity|].
  unfold map_apply in *. cbn [fold_left fst snd]. rewrite (put_last k x acc (sorted_below acc k x es H)).
  rewrite IH by (rewrite <- app_assoc; exact H). rewrite <- app_assoc. reflexivity.
Qed.

Lemma conv_abs o k ks : key_has k ks = true -> wf_tv k -> exists kk, keyden (abs k) = Some kk /\ conv_key o ks kk = CKey k.
Proof.
  destruct k, ks; intros Hk Hw; try discriminate Hk.
  - cbn [wf_tv] in Hw. assert (k = k0) by (destruct k, k0; try discriminate Hk; reflexivity). subst k0.
    exists (KInt z). split; [reflexivity|]. cbn [conv_key]. rewrite Hw. reflexivity.
  - exists (KStr s). split; reflexivity.
Qed.

Lemma clean_maps_class ms : clean_maps (SClass ms) = forallb (fun m => clean_maps (snd m)) ms.
Proof. induction ms as [|[name s'] ms IH]; [reflexivity|]. cbn [forallb snd]. rewrite <- IH. reflexivity. Qed.
Lemma clean_maps_tuple ss : clean_maps (STuple ss) = forallb clean_maps ss.
Proof. induction ss as [|s' ss IH]; [reflexivity|]. cbn [forallb]. rewrite <- IH. reflexivity. Qed.

(* ---------- std::multimap / std::set values ---------- *)
Fixpoint mm_shape (ks : kshape) (e : shape) (l : list tv) : bool :=
  match l with
  | [] => true
  | TObj [(TStr kn, k); (TStr vn, x)] :: t =>
    bytes_eqb kn key_name && bytes_eqb vn value_name && key_has k ks && has_shape x e && mm_shape ks e t
  | _ => false
  end.
Lemma has_shape_mm l ks e : has_shape (TArr l) (SMMap ks e) = mm_shape ks e l && mm_sorted l.
Proof.
  cbn [has_shape]. f_equal. induction l as [|p t IH]; [reflexivity|]. cbn [mm_shape]. rewrite <- IH. reflexivity.
Qed.
Lemma has_shape_set l multi ks : has_shape (TArr l) (SSet multi ks) = forallb (fun k => key_has k ks) l && (if multi then mset_sorted l else set_sorted l).
Proof. reflexivity. Qed.

Lemma key_has_shape k ks : key_has k ks = true -> has_shape k (kshape_shape ks) = true.
Proof. destruct k, ks; intros H; try discriminate H; try reflexivity. exact H. Qed.

Lemma mm_shape_all ks e : forall l, mm_shape ks e l = true -> all_shape (SClass (pair_ms ks e)) l = true /\ filter is_pair l = l.
Proof.
  induction l as [|p t IH]; intros H; [split; reflexivity|]. cbn [mm_shape] in H.
  destruct p as [ | b0 | k0 z0 | b0 | b0 | s0 | s0 | l0 | kvs]; try discriminate H. destruct kvs as [|[k1 k] kvs]; try discriminate H. destruct k1; try discriminate H.
  destruct kvs as [|[k2 x] kvs]; try discriminate H. destruct k2; try discriminate H. destruct kvs; try discriminate H.
  apply andb_true_iff in H. destruct H as [H Ht]. apply andb_true_iff in H. destruct H as [H Hx]. apply andb_true_iff in H. destruct H as [H Hk].
  apply andb_true_iff in H. destruct H as [Hn1 Hn2]. destruct (IH Ht) as [IH1 IH2].
  split.
  - cbn [all_shape]. rewrite IH1, andb_true_r. rewrite has_shape_obj. cbn [class_shape pair_ms].
    rewrite Hn1, Hn2, Hx, (key_has_shape k ks Hk). reflexivity.
  - cbn [filter is_pair]. rewrite IH2. reflexivity.
Qed.

Lemma mset_before : forall l1 k l2, mset_sorted (l1 ++ k :: l2) = true -> forall q, In q l1 -> tkey_ltb k q = false.
Proof.
  induction l1 as [|a l1 IH]; intros k l2 H q Hin; [destruct Hin|]. cbn [app mset_sorted] in H. apply andb_true_iff in H. destruct H as [Ha Ht].
  destruct Hin as [<- | Hin]; [|exact (IH k l2 Ht q Hin)].
  rewrite forallb_forall in Ha. assert (Hk : In k (l1 ++ k :: l2)) by (apply in_or_app; right; left; reflexivity). specialize (Ha k Hk). apply negb_true_iff in Ha. exact Ha.
Qed.

Lemma set_before : forall l1 k l2, set_sorted (l1 ++ k :: l2) = true -> forall q, In q l1 -> tkey_ltb q k = true.
Proof.
  induction l1 as [|a l1 IH]; intros k l2 H q Hin; [destruct Hin|]. cbn [app set_sorted] in H. apply andb_true_iff in H. destruct H as [Ha Ht].
  destruct Hin as [<- | Hin]; [|exact (IH k l2 Ht q Hin)].
  rewrite forallb_forall in Ha. apply Ha. apply in_or_app. right. left. reflexivity.
Qed.

Lemma mm_insert_last p : forall acc, (forall q, In q acc -> tkey_ltb (pair_key p) (pair_key q) = false) -> mm_insert p acc = acc ++ [p].
Proof.
  induction acc as [|q acc IH]; intros H; [reflexivity|]. cbn [mm_insert app]. rewrite (H q (or_introl eq_refl)).
  rewrite IH by (intros q' Hin; apply H; right; exact Hin). reflexivity.
Qed.

Lemma mm_of_sorted : forall items acc, mm_sorted (acc ++ items) = true -> fold_left (fun a p => mm_insert p a) items acc = acc ++ items.
Proof.
  induction items as [|p items IH]; intros acc H; [cbn [fold_left]; rewrite app_nil_r; reflexivity|]. cbn [fold_left].
  rewrite mm_insert_last.
  - rewrite IH by (rewrite <- app_assoc; exact H). rewrite <- app_assoc. reflexivity.
  - intros q Hin. unfold mm_sorted in H. rewrite map_app in H. cbn [map] in H.
    exact (mset_before _ _ _ H (pair_key q) (in_map pair_key _ _ Hin)).
Qed.

Lemma set_insert_last multi k : forall acc, (forall q, In q acc -> tkey_ltb k q = false /\ (multi || tkey_ltb q k) = true) -> set_insert multi k acc = acc ++ [k].
Proof.
  induction acc as [|q acc IH]; intros H; [reflexivity|]. cbn [set_insert app]. destruct (H q (or_introl eq_refl)) as [H1 H2]. rewrite H1, H2.
  rewrite IH by (intros q' Hin; apply H; right; exact Hin). reflexivity.
Qed.

Lemma set_of_sorted (multi : bool) : forall items acc, (if multi then mset_sorted (acc ++ items) else set_sorted (acc ++ items)) = true ->
  fold_left (fun a k => set_insert multi k a) items acc = acc ++ items.
Proof.
  induction items as [|k items IH]; intros acc H; [cbn [fold_left]; rewrite app_nil_r; reflexivity|]. cbn [fold_left].
  rewrite set_insert_last.
  - rewrite IH by (rewrite <- app_assoc; exact H). rewrite <- app_assoc. reflexivity.
  - intros q Hin. destruct multi.
    + split; [exact (mset_before _ _ _ H q Hin) | reflexivity].
    + pose proof (set_before _ _ _ H q Hin) as Hlt. split; [exact (tkey_ltb_asym _ _ Hlt) | exact Hlt].
Qed.

Definition absp (kv : tv * tv) : mpv * mpv := (abs (fst kv), abs (snd kv)).

Lemma abs_obj l : abs (TObj l) = MMap (map absp l).
Proof. reflexivity. Qed.

Section RoundTrip.
  Variable narrow : N -> option N.
  Variable widen : N -> N.
  Variable o : opts.
  Notation load_tr := (load_tr narrow widen o).

  (* the result of loading back what was saved: loaded; or (an empty wrapper, saved as nil) reset to empty *)
  Definition is_opt (s : shape) : Prop := match s with SOpt _ => True | _ => False end.
  Definition rt_out (s : shape) (v : tv) (r : lres) : Prop := r = LOk v \/ (r = LReset TNil /\ v = TNil /\ is_opt s).

  (* whatever the target holds (i), when every std::map of the shape is loaded with Clean *)
  Definition rt (v : tv) : Prop :=
    forall s i, has_shape v s = true -> clean_maps s = true -> wf_tv v -> doc_ok (abs v) = true ->
    exists toks r, load_tr s i (abs v) = (toks, r) /\ rt_out s v r.

  Lemma fill_out e x r : rt_out e x r -> fill e r = x.
  Proof. intros [-> | [-> [-> E]]]; [reflexivity | destruct e; try destruct E; reflexivity]. Qed.
  Lemma keep_out e i x r : rt_out e x r -> keep i r = x.
  Proof. intros [-> | [-> [-> _]]]; reflexivity. Qed.
  Lemma out_no_err e x r : rt_out e x r -> match r with LErr _ => False | _ => True end.
  Proof. intros [-> | [-> _]]; exact I. Qed.

  Lemma in_range_kind k z : ikind_range k z = true -> in_range (ity_of_kind k) z = true.
  Proof. destruct k; intros H; exact H. Qed.

  (* nil into any target: loaded (nullptr_t), not loaded, or a wrapper reset *)
  Lemma nil_load : forall e i, exists t r, load_tr e i MNil = (t, r) /\ (r = LOk TNil \/ r = LNot \/ r = LReset TNil).
  Proof.
    apply (shape_ind' (fun e => forall i, exists t r, load_tr e i MNil = (t, r) /\ (r = LOk TNil \/ r = LNot \/ r = LReset TNil))).
    - intros s Hs i. destruct s; try destruct Hs; eexists _, _; (split; [reflexivity|]); auto.
    - intros i. eexists _, _. split; [reflexivity|]. auto.
    - intros e _ i. eexists _, _. split; [reflexivity|]. auto.
    - intros ms _ i. eexists _, _. split; [reflexivity|]. auto.
    - intros m ks e _ i. eexists _, _. split; [reflexivity|]. auto.
    - intros n e _ i. eexists _, _. split; [reflexivity|]. auto.
    - intros i. eexists _, _. split; [reflexivity|]. auto.
    - intros ss _ i. eexists _, _. split; [reflexivity|]. auto.
    - intros e IH i. cbn [MpLoadModel.load_tr]. destruct (IH (opt_init e i)) as [t [r [E Hr]]]. rewrite E.
      eexists _, _. split; [reflexivity|]. destruct Hr as [-> | [-> | ->]]; cbn [opt_res]; auto.
    - intros ks e _ i. eexists _, _. split; [reflexivity|]. auto.
    - intros multi ks i. eexists _, _. split; [reflexivity|]. auto.
  Qed.

  (* from the shapes that are not wrappers to all shapes *)
  Lemma rt_lift v :
    (forall s i, not_opt s -> has_shape v s = true -> clean_maps s = true -> wf_tv v -> doc_ok (abs v) = true ->
       exists toks, load_tr s i (abs v) = (toks, LOk v)) -> rt v.
  Proof.
    intros H s i Hs Hc Hw Hd.
    assert (Hno : not_opt s -> exists toks r, load_tr s i (abs v) = (toks, r) /\ rt_out s v r).
    { intros Hn. destruct (H s i Hn Hs Hc Hw Hd) as [t E]. exists t, (LOk v). split; [exact E | left; reflexivity]. }
    destruct s; try (apply Hno; exact I). clear Hno.
    cbn [MpLoadModel.load_tr]. cbn [clean_maps] in Hc.
    assert (Hnil : v = TNil -> exists toks r, (let (t, r0) := load_tr s (opt_init s i) (abs v) in (t, opt_res r0)) = (toks, r) /\ rt_out (SOpt s) v r).
    { intros ->. cbn [abs]. destruct (nil_load s (opt_init s i)) as [t [r [E Hr]]]. rewrite E. eexists _, _. split; [reflexivity|].
      destruct Hr as [-> | [-> | ->]]; cbn [opt_res]; [left; reflexivity | right; repeat split | right; repeat split]. }
    assert (Hval : v <> TNil -> exists toks r, (let (t, r0) := load_tr s (opt_init s i) (abs v) in (t, opt_res r0)) = (toks, r) /\ rt_out (SOpt s) v r).
    { intros Hv. assert (Hs' : not_opt s /\ has_shape v s = true).
      { cbn [has_shape] in Hs. destruct v; try (exfalso; apply Hv; reflexivity); destruct s; try discriminate Hs; split; try exact I; exact Hs. }
      destruct Hs' as [Hn Hs']. destruct (H s (opt_init s i) Hn Hs' Hc Hw Hd) as [t E]. rewrite E.
      eexists _, _. split; [reflexivity | left; reflexivity]. }
    destruct v; try (apply Hval; discriminate). apply Hnil. reflexivity.
  Qed.

  Lemma rt_elems e after : (forall i x r, rt_out e x r -> after i r = x) -> clean_maps e = true ->
    forall l inits, Forall rt l -> all_shape e l = true -> wf_list l -> Forall (fun v => doc_ok v = true) (map abs l) ->
    exists t, elems_tr e (load_tr e) after inits (map abs l) = (t, l, None).
  Proof.
    intros Ha Hc. induction l as [|x l IH]; intros inits HF Hs Hw Hd; cbn [map elems_tr].
    - eexists. reflexivity.
    - inversion HF as [|? ? Hx Hl]; subst. cbn [all_shape] in Hs. apply andb_true_iff in Hs. destruct Hs as [Hsx Hsl].
      destruct Hw as [Hwx Hwl]. cbn [map] in Hd. inversion Hd as [|? ? Hdx Hdl]; subst.
      destruct (Hx e (hd (default_of e) inits) Hsx Hc Hwx Hdx) as [tx [rx [Ex Ho]]]. rewrite Ex. destruct (IH (tl inits) Hl Hsl Hwl Hdl) as [t Et]. rewrite Et.
      rewrite (Ha _ x rx Ho). pose proof (out_no_err _ _ _ Ho) as Hne. destruct rx; try destruct Hne; eexists; reflexivity.
  Qed.

  Lemma lookup_member pre k x post : keys_distinct (keys_of (map absp (pre ++ (TStr k, x) :: post))) = true ->
    lookup (KStr k) (map absp (pre ++ (TStr k, x) :: post)) = Some (abs x).
  Proof.
    intros Hd. rewrite map_app in *. cbn [map] in *. unfold absp at 2 in Hd. unfold absp at 2. cbn [fst snd abs] in *.
    assert (Hm : kmatch (QStr k) (MStr k, abs x) = true).
    { unfold kmatch. cbn [fst keyden key_of_q key_eq]. apply bytes_eqb_eq. reflexivity. }
    destruct (match_unique (QStr k) _ _ _ _ Hd Hm) as [Hno _].
    change (KStr k) with (key_of_q (QStr k)). rewrite (lookup_skip _ _ _ Hno). apply lookup_hit. exact Hm.
  Qed.

  Lemma rt_members : forall post ms pre inits,
    Forall (fun kv => rt (fst kv) /\ rt (snd kv)) post -> class_shape post ms = true -> forallb (fun m => clean_maps (snd m)) ms = true ->
    wf_pairs post ->
    keys_distinct (keys_of (map absp (pre ++ post))) = true ->
    Forall (fun kv => doc_ok (snd kv) = true) (map absp post) ->
    exists t, members_tr load_tr (map absp (pre ++ post)) inits ms = (t, post, None).
  Proof.
    induction post as [|[k x] post IH]; intros ms pre inits HF Hs Hc Hw Hd Hdv.
    - destruct ms; [|discriminate Hs]. eexists. reflexivity.
    - destruct ms as [|[name s'] ms']; [discriminate Hs|]. cbn [class_shape] in Hs.
      apply andb_true_iff in Hs. destruct Hs as [Hs Hsl]. apply andb_true_iff in Hs. destruct Hs as [Hk Hsx].
      cbn [forallb snd] in Hc. apply andb_true_iff in Hc. destruct Hc as [Hcx Hcl].
      destruct k; try discriminate Hk. apply bytes_eqb_eq in Hk. subst name.
      inversion HF as [|? ? [_ Hx] Hl]; subst. cbn [fst snd] in Hx. destruct Hw as [_ [Hwx Hwl]].
      cbn [map] in Hdv. inversion Hdv as [|? ? Hdx Hdl]; subst. unfold absp at 1 in Hdx. cbn [snd] in Hdx.
      cbn [members_tr]. rewrite (lookup_member pre s x post Hd).
      destruct (Hx s' (match inits with (_, x0) :: _ => x0 | [] => default_of s' end) Hsx Hcx Hwx Hdx) as [tx [rx [Ex Ho]]]. rewrite Ex.
      replace (pre ++ (TStr s, x) :: post) with ((pre ++ [(TStr s, x)]) ++ post) in * by (rewrite <- app_assoc; reflexivity).
      destruct (IH ms' (pre ++ [(TStr s, x)]) (tl inits) Hl Hsl Hcl Hwl Hd Hdl) as [t Et]. rewrite Et.
      rewrite (keep_out s' _ x rx Ho). pose proof (out_no_err _ _ _ Ho) as Hne. destruct rx; try destruct Hne; eexists; reflexivity.
  Qed.

  (* Clean: the map starts empty, every entry is new *)
  Lemma rt_entries ks e : clean_maps e = true ->
    forall l, Forall (fun kv => rt (fst kv) /\ rt (snd kv)) l -> map_shape ks e l = true -> wf_pairs l ->
    Forall (fun kv => doc_ok (snd kv) = true) (map absp l) ->
    exists t, entries_tr o false ks e (load_tr e) [] (map absp l) = (t, l, None).
  Proof.
    intros Hc. induction l as [|[k x] l IH]; intros HF Hs Hw Hd; cbn [map entries_tr].
    - eexists. reflexivity.
    - inversion HF as [|? ? [_ Hx] Hl]; subst. cbn [fst snd] in Hx.
      cbn [map_shape] in Hs. apply andb_true_iff in Hs. destruct Hs as [Hs Hsl]. apply andb_true_iff in Hs. destruct Hs as [Hk Hsx].
      destruct Hw as [Hwk [Hwx Hwl]]. cbn [map] in Hd. inversion Hd as [|? ? Hdx Hdl]; subst. unfold absp at 1 in Hdx. cbn [snd] in Hdx.
      unfold absp at 1. cbn [fst snd]. destruct (conv_abs o k ks Hk Hwk) as [kk [Ek Ec]]. rewrite Ek, Ec. cbn [map_find].
      destruct (Hx e (default_of e) Hsx Hc Hwx Hdx) as [tx [rx [Ex Ho]]]. rewrite Ex. destruct (IH Hl Hsl Hwl Hdl) as [t Et]. rewrite Et.
      rewrite (keep_out e _ x rx Ho). pose proof (out_no_err _ _ _ Ho) as Hne. destruct rx; try destruct Hne; eexists; reflexivity.
  Qed.

  Lemma rt_comps : forall l ss inits, Forall rt l -> tuple_shape l ss = true -> forallb clean_maps ss = true -> wf_list l ->
    Forall (fun v => doc_ok v = true) (map abs l) ->
    exists t, comps_tr o load_tr ss inits (map abs l) = (t, l, None).
  Proof.
    induction l as [|x l IH]; intros [|s' ss'] inits HF Hs Hc Hw Hd; try discriminate Hs; cbn [map comps_tr].
    - eexists. reflexivity.
    - inversion HF as [|? ? Hx Hl]; subst. cbn [tuple_shape] in Hs. apply andb_true_iff in Hs. destruct Hs as [Hsx Hsl].
      cbn [forallb] in Hc. apply andb_true_iff in Hc. destruct Hc as [Hcx Hcl].
      destruct Hw as [Hwx Hwl]. cbn [map] in Hd. inversion Hd as [|? ? Hdx Hdl]; subst.
      destruct (Hx s' (hd (default_of s') inits) Hsx Hcx Hwx Hdx) as [tx [rx [Ex Ho]]]. rewrite Ex. destruct (IH ss' (tl inits) Hl Hsl Hcl Hwl Hdl) as [t Et]. rewrite Et.
      rewrite (keep_out s' _ x rx Ho). pose proof (out_no_err _ _ _ Ho) as Hne. destruct rx; try destruct Hne; eexists; reflexivity.
  Qed.

  Lemma rt_bools : forall l prev, all_bool l = true ->
    exists t, bools_tr (scalar_tr narrow widen o SBool (TgInt (mkIty false 1))) prev (map abs l) = (t, l, None).
  Proof.
    induction l as [|x l IH]; intros prev H; cbn [map bools_tr].
    - eexists. reflexivity.
    - destruct x; try discriminate H. cbn [all_bool] in H.
      destruct (IH b H) as [t Et].
      assert (Es : scalar_tr narrow widen o SBool (TgInt (mkIty false 1)) (abs (TBool b)) = ([KVal (VInt (if b then 1 else 0)%Z)], LOk (TBool b)))
        by (destruct b; reflexivity).
      rewrite Es, Et. eexists. reflexivity.
  Qed.

  Theorem load_save_spec : forall v, rt v.
  Proof.
    apply tv_ind2; intros; apply rt_lift.
    - intros [] i Hno Hs _ _ _; try discriminate Hs; try destruct Hno. eexists. reflexivity.
    - intros [] i Hno Hs _ _ _; try discriminate Hs; try destruct Hno. destruct b; eexists; reflexivity.
    - intros [] i Hno Hs _ Hw _; try discriminate Hs; try destruct Hno. cbn [wf_tv] in Hw.
      assert (k = k0) by (destruct k, k0; try discriminate Hs; reflexivity). subst k0.
      cbn [MpLoadModel.load_tr target_of abs]. unfold scalar_tr. cbn [typed_spec]. rewrite (in_range_kind k z Hw). eexists. reflexivity.
    - intros [] i Hno Hs _ _ _; try discriminate Hs; try destruct Hno. eexists. reflexivity.
    - intros [] i Hno Hs _ _ _; try discriminate Hs; try destruct Hno. eexists. reflexivity.
    - intros [] i Hno Hs _ _ _; try discriminate Hs; try destruct Hno. eexists. reflexivity.
    - intros [] i Hno Hs _ _ _; try discriminate Hs; try destruct Hno. eexists. reflexivity.
    - rename H into HF. intros [] i Hno Hs Hc Hw Hd; try discriminate Hs; try destruct Hno.
      + rewrite has_shape_arr in Hs. rewrite wf_arr in Hw. cbn [clean_maps] in Hc.
        apply doc_ok_arr in Hd. cbn [abs MpLoadModel.load_tr]. unfold vec_tr.
        destruct (rt_elems e (fun _ r => fill e r) (fun _ x r => fill_out e x r) Hc l (arr_items i) HF Hs Hw Hd) as [t Et]. rewrite Et. eexists. reflexivity.
      + rewrite has_shape_arrn in Hs. apply andb_true_iff in Hs. destruct Hs as [Hlen Hs]. apply Nat.eqb_eq in Hlen. rewrite wf_arr in Hw.
        cbn [clean_maps] in Hc. apply doc_ok_arr in Hd. cbn [abs MpLoadModel.load_tr].
        replace (firstn n (map abs l)) with (map abs l) by (rewrite <- Hlen, <- (map_length abs l), firstn_all; reflexivity).
        destruct (rt_elems e keep (fun i0 x r => keep_out e i0 x r) Hc l (arr_items i) HF Hs Hw Hd) as [t Et]. rewrite Et, map_length, Hlen, Nat.eqb_refl. eexists. reflexivity.
      + rewrite has_shape_vb in Hs. cbn [abs MpLoadModel.load_tr].
        destruct (rt_bools l false Hs) as [t Et]. rewrite Et. eexists. reflexivity.
      + rewrite has_shape_tuple in Hs. rewrite wf_arr in Hw. rewrite clean_maps_tuple in Hc. apply doc_ok_arr in Hd. cbn [abs MpLoadModel.load_tr].
        destruct (rt_comps l ss (arr_items i) HF Hs Hc Hw Hd) as [t Et]. rewrite Et. eexists. reflexivity.
      + (* std::multimap *)
        rewrite has_shape_mm in Hs. apply andb_true_iff in Hs. destruct Hs as [Hs Hsorted]. destruct (mm_shape_all ks e l Hs) as [Hall Hfil].
        rewrite wf_arr in Hw. cbn [clean_maps] in Hc. apply doc_ok_arr in Hd.
        assert (Hc' : clean_maps (pair_sh ks e) = true) by (unfold pair_sh; rewrite clean_maps_class; cbn [pair_ms forallb snd]; rewrite Hc; destruct ks; reflexivity).
        assert (Ha : forall i0 x r, rt_out (pair_sh ks e) x r -> mm_after i0 r = x) by (intros i0 x r [-> | [_ [_ F]]]; [reflexivity | destruct F]).
        rewrite (mm_as_arr narrow widen o ks e i). cbn [abs]. unfold arr_tr.
        destruct (rt_elems (pair_sh ks e) mm_after Ha Hc' l [] HF Hall Hw Hd) as [t Et]. rewrite Et.
        unfold mm_mk. rewrite Hfil. unfold mm_of. rewrite (mm_of_sorted l [] Hsorted). eexists. reflexivity.
      + (* std::set / std::multiset *)
        rewrite has_shape_set in Hs. apply andb_true_iff in Hs. destruct Hs as [Hs Hsorted]. rewrite wf_arr in Hw. apply doc_ok_arr in Hd.
        assert (Hall : all_shape (kshape_shape ks) l = true).
        { clear -Hs. induction l as [|k l IH]; [reflexivity|]. cbn [forallb] in Hs. apply andb_true_iff in Hs. destruct Hs as [Hk Hl].
          cbn [all_shape]. rewrite (key_has_shape k ks Hk), (IH Hl). reflexivity. }
        assert (Hc' : clean_maps (kshape_shape ks) = true) by (destruct ks; reflexivity).
        rewrite (set_as_arr narrow widen o multi ks i). cbn [abs]. unfold arr_tr.
        rewrite (elems_ext (kshape_shape ks) (scalar_ld narrow widen o (kshape_shape ks) (kshape_target ks)) (load_tr (kshape_shape ks)) _)
          by (intros i0 x; destruct ks; reflexivity).
        destruct (rt_elems (kshape_shape ks) (fun _ r => fill (kshape_shape ks) r) (fun _ x r => fill_out (kshape_shape ks) x r) Hc' l [] HF Hall Hw Hd) as [t Et]. rewrite Et.
        unfold set_of. rewrite (set_of_sorted multi l [] Hsorted). eexists. reflexivity.
    - rename H into HF. intros [] i Hno Hs Hc Hw Hd; try discriminate Hs; try destruct Hno.
      + rewrite has_shape_obj in Hs. rewrite wf_obj in Hw. rewrite clean_maps_class in Hc.
        rewrite abs_obj in *. destruct (doc_ok_map _ Hd) as [_ [Hdist Hvals]].
        cbn [MpLoadModel.load_tr].
        assert (Hdv : Forall (fun kv => doc_ok (snd kv) = true) (map absp kvs)).
        { apply Forall_forall. intros kv Hin. apply Hvals. apply in_map. exact Hin. }
        destruct (rt_members kvs ms [] (obj_fields i) HF Hs Hc Hw Hdist Hdv) as [t Et]. cbn [app] in Et. rewrite Et. eexists. reflexivity.
      + rewrite has_shape_map in Hs. apply andb_true_iff in Hs. destruct Hs as [Hs Hsorted]. rewrite wf_obj in Hw.
        cbn [clean_maps] in Hc. apply andb_true_iff in Hc. destruct Hc as [Hm Hc]. destruct m; try discriminate Hm.
        rewrite abs_obj in *. destruct (doc_ok_map _ Hd) as [_ [_ Hvals]].
        cbn [MpLoadModel.load_tr].
        assert (Hdv : Forall (fun kv => doc_ok (snd kv) = true) (map absp kvs)).
        { apply Forall_forall. intros kv Hin. apply Hvals. apply in_map. exact Hin. }
        destruct (rt_entries ks e Hc kvs HF Hs Hw Hdv) as [t Et]. rewrite Et, (apply_sorted kvs [] Hsorted). eexists. reflexivity.
  Qed.
End RoundTrip.

(* ---------- transport to the scope model on the bytes (T_C03_mp_refines) ---------- *)
Section Transport.
  Variable narrow : N -> option N.
  Variable widen : N -> N.
  Variable o : opts.
  Notation load_tr := (load_tr narrow widen o).
  Notation class_prog := (class_prog o).
  Notation map_prog := (map_prog o).
  Notation vec_prog := (vec_prog o).
  Notation elem_prog := (elem_prog o).

  (* a class at the root: LoadObject opens the root object scope and runs value.Serialize(scope).
     The document: any the reference decoder accepts with supported, pairwise different keys; the target: any content *)
  Theorem load_class_on_model data kvs rest ms i toks r :
    bytes data -> decode data = Some (MMap kvs, rest) -> doc_ok (MMap kvs) = true ->
    load_tr (SClass ms) i (MMap kvs) = (toks, r) -> no_err r ->
    run_obj_root narrow widen o data (class_prog ms i kvs) = Done toks rest false /\
    load_obj narrow widen o data (class_prog ms i kvs) = MpScopeModel.LOk toks rest.
  Proof.
    intros Hb Hd Hok H Hn. cbn [MpLoadModel.load_tr] in H.
    destruct (members_tr load_tr kvs (obj_fields i) ms) as [[t fields] err] eqn:Et. destruct err as [err|].
    { injection H as _ <-. destruct Hn. }
    injection H as <- _.
    assert (Hm : Forall (fun m => member_ok narrow widen o (snd m)) ms)
      by (apply Forall_forall; intros m _; apply progs_ok).
    destruct (members_loop narrow widen o kvs ms Hm (dok_class ms kvs (or_intror Hok)) (obj_fields i) t fields Et) as [c E].
    pose proof (obj_root_refines narrow widen o data kvs rest (class_prog ms i kvs) t c Hb Hd Hok E) as R.
    split; [exact R|]. unfold load_obj. rewrite R. reflexivity.
  Qed.

  (* a std::map at the root, in any load mode, into a map with any content *)
  Theorem load_map_on_model data kvs rest m ks e i toks r :
    bytes data -> decode data = Some (MMap kvs, rest) -> doc_ok (MMap kvs) = true ->
    load_tr (SMap m ks e) i (MMap kvs) = (toks, r) -> no_err r ->
    run_obj_root narrow widen o data (map_prog m ks e i kvs) = Done toks rest false /\
    load_obj narrow widen o data (map_prog m ks e i kvs) = MpScopeModel.LOk toks rest.
  Proof.
    intros Hb Hd Hok H Hn. cbn [MpLoadModel.load_tr] in H. fold (map_m0 m i) in H. fold (map_only m) in H.
    destruct (entries_tr o (map_only m) ks e (load_tr e) (map_m0 m i) kvs) as [[t es] err] eqn:Et. destruct err as [err|].
    { injection H as _ <-. destruct Hn. }
    injection H as <- _.
    destruct (entries_loop narrow widen o (map_only m) ks e (map_m0 m i) kvs (proj2 (proj2 (progs_ok narrow widen o e))) Hok kvs [] eq_refl t es Et) as [c E].
    assert (E' : spec_reqs narrow widen o kvs (map_prog m ks e i kvs) = (t, None, c && true)).
    { unfold MpLoadModel.map_prog. cbn [mk_reqs]. rewrite spec_reqs_cons, spec_req_each, E. cbn [MpScopeSpec.spec_reqs]. rewrite app_nil_r. reflexivity. }
    pose proof (obj_root_refines narrow widen o data kvs rest (map_prog m ks e i kvs) t _ Hb Hd Hok E') as R.
    split; [exact R|]. unfold load_obj. rewrite R. reflexivity.
  Qed.

  (* an array scope at the root whose loop runs to the end *)
  Lemma arr_on_model data vs rest e after mk i toks r :
    bytes data -> decode data = Some (MArr vs, rest) -> doc_ok (MArr vs) = true ->
    arr_tr o e (load_tr e) after mk (arr_items i) (MArr vs) = (toks, r) -> no_err r ->
    run_arr_root narrow widen o data (vec_prog e i vs) = Done toks rest false /\
    load_arr narrow widen o data (vec_prog e i vs) = MpScopeModel.LOk toks rest.
  Proof.
    intros Hb Hd Hok H Hn. unfold arr_tr in H.
    destruct (elems_tr e (load_tr e) after (arr_items i) vs) as [[t items] err] eqn:Et. destruct err as [err|].
    { injection H as _ <-. destruct Hn. }
    injection H as <- _.
    destruct (vec_loop narrow widen o e (load_tr e) (elem_prog e) after (dok e) (proj1 (progs_ok narrow widen o e)) vs (arr_items i) t items
                (dok_vec e vs (or_intror Hok)) Et) as [c E].
    pose proof (arr_root_refines narrow widen o data vs rest (vec_prog e i vs) t c [] Hb Hd Hok E) as R.
    split; [exact R|]. unfold load_arr. rewrite R. reflexivity.
  Qed.

  (* a sequence container at the root *)
  Theorem load_vec_on_model data vs rest e i toks r :
    bytes data -> decode data = Some (MArr vs, rest) -> doc_ok (MArr vs) = true ->
    load_tr (SVec e) i (MArr vs) = (toks, r) -> no_err r ->
    run_arr_root narrow widen o data (vec_prog e i vs) = Done toks rest false /\
    load_arr narrow widen o data (vec_prog e i vs) = MpScopeModel.LOk toks rest.
  Proof. intros Hb Hd Hok H Hn. exact (arr_on_model data vs rest e _ TArr i toks r Hb Hd Hok H Hn). Qed.

  (* a fixed-size array at the root: an error-free load (the counts agree) issues the program of a sequence container *)
  Theorem load_fixed_on_model data vs rest n e i toks r :
    bytes data -> decode data = Some (MArr vs, rest) -> doc_ok (MArr vs) = true ->
    load_tr (SArr n e) i (MArr vs) = (toks, r) -> no_err r ->
    run_arr_root narrow widen o data (vec_prog e i vs) = Done toks rest false /\
    load_arr narrow widen o data (vec_prog e i vs) = MpScopeModel.LOk toks rest.
  Proof.
    intros Hb Hd Hok H Hn.
    exact (arr_on_model data vs rest e keep TArr i toks r Hb Hd Hok (arr_as_vec narrow widen o n e i (MArr vs) toks r H Hn) Hn).
  Qed.

  (* a std::tuple at the root: a document array shorter than the tuple (Skip policy) leaves the remaining components as
     they are; elements left over are passed by the scope's destructor *)
  Theorem load_tuple_on_model data vs rest ss i toks r :
    bytes data -> decode data = Some (MArr vs, rest) -> doc_ok (MArr vs) = true ->
    load_tr (STuple ss) i (MArr vs) = (toks, r) -> no_err r ->
    run_arr_root narrow widen o data (tuple_prog o ss i vs) = Done toks rest false /\
    load_arr narrow widen o data (tuple_prog o ss i vs) = MpScopeModel.LOk toks rest.
  Proof.
    intros Hb Hd Hok H Hn. cbn [MpLoadModel.load_tr] in H.
    destruct (comps_tr o load_tr ss (arr_items i) vs) as [[t items] err] eqn:Et. destruct err as [err|].
    { injection H as _ <-. destruct Hn. }
    injection H as <- _.
    assert (He : Forall (elem_ok narrow widen o) ss) by (apply Forall_forall; intros s0 _; apply progs_ok).
    destruct (comps_loop narrow widen o ss He (arr_items i) vs t items (dok_tuple ss vs (or_intror Hok)) Et) as [c [vs' E]].
    pose proof (arr_root_refines narrow widen o data vs rest (tuple_prog o ss i vs) t c vs' Hb Hd Hok E) as R.
    split; [exact R|]. unfold load_arr. rewrite R. reflexivity.
  Qed.

  (* std::vector<bool> at the root *)
  Theorem load_vb_on_model data vs rest i toks r :
    bytes data -> decode data = Some (MArr vs, rest) -> doc_ok (MArr vs) = true ->
    load_tr SVecBool i (MArr vs) = (toks, r) -> no_err r ->
    run_arr_root narrow widen o data (mk_areqs (vec_body bool_prog (TBool false) [] vs)) = Done toks rest false /\
    load_arr narrow widen o data (mk_areqs (vec_body bool_prog (TBool false) [] vs)) = MpScopeModel.LOk toks rest.
  Proof.
    intros Hb Hd Hok H Hn. destruct (vb_as_vec narrow widen o i (MArr vs) toks r H Hn) as [r' [H' Hn']]. unfold arr_tr in H'.
    destruct (elems_tr SBool _ _ [] vs) as [[t items] err] eqn:Et. destruct err as [err|].
    { injection H' as _ <-. destruct Hn'. }
    injection H' as <- _.
    destruct (vec_loop narrow widen o SBool _ bool_prog _ any (bool_elem narrow widen o) vs [] t items (any_all vs) Et) as [c E].
    cbn [default_of] in E.
    pose proof (arr_root_refines narrow widen o data vs rest (mk_areqs (vec_body bool_prog (TBool false) [] vs)) t c [] Hb Hd Hok E) as R.
    split; [exact R|]. unfold load_arr. rewrite R. reflexivity.
  Qed.

  (* ---------- C01, MsgPack: save then load, into a target with ANY content ---------- *)
  (* the result: loaded with the value; or, for an EMPTY wrapper at the root (saved as nil), reset to empty *)
  Theorem load_save_out v s i b : has_shape v s = true -> clean_maps s = true -> wf_tv v -> doc_ok (abs v) = true -> save v = Some b ->
    rt_out s v (load_bytes_into narrow widen o s i b).
  Proof.
    intros Hs Hc Hw Hd Hsv. unfold load_bytes_into, load_spec. rewrite (save_decodes v b Hw Hsv).
    destruct (load_save_spec narrow widen o v s i Hs Hc Hw Hd) as [t [r [E Ho]]]. rewrite E. exact Ho.
  Qed.

  (* in every case the target holds the saved value afterwards *)
  Theorem load_save_holds v s i b : has_shape v s = true -> clean_maps s = true -> wf_tv v -> doc_ok (abs v) = true -> save v = Some b ->
    keep i (load_bytes_into narrow widen o s i b) = v /\ no_err (load_bytes_into narrow widen o s i b).
  Proof.
    intros Hs Hc Hw Hd Hsv. pose proof (load_save_out v s i b Hs Hc Hw Hd Hsv) as Ho.
    split; [exact (keep_out s i v _ Ho) | exact (out_no_err s v _ Ho)].
  Qed.

  Lemma out_not_opt s v r : not_opt s -> has_shape v s = true -> rt_out s v r -> r = LOk v.
  Proof.
    intros Hn Hs [-> | [-> [-> E]]]; [reflexivity|]. exfalso. destruct s; try destruct E. destruct Hn.
  Qed.

  Theorem load_save_into v s i b : not_opt s -> has_shape v s = true -> clean_maps s = true -> wf_tv v -> doc_ok (abs v) = true -> save v = Some b ->
    load_bytes_into narrow widen o s i b = LOk v.
  Proof. intros Hn Hs Hc Hw Hd Hsv. exact (out_not_opt s v _ Hn Hs (load_save_out v s i b Hs Hc Hw Hd Hsv)). Qed.

  Theorem load_save v s b : not_opt s -> has_shape v s = true -> clean_maps s = true -> wf_tv v -> doc_ok (abs v) = true -> save v = Some b ->
    load_bytes narrow widen o s b = LOk v.
  Proof. intros Hn Hs Hc Hw Hd Hsv. exact (load_save_into v s (default_of s) b Hn Hs Hc Hw Hd Hsv). Qed.

  Theorem load_save_class_on_model kvs ms i b :
    has_shape (TObj kvs) (SClass ms) = true -> clean_maps (SClass ms) = true -> wf_tv (TObj kvs) -> doc_ok (abs (TObj kvs)) = true ->
    wf_bytes (TObj kvs) = true -> save (TObj kvs) = Some b ->
    exists toks, load_tr (SClass ms) i (abs (TObj kvs)) = (toks, LOk (TObj kvs)) /\
      run_obj_root narrow widen o b (class_prog ms i (map absp kvs)) = Done toks [] false /\
      load_obj narrow widen o b (class_prog ms i (map absp kvs)) = MpScopeModel.LOk toks [].
  Proof.
    intros Hs Hc Hw Hd Hwb Hsv. pose proof (save_bytes _ b Hw Hwb Hsv) as Hb. destruct (load_save_spec narrow widen o _ _ i Hs Hc Hw Hd) as [toks [r [E Ho]]].
    rewrite (out_not_opt (SClass ms) _ _ I Hs Ho) in E.
    exists toks. split; [exact E|]. rewrite abs_obj in *.
    exact (load_class_on_model b (map absp kvs) [] ms i toks _ Hb (save_decodes _ b Hw Hsv) Hd E I).
  Qed.

  Theorem load_save_map_on_model kvs ks e i b :
    has_shape (TObj kvs) (SMap MClean ks e) = true -> clean_maps e = true -> wf_tv (TObj kvs) -> doc_ok (abs (TObj kvs)) = true ->
    wf_bytes (TObj kvs) = true -> save (TObj kvs) = Some b ->
    exists toks, load_tr (SMap MClean ks e) i (abs (TObj kvs)) = (toks, LOk (TObj kvs)) /\
      run_obj_root narrow widen o b (map_prog MClean ks e i (map absp kvs)) = Done toks [] false /\
      load_obj narrow widen o b (map_prog MClean ks e i (map absp kvs)) = MpScopeModel.LOk toks [].
  Proof.
    intros Hs Hc Hw Hd Hwb Hsv. pose proof (save_bytes _ b Hw Hwb Hsv) as Hb. destruct (load_save_spec narrow widen o _ _ i Hs Hc Hw Hd) as [toks [r [E Ho]]].
    rewrite (out_not_opt (SMap MClean ks e) _ _ I Hs Ho) in E.
    exists toks. split; [exact E|]. rewrite abs_obj in *.
    exact (load_map_on_model b (map absp kvs) [] MClean ks e i toks _ Hb (save_decodes _ b Hw Hsv) Hd E I).
  Qed.

  Theorem load_save_vec_on_model l e i b :
    has_shape (TArr l) (SVec e) = true -> clean_maps e = true -> wf_tv (TArr l) -> doc_ok (abs (TArr l)) = true ->
    wf_bytes (TArr l) = true -> save (TArr l) = Some b ->
    exists toks, load_tr (SVec e) i (abs (TArr l)) = (toks, LOk (TArr l)) /\
      run_arr_root narrow widen o b (vec_prog e i (map abs l)) = Done toks [] false /\
      load_arr narrow widen o b (vec_prog e i (map abs l)) = MpScopeModel.LOk toks [].
  Proof.
    intros Hs Hc Hw Hd Hwb Hsv. pose proof (save_bytes _ b Hw Hwb Hsv) as Hb. destruct (load_save_spec narrow widen o _ _ i Hs Hc Hw Hd) as [toks [r [E Ho]]].
    rewrite (out_not_opt (SVec e) _ _ I Hs Ho) in E.
    exists toks. split; [exact E|].
    exact (load_vec_on_model b (map abs l) [] e i toks _ Hb (save_decodes _ b Hw Hsv) Hd E I).
  Qed.

  (* ---------- the result depends on the document only through the lookups of the member names ---------- *)
  Lemma members_ext load kvs kvs' : forall ms inits,
    (forall name s', In (name, s') ms -> lookup (KStr name) kvs = lookup (KStr name) kvs') ->
    members_tr load kvs inits ms = members_tr load kvs' inits ms.
  Proof.
    induction ms as [|[name s'] ms IH]; intros inits H; [reflexivity|]. cbn [members_tr].
    rewrite (H name s' (or_introl eq_refl)). rewrite (IH (tl inits)) by (intros n s0 Hin; apply (H n s0); right; exact Hin). reflexivity.
  Qed.

  Theorem load_class_ext kvs kvs' ms i :
    (forall name s', In (name, s') ms -> lookup (KStr name) kvs = lookup (KStr name) kvs') ->
    load_tr (SClass ms) i (MMap kvs) = load_tr (SClass ms) i (MMap kvs').
  Proof. intros H. cbn [MpLoadModel.load_tr]. rewrite (members_ext load_tr kvs kvs' ms (obj_fields i) H). reflexivity. Qed.

  Lemma lookup_app q a b : lookup q (a ++ b) = match lookup q a with Some v => Some v | None => lookup q b end.
  Proof.
    induction a as [|[k v] a IH]; [reflexivity|]. cbn [app lookup]. destruct (keyden k) as [kk|]; [destruct (key_eq kk q)|]; try reflexivity; exact IH.
  Qed.

  (* members the class does not declare, before / between / behind the declared ones *)
  Theorem load_ignores_extra ms i pre extra post :
    (forall name s', In (name, s') ms -> lookup (KStr name) extra = None) ->
    load_tr (SClass ms) i (MMap (pre ++ extra ++ post)) = load_tr (SClass ms) i (MMap (pre ++ post)).
  Proof.
    intros H. apply load_class_ext. intros name s' Hin. rewrite !lookup_app, (H name s' Hin). reflexivity.
  Qed.
End Transport.

(* ---------- the order of the members in the document ---------- *)
Lemma keys_of_cons kv l : keys_of (kv :: l) = (match keyden (fst kv) with Some k => [k] | None => [] end) ++ keys_of l.
Proof. reflexivity. Qed.

Lemma lookup_none_in q l : supported l -> lookup q l = None -> forall kv kk, In kv l -> keyden (fst kv) = Some kk -> key_eq kk q = false.
Proof.
  induction l as [|[k v] l IH]; intros Hs H kv kk Hin Hk; [destruct Hin|].
  inversion Hs as [|? ? Hs0 Hs']; subst. cbn [lookup] in H. cbn [fst] in Hs0.
  destruct (keyden k) as [k0|] eqn:Ek; [|congruence]. destruct (key_eq k0 q) eqn:Eq; [discriminate H|].
  destruct Hin as [<- | Hin]; [cbn [fst] in Hk; congruence | eapply IH; eassumption].
Qed.

(* with pairwise different keys the value found under a key does not depend on the order of the members *)
Lemma lookup_unique_in q l k kk v : supported l -> keys_distinct (keys_of l) = true ->
  In (k, v) l -> keyden k = Some kk -> key_eq kk q = true -> lookup q l = Some v.
Proof.
  induction l as [|[k0 v0] l IH]; intros Hs Hd Hin Hk Hq; [destruct Hin|].
  inversion Hs as [|? ? Hs0 Hs']; subst. cbn [fst] in Hs0. rewrite keys_of_cons in Hd. cbn [fst] in Hd.
  destruct (keyden k0) as [kk0|] eqn:Ek0; [|congruence]. cbn [app keys_distinct] in Hd.
  apply andb_true_iff in Hd. destruct Hd as [Hd0 Hd'].
  cbn [lookup]. rewrite Ek0.
  destruct Hin as [E | Hin].
  - injection E as -> ->. rewrite Hk in Ek0. injection Ek0 as <-. rewrite Hq. reflexivity.
  - destruct (key_eq kk0 q) eqn:Eq0.
    + exfalso. assert (Hkk : key_eq kk0 kk = true) by (eapply key_eq_trans; [exact Eq0 | rewrite key_eq_sym; exact Hq]).
      rewrite forallb_forall in Hd0. assert (Hi : In kk (keys_of l)) by (eapply in_keys_of; [exact Hin | exact Hk]).
      specialize (Hd0 kk Hi). rewrite Hkk in Hd0. discriminate Hd0.
    + eapply IH; eassumption.
Qed.

Lemma lookup_perm q l l' : supported l -> supported l' -> keys_distinct (keys_of l) = true -> keys_distinct (keys_of l') = true ->
  (forall kv, In kv l <-> In kv l') -> lookup q l = lookup q l'.
Proof.
  intros Hs Hs' Hd Hd' Hiff. destruct (lookup q l) as [v|] eqn:E.
  - destruct (lookup_some_in q l v E) as [k [kk [Hin [Hk Hq]]]]. symmetry.
    eapply lookup_unique_in; try eassumption. apply Hiff. exact Hin.
  - destruct (lookup q l') as [v'|] eqn:E'; [|reflexivity].
    destruct (lookup_some_in q l' v' E') as [k [kk [Hin [Hk Hq]]]].
    apply Hiff in Hin. rewrite (lookup_none_in q l Hs E (k, v') kk Hin Hk) in Hq. discriminate Hq.
Qed.

Theorem load_order_free narrow widen o ms i kvs kvs' :
  doc_ok (MMap kvs) = true -> doc_ok (MMap kvs') = true -> (forall kv, In kv kvs <-> In kv kvs') ->
  load_tr narrow widen o (SClass ms) i (MMap kvs) = load_tr narrow widen o (SClass ms) i (MMap kvs').
Proof.
  intros Hd Hd' Hiff. destruct (doc_ok_map _ Hd) as [Hs [Hk _]]. destruct (doc_ok_map _ Hd') as [Hs' [Hk' _]].
  apply load_class_ext. intros name s' _. apply lookup_perm; assumption.
Qed.

(* ---------- a nested example ---------- *)
Lemma bytes_forallb l : forallb (fun b => b <? 256) l = true -> bytes l.
Proof. intros H. apply Forall_forall. intros x Hx. rewrite forallb_forall in H. specialize (H x Hx). unfold byte. lia. Qed.

(* class { id : int32; tags : vector<string>; parts : vector<class { n : uint8; raw : bytes }>; grid : vector<vector<int16>>; none : nullptr } *)
Definition ex_tree : tv :=
  TObj [(TStr [0x69; 0x64], TInt IS32 (-7));
        (TStr [0x74], TArr [TStr [0x61]; TStr []]);
        (TStr [0x70], TArr [TObj [(TStr [0x6E], TInt IU8 200); (TStr [0x72], TBytes [1; 2; 3])];
                            TObj [(TStr [0x6E], TInt IU8 0); (TStr [0x72], TBytes [])]]);
        (TStr [0x67], TArr [TArr [TInt IS16 300; TInt IS16 (-300)]; TArr []]);
        (TStr [0x7A], TNil)].
Definition ex_shape : shape :=
  SClass [([0x69; 0x64], SInt IS32); ([0x74], SVec SStr);
          ([0x70], SVec (SClass [([0x6E], SInt IU8); ([0x72], SBytes)]));
          ([0x67], SVec (SVec (SInt IS16))); ([0x7A], SNil)].
Definition ex_bytes : list N :=
  [0x85; 0xA2; 0x69; 0x64; 0xF9; 0xA1; 0x74; 0x92; 0xA1; 0x61; 0xA0; 0xA1; 0x70; 0x92;
   0x82; 0xA1; 0x6E; 0xCC; 0xC8; 0xA1; 0x72; 0xC4; 0x03; 0x01; 0x02; 0x03;
   0x82; 0xA1; 0x6E; 0x00; 0xA1; 0x72; 0xC4; 0x00;
   0xA1; 0x67; 0x92; 0x92; 0xD1; 0x01; 0x2C; 0xD1; 0xFE; 0xD4; 0x90; 0xA1; 0x7A; 0xC0].

Lemma ex_tree_shape : has_shape ex_tree ex_shape = true. Proof. vm_compute. reflexivity. Qed.
Lemma ex_tree_wf : wf_tv ex_tree. Proof. vm_compute. repeat split. Qed.
Lemma ex_tree_keys : doc_ok (abs ex_tree) = true. Proof. vm_compute. reflexivity. Qed.
Lemma ex_tree_save : save ex_tree = Some ex_bytes. Proof. vm_compute. reflexivity. Qed.
Lemma ex_tree_bytes : bytes ex_bytes. Proof. apply bytes_forallb. vm_compute. reflexivity. Qed.
Lemma ex_tree_loads : load_bytes no_narrow id_widen skip_all ex_shape ex_bytes = LOk ex_tree.
Proof. exact (load_save no_narrow id_widen skip_all ex_tree ex_shape ex_bytes I ex_tree_shape eq_refl ex_tree_wf ex_tree_keys ex_tree_save). Qed.
(* the same members in another order, one dropped, two undeclared ones added: "t" keeps its default *)
Definition ex_bytes2 : list N :=
  [0x85; 0xA1; 0x7A; 0xC0; 0x2A; 0xC3; 0xA1; 0x67; 0x90; 0xA2; 0x69; 0x64; 0x05; 0xA1; 0x78; 0x91; 0x01].
Lemma ex_tree_loads2 : load_bytes no_narrow id_widen skip_all ex_shape ex_bytes2 =
  LOk (TObj [(TStr [0x69; 0x64], TInt IS32 5); (TStr [0x74], TArr []); (TStr [0x70], TArr []); (TStr [0x67], TArr []); (TStr [0x7A], TNil)]).
Proof. vm_compute. reflexivity. Qed.

(* class { m : std::map<int8_t, vector<string>>; n : std::map<std::string, int32_t> } *)
Definition ex_map_tree : tv :=
  TObj [(TStr [0x6D], TObj [(TInt IS8 (-3), TArr [TStr [0x61]]); (TInt IS8 5, TArr [])]);
        (TStr [0x6E], TObj [(TStr [], TInt IS32 1); (TStr [0x61], TInt IS32 (-2)); (TStr [0x61; 0x62], TInt IS32 3)])].
Definition ex_map_shape : shape := SClass [([0x6D], SMap MClean (KSInt IS8) (SVec SStr)); ([0x6E], SMap MClean KSStr (SInt IS32))].
Definition ex_map_bytes : list N :=
  [0x82; 0xA1; 0x6D; 0x82; 0xFD; 0x91; 0xA1; 0x61; 0x05; 0x90; 0xA1; 0x6E; 0x83; 0xA0; 0x01; 0xA1; 0x61; 0xFE; 0xA2; 0x61; 0x62; 0x03].
Lemma ex_map_shape_ok : has_shape ex_map_tree ex_map_shape = true. Proof. vm_compute. reflexivity. Qed.
Lemma ex_map_wf : wf_tv ex_map_tree. Proof. vm_compute. repeat split. Qed.
Lemma ex_map_keys : doc_ok (abs ex_map_tree) = true. Proof. vm_compute. reflexivity. Qed.
Lemma ex_map_save : save ex_map_tree = Some ex_map_bytes. Proof. vm_compute. reflexivity. Qed.
Lemma ex_map_loads : load_bytes no_narrow id_widen skip_all ex_map_shape ex_map_bytes = LOk ex_map_tree.
Proof. exact (load_save no_narrow id_widen skip_all ex_map_tree ex_map_shape ex_map_bytes I ex_map_shape_ok eq_refl ex_map_wf ex_map_keys ex_map_save). Qed.
(* { "n": {"ab":3, "":1}, "m": {5:[], 300:["x"], -3:["a"]} }: the keys arrive in another order (the maps sort them),
   300 does not fit int8_t: passed over under the Skip policy, an Overflow error under Throw *)
Definition ex_map_bytes2 : list N :=
  [0x82; 0xA1; 0x6E; 0x82; 0xA2; 0x61; 0x62; 0x03; 0xA0; 0x01; 0xA1; 0x6D; 0x83; 0x05; 0x90; 0xCD; 0x01; 0x2C; 0x91; 0xA1; 0x78; 0xFD; 0x91; 0xA1; 0x61].
Lemma ex_map_loads2 : load_bytes no_narrow id_widen skip_all ex_map_shape ex_map_bytes2 =
  LOk (TObj [(TStr [0x6D], TObj [(TInt IS8 (-3), TArr [TStr [0x61]]); (TInt IS8 5, TArr [])]);
             (TStr [0x6E], TObj [(TStr [], TInt IS32 1); (TStr [0x61; 0x62], TInt IS32 3)])]) /\
  load_bytes no_narrow id_widen (mkOpts PThrow PThrow) ex_map_shape ex_map_bytes2 = LErr (SE EOverflow).
Proof. split; vm_compute; reflexivity. Qed.

(* class { a : std::array<int16_t, 3>; b : std::vector<bool> } *)
Definition ex_fix_shape : shape := SClass [([0x61], SArr 3 (SInt IS16)); ([0x62], SVecBool)].
(* { "a": [1, "x", 3], "b": [true, "x", false, nil] }: under Skip the element that does not load keeps its value (a) /
   repeats the previous element (b); [1, 2] into the array is OutOfRange whatever the policy *)
Definition ex_fix_bytes : list N := [0x82; 0xA1; 0x61; 0x93; 0x01; 0xA1; 0x78; 0x03; 0xA1; 0x62; 0x94; 0xC3; 0xA1; 0x78; 0xC2; 0xC0].
Definition ex_fix_bytes2 : list N := [0x81; 0xA1; 0x61; 0x92; 0x01; 0x02].
Lemma ex_fix_loads :
  load_bytes no_narrow id_widen skip_all ex_fix_shape ex_fix_bytes =
    LOk (TObj [(TStr [0x61], TArr [TInt IS16 1; TInt IS16 0; TInt IS16 3]); (TStr [0x62], TArr [TBool true; TBool true; TBool false; TBool false])]) /\
  load_bytes no_narrow id_widen skip_all ex_fix_shape ex_fix_bytes2 = LErr SERange.
Proof. split; vm_compute; reflexivity. Qed.

(* std::tuple<int32_t, std::string, std::array<uint8_t, 2>> *)
Definition ex_tup_shape : shape := STuple [SInt IS32; SStr; SArr 2 (SInt IU8)].
Definition ex_tup_tree : tv := TArr [TInt IS32 (-5); TStr [0x61]; TArr [TInt IU8 1; TInt IU8 2]].
Lemma ex_tup_roundtrip : exists b, save ex_tup_tree = Some b /\ load_bytes no_narrow id_widen skip_all ex_tup_shape b = LOk ex_tup_tree.
Proof. eexists. split; [vm_compute; reflexivity|]. vm_compute. reflexivity. Qed.
(* [7]: shorter than the tuple: under Skip the other components keep their values, under Throw MismatchedTypes;
   [7, "a", [1, 2], 9]: one element too many: passed over under Skip, MismatchedTypes under Throw;
   [7, "a", [1]]: the nested array's count mismatch is OutOfRange whatever the policy (swallowed before 9e55af6: M02) *)
Lemma ex_tup_loads :
  load_bytes no_narrow id_widen skip_all ex_tup_shape [0x91; 0x07] = LOk (TArr [TInt IS32 7; TStr []; TArr [TInt IU8 0; TInt IU8 0]]) /\
  load_bytes no_narrow id_widen (mkOpts PThrow PThrow) ex_tup_shape [0x91; 0x07] = LErr (SE EMismatch) /\
  load_bytes no_narrow id_widen skip_all ex_tup_shape [0x94; 0x07; 0xA1; 0x61; 0x92; 0x01; 0x02; 0x09] =
    LOk (TArr [TInt IS32 7; TStr [0x61]; TArr [TInt IU8 1; TInt IU8 2]]) /\
  load_bytes no_narrow id_widen (mkOpts PThrow PThrow) ex_tup_shape [0x94; 0x07; 0xA1; 0x61; 0x92; 0x01; 0x02; 0x09] = LErr (SE EMismatch) /\
  load_bytes no_narrow id_widen skip_all ex_tup_shape [0x93; 0x07; 0xA1; 0x61; 0x91; 0x01] = LErr SERange.
Proof. split; [vm_compute; reflexivity|]. split; [vm_compute; reflexivity|]. split; [vm_compute; reflexivity|]. split; [vm_compute; reflexivity|]. vm_compute. reflexivity. Qed.

(* ---------- the tokens determine the loaded value ---------- *)
Section ReadOff.
  Variable narrow : N -> option N.
  Variable widen : N -> N.
  Variable o : opts.
  Notation load_tr := (load_tr narrow widen o).

  Definition reads (rd : tv -> list tok -> option (lres * list tok)) (ld : tv -> mpv -> list tok * lres) : Prop :=
    forall i v toks r rest, ld i v = (toks, r) -> no_err r -> rd i (toks ++ rest) = Some (r, rest).

  Definition read_ok' (s : shape) : Prop :=
    reads (read_off s) (load_tr s) /\ forall i rest, read_off s i (absent_toks s ++ rest) = Some (absent_res s, rest).
  (* for shapes without std::map (the keys of a map are not among the tokens) *)
  Definition read_ok (s : shape) : Prop := map_free s = true -> read_ok' s.

  Lemma elems_read e rd ld after : reads rd ld ->
    forall vs inits t items, elems_tr e ld after inits vs = (t, items, None) ->
    forall fuel rest, (length vs < fuel)%nat -> read_elems e rd after fuel inits (t ++ KClose :: rest) = Some (items, rest).
  Proof.
    intros Hrd. induction vs as [|v vs IH]; intros inits t items H fuel rest Hf; (destruct fuel as [|f]; [cbn [length] in Hf; lia|]); cbn [elems_tr] in H.
    - injection H as <- <-. reflexivity.
    - destruct (ld (hd (default_of e) inits) v) as [t0 r] eqn:El.
      assert (Hr : no_err r /\ exists t' items', elems_tr e ld after (tl inits) vs = (t', items', None) /\ t = KIsEnd false :: t0 ++ t'
                     /\ items = after (hd (default_of e) inits) r :: items').
      { destruct r; [| | |discriminate H].
        all: destruct (elems_tr e ld after (tl inits) vs) as [[t' i'] e']; injection H as <- <- ->; split; [exact I | eauto]. }
      destruct Hr as [Hn [t' [items' [Hrest [-> ->]]]]].
      cbn [app read_elems]. rewrite <- app_assoc. rewrite (Hrd _ v t0 r _ El Hn).
      rewrite (IH (tl inits) t' items' Hrest f rest) by (cbn [length] in Hf; lia). reflexivity.
  Qed.

  Lemma elems_count e ld after : forall vs inits t items, elems_tr e ld after inits vs = (t, items, None) -> (length vs < length t + 1)%nat.
  Proof.
    induction vs as [|v vs IH]; intros inits t items Et; cbn [elems_tr] in Et.
    - injection Et as <- _. cbn. lia.
    - destruct (ld (hd (default_of e) inits) v) as [t0 r]. destruct r; [| | |discriminate Et].
      all: destruct (elems_tr e ld after (tl inits) vs) as [[t' i'] e'] eqn:E'; injection Et as <- _ ->;
           specialize (IH _ t' i' E'); cbn [length]; rewrite app_length; lia.
  Qed.

  Lemma arr_read e rd ld after mk inits v toks r rest : reads rd ld -> arr_tr o e ld after mk inits v = (toks, r) -> no_err r ->
    (exists t items, toks = KOpen :: t /\ r = LOk (mk items) /\
       forall fuel, (length t <= fuel)%nat -> read_elems e rd after fuel inits (t ++ rest) = Some (items, rest)) \/
    (toks = [KNone] /\ r = LNot).
  Proof.
    intros Hrd H Hn. unfold arr_tr in H.
    assert (Hnc : forall w, no_container o w = (toks, r) -> toks = [KNone] /\ r = LNot).
    { intros w Hw. unfold no_container in Hw. destruct w; destruct (o_mismatch o); injection Hw as <- <-; try (exfalso; exact Hn); split; reflexivity. }
    destruct v; try (right; eapply Hnc; exact H).
    left. destruct (elems_tr e ld after inits l) as [[t items] err] eqn:Et. destruct err as [err|].
    { injection H as _ <-. destruct Hn. }
    injection H as <- <-. exists (t ++ [KClose]), items. split; [reflexivity|]. split; [reflexivity|].
    intros fuel Hf. rewrite <- app_assoc. cbn [app]. apply (elems_read e rd ld after Hrd l inits t items Et).
    rewrite app_length in Hf. cbn [length] in Hf. pose proof (elems_count e ld after l inits t items Et). lia.
  Qed.

  Lemma scalar_reads s t : reads (read_scalar s) (scalar_ld narrow widen o s t).
  Proof.
    intros i v toks r rest H Hn. unfold scalar_ld, scalar_tr in H. destruct (typed_spec narrow widen o t v); injection H as <- <-;
      try (exfalso; exact Hn); reflexivity.
  Qed.

  Lemma bytes_read bs rest : read_bytes (map KByte bs ++ KClose :: rest) = Some (bs, rest).
  Proof. induction bs as [|b bs IH]; [reflexivity|]. cbn [map app read_bytes]. rewrite IH. reflexivity. Qed.

  Lemma members_read kvs ms : Forall (fun m => read_ok' (snd m)) ms ->
    forall inits t fields, members_tr load_tr kvs inits ms = (t, fields, None) ->
    forall rest, read_members read_off inits ms (t ++ rest) = Some (fields, rest).
  Proof.
    induction 1 as [|[name s'] ms [Hrd Habs] _ IH]; intros inits t fields H rest; cbn [members_tr read_members] in *.
    - injection H as <- <-. reflexivity.
    - cbn [snd] in Hrd, Habs.
      set (i0 := match inits with (_, x) :: _ => x | [] => default_of s' end) in *.
      destruct (match lookup (KStr name) kvs with Some x => load_tr s' i0 x | None => (absent_toks s', absent_res s') end) as [t0 r] eqn:El.
      assert (Hr : no_err r /\ exists t' f', members_tr load_tr kvs (tl inits) ms = (t', f', None) /\ t = t0 ++ t' /\ fields = (TStr name, keep i0 r) :: f').
      { destruct r; [| | |discriminate H].
        all: destruct (members_tr load_tr kvs (tl inits) ms) as [[t' f'] e']; injection H as <- <- ->; split; [exact I | eauto]. }
      destruct Hr as [Hn [t' [f' [Hrest [-> ->]]]]]. rewrite <- app_assoc.
      assert (E0 : read_off s' i0 (t0 ++ t' ++ rest) = Some (r, t' ++ rest)).
      { destruct (lookup (KStr name) kvs) as [x|]; [exact (Hrd i0 x t0 r _ El Hn) | injection El as <- <-; apply Habs]. }
      rewrite E0, (IH (tl inits) t' f' Hrest rest). reflexivity.
  Qed.

  Lemma bools_read : forall vs prev t items, bools_tr (scalar_tr narrow widen o SBool (TgInt (mkIty false 1))) prev vs = (t, items, None) ->
    forall fuel rest, (length vs < fuel)%nat -> read_bools prev fuel (t ++ KClose :: rest) = Some (items, rest).
  Proof.
    induction vs as [|v vs IH]; intros prev t items H fuel rest Hf; (destruct fuel as [|f]; [cbn [length] in Hf; lia|]); cbn [bools_tr] in H.
    - injection H as <- <-. reflexivity.
    - unfold scalar_tr in H. destruct (typed_spec narrow widen o (TgInt (mkIty false 1)) v) as [x| |e0]; [| |discriminate H].
      + destruct (bools_tr _ (match of_value SBool x with TBool b => b | _ => prev end) vs) as [[t' i'] e'] eqn:Eb.
        injection H as <- <- ->. cbn [app read_bools].
        rewrite (IH _ t' i' Eb f rest) by (cbn [length] in Hf; lia). reflexivity.
      + destruct (bools_tr _ prev vs) as [[t' i'] e'] eqn:Eb.
        injection H as <- <- ->. cbn [app read_bools].
        rewrite (IH _ t' i' Eb f rest) by (cbn [length] in Hf; lia). reflexivity.
  Qed.

  Lemma bools_len ld : forall vs prev t items, bools_tr ld prev vs = (t, items, None) -> (length vs < length t + 1)%nat.
  Proof.
    induction vs as [|v vs IH]; intros prev t items H; cbn [bools_tr] in H.
    - injection H as <- _. cbn. lia.
    - destruct (ld v) as [t0 r]. destruct r as [x| |x|e0]; [| | |discriminate H].
      + destruct (bools_tr ld (match x with TBool b => b | _ => prev end) vs) as [[t' i'] e'] eqn:E'. injection H as <- _ ->.
        specialize (IH _ _ _ E'). cbn [length]. rewrite app_length. lia.
      + destruct (bools_tr ld prev vs) as [[t' i'] e'] eqn:E'. injection H as <- _ ->.
        specialize (IH _ _ _ E'). cbn [length]. rewrite app_length. lia.
      + destruct (bools_tr ld prev vs) as [[t' i'] e'] eqn:E'. injection H as <- _ ->.
        specialize (IH _ _ _ E'). cbn [length]. rewrite app_length. lia.
  Qed.

  Lemma comps_read ss : Forall read_ok' ss ->
    forall inits vs t items, comps_tr o load_tr ss inits vs = (t, items, None) ->
    forall rest, read_comps read_off ss inits (t ++ KClose :: rest) = Some (items, rest).
  Proof.
    induction 1 as [|s ss [Hrd _] _ IH]; intros inits vs t items H rest; cbn [comps_tr read_comps] in *.
    - destruct vs as [|v vs]; [injection H as <- <-; reflexivity|].
      destruct (o_mismatch o); [discriminate H|]. injection H as <- <-. reflexivity.
    - destruct vs as [|v vs].
      + destruct (o_mismatch o); [discriminate H|]. injection H as <- <-. reflexivity.
      + destruct (load_tr s (hd (default_of s) inits) v) as [t0 r] eqn:El.
        assert (Hr : no_err r /\ exists t' items', comps_tr o load_tr ss (tl inits) vs = (t', items', None) /\ t = KIsEnd false :: t0 ++ t'
                       /\ items = keep (hd (default_of s) inits) r :: items').
        { destruct r; [| | |discriminate H].
          all: destruct (comps_tr o load_tr ss (tl inits) vs) as [[t' i'] e']; injection H as <- <- ->; split; [exact I | eauto]. }
        destruct Hr as [Hn [t' [items' [Hrest [-> ->]]]]].
        cbn [app]. rewrite <- app_assoc. rewrite (Hrd _ v t0 r (t' ++ KClose :: rest) El Hn), (IH (tl inits) vs t' items' Hrest rest). reflexivity.
  Qed.

  Theorem read_off_ok : forall s, read_ok s.
  Proof.
    apply shape_ind'.
    - intros s Hs _.
      assert (Ht : exists t, (forall i v, load_tr s i v = scalar_ld narrow widen o s t i v) /\ (forall i x, read_off s i x = read_scalar s i x) /\ absent_toks s = [KFalse])
        by (destruct s; try destruct Hs; eexists; repeat split).
      destruct Ht as [t [Hl [Hr Ha]]]. split.
      + intros i v toks r rest H Hn. rewrite Hl in H. rewrite Hr. exact (scalar_reads s t i v toks r rest H Hn).
      + intros i rest. rewrite Ha, Hr. destruct s; try destruct Hs; reflexivity.
    - (* byte container *)
      intros _. split; [|intros i rest; reflexivity].
      intros i v toks r rest H Hn. cbn [MpLoadModel.load_tr] in H.
      assert (Hfb : forall t0 r0, vec_tr o (SInt IU8) (scalar_ld narrow widen o (SInt IU8) (TgInt (mkIty false 8))) (fun items => TBytes (map byte_of items)) [] v = (t0, r0) ->
                toks = KNone :: t0 -> r = r0 -> read_off SBytes i (toks ++ rest) = Some (r, rest)).
      { intros t0 r0 Ev -> ->. rewrite vec_is_arr in Ev.
        destruct (arr_read (SInt IU8) (read_scalar (SInt IU8)) _ _ _ [] v t0 r0 rest (scalar_reads (SInt IU8) _) Ev Hn)
          as [[t [items [-> [-> Hre]]]] | [-> ->]]; [|reflexivity].
        cbn [app read_off]. rewrite Hre by (rewrite app_length; lia). reflexivity. }
      destruct (is_bin v) eqn:Hb.
      + destruct v; try discriminate Hb. injection H as <- <-. cbn [app read_off]. rewrite <- app_assoc. cbn [app].
        rewrite bytes_read. reflexivity.
      + assert (H' : (let (t, r0) := vec_tr o (SInt IU8) (scalar_ld narrow widen o (SInt IU8) (TgInt (mkIty false 8)))
                                        (fun items => TBytes (map byte_of items)) [] v in (KNone :: t, r0)) = (toks, r))
          by (destruct v; try discriminate Hb; exact H).
        destruct (vec_tr o (SInt IU8) _ _ [] v) as [t0 r0] eqn:Ev. injection H' as <- <-.
        eapply Hfb; reflexivity.
    - (* sequence container *)
      intros e IH Hf. destruct (IH Hf) as [IHe _]. split; [|intros i rest; reflexivity].
      intros i v toks r rest H Hn. cbn [MpLoadModel.load_tr] in H. rewrite vec_is_arr in H.
      destruct (arr_read e (read_off e) _ _ _ _ v toks r rest IHe H Hn) as [[t [items [-> [-> Hre]]]] | [-> ->]]; [|reflexivity].
      cbn [app read_off]. rewrite Hre by (rewrite app_length; lia). reflexivity.
    - (* class *)
      intros ms Hms0 Hf. rewrite map_free_class, forallb_forall in Hf.
      assert (Hms : Forall (fun m => read_ok' (snd m)) ms).
      { rewrite Forall_forall in Hms0. apply Forall_forall. intros m Hin. exact (Hms0 m Hin (Hf m Hin)). }
      split; [|intros i rest; reflexivity].
      intros i v toks r rest H Hn. cbn [MpLoadModel.load_tr] in H.
      assert (Hnc : forall w, no_container o w = (toks, r) -> read_off (SClass ms) i (toks ++ rest) = Some (r, rest)).
      { intros w Hw. unfold no_container in Hw. destruct w; destruct (o_mismatch o); injection Hw as <- <-; try (exfalso; exact Hn); reflexivity. }
      destruct v; try (eapply Hnc; exact H).
      destruct (members_tr load_tr l (obj_fields i) ms) as [[t fields] err] eqn:Et. destruct err as [err|].
      { injection H as _ <-. destruct Hn. }
      injection H as <- <-. cbn [app read_off]. rewrite <- app_assoc. cbn [app].
      rewrite (members_read l ms Hms (obj_fields i) t fields Et). reflexivity.
    - intros m ks e _ Hf. discriminate Hf.
    - (* fixed-size array *)
      intros n e IH Hf. destruct (IH Hf) as [IHe _]. split; [|intros i rest; reflexivity].
      intros i v toks r rest H Hn. pose proof (arr_as_vec narrow widen o n e i v toks r H Hn) as H'.
      destruct (arr_read e (read_off e) _ _ _ _ v toks r rest IHe H' Hn) as [[t [items [-> [-> Hre]]]] | [-> ->]]; [|reflexivity].
      cbn [app read_off]. rewrite Hre by (rewrite app_length; lia). reflexivity.
    - (* std::vector<bool> *)
      intros _. split; [|intros i rest; reflexivity].
      intros i v toks r rest H Hn. cbn [MpLoadModel.load_tr] in H.
      assert (Hnc : forall w, no_container o w = (toks, r) -> read_off SVecBool i (toks ++ rest) = Some (r, rest)).
      { intros w Hw. unfold no_container in Hw. destruct w; destruct (o_mismatch o); injection Hw as <- <-; try (exfalso; exact Hn); reflexivity. }
      destruct v; try (eapply Hnc; exact H).
      destruct (bools_tr _ false l) as [[t items] err] eqn:Et. destruct err as [err|].
      { injection H as _ <-. destruct Hn. }
      injection H as <- <-. cbn [app read_off]. rewrite <- app_assoc. cbn [app].
      rewrite (bools_read l false t items Et) by (pose proof (bools_len _ _ _ _ _ Et); rewrite app_length; cbn [length]; lia).
      reflexivity.
    - (* std::tuple *)
      intros ss Hss0 Hf. rewrite map_free_tuple, forallb_forall in Hf.
      assert (Hss : Forall read_ok' ss).
      { rewrite Forall_forall in Hss0. apply Forall_forall. intros s0 Hin. exact (Hss0 s0 Hin (Hf s0 Hin)). }
      split; [|intros i rest; reflexivity].
      intros i v toks r rest H Hn. cbn [MpLoadModel.load_tr] in H.
      assert (Hnc : forall w, no_container o w = (toks, r) -> read_off (STuple ss) i (toks ++ rest) = Some (r, rest)).
      { intros w Hw. unfold no_container in Hw. destruct w; destruct (o_mismatch o); injection Hw as <- <-; try (exfalso; exact Hn); reflexivity. }
      destruct v; try (eapply Hnc; exact H).
      destruct (comps_tr o load_tr ss (arr_items i) l) as [[t items] err] eqn:Et. destruct err as [err|].
      { injection H as _ <-. destruct Hn. }
      injection H as <- <-. cbn [app read_off]. rewrite <- app_assoc. cbn [app].
      rewrite (comps_read ss Hss (arr_items i) l t items Et). reflexivity.
    - (* wrapper *)
      intros e IH Hf. destruct (IH Hf) as [IHe IHa]. split.
      + intros i v toks r rest H Hn. cbn [MpLoadModel.load_tr] in H. destruct (load_tr e (opt_init e i) v) as [t r0] eqn:El.
        injection H as <- <-. cbn [read_off].
        rewrite (IHe (opt_init e i) v t r0 rest El) by (destruct r0; exact I || exact Hn). reflexivity.
      + intros i rest. cbn [read_off absent_toks]. rewrite (IHa (opt_init e i) rest). destruct e; reflexivity.
    - intros ks e _ Hf. discriminate Hf.
    - intros multi ks Hf. discriminate Hf.
  Qed.

  (* what the program's answers say is what load_spec says, whatever the target holds *)
  Corollary read_off_load s i v : map_free s = true -> no_err (load_spec narrow widen o s i v) ->
    read_off s i (load_toks narrow widen o s i v) = Some (load_spec narrow widen o s i v, []).
  Proof.
    intros Hf Hn. unfold load_spec, load_toks in *. destruct (load_tr s i v) as [toks r] eqn:E. cbn [fst snd] in *.
    pose proof (proj1 (read_off_ok s Hf) i v toks r [] E Hn) as R. rewrite app_nil_r in R. exact R.
  Qed.
End ReadOff.

(* ---------- loading into a populated target (C18 at the MsgPack document level) ---------- *)
Section Populated.
  Variable narrow : N -> option N.
  Variable widen : N -> N.
  Variable o : opts.
  Notation load_tr := (load_tr narrow widen o).

  Lemma elems_indep e ld after : (forall i i' v, ld i v = ld i' v) -> (forall i i' r, after i r = after i' r) ->
    forall vs inits inits', elems_tr e ld after inits vs = elems_tr e ld after inits' vs.
  Proof.
    intros Hl Ha. induction vs as [|v vs IH]; intros inits inits'; [reflexivity|]. cbn [elems_tr].
    rewrite (Hl (hd (default_of e) inits) (hd (default_of e) inits') v), (IH (tl inits) (tl inits')).
    destruct (ld (hd (default_of e) inits') v) as [t r]. destruct r; try reflexivity;
      rewrite (Ha (hd (default_of e) inits) (hd (default_of e) inits')); reflexivity.
  Qed.

  (* targets that keep nothing: whatever they hold, the load consumes the same answers and gives the same result *)
  Theorem overwritten_indep : forall s, overwritten s = true -> forall i i' v, load_tr s i v = load_tr s i' v.
  Proof.
    apply (shape_ind' (fun s => overwritten s = true -> forall i i' v, load_tr s i v = load_tr s i' v)).
    - intros s Hs _ i i' v. destruct s; try destruct Hs; reflexivity.
    - intros _ i i' v. reflexivity.
    - intros e IH Hf i i' v. cbn [overwritten] in Hf. cbn [MpLoadModel.load_tr]. unfold vec_tr. destruct v; try reflexivity.
      rewrite (elems_indep e (load_tr e) (fun _ r => fill e r) (IH Hf) (fun _ _ _ => eq_refl) l (arr_items i) (arr_items i')). reflexivity.
    - intros ms _ Hf. discriminate Hf.
    - intros m ks e _ Hf i i' v. destruct m; try discriminate Hf. reflexivity.
    - intros n e _ Hf. discriminate Hf.
    - intros _ i i' v. reflexivity.
    - intros ss _ Hf. discriminate Hf.
    - intros e IH Hf i i' v. cbn [overwritten] in Hf. cbn [MpLoadModel.load_tr]. rewrite (IH Hf (opt_init e i) (opt_init e i') v). reflexivity.
    - intros ks e _ _ i i' v. reflexivity.
    - intros multi ks _ i i' v. reflexivity.
  Qed.

  (* MapLoadMode::Clean: whatever the map holds and whatever its mapped values are: as into an empty map *)
  Theorem clean_is_fresh ks e i i' v : load_tr (SMap MClean ks e) i v = load_tr (SMap MClean ks e) i' v.
  Proof. reflexivity. Qed.

  (* UpdateKeys into an empty map is Clean *)
  Theorem update_empty_is_clean ks e i v : load_tr (SMap MUpdate ks e) (TObj []) v = load_tr (SMap MClean ks e) i v.
  Proof. reflexivity. Qed.

  (* ---- the keys of the map after the load ---- *)
  Lemma replace_keys k x : forall m, map fst (map_replace k x m) = map fst m.
  Proof.
    induction m as [|[k' x'] m IH]; [reflexivity|]. cbn [map_replace]. destruct (tkey_eqb k k'); cbn [map fst]; [reflexivity | rewrite IH; reflexivity].
  Qed.

  Lemma insert_keeps k x k0 : forall m, In k0 (map fst m) -> In k0 (map fst (map_insert k x m)).
  Proof.
    induction m as [|[k' x'] m IH]; intros H; [destruct H|]. cbn [map_insert]. destruct (tkey_ltb k k').
    - right. exact H.
    - cbn [map fst] in *. destruct H as [H | H]; [left; exact H | right; exact (IH H)].
  Qed.

  Lemma put_keeps k x k0 m : In k0 (map fst m) -> In k0 (map fst (map_put k x m)).
  Proof.
    intros H. unfold map_put. destruct (map_find k m); [rewrite replace_keys; exact H | exact (insert_keeps k x k0 m H)].
  Qed.

  Lemma apply_keeps k0 : forall es m, In k0 (map fst m) -> In k0 (map fst (map_apply m es)).
  Proof.
    induction es as [|[k x] es IH]; intros m H; [exact H|]. unfold map_apply in *. cbn [fold_left fst snd]. apply IH. exact (put_keeps k x k0 m H).
  Qed.

  Lemma find_by_keys k : forall m m', map fst m = map fst m' -> map_find k m = None -> map_find k m' = None.
  Proof.
    induction m as [|[k1 x1] m IH]; intros [|[k2 x2] m'] E H; try discriminate E; [reflexivity|].
    cbn [map fst] in E. injection E as <- E. cbn [map_find] in *. destruct (tkey_eqb k k1); [discriminate H | exact (IH m' E H)].
  Qed.

  Lemma apply_found : forall es m, (forall kv, In kv es -> map_find (fst kv) m <> None) -> map fst (map_apply m es) = map fst m.
  Proof.
    induction es as [|[k x] es IH]; intros m H; [reflexivity|]. unfold map_apply in *. cbn [fold_left fst snd].
    assert (Hk : map fst (map_put k x m) = map fst m).
    { unfold map_put. destruct (map_find k m) eqn:Ef; [apply replace_keys | exfalso; exact (H (k, x) (or_introl eq_refl) Ef)]. }
    rewrite IH; [exact Hk|]. intros kv Hin Hnone. apply (H kv (or_intror Hin)).
    exact (find_by_keys (fst kv) _ _ Hk Hnone).
  Qed.

  (* OnlyExistKeys: every update is for a key the map has *)
  Lemma only_found ks e ld m0 : forall kvs t es err, entries_tr o true ks e ld m0 kvs = (t, es, err) ->
    forall kv, In kv es -> map_find (fst kv) m0 <> None.
  Proof.
    induction kvs as [|[k x] kvs IH]; intros t es err H kv Hin; cbn [entries_tr] in H.
    - injection H as _ <- _. destruct Hin.
    - destruct (keyden k) as [kk|]; [|injection H as _ <- _; destruct Hin].
      destruct (conv_key o ks kk) as [key| |e0]; [|exact (IH _ _ _ H kv Hin) | injection H as _ <- _; destruct Hin].
      destruct (map_find key m0) as [old|] eqn:Ef; [|exact (IH _ _ _ H kv Hin)].
      destruct (ld old x) as [t0 r]. destruct r as [y| |y|e0]; [| | |injection H as _ <- _; destruct Hin].
      all: destruct (entries_tr o true ks e ld m0 kvs) as [[t' es'] err'] eqn:E'; injection H as _ <- _;
           (destruct Hin as [<- | Hin]; [cbn [fst]; rewrite Ef; discriminate | exact (IH _ _ _ eq_refl kv Hin)]).
  Qed.

  (* OnlyExistKeys never adds (nor removes) a key, whatever the document *)
  Theorem only_exist_keeps_keys ks e m0 v toks x : load_tr (SMap MOnlyExist ks e) (TObj m0) v = (toks, LOk x) ->
    exists m', x = TObj m' /\ map fst m' = map fst m0.
  Proof.
    intros H. cbn [MpLoadModel.load_tr obj_fields] in H.
    destruct v; try (unfold no_container in H; destruct (o_mismatch o); discriminate H).
    destruct (entries_tr o true ks e (load_tr e) m0 l) as [[t es] err] eqn:Et. destruct err as [err|]; [discriminate H|].
    injection H as _ <-. eexists. split; [reflexivity|]. apply apply_found. exact (only_found ks e (load_tr e) m0 l t es None Et).
  Qed.

  (* UpdateKeys (and OnlyExistKeys) never removes a key, whatever the document *)
  Theorem update_keeps_keys m ks e m0 v toks x : m <> MClean -> load_tr (SMap m ks e) (TObj m0) v = (toks, LOk x) ->
    exists m', x = TObj m' /\ forall k, In k (map fst m0) -> In k (map fst m').
  Proof.
    intros Hm H. cbn [MpLoadModel.load_tr] in H.
    destruct v; try (unfold no_container in H; destruct (o_mismatch o); discriminate H).
    assert (E0 : (match m with MClean => [] | _ => obj_fields (TObj m0) end) = m0) by (destruct m; [contradiction | reflexivity | reflexivity]).
    rewrite E0 in H.
    destruct (entries_tr o _ ks e (load_tr e) m0 l) as [[t es] err] eqn:Et. destruct err as [err|]; [discriminate H|].
    injection H as _ <-. eexists. split; [reflexivity|]. intros k Hin. exact (apply_keeps k es m0 Hin).
  Qed.

  (* a target that is not loaded at all keeps what it holds: the caller's value stays i (LNot) *)
  (* class members, elements of fixed-size arrays and components of tuples that are not loaded keep their content:
     { "a": 5 } into class { a; b } holding { a = 1; b = 2 } gives { a = 5; b = 2 } (known finding F36 of C18, by design) *)
End Populated.

Definition pop_shape : shape := SClass [([0x61], SInt IS32); ([0x62], SInt IS32)].
Lemma pop_class_keeps :
  load_bytes_into no_narrow id_widen skip_all pop_shape (TObj [(TStr [0x61], TInt IS32 1); (TStr [0x62], TInt IS32 2)]) [0x81; 0xA1; 0x61; 0x05] =
    LOk (TObj [(TStr [0x61], TInt IS32 5); (TStr [0x62], TInt IS32 2)]).
Proof. vm_compute. reflexivity. Qed.

(* std::map<string, int32> holding { "a": 1, "c": 3 }, document { "b": 20, "c": 30 } *)
Definition pop_map (m : mmode) : shape := SMap m KSStr (SInt IS32).
Definition pop_prior : tv := TObj [(TStr [0x61], TInt IS32 1); (TStr [0x63], TInt IS32 3)].
Definition pop_doc : list N := [0x82; 0xA1; 0x62; 0x14; 0xA1; 0x63; 0x1E].
Lemma pop_map_modes :
  load_bytes_into no_narrow id_widen skip_all (pop_map MClean) pop_prior pop_doc = LOk (TObj [(TStr [0x62], TInt IS32 20); (TStr [0x63], TInt IS32 30)]) /\
  load_bytes_into no_narrow id_widen skip_all (pop_map MOnlyExist) pop_prior pop_doc = LOk (TObj [(TStr [0x61], TInt IS32 1); (TStr [0x63], TInt IS32 30)]) /\
  load_bytes_into no_narrow id_widen skip_all (pop_map MUpdate) pop_prior pop_doc =
    LOk (TObj [(TStr [0x61], TInt IS32 1); (TStr [0x62], TInt IS32 20); (TStr [0x63], TInt IS32 30)]).
Proof. split; [vm_compute; reflexivity|]. split; [vm_compute; reflexivity|]. vm_compute. reflexivity. Qed.

(* the shape computed from a value has no std::map *)
Lemma shape_of_clean : forall v, clean_maps (shape_of v) = true.
Proof.
  apply tv_ind2; try (intros; reflexivity).
  - intros l HF. cbn [shape_of clean_maps]. destruct l as [|x l]; [reflexivity|]. inversion HF; assumption.
  - intros kvs HF. cbn [shape_of]. rewrite clean_maps_class.
    induction kvs as [|[k x] kvs IH]; [reflexivity|]. inversion HF as [|? ? [_ Hx] Hl]; subst. cbn [fst snd] in Hx.
    cbn [forallb snd]. rewrite Hx. exact (IH Hl).
Qed.

(* class { o : std::optional<int32_t>; p : std::unique_ptr<class { a : int32_t }>; v : std::vector<std::optional<std::string>> } *)
Definition ex_opt_shape : shape :=
  SClass [([0x6F], SOpt (SInt IS32)); ([0x70], SOpt (SClass [([0x61], SInt IS32)])); ([0x76], SVec (SOpt SStr))].
Definition ex_opt_tree : tv :=
  TObj [(TStr [0x6F], TNil); (TStr [0x70], TObj [(TStr [0x61], TInt IS32 7)]); (TStr [0x76], TArr [TStr [0x78]; TNil; TStr []])].
Lemma ex_opt_roundtrip : has_shape ex_opt_tree ex_opt_shape = true /\
  exists b, save ex_opt_tree = Some b /\ load_bytes no_narrow id_widen skip_all ex_opt_shape b = LOk ex_opt_tree.
Proof. split; [vm_compute; reflexivity|]. eexists. split; [vm_compute; reflexivity|]. vm_compute. reflexivity. Qed.
(* into a target that holds { o = 5; p = { a = 1 }; v = [] }:
   {}                      : the absent members are RESET to empty: { o = empty; p = empty; v = [] }
   { "o": "x", "p": nil }  : a value of another kind under Skip and nil reset as well
   { "p": {} }             : the pointee exists, is loaded into, and keeps the member the document does not have: { a = 1 } *)
Definition ex_opt_prior : tv := TObj [(TStr [0x6F], TInt IS32 5); (TStr [0x70], TObj [(TStr [0x61], TInt IS32 1)]); (TStr [0x76], TArr [])].
Lemma ex_opt_loads :
  load_bytes_into no_narrow id_widen skip_all ex_opt_shape ex_opt_prior [0x80] =
    LOk (TObj [(TStr [0x6F], TNil); (TStr [0x70], TNil); (TStr [0x76], TArr [])]) /\
  load_bytes_into no_narrow id_widen skip_all ex_opt_shape ex_opt_prior [0x82; 0xA1; 0x6F; 0xA1; 0x78; 0xA1; 0x70; 0xC0] =
    LOk (TObj [(TStr [0x6F], TNil); (TStr [0x70], TNil); (TStr [0x76], TArr [])]) /\
  load_bytes_into no_narrow id_widen skip_all ex_opt_shape ex_opt_prior [0x81; 0xA1; 0x70; 0x80] =
    LOk (TObj [(TStr [0x6F], TNil); (TStr [0x70], TObj [(TStr [0x61], TInt IS32 1)]); (TStr [0x76], TArr [])]) /\
  load_bytes_into no_narrow id_widen skip_all (SOpt (SInt IS32)) (TInt IS32 5) [0xC0] = LReset TNil.
Proof. split; [vm_compute; reflexivity|]. split; [vm_compute; reflexivity|]. split; [vm_compute; reflexivity|]. vm_compute. reflexivity. Qed.

(* std::multimap<int8_t, std::string> { 1:"a", 1:"b", 2:"c" } and the document [ {key:2,value:"c"}, {key:1,value:"a"}, nil, {key:1,value:"b"} ]:
   ordered by key, equal keys in the order of the document, the element that is not an object is not inserted *)
Definition mmp (k : Z) (s : list N) : tv := TObj [(TStr key_name, TInt IS8 k); (TStr value_name, TStr s)].
Definition ex_mm_shape : shape := SMMap (KSInt IS8) SStr.
Definition ex_mm_tree : tv := TArr [mmp 1 [0x61]; mmp 1 [0x62]; mmp 2 [0x63]].
Definition ex_mm_doc : list N :=
  [0x94; 0x82; 0xA3; 0x6B; 0x65; 0x79; 0x02; 0xA5; 0x76; 0x61; 0x6C; 0x75; 0x65; 0xA1; 0x63;
   0x82; 0xA3; 0x6B; 0x65; 0x79; 0x01; 0xA5; 0x76; 0x61; 0x6C; 0x75; 0x65; 0xA1; 0x61; 0xC0;
   0x82; 0xA3; 0x6B; 0x65; 0x79; 0x01; 0xA5; 0x76; 0x61; 0x6C; 0x75; 0x65; 0xA1; 0x62].
Lemma ex_mm_loads :
  has_shape ex_mm_tree ex_mm_shape = true /\
  (exists b, save ex_mm_tree = Some b /\ load_bytes no_narrow id_widen skip_all ex_mm_shape b = LOk ex_mm_tree) /\
  load_bytes no_narrow id_widen skip_all ex_mm_shape ex_mm_doc = LOk ex_mm_tree.
Proof.
  split; [vm_compute; reflexivity|]. split; [|vm_compute; reflexivity].
  eexists. split; [vm_compute; reflexivity|]. vm_compute. reflexivity.
Qed.

(* [ "b", "a", "b", 5 ] under Skip: the element that does not load inserts the value-initialised string; a set drops the
   second "b", a multiset keeps it *)
Definition ex_set_doc : list N := [0x94; 0xA1; 0x62; 0xA1; 0x61; 0xA1; 0x62; 0x05].
Lemma ex_set_loads :
  load_bytes no_narrow id_widen skip_all (SSet false KSStr) ex_set_doc = LOk (TArr [TStr []; TStr [0x61]; TStr [0x62]]) /\
  load_bytes no_narrow id_widen skip_all (SSet true KSStr) ex_set_doc = LOk (TArr [TStr []; TStr [0x61]; TStr [0x62]; TStr [0x62]]).
Proof. split; [vm_compute; reflexivity|]. vm_compute. reflexivity. Qed.
