(* MpLoadStream.v — the typed MsgPack load over a STREAM: the request programs of the generic serialization layer
   (MpLoadModel.v) for shapes without byte containers lie in the fragment of the history language that
   MpScopeClient.v re-expresses as a client of the reader interface; hence T_C01_mp_load_save transports to the
   MsgPack stream reader over the chunked reader (through the mpstream family's adaptive theorem). *)
From BS Require Import Base MpSpec MpModel MpLemmas MpReader MpTyped MpSaveModel MpSave
  MpScopeSpec MpScopeModel MpScopeLemmas MpScopeTyped MpScopeProofs MpScopeRefine MpLoadModel MpLoadProofs MpScopeClient.
From BS Require StreamIStream StreamSpec StreamModel StreamBsrProofs MpStreamModel MpStreamProofs.
Local Open Scope N_scope.

(* no byte container (std::vector<uint8_t>-like target loaded through the binary scope) at any depth *)
Fixpoint bytes_free (s : shape) : bool :=
  match s with
  | SBytes => false
  | SVec e | SArr _ e | SOpt e | SMMap _ e | SMap _ _ e => bytes_free e
  | SClass ms => (fix go (ms : list (list N * shape)) : bool := match ms with [] => true | (_, s') :: t => bytes_free s' && go t end) ms
  | STuple ss => (fix go (ss : list shape) : bool := match ss with [] => true | s' :: t => bytes_free s' && go t end) ss
  | _ => true
  end.

Lemma bytes_free_class ms : bytes_free (SClass ms) = true -> Forall (fun m => bytes_free (snd m) = true) ms.
Proof.
  induction ms as [|[name s'] t IH]; intros H; [constructor|].
  cbn [bytes_free] in H. apply andb_true_iff in H. destruct H as [H1 H2]. constructor; [exact H1 | exact (IH H2)].
Qed.

Lemma bytes_free_tuple ss : bytes_free (STuple ss) = true -> Forall (fun s' => bytes_free s' = true) ss.
Proof.
  induction ss as [|s' t IH]; intros H; [constructor|].
  cbn [bytes_free] in H. apply andb_true_iff in H. destruct H as [H1 H2]. constructor; [exact H1 | exact (IH H2)].
Qed.

(* ---------- the programs lie in the fragment ---------- *)
Lemma frag_app_a l1 l2 : frag_areqs (mk_areqs (l1 ++ l2)) = frag_areqs (mk_areqs l1) && frag_areqs (mk_areqs l2).
Proof.
  induction l1 as [|a t IH]; [reflexivity|]. cbn [app mk_areqs frag_areqs]. rewrite IH. apply andb_assoc.
Qed.

Lemma frag_app_r l1 l2 : frag_reqs (mk_reqs (l1 ++ l2)) = frag_reqs (mk_reqs l1) && frag_reqs (mk_reqs l2).
Proof.
  induction l1 as [|a t IH]; [reflexivity|]. cbn [app mk_reqs frag_reqs]. rewrite IH. apply andb_assoc.
Qed.

Lemma frag_vec_body prog_e d : (forall i v, frag_areqs (mk_areqs (prog_e i v)) = true) ->
  forall vs inits, frag_areqs (mk_areqs (vec_body prog_e d inits vs)) = true.
Proof.
  intros H. induction vs as [|v vs IH]; intros inits; [reflexivity|].
  cbn [vec_body mk_areqs frag_areqs frag_areq]. rewrite frag_app_a, H, IH. reflexivity.
Qed.

Lemma frag_arr_prog prog_e d inits v : (forall i v, frag_areqs (mk_areqs (prog_e i v)) = true) ->
  frag_areqs (arr_prog prog_e d inits v) = true.
Proof. intros H. unfold arr_prog. destruct v; try reflexivity. apply frag_vec_body. exact H. Qed.

Lemma frag_comps o eprog ss : Forall (fun s => forall i v, frag_areqs (mk_areqs (eprog s i v)) = true) ss ->
  forall inits vs, frag_areqs (mk_areqs (comps_prog o eprog ss inits vs)) = true.
Proof.
  induction 1 as [|s' ss' H HF IH]; intros inits vs.
  - cbn [comps_prog]. destruct vs; destruct (o_mismatch o); reflexivity.
  - cbn [comps_prog]. destruct vs as [|v vs'].
    + destruct (o_mismatch o); reflexivity.
    + cbn [mk_areqs frag_areqs frag_areq]. rewrite frag_app_a, H, IH. reflexivity.
Qed.

Lemma frag_members mprog kvs ms : Forall (fun m => forall i q ov, frag_reqs (mk_reqs (mprog (snd m) i q ov)) = true) ms ->
  forall inits, frag_reqs (mk_reqs (members_prog mprog kvs inits ms)) = true.
Proof.
  induction 1 as [|[name s'] ms' H HF IH]; intros inits; [reflexivity|].
  cbn [members_prog]. rewrite frag_app_r, IH. cbn [snd] in H. rewrite H. reflexivity.
Qed.

Lemma frag_map_acts o only ks d vprog m0 : (forall i v, frag_vact (vprog i v) = true) ->
  forall kvs, frag_vacts (mk_vacts (map_acts o only ks d vprog m0 kvs)) = true.
Proof.
  intros H. induction kvs as [|kv kvs IH]; [reflexivity|].
  cbn [map_acts mk_vacts frag_vacts]. rewrite IH, andb_true_r. unfold map_act.
  destruct (keyden (fst kv)); [|reflexivity].
  destruct (conv_key o ks k) as [ck| |ce]; try reflexivity.
  destruct (map_find ck m0); [apply H|]. destruct only; [reflexivity | apply H].
Qed.

Section ProgFrag.
  Variable o : opts.

  Definition prog_frag (s : shape) : Prop :=
    (forall i v, frag_areqs (mk_areqs (elem_prog o s i v)) = true) /\
    (forall i q ov, frag_reqs (mk_reqs (member_prog o s i q ov)) = true) /\
    (forall i v, frag_vact (vact_prog o s i v) = true).

  Lemma vact_prog_vec e i v : vact_prog o (SVec e) i v = VArr (arr_prog (elem_prog o e) (default_of e) (arr_items i) v).
  Proof. reflexivity. Qed.
  Lemma vact_prog_arr n e i v : vact_prog o (SArr n e) i v = VArr (arr_prog (elem_prog o e) (default_of e) (arr_items i) v).
  Proof. reflexivity. Qed.
  Lemma vact_prog_class ms i v : vact_prog o (SClass ms) i v =
    VObj (match v with MMap kvs => mk_reqs (members_prog (member_prog o) kvs (obj_fields i) ms) | _ => RNil end).
  Proof. reflexivity. Qed.
  Lemma vact_prog_map m ks e i v : vact_prog o (SMap m ks e) i v =
    VObj (match v with
          | MMap kvs => mk_reqs [REach (mk_vacts (map_acts o (map_only m) ks (default_of e) (vact_prog o e) (map_m0 m i) kvs))]
          | _ => RNil
          end).
  Proof. reflexivity. Qed.
  Lemma vact_prog_tuple ss i v : vact_prog o (STuple ss) i v =
    VArr (match v with MArr vs => mk_areqs (comps_prog o (elem_prog o) ss (arr_items i) vs) | _ => ANil end).
  Proof. reflexivity. Qed.
  Lemma vact_prog_mm ks e i v : vact_prog o (SMMap ks e) i v =
    VArr (arr_prog (pair_prog o ks e) (default_of (pair_sh ks e)) [] v).
  Proof. reflexivity. Qed.
  Lemma elem_prog_opt e i v : elem_prog o (SOpt e) i v = elem_prog o e (opt_init e i) v.
  Proof. reflexivity. Qed.
  Lemma member_prog_opt e i q ov : member_prog o (SOpt e) i q ov = member_prog o e (opt_init e i) q ov.
  Proof. reflexivity. Qed.
  Lemma vact_prog_opt e i v : vact_prog o (SOpt e) i v = vact_prog o e (opt_init e i) v.
  Proof. reflexivity. Qed.

  Lemma frag_pair_prog ks e : prog_frag e -> forall i x, frag_areqs (mk_areqs (pair_prog o ks e i x)) = true.
  Proof.
    intros [_ [Hm _]] i x. unfold pair_prog. cbn [mk_areqs frag_areqs frag_areq]. rewrite andb_true_r.
    destruct x; try reflexivity.
    change (mk_reqs (RGet (QStr key_name) (kshape_target ks) :: member_prog o e (default_of e) (QStr value_name) (lookup (KStr value_name) l)))
      with (RCons (RGet (QStr key_name) (kshape_target ks)) (mk_reqs (member_prog o e (default_of e) (QStr value_name) (lookup (KStr value_name) l)))).
    cbn [frag_reqs frag_req]. apply Hm.
  Qed.

  Lemma progs_in_fragment : forall s, bytes_free s = true -> prog_frag s.
  Proof.
    apply (shape_ind' (fun s => bytes_free s = true -> prog_frag s)).
    - (* scalars *)
      intros s Hs _. destruct s; try contradiction; (split; [|split]); intros; reflexivity.
    - (* SBytes *) intros H. discriminate H.
    - (* SVec *)
      intros e IH Hb. destruct (IH Hb) as [He _]. split; [|split].
      + intros i v. rewrite elem_prog_vec. cbn [mk_areqs frag_areqs frag_areq]. rewrite andb_true_r. apply frag_arr_prog. exact He.
      + intros i q ov. rewrite member_prog_vec. cbn [mk_reqs frag_reqs frag_req]. rewrite andb_true_r.
        destruct ov; [apply frag_arr_prog; exact He | reflexivity].
      + intros i v. rewrite vact_prog_vec. cbn [frag_vact]. apply frag_arr_prog. exact He.
    - (* SClass *)
      intros ms IH Hb.
      assert (HM : Forall (fun m => forall i q ov, frag_reqs (mk_reqs (member_prog o (snd m) i q ov)) = true) ms).
      { pose proof (bytes_free_class ms Hb) as HB. rewrite Forall_forall in *. intros m Hin. exact (proj1 (proj2 (IH m Hin (HB m Hin)))). }
      split; [|split].
      + intros i v. rewrite elem_prog_class. cbn [mk_areqs frag_areqs frag_areq]. rewrite andb_true_r.
        destruct v; try reflexivity. apply frag_members. exact HM.
      + intros i q ov. rewrite member_prog_class. cbn [mk_reqs frag_reqs frag_req]. rewrite andb_true_r.
        destruct ov as [[]|]; try reflexivity. apply frag_members. exact HM.
      + intros i v. rewrite vact_prog_class. cbn [frag_vact]. destruct v; try reflexivity. apply frag_members. exact HM.
    - (* SMap *)
      intros m ks e IH Hb. destruct (IH Hb) as [_ [_ Hv]].
      assert (HE : forall i kvs, frag_reqs (mk_reqs [REach (mk_vacts (map_acts o (map_only m) ks (default_of e) (vact_prog o e) (map_m0 m i) kvs))]) = true).
      { intros i kvs. cbn [mk_reqs frag_reqs frag_req]. rewrite andb_true_r. apply frag_map_acts. exact Hv. }
      split; [|split].
      + intros i v. rewrite elem_prog_map. cbn [mk_areqs frag_areqs frag_areq]. rewrite andb_true_r.
        destruct v; try reflexivity. apply HE.
      + intros i q ov. rewrite member_prog_map. cbn [mk_reqs frag_reqs frag_req]. rewrite andb_true_r.
        destruct ov as [[]|]; try reflexivity. apply HE.
      + intros i v. rewrite vact_prog_map. cbn [frag_vact]. destruct v; try reflexivity. apply HE.
    - (* SArr *)
      intros n e IH Hb. destruct (IH Hb) as [He _]. split; [|split].
      + intros i v. rewrite elem_prog_arr. cbn [mk_areqs frag_areqs frag_areq]. rewrite andb_true_r. apply frag_arr_prog. exact He.
      + intros i q ov. rewrite member_prog_arr. cbn [mk_reqs frag_reqs frag_req]. rewrite andb_true_r.
        destruct ov; [apply frag_arr_prog; exact He | reflexivity].
      + intros i v. rewrite vact_prog_arr. cbn [frag_vact]. apply frag_arr_prog. exact He.
    - (* SVecBool *)
      intros _. split; [|split].
      + intros i v. rewrite elem_prog_vb. cbn [mk_areqs frag_areqs frag_areq]. rewrite andb_true_r. apply frag_arr_prog. intros; reflexivity.
      + intros i q ov. rewrite member_prog_vb. cbn [mk_reqs frag_reqs frag_req]. rewrite andb_true_r.
        destruct ov; [apply frag_arr_prog; intros; reflexivity | reflexivity].
      + intros i v. change (vact_prog o SVecBool i v) with (VArr (arr_prog bool_prog (TBool false) [] v)). cbn [frag_vact].
        apply frag_arr_prog. intros; reflexivity.
    - (* STuple *)
      intros ss IH Hb.
      assert (HC : Forall (fun s => forall i v, frag_areqs (mk_areqs (elem_prog o s i v)) = true) ss).
      { pose proof (bytes_free_tuple ss Hb) as HB. rewrite Forall_forall in *. intros s' Hin. exact (proj1 (IH s' Hin (HB s' Hin))). }
      split; [|split].
      + intros i v. rewrite elem_prog_tuple. cbn [mk_areqs frag_areqs frag_areq]. rewrite andb_true_r.
        destruct v; try reflexivity. apply frag_comps. exact HC.
      + intros i q ov. rewrite member_prog_tuple. cbn [mk_reqs frag_reqs frag_req]. rewrite andb_true_r.
        destruct ov as [[]|]; try reflexivity. apply frag_comps. exact HC.
      + intros i v. rewrite vact_prog_tuple. cbn [frag_vact]. destruct v; try reflexivity. apply frag_comps. exact HC.
    - (* SOpt *)
      intros e IH Hb. destruct (IH Hb) as [He [Hm Hv]]. split; [|split].
      + intros i v. rewrite elem_prog_opt. apply He.
      + intros i q ov. rewrite member_prog_opt. apply Hm.
      + intros i v. rewrite vact_prog_opt. apply Hv.
    - (* SMMap *)
      intros ks e IH Hb. pose proof (frag_pair_prog ks e (IH Hb)) as HP. split; [|split].
      + intros i v. rewrite elem_prog_mm. cbn [mk_areqs frag_areqs frag_areq]. rewrite andb_true_r. apply frag_arr_prog. exact HP.
      + intros i q ov. rewrite member_prog_mm. cbn [mk_reqs frag_reqs frag_req]. rewrite andb_true_r.
        destruct ov; [apply frag_arr_prog; exact HP | reflexivity].
      + intros i v. rewrite vact_prog_mm. cbn [frag_vact]. apply frag_arr_prog. exact HP.
    - (* SSet *)
      intros multi ks _. split; [|split].
      + intros i v. rewrite elem_prog_set. cbn [mk_areqs frag_areqs frag_areq]. rewrite andb_true_r. apply frag_arr_prog. intros; reflexivity.
      + intros i q ov. rewrite member_prog_set. cbn [mk_reqs frag_reqs frag_req]. rewrite andb_true_r.
        destruct ov; [apply frag_arr_prog; intros; reflexivity | reflexivity].
      + intros i v. change (vact_prog o (SSet multi ks) i v) with (VArr (arr_prog (key_prog ks) (default_of (kshape_shape ks)) [] v)).
        cbn [frag_vact]. apply frag_arr_prog. intros; reflexivity.
  Qed.

  (* the root programs *)
  Lemma class_prog_frag ms i kvs : bytes_free (SClass ms) = true -> frag_reqs (class_prog o ms i kvs) = true.
  Proof.
    intros Hb. unfold class_prog. apply frag_members.
    pose proof (bytes_free_class ms Hb) as HB. rewrite Forall_forall in *. intros m Hin.
    exact (proj1 (proj2 (progs_in_fragment (snd m) (HB m Hin)))).
  Qed.

  Lemma map_prog_frag m ks e i kvs : bytes_free e = true -> frag_reqs (map_prog o m ks e i kvs) = true.
  Proof.
    intros Hb. unfold map_prog. cbn [mk_reqs frag_reqs frag_req]. rewrite andb_true_r. apply frag_map_acts.
    exact (proj2 (proj2 (progs_in_fragment e Hb))).
  Qed.

  Lemma vec_prog_frag e i vs : bytes_free e = true -> frag_areqs (vec_prog o e i vs) = true.
  Proof. intros Hb. unfold vec_prog. apply frag_vec_body. exact (proj1 (progs_in_fragment e Hb)). Qed.

  Lemma tuple_prog_frag ss i vs : bytes_free (STuple ss) = true -> frag_areqs (tuple_prog o ss i vs) = true.
  Proof.
    intros Hb. unfold tuple_prog. apply frag_comps.
    pose proof (bytes_free_tuple ss Hb) as HB. rewrite Forall_forall in *. intros s' Hin.
    exact (proj1 (progs_in_fragment s' (HB s' Hin))).
  Qed.
End ProgFrag.

(* ---------- the scope model's run on the saved bytes, over the stream ---------- *)
Module SM := MpStreamModel.
Module SP := MpStreamProofs.

Section OverStream.
  Variable narrow : N -> option N.
  Variable widen : N -> N.
  Variable o : opts.
  Variable K : nat.
  Hypothesis HK : (8 <= K)%nat.

  (* an object-rooted history of the fragment: what the scope model returns in memory, the scopes over the stream return,
     with the transcript of the memory run *)
  Lemma obj_run_over_stream data fuel h toks rest :
    StreamBsrProofs.fits_streamoff data -> SP.bytes_ok data -> (length data < fuel)%nat -> frag_reqs h = true ->
    run_obj_root narrow widen o data h = Done toks rest false ->
    SM.mps_client_bsr narrow widen K (StreamIStream.stream_of data true) fuel o (scope_client (S (length data)) h) =
      StreamModel.Ok (fst (SM.str_client_run narrow widen data o (scope_client (S (length data)) h)),
                      Some (Some (toks, N.of_nat (length data - length rest), false))).
  Proof.
    intros Hf Hb Hfuel Hfr Hrun.
    rewrite (SP.client_on_chunked_stream K data narrow widen fuel o _ (scope_client (S (length data)) h) HK Hf Hb Hfuel
               (scope_client_seeks_ok narrow widen o data _ h data)).
    pose proof (scope_client_run narrow widen o data K HK Hf Hb (S (length data)) h toks rest (Nat.lt_succ_diag_r _) Hfr Hrun) as E.
    destruct (SM.str_client_run narrow widen data o (scope_client (S (length data)) h)) as [tr res]. cbn [snd fst] in *. subst res.
    reflexivity.
  Qed.

  Lemma arr_run_over_stream data fuel h toks rest :
    StreamBsrProofs.fits_streamoff data -> SP.bytes_ok data -> (length data < fuel)%nat -> frag_areqs h = true ->
    run_arr_root narrow widen o data h = Done toks rest false ->
    SM.mps_client_bsr narrow widen K (StreamIStream.stream_of data true) fuel o (scope_client_arr (S (length data)) h) =
      StreamModel.Ok (fst (SM.str_client_run narrow widen data o (scope_client_arr (S (length data)) h)),
                      Some (Some (toks, N.of_nat (length data - length rest), false))).
  Proof.
    intros Hf Hb Hfuel Hfr Hrun.
    rewrite (SP.client_on_chunked_stream K data narrow widen fuel o _ (scope_client_arr (S (length data)) h) HK Hf Hb Hfuel
               (scope_client_arr_seeks_ok narrow widen o data _ h data)).
    pose proof (scope_client_arr_run narrow widen o data K HK Hf Hb (S (length data)) h toks rest (Nat.lt_succ_diag_r _) Hfr Hrun) as E.
    destruct (SM.str_client_run narrow widen data o (scope_client_arr (S (length data)) h)) as [tr res]. cbn [snd fst] in *. subst res.
    reflexivity.
  Qed.

  (* save, then load from a stream: a class at the root *)
  Theorem load_save_class_stream kvs ms i b fuel :
    StreamBsrProofs.fits_streamoff b -> SP.bytes_ok b -> (length b < fuel)%nat ->
    bytes_free (SClass ms) = true ->
    has_shape (TObj kvs) (SClass ms) = true -> clean_maps (SClass ms) = true -> wf_tv (TObj kvs) -> doc_ok (abs (TObj kvs)) = true ->
    save (TObj kvs) = Some b ->
    exists toks, load_tr narrow widen o (SClass ms) i (abs (TObj kvs)) = (toks, LOk (TObj kvs)) /\
      SM.mps_client_bsr narrow widen K (StreamIStream.stream_of b true) fuel o (scope_client (S (length b)) (class_prog o ms i (map absp kvs))) =
        StreamModel.Ok (fst (SM.str_client_run narrow widen b o (scope_client (S (length b)) (class_prog o ms i (map absp kvs)))),
                        Some (Some (toks, N.of_nat (length b), false))).
  Proof.
    intros Hf Hb Hfuel Hbf Hs Hc Hw Hd Hsv.
    destruct (load_save_class_on_model narrow widen o kvs ms i b Hs Hc Hw Hd Hsv Hb) as [toks [E [Hrun _]]].
    exists toks. split; [exact E|].
    rewrite (obj_run_over_stream b fuel _ toks [] Hf Hb Hfuel (class_prog_frag o ms i (map absp kvs) Hbf) Hrun).
    cbn [length]. rewrite Nat.sub_0_r. reflexivity.
  Qed.

  (* ... a std::map at the root *)
  Theorem load_save_map_stream kvs ks e i b fuel :
    StreamBsrProofs.fits_streamoff b -> SP.bytes_ok b -> (length b < fuel)%nat ->
    bytes_free e = true ->
    has_shape (TObj kvs) (SMap MClean ks e) = true -> clean_maps e = true -> wf_tv (TObj kvs) -> doc_ok (abs (TObj kvs)) = true ->
    save (TObj kvs) = Some b ->
    exists toks, load_tr narrow widen o (SMap MClean ks e) i (abs (TObj kvs)) = (toks, LOk (TObj kvs)) /\
      SM.mps_client_bsr narrow widen K (StreamIStream.stream_of b true) fuel o (scope_client (S (length b)) (map_prog o MClean ks e i (map absp kvs))) =
        StreamModel.Ok (fst (SM.str_client_run narrow widen b o (scope_client (S (length b)) (map_prog o MClean ks e i (map absp kvs)))),
                        Some (Some (toks, N.of_nat (length b), false))).
  Proof.
    intros Hf Hb Hfuel Hbf Hs Hc Hw Hd Hsv.
    destruct (load_save_map_on_model narrow widen o kvs ks e i b Hs Hc Hw Hd Hsv Hb) as [toks [E [Hrun _]]].
    exists toks. split; [exact E|].
    rewrite (obj_run_over_stream b fuel _ toks [] Hf Hb Hfuel (map_prog_frag o MClean ks e i (map absp kvs) Hbf) Hrun).
    cbn [length]. rewrite Nat.sub_0_r. reflexivity.
  Qed.

  (* ... a sequence container at the root *)
  Theorem load_save_vec_stream l e i b fuel :
    StreamBsrProofs.fits_streamoff b -> SP.bytes_ok b -> (length b < fuel)%nat ->
    bytes_free e = true ->
    has_shape (TArr l) (SVec e) = true -> clean_maps e = true -> wf_tv (TArr l) -> doc_ok (abs (TArr l)) = true ->
    save (TArr l) = Some b ->
    exists toks, load_tr narrow widen o (SVec e) i (abs (TArr l)) = (toks, LOk (TArr l)) /\
      SM.mps_client_bsr narrow widen K (StreamIStream.stream_of b true) fuel o (scope_client_arr (S (length b)) (vec_prog o e i (map abs l))) =
        StreamModel.Ok (fst (SM.str_client_run narrow widen b o (scope_client_arr (S (length b)) (vec_prog o e i (map abs l)))),
                        Some (Some (toks, N.of_nat (length b), false))).
  Proof.
    intros Hf Hb Hfuel Hbf Hs Hc Hw Hd Hsv.
    destruct (load_save_vec_on_model narrow widen o l e i b Hs Hc Hw Hd Hsv Hb) as [toks [E [Hrun _]]].
    exists toks. split; [exact E|].
    rewrite (arr_run_over_stream b fuel _ toks [] Hf Hb Hfuel (vec_prog_frag o e i (map abs l) Hbf) Hrun).
    cbn [length]. rewrite Nat.sub_0_r. reflexivity.
  Qed.
End OverStream.
