(* MpLoadStream.v — the typed MsgPack load over a STREAM: the request programs of the generic serialization layer
   (MpLoadModel.v) for EVERY shape lie in the fragment of the history language that
   MpScopeClient.v re-expresses as a client of the reader interface; hence T_C01_mp_load_save transports to the
   MsgPack stream reader over the chunked reader (through the mpstream family's adaptive theorem). *)
From BS Require Import Base MpSpec MpModel MpLemmas MpReader MpTyped MpSaveModel MpSave
  MpScopeSpec MpScopeModel MpScopeLemmas MpScopeTyped MpScopeProofs MpScopeRefine MpLoadModel MpLoadBytes MpLoadProofs MpScopeClient.
From BS Require StreamIStream StreamSpec StreamModel StreamBsrProofs MpStreamModel MpStreamProofs.
Local Open Scope N_scope.

(* ---------- the programs lie in the fragment ---------- *)
Lemma frag_app_a l1 l2 : frag_areqs (mk_areqs (l1 ++ l2)) = frag_areqs (mk_areqs l1) && frag_areqs (mk_areqs l2).
Proof.
  induction l1 as [|a t IH]; [reflexivity|]. cbn [app mk_areqs frag_areqs]. rewrite IH. apply andb_assoc.
Qed.

Lemma frag_app_r l1 l2 : frag_reqs (mk_reqs (l1 ++ l2)) = frag_reqs (mk_reqs l1) && frag_reqs (mk_reqs l2).
Proof.
  induction l1 as [|a t IH]; [reflexivity|]. cbn [app mk_reqs frag_reqs]. rewrite IH. apply andb_assoc.
Qed.

Lemma frag_vec_body prog_e d : (forall i v, frag_areqs (mk_areqs (prog_e i v)) = true) ->
  forall vs inits, frag_areqs (mk_areqs (vec_body prog_e d inits vs)) = true.
Proof.
  intros H. induction vs as [|v vs IH]; intros inits; [reflexivity|].
  cbn [vec_body mk_areqs frag_areqs frag_areq]. rewrite frag_app_a, H, IH. reflexivity.
Qed.

Lemma frag_arr_prog prog_e d inits v : (forall i v, frag_areqs (mk_areqs (prog_e i v)) = true) ->
  frag_areqs (arr_prog prog_e d inits v) = true.
Proof. intros H. unfold arr_prog. destruct v; try reflexivity. apply frag_vec_body. exact H. Qed.

Lemma frag_comps o eprog ss : Forall (fun s => forall i v, frag_areqs (mk_areqs (eprog s i v)) = true) ss ->
  forall inits vs, frag_areqs (mk_areqs (comps_prog o eprog ss inits vs)) = true.
Proof.
  induction 1 as [|s' ss' H HF IH]; intros inits vs.
  - cbn [comps_prog]. destruct vs; destruct (o_mismatch o); reflexivity.
  - cbn [comps_prog]. destruct vs as [|v vs'].
    + destruct (o_mismatch o); reflexivity.
    + cbn [mk_areqs frag_areqs frag_areq]. rewrite frag_app_a, H, IH. reflexivity.
Qed.

Lemma frag_members mprog kvs ms : Forall (fun m => forall i q ov, frag_reqs (mk_reqs (mprog (snd m) i q ov)) = true) ms ->
  forall inits, frag_reqs (mk_reqs (members_prog mprog kvs inits ms)) = true.
Proof.
  induction 1 as [|[name s'] ms' H HF IH]; intros inits; [reflexivity|].
  cbn [members_prog]. rewrite frag_app_r, IH. cbn [snd] in H. rewrite H. reflexivity.
Qed.

Lemma frag_map_acts o only ks d vprog m0 : (forall i v, frag_vact (vprog i v) = true) ->
  forall kvs, frag_vacts (mk_vacts (map_acts o only ks d vprog m0 kvs)) = true.
Proof.
  intros H. induction kvs as [|kv kvs IH]; [reflexivity|].
  cbn [map_acts mk_vacts frag_vacts]. rewrite IH, andb_true_r. unfold map_act.
  destruct (keyden (fst kv)); [|reflexivity].
  destruct (conv_key o ks k) as [ck| |ce]; try reflexivity.
  destruct (map_find ck m0); [apply H|]. destruct only; [reflexivity | apply H].
Qed.

Section ProgFrag.
  Variable o : opts.

  Definition prog_frag (s : shape) : Prop :=
    (forall i v, frag_areqs (mk_areqs (elem_prog o s i v)) = true) /\
    (forall i q ov, frag_reqs (mk_reqs (member_prog o s i q ov)) = true) /\
    (forall i v, frag_vact (vact_prog o s i v) = true).

  Lemma vact_prog_vec e i v : vact_prog o (SVec e) i v = VArr (arr_prog (elem_prog o e) (default_of e) (arr_items i) v).
  Proof. reflexivity. Qed.
  Lemma vact_prog_arr n e i v : vact_prog o (SArr n e) i v = VArr (arr_prog (elem_prog o e) (default_of e) (arr_items i) v).
  Proof. reflexivity. Qed.
  Lemma vact_prog_class ms i v : vact_prog o (SClass ms) i v =
    VObj (match v with MMap kvs => mk_reqs (members_prog (member_prog o) kvs (obj_fields i) ms) | _ => RNil end).
  Proof. reflexivity. Qed.
  Lemma vact_prog_map m ks e i v : vact_prog o (SMap m ks e) i v =
    VObj (match v with
          | MMap kvs => mk_reqs [REach (mk_vacts (map_acts o (map_only m) ks (default_of e) (vact_prog o e) (map_m0 m i) kvs))]
          | _ => RNil
          end).
  Proof. reflexivity. Qed.
  Lemma vact_prog_tuple ss i v : vact_prog o (STuple ss) i v =
    VArr (match v with MArr vs => mk_areqs (comps_prog o (elem_prog o) ss (arr_items i) vs) | _ => ANil end).
  Proof. reflexivity. Qed.
  Lemma vact_prog_mm ks e i v : vact_prog o (SMMap ks e) i v =
    VArr (arr_prog (pair_prog o ks e) (default_of (pair_sh ks e)) [] v).
  Proof. reflexivity. Qed.
  Lemma elem_prog_opt e i v : elem_prog o (SOpt e) i v = elem_prog o e (opt_init e i) v.
  Proof. reflexivity. Qed.
  Lemma member_prog_opt e i q ov : member_prog o (SOpt e) i q ov = member_prog o e (opt_init e i) q ov.
  Proof. reflexivity. Qed.
  Lemma vact_prog_opt e i v : vact_prog o (SOpt e) i v = vact_prog o e (opt_init e i) v.
  Proof. reflexivity. Qed.

  Lemma frag_pair_prog ks e : prog_frag e -> forall i x, frag_areqs (mk_areqs (pair_prog o ks e i x)) = true.
  Proof.
    intros [_ [Hm _]] i x. unfold pair_prog. cbn [mk_areqs frag_areqs frag_areq]. rewrite andb_true_r.
    destruct x; try reflexivity.
    change (mk_reqs (RGet (QStr key_name) (kshape_target ks) :: member_prog o e (default_of e) (QStr value_name) (lookup (KStr value_name) l)))
      with (RCons (RGet (QStr key_name) (kshape_target ks)) (mk_reqs (member_prog o e (default_of e) (QStr value_name) (lookup (KStr value_name) l)))).
    cbn [frag_reqs frag_req]. apply Hm.
  Qed.

  Lemma progs_in_fragment : forall s, prog_frag s.
  Proof.
    apply (shape_ind' prog_frag).
    - (* scalars *)
      intros s Hs. destruct s; try contradiction; (split; [|split]); intros; reflexivity.
    - (* SBytes *)
      assert (HU : forall v, frag_areqs (arr_prog u8_prog (TInt IU8 0) [] v) = true) by (intros v; apply frag_arr_prog; intros; reflexivity).
      split; [|split].
      + intros i v. change (elem_prog o SBytes i v) with
          (match v with MBin bs => [ABin (length bs)] | _ => [ABin 0; AArr (arr_prog u8_prog (TInt IU8 0) [] v)] end).
        destruct v; try reflexivity; cbn [mk_areqs frag_areqs frag_areq]; rewrite HU; reflexivity.
      + intros i q ov. change (member_prog o SBytes i q ov) with
          (match ov with
           | Some (MBin bs) => [RBin q (length bs)]
           | Some v => [RBin q 0; RArr q (arr_prog u8_prog (TInt IU8 0) [] v)]
           | None => [RBin q 0; RArr q ANil]
           end).
        destruct ov as [v|]; [|reflexivity]. destruct v; try reflexivity; cbn [mk_reqs frag_reqs frag_req]; rewrite HU; reflexivity.
      + intros i v. change (vact_prog o SBytes i v) with
          (match v with MBin bs => VBin (length bs) | _ => VBinArr 0 (arr_prog u8_prog (TInt IU8 0) [] v) end).
        destruct v; try reflexivity; cbn [frag_vact]; apply HU.
    - (* SVec *)
      intros e IH. destruct IH as [He _]. split; [|split].
      + intros i v. rewrite elem_prog_vec. cbn [mk_areqs frag_areqs frag_areq]. rewrite andb_true_r. apply frag_arr_prog. exact He.
      + intros i q ov. rewrite member_prog_vec. cbn [mk_reqs frag_reqs frag_req]. rewrite andb_true_r.
        destruct ov; [apply frag_arr_prog; exact He | reflexivity].
      + intros i v. rewrite vact_prog_vec. cbn [frag_vact]. apply frag_arr_prog. exact He.
    - (* SClass *)
      intros ms IH.
      assert (HM : Forall (fun m => forall i q ov, frag_reqs (mk_reqs (member_prog o (snd m) i q ov)) = true) ms).
      { rewrite Forall_forall in *. intros m Hin. exact (proj1 (proj2 (IH m Hin))). }
      split; [|split].
      + intros i v. rewrite elem_prog_class. cbn [mk_areqs frag_areqs frag_areq]. rewrite andb_true_r.
        destruct v; try reflexivity. apply frag_members. exact HM.
      + intros i q ov. rewrite member_prog_class. cbn [mk_reqs frag_reqs frag_req]. rewrite andb_true_r.
        destruct ov as [[]|]; try reflexivity. apply frag_members. exact HM.
      + intros i v. rewrite vact_prog_class. cbn [frag_vact]. destruct v; try reflexivity. apply frag_members. exact HM.
    - (* SMap *)
      intros m ks e IH. destruct IH as [_ [_ Hv]].
      assert (HE : forall i kvs, frag_reqs (mk_reqs [REach (mk_vacts (map_acts o (map_only m) ks (default_of e) (vact_prog o e) (map_m0 m i) kvs))]) = true).
      { intros i kvs. cbn [mk_reqs frag_reqs frag_req]. rewrite andb_true_r. apply frag_map_acts. exact Hv. }
      split; [|split].
      + intros i v. rewrite elem_prog_map. cbn [mk_areqs frag_areqs frag_areq]. rewrite andb_true_r.
        destruct v; try reflexivity. apply HE.
      + intros i q ov. rewrite member_prog_map. cbn [mk_reqs frag_reqs frag_req]. rewrite andb_true_r.
        destruct ov as [[]|]; try reflexivity. apply HE.
      + intros i v. rewrite vact_prog_map. cbn [frag_vact]. destruct v; try reflexivity. apply HE.
    - (* SArr *)
      intros n e IH. destruct IH as [He _]. split; [|split].
      + intros i v. rewrite elem_prog_arr. cbn [mk_areqs frag_areqs frag_areq]. rewrite andb_true_r. apply frag_arr_prog. exact He.
      + intros i q ov. rewrite member_prog_arr. cbn [mk_reqs frag_reqs frag_req]. rewrite andb_true_r.
        destruct ov; [apply frag_arr_prog; exact He | reflexivity].
      + intros i v. rewrite vact_prog_arr. cbn [frag_vact]. apply frag_arr_prog. exact He.
    - (* SVecBool *)
      split; [|split].
      + intros i v. rewrite elem_prog_vb. cbn [mk_areqs frag_areqs frag_areq]. rewrite andb_true_r. apply frag_arr_prog. intros; reflexivity.
      + intros i q ov. rewrite member_prog_vb. cbn [mk_reqs frag_reqs frag_req]. rewrite andb_true_r.
        destruct ov; [apply frag_arr_prog; intros; reflexivity | reflexivity].
      + intros i v. change (vact_prog o SVecBool i v) with (VArr (arr_prog bool_prog (TBool false) [] v)). cbn [frag_vact].
        apply frag_arr_prog. intros; reflexivity.
    - (* STuple *)
      intros ss IH.
      assert (HC : Forall (fun s => forall i v, frag_areqs (mk_areqs (elem_prog o s i v)) = true) ss).
      { rewrite Forall_forall in *. intros s' Hin. exact (proj1 (IH s' Hin)). }
      split; [|split].
      + intros i v. rewrite elem_prog_tuple. cbn [mk_areqs frag_areqs frag_areq]. rewrite andb_true_r.
        destruct v; try reflexivity. apply frag_comps. exact HC.
      + intros i q ov. rewrite member_prog_tuple. cbn [mk_reqs frag_reqs frag_req]. rewrite andb_true_r.
        destruct ov as [[]|]; try reflexivity. apply frag_comps. exact HC.
      + intros i v. rewrite vact_prog_tuple. cbn [frag_vact]. destruct v; try reflexivity. apply frag_comps. exact HC.
    - (* SOpt *)
      intros e IH. destruct IH as [He [Hm Hv]]. split; [|split].
      + intros i v. rewrite elem_prog_opt. apply He.
      + intros i q ov. rewrite member_prog_opt. apply Hm.
      + intros i v. rewrite vact_prog_opt. apply Hv.
    - (* SMMap *)
      intros ks e IH. pose proof (frag_pair_prog ks e IH) as HP. split; [|split].
      + intros i v. rewrite elem_prog_mm. cbn [mk_areqs frag_areqs frag_areq]. rewrite andb_true_r. apply frag_arr_prog. exact HP.
      + intros i q ov. rewrite member_prog_mm. cbn [mk_reqs frag_reqs frag_req]. rewrite andb_true_r.
        destruct ov; [apply frag_arr_prog; exact HP | reflexivity].
      + intros i v. rewrite vact_prog_mm. cbn [frag_vact]. apply frag_arr_prog. exact HP.
    - (* SSet *)
      intros multi ks. split; [|split].
      + intros i v. rewrite elem_prog_set. cbn [mk_areqs frag_areqs frag_areq]. rewrite andb_true_r. apply frag_arr_prog. intros; reflexivity.
      + intros i q ov. rewrite member_prog_set. cbn [mk_reqs frag_reqs frag_req]. rewrite andb_true_r.
        destruct ov; [apply frag_arr_prog; intros; reflexivity | reflexivity].
      + intros i v. change (vact_prog o (SSet multi ks) i v) with (VArr (arr_prog (key_prog ks) (default_of (kshape_shape ks)) [] v)).
        cbn [frag_vact]. apply frag_arr_prog. intros; reflexivity.
  Qed.

  (* the root programs *)
  Lemma class_prog_frag ms i kvs : frag_reqs (class_prog o ms i kvs) = true.
  Proof.
    unfold class_prog. apply frag_members. rewrite Forall_forall. intros m _.
    exact (proj1 (proj2 (progs_in_fragment (snd m)))).
  Qed.

  Lemma map_prog_frag m ks e i kvs : frag_reqs (map_prog o m ks e i kvs) = true.
  Proof.
    unfold map_prog. cbn [mk_reqs frag_reqs frag_req]. rewrite andb_true_r. apply frag_map_acts.
    exact (proj2 (proj2 (progs_in_fragment e))).
  Qed.

  Lemma vec_prog_frag e i vs : frag_areqs (vec_prog o e i vs) = true.
  Proof. unfold vec_prog. apply frag_vec_body. exact (proj1 (progs_in_fragment e)). Qed.

  Lemma tuple_prog_frag ss i vs : frag_areqs (tuple_prog o ss i vs) = true.
  Proof.
    unfold tuple_prog. apply frag_comps. rewrite Forall_forall. intros s' _. exact (proj1 (progs_in_fragment s')).
  Qed.
End ProgFrag.

(* ---------- the scope model's run on the saved bytes, over the stream ---------- *)
Module SM := MpStreamModel.
Module SP := MpStreamProofs.

Section OverStream.
  Variable narrow : N -> option N.
  Variable widen : N -> N.
  Variable o : opts.
  Variable K : nat.
  Hypothesis HK : (8 <= K)%nat.

  (* an object-rooted history of the fragment: what the scope model returns in memory, the scopes over the stream return,
     with the transcript of the memory run *)
  Lemma obj_run_over_stream data fuel h toks rest :
    StreamBsrProofs.fits_streamoff data -> SP.bytes_ok data -> (length data < fuel)%nat -> frag_reqs h = true ->
    run_obj_root narrow widen o data h = Done toks rest false ->
    SM.mps_client_bsr narrow widen K (StreamIStream.stream_of data true) fuel o (scope_client (S (length data)) h) =
      StreamModel.Ok (fst (SM.str_client_run narrow widen data o (scope_client (S (length data)) h)),
                      Some (Some (toks, N.of_nat (length data - length rest), false))).
  Proof.
    intros Hf Hb Hfuel Hfr Hrun.
    rewrite (SP.client_on_chunked_stream K data narrow widen fuel o _ (scope_client (S (length data)) h) HK Hf Hb Hfuel
               (scope_client_seeks_ok narrow widen o data _ h data)).
    pose proof (scope_client_run narrow widen o data K HK Hf Hb (S (length data)) h toks rest (Nat.lt_succ_diag_r _) Hfr Hrun) as E.
    destruct (SM.str_client_run narrow widen data o (scope_client (S (length data)) h)) as [tr res]. cbn [snd fst] in *. subst res.
    reflexivity.
  Qed.

  Lemma arr_run_over_stream data fuel h toks rest :
    StreamBsrProofs.fits_streamoff data -> SP.bytes_ok data -> (length data < fuel)%nat -> frag_areqs h = true ->
    run_arr_root narrow widen o data h = Done toks rest false ->
    SM.mps_client_bsr narrow widen K (StreamIStream.stream_of data true) fuel o (scope_client_arr (S (length data)) h) =
      StreamModel.Ok (fst (SM.str_client_run narrow widen data o (scope_client_arr (S (length data)) h)),
                      Some (Some (toks, N.of_nat (length data - length rest), false))).
  Proof.
    intros Hf Hb Hfuel Hfr Hrun.
    rewrite (SP.client_on_chunked_stream K data narrow widen fuel o _ (scope_client_arr (S (length data)) h) HK Hf Hb Hfuel
               (scope_client_arr_seeks_ok narrow widen o data _ h data)).
    pose proof (scope_client_arr_run narrow widen o data K HK Hf Hb (S (length data)) h toks rest (Nat.lt_succ_diag_r _) Hfr Hrun) as E.
    destruct (SM.str_client_run narrow widen data o (scope_client_arr (S (length data)) h)) as [tr res]. cbn [snd fst] in *. subst res.
    reflexivity.
  Qed.

  (* save, then load from a stream: a class at the root.  The one length bound: fits_streamoff b (the saved bytes are
     fewer than 2^63: std::streamoff); fuel is the model's recursion bound, anything above the number of bytes *)
  Theorem load_save_class_stream kvs ms i b :
    StreamBsrProofs.fits_streamoff b ->
    has_shape (TObj kvs) (SClass ms) = true -> clean_maps (SClass ms) = true -> wf_tv (TObj kvs) -> doc_ok (abs (TObj kvs)) = true ->
    wf_bytes (TObj kvs) = true -> save (TObj kvs) = Some b ->
    exists toks, load_tr narrow widen o (SClass ms) i (abs (TObj kvs)) = (toks, LOk (TObj kvs)) /\
      forall fuel, (length b < fuel)%nat ->
      SM.mps_client_bsr narrow widen K (StreamIStream.stream_of b true) fuel o (scope_client (S (length b)) (class_prog o ms i (map absp kvs))) =
        StreamModel.Ok (fst (SM.str_client_run narrow widen b o (scope_client (S (length b)) (class_prog o ms i (map absp kvs)))),
                        Some (Some (toks, N.of_nat (length b), false))).
  Proof.
    intros Hf Hs Hc Hw Hd Hwb Hsv. pose proof (save_bytes _ b Hw Hwb Hsv) as Hb.
    destruct (load_save_class_on_model narrow widen o kvs ms i b Hs Hc Hw Hd Hwb Hsv) as [toks [E [Hrun _]]].
    exists toks. split; [exact E|]. intros fuel Hfuel.
    rewrite (obj_run_over_stream b fuel _ toks [] Hf Hb Hfuel (class_prog_frag o ms i (map absp kvs)) Hrun).
    cbn [length]. rewrite Nat.sub_0_r. reflexivity.
  Qed.

  (* ... a std::map at the root *)
  Theorem load_save_map_stream kvs ks e i b :
    StreamBsrProofs.fits_streamoff b ->
    has_shape (TObj kvs) (SMap MClean ks e) = true -> clean_maps e = true -> wf_tv (TObj kvs) -> doc_ok (abs (TObj kvs)) = true ->
    wf_bytes (TObj kvs) = true -> save (TObj kvs) = Some b ->
    exists toks, load_tr narrow widen o (SMap MClean ks e) i (abs (TObj kvs)) = (toks, LOk (TObj kvs)) /\
      forall fuel, (length b < fuel)%nat ->
      SM.mps_client_bsr narrow widen K (StreamIStream.stream_of b true) fuel o (scope_client (S (length b)) (map_prog o MClean ks e i (map absp kvs))) =
        StreamModel.Ok (fst (SM.str_client_run narrow widen b o (scope_client (S (length b)) (map_prog o MClean ks e i (map absp kvs)))),
                        Some (Some (toks, N.of_nat (length b), false))).
  Proof.
    intros Hf Hs Hc Hw Hd Hwb Hsv. pose proof (save_bytes _ b Hw Hwb Hsv) as Hb.
    destruct (load_save_map_on_model narrow widen o kvs ks e i b Hs Hc Hw Hd Hwb Hsv) as [toks [E [Hrun _]]].
    exists toks. split; [exact E|]. intros fuel Hfuel.
    rewrite (obj_run_over_stream b fuel _ toks [] Hf Hb Hfuel (map_prog_frag o MClean ks e i (map absp kvs)) Hrun).
    cbn [length]. rewrite Nat.sub_0_r. reflexivity.
  Qed.

  (* ... a sequence container at the root *)
  Theorem load_save_vec_stream l e i b :
    StreamBsrProofs.fits_streamoff b ->
    has_shape (TArr l) (SVec e) = true -> clean_maps e = true -> wf_tv (TArr l) -> doc_ok (abs (TArr l)) = true ->
    wf_bytes (TArr l) = true -> save (TArr l) = Some b ->
    exists toks, load_tr narrow widen o (SVec e) i (abs (TArr l)) = (toks, LOk (TArr l)) /\
      forall fuel, (length b < fuel)%nat ->
      SM.mps_client_bsr narrow widen K (StreamIStream.stream_of b true) fuel o (scope_client_arr (S (length b)) (vec_prog o e i (map abs l))) =
        StreamModel.Ok (fst (SM.str_client_run narrow widen b o (scope_client_arr (S (length b)) (vec_prog o e i (map abs l)))),
                        Some (Some (toks, N.of_nat (length b), false))).
  Proof.
    intros Hf Hs Hc Hw Hd Hwb Hsv. pose proof (save_bytes _ b Hw Hwb Hsv) as Hb.
    destruct (load_save_vec_on_model narrow widen o l e i b Hs Hc Hw Hd Hwb Hsv) as [toks [E [Hrun _]]].
    exists toks. split; [exact E|]. intros fuel Hfuel.
    rewrite (arr_run_over_stream b fuel _ toks [] Hf Hb Hfuel (vec_prog_frag o e i (map abs l)) Hrun).
    cbn [length]. rewrite Nat.sub_0_r. reflexivity.
  Qed.
  (* ... ANY array-rooted target: sequence container, fixed-size array, tuple, vector<bool> at the root *)
  Definition arr_rooted (s : shape) : bool := match s with SVec _ | SArr _ _ | STuple _ | SVecBool => true | _ => false end.
  Definition root_arr_prog (s : shape) (i : tv) (vs : list mpv) : areqs :=
    match s with
    | SVec e | SArr _ e => vec_prog o e i vs
    | STuple ss => tuple_prog o ss i vs
    | SVecBool => mk_areqs (vec_body bool_prog (TBool false) [] vs)
    | _ => ANil
    end.

  Lemma root_arr_on_model s data vs rest i toks r :
    bytes data -> decode data = Some (MArr vs, rest) -> doc_ok (MArr vs) = true -> arr_rooted s = true ->
    load_tr narrow widen o s i (MArr vs) = (toks, r) -> no_err r ->
    run_arr_root narrow widen o data (root_arr_prog s i vs) = Done toks rest false.
  Proof.
    intros Hb Hd Hok Ha H Hn. destruct s; try discriminate Ha; cbn [root_arr_prog].
    - exact (proj1 (load_vec_on_model narrow widen o data vs rest s i toks r Hb Hd Hok H Hn)).
    - exact (proj1 (load_fixed_on_model narrow widen o data vs rest n s i toks r Hb Hd Hok H Hn)).
    - exact (proj1 (load_vb_on_model narrow widen o data vs rest i toks r Hb Hd Hok H Hn)).
    - exact (proj1 (load_tuple_on_model narrow widen o data vs rest ss i toks r Hb Hd Hok H Hn)).
  Qed.

  Lemma root_arr_prog_frag s i vs : frag_areqs (root_arr_prog s i vs) = true.
  Proof.
    destruct s; try reflexivity; cbn [root_arr_prog].
    - apply vec_prog_frag.
    - apply vec_prog_frag.
    - apply frag_vec_body. intros; reflexivity.
    - apply tuple_prog_frag.
  Qed.

  Theorem load_save_array_stream l s i b :
    StreamBsrProofs.fits_streamoff b ->
    arr_rooted s = true ->
    has_shape (TArr l) s = true -> clean_maps s = true -> wf_tv (TArr l) -> doc_ok (abs (TArr l)) = true ->
    wf_bytes (TArr l) = true -> save (TArr l) = Some b ->
    exists toks, load_tr narrow widen o s i (abs (TArr l)) = (toks, LOk (TArr l)) /\
      forall fuel, (length b < fuel)%nat ->
      SM.mps_client_bsr narrow widen K (StreamIStream.stream_of b true) fuel o (scope_client_arr (S (length b)) (root_arr_prog s i (map abs l))) =
        StreamModel.Ok (fst (SM.str_client_run narrow widen b o (scope_client_arr (S (length b)) (root_arr_prog s i (map abs l)))),
                        Some (Some (toks, N.of_nat (length b), false))).
  Proof.
    intros Hf Ha Hs Hc Hw Hd Hwb Hsv. pose proof (save_bytes _ b Hw Hwb Hsv) as Hb.
    destruct (load_save_spec narrow widen o _ _ i Hs Hc Hw Hd) as [toks [r [E Ho]]].
    assert (Hno : not_opt s) by (destruct s; try discriminate Ha; exact I).
    rewrite (out_not_opt s _ _ Hno Hs Ho) in E.
    exists toks. split; [exact E|]. intros fuel Hfuel.
    change (abs (TArr l)) with (MArr (map abs l)) in *.
    pose proof (root_arr_on_model s b (map abs l) [] i toks _ Hb (save_decodes _ b Hw Hsv) Hd Ha E I) as Hrun.
    rewrite (arr_run_over_stream b fuel _ toks [] Hf Hb Hfuel (root_arr_prog_frag s i (map abs l)) Hrun).
    cbn [length]. rewrite Nat.sub_0_r. reflexivity.
  Qed.
End OverStream.
