(* MpModel.v — executable mirror of src/msgpack/msgpack_writers.cpp (CMsgPackStringWriter; the stream
   writer is the same code over ostream::put/write) and of the string reader in
   src/msgpack/msgpack_readers.cpp (ByteCodeTable, GetValue, ReadExtSize, SkipValueImpl,
   HandleMismatchedTypesPolicy, ReadInteger, ReadExtFamilyType, the ReadValue overloads,
   ReadArraySize/ReadMapSize/ReadBinarySize/ReadBinary).
   A reader position is modelled as the suffix of the input that starts there (the buffer is
   immutable and positions are only ever compared with its size); "pos + n <= size" is
   "n <= length rest".  Memory::NativeToBigEndian + raw byte copy is modelled as big-endian bytes
   (Memory::Reverse itself is T_C11_rev16/32).  No proofs in this file. *)
From BS Require Import Base MpSpec.
Local Open Scope N_scope.

(* ================= writer ================= *)

Definition wr_nil : list N := [0xC0].
Definition wr_bool (b : bool) : list N := [if b then 0xC3 else 0xC2].

(* WriteValue(uint8_t) ... (uint64_t): v < 2^8 / 2^16 / 2^32 / 2^64 *)
Definition wr_u8 (v : N) : list N := if 128 <=? v then [0xCC; v] else [v].
Definition wr_u16 (v : N) : list N := if 255 <? v then 0xCD :: be_bytes 2 v else wr_u8 v.
Definition wr_u32 (v : N) : list N := if 65535 <? v then 0xCE :: be_bytes 4 v else wr_u16 v.
Definition wr_u64 (v : N) : list N := if 4294967295 <? v then 0xCF :: be_bytes 8 v else wr_u32 v.

(* two's complement byte image of a signed value *)
Definition twos (bits : N) (z : Z) : N := Z.to_N (z mod 2 ^ Z.of_N bits).

(* WriteValue(int8_t) ... (int64_t) *)
Definition wr_i8 (z : Z) : list N := if (-32 <=? z)%Z then [twos 8 z] else [0xD0; twos 8 z].
Definition wr_i16 (z : Z) : list N := if ((z <? -128) || (127 <? z))%Z then 0xD1 :: be_bytes 2 (twos 16 z) else wr_i8 z.
Definition wr_i32 (z : Z) : list N := if ((z <? -32768) || (32767 <? z))%Z then 0xD2 :: be_bytes 4 (twos 32 z) else wr_i16 z.
Definition wr_i64 (z : Z) : list N := if ((z <? -2147483648) || (2147483647 <? z))%Z then 0xD3 :: be_bytes 8 (twos 64 z) else wr_i32 z.

Definition wr_f32 (bits : N) : list N := 0xCA :: be_bytes 4 bits.
Definition wr_f64 (bits : N) : list N := 0xCB :: be_bytes 8 bits.

(* headers; None = SerializationException(OutOfRange) *)
Definition wr_str_header (n : N) : option (list N) :=
  if n <? 32 then Some [N.lor n 0xA0]
  else if n <=? 255 then Some [0xD9; n]
  else if n <=? 65535 then Some (0xDA :: be_bytes 2 n)
  else if n <=? 4294967295 then Some (0xDB :: be_bytes 4 n)
  else None.
Definition wr_str (s : list N) : option (list N) :=
  match wr_str_header (N.of_nat (length s)) with Some h => Some (h ++ s) | None => None end.

Definition wr_array_header (n : N) : option (list N) :=
  if n <? 16 then Some [N.lor n 0x90]
  else if n <=? 65535 then Some (0xDC :: be_bytes 2 n)
  else if n <=? 4294967295 then Some (0xDD :: be_bytes 4 n)
  else None.
Definition wr_map_header (n : N) : option (list N) :=
  if n <? 16 then Some [N.lor n 0x80]
  else if n <=? 65535 then Some (0xDE :: be_bytes 2 n)
  else if n <=? 4294967295 then Some (0xDF :: be_bytes 4 n)
  else None.
Definition wr_bin_header (n : N) : option (list N) :=
  if n <=? 255 then Some [0xC4; n]
  else if n <=? 65535 then Some (0xC5 :: be_bytes 2 n)
  else if n <=? 4294967295 then Some (0xC6 :: be_bytes 4 n)
  else None.

(* WriteValue(const CBinTimestamp&): Seconds int64, Nanoseconds int32 (both as Z here; the casts to
   uint64_t are the explicit mod 2^64) *)
Definition wr_ts (secs nanos : Z) : list N :=
  let us := twos 64 secs in
  if N.shiftr us 34 =? 0 then
    let data64 := (N.lor (N.shiftl (twos 64 nanos) 34) us) mod 2 ^ 64 in
    if N.land data64 0xFFFFFFFF00000000 =? 0
    then 0xD6 :: 0xFF :: be_bytes 4 (data64 mod 2 ^ 32)
    else 0xD7 :: 0xFF :: be_bytes 8 data64
  else 0xC7 :: 12 :: 0xFF :: be_bytes 8 us ++ be_bytes 4 (twos 32 nanos).

(* ================= reader ================= *)

Inductive vtype := TUInt | TSInt | TMap | TArr | TStr | TNil | TUnknown | TBool | TBin | TExt
                 | TFloat | TDouble | TTimestamp.

Definition vtype_eqb (a b : vtype) : bool :=
  match a, b with
  | TUInt, TUInt | TSInt, TSInt | TMap, TMap | TArr, TArr | TStr, TStr | TNil, TNil | TUnknown, TUnknown
  | TBool, TBool | TBin, TBin | TExt, TExt | TFloat, TFloat | TDouble, TDouble | TTimestamp, TTimestamp => true
  | _, _ => false
  end.

Record meta := mkMeta { m_ty : vtype; m_fixed : N; m_data : N; m_ext : N }.

(* ByteCodeTable[b] *)
Definition byte_meta (b : N) : meta :=
  if b <? 0x80 then mkMeta TUInt 0 0 0
  else if b <? 0x90 then mkMeta TMap (b - 0x80) 0 0
  else if b <? 0xA0 then mkMeta TArr (b - 0x90) 0 0
  else if b <? 0xC0 then mkMeta TStr (b - 0xA0) 0 0
  else if b =? 0xC0 then mkMeta TNil 0 0 0
  else if b =? 0xC1 then mkMeta TUnknown 0 0 0
  else if b <=? 0xC3 then mkMeta TBool 0 0 0
  else if b =? 0xC4 then mkMeta TBin 0 0 1
  else if b =? 0xC5 then mkMeta TBin 0 0 2
  else if b =? 0xC6 then mkMeta TBin 0 0 4
  else if b =? 0xC7 then mkMeta TExt 0 1 1
  else if b =? 0xC8 then mkMeta TExt 0 1 2
  else if b =? 0xC9 then mkMeta TExt 0 1 4
  else if b =? 0xCA then mkMeta TFloat 0 4 0
  else if b =? 0xCB then mkMeta TDouble 0 8 0
  else if b =? 0xCC then mkMeta TUInt 0 1 0
  else if b =? 0xCD then mkMeta TUInt 0 2 0
  else if b =? 0xCE then mkMeta TUInt 0 4 0
  else if b =? 0xCF then mkMeta TUInt 0 8 0
  else if b =? 0xD0 then mkMeta TSInt 0 1 0
  else if b =? 0xD1 then mkMeta TSInt 0 2 0
  else if b =? 0xD2 then mkMeta TSInt 0 4 0
  else if b =? 0xD3 then mkMeta TSInt 0 8 0
  else if b =? 0xD4 then mkMeta TExt 1 1 0
  else if b =? 0xD5 then mkMeta TExt 2 1 0
  else if b =? 0xD6 then mkMeta TExt 4 1 0
  else if b =? 0xD7 then mkMeta TExt 8 1 0
  else if b =? 0xD8 then mkMeta TExt 16 1 0
  else if b =? 0xD9 then mkMeta TStr 0 0 1
  else if b =? 0xDA then mkMeta TStr 0 0 2
  else if b =? 0xDB then mkMeta TStr 0 0 4
  else if b =? 0xDC then mkMeta TArr 0 0 2
  else if b =? 0xDD then mkMeta TArr 0 0 4
  else if b =? 0xDE then mkMeta TMap 0 0 2
  else if b =? 0xDF then mkMeta TMap 0 0 4
  else mkMeta TSInt 0 0 0.

Inductive err := EParse | EMismatch | EOverflow | EInvalidArg | EInternal.

(* GetValue<T>: k big-endian bytes, or ParsingException *)
Definition get_value (k : N) (rest : list N) : option (N * list N) :=
  match take k rest with Some (s, r) => Some (be_val s, r) | None => None end.

(* ---- SkipValueImpl ---- *)
Inductive sres := SOk (rest : list N) | SErr (e : err) | SFuel.

(* "for (i = 0; i < cnt; ++i) step" on the position *)
Fixpoint skip_rep (step : list N -> sres) (g : nat) (cnt : N) (rest : list N) : sres :=
  if cnt =? 0 then SOk rest else
  match g with
  | O => SFuel
  | S g' => match step rest with
            | SOk r => skip_rep step g' (cnt - 1) r
            | e => e
            end
  end.

Definition is_sized (t : vtype) : bool :=
  match t with TStr | TBin | TExt => true | _ => false end.

Fixpoint skip_impl (fuel : nat) (rest : list N) {struct fuel} : sres :=
  match fuel with
  | O => SFuel
  | S f =>
    match rest with
    | [] => SErr EParse                                     (* "No more values to read" *)
    | b :: r1 =>
      let m := byte_meta b in
      if vtype_eqb (m_ty m) TUnknown then SErr EParse else      (* 0xC1: never used *)
      let hdr : option (N * N) :=                            (* (size, extSize) *)
        if negb (m_fixed m =? 0) then Some (m_data m, m_fixed m)
        else if negb (m_ext m =? 0) then
          match get_value (m_ext m) r1 with
          | Some (v, _) => Some (m_data m + m_ext m, v)
          | None => None
          end
        else Some (m_data m, 0) in
      match hdr with
      | None => SErr EParse
      | Some (size0, ext0) =>
        let size := if is_sized (m_ty m) then size0 + ext0 else size0 in
        let ext := if is_sized (m_ty m) then 0 else ext0 in
        match take size r1 with
        | None => SErr EParse                                (* "Unexpected end of input archive" *)
        | Some (_, r2) =>
          if ext =? 0 then SOk r2
          else match m_ty m with
               | TMap => skip_rep (skip_impl f) f (2 * ext) r2
               | TArr => skip_rep (skip_impl f) f ext r2
               | _ => SOk r2
               end
        end
      end
    end
  end.

Definition skip_value (rest : list N) : sres := skip_impl (S (length rest)) rest.

(* ---- policies ---- *)
Inductive pol := PThrow | PSkip.
Record opts := mkOpts { o_mismatch : pol; o_overflow : pol }.

Inductive rres (A : Type) :=
| ROk (v : A) (rest : list N)      (* returned true *)
| RNot (rest : list N)             (* returned false: value consumed/skipped, target untouched *)
| RErr (e : err)
| RFuel.
Arguments ROk {A}. Arguments RNot {A}. Arguments RErr {A}. Arguments RFuel {A}.

(* ---- ReadExtFamilyType ---- *)
Record extinfo := mkExt { x_vt : vtype; x_off : N; x_size : N; x_code : N }.

Definition nth_byte (rest : list N) (i : N) : option N := nth_error rest (N.to_nat i).

(* inl None = returned false (not an ext byte) *)
Definition read_ext_family (rest : list N) : option extinfo + err :=
  match rest with
  | [] => inr EParse
  | b :: r1 =>
    let m := byte_meta b in
    if negb (vtype_eqb (m_ty m) TExt) then inl None
    else if negb (m_fixed m =? 0) then
      let off := 1 + m_data m in
      if off <=? N.of_nat (length rest) then
        match nth_byte rest 1 with
        | Some c => inl (Some (mkExt (if c =? 0xFF then TTimestamp else TExt) off (m_fixed m) c))
        | None => inr EInternal
        end
      else inr EParse
    else if negb (m_ext m =? 0) then
      match get_value (m_ext m) r1 with
      | None => inr EParse
      | Some (sz, _) =>
        let off := 1 + m_data m + m_ext m in
        if off <=? N.of_nat (length rest) then
          match nth_byte rest (1 + m_ext m) with
          | Some c => inl (Some (mkExt (if c =? 0xFF then TTimestamp else TExt) off sz c))
          | None => inr EInternal
          end
        else inr EParse
      end
    else inr EInternal
  end.

(* ReadValueType *)
Definition read_value_type (rest : list N) : vtype + err :=
  match rest with
  | [] => inr EParse
  | b :: _ =>
    let m := byte_meta b in
    if vtype_eqb (m_ty m) TExt then
      match read_ext_family rest with
      | inl (Some x) => inl (x_vt x)
      | inl None => inl TExt
      | inr e => inr e
      end
    else inl (m_ty m)
  end.

(* HandleMismatchedTypesPolicy(inputData, pos, actualType, policy) followed by "return false" *)
Definition handle_mismatch {A} (o : opts) (actual : vtype + err) (rest : list N) : rres A :=
  match actual with
  | inr e => RErr e
  | inl t =>
    if negb (vtype_eqb t TNil) && (match o_mismatch o with PThrow => true | PSkip => false end)
    then RErr EMismatch
    else match skip_value rest with
         | SOk r => RNot r
         | SErr e => RErr e
         | SFuel => RFuel
         end
  end.

(* the mismatch path of the ReadValue overloads that first call ReadValueType() *)
Definition mismatch_via_type {A} (o : opts) (rest : list N) : rres A :=
  handle_mismatch o (read_value_type rest) rest.

(* ---- integer targets ---- *)
(* target arithmetic type: signedness and bit width; bool is (false, 1) *)
Record ity := mkIty { i_signed : bool; i_bits : N }.
Definition in_range (t : ity) (z : Z) : bool :=
  if i_signed t then ((- 2 ^ (Z.of_N (i_bits t) - 1) <=? z) && (z <? 2 ^ (Z.of_N (i_bits t) - 1)))%Z
  else ((0 <=? z) && (z <? 2 ^ Z.of_N (i_bits t)))%Z.

(* ConvertByPolicy on an integer source value already known as a mathematical integer
   (Convert::To(arith, arith) = exact range test: property C04, T_C04_int_conv) *)
Definition convert_int (o : opts) (t : ity) (z : Z) (rest : list N) : rres Z :=
  if in_range t z then ROk z rest
  else match o_overflow o with PThrow => RErr EOverflow | PSkip => RNot rest end.

Definition read_int (o : opts) (t : ity) (rest : list N) : rres Z :=
  match rest with
  | [] => RErr EParse
  | b :: r1 =>
    let fixed (k : N) (signed : bool) : rres Z :=
      match get_value k r1 with
      | None => RErr EParse
      | Some (v, r2) => convert_int o t (if signed then to_signed (8 * k) v else Z.of_N v) r2
      end in
    if (b <? 0x80) || (0xE0 <=? b) then convert_int o t (to_signed 8 b) r1
    else if b =? 0xCC then fixed 1 false
    else if b =? 0xCD then fixed 2 false
    else if b =? 0xCE then fixed 4 false
    else if b =? 0xCF then fixed 8 false
    else if b =? 0xD0 then fixed 1 true
    else if b =? 0xD1 then fixed 2 true
    else if b =? 0xD2 then fixed 4 true
    else if b =? 0xD3 then fixed 8 true
    else if b =? 0xC2 then convert_int o t 0 r1
    else if b =? 0xC3 then convert_int o t 1 r1
    else handle_mismatch o (inl (m_ty (byte_meta b))) rest
  end.

(* ---- nil ---- *)
Definition read_nil (o : opts) (rest : list N) : rres unit :=
  match rest with
  | [] => RErr EParse
  | b :: r1 => if b =? 0xC0 then ROk tt r1 else handle_mismatch o (inl (m_ty (byte_meta b))) rest
  end.

(* CMsgPackStreamReader::ReadValue(nullptr_t&) is the same function (since fix 'classifies a non-nil
   value for a nil target like the stream reader'); kept as a name for the driver *)
Definition read_nil_stream := read_nil.

(* ---- floating targets; narrowing double->float and widening float->double are the C++
   conversions (static_cast / ConvertByPolicy(double,float)), supplied by the caller ---- *)
Section Floats.
  Variable narrow : N -> option N.     (* None: std::out_of_range (non-finite or beyond float range) *)
  Variable widen : N -> N.

  Definition read_f32 (o : opts) (rest : list N) : rres N :=
    match rest with
    | [] => RErr EParse
    | b :: r1 =>
      if b =? 0xCA then
        match get_value 4 r1 with Some (v, r2) => ROk v r2 | None => RErr EParse end
      else if b =? 0xCB then
        match get_value 8 r1 with
        | None => RErr EParse
        | Some (v, r2) =>
          match narrow v with
          | Some f => ROk f r2
          | None => match o_overflow o with PThrow => RErr EOverflow | PSkip => RNot r2 end
          end
        end
      else mismatch_via_type o rest
    end.

  Definition read_f64 (o : opts) (rest : list N) : rres N :=
    match rest with
    | [] => RErr EParse
    | b :: r1 =>
      if b =? 0xCB then
        match get_value 8 r1 with Some (v, r2) => ROk v r2 | None => RErr EParse end
      else if b =? 0xCA then
        match get_value 4 r1 with Some (v, r2) => ROk (widen v) r2 | None => RErr EParse end
      else mismatch_via_type o rest
    end.
End Floats.

(* ---- strings ---- *)
Definition read_str (o : opts) (rest : list N) : rres (list N) :=
  match rest with
  | [] => RErr EParse
  | b :: r1 =>
    let body (sz : option (N * list N)) : rres (list N) :=
      match sz with
      | None => RErr EParse
      | Some (n, r2) =>
        match take n r2 with
        | Some (s, r3) => ROk s r3
        | None => RErr EParse
        end
      end in
    if N.land b 0xE0 =? 0xA0 then body (Some (N.land b 0x1F, r1))
    else if b =? 0xD9 then body (get_value 1 r1)
    else if b =? 0xDA then body (get_value 2 r1)
    else if b =? 0xDB then body (get_value 4 r1)
    else mismatch_via_type o rest
  end.

(* ---- sizes ---- *)
Definition read_size (o : opts) (fixmask fixtag c16 c32 : N) (rest : list N) : rres N :=
  match rest with
  | [] => RErr EParse
  | b :: r1 =>
    if N.land b 0xF0 =? fixtag then ROk (N.land b 0x0F) r1
    else if b =? c16 then match get_value 2 r1 with Some (n, r2) => ROk n r2 | None => RErr EParse end
    else if b =? c32 then match get_value 4 r1 with Some (n, r2) => ROk n r2 | None => RErr EParse end
    else mismatch_via_type o rest
  end.
Definition read_array_size (o : opts) := read_size o 0xF0 0x90 0xDC 0xDD.
Definition read_map_size (o : opts) := read_size o 0xF0 0x80 0xDE 0xDF.

Definition read_bin_size (o : opts) (rest : list N) : rres N :=
  match rest with
  | [] => RErr EParse
  | b :: r1 =>
    if b =? 0xC4 then match get_value 1 r1 with Some (n, r2) => ROk n r2 | None => RErr EParse end
    else if b =? 0xC5 then match get_value 2 r1 with Some (n, r2) => ROk n r2 | None => RErr EParse end
    else if b =? 0xC6 then match get_value 4 r1 with Some (n, r2) => ROk n r2 | None => RErr EParse end
    else mismatch_via_type o rest
  end.

Definition read_binary (rest : list N) : rres N :=
  match rest with [] => RErr EParse | b :: r => ROk b r end.

(* ---- timestamps: (Seconds : int64 as Z, Nanoseconds : int32 as Z) ---- *)
Definition read_ts (o : opts) (rest : list N) : rres (Z * Z) :=
  match read_ext_family rest with
  | inr e => RErr e
  | inl (Some x) =>
    if x_code x =? 0xFF then
      match take (x_off x) rest with
      | None => RErr EInternal
      | Some (_, r1) =>
        if x_size x =? 4 then
          match get_value 4 r1 with Some (v, r2) => ROk (Z.of_N v, 0%Z) r2 | None => RErr EParse end
        else if x_size x =? 8 then
          match get_value 8 r1 with
          | Some (v, r2) => ROk (Z.of_N (N.land v 0x00000003FFFFFFFF), to_signed 32 (N.shiftr v 34 mod 2 ^ 32)) r2
          | None => RErr EParse
          end
        else if x_size x =? 12 then
          match get_value 8 r1 with
          | None => RErr EParse
          | Some (s, r2) =>
            match get_value 4 r2 with
            | None => RErr EParse
            | Some (n, r3) => ROk (to_signed 64 s, to_signed 32 n) r3
            end
          end
        else RErr EParse                                   (* "Invalid size of timestamp" *)
      end
    else mismatch_via_type o rest
  | inl None => mismatch_via_type o rest
  end.
