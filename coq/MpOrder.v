(* MpOrder.v — byte order of the MessagePack codec: Memory::Reverse on 8-byte integers as written in
   memory_utils.h (rev64 of UtfModel.v: three mask-and-shift steps) is the byte swap, and therefore
   NativeToBigEndian followed by a raw copy of the object representation on the little-endian host emits
   exactly the big-endian bytes the writer / reader models (MpModel.v: be_bytes) take for granted; the
   2- and 4-byte instances come from rev16_spec / rev32_spec (UtfOrder.v). *)
From BS Require Import Base UtfSpec UtfModel UtfLemmas UtfProofs UtfOrder MpSpec MpLemmas.
From Coq Require Import ZifyBool ZifyN ZifyNat.
Local Open Scope N_scope.
Ltac Zify.zify_post_hook ::= Z.div_mod_to_equations.

(* ---------- bits of a value given as two halves ---------- *)

Lemma testbit_small b n i : b < 2 ^ n -> n <= i -> N.testbit b i = false.
Proof.
  intros Hb Hi. replace b with (b mod 2 ^ n) by (apply N.mod_small; exact Hb).
  apply N.mod_pow2_bits_high. exact Hi.
Qed.

Lemma testbit_split a b n i : b < 2 ^ n ->
  N.testbit (a * 2 ^ n + b) i = if i <? n then N.testbit b i else N.testbit a (i - n).
Proof.
  intros Hb. rewrite <- (lor_add a b n Hb), N.lor_spec.
  destruct (N.ltb_spec i n) as [Hi|Hi].
  - rewrite N.mul_pow2_bits_low by exact Hi. reflexivity.
  - rewrite N.mul_pow2_bits_high by exact Hi. rewrite (testbit_small b n i Hb Hi). apply orb_false_r.
Qed.

Lemma lxor_lt_pow2 b d n : b < 2 ^ n -> d < 2 ^ n -> N.lxor b d < 2 ^ n.
Proof.
  intros Hb Hd.
  assert (E : N.lxor b d = N.lxor b d mod 2 ^ n).
  { apply N.bits_inj. intros i. destruct (N.ltb_spec i n) as [Hi|Hi].
    - rewrite N.mod_pow2_bits_low by exact Hi. reflexivity.
    - rewrite N.mod_pow2_bits_high by exact Hi. rewrite N.lxor_spec.
      rewrite (testbit_small b n i Hb Hi), (testbit_small d n i Hd Hi). reflexivity. }
  rewrite E. apply N.mod_upper_bound. apply N.pow_nonzero. discriminate.
Qed.

Lemma lxor_split a b c d n : b < 2 ^ n -> d < 2 ^ n ->
  N.lxor (a * 2 ^ n + b) (c * 2 ^ n + d) = N.lxor a c * 2 ^ n + N.lxor b d.
Proof.
  intros Hb Hd. apply N.bits_inj. intros i.
  rewrite N.lxor_spec, !testbit_split by (try apply lxor_lt_pow2; assumption).
  destruct (i <? n); rewrite N.lxor_spec; reflexivity.
Qed.

(* ---------- one mask-and-shift step of Reverse:  ((v & M) << k) ^ ((v >> k) & M)  ---------- *)

Definition pstep (M k v : N) : N := N.lxor (N.shiftl (N.land v M) k) (N.land (N.shiftr v k) M).

(* the step acts on both halves independently when the mask repeats in both halves and leaves k free bits *)
Lemma pstep_split n k m x y : k <= n -> x < 2 ^ n -> y < 2 ^ n -> m < 2 ^ (n - k) ->
  pstep (m * 2 ^ n + m) k (x * 2 ^ n + y) = pstep m k x * 2 ^ n + pstep m k y.
Proof.
  intros Hk Hx Hy Hm. unfold pstep.
  assert (Hpow : 2 ^ n = 2 ^ (n - k) * 2 ^ k) by (rewrite <- N.pow_add_r; f_equal; lia).
  assert (Hk0 : 0 < 2 ^ k) by (apply N.neq_0_lt_0, N.pow_nonzero; discriminate).
  assert (Hnk0 : 0 < 2 ^ (n - k)) by (apply N.neq_0_lt_0, N.pow_nonzero; discriminate).
  assert (Hmn : m < 2 ^ n) by nia.
  assert (Hym : N.land y m < 2 ^ (n - k)).
  { rewrite N.land_comm. apply land_lt_pow2. exact Hm. }
  (* first operand *)
  assert (E1 : N.shiftl (N.land (x * 2 ^ n + y) (m * 2 ^ n + m)) k
               = N.shiftl (N.land x m) k * 2 ^ n + N.shiftl (N.land y m) k).
  { rewrite land_split by assumption. rewrite !shiftl_mul. lia. }
  assert (B1 : N.shiftl (N.land y m) k < 2 ^ n).
  { rewrite shiftl_mul. nia. }
  (* second operand *)
  assert (E2 : N.land (N.shiftr (x * 2 ^ n + y) k) (m * 2 ^ n + m)
               = N.land (N.shiftr x k) m * 2 ^ n + N.land (N.shiftr y k) m).
  { rewrite !shiftr_div.
    set (p := 2 ^ k) in *. set (q := 2 ^ (n - k)) in *.
    assert (Hdiv : (x * 2 ^ n + y) / p = (x / p) * 2 ^ n + ((x mod p) * q + y / p)).
    { rewrite Hpow. clearbody p q.
      assert (Ex : x = p * (x / p) + x mod p) by (apply N.div_mod; lia).
      assert (Ey : y = p * (y / p) + y mod p) by (apply N.div_mod; lia).
      assert (Hxm : x mod p < p) by (apply N.mod_lt; lia).
      assert (Hym' : y mod p < p) by (apply N.mod_lt; lia).
      set (xd := x / p) in *. set (xm := x mod p) in *. set (yd := y / p) in *. set (ym := y mod p) in *.
      clearbody xd xm yd ym.
      symmetry. apply (N.div_unique _ p _ ym); [exact Hym'|]. rewrite Ex, Ey. nia. }
    rewrite Hdiv.
    assert (Hyd : y / p < q).
    { apply N.div_lt_upper_bound; [lia|]. rewrite N.mul_comm, <- Hpow. exact Hy. }
    assert (Hlow : (x mod p) * q + y / p < 2 ^ n).
    { rewrite Hpow. assert (x mod p < p) by (apply N.mod_lt; lia). nia. }
    rewrite land_split by assumption.
    f_equal.
    replace m with (0 * q + m) at 1 by lia. unfold q.
    rewrite land_split by assumption. rewrite N.land_0_r. lia. }
  assert (B2 : N.land (N.shiftr y k) m < 2 ^ n).
  { rewrite N.land_comm. apply land_lt_pow2. exact Hmn. }
  rewrite E1, E2. apply lxor_split; assumption.
Qed.

(* swapping the two halves: mask = all ones of the low half, shift = its width *)
Lemma pstep_swap n v : v < 2 ^ (2 * n) ->
  pstep (N.ones n) n v = (v mod 2 ^ n) * 2 ^ n + v / 2 ^ n.
Proof.
  intros Hv. unfold pstep. rewrite !land_mask, shiftl_mul, shiftr_div.
  assert (H0 : 0 < 2 ^ n) by (apply N.neq_0_lt_0, N.pow_nonzero; discriminate).
  assert (Hhi : v / 2 ^ n < 2 ^ n).
  { apply N.div_lt_upper_bound; [lia|]. rewrite <- N.pow_add_r. replace (n + n) with (2 * n) by lia. exact Hv. }
  rewrite (N.mod_small (v / 2 ^ n)) by exact Hhi.
  apply lxor_add. exact Hhi.
Qed.

(* ---------- Reverse on 8 bytes ---------- *)

Definition swap16 (a : N) : N := (a mod 256) * 256 + a / 256.
Definition swap32 (a : N) : N := swap16 (a mod 65536) * 65536 + swap16 (a / 65536).
Definition swap64 (a : N) : N := swap32 (a mod 4294967296) * 4294967296 + swap32 (a / 4294967296).

Lemma swap16_lt a : a < 65536 -> swap16 a < 65536.
Proof. unfold swap16. lia. Qed.
Lemma swap32_lt a : a < 4294967296 -> swap32 a < 4294967296.
Proof.
  intros H. unfold swap32. pose proof (swap16_lt (a mod 65536)). pose proof (swap16_lt (a / 65536)). lia.
Qed.

Lemma pstep8_16 a : a < 65536 -> pstep 0xff 8 a = swap16 a.
Proof.
  intros H. change 0xff with (N.ones 8). rewrite (pstep_swap 8 a) by exact H. reflexivity.
Qed.

Lemma pstep8_32 x y : x < 65536 -> y < 65536 ->
  pstep 0x00ff00ff 8 (x * 65536 + y) = swap16 x * 65536 + swap16 y.
Proof.
  intros Hx Hy. change 0x00ff00ff with (0xff * 2 ^ 16 + 0xff). change 65536 with (2 ^ 16).
  rewrite pstep_split; [| lia | exact Hx | exact Hy | cbn; lia].
  change (2 ^ 16) with 65536 in *. rewrite !pstep8_16 by assumption. reflexivity.
Qed.

Lemma pstep8_64 a b c d : a < 65536 -> b < 65536 -> c < 65536 -> d < 65536 ->
  pstep 0x00ff00ff00ff00ff 8 ((a * 65536 + b) * 4294967296 + (c * 65536 + d))
  = (swap16 a * 65536 + swap16 b) * 4294967296 + (swap16 c * 65536 + swap16 d).
Proof.
  intros Ha Hb Hc Hd.
  change 0x00ff00ff00ff00ff with (0x00ff00ff * 2 ^ 32 + 0x00ff00ff). change 4294967296 with (2 ^ 32).
  rewrite pstep_split; [| lia | change (2 ^ 32) with 4294967296; lia | change (2 ^ 32) with 4294967296; lia | cbn; lia].
  rewrite !pstep8_32 by assumption. reflexivity.
Qed.

Lemma pstep16_32 x : x < 4294967296 -> pstep 0xffff 16 x = (x mod 65536) * 65536 + x / 65536.
Proof.
  intros H. change 0xffff with (N.ones 16). rewrite (pstep_swap 16 x) by exact H. reflexivity.
Qed.

Lemma pstep16_64 x y : x < 4294967296 -> y < 4294967296 ->
  pstep 0x0000ffff0000ffff 16 (x * 4294967296 + y)
  = ((x mod 65536) * 65536 + x / 65536) * 4294967296 + ((y mod 65536) * 65536 + y / 65536).
Proof.
  intros Hx Hy. change 0x0000ffff0000ffff with (0xffff * 2 ^ 32 + 0xffff). change 4294967296 with (2 ^ 32).
  rewrite pstep_split; [| lia | exact Hx | exact Hy | cbn; lia].
  change (2 ^ 32) with 4294967296 in *. rewrite !pstep16_32 by assumption. reflexivity.
Qed.

Lemma rev64_pstep v : rev64 v =
  (pstep 0x00ff00ff00ff00ff 8
     ((pstep 0x0000ffff0000ffff 16
        ((pstep 0x00000000ffffffff 32 v) mod 18446744073709551616)) mod 18446744073709551616))
  mod 18446744073709551616.
Proof. reflexivity. Qed.

Theorem rev64_spec v : v < 18446744073709551616 -> rev64 v = swap64 v.
Proof.
  intros Hv. rewrite rev64_pstep.
  change 0x00000000ffffffff with (N.ones 32).
  rewrite (pstep_swap 32 v) by exact Hv. change (2 ^ 32) with 4294967296.
  set (lo := v mod 4294967296). set (hi := v / 4294967296).
  assert (Hlo : lo < 4294967296) by (subst lo; lia).
  assert (Hhi : hi < 4294967296) by (subst hi; lia).
  unfold swap64. fold lo hi. clearbody lo hi.
  rewrite (N.mod_small (lo * 4294967296 + hi)) by lia.
  rewrite pstep16_64 by assumption.
  set (a := lo mod 65536). set (b := lo / 65536). set (c := hi mod 65536). set (d := hi / 65536).
  assert (Hb4 : a < 65536 /\ b < 65536 /\ c < 65536 /\ d < 65536) by (subst a b c d; lia).
  unfold swap32. fold a b c d. clearbody a b c d. destruct Hb4 as [Ha [Hb [Hc Hd]]].
  rewrite (N.mod_small ((a * 65536 + b) * 4294967296 + (c * 65536 + d))) by lia.
  rewrite pstep8_64 by assumption.
  pose proof (swap16_lt a Ha). pose proof (swap16_lt b Hb). pose proof (swap16_lt c Hc). pose proof (swap16_lt d Hd).
  apply N.mod_small. lia.
Qed.

(* ---------- object representation on the little-endian host ---------- *)

(* the k bytes of v in memory order on a little-endian machine (what a raw copy of the integer emits) *)
Fixpoint le_bytes (k : nat) (v : N) : list N :=
  match k with
  | O => []
  | S k' => v mod 256 :: le_bytes k' (v / 256)
  end.

Lemma le_bytes_rev_be k : forall v, le_bytes k v = rev (be_bytes k v).
Proof.
  induction k as [|k IH]; intros v; cbn [le_bytes be_bytes]; [reflexivity|].
  rewrite rev_app_distr, IH. reflexivity.
Qed.

Lemma swap16_bytes a : a < 65536 -> le_bytes 2 (swap16 a) = be_bytes 2 a.
Proof.
  intros H. unfold swap16. cbn [le_bytes be_bytes app].
  f_equal; [lia|]. f_equal. lia.
Qed.

Lemma le_bytes_app j k v : v < 256 ^ N.of_nat j ->
  forall w, le_bytes (j + k) (w * 256 ^ N.of_nat j + v) = le_bytes j v ++ le_bytes k w.
Proof.
  revert v. induction j as [|j IH]; intros v Hv w.
  - cbn [le_bytes Nat.add app]. cbn in Hv. replace (w * 256 ^ N.of_nat 0 + v) with w by (cbn; lia). reflexivity.
  - cbn [Nat.add le_bytes app].
    assert (Hp : 256 ^ N.of_nat (S j) = 256 * 256 ^ N.of_nat j).
    { rewrite Nat2N.inj_succ, N.pow_succ_r'. reflexivity. }
    rewrite Hp in *.
    set (P := 256 ^ N.of_nat j) in *. assert (HP : 0 < P) by (subst P; apply N.neq_0_lt_0, N.pow_nonzero; discriminate).
    clearbody P.
    f_equal; [lia|].
    replace ((w * (256 * P) + v) / 256) with (w * P + v / 256) by lia.
    apply IH. lia.
Qed.

Lemma be_bytes_app j k v : v < 256 ^ N.of_nat j ->
  forall w, be_bytes (j + k) (w * 256 ^ N.of_nat j + v) = be_bytes k w ++ be_bytes j v.
Proof.
  intros Hv w. rewrite <- (rev_involutive (be_bytes (j + k) _)), <- le_bytes_rev_be, le_bytes_app by exact Hv.
  rewrite rev_app_distr, !le_bytes_rev_be, !rev_involutive. reflexivity.
Qed.

Lemma swap32_bytes a : a < 4294967296 -> le_bytes 4 (swap32 a) = be_bytes 4 a.
Proof.
  intros H. unfold swap32.
  pose proof (swap16_lt (a / 65536)) as H1.
  change 4%nat with (2 + 2)%nat. change 65536 with (256 ^ N.of_nat 2) at 2.
  rewrite le_bytes_app by (apply H1; lia).
  rewrite !swap16_bytes by lia.
  rewrite (N.div_mod a 65536) at 3 by lia. rewrite (N.mul_comm 65536). change 65536 with (256 ^ N.of_nat 2) at 5.
  rewrite be_bytes_app by (change (256 ^ N.of_nat 2) with 65536; lia). reflexivity.
Qed.

Lemma swap64_bytes a : a < 18446744073709551616 -> le_bytes 8 (swap64 a) = be_bytes 8 a.
Proof.
  intros H. unfold swap64.
  pose proof (swap32_lt (a / 4294967296)) as H1.
  change 8%nat with (4 + 4)%nat. change 4294967296 with (256 ^ N.of_nat 4) at 2.
  rewrite le_bytes_app by (apply H1; lia).
  rewrite !swap32_bytes by lia.
  rewrite (N.div_mod a 4294967296) at 3 by lia. rewrite (N.mul_comm 4294967296).
  change 4294967296 with (256 ^ N.of_nat 4) at 5.
  rewrite be_bytes_app by (change (256 ^ N.of_nat 4) with 4294967296; lia). reflexivity.
Qed.

(* NativeToBigEndian (= Reverse on this host) followed by a raw copy emits the big-endian bytes *)
Theorem rev64_big_endian v : v < 18446744073709551616 -> le_bytes 8 (rev64 v) = be_bytes 8 v.
Proof. intros H. rewrite rev64_spec by exact H. apply swap64_bytes. exact H. Qed.

Theorem rev32_big_endian v : v < 4294967296 -> le_bytes 4 (rev32 v) = be_bytes 4 v.
Proof.
  intros H. rewrite rev32_spec by exact H. rewrite <- (swap32_bytes v H). f_equal.
  unfold swap32, swap16. lia.
Qed.

Theorem rev16_big_endian v : v < 65536 -> le_bytes 2 (rev16 v) = be_bytes 2 v.
Proof. intros H. rewrite rev16_spec by exact H. apply swap16_bytes. exact H. Qed.

(* BigEndianToNative is the same function: reading is the inverse of writing *)
Lemma swap16_invol a : a < 65536 -> swap16 (swap16 a) = a.
Proof. intros H. unfold swap16. lia. Qed.

Lemma pair_mod x y : y < 65536 -> (x * 65536 + y) mod 65536 = y.
Proof. intros H. lia. Qed.
Lemma pair_div x y : y < 65536 -> (x * 65536 + y) / 65536 = x.
Proof. intros H. lia. Qed.
Lemma pair_mod32 x y : y < 4294967296 -> (x * 4294967296 + y) mod 4294967296 = y.
Proof. intros H. lia. Qed.
Lemma pair_div32 x y : y < 4294967296 -> (x * 4294967296 + y) / 4294967296 = x.
Proof. intros H. lia. Qed.

Lemma swap32_invol a : a < 4294967296 -> swap32 (swap32 a) = a.
Proof.
  intros H. unfold swap32 at 2.
  set (lo := a mod 65536). set (hi := a / 65536).
  assert (Ea : a = hi * 65536 + lo) by (subst lo hi; lia).
  assert (Hlo : lo < 65536) by (subst lo; lia). assert (Hhi : hi < 65536) by (subst hi; lia).
  clearbody lo hi. pose proof (swap16_lt hi Hhi) as Hs.
  unfold swap32. rewrite pair_mod, pair_div by exact Hs.
  rewrite !swap16_invol by assumption. symmetry. exact Ea.
Qed.

Lemma swap64_lt a : a < 18446744073709551616 -> swap64 a < 18446744073709551616.
Proof.
  intros H. unfold swap64. pose proof (swap32_lt (a mod 4294967296)). pose proof (swap32_lt (a / 4294967296)). lia.
Qed.

Lemma swap64_invol a : a < 18446744073709551616 -> swap64 (swap64 a) = a.
Proof.
  intros H. unfold swap64 at 2.
  set (lo := a mod 4294967296). set (hi := a / 4294967296).
  assert (Ea : a = hi * 4294967296 + lo) by (subst lo hi; lia).
  assert (Hlo : lo < 4294967296) by (subst lo; lia). assert (Hhi : hi < 4294967296) by (subst hi; lia).
  clearbody lo hi. pose proof (swap32_lt hi Hhi) as Hs.
  unfold swap64. rewrite pair_mod32, pair_div32 by exact Hs.
  rewrite !swap32_invol by assumption. symmetry. exact Ea.
Qed.

Theorem rev64_involutive v : v < 18446744073709551616 -> rev64 (rev64 v) = v.
Proof.
  intros H. rewrite (rev64_spec v H). rewrite rev64_spec by (apply swap64_lt; exact H).
  apply swap64_invol. exact H.
Qed.
