(* MpReader.v — the reader model against the reference decoder: SkipValueImpl consumes exactly one
   value (C05), and accepts/rejects exactly what the reference decoder does (C07). *)
From BS Require Import Base MpSpec MpModel MpLemmas.
From Coq Require Import ZifyBool ZifyN ZifyNat.
Local Open Scope N_scope.
Ltac Zify.zify_post_hook ::= Z.div_mod_to_equations.

(* ---------- a common classification of the first byte ---------- *)
Inductive hdr :=
| HVal (v : mpv)                         (* complete in one byte *)
| HBad                                   (* 0xC1 *)
| HNum (k : N) (mk : N -> mpv)           (* k payload bytes, value from their big-endian reading *)
| HStr (n : N) | HBin0                   (* fixstr n *)
| HLenStr (klen : N) | HLenBin (klen : N)
| HExtFix (n : N) | HLenExt (klen : N)
| HArr (n : N) | HMap (n : N) | HLenArr (klen : N) | HLenMap (klen : N).

Definition classify (b : N) : hdr :=
  if b <? 0x80 then HVal (MInt (Z.of_N b))
  else if b <? 0x90 then HMap (b - 0x80)
  else if b <? 0xA0 then HArr (b - 0x90)
  else if b <? 0xC0 then HStr (b - 0xA0)
  else if b =? 0xC0 then HVal MNil
  else if b =? 0xC1 then HBad
  else if b =? 0xC2 then HVal (MBool false)
  else if b =? 0xC3 then HVal (MBool true)
  else if b =? 0xC4 then HLenBin 1
  else if b =? 0xC5 then HLenBin 2
  else if b =? 0xC6 then HLenBin 4
  else if b =? 0xC7 then HLenExt 1
  else if b =? 0xC8 then HLenExt 2
  else if b =? 0xC9 then HLenExt 4
  else if b =? 0xCA then HNum 4 MF32
  else if b =? 0xCB then HNum 8 MF64
  else if b =? 0xCC then HNum 1 (fun v => MInt (Z.of_N v))
  else if b =? 0xCD then HNum 2 (fun v => MInt (Z.of_N v))
  else if b =? 0xCE then HNum 4 (fun v => MInt (Z.of_N v))
  else if b =? 0xCF then HNum 8 (fun v => MInt (Z.of_N v))
  else if b =? 0xD0 then HNum 1 (fun v => MInt (to_signed 8 v))
  else if b =? 0xD1 then HNum 2 (fun v => MInt (to_signed 16 v))
  else if b =? 0xD2 then HNum 4 (fun v => MInt (to_signed 32 v))
  else if b =? 0xD3 then HNum 8 (fun v => MInt (to_signed 64 v))
  else if b =? 0xD4 then HExtFix 1
  else if b =? 0xD5 then HExtFix 2
  else if b =? 0xD6 then HExtFix 4
  else if b =? 0xD7 then HExtFix 8
  else if b =? 0xD8 then HExtFix 16
  else if b =? 0xD9 then HLenStr 1
  else if b =? 0xDA then HLenStr 2
  else if b =? 0xDB then HLenStr 4
  else if b =? 0xDC then HLenArr 2
  else if b =? 0xDD then HLenArr 4
  else if b =? 0xDE then HLenMap 2
  else if b =? 0xDF then HLenMap 4
  else HVal (MInt (Z.of_N b - 256)).

Definition ext_dec (n : N) (d : list N) : option (mpv * list N) :=
  bind (take 1 d) (fun '(t, r) => bind (take n r) (fun '(s, r') => Some (MExt (be_val t) s, r'))).

(* the reference decoder, by class *)
Definition decode_by (f : nat) (h : hdr) (d : list N) : option (mpv * list N) :=
  let arr cnt d := bind (rep (decode_ref f) f cnt d) (fun '(vs, r) => Some (MArr vs, r)) in
  let map cnt d := bind (rep (step_pair (decode_ref f)) f cnt d) (fun '(kvs, r) => Some (MMap kvs, r)) in
  match h with
  | HVal v => Some (v, d)
  | HBad => None
  | HNum k mk => bind (take k d) (fun '(s, r) => Some (mk (be_val s), r))
  | HStr n => bind (take n d) (fun '(s, r) => Some (MStr s, r))
  | HBin0 => None
  | HLenStr kl => bind (take_len kl d) (fun '(n, r) => bind (take n r) (fun '(s, r') => Some (MStr s, r')))
  | HLenBin kl => bind (take_len kl d) (fun '(n, r) => bind (take n r) (fun '(s, r') => Some (MBin s, r')))
  | HExtFix n => ext_dec n d
  | HLenExt kl => bind (take_len kl d) (fun '(n, r) => ext_dec n r)
  | HArr n => arr n d
  | HMap n => map n d
  | HLenArr kl => bind (take_len kl d) (fun '(n, r) => arr n r)
  | HLenMap kl => bind (take_len kl d) (fun '(n, r) => map n r)
  end.

(* SkipValueImpl, by class *)
Definition skip_by (f : nat) (h : hdr) (d : list N) : sres :=
  let skip_n cnt r := skip_rep (skip_impl f) f cnt r in
  let sized (fixedpart : N) (kl : N) :=
    match get_value kl d with
    | None => SErr EParse
    | Some (n, _) => match take (fixedpart + kl + n) d with Some (_, r) => SOk r | None => SErr EParse end
    end in
  match h with
  | HVal _ => SOk d
  | HBad => SErr EParse
  | HNum k _ => match take k d with Some (_, r) => SOk r | None => SErr EParse end
  | HStr n => match take n d with Some (_, r) => SOk r | None => SErr EParse end
  | HBin0 => SErr EParse
  | HLenStr kl | HLenBin kl => sized 0 kl
  | HExtFix n => match take (1 + n) d with Some (_, r) => SOk r | None => SErr EParse end
  | HLenExt kl => sized 1 kl
  | HArr n => skip_n n d
  | HMap n => skip_n (2 * n) d
  | HLenArr kl =>
    match get_value kl d with
    | None => SErr EParse
    | Some (n, r) => skip_n n r
    end
  | HLenMap kl =>
    match get_value kl d with
    | None => SErr EParse
    | Some (n, r) => skip_n (2 * n) r
    end
  end.

Ltac split_first_byte b :=
  repeat match goal with
  | |- context [if (b <? ?c) then _ else _] => destruct (b <? c) eqn:?
  | |- context [if (b <=? ?c) then _ else _] => destruct (b <=? c) eqn:?
  | |- context [if (b =? ?c) then _ else _] =>
      let E := fresh "E" in destruct (b =? c) eqn:E; [apply N.eqb_eq in E; subst b|]
  end.

Lemma decode_ref_by f b d : decode_ref (S f) (b :: d) = decode_by f (classify b) d.
Proof.
  unfold classify. cbn [decode_ref]. split_first_byte b; reflexivity.
Qed.

Lemma take_0 d : take 0 d = Some ([], d).
Proof. unfold take. replace (0 <=? N.of_nat (length d)) with true by (symmetry; lia). reflexivity. Qed.

Lemma skip_rep_0 step g d : skip_rep step g 0 d = SOk d.
Proof. destruct g; reflexivity. Qed.

Lemma skip_rep_if step g n d :
  (if n =? 0 then SOk d else skip_rep step g n d) = skip_rep step g n d.
Proof. destruct (n =? 0) eqn:E; [|reflexivity]. apply N.eqb_eq in E. subst n. symmetry. apply skip_rep_0. Qed.

Lemma skip_rep_if2 step g n d :
  (if n =? 0 then SOk d else skip_rep step g (2 * n) d) = skip_rep step g (2 * n) d.
Proof. destruct (n =? 0) eqn:E; [|reflexivity]. apply N.eqb_eq in E. subst n. symmetry. apply skip_rep_0. Qed.

Lemma get_value_take k d n r : get_value k d = Some (n, r) -> exists s, take k d = Some (s, r) /\ n = be_val s.
Proof.
  unfold get_value. destruct (take k d) as [[s r']|]; [|discriminate].
  intros H. injection H as <- <-. exists s. split; reflexivity.
Qed.

Lemma skip_impl_by f b d : skip_impl (S f) (b :: d) = skip_by f (classify b) d.
Proof.
  cbn [skip_impl]. unfold classify, byte_meta. split_first_byte b.
  all: try lia.
  all: cbn [m_ty m_fixed m_data m_ext vtype_eqb is_sized negb skip_by N.eqb Pos.eqb N.add
            N.leb N.compare Pos.compare Pos.compare_cont].
  all: rewrite ?take_0, ?skip_rep_if.
  all: try reflexivity.
  all: repeat match goal with
       | |- context [if negb (?x =? 0) then _ else _] => destruct (x =? 0) eqn:?; cbn [negb N.eqb N.add]
       | |- context [match get_value ?k ?dd with _ => _ end] =>
           let E := fresh "EG" in destruct (get_value k dd) as [[? ?]|] eqn:E;
           [apply get_value_take in E; destruct E as [? [E ?]]; rewrite ?E|]
       end; rewrite ?take_0, ?skip_rep_if; try reflexivity.
  all: repeat match goal with
       | H : (?x =? 0) = true |- _ => apply N.eqb_eq in H; rewrite ?H
       end; rewrite ?take_0, ?skip_rep_0; try reflexivity.
  all: apply skip_rep_if2.
Qed.

(* ---------- take arithmetic ---------- *)
Lemma take_length k d s r : take k d = Some (s, r) -> (length d = N.to_nat k + length r)%nat.
Proof.
  intros H. apply take_some in H. destruct H as [-> Hk]. rewrite app_length. lia.
Qed.

Lemma take_add k n d a r : take k d = Some (a, r) ->
  take (k + n) d = match take n r with Some (s, r') => Some (a ++ s, r') | None => None end.
Proof.
  intros H. apply take_some in H. destruct H as [-> Hk].
  destruct (take n r) as [[s r']|] eqn:E.
  - apply take_some in E. destruct E as [-> Hn]. rewrite app_assoc.
    apply take_app_n. rewrite app_length. lia.
  - apply take_none in E. unfold take. rewrite app_length.
    replace (k + n <=? N.of_nat (length a + length r)) with false by (symmetry; lia). reflexivity.
Qed.

Lemma take_add_none k n d : take k d = None -> take (k + n) d = None.
Proof.
  intros H. apply take_none in H. unfold take.
  replace (k + n <=? N.of_nat (length d)) with false by (symmetry; lia). reflexivity.
Qed.

(* ---------- progress ---------- *)
Lemma rep_le {A} (step : list N -> option (A * list N)) :
  (forall d v r, step d = Some (v, r) -> (length r <= length d)%nat) ->
  forall g cnt d vs r, rep step g cnt d = Some (vs, r) -> (length r <= length d)%nat.
Proof.
  intros Hs. induction g as [|g IH]; intros cnt d vs r H; cbn [rep] in H.
  - destruct (cnt =? 0); [injection H as _ <-; lia | discriminate].
  - destruct (cnt =? 0); [injection H as _ <-; lia|].
    destruct (step d) as [[v r1]|] eqn:E1; [|discriminate].
    destruct (rep step g (cnt - 1) r1) as [[vs' r2]|] eqn:E2; [|discriminate].
    injection H as _ <-. apply Hs in E1. apply IH in E2. lia.
Qed.

Lemma step_pair_le {A} (step : list N -> option (A * list N)) :
  (forall d v r, step d = Some (v, r) -> (length r <= length d)%nat) ->
  forall d v r, step_pair step d = Some (v, r) -> (length r <= length d)%nat.
Proof.
  intros Hs d v r H. unfold step_pair in H.
  destruct (step d) as [[k r1]|] eqn:E1; [|discriminate].
  destruct (step r1) as [[x r2]|] eqn:E2; [|discriminate].
  injection H as _ <-. apply Hs in E1. apply Hs in E2. lia.
Qed.

Ltac take_cases :=
  repeat match goal with
  | H : context [take_len ?k ?d] |- _ => unfold take_len in H
  | H : context [match take ?k ?d with _ => _ end] |- _ =>
      let E := fresh "ET" in destruct (take k d) as [[? ?]|] eqn:E; cbn [bind] in H; [apply take_length in E|]
  | H : context [bind (take ?k ?d) _] |- _ =>
      let E := fresh "ET" in destruct (take k d) as [[? ?]|] eqn:E; cbn [bind] in H; [apply take_length in E|]
  end.

Lemma decode_by_le f : 
  (forall d v r, decode_ref f d = Some (v, r) -> (length r <= length d)%nat) ->
  forall h d v r, decode_by f h d = Some (v, r) -> (length r <= length d)%nat.
Proof.
  intros IH h d v r H.
  pose proof (rep_le (decode_ref f) IH) as Hrep.
  pose proof (rep_le (step_pair (decode_ref f)) (step_pair_le _ IH)) as Hrep2.
  destruct h; cbn [decode_by] in H; unfold ext_dec in H; take_cases; try discriminate.
  all: try (injection H as _ <-; lia).
  all: repeat match goal with
       | H : context [bind (rep ?s ?g ?c ?dd) _] |- _ =>
           let E := fresh "ER" in destruct (rep s g c dd) as [[? ?]|] eqn:E; cbn [bind] in H; [|discriminate]
       end.
  all: try (injection H as _ <-).
  all: try (apply Hrep in ER; lia).
  all: try (apply Hrep2 in ER; lia).
Qed.

Lemma decode_progress f : forall d v r, decode_ref f d = Some (v, r) -> (length r < length d)%nat.
Proof.
  induction f as [|f IH]; intros d v r H; [discriminate|].
  destruct d as [|b d]; [discriminate|]. rewrite decode_ref_by in H.
  apply decode_by_le in H; [cbn [length]; lia|].
  intros d' v' r' H'. apply IH in H'. lia.
Qed.

(* ---------- SkipValueImpl agrees with the reference decoder ---------- *)
Definition agrees (o : option (mpv * list N)) (s : sres) : Prop :=
  match o with
  | Some (_, r) => s = SOk r
  | None => exists e, s = SErr e
  end.

Section Agree.
  Variable f : nat.
  Hypothesis IH : forall d, (length d < f)%nat -> agrees (decode_ref f d) (skip_impl f d).

  Lemma rep_agree : forall g cnt d, (length d < f)%nat -> (length d < g)%nat ->
    match rep (decode_ref f) g cnt d with
    | Some (_, r) => skip_rep (skip_impl f) g cnt d = SOk r
    | None => exists e, skip_rep (skip_impl f) g cnt d = SErr e
    end.
  Proof.
    induction g as [|g IHg]; intros cnt d Hf Hg; [lia|].
    cbn [rep skip_rep]. destruct (cnt =? 0); [reflexivity|].
    pose proof (IH d Hf) as Hd. unfold agrees in Hd.
    destruct (decode_ref f d) as [[v r1]|] eqn:E1.
    - rewrite Hd. apply decode_progress in E1.
      specialize (IHg (cnt - 1) r1). 
      destruct (rep (decode_ref f) g (cnt - 1) r1) as [[vs r2]|]; apply IHg; lia.
    - destruct Hd as [e ->]. exists e. reflexivity.
  Qed.

  (* two skips per key/value pair; the skip side spends two units of its own fuel per pair *)
  Lemma rep_pair_agree : forall g cnt d g2, (length d < f)%nat -> (length d < g)%nat -> (length d < g2)%nat ->
    match rep (step_pair (decode_ref f)) g cnt d with
    | Some (_, r) => skip_rep (skip_impl f) g2 (2 * cnt) d = SOk r
    | None => exists e, skip_rep (skip_impl f) g2 (2 * cnt) d = SErr e
    end.
  Proof.
    induction g as [|g IHg]; intros cnt d g2 Hf Hg Hg2; [lia|].
    cbn [rep]. destruct (cnt =? 0) eqn:E0.
    { apply N.eqb_eq in E0. subst cnt. apply skip_rep_0. }
    apply N.eqb_neq in E0.
    destruct g2 as [|g2]; [lia|]. cbn [skip_rep].
    replace (2 * cnt =? 0) with false by (symmetry; lia).
    assert (Esp : step_pair (decode_ref f) d =
                  match decode_ref f d with
                  | None => None
                  | Some (k, r) => match decode_ref f r with None => None | Some (v, r') => Some ((k, v), r') end
                  end) by reflexivity.
    rewrite Esp. clear Esp.
    pose proof (IH d Hf) as Hd. unfold agrees in Hd.
    destruct (decode_ref f d) as [[k r1]|] eqn:E1.
    2:{ destruct Hd as [e ->]. exists e. reflexivity. }
    rewrite Hd. apply decode_progress in E1.
    destruct g2 as [|g2]; [lia|]. cbn [skip_rep].
    replace (2 * cnt - 1 =? 0) with false by (symmetry; lia).
    assert (Hf1 : (length r1 < f)%nat) by lia.
    pose proof (IH r1 Hf1) as Hd1. unfold agrees in Hd1.
    destruct (decode_ref f r1) as [[v r2]|] eqn:E2.
    2:{ destruct Hd1 as [e ->]. exists e. reflexivity. }
    rewrite Hd1. apply decode_progress in E2.
    replace (2 * cnt - 1 - 1) with (2 * (cnt - 1)) by lia.
    specialize (IHg (cnt - 1) r2 g2).
    destruct (rep (step_pair (decode_ref f)) g (cnt - 1) r2) as [[kvs r3]|]; apply IHg; lia.
  Qed.

  Lemma by_agree h d : (length d < f)%nat -> agrees (decode_by f h d) (skip_by f h d).
  Proof.
    intros Hd. unfold agrees.
    destruct h; cbn [decode_by skip_by]; unfold ext_dec, take_len, get_value.
    - reflexivity.
    - exists EParse. reflexivity.
    - destruct (take k d) as [[s r]|]; cbn [bind]; [reflexivity | exists EParse; reflexivity].
    - destruct (take n d) as [[s r]|]; cbn [bind]; [reflexivity | exists EParse; reflexivity].
    - exists EParse. reflexivity.
    - (* HLenStr *)
      destruct (take klen d) as [[lb r]|] eqn:E; cbn [bind]; [|exists EParse; reflexivity].
      rewrite N.add_0_l. rewrite (take_add _ (be_val lb) _ _ _ E).
      destruct (take (be_val lb) r) as [[s r']|]; cbn [bind]; [reflexivity | exists EParse; reflexivity].
    - destruct (take klen d) as [[lb r]|] eqn:E; cbn [bind]; [|exists EParse; reflexivity].
      rewrite N.add_0_l. rewrite (take_add _ (be_val lb) _ _ _ E).
      destruct (take (be_val lb) r) as [[s r']|]; cbn [bind]; [reflexivity | exists EParse; reflexivity].
    - (* HExtFix *)
      destruct (take 1 d) as [[t r]|] eqn:E; cbn [bind].
      + rewrite (take_add _ n _ _ _ E). destruct (take n r) as [[s r']|]; cbn [bind]; [reflexivity | exists EParse; reflexivity].
      + rewrite (take_add_none _ n _ E). exists EParse. reflexivity.
    - (* HLenExt *)
      destruct (take klen d) as [[lb r]|] eqn:E; cbn [bind]; [|exists EParse; reflexivity].
      replace (1 + klen + be_val lb) with (klen + (1 + be_val lb)) by lia.
      rewrite (take_add _ (1 + be_val lb) _ _ _ E).
      destruct (take 1 r) as [[t r1]|] eqn:E1; cbn [bind].
      + rewrite (take_add _ (be_val lb) _ _ _ E1).
        destruct (take (be_val lb) r1) as [[s r']|]; cbn [bind]; [reflexivity | exists EParse; reflexivity].
      + rewrite (take_add_none _ (be_val lb) _ E1). exists EParse. reflexivity.
    - (* HArr *)
      pose proof (rep_agree f n d Hd Hd) as H.
      destruct (rep (decode_ref f) f n d) as [[vs r]|]; cbn [bind]; exact H.
    - pose proof (rep_pair_agree f n d f Hd Hd Hd) as H.
      destruct (rep (step_pair (decode_ref f)) f n d) as [[vs r]|]; cbn [bind]; exact H.
    - destruct (take klen d) as [[lb r]|] eqn:E; cbn [bind]; [|exists EParse; reflexivity].
      apply take_length in E. assert (Hr : (length r < f)%nat) by lia.
      pose proof (rep_agree f (be_val lb) r Hr Hr) as H.
      destruct (rep (decode_ref f) f (be_val lb) r) as [[vs r']|]; cbn [bind]; exact H.
    - destruct (take klen d) as [[lb r]|] eqn:E; cbn [bind]; [|exists EParse; reflexivity].
      apply take_length in E. assert (Hr : (length r < f)%nat) by lia.
      pose proof (rep_pair_agree f (be_val lb) r f Hr Hr Hr) as H.
      destruct (rep (step_pair (decode_ref f)) f (be_val lb) r) as [[vs r']|]; cbn [bind]; exact H.
  Qed.
End Agree.

Theorem skip_agrees_fuel : forall f d, (length d < f)%nat -> agrees (decode_ref f d) (skip_impl f d).
Proof.
  induction f as [|f IH]; intros d Hd; [lia|].
  destruct d as [|b d].
  - cbn. exists EParse. reflexivity.
  - rewrite decode_ref_by, skip_impl_by. apply by_agree; [exact IH | cbn [length] in Hd; lia].
Qed.

(* C05 / C07: on every input, SkipValue consumes exactly what the reference decoder reads as one
   value, and fails (ParsingError) exactly when the reference decoder rejects the input *)
Theorem skip_value_agrees d : agrees (decode d) (skip_value d).
Proof. unfold decode, skip_value. apply skip_agrees_fuel. lia. Qed.

Corollary skip_value_never_out_of_fuel d : skip_value d <> SFuel.
Proof.
  pose proof (skip_value_agrees d) as H. unfold agrees in H.
  destruct (decode d) as [[v r]|]; [rewrite H; discriminate | destruct H as [e ->]; discriminate].
Qed.

(* ---------- typed reads against the reference decoder ---------- *)
Definition mismatch_outcome {A} (o : opts) (r : list N) : rres A :=
  match o_mismatch o with PThrow => RErr EMismatch | PSkip => RNot r end.

Lemma handle_mismatch_agrees {A} o ty data :
  match decode data with
  | Some (v, r) =>
      @handle_mismatch A o (inl ty) data =
        if vtype_eqb ty TNil then RNot r else mismatch_outcome o r
  | None => exists e, @handle_mismatch A o (inl ty) data = RErr e
  end.
Proof.
  pose proof (skip_value_agrees data) as H. unfold agrees in H. unfold handle_mismatch, mismatch_outcome.
  destruct (decode data) as [[v r]|].
  - rewrite H. destruct (vtype_eqb ty TNil); cbn [negb andb]; [reflexivity|].
    destruct (o_mismatch o); reflexivity.
  - destruct H as [e ->]. destruct (negb (vtype_eqb ty TNil) && _); eexists; reflexivity.
Qed.

Definition int_spec (o : opts) (t : ity) (data : list N) : rres Z -> Prop :=
  fun res =>
  match decode data with
  | Some (MInt z, r) => res = convert_int o t z r
  | Some (MBool b, r) => res = convert_int o t (if b then 1 else 0)%Z r
  | Some (MNil, r) => res = RNot r
  | Some (_, r) => res = mismatch_outcome o r
  | None => exists e, res = RErr e
  end.

Ltac decode_shapes E :=
  cbn [decode_by] in E; unfold ext_dec, take_len in E;
  repeat match type of E with
  | context [bind (take ?k ?d) _] => destruct (take k d) as [[? ?]|]; cbn [bind] in E
  | context [bind (rep ?s ?g ?c ?d) _] => destruct (rep s g c d) as [[? ?]|]; cbn [bind] in E
  end; try discriminate E; try (injection E as <- <-).

Lemma to_signed8_small b : b < 0x80 -> to_signed 8 b = Z.of_N b.
Proof. intros H. unfold to_signed. change (2 ^ (8 - 1)) with 128. replace (b <? 128) with true by (symmetry; lia). reflexivity. Qed.
Lemma to_signed8_big b : 0x80 <= b -> to_signed 8 b = (Z.of_N b - 256)%Z.
Proof. intros H. unfold to_signed. change (2 ^ (8 - 1)) with 128. replace (b <? 128) with false by (symmetry; lia). reflexivity. Qed.

Ltac resolve_b_tests b :=
  repeat match goal with
  | |- context [if (?c <=? b) then _ else _] =>
      first [replace (c <=? b) with true by (symmetry; lia) | replace (c <=? b) with false by (symmetry; lia)]
  | |- context [if (b <? ?c) then _ else _] =>
      first [replace (b <? c) with true by (symmetry; lia) | replace (b <? c) with false by (symmetry; lia)]
  | |- context [if (b <=? ?c) then _ else _] =>
      first [replace (b <=? c) with true by (symmetry; lia) | replace (b <=? c) with false by (symmetry; lia)]
  end.

Ltac finish_read HM :=
  unfold get_value;
  match goal with
  | |- match ?X with _ => _ end =>
      let E := fresh "E" in
      destruct X as [[? ?]|] eqn:E;
      [ decode_shapes E; unfold get_value; cbn [N.mul Pos.mul bind];
        first [ reflexivity | rewrite HM; reflexivity | idtac ]
      | first [ exact HM
              | decode_shapes E; unfold get_value; cbn [bind]; first [eexists; reflexivity | exact HM | idtac] ] ]
  end.

Ltac decode_shapes_eq E :=
  cbn [decode_by] in E; unfold ext_dec, take_len in E;
  repeat match type of E with
  | context [bind (take ?k ?d) _] => let ET := fresh "ET" in destruct (take k d) as [[? ?]|] eqn:ET; cbn [bind] in E
  | context [bind (rep ?s ?g ?c ?d) _] => destruct (rep s g c d) as [[? ?]|]; cbn [bind] in E
  end; try discriminate E; try (injection E as <- <-).

Theorem read_int_agrees o t data : int_spec o t data (read_int o t data).
Proof.
  unfold int_spec. destruct data as [|b r1].
  { cbn. exists EParse. reflexivity. }
  pose proof (@handle_mismatch_agrees Z o (m_ty (byte_meta b)) (b :: r1)) as HM.
  unfold decode in *. cbn [length] in *. rewrite decode_ref_by in *.
  unfold read_int. unfold classify, byte_meta in *.
  split_first_byte b; try lia.
  all: cbn [orb N.ltb N.leb N.eqb Pos.eqb N.compare Pos.compare Pos.compare_cont negb m_ty vtype_eqb] in *.
  all: resolve_b_tests b.
  all: rewrite ?to_signed8_small, ?to_signed8_big by lia.
  all: finish_read HM.
Qed.

(* ---- ReadValueType and the mismatch path that goes through it ---- *)
Definition is_nil (v : mpv) : bool := match v with MNil => true | _ => false end.

Lemma nth_byte_cons b r i : nth_byte (b :: r) (1 + i) = nth_byte r i.
Proof. unfold nth_byte. replace (N.to_nat (1 + i)) with (S (N.to_nat i)) by lia. reflexivity. Qed.

Lemma take_nth k d s r : take k d = Some (s, r) -> forall t r', take 1 r = Some (t, r') ->
  exists c, nth_byte d k = Some c.
Proof.
  intros H t r' H1. apply take_some in H. destruct H as [-> Hk].
  apply take_some in H1. destruct H1 as [-> Ht]. unfold nth_byte.
  destruct t as [|c t]; [cbn in Ht; lia|]. exists c.
  rewrite nth_error_app2 by lia. replace (N.to_nat k - length s)%nat with 0%nat by lia. reflexivity.
Qed.

Lemma ext_family_fix b n r1 t r : byte_meta b = mkMeta TExt n 1 0 -> n <> 0 ->
  take 1 r1 = Some (t, r) ->
  exists c, t = [c] /\
    read_ext_family (b :: r1) = inl (Some (mkExt (if c =? 0xFF then TTimestamp else TExt) 2 n c)).
Proof.
  intros Hm Hn H1. unfold read_ext_family. rewrite Hm. cbn [m_ty m_fixed m_data m_ext vtype_eqb negb N.add].
  replace (n =? 0) with false by (symmetry; lia). cbn [negb].
  pose proof H1 as H1'. apply take_some in H1'. destruct H1' as [-> Ht].
  destruct t as [|c [|? ?]]; cbn [length] in Ht; try lia. exists c. split; [reflexivity|].
  cbn [app length]. change (N.pos (1 + 1)) with 2.
  replace (2 <=? N.of_nat (S (S (length r)))) with true by (symmetry; lia).
  reflexivity.
Qed.

Lemma ext_family_len b kl r1 lb r t r' : byte_meta b = mkMeta TExt 0 1 kl -> kl <> 0 ->
  take kl r1 = Some (lb, r) -> take 1 r = Some (t, r') ->
  exists c, t = [c] /\
    read_ext_family (b :: r1) = inl (Some (mkExt (if c =? 0xFF then TTimestamp else TExt) (2 + kl) (be_val lb) c)).
Proof.
  intros Hm Hn Hk H1. unfold read_ext_family. rewrite Hm. cbn [m_ty m_fixed m_data m_ext vtype_eqb negb N.eqb].
  replace (kl =? 0) with false by (symmetry; lia). cbn [negb].
  unfold get_value. rewrite Hk.
  pose proof H1 as H1'. apply take_some in H1'. destruct H1' as [-> Ht].
  destruct t as [|c [|? ?]]; cbn [length] in Ht; try lia. exists c. split; [reflexivity|].
  pose proof Hk as Hk'. apply take_some in Hk'. destruct Hk' as [-> Hl].
  replace (1 + 1 + kl) with (2 + kl) by lia.
  cbn [length]. rewrite !app_length. cbn [length].
  rewrite nth_byte_cons. unfold nth_byte. rewrite nth_error_app2 by lia.
  replace (N.to_nat kl - length lb)%nat with 0%nat by lia. cbn [app nth_error].
  match goal with |- context [if ?c then _ else _] => replace c with true by (symmetry; lia) end.
  reflexivity.
Qed.

Lemma read_value_type_ok b r1 :
  match decode (b :: r1) with
  | Some (v, r) => exists t, read_value_type (b :: r1) = inl t /\ vtype_eqb t TNil = is_nil v
  | None => True
  end.
Proof.
  unfold decode. cbn [length]. rewrite decode_ref_by.
  unfold read_value_type. unfold classify.
  split_first_byte b; try lia.
  all: match goal with
       | |- match ?X with _ => _ end =>
           let E := fresh "E" in destruct X as [[? ?]|] eqn:E; [|exact I];
           decode_shapes_eq E
       end.
  all: try (unfold byte_meta; resolve_b_tests b;
            repeat match goal with H : (?x =? ?c) = false |- _ => rewrite H; clear H end;
            cbn [N.ltb N.leb N.eqb Pos.eqb N.compare Pos.compare Pos.compare_cont negb m_ty vtype_eqb];
            eexists; split; reflexivity).
  all: first
    [ match goal with
      | H : take ?kl ?rr = Some (_, ?l0), H1 : take 1 ?l0 = Some _ |- context [read_ext_family (?B :: ?rr)] =>
          let c := fresh "c" in let Hx := fresh "Hx" in
          assert (Hkl : kl <> 0) by discriminate;
          destruct (ext_family_len B kl rr _ _ _ _ eq_refl Hkl H H1) as [c [-> Hx]];
          rewrite Hx; destruct (c =? 255)
      end
    | match goal with
      | H1 : take 1 ?rr = Some _ |- context [read_ext_family (?B :: ?rr)] =>
          let c := fresh "c" in let Hx := fresh "Hx" in
          match eval cbv in (m_fixed (byte_meta B)) with
          | ?n => assert (Hn : n <> 0) by discriminate;
                  destruct (ext_family_fix B n rr _ _ eq_refl Hn H1) as [c [-> Hx]];
                  rewrite Hx; destruct (c =? 255)
          end
      end ].
  all: cbn [byte_meta N.ltb N.leb N.eqb Pos.eqb N.compare Pos.compare Pos.compare_cont m_ty vtype_eqb x_vt].
  all: eexists; split; reflexivity.
Qed.

Lemma mismatch_via_type_agrees {A} o data :
  match decode data with
  | Some (v, r) => @mismatch_via_type A o data = if is_nil v then RNot r else mismatch_outcome o r
  | None => exists e, @mismatch_via_type A o data = RErr e
  end.
Proof.
  unfold mismatch_via_type. destruct data as [|b r1].
  { cbn. exists EParse. reflexivity. }
  pose proof (read_value_type_ok b r1) as HT.
  destruct (read_value_type (b :: r1)) as [t|e] eqn:ERT.
  - pose proof (@handle_mismatch_agrees A o t (b :: r1)) as HM.
    destruct (decode (b :: r1)) as [[v r]|]; [|exact HM].
    destruct HT as [t' [Ht' Hn]]. injection Ht' as <-. rewrite HM, Hn. reflexivity.
  - destruct (decode (b :: r1)) as [[v r]|].
    + destruct HT as [t' [Ht' _]]. discriminate.
    + exists e. reflexivity.
Qed.

